import SoxrModel.Cr.Model
/-!
# Time alignment: which input instant an output frame represents (exact rationals)

Every stage is a uniform resampler: output frame `j` of a stage represents the instant `a·j + b` of the stage's *input*
stream (in that stream's sample periods, frame 0 of the stream being instant 0), where `a` is the stage's rate
(`step/den`, 2 for a half-band decimator, `M/L` for a dft stage) and `b` collects three things the planner must make
cancel: the initial clock `at₀`, the position of the kernel's centre inside the window it reads (`pre`, the peak
`post_peak` of the dft filter, the middle of the poly-phase prototype) and the zero `preload` of the stage's FIFO.
`LatInfo` carries the integers of the real plan that `b` depends on (exported by the harness with every plan);
`tstage` is the map from plan integers to `(a, b)`; `timeOf` composes the stages.  The driver evaluates `offsetOf`,
`rateOf` and `LatOK` on every exported plan (`cr.time`).

Derivations of `b` from the kernels (checked end to end by the ramp / impulse measurements of `checks/c04.py`):
* half-band (`half-fir.h`): `output[i] = Σ coef·(input[2i ± k])`, `input = fifo + pre`  ⇒ centre at FIFO position `pre + 2i`;
* cubic (`cr-core.c`): interpolates between `s[0]` and `s[1]`, `s = fifo + pre + at.integer` at fraction `x`  ⇒ `pre + at`;
* poly-phase (`poly-fir*.h`, `prepare_poly_fir_coefs`): tap `i`, phase `j` holds prototype coefficient `i·P + j − 1` and
  multiplies `in[at.integer + n4 − 1 − i]`; the prototype (length `nc·P − 1`) is centred at index `(nc·P − 2)/2`
  ⇒ centre at FIFO position `at + n4 − 1 − nc/2` (`pre = 0`);
* dft (`dft_stage_init`, `dft_stage_fn`): the input is zero-stuffed to positions `at + j·L`, the filter is placed
  anti-causally (`offset = dft_length − num_taps + 1`), so up-sampled output `n` is `Σ h[i]·u[n + num_taps − 1 − i]`: the
  peak tap `post_peak` sits over up-sampled position `n + num_taps − 1 − post_peak`, i.e. FIFO position
  `(n + num_taps − 1 − post_peak − at)/L`; output `j` is up-sampled index `j·M` (`remM₀ = 0`).
-/
namespace Soxr.Cr

/-- plan integers that only time alignment looks at -/
structure LatInfo where
  pre : Nat := 0          -- `stage_t.pre`
  postPeak : Nat := 0     -- dft: `dft_filter_t.post_peak`
  nc : Nat := 0           -- poly-phase: `num_coefs` (before rounding up to a multiple of 4 for SIMD)
  cubic : Bool := false
  deriving Repr, Inhabited

/-- a stage with everything the time map needs -/
structure LStage where
  cfg : StageCfg
  s0 : StageSt            -- initial integers; `s0.occ` is `preload`
  lat : LatInfo
  deriving Repr, Inhabited

structure TStage where
  a : Rat
  b : Rat
  deriving Repr, Inhabited

/-- decimation factor of a dft stage: `step.integer`, or `2^m` for the F-domain decimator (`step.integer = −m`) -/
def dftM (c : StageCfg) : Nat := if 0 < c.M then c.M.toNat else 2 ^ (-c.M).toNat

def tstage (x : LStage) : TStage :=
  let pl : Rat := (x.s0.occ : Nat)
  match x.cfg.kind with
  | .half => { a := 2, b := (x.lat.pre : Nat) - pl }
  | .clocked =>
    let clk : Rat := (x.s0.clk : Nat) / (x.cfg.den : Nat)
    if x.lat.cubic then { a := (x.cfg.step : Nat) / (x.cfg.den : Nat), b := clk + (x.lat.pre : Nat) - pl }
    else { a := (x.cfg.step : Nat) / (x.cfg.den : Nat),
           b := clk + ((x.cfg.taps : Nat) - 1 - (x.lat.nc : Nat) / 2) - pl }
  | .dft =>
    { a := (dftM x.cfg : Nat) / (x.cfg.L : Nat),
      b := (((x.cfg.numTaps : Nat) - 1 - (x.lat.postPeak : Nat) - (x.s0.clk : Nat)) : Rat) / (x.cfg.L : Nat) - pl }

/-- the instant (in periods of the pipeline's input) represented by position `t` of the top stage's output stream;
    stages output side first -/
def timeOf : List TStage → Rat → Rat
  | [], t => t
  | s :: below, t => timeOf below (s.a * t + s.b)

def rateOf : List TStage → Rat
  | [] => 1
  | s :: below => s.a * rateOf below

def offsetOf : List TStage → Rat
  | [] => 0
  | s :: below => s.b * rateOf below + offsetOf below

/-- the planner's latency compensation, stage by stage (all natural-number facts about exported integers).
    For the clocked poly-phase stage the initial clock may exceed the exact value by at most `2⁻³³` input periods
    (`exact = false`): `_soxr_init` starts the hi-prec clock at half a unit of `2⁻³²` (`at.fix.ls.parts.ms = 0x80000000`). -/
def LatOK (exact : Bool) (x : LStage) : Prop :=
  match x.cfg.kind with
  | .half => x.lat.pre = x.s0.occ
  | .clocked =>
    if x.lat.cubic then x.lat.pre = x.s0.occ ∧ x.s0.clk = 0 ∧ 0 < x.cfg.den
    else x.lat.nc ≤ x.cfg.taps ∧ 1 ≤ x.lat.nc ∧ x.s0.occ = (x.lat.nc - 1) / 2 + (x.cfg.taps - x.lat.nc) ∧ 0 < x.cfg.den ∧
         x.cfg.den * (x.lat.nc % 2) ≤ 2 * x.s0.clk ∧
         2 * x.s0.clk - x.cfg.den * (x.lat.nc % 2) ≤ (if exact then 0 else x.cfg.den / 2 ^ 32)
  | .dft => x.cfg.numTaps = 2 * x.lat.postPeak + 1 ∧ 0 < x.cfg.L ∧ x.s0.occ = x.lat.postPeak / x.cfg.L ∧
         x.s0.clk = x.lat.postPeak % x.cfg.L

instance (e : Bool) (x : LStage) : Decidable (LatOK e x) := by
  unfold LatOK; cases x.cfg.kind <;> simp only <;> exact inferInstance

def blockLen (c : StageCfg) : Nat := c.dftLen - (c.numTaps - 1)

/-- shape clauses of a dft stage beyond `StageWF`: the decimation phase starts at 0; a power-of-two (frequency-domain)
    up-sampler needs `L ∣ block_len` (what non-linear phase breaks on the pinned tree: finding F1); the
    frequency-domain decimator needs `2^m ∣ block_len` -/
def DftShapeOK (c : StageCfg) (s0 : StageSt) : Prop :=
  s0.remM = 0 ∧ ((isPow2 c.L || c.L == 1) = true → c.L ∣ blockLen c) ∧ (c.M ≤ 0 → 2 ^ (-c.M).toNat ∣ blockLen c)

instance (c : StageCfg) (s0 : StageSt) : Decidable (DftShapeOK c s0) := by unfold DftShapeOK; exact inferInstance

/-- post-context of a stage beyond the centre of its kernel, in periods of the stage's input: how far past the
    represented instant the last sample an output WAITS FOR lies, minus one.  For the cubic stage that is the stage's hold-back
    `pre_post` (`max(3, ⌊factor⌋)`: an output is produced only once `pre_post + 1` frames from its position are in the FIFO), not
    the four taps it reads - which is what keeps a large-factor cubic stage from handing out a frame the final total does not
    contain. -/
def margin (x : LStage) : Rat :=
  match x.cfg.kind with
  | .half => (x.cfg.prePost : Nat) - (x.lat.pre : Nat) - 1
  | .clocked => if x.lat.cubic then (x.cfg.prePost : Nat) - (x.lat.pre : Nat) - 1 else (x.lat.nc : Nat) / 2 - 1
  | .dft => (((x.lat.postPeak : Nat) + 1 - (x.cfg.L : Nat)) : Rat) / (x.cfg.L : Nat)

/-- the window of every output reaches at least to the centre of its kernel (so that no output can appear before the
    input it represents), plus the shape clauses of the dft block recurrences -/
def EarlyOK (x : LStage) : Prop :=
  match x.cfg.kind with
  | .half => x.lat.pre + 1 ≤ x.cfg.prePost
  | .clocked => if x.lat.cubic then x.lat.pre + 2 ≤ x.cfg.taps ∧ x.lat.pre + 1 ≤ x.cfg.prePost else 2 ≤ x.lat.nc ∧ x.lat.nc ≤ x.cfg.taps
  | .dft => x.cfg.L ≤ x.lat.postPeak + 1 ∧ DftShapeOK x.cfg x.s0

instance (x : LStage) : Decidable (EarlyOK x) := by
  unfold EarlyOK; cases x.cfg.kind <;> simp only <;> exact inferInstance

/-- the general form of the never-early hypothesis, also for non-linear phase (where the kernel's peak is not centred
    and `b` may be negative): the dft shape clauses, and the last sample an output reads lies at or beyond the input
    instant of that output: `0 ≤ b + margin` -/
def EarlyGen (x : LStage) : Prop :=
  (x.cfg.kind = .dft → DftShapeOK x.cfg x.s0) ∧ 0 ≤ (tstage x).b + margin x

instance (x : LStage) : Decidable (EarlyGen x) := by unfold EarlyGen; exact inferInstance

def PlanEarlyGen (l : List LStage) : Prop := ∀ x ∈ l, EarlyGen x
instance (l : List LStage) : Decidable (PlanEarlyGen l) := by unfold PlanEarlyGen; exact inferInstance

def PlanEarlyOK (l : List LStage) : Prop := ∀ x ∈ l, EarlyOK x
instance (l : List LStage) : Decidable (PlanEarlyOK l) := by unfold PlanEarlyOK; exact inferInstance

/-- the pipeline's total post-context, in periods of its input -/
def margOf : List LStage → Rat
  | [] => 0
  | x :: below => margin x * rateOf (below.map tstage) + margOf below

def PlanLatOK (exact : Bool) (l : List LStage) : Prop := ∀ x ∈ l, LatOK exact x
instance (e : Bool) (l : List LStage) : Decidable (PlanLatOK e l) := by unfold PlanLatOK; exact inferInstance

end Soxr.Cr
