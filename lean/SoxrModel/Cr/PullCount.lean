import SoxrModel.Cr.Pull
/-!
# Everything the input function supplies reaches the engine exactly once

`samples_in` of the engine grows, over one `soxr_output` call, by exactly the sum of the supplies the call consumed from
the script — nothing is dropped, nothing is fed twice — for every script, every state and every request.
-/
namespace Soxr.Cr

/-- frames carried by a list of answers -/
def dataSum : List Supply → Nat
  | [] => 0
  | .data n :: r => n + dataSum r
  | _ :: r => dataSum r

theorem dataSum_append (a b : List Supply) : dataSum (a ++ b) = dataSum a + dataSum b := by
  induction a with
  | nil => simp [dataSum]
  | cons x r ih => cases x <;> simp [dataSum, ih] <;> omega

/-- `_soxr_process` never touches the counters -/
theorem procLoop_counters (fuel : Nat) : ∀ (k : Nat) (e : Eng) (n : Int) (done : Bool) (e' : Eng),
    procLoop fuel k e n done = some e' → e'.sin = e.sin ∧ e'.sout = e.sout ∧ e'.fl = e.fl := by
  intro k
  induction k with
  | zero => intro e n done e' h; simp [procLoop] at h
  | succ k ih =>
    intro e n done e' h
    unfold procLoop at h
    split at h
    · revert h
      cases hs : e.stages with
      | nil => intro h; exact ih _ _ _ _ h
      | cons y r =>
        intro h
        simp only at h
        cases hcal : sp e.fl fuel (y :: r) false with
        | none => simp [hcal] at h
        | some v =>
          obtain ⟨st', prod, d⟩ := v
          rw [hcal] at h
          simp only at h
          exact ih { e with stages := st', outOcc := e.outOcc + prod } n d e' h
    · injection h with h; subst h; exact ⟨rfl, rfl, rfl⟩

/-- `soxr_output_no_callback` on a resampler that has not been told end-of-input leaves `samples_in` alone -/
theorem outputNoCb_sin (num : Num) (fuel : Nat) (a : Api) (len : Nat) (a1 : Api) (od : Nat)
    (h : a.outputNoCb num fuel len = some (a1, od)) (hfl : a.flushing = false) :
    a1.eng.sin = a.eng.sin ∧ a1.eng.fl = a.eng.fl := by
  unfold Api.outputNoCb at h
  simp only [hfl, Bool.false_eq_true, if_false] at h
  cases hp : a.eng.process fuel len with
  | none => simp [hp] at h
  | some e' =>
    simp only [hp] at h
    injection h with h
    injection h with h1 _
    rw [← h1]
    obtain ⟨c1, _, c3⟩ := procLoop_counters fuel fuel a.eng _ false e' hp
    exact ⟨by simp [Eng.output, c1], by simp [Eng.output, c3]⟩

/-- **Everything supplied is consumed exactly once.**  If a `soxr_output` call (pull loop) ends without end-of-input
    having been latched, the engine's `samples_in` has grown by exactly the frames of the answers the call consumed. -/
theorem pullLoop_sin (num : Num) (fuel len0 ilen : Nat) : ∀ (k : Nat) (a : Api) (olen odone0 : Nat) (script : List Supply)
    (reqs : List Nat) (a' : Api) (od : Nat) (rest : List Supply) (reqs' : List Nat),
    pullLoop num fuel len0 ilen k a olen odone0 script reqs = some (a', od, rest, reqs') → a.error = false →
    a.eng.fl = false → a'.flushing = false →
    ∃ used, script = used ++ rest ∧ a'.eng.sin = a.eng.sin + dataSum used ∧ a'.eng.fl = false := by
  intro k
  induction k with
  | zero => intro a olen odone0 script reqs a' od rest reqs' h; simp [pullLoop] at h
  | succ k ih =>
    intro a olen odone0 script reqs a' od rest reqs' h herr hefl hfl'
    unfold pullLoop at h
    cases hcb : a.outputNoCb num fuel olen with
    | none => simp [hcb] at h
    | some v =>
      obtain ⟨a1, odone⟩ := v
      obtain ⟨f1, f2, f3, f4⟩ := outputNoCb_flags num fuel a olen a1 odone hcb
      simp only [hcb] at h
      split at h
      · injection h with h; injection h with h1 h; injection h with _ h; injection h with h3 _
        subst h1; subst h3
        have hafl : a.flushing = false := by rw [← f1]; exact hfl'
        obtain ⟨s1, s2⟩ := outputNoCb_sin num fuel a olen a1 odone hcb hafl
        exact ⟨[], by simp, by simp [dataSum, s1], by rw [s2]; exact hefl⟩
      · rename_i hcont
        have hnf : a1.flushing = false := by
          simp only [Bool.or_eq_true, decide_eq_true_eq, Bool.not_eq_true', not_or] at hcont
          simpa using hcont.2
        have hafl : a.flushing = false := by rw [← f1]; exact hnf
        obtain ⟨s1, s2⟩ := outputNoCb_sin num fuel a olen a1 odone hcb hafl
        cases script with
        | nil =>
          simp only at h
          injection h with h; injection h with h1 h; injection h with _ h; injection h with h3 _
          subst h1; subst h3
          exact ⟨[], by simp, by simp [dataSum, s1], by rw [s2]; exact hefl⟩
        | cons r rest0 =>
          simp only at h
          cases r with
          | fail =>
            simp only at h
            injection h with h; injection h with h1 h; injection h with _ h; injection h with h3 _
            subst h1; subst h3
            exact ⟨[Supply.fail], by simp, by simp [dataSum, s1], by simp [s2, hefl]⟩
          | eof =>
            -- end-of-input is latched: excluded by the hypothesis on the final state
            simp only at h
            obtain ⟨i1, i2, i3, i4, i5, i6⟩ := input_flags a1 0
            have hfl2 : (a1.input 0).flushing = true := i6 (by rw [f2]; exact herr) rfl
            split at h
            · have := (pullLoop_spec num fuel len0 ilen k _ _ _ _ _ _ _ _ _ h (by rw [i1, f2]; exact herr)).fl_mono hfl2
              rw [hfl'] at this; cases this
            · injection h with h; injection h with h1 _
              rw [← h1] at hfl'; rw [hfl2] at hfl'; cases hfl'
          | data n =>
            simp only at h
            obtain ⟨i1, i2, i3, i4, i5, i6⟩ := input_flags a1 n
            rcases Nat.eq_zero_or_pos n with hn0 | hnpos
            · subst hn0
              have hfl2 : (a1.input 0).flushing = true := i6 (by rw [f2]; exact herr) rfl
              split at h
              · have := (pullLoop_spec num fuel len0 ilen k _ _ _ _ _ _ _ _ _ h (by rw [i1, f2]; exact herr)).fl_mono hfl2
                rw [hfl'] at this; cases this
              · injection h with h; injection h with h1 _
                rw [← h1] at hfl'; rw [hfl2] at hfl'; cases hfl'
            · have hin : (a1.input n).eng.sin = a1.eng.sin + n ∧ (a1.input n).eng.fl = false := by
                have he : a1.error = false := by rw [f2]; exact herr
                have hn : ¬ (n = 0) := by omega
                have hfl1 : a1.eng.fl = false := by rw [s2]; exact hefl
                unfold Api.input
                simp only [he, Bool.false_eq_true, if_false, hn]
                unfold Eng.input
                simp only [hfl1, Bool.false_eq_true, if_false]
                cases a1.eng.stages <;> exact ⟨rfl, rfl⟩
              split at h
              · obtain ⟨used, u1, u2, u3⟩ := ih _ _ _ _ _ _ _ _ _ h (by rw [i1, f2]; exact herr) hin.2 hfl'
                refine ⟨Supply.data n :: used, by simp [u1], ?_, u3⟩
                rw [u2, hin.1, s1]; simp only [dataSum]; omega
              · injection h with h; injection h with h1 h; injection h with _ h; injection h with h3 _
                subst h1; subst h3
                exact ⟨[Supply.data n], by simp, by rw [hin.1, s1]; simp [dataSum], hin.2⟩

end Soxr.Cr
