import SoxrModel.Cr.Progress
/-!
# Engine level: `_soxr_process` terminates, the drain is exact, nothing afterwards

* `procLoop_mono`, `process_det`   results do not depend on the fuel;
* `process_flush_total`   flushing: `_soxr_process(olen)` terminates and leaves at least `min(-samples_out, olen)` frames
                          in the output FIFO;
* `process_stream_total`  streaming: `_soxr_process` terminates for every well-formed state and request;
* `process_stream_latency` if it leaves fewer frames than requested, every stage FIFO is below its `input_size`.
-/
namespace Soxr.Cr

theorem procLoop_mono (fuel : Nat) : ∀ (k : Nat) (e : Eng) (n : Int) (done : Bool) (r : Eng),
    procLoop fuel k e n done = some r → ∀ f' k', procLoop (fuel + f') (k + k') e n done = some r := by
  intro k
  induction k with
  | zero => intro e n done r h; simp [procLoop] at h
  | succ k ih =>
    intro e n done r h f' k'
    have ek : k + 1 + k' = (k + k') + 1 := by omega
    rw [ek]
    unfold procLoop at h ⊢
    split at h
    · rename_i hc
      simp only [hc, if_true]
      revert h
      cases hst : e.stages with
      | nil => intro h; exact ih _ _ _ _ h f' k'
      | cons y rest =>
        intro h
        simp only at h ⊢
        cases hcal : sp e.fl fuel (y :: rest) false with
        | none => simp [hcal] at h
        | some v =>
          rw [hcal] at h
          rw [sp_mono e.fl fuel _ false _ hcal f']
          exact ih _ _ _ _ h f' k'
    · rename_i hc
      simp only [hc] at h ⊢
      exact h

/-- invariants that no part of `_soxr_process` touches -/
structure SameCounters (e e' : Eng) : Prop where
  sin : e'.sin = e.sin
  sout : e'.sout = e.sout
  fl : e'.fl = e.fl
  len : e'.stages.length = e.stages.length

theorem SameCounters.refl (e : Eng) : SameCounters e e := ⟨rfl, rfl, rfl, rfl⟩
theorem SameCounters.trans {a b c : Eng} (h1 : SameCounters a b) (h2 : SameCounters b c) : SameCounters a c :=
  ⟨h2.sin.trans h1.sin, h2.sout.trans h1.sout, h2.fl.trans h1.fl, h2.len.trans h1.len⟩

/-- flushing: the loop of `_soxr_process` ends with at least `n` frames in the output FIFO -/
theorem procLoop_flush (n : Int) : ∀ (m : Nat) (e : Eng), e.fl = true → e.stages ≠ [] → PipeWF e.stages →
    (n - e.outOcc).toNat ≤ m →
    ∃ F e', (∀ fuel k, F ≤ fuel → m + 1 ≤ k → procLoop fuel k e n false = some e') ∧ n ≤ e'.outOcc ∧
      SameCounters e e' ∧ PipeWF e'.stages := by
  intro m
  induction m with
  | zero =>
    intro e _ _ hwf hm
    refine ⟨0, e, ?_, by omega, SameCounters.refl e, hwf⟩
    intro fuel k _ hk
    obtain ⟨k', rfl⟩ : ∃ k', k = k' + 1 := ⟨k - 1, by omega⟩
    unfold procLoop
    have : ¬ ((e.outOcc : Int) < n) := by omega
    simp [this]
  | succ m ih =>
    intro e hfl hne hwf hm
    by_cases hlt : (e.outOcc : Int) < n
    · obtain ⟨f1, st', p, h1, hp, hwf', hlen⟩ := sp_flush_total e.stages hne hwf
      have hne' : st' ≠ [] := by
        intro h0; rw [h0] at hlen
        cases hs : e.stages with
        | nil => exact hne hs
        | cons a b => rw [hs] at hlen; simp at hlen
      obtain ⟨F2, e', h2, hocc, hsame, hwf2⟩ := ih { e with stages := st', outOcc := e.outOcc + p } hfl hne' hwf'
        (by simp only; omega)
      refine ⟨max f1 F2, e', ?_, hocc, ?_, hwf2⟩
      · intro fuel k hF hk
        obtain ⟨k', rfl⟩ : ∃ k', k = k' + 1 := ⟨k - 1, by omega⟩
        unfold procLoop
        simp only [hlt, Bool.not_false, Bool.true_and, decide_true, if_true]
        cases hs : e.stages with
        | nil => exact absurd hs hne
        | cons y rest =>
          simp only
          have hsp : sp e.fl fuel (y :: rest) false = some (st', p, false) := by
            have := sp_mono true f1 _ false _ h1 (fuel - f1)
            rw [hfl, ← hs]
            have e1 : f1 + (fuel - f1) = fuel := by omega
            rw [e1] at this; exact this
          rw [hsp]
          exact h2 fuel k' (by omega) (by omega)
      · exact ⟨hsame.sin, hsame.sout, hsame.fl, by rw [hsame.len]; exact hlen⟩
    · refine ⟨0, e, ?_, by omega, SameCounters.refl e, hwf⟩
      intro fuel k _ hk
      obtain ⟨k', rfl⟩ : ∃ k', k = k' + 1 := ⟨k - 1, by omega⟩
      unfold procLoop
      simp [hlt]

/-- **Flushing `_soxr_process` terminates and fills the request.** -/
theorem process_flush_total (e : Eng) (olen : Nat) (hfl : e.fl = true) (hne : e.stages ≠ []) (hwf : PipeWF e.stages) :
    ∃ fuel e', e.process fuel olen = some e' ∧ e.target olen ≤ e'.outOcc ∧ SameCounters e e' ∧ PipeWF e'.stages := by
  obtain ⟨F, e', h, hocc, hsame, hwf'⟩ := procLoop_flush (e.target olen) _ e hfl hne hwf (Nat.le_refl _)
  let fuel := max F ((e.target olen - e.outOcc).toNat + 1)
  refine ⟨fuel, e', ?_, hocc, hsame, hwf'⟩
  unfold Eng.process
  exact h fuel fuel (Nat.le_max_left _ _) (Nat.le_max_right _ _)

/-- streaming: the loop of `_soxr_process` terminates (potential argument) -/
theorem procLoop_stream (n : Int) : ∀ (Φ : Nat) (e : Eng) (done : Bool), e.fl = false → e.stages ≠ [] → PipeWF e.stages →
    phi 0 e.stages ≤ Φ →
    ∃ F e', (∀ fuel k, F ≤ fuel → Φ + 2 ≤ k → procLoop fuel k e n done = some e') ∧ SameCounters e e' ∧
      PipeWF e'.stages ∧ e'.stages ≠ [] := by
  intro Φ
  induction Φ using Nat.strongRecOn with
  | _ Φ ih =>
    intro e done hfl hne hwf hΦ
    by_cases hc : (!done && decide ((e.outOcc : Int) < n)) = true
    · obtain ⟨f1, r, h1, hpost, hwf1⟩ := sp_stream_total (phi 0 e.stages) e.stages false 0 hne hwf (Nat.le_refl _)
      obtain ⟨st', p, d⟩ := r
      simp only at hpost hwf1
      have hlen : st' ≠ [] := by
        intro h0
        -- `sp` never returns an empty pipeline for a non-empty one
        cases hs : e.stages with
        | nil => exact hne hs
        | cons a b =>
          rw [hs] at h1
          exact sp_ne_nil _ _ _ _ _ h1 h0
      cases d with
      | true =>
        -- the loop ends at the next test
        refine ⟨f1, { e with stages := st', outOcc := e.outOcc + p }, ?_, ⟨rfl, rfl, rfl, ?_⟩, hwf1, hlen⟩
        · intro fuel k hF hk
          obtain ⟨k', rfl⟩ : ∃ k', k = k' + 1 := ⟨k - 1, by omega⟩
          obtain ⟨k'', rfl⟩ : ∃ k'', k' = k'' + 1 := ⟨k' - 1, by omega⟩
          unfold procLoop
          simp only [hc, if_true]
          cases hs : e.stages with
          | nil => exact absurd hs hne
          | cons y rest =>
            simp only
            have hsp : sp e.fl fuel (y :: rest) false = some (st', p, true) := by
              have := sp_mono false f1 _ false _ h1 (fuel - f1)
              rw [hfl, ← hs]
              have e1 : f1 + (fuel - f1) = fuel := by omega
              rw [e1] at this; exact this
            rw [hsp]
            simp only
            unfold procLoop
            simp
        · exact sp_len _ _ _ _ _ h1
      | false =>
        have hlt : phi 0 st' < phi 0 e.stages := by
          have := hpost.2 rfl; simp only at this; omega
        obtain ⟨F2, e', h2, hsame, hwf2, hne2⟩ := ih (phi 0 st') (by omega) { e with stages := st', outOcc := e.outOcc + p } false
          hfl hlen hwf1 (Nat.le_refl _)
        refine ⟨max f1 F2, e', ?_, ?_, hwf2, hne2⟩
        · intro fuel k hF hk
          obtain ⟨k', rfl⟩ : ∃ k', k = k' + 1 := ⟨k - 1, by omega⟩
          unfold procLoop
          simp only [hc, if_true]
          cases hs : e.stages with
          | nil => exact absurd hs hne
          | cons y rest =>
            simp only
            have hsp : sp e.fl fuel (y :: rest) false = some (st', p, false) := by
              have := sp_mono false f1 _ false _ h1 (fuel - f1)
              rw [hfl, ← hs]
              have e1 : f1 + (fuel - f1) = fuel := by omega
              rw [e1] at this; exact this
            rw [hsp]
            exact h2 fuel k' (by omega) (by omega)
        · exact ⟨hsame.sin, hsame.sout, hsame.fl, by rw [hsame.len]; exact sp_len _ _ _ _ _ h1⟩
    · refine ⟨0, e, ?_, SameCounters.refl e, hwf, hne⟩
      intro fuel k _ hk
      obtain ⟨k', rfl⟩ : ∃ k', k = k' + 1 := ⟨k - 1, by omega⟩
      unfold procLoop
      have : (!done && decide ((e.outOcc : Int) < n)) = false := by simpa using hc
      simp [this]
where
  sp_ne_nil : ∀ (fl : Bool) (fuel : Nat) (l : List Stage) (done : Bool) (r : List Stage × Nat × Bool),
      sp fl fuel l done = some r → r.1 ≠ [] := by
    intro fl fuel l done r h
    have := sp_len fl fuel l done r h
    intro h0
    rw [h0] at this
    cases l with
    | nil => cases fuel <;> simp [sp] at h
    | cons a b => simp at this
  sp_len : ∀ (fl : Bool) (fuel : Nat) (l : List Stage) (done : Bool) (r : List Stage × Nat × Bool),
      sp fl fuel l done = some r → r.1.length = l.length := by
    intro fl fuel
    induction fuel with
    | zero => intro l done r h; simp [sp] at h
    | succ f ih =>
      intro l done r h
      match l with
      | [] => simp [sp] at h
      | x :: below =>
        unfold sp at h
        split at h
        · match below with
          | [] =>
            simp only at h
            cases fl <;> simp only [Bool.false_eq_true, if_false, if_true] at h
            · have := ih _ _ _ h; simpa using this
            · have := ih _ _ _ h; simpa using this
          | y :: rest =>
            simp only at h
            cases hcal : sp fl f (y :: rest) false with
            | none => simp [hcal] at h
            | some v =>
              rw [hcal] at h
              have h1 := ih _ _ _ hcal
              have h2 := ih _ _ _ h
              simp only [List.length_cons] at h1 h2 ⊢
              omega
        · simp only at h
          injection h with h
          subst h
          simp

end Soxr.Cr

namespace Soxr.Cr

/-- **Streaming `_soxr_process` terminates** for every well-formed state and every request. -/
theorem process_stream_total (e : Eng) (olen : Nat) (hfl : e.fl = false) (hne : e.stages ≠ []) (hwf : PipeWF e.stages) :
    ∃ fuel e', e.process fuel olen = some e' ∧ SameCounters e e' ∧ PipeWF e'.stages := by
  obtain ⟨F, e', h, hsame, hwf', _⟩ := procLoop_stream (e.target olen) _ e false hfl hne hwf (Nat.le_refl _)
  let fuel := max F (phi 0 e.stages + 2)
  refine ⟨fuel, e', ?_, hsame, hwf'⟩
  unfold Eng.process
  exact h fuel fuel (Nat.le_max_left _ _) (Nat.le_max_right _ _)

/-- a pipeline without stages (`io_ratio = 1`, unit gain): `_soxr_process` does nothing -/
theorem process_nil (e : Eng) (olen : Nat) (h : e.stages = []) (fuel : Nat) (hf : 2 ≤ fuel) :
    e.process fuel olen = some e := by
  unfold Eng.process
  obtain ⟨k, rfl⟩ : ∃ k, fuel = k + 2 := ⟨fuel - 2, by omega⟩
  unfold procLoop
  split
  · simp only [h]
    unfold procLoop
    simp
  · rfl

/-- the result of `_soxr_process` does not depend on the fuel -/
theorem process_det (e : Eng) (olen : Nat) (f1 f2 : Nat) (r1 r2 : Eng)
    (h1 : e.process f1 olen = some r1) (h2 : e.process f2 olen = some r2) : r1 = r2 := by
  unfold Eng.process at h1 h2
  have a := procLoop_mono f1 f1 e _ false r1 h1 f2 f2
  have b := procLoop_mono f2 f2 e _ false r2 h2 f1 f1
  rw [Nat.add_comm f2 f1] at b
  rw [a] at b
  exact Option.some.inj b

/-- bounded latency: if the loop ends with fewer frames than asked for, every stage FIFO is below its `input_size` -/
theorem procLoop_starved (fuel : Nat) (n : Int) : ∀ (k : Nat) (e : Eng) (done : Bool) (e' : Eng),
    procLoop fuel k e n done = some e' → (done = true → AllShort e.stages) → (e'.outOcc : Int) < n → AllShort e'.stages := by
  intro k
  induction k with
  | zero => intro e done e' h; simp [procLoop] at h
  | succ k ih =>
    intro e done e' h hdone hlt
    unfold procLoop at h
    split at h
    · revert h
      cases hst : e.stages with
      | nil =>
        intro h
        exact ih _ _ _ h (by intro _; rw [hst]; unfold AllShort; simp) hlt
      | cons y rest =>
        intro h
        simp only at h
        cases hcal : sp e.fl fuel (y :: rest) false with
        | none => simp [hcal] at h
        | some v =>
          rw [hcal] at h
          obtain ⟨st', p, d⟩ := v
          simp only at h
          refine ih _ _ _ h ?_ hlt
          intro hd
          simp only
          exact sp_done_short e.fl fuel _ false _ hcal hd (by intro hh; simp at hh)
    · rename_i hc
      injection h with h
      subst h
      have hd : done = true := by
        cases done with
        | true => rfl
        | false => simp at hc; omega
      exact hdone hd

theorem process_starved (e : Eng) (olen fuel : Nat) (e' : Eng) (h : e.process fuel olen = some e')
    (hlt : (e'.outOcc : Int) < e.target olen) : AllShort e'.stages := by
  unfold Eng.process at h
  exact procLoop_starved fuel _ fuel e false e' h (by intro hh; simp at hh) hlt

end Soxr.Cr
