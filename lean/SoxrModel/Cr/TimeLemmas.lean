import SoxrModel.Cr.Time
import SoxrModel.Cr.Schedule
import Mathlib.Tactic.Ring
import Mathlib.Tactic.Linarith
import Mathlib.Tactic.FieldSimp
import Mathlib.Tactic.Positivity
import Mathlib.Data.Rat.Floor
import Mathlib.Algebra.Order.Floor.Ring
/-!
# Lemmas for C04 (time alignment)
-/
namespace Soxr.Cr

/-- the time map of a pipeline is affine: rate `∏ aᵢ`, offset `Σ bᵢ·∏_{below} aⱼ` -/
theorem timeOf_affine : ∀ (l : List TStage) (t : ℚ), timeOf l t = rateOf l * t + offsetOf l := by
  intro l
  induction l with
  | nil => intro t; simp [timeOf, rateOf, offsetOf]
  | cons s below ih => intro t; simp only [timeOf, rateOf, offsetOf, ih]; ring

theorem rateOf_nonneg : ∀ (l : List TStage), (∀ s ∈ l, 0 ≤ s.a) → 0 ≤ rateOf l := by
  intro l
  induction l with
  | nil => intro _; simp [rateOf]
  | cons s below ih =>
    intro h
    simp only [rateOf]
    exact mul_nonneg (h s (by simp)) (ih fun x hx => h x (by simp [hx]))

/-! ## per-stage latency compensation -/

theorem half_b (x : LStage) (hk : x.cfg.kind = .half) (h : LatOK true x) : (tstage x).b = 0 := by
  unfold LatOK at h; simp only [hk] at h
  unfold tstage; simp only [hk, h]; ring

theorem cubic_b (x : LStage) (hk : x.cfg.kind = .clocked) (hc : x.lat.cubic = true) (e : Bool) (h : LatOK e x) :
    (tstage x).b = 0 := by
  unfold LatOK at h; simp only [hk, hc, if_true] at h
  obtain ⟨h1, h2, _⟩ := h
  unfold tstage; simp only [hk, hc, if_true, h1, h2]; simp

/-- the poly-phase stage: the offset is the excess of the initial clock over its exact value, in input periods -/
theorem poly_b (x : LStage) (hk : x.cfg.kind = .clocked) (hc : x.lat.cubic = false) (e : Bool) (h : LatOK e x) :
    (tstage x).b = ((2 * x.s0.clk - x.cfg.den * (x.lat.nc % 2) : Nat) : ℚ) / (2 * (x.cfg.den : ℚ)) := by
  unfold LatOK at h; simp only [hk, hc, Bool.false_eq_true, if_false] at h
  obtain ⟨h1, h2, h3, h4, h5, _⟩ := h
  unfold tstage; simp only [hk, hc, Bool.false_eq_true, if_false]
  have hden : (x.cfg.den : ℚ) ≠ 0 := by exact_mod_cast (Nat.pos_iff_ne_zero.mp h4)
  rw [h3]
  generalize x.lat.nc = nc at *
  generalize x.cfg.taps = n4 at *
  generalize x.s0.clk = clk at *
  generalize x.cfg.den = den at *
  obtain ⟨j, rfl⟩ : ∃ j, n4 = nc + j := ⟨n4 - nc, by omega⟩
  have hex : 2 * clk = den * (nc % 2) + (2 * clk - den * (nc % 2)) := by omega
  generalize 2 * clk - den * (nc % 2) = ex at *
  have hexq : (2 * (clk : ℚ)) = (den : ℚ) * ((nc % 2 : Nat) : ℚ) + (ex : ℚ) := by exact_mod_cast hex
  have hclk : (clk : ℚ) = ((den : ℚ) * ((nc % 2 : Nat) : ℚ) + (ex : ℚ)) / 2 := by linarith
  rw [hclk]
  rcases Nat.even_or_odd' nc with ⟨k, rfl | rfl⟩
  · -- even number of coefficients
    have e1 : (2 * k - 1) / 2 = k - 1 := by omega
    have e2 : 2 * k % 2 = 0 := by omega
    have e3 : 2 * k + j - 2 * k = j := by omega
    have hk1 : 1 ≤ k := by omega
    rw [e1, e2, e3]
    push_cast [Nat.cast_sub hk1]
    field_simp
    ring
  · -- odd number of coefficients
    have e1 : (2 * k + 1 - 1) / 2 = k := by omega
    have e2 : (2 * k + 1) % 2 = 1 := by omega
    have e3 : 2 * k + 1 + j - (2 * k + 1) = j := by omega
    rw [e1, e2, e3]
    push_cast
    field_simp
    ring

theorem poly_b_exact (x : LStage) (hk : x.cfg.kind = .clocked) (hc : x.lat.cubic = false) (h : LatOK true x) :
    (tstage x).b = 0 := by
  rw [poly_b x hk hc true h]
  unfold LatOK at h; simp only [hk, hc, Bool.false_eq_true, if_false, if_true] at h
  have : 2 * x.s0.clk - x.cfg.den * (x.lat.nc % 2) = 0 := by omega
  rw [this]; simp

theorem poly_b_bound (x : LStage) (hk : x.cfg.kind = .clocked) (hc : x.lat.cubic = false) (h : LatOK false x) :
    0 ≤ (tstage x).b ∧ (tstage x).b ≤ 1 / 2 ^ 33 := by
  rw [poly_b x hk hc false h]
  unfold LatOK at h; simp only [hk, hc, Bool.false_eq_true, if_false] at h
  obtain ⟨_, _, _, h4, _, h6⟩ := h
  have hden : (0 : ℚ) < x.cfg.den := by exact_mod_cast h4
  constructor
  · positivity
  · have h7 : (2 * x.s0.clk - x.cfg.den * (x.lat.nc % 2)) * 2 ^ 32 ≤ x.cfg.den :=
      Nat.le_trans (Nat.mul_le_mul_right _ h6) (Nat.div_mul_le_self _ _)
    have h8 : ((2 * x.s0.clk - x.cfg.den * (x.lat.nc % 2) : Nat) : ℚ) * 2 ^ 32 ≤ x.cfg.den := by exact_mod_cast h7
    rw [div_le_div_iff₀ (by positivity) (by positivity)]
    nlinarith [h8]

theorem dft_b (x : LStage) (hk : x.cfg.kind = .dft) (e : Bool) (h : LatOK e x) : (tstage x).b = 0 := by
  unfold LatOK at h; simp only [hk] at h
  obtain ⟨h1, h2, h3, h4⟩ := h
  unfold tstage; simp only [hk, h1, h3, h4]
  have hL : (x.cfg.L : ℚ) ≠ 0 := by exact_mod_cast (Nat.pos_iff_ne_zero.mp h2)
  have hdm : (x.lat.postPeak : ℚ) = x.cfg.L * ((x.lat.postPeak / x.cfg.L : Nat) : ℚ) + ((x.lat.postPeak % x.cfg.L : Nat) : ℚ) := by
    exact_mod_cast (Nat.div_add_mod x.lat.postPeak x.cfg.L).symm
  generalize ((x.lat.postPeak / x.cfg.L : Nat) : ℚ) = q at *
  generalize ((x.lat.postPeak % x.cfg.L : Nat) : ℚ) = r at *
  push_cast
  rw [hdm]
  field_simp
  ring

/-- **every stage of an exactly compensated plan represents its own output frame 0 at instant 0 of its input** -/
theorem tstage_b_exact (x : LStage) (h : LatOK true x) : (tstage x).b = 0 := by
  cases hk : x.cfg.kind
  · exact half_b x hk h
  · cases hc : x.lat.cubic
    · exact poly_b_exact x hk hc h
    · exact cubic_b x hk hc true h
  · exact dft_b x hk true h

theorem LatOK.weaken (x : LStage) (h : LatOK true x) : LatOK false x := by
  unfold LatOK at *
  cases hk : x.cfg.kind <;> simp only [hk] at h ⊢
  · exact h
  · cases hc : x.lat.cubic <;> simp only [hc, Bool.false_eq_true, if_false, if_true] at h ⊢
    · obtain ⟨a, b, c, d, e, f⟩ := h
      exact ⟨a, b, c, d, e, by omega⟩
    · exact h
  · exact h

theorem tstage_b_bound (x : LStage) (h : LatOK false x) : 0 ≤ (tstage x).b ∧ (tstage x).b ≤ 1 / 2 ^ 33 := by
  cases hk : x.cfg.kind
  · have : (tstage x).b = 0 := by
      unfold LatOK at h; simp only [hk] at h
      unfold tstage; simp only [hk, h]; ring
    rw [this]; constructor <;> positivity
  · cases hc : x.lat.cubic
    · exact poly_b_bound x hk hc h
    · rw [cubic_b x hk hc false h]; constructor <;> positivity
  · rw [dft_b x hk false h]; constructor <;> positivity

theorem offsetOf_exact : ∀ (l : List LStage), PlanLatOK true l → offsetOf (l.map tstage) = 0 := by
  intro l
  induction l with
  | nil => intro _; rfl
  | cons x r ih =>
    intro h
    simp only [List.map_cons, offsetOf]
    rw [tstage_b_exact x (h x (by simp)), ih fun y hy => h y (by simp [hy])]
    ring

/-! ## the fixed-point clock -/

/-- `step.whole = (int64)(x·2³² + .5)`: the rounded step is within `2⁻³³` of the exact ratio -/
theorem std_step_rounding (x : ℚ) : |((⌊x * 2 ^ 32 + 1 / 2⌋ : ℤ) : ℚ) / 2 ^ 32 - x| ≤ 1 / 2 ^ 33 := by
  have h1 := Int.floor_le (x * 2 ^ 32 + 1 / 2)
  have h2 := Int.lt_floor_add_one (x * 2 ^ 32 + 1 / 2)
  generalize ((⌊x * 2 ^ 32 + 1 / 2⌋ : ℤ) : ℚ) = s at *
  rw [abs_le]
  norm_num at h1 h2 ⊢
  constructor <;> linarith

/-- the two-word addition of `highPrecCore` (`poly-fir.h`): low words added modulo 2⁶⁴, the carry detected by
    `at.ls < step.ls` after the addition, high words added with the carry.  It is 128-bit addition. -/
def hpAdd (ams als sms sls : Nat) : Nat × Nat :=
  let ls := (als + sls) % 2 ^ 64
  let carry := if ls < sls then 1 else 0
  ((ams + sms + carry) % 2 ^ 64, ls)

theorem hpAdd_wide (ams als sms sls : Nat) (h1 : als < 2 ^ 64) (h2 : sls < 2 ^ 64) :
    (hpAdd ams als sms sls).1 * 2 ^ 64 + (hpAdd ams als sms sls).2 =
      ((ams * 2 ^ 64 + als) + (sms * 2 ^ 64 + sls)) % 2 ^ 128 := by
  unfold hpAdd
  simp only
  have e128 : (2 : Nat) ^ 128 = 2 ^ 64 * 2 ^ 64 := by norm_num
  rw [e128]
  generalize h64 : (2 : Nat) ^ 64 = B at *
  have hB : 0 < B := by rw [← h64]; positivity
  by_cases hc : als + sls < B
  · have e1 : (als + sls) % B = als + sls := Nat.mod_eq_of_lt hc
    have e2 : ¬ (als + sls < sls) := by omega
    rw [e1]; simp only [e2, if_false, Nat.add_zero]
    have : ams * B + als + (sms * B + sls) = (ams + sms) * B + (als + sls) := by ring
    rw [this, Nat.mul_add_mod_of_lt' hB hc]
  · have hc' : B ≤ als + sls := by omega
    have e1 : (als + sls) % B = als + sls - B := by
      rw [Nat.mod_eq_sub_mod hc']; exact Nat.mod_eq_of_lt (by omega)
    have e2 : als + sls - B < sls := by omega
    rw [e1]; simp only [e2, if_true]
    have : ams * B + als + (sms * B + sls) = (ams + sms + 1) * B + (als + sls - B) := by
      have : als + sls = B + (als + sls - B) := by omega
      calc ams * B + als + (sms * B + sls) = (ams + sms) * B + (als + sls) := by ring
        _ = (ams + sms) * B + (B + (als + sls - B)) := by rw [← this]
        _ = (ams + sms + 1) * B + (als + sls - B) := by ring
    rw [this, Nat.mul_add_mod_of_lt' hB (by omega)]
where
  Nat.mul_add_mod_of_lt' {B a r : Nat} (hB : 0 < B) (hr : r < B) : a % B * B + r = (a * B + r) % (B * B) := by
    have hlt : a % B * B + r < B * B := by
      have : a % B < B := Nat.mod_lt _ hB
      calc a % B * B + r < a % B * B + B := by omega
        _ = (a % B + 1) * B := by ring
        _ ≤ B * B := Nat.mul_le_mul_right _ this
    have hdec : a * B + r = B * B * (a / B) + (a % B * B + r) := by
      have := Nat.div_add_mod a B
      calc a * B + r = (B * (a / B) + a % B) * B + r := by rw [this]
        _ = B * B * (a / B) + (a % B * B + r) := by ring
    rw [hdec, Nat.mul_add_mod]
    exact (Nat.mod_eq_of_lt hlt).symm

/-- the C loop `for (i = 0; pos < limit; ++i, pos += step)` -/
def cLoop (step limit : Nat) : Nat → Nat → Nat → Nat × Nat
  | 0, pos, i => (i, pos)
  | f+1, pos, i => if pos < limit then cLoop step limit f (pos + step) (i + 1) else (i, pos)

theorem loopCount_succ {pos step limit : Nat} (hs : 0 < step) (h : pos < limit) :
    loopCount pos step limit = 1 + loopCount (pos + step) step limit := by
  unfold loopCount ceilDiv
  simp only [h, if_true]
  by_cases h2 : pos + step < limit
  · simp only [h2, if_true]
    have : limit - pos + step - 1 = (limit - (pos + step) + step - 1) + step := by omega
    rw [this, Nat.add_div_right _ hs]; omega
  · simp only [h2, if_false]
    have h3 : limit - pos + step - 1 < 2 * step := by omega
    have h4 : step ≤ limit - pos + step - 1 := by omega
    have : (limit - pos + step - 1) / step = 1 := by
      apply Nat.div_eq_of_lt_le <;> omega
    rw [this]

/-- **the closed form the model uses is the C loop** (given enough fuel, e.g. `limit`) -/
theorem cLoop_closed (step limit : Nat) (hs : 0 < step) : ∀ (fuel pos i : Nat), limit - pos ≤ fuel →
    cLoop step limit fuel pos i = (i + loopCount pos step limit, pos + loopCount pos step limit * step) := by
  intro fuel
  induction fuel with
  | zero =>
    intro pos i h
    have : limit ≤ pos := by omega
    simp [cLoop, loopCount_zero this]
  | succ f ih =>
    intro pos i h
    unfold cLoop
    by_cases hp : pos < limit
    · simp only [hp, if_true]
      rw [ih (pos + step) (i + 1) (by omega), loopCount_succ hs hp]
      congr 1
      · omega
      · ring
    · simp only [hp, if_false]
      have : limit ≤ pos := by omega
      simp [loopCount_zero this]

/-! ## the absolute clock along every run -/

variable {α : Type}

/-- every stage of a pipeline satisfying the invariant carries its absolute clock relation -/
theorem PInv.stages_clock {K : Kern α} {z : α} : ∀ {plan : Plan} {l : List (DStage α)} {inp src : List α},
    PInv K z plan l inp src →
    List.Forall₂ (fun (p : StageCfg × StageSt) (x : DStage α) => x.cfg = p.1 ∧ ∃ cons m, ctlRel p.1 p.2 x.st cons m) plan l := by
  intro plan l inp src h
  induction h with
  | nil inp => exact List.Forall₂.nil
  | cons c s0 x m hb hx ih =>
    obtain ⟨cons, _, _, hctl⟩ := hx.cons
    exact List.Forall₂.cons ⟨hx.cfg, cons, m, hctl⟩ ih

end Soxr.Cr
