import SoxrModel.Conv.Model
import SoxrModel.Lsr.Generated
/-!
# Model of `soxr-lsr.c` (the libsamplerate-compatible wrapper) and of the API layer of `soxr.c` underneath it

Core Lean only (the line-protocol driver `soxr_lsr` links this file).

The wrapper is a state machine over an **abstract engine**.  The engine is what `soxr.c` reaches through its control
block (`resampler_create`, `_set_io_ratio`, `_input`, `_flush`, `_process`, `_output`, `_close`); every call into it is an
*event* of the model (`Ev`), every answer it gives (did `create` succeed, how many frames `output` handed over) and
every answer of the caller's callback is read from an *oracle* (`Tok`).  Theorems quantify over all oracles (subject to
the engine law E2 `output ≤ requested`, proved for the engines in `Fifo/FootprintLemmas.lean` and `Cr/`); the
correspondence check records the real engine's answers by patching the control block of the real object and requires
the model to reproduce the whole event sequence, `SRC_DATA`'s output fields, every return code and the private state.

Everything of `soxr.c` the wrapper's observable behaviour depends on is modelled **as written**:
* `soxr_set_error` — inverted: it returns without recording when there is no error yet, and overwrites an existing one;
* `soxr_set_io_ratio` — lazy initialisation on the first valid ratio; constant-rate engines refuse a different ratio
  (`fabs(p->io_ratio - io_ratio) < 1e-15`), and the refusal is lost in `soxr_set_error`;
* `fatal_error` — `memset`s the whole object (control block, channel count, quality spec included) and then records;
* `soxr_clear` — refuses an object torn down by `fatal_error`; otherwise keeps the configuration, drops the error,
  under `RESET_ON_CLEAR` keeps the **old** ratio and
  re-initialises at it (when channels and ratio are set);
* `soxr_process` — `~input_frames` decoded on `size_t`, `soxr_i_for_o = min(ceil(olen · io_ratio), ilen)` in `double`;
* `soxr_output` — the pull loop; `soxr_input`; the NULL-pointer errors;
* dereferences of `p->resamplers` / of the function pointers when they are NULL are **crashes** (`R.crash`).

(State of /repo modelled: after the repairs a55ec94 — `src_error(NULL)`, `src_simple` counts — and 88f0e06 — `RESET_ON_CLEAR`
derived from the recipe, so no libsamplerate converter id carries it; `soxr_clear`'s `RESET_ON_CLEAR` branch is still modelled,
it is what `soxr.h` users with the ordinary recipes get.)

`double` values are bit patterns (`Nat`), decoded to exact dyadics by `Conv.f64`; `1/x`, `olen · io_ratio`, `a − b` are
correctly rounded (round to nearest even) from exact rationals, `(size_t)` of a `double` is the `cvttsd2si` sequence gcc
emits on x86-64.
-/
namespace Soxr.Lsr
open Soxr.Conv

/-! ## binary64 arithmetic on bit patterns -/

/-- a `double` as its bit pattern. -/
abbrev D := Nat

def dval (b : D) : Val := f64.decode b

/-- `⌊log2 (n / d)⌋` for positive `n`, `d`. -/
def log2Rat (n d : Nat) : Int :=
  let k : Int := (n.log2 : Int) - (d.log2 : Int)
  if 0 ≤ k then (if d * 2 ^ k.toNat ≤ n then k else k - 1)
  else (if d ≤ n * 2 ^ (-k).toNat then k else k - 1)

/-- magnitude bits of the positive rational `n / d` (in units of `2^-1074`) rounded to binary64 (nearest even, gradual
    underflow, overflow to infinity). -/
def roundRatMag (n d : Nat) : Nat :=
  if n = 0 then 0
  else
    let s := (log2Rat n d + 1 - 53).toNat
    let b := s * 2 ^ 52 + rheNat n (d * 2 ^ s)
    if f64.infMag ≤ b then f64.infMag else b

def negBit (neg : Bool) : Nat := f64.signBit neg

/-- `1 / x` (`divsd`). -/
def recip (b : D) : D :=
  match dval b with
  | .nan => b ||| f64.quietBit
  | .inf neg => negBit neg
  | .fin x =>
    if x = 0 then negBit (f64.negOf b) + f64.infMag
    else negBit (decide (x < 0)) + roundRatMag (2 ^ (2 * U)) x.natAbs

/-- `(double)olen * r` for a `size_t` `olen` (`cvtsi2sd` with the unsigned fix-up, `mulsd`), as a value. -/
def mulSize (olen : Nat) (r : D) : Val :=
  match dval (f64.ofInt olen), dval r with
  | .fin x, .fin y => dval (negBit (decide (x * y < 0)) + roundRatMag (x.natAbs * y.natAbs) (2 ^ U))
  | .fin x, .inf neg => if x = 0 then .nan else .inf neg
  | _, _ => .nan

/-- `ceil` then `(size_t)` as gcc compiles it for x86-64: values below `2^63` through `cvttsd2si`, values in
    `[2^63, 2^64)` through the subtract-and-flip sequence, everything else (NaN, too large) the integer indefinite. -/
def ceilToSize (v : Val) : Nat :=
  match v with
  | .nan => 2 ^ 63
  | .inf neg => if neg then 2 ^ 63 else 0
  | .fin x =>
    let c : Int := -((-x) / (unit : Int))
    if c < -(2 ^ 63 : Int) then 2 ^ 63
    else if c < 0 then (c + (2 ^ 64 : Int)).toNat
    else if c < (2 ^ 64 : Int) then c.toNat
    else 0

/-- `soxr_i_for_o`: `min((size_t)ceil((double)olen * p->io_ratio), ilen)`. -/
def iForO (olen : Nat) (io : D) (ilen : Nat) : Nat := min (ceilToSize (mulSize olen io)) ilen

/-- `x == 0` (either zero). -/
def isZero (b : D) : Bool := match dval b with | .fin x => decide (x = 0) | _ => false

/-- `io_ratio > 0`. -/
def dpos (b : D) : Bool := (dval b).isPos

/-- the `double` nearest `1e-15`. -/
def tiny : D := 0x3CD203AF9EE75616

/-- `fabs(a - b) < 1e-15` (`subsd`, `andpd`, `comisd`). -/
def closeTo (a b : D) : Bool :=
  match dval a, dval b, dval tiny with
  | .fin x, .fin y, .fin t =>
    match round53 (x - y) with
    | .fin z => decide ((z.natAbs : Int) < t)
    | _ => false
  | _, _, _ => false

/-! ## objects, events, oracles -/

/-- classes of the error strings of `soxr.c` that can be stored in `p->error` or returned on these paths. -/
inductive Err where
  | nullPtr | ratioRange | noChans | varying | engine | nullIn | nullOut | inputFn
deriving DecidableEq, Repr, Inhabited

/-- what a converter id fixes: `q_spec.flags & RESET_ON_CLEAR`, and whether the engine has a `set_io_ratio` entry
    (`control_block[8] != 0`: the variable-rate engine). -/
structure Cfg where
  reset : Bool
  vr : Bool
deriving DecidableEq, Repr, Inhabited

/-- `Cfg` of converter id `id` as observed on the real `src_new` by `harness/lsr/gen.c`. -/
def cfgOf (id : Nat) : Cfg :=
  match Gen.idTable.find? (·.1 = id) with
  | some e => ⟨e.2.1, e.2.2⟩
  | none => ⟨false, false⟩

/-- the fields of `struct soxr` the wrapper's behaviour depends on. -/
structure Obj where
  cfg : Cfg
  chans : Nat            -- `num_channels`
  ioRatio : D            -- `io_ratio`
  error : Option Err     -- `error`
  inited : Bool          -- `channel_ptrs`, `shared`, `resamplers` non-NULL
  dead : Bool            -- the object was `memset` by `fatal_error`: function pointers NULL
  hasFn : Bool           -- `input_fn != 0`
  maxIlen : Nat          -- `max_ilen`
  flushing : Bool
deriving DecidableEq, Repr, Inhabited

/-- a call into the engine, or of the caller's callback. -/
inductive Ev where
  | create (ratio : D) (ok : Bool)
  | setRatio (ratio : D) (slew : Nat)
  | input (n : Nat)
  | flush
  | process (olen : Nat)
  | output (g : Nat)
  | close
  | cb (n : Nat) (null : Bool)
deriving DecidableEq, Repr, Inhabited

/-- an answer: of `resampler_create` (succeeded?), of `resampler_output` (frames handed over), of the callback (frames
    supplied; `null`: it set `*data = NULL`). -/
inductive Tok where
  | c (ok : Bool)
  | g (n : Nat)
  | k (n : Nat) (null : Bool)
deriving DecidableEq, Repr, Inhabited

/-- events so far (latest first) and the answers still unread. -/
structure Ctx where
  evs : List Ev
  toks : List Tok
deriving DecidableEq, Repr, Inhabited

/-- outcome of a computation: a value; a crash (NULL dereference, NULL function pointer called); `desync`: the oracle
    had no answer of the kind asked for (never happens against a recorded run; it is how a disagreement shows). -/
inductive R (α : Type) where
  | ok (a : α) (c : Ctx)
  | crash (c : Ctx)
  | desync (c : Ctx)
deriving DecidableEq, Repr

def M (α : Type) := Ctx → R α

@[inline] def M.pure {α : Type} (a : α) : M α := fun c => .ok a c
@[inline] def M.bind {α β : Type} (m : M α) (f : α → M β) : M β := fun c =>
  match m c with
  | .ok a c' => f a c'
  | .crash c' => .crash c'
  | .desync c' => .desync c'

instance : Monad M where
  pure := M.pure
  bind := M.bind

def emit (e : Ev) : M Unit := fun c => .ok () { c with evs := e :: c.evs }
def crash {α : Type} : M α := fun c => .crash c

def askCreate : M Bool := fun c =>
  match c.toks with
  | .c ok :: rest => .ok ok { c with toks := rest }
  | _ => .desync c

/-- the engine's answer to `resampler_output(…, &len)` with `len` frames asked for.  **Engine law E2 is built into the
    abstract engine**: whatever the oracle says, at most `len` frames are handed over (`min`).  E2 is proved for the API /
    engine models in `Fifo/FootprintLemmas.lean` (`outputDone_le`, `process_odone_le_olen`) and `Cr/`; against the real
    engines the recorded answer never exceeds the request (checked on every recorded answer by `checks/c19.py`), so `min`
    is the identity there. -/
def askOutput (len : Nat) : M Nat := fun c =>
  match c.toks with
  | .g n :: rest => .ok (min n len) { c with toks := rest }
  | _ => .desync c

def askCallback : M (Nat × Bool) := fun c =>
  match c.toks with
  | .k n null :: rest => .ok (n, null) { c with toks := rest }
  | _ => .desync c

/-- `n` times. -/
def repeatM (n : Nat) (m : M Unit) : M Unit :=
  match n with
  | 0 => M.pure ()
  | n + 1 => M.bind m fun _ => repeatM n m

/-! ## `soxr.c`

(Written with explicit `M.bind` / `M.pure` so that the lemmas can take the definitions apart.) -/

/-- the object after `fatal_error(p, e)`: everything zero, then the error. -/
def deadObj (e : Err) : Obj :=
  { cfg := ⟨false, false⟩, chans := 0, ioRatio := 0, error := some e, inited := false, dead := true, hasFn := false,
    maxIlen := 0, flushing := false }

/-- `soxr_delete0`'s loop: `resampler_close` of every channel that has a resampler. -/
def closeAll (o : Obj) : M Unit := if o.inited then repeatM o.chans (emit .close) else M.pure ()

/-- the loop of `initialise` (`left` channels to go; `made` already created).  A failing `resampler_create` leads to
    `fatal_error`: `soxr_delete0` closes the `made + 1` resamplers allocated so far. -/
def initLoop (o : Obj) : Nat → Nat → M (Obj × Option Err)
  | 0, _ => M.pure ({ o with inited := true }, none)
  | left + 1, made =>
    M.bind askCreate fun ok =>
    M.bind (emit (.create o.ioRatio ok)) fun _ =>
    if ok then initLoop o left (made + 1)
    else M.bind (repeatM (made + 1) (emit .close)) fun _ => M.pure (deadObj .engine, some .engine)

/-- `initialise` (allocations succeed: C20 is about the others). -/
def initialise (o : Obj) : M (Obj × Option Err) := initLoop o o.chans 0

/-- `soxr_set_io_ratio(p, io_ratio, slew_len)`, `p` not NULL. -/
def setIoRatio (o : Obj) (r : D) (slew : Nat) : M (Obj × Option Err) :=
  if o.error.isSome then M.pure (o, o.error)
  else if o.chans = 0 then M.pure (o, some .noChans)
  else if !dpos r then M.pure (o, some .ratioRange)
  else if !o.inited then initialise { o with ioRatio := r }
  else if o.cfg.vr then M.bind (repeatM o.chans (emit (.setRatio r slew))) fun _ => M.pure (o, none)
  else M.pure (o, if closeTo o.ioRatio r then none else some .varying)

/-- `soxr_set_error(p, error)`, `p` not NULL, **as written**:
    `if (!p->error && p->error != error) return p->error; p->error = error;`. -/
def setError (o : Obj) (e : Option Err) : Obj :=
  if o.error.isNone && o.error != e then o else { o with error := e }

/-- `soxr_input(p, in, len)` (interleaved). -/
def soxrInput (o : Obj) (inNull : Bool) (len : Nat) : M (Obj × Nat) :=
  if o.error.isSome then M.pure (o, 0)
  else if inNull && len != 0 then M.pure ({ o with error := some .nullIn }, 0)
  else if len = 0 then M.pure ({ o with flushing := true }, 0)
  else if !o.inited then crash          -- `p->resamplers[0]` / `(*p->deinterleave)` through NULL
  else M.bind (repeatM o.chans (emit (.input len))) fun _ => M.pure (o, len)

/-- the channel loop of `soxr_output_no_callback` (one thread: `done` is the last channel's count). -/
def outChans (o : Obj) (len : Nat) : Nat → Nat → M Nat
  | 0, done => M.pure done
  | left + 1, _ =>
    M.bind (if o.flushing then emit .flush else M.pure ()) fun _ =>
    M.bind (emit (.process len)) fun _ =>
    M.bind (askOutput len) fun g =>
    M.bind (emit (.output g)) fun _ =>
    outChans o len left g

/-- `soxr_output_no_callback(p, out, len)` (interleaved). -/
def outputNoCallback (o : Obj) (len : Nat) : M Nat :=
  if !o.inited then crash               -- `p->resamplers[0]`, or `(p->interleave)` when the object is dead
  else outChans o len o.chans 0

/-- the `do … while` of `soxr_output`: `olen` still wanted, `odone0` delivered so far. -/
def pullLoop : Nat → Obj → Nat → Nat → Nat → M (Obj × Nat)
  | 0, _, _, _, _ => fun c => .desync c
  | fuel + 1, o, len0, olen, odone0 =>
    M.bind (outputNoCallback o olen) fun odone =>
    if odone0 + odone = len0 || !o.hasFn || o.flushing then M.pure (o, odone0 + odone)
    else
      M.bind askCallback fun cbr =>
      M.bind (emit (.cb cbr.1 cbr.2)) fun _ =>
      if cbr.2 then M.pure ({ o with error := some .inputFn }, odone0 + odone)
      else
        M.bind (soxrInput o false cbr.1) fun oi =>
        if odone != 0 || cbr.1 != 0 || (!o.flushing && oi.1.flushing) then
          pullLoop fuel oi.1 len0 (olen - odone) (odone0 + odone)
        else M.pure (oi.1, odone0 + odone)

/-- `soxr_output(p, out, len0)`, `p` not NULL. -/
def soxrOutput (fuel : Nat) (o : Obj) (outNull : Bool) (len0 : Nat) : M (Obj × Nat) :=
  if o.error.isSome then M.pure (o, 0)
  else if outNull && len0 != 0 then M.pure ({ o with error := some .nullOut }, 0)
  else pullLoop fuel o len0 len0 0

/-- decoding of `ilen0` in `soxr_process`: `if ((ptrdiff_t)ilen0 < 0) flush_requested = true, ilen0 = ~ilen0`. -/
def decodeIlen (x : BitVec 64) : Bool × BitVec 64 := if x.msb then (true, ~~~x) else (false, x)

/-- the body of `soxr_process` once `ilen` and the flushing flag are settled. -/
def processCore (fuel : Nat) (o1 : Obj) (inNull outNull : Bool) (ilen olen : Nat) : M (Obj × Nat × Nat) :=
  if outNull && inNull then
    -- `if (p->flushing && !p->error && p->resamplers) for (u …) resampler_flush(p->resamplers[u]);` (/repo ab95331)
    M.bind (if o1.flushing && o1.error.isNone && o1.inited then repeatM o1.chans (emit .flush) else M.pure ()) fun _ =>
    M.pure (o1, ilen, 0)
  else
    M.bind (if ilen != 0 then soxrInput o1 inNull ilen else M.pure (o1, 0)) fun oi =>
    M.bind (soxrOutput fuel oi.1 outNull olen) fun oo =>
    M.pure (oo.1, oi.2, oo.2)

/-- `ilen` of `soxr_process`. -/
def ilenOf (o : Obj) (inNull : Bool) (ilen0 : BitVec 64) (olen : Nat) : Nat :=
  if inNull then 0 else iForO olen o.ioRatio (decodeIlen ilen0).2.toNat

/-- `p->flushing |= ilen == ilen0 && flush_requested`. -/
def flushAfter (o : Obj) (inNull : Bool) (ilen0 : BitVec 64) (olen : Nat) : Bool :=
  o.flushing || (if inNull then true
    else (decide (ilenOf o inNull ilen0 olen = (decodeIlen ilen0).2.toNat) && (decodeIlen ilen0).1))

/-- `soxr_process(p, in, ilen0, &idone, out, olen, &odone)`, `p` not NULL, interleaved: `(object, idone, odone)`.
    (`in == NULL`: `flush_requested = true, ilen = ilen0 = 0`.) -/
def soxrProcess (fuel : Nat) (o : Obj) (inNull : Bool) (ilen0 : BitVec 64) (outNull : Bool) (olen : Nat) :
    M (Obj × Nat × Nat) :=
  processCore fuel { o with flushing := flushAfter o inNull ilen0 olen } inNull outNull (ilenOf o inNull ilen0 olen) olen

/-- `soxr_clear(p)`, `p` not NULL: `(object, returned error)`.
    An object torn down by `fatal_error` (`tmp.error && !tmp.control_block[9]`) is refused and keeps its error
    (/repo b5a678f).  Otherwise: engines closed, error / flushing / ratio forgotten; under `RESET_ON_CLEAR` the old ratio
    is stored again (`p->io_ratio = tmp.io_ratio`) and, when the channel count is set and the ratio is not 0, applied
    through `soxr_set_io_ratio` — which re-creates the engines at the OLD ratio. -/
def soxrClear (o : Obj) : M (Obj × Option Err) :=
  if o.error.isSome && o.dead then M.pure (o, o.error)
  else
    M.bind (closeAll o) fun _ =>
    if !o.cfg.reset then M.pure ({ o with ioRatio := 0, error := none, inited := false, flushing := false }, none)
    else if o.chans != 0 && !isZero o.ioRatio then
      setIoRatio { o with error := none, inited := false, flushing := false } o.ioRatio 0
    else M.pure ({ o with error := none, inited := false, flushing := false }, none)

namespace Historical

/-- `soxr_clear` before /repo b5a678f (finding F40): no test for a torn-down object. -/
def soxrClearPre (o : Obj) : M (Obj × Option Err) :=
  M.bind (closeAll o) fun _ =>
  if !o.cfg.reset then M.pure ({ o with ioRatio := 0, error := none, inited := false, flushing := false }, none)
  else if o.chans != 0 && !isZero o.ioRatio then
    setIoRatio { o with error := none, inited := false, flushing := false } o.ioRatio 0
  else M.pure ({ o with error := none, inited := false, flushing := false }, none)

end Historical

/-! ## `soxr-lsr.c` -/

/-- `SRC_DATA`'s input fields (`long`s as 64-bit words) and which pointers are NULL. -/
structure Data where
  ratio : D
  inFrames : BitVec 64
  outFrames : BitVec 64
  eoi : Bool
  inNull : Bool
  outNull : Bool
deriving Repr, Inhabited

/-- result of `src_process`: return code, `input_frames_used`, `output_frames_gen` (`none`: the fields were not written). -/
structure PRes where
  rc : Int
  used : Option Nat
  gen : Option Nat
deriving DecidableEq, Repr, Inhabited

def rcOf (e : Option Err) : Int := if e.isSome then -1 else 0

/-- the object `src_new` / `src_callback_new` returns (`soxr_create(0, 0, channels, …)` defers initialisation;
    `soxr_set_input_fn(soxr, fn, p, 0)` sets `max_ilen = (size_t)-1`). -/
def fresh (id : Nat) (chans : Nat) (fn : Bool) : Obj :=
  { cfg := cfgOf id, chans := chans, ioRatio := 0, error := none, inited := false, dead := false, hasFn := fn,
    maxIlen := 2 ^ 64 - 1, flushing := false }

/-- `src_process(p, io)`; `p = none` is the NULL converter, `io = none` the NULL data block. -/
def srcProcess (fuel : Nat) (p : Option Obj) (io : Option Data) : M (Option Obj × PRes) :=
  match p, io with
  | some o, some d =>
    M.bind (setIoRatio o (recip d.ratio) d.outFrames.toNat) fun oe =>
    M.bind (soxrProcess fuel (setError oe.1 oe.2) d.inNull (if d.eoi then ~~~d.inFrames else d.inFrames) d.outNull
      d.outFrames.toNat) fun r =>
    M.pure (some r.1, ⟨rcOf r.1.error, some r.2.1, some r.2.2⟩)
  | p, _ => M.pure (p, ⟨-1, none, none⟩)

/-- `src_callback_read(p, oi_ratio, olen, obuf)`. -/
def srcCallbackRead (fuel : Nat) (p : Option Obj) (ratio : D) (olen : BitVec 64) (outNull : Bool) :
    M (Option Obj × Int) :=
  match p with
  | some o =>
    if olen.msb then M.pure (some o, -1)
    else
      M.bind (setIoRatio o (recip ratio) olen.toNat) fun oe =>
      M.bind (soxrOutput fuel (setError oe.1 oe.2) outNull olen.toNat) fun r =>
      M.pure (some r.1, (r.2 : Int))
  | none => M.pure (none, -1)

/-- `src_set_ratio(p, oi_ratio)` (the error is returned, not recorded). -/
def srcSetRatio (p : Option Obj) (ratio : D) : M (Option Obj × Int) :=
  match p with
  | some o => M.bind (setIoRatio o (recip ratio) 0) fun oe => M.pure (some oe.1, rcOf oe.2)
  | none => M.pure (none, -1)

/-- `src_reset(p)`. -/
def srcReset (p : Option Obj) : M (Option Obj × Int) :=
  match p with
  | some o => M.bind (soxrClear o) fun oe => M.pure (some oe.1, rcOf oe.2)
  | none => M.pure (none, -1)

namespace Historical

/-- `src_reset` over the pre-repair `soxr_clear`. -/
def srcResetPre (p : Option Obj) : M (Option Obj × Int) :=
  match p with
  | some o => M.bind (soxrClearPre o) fun oe => M.pure (some oe.1, rcOf oe.2)
  | none => M.pure (none, -1)

end Historical

/-- `src_error(p)`: `p ? -!!soxr_error(p) : -1`. -/
def srcError (p : Option Obj) : M Int :=
  match p with
  | some o => M.pure (rcOf o.error)
  | none => M.pure (-1)

/-- `src_delete(p)`. -/
def srcDelete (p : Option Obj) : M Unit :=
  match p with
  | some o => closeAll o
  | none => M.pure ()

/-- `src_simple(io, id, channels)` — its own object (`soxr_oneshot(1, src_ratio, …)`: `io_ratio = 1 / src_ratio`,
    initialised inside `soxr_create`), one `soxr_process` with `~input_frames`, deleted.
    `refused`: the early test failed and nothing was written; when `soxr_create` fails inside `soxr_oneshot` the counts
    are reported as they were initialised: `done (-1) 0 0`. -/
inductive SRes where
  | refused                 -- `-1`, counts untouched
  | done (rc : Int) (used gen : Nat)
deriving DecidableEq, Repr, Inhabited

/-- `-1.0`. -/
def minusOne : D := 0xBFF0000000000000

def srcSimple (fuel : Nat) (io : Option Data) (id : Nat) (chans : Int) : M SRes :=
  match io with
  | none => M.pure .refused
  | some d =>
    if chans ≤ 0 || d.inFrames.msb || d.outFrames.msb then M.pure .refused
    else
      -- `soxr_create(1, src_ratio, …)`: `io_ratio = output_rate != 0 ? 1 / src_ratio : -1`
      -- (a quotient of two non-zero rates that underflows to 0 - `src_ratio` infinite or huge - is -1 as well: F43, /repo a64ac15)
      let r0 := if isZero d.ratio then minusOne else recip d.ratio
      let r := if isZero r0 then minusOne else r0
      let o0 : Obj := { fresh id chans.toNat false with ioRatio := r }
      -- `if (p->num_channels && io_ratio != 0) error = soxr_set_io_ratio(p, io_ratio, 0)`
      M.bind (if isZero r then M.pure (o0, none) else setIoRatio o0 r 0) fun oe =>
      if oe.2.isSome then M.pure (.done (-1) 0 0)
      else
        M.bind (soxrProcess fuel oe.1 d.inNull (~~~d.inFrames) d.outNull d.outFrames.toNat) fun r =>
        M.bind (closeAll r.1) fun _ => M.pure (.done (rcOf r.1.error) r.2.1 r.2.2)

/-- `src_strerror(error)`: 0 "no error" string of soxr, 1 "Placeholder.", anything else "soxr error" (classes 0, 1, 2). -/
def srcStrerror (e : Int) : Nat := if e = 1 then 1 else if e ≠ 0 then 2 else 0

/-- `src_get_name(id)` non-NULL? (`(unsigned)id < 5u + !getenv("SOXR_LSR_STRICT")`, environment variable unset). -/
def srcHasName (id : Int) : Bool := decide (0 ≤ id ∧ id < 6)

/-- `src_is_valid_ratio(oi_ratio)` without `SOXR_LSR_STRICT`: `oi_ratio > 0`. -/
def srcIsValidRatio (r : D) : Bool := dpos r

end Soxr.Lsr
