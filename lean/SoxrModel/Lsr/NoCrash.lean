import SoxrModel.Lsr.Lemmas
/-! No crash with in-contract arguments: the two crash sites of the model (`soxr_input`, `soxr_output_no_callback` on an
    object without resamplers) are unreachable from `src_process` / `src_callback_read` when the ratio is valid and the
    object is not "zeroed with the error dropped". -/
namespace Soxr.Lsr

theorem bind_crash {α β : Type} (m : M α) (f : α → M β) (c c'' : Ctx) :
    M.bind m f c = .crash c'' ↔ (m c = .crash c'' ∨ ∃ a c', m c = .ok a c' ∧ f a c' = .crash c'') := by
  unfold M.bind
  cases h : m c with
  | ok a c' =>
    constructor
    · intro h2; exact Or.inr ⟨a, c', rfl, h2⟩
    · rintro (h1 | ⟨_, _, h1, h2⟩)
      · cases h1
      · cases h1; exact h2
  | crash c' => simp
  | desync c' => simp

theorem pure_no_crash {α : Type} (a : α) (c c' : Ctx) : M.pure a c ≠ .crash c' := by
  unfold M.pure; intro h; cases h

theorem emit_no_crash (e : Ev) (c c' : Ctx) : emit e c ≠ .crash c' := by
  unfold emit; intro h; cases h

theorem repeatM_emit_no_crash (n : Nat) (e : Ev) (c c' : Ctx) : repeatM n (emit e) c ≠ .crash c' := by
  obtain ⟨c1, h, _⟩ := repeatM_emit_ok n e c
  rw [h]; intro h2; cases h2

theorem askCreate_no_crash (c c' : Ctx) : askCreate c ≠ .crash c' := by
  unfold askCreate; split <;> (intro h; cases h)

theorem askOutput_no_crash (len : Nat) (c c' : Ctx) : askOutput len c ≠ .crash c' := by
  unfold askOutput; split <;> (intro h; cases h)

theorem askCallback_no_crash (c c' : Ctx) : askCallback c ≠ .crash c' := by
  unfold askCallback; split <;> (intro h; cases h)

/-- an object on which the API layer cannot crash: it has its resamplers, or an error is stored (every entry point
    returns early then). -/
def Safe (o : Obj) : Prop := o.error = none → o.inited = true

/-- `initialise` does not crash and leaves a running object or the zeroed one with its error. -/
theorem initLoop_spec (o : Obj) (left made : Nat) (c : Ctx) :
    (∀ c', initLoop o left made c ≠ .crash c') ∧
    (∀ o' e c', initLoop o left made c = .ok (o', e) c' →
      (o' = { o with inited := true } ∧ e = none) ∨ (o' = deadObj .engine ∧ e = some .engine)) := by
  induction left generalizing made c with
  | zero =>
    unfold initLoop
    refine ⟨fun c' => pure_no_crash _ _ _, ?_⟩
    intro o' e c' h
    rw [pure_ok] at h
    obtain ⟨h1, -⟩ := h
    cases h1
    exact Or.inl ⟨rfl, rfl⟩
  | succ left ih =>
    unfold initLoop
    constructor
    · intro c' h
      rw [bind_crash] at h
      rcases h with h | ⟨ok, c1, _, h⟩
      · exact askCreate_no_crash _ _ h
      · rw [bind_crash] at h
        rcases h with h | ⟨_, c2, _, h⟩
        · exact emit_no_crash _ _ _ h
        · cases ok with
          | true => simp only [if_true] at h; exact (ih (made + 1) c2).1 c' h
          | false =>
            simp only [Bool.false_eq_true, if_false] at h
            rw [bind_crash] at h
            rcases h with h | ⟨_, c3, _, h⟩
            · exact repeatM_emit_no_crash _ _ _ _ h
            · exact pure_no_crash _ _ _ h
    · intro o' e c' h
      rw [bind_ok] at h
      obtain ⟨ok, c1, _, h⟩ := h
      rw [bind_ok] at h
      obtain ⟨_, c2, _, h⟩ := h
      cases ok with
      | true => simp only [if_true] at h; exact (ih (made + 1) c2).2 o' e c' h
      | false =>
        simp only [Bool.false_eq_true, if_false] at h
        rw [bind_ok] at h
        obtain ⟨_, c3, _, h⟩ := h
        rw [pure_ok] at h
        obtain ⟨h1, -⟩ := h
        cases h1
        exact Or.inr ⟨rfl, rfl⟩

/-- `soxr_set_io_ratio` followed by `soxr_set_error`, valid ratio, channels set: no crash, and the object is `Safe`. -/
theorem setIoRatio_safe (o : Obj) (r : D) (slew : Nat) (hch : o.error = none → o.chans ≠ 0) (hr : dpos r = true)
    (hs : o.error = none → o.inited = false → True) (c : Ctx) :
    (∀ c', setIoRatio o r slew c ≠ .crash c') ∧
    (∀ oe c', setIoRatio o r slew c = .ok oe c' → Safe (setError oe.1 oe.2)) := by
  obtain ⟨cfg, chans, io, error, inited, dead, hasFn, maxIlen, flushing⟩ := o
  unfold setIoRatio
  simp only at hch ⊢
  cases error with
  | some x =>
    simp only [Option.isSome_some, if_true]
    refine ⟨fun c' => pure_no_crash _ _ _, ?_⟩
    intro oe c' h
    rw [pure_ok] at h
    obtain ⟨h1, -⟩ := h
    subst h1
    intro hn
    rw [setError_some _ (some x) x rfl] at hn
    cases hn
  | none =>
    have hc := hch rfl
    simp only [Option.isSome_none, Bool.false_eq_true, if_false, hc, hr, Bool.not_true]
    cases inited with
    | false =>
      simp only [Bool.not_false, if_true]
      unfold initialise
      obtain ⟨n1, n2⟩ := initLoop_spec (⟨cfg, chans, r, none, false, dead, hasFn, maxIlen, flushing⟩ : Obj) chans 0 c
      refine ⟨n1, ?_⟩
      intro oe c' h
      obtain ⟨o', e⟩ := oe
      rcases n2 o' e c' h with ⟨h1, h2⟩ | ⟨h1, h2⟩
      · subst h1 h2
        intro _
        rw [setError_none _ _ rfl]
      · subst h1 h2
        intro hn
        rw [setError_some _ _ .engine rfl] at hn
        cases hn
    | true =>
      simp only [Bool.not_true, Bool.false_eq_true, if_false]
      split
      · constructor
        · intro c' h
          rw [bind_crash] at h
          rcases h with h | ⟨_, _, _, h⟩
          · exact repeatM_emit_no_crash _ _ _ _ h
          · exact pure_no_crash _ _ _ h
        · intro oe c' h
          rw [bind_ok] at h
          obtain ⟨_, c1, _, h⟩ := h
          rw [pure_ok] at h
          obtain ⟨h1, -⟩ := h
          subst h1
          intro _
          rw [setError_none _ none rfl]
      · refine ⟨fun c' => pure_no_crash _ _ _, ?_⟩
        intro oe c' h
        rw [pure_ok] at h
        obtain ⟨h1, -⟩ := h
        subst h1
        intro _
        rw [setError_none _ _ rfl]

theorem soxrInput_safe (o : Obj) (inNull : Bool) (len : Nat) (hs : Safe o) (c : Ctx) :
    (∀ c', soxrInput o inNull len c ≠ .crash c') ∧
    (∀ oi c', soxrInput o inNull len c = .ok oi c' → Safe oi.1 ∧ oi.1.inited = o.inited) := by
  obtain ⟨cfg, chans, io, error, inited, dead, hasFn, maxIlen, flushing⟩ := o
  unfold soxrInput
  simp only
  cases error with
  | some x =>
    simp only [Option.isSome_some, if_true]
    refine ⟨fun c' => pure_no_crash _ _ _, ?_⟩
    intro oi c' h; rw [pure_ok] at h; obtain ⟨h1, -⟩ := h; subst h1; exact ⟨hs, rfl⟩
  | none =>
    have hi : inited = true := hs rfl
    subst hi
    simp only [Option.isSome_none, Bool.false_eq_true, if_false]
    split
    · refine ⟨fun c' => pure_no_crash _ _ _, ?_⟩
      intro oi c' h; rw [pure_ok] at h; obtain ⟨h1, -⟩ := h; subst h1
      exact ⟨fun hn => (by cases hn), rfl⟩
    · split
      · refine ⟨fun c' => pure_no_crash _ _ _, ?_⟩
        intro oi c' h; rw [pure_ok] at h; obtain ⟨h1, -⟩ := h; subst h1
        exact ⟨fun _ => rfl, rfl⟩
      · simp only [Bool.not_true, Bool.false_eq_true, if_false]
        constructor
        · intro c' h
          rw [bind_crash] at h
          rcases h with h | ⟨_, _, _, h⟩
          · exact repeatM_emit_no_crash _ _ _ _ h
          · exact pure_no_crash _ _ _ h
        · intro oi c' h
          rw [bind_ok] at h
          obtain ⟨_, c1, _, h⟩ := h
          rw [pure_ok] at h; obtain ⟨h1, -⟩ := h; subst h1
          exact ⟨hs, rfl⟩

theorem outChans_no_crash (o : Obj) (len left done : Nat) (c c' : Ctx) : outChans o len left done c ≠ .crash c' := by
  induction left generalizing done c with
  | zero => unfold outChans; exact pure_no_crash _ _ _
  | succ left ih =>
    unfold outChans
    intro h
    rw [bind_crash] at h
    rcases h with h | ⟨_, c1, _, h⟩
    · split at h
      · exact emit_no_crash _ _ _ h
      · exact pure_no_crash _ _ _ h
    · rw [bind_crash] at h
      rcases h with h | ⟨_, c2, _, h⟩
      · exact emit_no_crash _ _ _ h
      · rw [bind_crash] at h
        rcases h with h | ⟨g, c3, _, h⟩
        · exact askOutput_no_crash _ _ _ h
        · rw [bind_crash] at h
          rcases h with h | ⟨_, c4, _, h⟩
          · exact emit_no_crash _ _ _ h
          · exact ih g c4 h

theorem pullLoop_no_crash (fuel : Nat) (o : Obj) (len0 olen odone0 : Nat) (hi : o.inited = true) (hs : Safe o)
    (c c' : Ctx) : pullLoop fuel o len0 olen odone0 c ≠ .crash c' := by
  induction fuel generalizing o olen odone0 c with
  | zero => unfold pullLoop; intro h; cases h
  | succ fuel ih =>
    unfold pullLoop
    intro h
    rw [bind_crash] at h
    rcases h with h | ⟨odone, c1, _, h⟩
    · unfold outputNoCallback at h
      simp only [hi, Bool.not_true, Bool.false_eq_true, if_false] at h
      exact outChans_no_crash _ _ _ _ _ _ h
    · split at h
      · exact pure_no_crash _ _ _ h
      · rw [bind_crash] at h
        rcases h with h | ⟨cbr, c2, _, h⟩
        · exact askCallback_no_crash _ _ h
        · rw [bind_crash] at h
          rcases h with h | ⟨_, c3, _, h⟩
          · exact emit_no_crash _ _ _ h
          · split at h
            · exact pure_no_crash _ _ _ h
            · obtain ⟨n1, n2⟩ := soxrInput_safe o false cbr.1 hs c3
              rw [bind_crash] at h
              rcases h with h | ⟨oi, c4, hoi, h⟩
              · exact n1 _ h
              · obtain ⟨s2, i2⟩ := n2 oi c4 hoi
                split at h
                · exact ih oi.1 _ _ (by rw [i2]; exact hi) s2 c4 h
                · exact pure_no_crash _ _ _ h

theorem soxrOutput_no_crash (fuel : Nat) (o : Obj) (outNull : Bool) (len0 : Nat) (hs : Safe o) (c c' : Ctx) :
    soxrOutput fuel o outNull len0 c ≠ .crash c' := by
  unfold soxrOutput
  cases he : o.error with
  | some x => simp only [Option.isSome_some, if_true]; exact pure_no_crash _ _ _
  | none =>
    simp only [Option.isSome_none, Bool.false_eq_true, if_false]
    split
    · exact pure_no_crash _ _ _
    · exact pullLoop_no_crash fuel o len0 len0 0 (hs he) hs c c'

theorem processCore_no_crash (fuel : Nat) (o1 : Obj) (inNull outNull : Bool) (ilen olen : Nat) (hs : Safe o1)
    (c c' : Ctx) : processCore fuel o1 inNull outNull ilen olen c ≠ .crash c' := by
  unfold processCore
  intro h
  split at h
  · rw [bind_crash] at h
    rcases h with h | ⟨_, _, _, h⟩
    · split at h
      · exact repeatM_emit_no_crash _ _ _ _ h
      · exact pure_no_crash _ _ _ h
    · exact pure_no_crash _ _ _ h
  · rw [bind_crash] at h
    rcases h with h | ⟨oi, c1, hoi, h⟩
    · split at h
      · exact (soxrInput_safe _ _ _ hs c).1 _ h
      · exact pure_no_crash _ _ _ h
    · have hsafe : Safe oi.1 := by
        split at hoi
        · exact ((soxrInput_safe _ _ _ hs c).2 oi c1 hoi).1
        · rw [pure_ok] at hoi; obtain ⟨h1, -⟩ := hoi; subst h1; exact hs
      rw [bind_crash] at h
      rcases h with h | ⟨_, _, _, h⟩
      · exact soxrOutput_no_crash _ _ _ _ hsafe _ _ h
      · exact pure_no_crash _ _ _ h

theorem soxrProcess_no_crash (fuel : Nat) (o : Obj) (inNull : Bool) (ilen0 : BitVec 64) (outNull : Bool) (olen : Nat)
    (hs : Safe o) (c c' : Ctx) : soxrProcess fuel o inNull ilen0 outNull olen c ≠ .crash c' := by
  unfold soxrProcess
  have hs' : Safe { o with flushing := flushAfter o inNull ilen0 olen } := fun h => hs h
  exact processCore_no_crash _ _ _ _ _ _ hs' _ _

/-- **`src_process` does not crash** for a valid `src_ratio` on any object that is not "zeroed with its error dropped"
    (`error = none → num_channels ≠ 0`), whatever the engine and the callback answer, whether `resampler_create` fails or
    not, for any buffer pointers and sizes. -/
theorem srcProcess_no_crash (fuel : Nat) (o : Obj) (d : Data) (hch : o.error = none → o.chans ≠ 0)
    (hr : dpos (recip d.ratio) = true) (c c' : Ctx) : srcProcess fuel (some o) (some d) c ≠ .crash c' := by
  unfold srcProcess
  intro h
  obtain ⟨n1, n2⟩ := setIoRatio_safe o (recip d.ratio) d.outFrames.toNat hch hr (fun _ _ => trivial) c
  rw [bind_crash] at h
  rcases h with h | ⟨oe, c1, hoe, h⟩
  · exact n1 _ h
  · rw [bind_crash] at h
    rcases h with h | ⟨_, _, _, h⟩
    · exact soxrProcess_no_crash _ _ _ _ _ _ (n2 oe c1 hoe) _ _ h
    · exact pure_no_crash _ _ _ h

/-- the same for `src_callback_read`. -/
theorem srcCallbackRead_no_crash (fuel : Nat) (o : Obj) (ratio : D) (olen : BitVec 64) (outNull : Bool)
    (hch : o.error = none → o.chans ≠ 0) (hr : dpos (recip ratio) = true) (c c' : Ctx) :
    srcCallbackRead fuel (some o) ratio olen outNull c ≠ .crash c' := by
  unfold srcCallbackRead
  intro h
  simp only at h
  split at h
  · exact pure_no_crash _ _ _ h
  · obtain ⟨n1, n2⟩ := setIoRatio_safe o (recip ratio) olen.toNat hch hr (fun _ _ => trivial) c
    rw [bind_crash] at h
    rcases h with h | ⟨oe, c1, hoe, h⟩
    · exact n1 _ h
    · rw [bind_crash] at h
      rcases h with h | ⟨_, _, _, h⟩
      · exact soxrOutput_no_crash _ _ _ _ (n2 oe c1 hoe) _ _ h
      · exact pure_no_crash _ _ _ h

end Soxr.Lsr
