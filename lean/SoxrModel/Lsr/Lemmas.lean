import SoxrModel.Lsr.Model
/-! Lemmas about the Lsr model: the monad, `~input_frames`, the `odone ≤ olen` / `idone ≤ ilen` laws of the API layer,
    `soxr_set_error` as written, `soxr_clear`. -/
namespace Soxr.Lsr
open Soxr.Conv

/-! ## the monad -/


theorem bind_ok {α β : Type} (m : M α) (f : α → M β) (c c'' : Ctx) (b : β) :
    M.bind m f c = .ok b c'' ↔ ∃ a c', m c = .ok a c' ∧ f a c' = .ok b c'' := by
  unfold M.bind
  cases h : m c with
  | ok a c' =>
    constructor
    · intro h2; exact ⟨a, c', rfl, h2⟩
    · rintro ⟨_, _, h1, h2⟩; cases h1; exact h2
  | crash c' => simp
  | desync c' => simp

theorem pure_ok {α : Type} (a b : α) (c c' : Ctx) : M.pure a c = .ok b c' ↔ (a = b ∧ c = c') := by
  unfold M.pure; constructor
  · intro h; cases h; exact ⟨rfl, rfl⟩
  · rintro ⟨rfl, rfl⟩; rfl

/-! ## `~input_frames` on `size_t` -/

/-- **the end-of-input encoding round-trips**: for a non-negative `input_frames`, `soxr_process` decodes `~input_frames` as
    (flush requested, `input_frames`), and `input_frames` itself as (no flush, `input_frames`). -/
theorem decodeIlen_roundtrip (n : BitVec 64) (h : n.msb = false) :
    decodeIlen (~~~n) = (true, n) ∧ decodeIlen n = (false, n) := by
  unfold decodeIlen
  simp [BitVec.msb_not, h]

/-- `soxr_i_for_o` never exceeds the offered length. -/
theorem iForO_le (olen : Nat) (io : D) (ilen : Nat) : iForO olen io ilen ≤ ilen := Nat.min_le_right _ _

/-! ## `soxr_set_error`, as written -/

/-- with no error stored, `soxr_set_error` stores nothing — whatever it is given. -/
theorem setError_none (o : Obj) (e : Option Err) (h : o.error = none) : setError o e = o := by
  unfold setError
  cases e with
  | none => simp [h]; cases o; simp_all
  | some x => simp [h]

/-- with an error stored, it overwrites it (also with "no error"). -/
theorem setError_some (o : Obj) (e : Option Err) (x : Err) (h : o.error = some x) : (setError o e).error = e := by
  unfold setError; simp [h]

/-! ## the output side: `odone ≤ olen` -/

theorem askOutput_le (len : Nat) (c c' : Ctx) (g : Nat) (h : askOutput len c = .ok g c') : g ≤ len := by
  unfold askOutput at h
  split at h
  · cases h; exact Nat.min_le_right _ _
  · cases h

theorem emit_ok (e : Ev) (c c' : Ctx) (u : Unit) (h : emit e c = .ok u c') : c' = { c with evs := e :: c.evs } := by
  unfold emit at h; cases h; rfl

theorem outChans_le (o : Obj) (len : Nat) (left done : Nat) (hd : done ≤ len) (c c' : Ctx) (g : Nat)
    (h : outChans o len left done c = .ok g c') : g ≤ len := by
  induction left generalizing done c with
  | zero =>
    unfold outChans at h
    rw [pure_ok] at h
    omega
  | succ left ih =>
    unfold outChans at h
    simp only [bind_ok] at h
    obtain ⟨_, c1, _, h⟩ := h
    obtain ⟨_, c2, _, h⟩ := h
    obtain ⟨g1, c3, hg, h⟩ := h
    obtain ⟨_, c4, _, h⟩ := h
    exact ih g1 (askOutput_le len _ _ _ hg) c4 h

/-- E2 lifted to `soxr_output_no_callback`. -/
theorem outputNoCallback_le (o : Obj) (len : Nat) (c c' : Ctx) (g : Nat)
    (h : outputNoCallback o len c = .ok g c') : g ≤ len := by
  unfold outputNoCallback at h
  split at h
  · cases h
  · exact outChans_le o len o.chans 0 (Nat.zero_le _) c c' g h

/-- **the pull loop of `soxr_output` never delivers more than was asked for**, for any number of iterations, any
    engine answers (E2), any callback answers. -/
theorem pullLoop_le (fuel : Nat) (o : Obj) (len0 olen odone0 : Nat) (hinv : odone0 + olen = len0) (c c' : Ctx)
    (o' : Obj) (r : Nat) (h : pullLoop fuel o len0 olen odone0 c = .ok (o', r) c') : r ≤ len0 := by
  induction fuel generalizing o olen odone0 c with
  | zero => unfold pullLoop at h; cases h
  | succ fuel ih =>
    unfold pullLoop at h
    simp only [bind_ok] at h
    obtain ⟨odone, c1, hod, h⟩ := h
    have hle := outputNoCallback_le o olen c c1 odone hod
    split at h
    · rw [pure_ok] at h
      obtain ⟨h1, -⟩ := h
      cases h1; omega
    · simp only [bind_ok] at h
      obtain ⟨⟨idone, null⟩, c2, _, h⟩ := h
      obtain ⟨_, c3, _, h⟩ := h
      split at h
      · rw [pure_ok] at h
        obtain ⟨h1, -⟩ := h
        cases h1; omega
      · simp only [bind_ok] at h
        obtain ⟨⟨o2, n2⟩, c4, _, h⟩ := h
        split at h
        · exact ih o2 (olen - odone) (odone0 + odone) (by omega) c4 h
        · rw [pure_ok] at h
          obtain ⟨h1, -⟩ := h
          cases h1; omega

theorem soxrOutput_le (fuel : Nat) (o : Obj) (outNull : Bool) (len0 : Nat) (c c' : Ctx) (o' : Obj) (r : Nat)
    (h : soxrOutput fuel o outNull len0 c = .ok (o', r) c') : r ≤ len0 := by
  unfold soxrOutput at h
  split at h
  · rw [pure_ok] at h; obtain ⟨h1, -⟩ := h; cases h1; omega
  · split at h
    · rw [pure_ok] at h; obtain ⟨h1, -⟩ := h; cases h1; omega
    · exact pullLoop_le fuel o len0 len0 0 (by omega) c c' o' r h

/-! ## the input side: `idone ≤ ilen` -/

theorem soxrInput_le (o : Obj) (inNull : Bool) (len : Nat) (c c' : Ctx) (o' : Obj) (r : Nat)
    (h : soxrInput o inNull len c = .ok (o', r) c') : r ≤ len := by
  unfold soxrInput at h
  split at h
  · rw [pure_ok] at h; obtain ⟨h1, -⟩ := h; cases h1; omega
  · split at h
    · rw [pure_ok] at h; obtain ⟨h1, -⟩ := h; cases h1; omega
    · split at h
      · rw [pure_ok] at h; obtain ⟨h1, -⟩ := h; cases h1; omega
      · split at h
        · cases h
        · simp only [bind_ok] at h
          obtain ⟨_, c1, _, h⟩ := h
          rw [pure_ok] at h; obtain ⟨h1, -⟩ := h; cases h1; omega

theorem processCore_le (fuel : Nat) (o1 : Obj) (inNull outNull : Bool) (ilen olen : Nat) (c c' : Ctx) (o' : Obj)
    (idone odone : Nat) (h : processCore fuel o1 inNull outNull ilen olen c = .ok (o', idone, odone) c') :
    idone ≤ ilen ∧ odone ≤ olen := by
  unfold processCore at h
  split at h
  · rw [bind_ok] at h
    obtain ⟨_, c1, _, h⟩ := h
    rw [pure_ok] at h; obtain ⟨h1, -⟩ := h; cases h1; exact ⟨Nat.le_refl _, Nat.zero_le _⟩
  · simp only [bind_ok] at h
    obtain ⟨⟨o1', i1⟩, c1, hi, h⟩ := h
    obtain ⟨⟨o2, d2⟩, c2, ho, h⟩ := h
    rw [pure_ok] at h; obtain ⟨h1, -⟩ := h; cases h1
    refine ⟨?_, soxrOutput_le _ _ _ _ _ _ _ _ ho⟩
    split at hi
    · exact soxrInput_le _ _ _ _ _ _ _ hi
    · rw [pure_ok] at hi; obtain ⟨h1, -⟩ := hi; cases h1; exact Nat.zero_le _

theorem ilenOf_le (o : Obj) (inNull : Bool) (ilen0 : BitVec 64) (olen : Nat) :
    ilenOf o inNull ilen0 olen ≤ (decodeIlen ilen0).2.toNat := by
  unfold ilenOf
  split
  · exact Nat.zero_le _
  · exact iForO_le _ _ _

/-- **`soxr_process`: `idone ≤ ilen0` (decoded) and `odone ≤ olen`.** -/
theorem soxrProcess_le (fuel : Nat) (o : Obj) (inNull : Bool) (ilen0 : BitVec 64) (outNull : Bool) (olen : Nat)
    (c c' : Ctx) (o' : Obj) (idone odone : Nat)
    (h : soxrProcess fuel o inNull ilen0 outNull olen c = .ok (o', idone, odone) c') :
    idone ≤ (decodeIlen ilen0).2.toNat ∧ odone ≤ olen := by
  unfold soxrProcess at h
  obtain ⟨h1, h2⟩ := processCore_le _ _ _ _ _ _ _ _ _ _ _ h
  exact ⟨Nat.le_trans h1 (ilenOf_le o inNull ilen0 olen), h2⟩

/-! ## `src_process`, `src_callback_read`, `src_simple` -/

/-- **The `SRC_DATA` contract of `src_process`**: for every converter state, every data block with a non-negative
    `input_frames`, every engine and callback behaviour — if the call returns at all, both counts are reported,
    `input_frames_used ≤ input_frames` and `output_frames_gen ≤ output_frames` (`end_of_input` or not). -/
theorem srcProcess_contract (fuel : Nat) (o : Obj) (d : Data) (hin : d.inFrames.msb = false) (c c' : Ctx)
    (p' : Option Obj) (r : PRes) (h : srcProcess fuel (some o) (some d) c = .ok (p', r) c') :
    ∃ u g, r.used = some u ∧ r.gen = some g ∧ u ≤ d.inFrames.toNat ∧ g ≤ d.outFrames.toNat := by
  unfold srcProcess at h
  simp only [bind_ok] at h
  obtain ⟨oe, c1, _, h⟩ := h
  obtain ⟨⟨o2, i2, d2⟩, c2, hp, h⟩ := h
  rw [pure_ok] at h
  obtain ⟨h1, -⟩ := h
  cases h1
  obtain ⟨hi, ho⟩ := soxrProcess_le _ _ _ _ _ _ _ _ _ _ _ hp
  refine ⟨i2, d2, rfl, rfl, ?_, ho⟩
  obtain ⟨r1, r2⟩ := decodeIlen_roundtrip d.inFrames hin
  cases he : d.eoi with
  | true => rw [he] at hi; simp only [if_true] at hi; rw [r1] at hi; exact hi
  | false => rw [he] at hi; simp only [Bool.false_eq_true, if_false] at hi; rw [r2] at hi; exact hi

/-- a NULL converter or a NULL data block: `-1`, nothing written, nothing touched, no engine call. -/
theorem srcProcess_null (fuel : Nat) (p : Option Obj) (io : Option Data) (hnull : p = none ∨ io = none) (c : Ctx) :
    srcProcess fuel p io c = .ok (p, ⟨-1, none, none⟩) c := by
  rcases hnull with h | h <;> subst h
  · cases io <;> rfl
  · cases p <;> rfl

/-- **`src_callback_read` returns between 0 and `olen`** (or `-1` for a NULL converter / negative length). -/
theorem srcCallbackRead_contract (fuel : Nat) (p : Option Obj) (ratio : D) (olen : BitVec 64) (outNull : Bool)
    (c c' : Ctx) (p' : Option Obj) (ret : Int) (h : srcCallbackRead fuel p ratio olen outNull c = .ok (p', ret) c') :
    (p = none ∨ olen.msb = true → ret = -1 ∧ p' = p ∧ c' = c) ∧
    (p ≠ none → olen.msb = false → 0 ≤ ret ∧ ret ≤ olen.toNat) := by
  unfold srcCallbackRead at h
  cases p with
  | none =>
    simp only at h
    rw [pure_ok] at h
    obtain ⟨h1, h2⟩ := h
    cases h1
    exact ⟨fun _ => ⟨rfl, rfl, h2.symm⟩, fun hne => absurd rfl hne⟩
  | some o =>
    simp only at h
    cases hm : olen.msb with
    | true =>
      rw [hm] at h; simp only [if_true] at h
      rw [pure_ok] at h
      obtain ⟨h1, h2⟩ := h
      cases h1
      exact ⟨fun _ => ⟨rfl, rfl, h2.symm⟩, fun _ hf => by cases hf⟩
    | false =>
      rw [hm] at h; simp only [Bool.false_eq_true, if_false] at h
      simp only [bind_ok] at h
      obtain ⟨oe, c1, _, h⟩ := h
      obtain ⟨⟨o2, d2⟩, c2, ho, h⟩ := h
      rw [pure_ok] at h
      obtain ⟨h1, -⟩ := h
      cases h1
      have := soxrOutput_le _ _ _ _ _ _ _ _ ho
      refine ⟨fun hh => ?_, fun _ _ => ⟨by omega, by omega⟩⟩
      rcases hh with hh | hh <;> cases hh

/-- **`src_simple`**: if it runs to completion the counts are within the offered sizes. -/
theorem srcSimple_contract (fuel : Nat) (d : Data) (id : Nat) (chans : Int) (c c' : Ctx) (rc : Int) (u g : Nat)
    (h : srcSimple fuel (some d) id chans c = .ok (.done rc u g) c') :
    u ≤ d.inFrames.toNat ∧ g ≤ d.outFrames.toNat ∧ d.inFrames.msb = false := by
  unfold srcSimple at h
  simp only at h
  split at h
  · rw [pure_ok] at h; obtain ⟨h1, -⟩ := h; cases h1
  · rename_i hc
    simp only [Bool.or_eq_true, decide_eq_true_eq, not_or, Bool.not_eq_true] at hc
    simp only [bind_ok] at h
    obtain ⟨oe, c1, _, h⟩ := h
    split at h
    · rw [pure_ok] at h; obtain ⟨h1, -⟩ := h; cases h1
      exact ⟨Nat.zero_le _, Nat.zero_le _, hc.1.2⟩
    · simp only [bind_ok] at h
      obtain ⟨⟨o2, i2, d2⟩, c2, hp, h⟩ := h
      obtain ⟨_, c3, _, h⟩ := h
      rw [pure_ok] at h
      obtain ⟨h1, -⟩ := h
      cases h1
      obtain ⟨hi, ho⟩ := soxrProcess_le _ _ _ _ _ _ _ _ _ _ _ hp
      rw [(decodeIlen_roundtrip d.inFrames hc.1.2).1] at hi
      exact ⟨hi, ho, hc.1.2⟩

/-! ## ratio changes, as written -/

/-- a constant-rate engine (no `set_io_ratio` entry) that is already running refuses a different ratio … -/
theorem setIoRatio_refused (o : Obj) (r : D) (slew : Nat) (he : o.error = none) (hc : o.chans ≠ 0) (hr : dpos r = true)
    (hi : o.inited = true) (hv : o.cfg.vr = false) (hd : closeTo o.ioRatio r = false) (c : Ctx) :
    setIoRatio o r slew c = .ok (o, some .varying) c := by
  unfold setIoRatio
  simp [he, hc, hr, hi, hv, hd, M.pure]

/-- … and `src_process` loses the refusal in `soxr_set_error`: the object is untouched, the old ratio stays in force, and
    no error is stored (so `src_process` goes on and returns 0). -/
theorem refused_change_is_silent (o : Obj) (he : o.error = none) : setError o (some .varying) = o :=
  setError_none o _ he

/-- the same ratio again (within `1e-15` of the stored reciprocal) is accepted and changes nothing. -/
theorem setIoRatio_same (o : Obj) (r : D) (slew : Nat) (he : o.error = none) (hc : o.chans ≠ 0) (hr : dpos r = true)
    (hi : o.inited = true) (hv : o.cfg.vr = false) (hd : closeTo o.ioRatio r = true) (c : Ctx) :
    setIoRatio o r slew c = .ok (o, none) c := by
  unfold setIoRatio
  simp [he, hc, hr, hi, hv, hd, M.pure]

/-! ## `src_reset` -/

theorem repeatM_emit_ok (n : Nat) (e : Ev) (c : Ctx) : ∃ c', repeatM n (emit e) c = .ok () c' ∧ c'.toks = c.toks := by
  induction n generalizing c with
  | zero => exact ⟨c, rfl, rfl⟩
  | succ n ih =>
    obtain ⟨c', h1, h2⟩ := ih { c with evs := e :: c.evs }
    refine ⟨c', ?_, h2⟩
    unfold repeatM M.bind emit
    exact h1

theorem closeAll_ok (o : Obj) (c : Ctx) : ∃ c', closeAll o c = .ok () c' ∧ c'.toks = c.toks := by
  unfold closeAll
  split
  · exact repeatM_emit_ok _ _ _
  · exact ⟨c, rfl, rfl⟩

/-- **`src_reset` on a converter without `RESET_ON_CLEAR` gives the object `src_new` gives**: any history,
    any stored error (it is dropped), running or not; the engine instances are closed; return code 0. -/
theorem reset_is_fresh_of_flag (id chans : Nat) (fn : Bool) (o : Obj) (hcfg : o.cfg = cfgOf id) (hr : (cfgOf id).reset = false)
    (hch : o.chans = chans) (hfn : o.hasFn = fn) (hmax : o.maxIlen = 2 ^ 64 - 1) (hdead : o.dead = false) (c : Ctx) :
    ∃ c', srcReset (some o) c = .ok (some (fresh id chans fn), 0) c' ∧ c'.toks = c.toks := by
  obtain ⟨c1, h1, h2⟩ := closeAll_ok o c
  refine ⟨c1, ?_, h2⟩
  unfold srcReset soxrClear
  simp only [hdead, Bool.and_false, Bool.false_eq_true, if_false, M.bind, h1]
  rw [hcfg, hr]
  simp only [Bool.not_false, if_true, M.pure, rcOf, Option.isSome_none, Bool.false_eq_true, if_false]
  congr 3
  unfold fresh
  cases o
  simp_all

/-- with `RESET_ON_CLEAR` (ids 3, 4, 5), channels set and a ratio stored, `soxr_clear` goes on to
    `soxr_set_io_ratio(p, old ratio, 0)` on the object that still holds the old ratio. -/
theorem reset_with_flag (o : Obj) (hr : o.cfg.reset = true) (hc : o.chans ≠ 0) (hz : isZero o.ioRatio = false)
    (hd : o.dead = false) (c : Ctx) :
    soxrClear o c = M.bind (closeAll o) (fun _ =>
      setIoRatio { o with error := none, inited := false, flushing := false } o.ioRatio 0) c := by
  unfold soxrClear
  simp [hr, hc, hz, hd]

/-! ## totals: what the engine owes, then nothing

The engine laws are hypotheses here, named after where they are proved for the engine models:
E2 (`Fifo/FootprintLemmas`, `Cr`), exact drain C03 (`Cr/Stream`: after the end of input exactly the owed total is
delivered, never more), progress C08 (a flushing engine with output owed and room offered delivers something). -/

/-- one drain call: `olen` frames of room, the engine hands over `g`. -/
structure Drain where
  olen : Nat
  g : Nat

/-- the three laws along a run of drain calls, `tout` delivered so far of `owed`. -/
def Lawful (owed : Nat) : Nat → List Drain → Prop
  | _, [] => True
  | tout, d :: ds => d.g ≤ d.olen ∧ tout + d.g ≤ owed ∧ (0 < d.olen → tout < owed → 0 < d.g) ∧ Lawful owed (tout + d.g) ds

def delivered (ds : List Drain) : Nat := (ds.map (·.g)).sum

theorem mem_le_sum (l : List Nat) (x : Nat) (h : x ∈ l) : x ≤ l.sum := by
  induction l with
  | nil => cases h
  | cons a l ih =>
    simp only [List.sum_cons]
    rcases List.mem_cons.mp h with h | h
    · omega
    · have := ih h; omega

theorem lawful_total_le (owed : Nat) (tout : Nat) (ds : List Drain) (h : Lawful owed tout ds) (h0 : tout ≤ owed) :
    tout + delivered ds ≤ owed := by
  induction ds generalizing tout with
  | nil => simpa [delivered] using h0
  | cons d ds ih =>
    obtain ⟨_, h2, _, h4⟩ := h
    have := ih (tout + d.g) h4 h2
    simp only [delivered, List.map_cons, List.sum_cons] at this ⊢
    omega

/-- **Totals**: along any lawful run of calls with `end_of_input` set, the first call that returns 0 although room was
    offered marks the point where exactly the owed total has been delivered; every later call returns 0 as well. -/
theorem totals_owed_then_zero (owed tout : Nat) (pre post : List Drain) (d : Drain) (h0 : tout ≤ owed)
    (h : Lawful owed tout (pre ++ d :: post)) (hroom : 0 < d.olen) (hz : d.g = 0) :
    tout + delivered pre = owed ∧ ∀ e ∈ post, e.g = 0 := by
  induction pre generalizing tout with
  | nil =>
    obtain ⟨_, h2, h3, h4⟩ := h
    have ht : tout = owed := by
      rcases Nat.lt_or_ge tout owed with hlt | hge
      · have := h3 hroom hlt; omega
      · omega
    refine ⟨by simp [delivered, ht], ?_⟩
    intro e he
    have hle := lawful_total_le owed (tout + d.g) post h4 h2
    have : e.g ≤ delivered post := by
      unfold delivered
      exact mem_le_sum _ _ (List.mem_map_of_mem he)
    omega
  | cons p pre ih =>
    obtain ⟨_, h2, _, h4⟩ := h
    obtain ⟨a, b⟩ := ih (tout + p.g) h2 h4
    refine ⟨?_, b⟩
    simp only [delivered, List.map_cons, List.sum_cons] at a ⊢
    omega

end Soxr.Lsr
