import SoxrModel.Lsr.Model
/-! Line-protocol driver of the Lsr model (`soxr_lsr`).

    stdin: the op lines `harness/lsr/lsr.c` reads, each followed by ` | ` and the oracle tokens recorded on the real run
    (`c0`/`c1` answers of `resampler_create`, `g<n>` of `resampler_output`, `k<n>:<null>` of the callback); `seq <label>`
    forgets the converter.
    stdout: one line per op, `<events> | <result> | <state>`, in the canonical form `checks/c19.py` builds from the
    harness's `E`/`R`/`S` lines; `… | CRASH` when the model dereferences NULL; `… | DESYNC` when the oracle has no answer of
    the kind asked for. -/
namespace Soxr.Lsr.Driver
open Soxr.Lsr Soxr.Conv

def hexDigit (c : Char) : Nat :=
  if '0' ≤ c ∧ c ≤ '9' then c.toNat - '0'.toNat
  else if 'a' ≤ c ∧ c ≤ 'f' then c.toNat - 'a'.toNat + 10
  else if 'A' ≤ c ∧ c ≤ 'F' then c.toNat - 'A'.toNat + 10
  else 0

def hexToNat (s : String) : Nat := s.foldl (fun acc c => acc * 16 + hexDigit c) 0

def hexChar (d : Nat) : Char := if d < 10 then Char.ofNat (48 + d) else Char.ofNat (87 + d)

def toHex16 (v : Nat) : String :=
  let rec go : Nat → Nat → List Char → List Char
    | 0, _, acc => acc
    | k + 1, v, acc => go k (v / 16) (hexChar (v % 16) :: acc)
  String.ofList (go 16 v [])

/-- a C `long` argument as a 64-bit word. -/
def longOf (s : String) : BitVec 64 := BitVec.ofInt 64 (s.toInt?.getD 0)

/-- `(long)` of a `size_t`. -/
def asLong (n : Nat) : Int := (BitVec.ofNat 64 n).toInt

def b01 (s : String) : Bool := s == "1"
def s01 (b : Bool) : String := if b then "1" else "0"

def evStr : Ev → String
  | .create r ok => s!"cr:{toHex16 r}:{s01 ok}"
  | .setRatio r n => s!"sr:{toHex16 r}:{n}"
  | .input n => s!"in:{n}"
  | .flush => "fl"
  | .process n => s!"pr:{n}"
  | .output g => s!"out:{g}"
  | .close => "cl"
  | .cb n null => s!"cb:{n}:{s01 null}"

def parseTok (s : String) : Option Tok :=
  match s.toList with
  | 'c' :: r => some (.c (String.ofList r == "1"))
  | 'g' :: r => (String.ofList r).toNat?.map .g
  | 'k' :: r =>
    match (String.ofList r).splitOn ":" with
    | [n, z] => n.toNat?.map fun n => .k n (z == "1")
    | _ => none
  | _ => none

def stateStr : Option Obj → String
  | none => "-"
  | some o => s!"err={s01 o.error.isSome} io={toHex16 o.ioRatio} fl={s01 o.flushing} init={s01 o.inited} ch={o.chans} fn={s01 o.hasFn} mi={o.maxIlen}"

def evsStr (c : Ctx) : String := " ".intercalate (c.evs.reverse.map evStr)

def optLong : Option Nat → String
  | none => "-"
  | some n => toString (asLong n)

/-- runs one op: new current converter, output line. -/
def runOp (cur : Option Obj) (toks : List String) (oracle : List Tok) : Option Obj × String :=
  let c0 : Ctx := ⟨[], oracle⟩
  let fuel := oracle.length + 2
  let fin {α : Type} (r : R α) (k : α → Option Obj × String) : Option Obj × String :=
    match r with
    | .ok a c =>
      let (p, res) := k a
      (p, s!"{evsStr c} | {res} | {stateStr p}")
    | .crash c => (none, s!"{evsStr c} | CRASH")
    | .desync c => (none, s!"{evsStr c} | DESYNC")
  match toks with
  | ["new", id, ch, ep] =>
    let o := fresh (id.toNat?.getD 0) (ch.toNat?.getD 1) false
    (some o, s!" | h=1 e={if b01 ep then "0" else "77"} | {stateStr (some o)}")
  | ["cbnew", id, ch, ep, fn] =>
    let o := fresh (id.toNat?.getD 0) (ch.toNat?.getD 1) (b01 fn)
    (some o, s!" | h=1 e={if b01 ep then "0" else "77"} | {stateStr (some o)}")
  | ["process", rb, i, o, eoi, din, dout, ion, pn] =>
    let d : Data := ⟨hexToNat rb, longOf i, longOf o, b01 eoi, b01 din, b01 dout⟩
    let p := if b01 pn then none else cur
    fin (srcProcess fuel p (if b01 ion then none else some d) c0) fun (p', r) =>
      (if b01 pn then cur else p', s!"rc={r.rc} used={optLong r.used} gen={optLong r.gen}")
  | ["read", rb, olen, dout, pn, _] =>
    let p := if b01 pn then none else cur
    fin (srcCallbackRead fuel p (hexToNat rb) (longOf olen) (b01 dout) c0) fun (p', ret) =>
      (if b01 pn then cur else p', s!"ret={ret}")
  | ["simple", id, ch, rb, i, o, ion] =>
    let d : Data := ⟨hexToNat rb, longOf i, longOf o, false, false, false⟩
    match srcSimple fuel (if b01 ion then none else some d) (id.toNat?.getD 0) (ch.toInt?.getD 0) c0 with
    | .ok r _ =>
      let res := match r with
        | .refused => "rc=-1 refused"
        | .done rc u g => s!"rc={rc} used={asLong u} gen={asLong g}"
      (cur, s!" | {res} | {stateStr none}")
    | .crash _ => (none, " | CRASH")
    | .desync _ => (none, " | DESYNC")
  | ["setratio", rb, pn] =>
    let p := if b01 pn then none else cur
    fin (srcSetRatio p (hexToNat rb) c0) fun (p', rc) => (if b01 pn then cur else p', s!"rc={rc}")
  | ["reset", pn] =>
    let p := if b01 pn then none else cur
    fin (srcReset p c0) fun (p', rc) => (if b01 pn then cur else p', s!"rc={rc}")
  | ["error", pn] =>
    let p := if b01 pn then none else cur
    fin (srcError p c0) fun rc => (cur, s!"rc={rc}")
  | ["delete", pn] =>
    let p := if b01 pn then none else cur
    fin (srcDelete p c0) fun _ => (if b01 pn then cur else none, "ret=0")
  | ["strerror", code] => (cur, s!" | class={srcStrerror (code.toInt?.getD 0)} | {stateStr cur}")
  | ["name", id] => (cur, s!" | has={s01 (srcHasName (id.toInt?.getD 0))} same=1 | {stateStr cur}")
  | ["valid", rb] => (cur, s!" | valid={s01 (srcIsValidRatio (hexToNat rb))} | {stateStr cur}")
  | _ => (cur, " | unknown-op | -")

partial def loop (h : IO.FS.Stream) (out : IO.FS.Stream) (cur : Option Obj) : IO Unit := do
  let line ← h.getLine
  if line.isEmpty then return ()
  let line := line.trimAscii.toString
  if line.startsWith "seq" then
    out.putStrLn line
    loop h out none
  else
    let parts := line.splitOn "|"
    let toks := ((parts.getD 0 "").splitOn " ").filter (· ≠ "")
    let oracle := (((parts.getD 1 "").splitOn " ").filter (· ≠ "")).filterMap parseTok
    if toks.isEmpty then loop h out cur
    else
      let (cur', s) := runOp cur toks oracle
      out.putStrLn s
      loop h out cur'

end Soxr.Lsr.Driver

def main : IO Unit := do
  let stdin ← IO.getStdin
  let stdout ← IO.getStdout
  Soxr.Lsr.Driver.loop stdin stdout none
