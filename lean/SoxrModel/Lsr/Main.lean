/-! Line-protocol driver of the Lsr model (stub). -/
def main : IO Unit := pure ()
