import SoxrModel.Lsr.NoCrash
/-! The channel-count invariant behind `no_crash_in_contract`, one step for every entry point, and its lift to every
    sequence of in-contract calls from `src_new` / `src_callback_new`.

* `Inv o`  (`error = none → num_channels ≠ 0`) is what the single-call no-crash theorems need.  It is kept by
  `src_process`, `src_callback_read`, `src_set_ratio`, `src_error` for **every** oracle (a failing `resampler_create` zeroes
  the channel count but stores the error).  It is **not** kept by `src_reset`: `soxr_clear` drops the error of a zeroed
  object (`reset_breaks_inv`).
* `Live o` (`num_channels ≠ 0`) is kept by every entry point as long as no `resampler_create` fails during the call
  (`NoFail`: the oracle holds no `c false`), and implies `Inv`. -/
namespace Soxr.Lsr

/-- the hypothesis of the no-crash theorems. -/
def Inv (o : Obj) : Prop := o.error = none → o.chans ≠ 0

/-- the object has its channel count (it has not been zeroed by `fatal_error`). -/
def Live (o : Obj) : Prop := o.chans ≠ 0

theorem Live.inv {o : Obj} (h : Live o) : Inv o := fun _ => h

/-- no `resampler_create` fails: the oracle has no `c false`. -/
def NoFail (toks : List Tok) : Prop := ∀ t ∈ toks, t ≠ .c false

/-- `o'` has the channel count of `o`, and no error has been cleared on the way. -/
def Ext (o o' : Obj) : Prop := o'.chans = o.chans ∧ o'.dead = o.dead ∧ (o'.error = none → o.error = none)

theorem Ext.refl (o : Obj) : Ext o o := ⟨rfl, rfl, id⟩
theorem Ext.trans {a b c : Obj} (h1 : Ext a b) (h2 : Ext b c) : Ext a c :=
  ⟨h2.1.trans h1.1, h2.2.1.trans h1.2.1, fun h => h1.2.2 (h2.2.2 h)⟩
theorem Ext.inv {o o' : Obj} (h : Ext o o') (hi : Inv o) : Inv o' := fun he => by rw [h.1]; exact hi (h.2.2 he)

/-- the object is in one of the two states the code can leave it in: it has its channel count and has not been torn
    down, or it has been torn down by `fatal_error` (everything zero) and carries the error. -/
def Wf (o : Obj) : Prop := (o.chans ≠ 0 ∧ o.dead = false) ∨ (o.dead = true ∧ o.error ≠ none)

theorem Wf.inv {o : Obj} (h : Wf o) : Inv o := by
  intro he
  rcases h with ⟨h1, _⟩ | ⟨_, h2⟩
  · exact h1
  · exact absurd he h2

theorem Ext.wf {o o' : Obj} (h : Ext o o') (hw : Wf o) : Wf o' := by
  rcases hw with ⟨h1, h2⟩ | ⟨h1, h2⟩
  · exact Or.inl ⟨by rw [h.1]; exact h1, by rw [h.2.1]; exact h2⟩
  · exact Or.inr ⟨by rw [h.2.1]; exact h1, fun he => h2 (h.2.2 he)⟩
theorem Ext.live {o o' : Obj} (h : Ext o o') (hl : Live o) : Live o' := by unfold Live; rw [h.1]; exact hl

/-! ## the API layer keeps channel count and errors -/

theorem soxrInput_ext (o : Obj) (inNull : Bool) (len : Nat) (c c' : Ctx) (oi : Obj × Nat)
    (h : soxrInput o inNull len c = .ok oi c') : Ext o oi.1 := by
  unfold soxrInput at h
  split at h
  · rw [pure_ok] at h; obtain ⟨h1, -⟩ := h; subst h1; exact Ext.refl o
  · rename_i he
    have hen : o.error = none := by cases hx : o.error <;> simp_all
    split at h
    · rw [pure_ok] at h; obtain ⟨h1, -⟩ := h; subst h1; exact ⟨rfl, rfl, fun hn => by cases hn⟩
    · split at h
      · rw [pure_ok] at h; obtain ⟨h1, -⟩ := h; subst h1; exact ⟨rfl, rfl, fun _ => hen⟩
      · split at h
        · cases h
        · rw [bind_ok] at h
          obtain ⟨_, c1, _, h⟩ := h
          rw [pure_ok] at h; obtain ⟨h1, -⟩ := h; subst h1; exact Ext.refl o

theorem pullLoop_ext (fuel : Nat) (o : Obj) (len0 olen odone0 : Nat) (c c' : Ctx) (r : Obj × Nat)
    (h : pullLoop fuel o len0 olen odone0 c = .ok r c') : Ext o r.1 := by
  induction fuel generalizing o olen odone0 c with
  | zero => unfold pullLoop at h; cases h
  | succ fuel ih =>
    unfold pullLoop at h
    rw [bind_ok] at h
    obtain ⟨odone, c1, _, h⟩ := h
    split at h
    · rw [pure_ok] at h; obtain ⟨h1, -⟩ := h; subst h1; exact Ext.refl o
    · rw [bind_ok] at h
      obtain ⟨cbr, c2, _, h⟩ := h
      rw [bind_ok] at h
      obtain ⟨_, c3, _, h⟩ := h
      split at h
      · rw [pure_ok] at h; obtain ⟨h1, -⟩ := h; subst h1; exact ⟨rfl, rfl, fun hn => by cases hn⟩
      · rw [bind_ok] at h
        obtain ⟨oi, c4, hoi, h⟩ := h
        have e1 := soxrInput_ext o false cbr.1 c3 c4 oi hoi
        split at h
        · exact e1.trans (ih oi.1 _ _ c4 h)
        · rw [pure_ok] at h; obtain ⟨h1, -⟩ := h; subst h1; exact e1

theorem soxrOutput_ext (fuel : Nat) (o : Obj) (outNull : Bool) (len0 : Nat) (c c' : Ctx) (r : Obj × Nat)
    (h : soxrOutput fuel o outNull len0 c = .ok r c') : Ext o r.1 := by
  unfold soxrOutput at h
  split at h
  · rw [pure_ok] at h; obtain ⟨h1, -⟩ := h; subst h1; exact Ext.refl o
  · split at h
    · rw [pure_ok] at h; obtain ⟨h1, -⟩ := h; subst h1; exact ⟨rfl, rfl, fun hn => by cases hn⟩
    · exact pullLoop_ext fuel o len0 len0 0 c c' r h

theorem processCore_ext (fuel : Nat) (o1 : Obj) (inNull outNull : Bool) (ilen olen : Nat) (c c' : Ctx)
    (r : Obj × Nat × Nat) (h : processCore fuel o1 inNull outNull ilen olen c = .ok r c') : Ext o1 r.1 := by
  unfold processCore at h
  split at h
  · rw [bind_ok] at h
    obtain ⟨_, c1, _, h⟩ := h
    rw [pure_ok] at h; obtain ⟨h1, -⟩ := h; subst h1; exact Ext.refl o1
  · rw [bind_ok] at h
    obtain ⟨oi, c1, hoi, h⟩ := h
    rw [bind_ok] at h
    obtain ⟨oo, c2, hoo, h⟩ := h
    rw [pure_ok] at h; obtain ⟨h1, -⟩ := h; subst h1
    have e1 : Ext o1 oi.1 := by
      split at hoi
      · exact soxrInput_ext _ _ _ _ _ _ hoi
      · rw [pure_ok] at hoi; obtain ⟨h1, -⟩ := hoi; subst h1; exact Ext.refl o1
    exact e1.trans (soxrOutput_ext _ _ _ _ _ _ _ hoo)

theorem soxrProcess_ext (fuel : Nat) (o : Obj) (inNull : Bool) (ilen0 : BitVec 64) (outNull : Bool) (olen : Nat)
    (c c' : Ctx) (r : Obj × Nat × Nat) (h : soxrProcess fuel o inNull ilen0 outNull olen c = .ok r c') : Ext o r.1 := by
  unfold soxrProcess at h
  have e := processCore_ext _ _ _ _ _ _ _ _ _ h
  exact ⟨e.1, e.2.1, e.2.2⟩

/-! ## `soxr_set_io_ratio` + `soxr_set_error` -/

/-- `Inv` survives `soxr_set_io_ratio` followed by `soxr_set_error`, for every oracle: when `resampler_create` fails the
    object is zeroed but carries the error. -/
theorem setIoRatio_inv (o : Obj) (r : D) (slew : Nat) (hi : Inv o) (c c' : Ctx) (oe : Obj × Option Err)
    (h : setIoRatio o r slew c = .ok oe c') : Inv (setError oe.1 oe.2) ∧ Inv oe.1 := by
  obtain ⟨cfg, chans, io, error, inited, dead, hasFn, maxIlen, flushing⟩ := o
  unfold setIoRatio at h
  simp only at h hi
  cases error with
  | some x =>
    simp only [Option.isSome_some, if_true] at h
    rw [pure_ok] at h; obtain ⟨h1, -⟩ := h; subst h1
    refine ⟨fun hn => ?_, fun hn => by cases hn⟩
    rw [setError_some _ (some x) x rfl] at hn; cases hn
  | none =>
    have hc : chans ≠ 0 := hi rfl
    simp only [Option.isSome_none, Bool.false_eq_true, if_false, hc] at h
    split at h
    · rw [pure_ok] at h; obtain ⟨h1, -⟩ := h; subst h1
      rw [setError_none _ _ rfl]; exact ⟨fun _ => hc, fun _ => hc⟩
    · split at h
      · unfold initialise at h
        obtain ⟨o', e⟩ := oe
        rcases (initLoop_spec _ _ _ c).2 o' e c' h with ⟨h1, h2⟩ | ⟨h1, h2⟩
        · subst h1 h2
          rw [setError_none _ _ rfl]; exact ⟨fun _ => hc, fun _ => hc⟩
        · subst h1 h2
          refine ⟨fun hn => ?_, fun hn => by cases hn⟩
          rw [setError_some _ _ .engine rfl] at hn; cases hn
      · split at h
        · rw [bind_ok] at h
          obtain ⟨_, c1, _, h⟩ := h
          rw [pure_ok] at h; obtain ⟨h1, -⟩ := h; subst h1
          rw [setError_none _ _ rfl]; exact ⟨fun _ => hc, fun _ => hc⟩
        · rw [pure_ok] at h; obtain ⟨h1, -⟩ := h; subst h1
          rw [setError_none _ _ rfl]; exact ⟨fun _ => hc, fun _ => hc⟩

theorem NoFail.tail {t : Tok} {ts : List Tok} (h : NoFail (t :: ts)) : NoFail ts :=
  fun x hx => h x (List.mem_cons_of_mem _ hx)

theorem repeatM_emit_toks (n : Nat) (e : Ev) (c c' : Ctx) (u : Unit) (h : repeatM n (emit e) c = .ok u c') :
    c'.toks = c.toks := by
  obtain ⟨c1, h1, h2⟩ := repeatM_emit_ok n e c
  rw [h1] at h; cases h; exact h2

/-- with no failing `resampler_create` in the oracle, `initialise` succeeds. -/
theorem initLoop_nofail (o : Obj) (left made : Nat) (c c' : Ctx) (hn : NoFail c.toks) (o' : Obj) (e : Option Err)
    (h : initLoop o left made c = .ok (o', e) c') : o' = { o with inited := true } ∧ e = none := by
  induction left generalizing made c with
  | zero =>
    unfold initLoop at h
    rw [pure_ok] at h; obtain ⟨h1, -⟩ := h; cases h1; exact ⟨rfl, rfl⟩
  | succ left ih =>
    unfold initLoop at h
    rw [bind_ok] at h
    obtain ⟨ok, c1, hask, h⟩ := h
    rw [bind_ok] at h
    obtain ⟨_, c2, hem, h⟩ := h
    unfold askCreate at hask
    split at hask
    · rename_i ok' rest htoks
      cases hask
      have hok : ok = true := by
        cases ok with
        | true => rfl
        | false => exact absurd rfl (hn (.c false) (by rw [htoks]; exact List.mem_cons_self))
      subst hok
      simp only [if_true] at h
      have hc2 : c2.toks = rest := by
        have := emit_ok _ _ _ _ hem; rw [this]
      exact ih (made + 1) c2 (by rw [hc2]; rw [htoks] at hn; exact hn.tail) h
    · cases hask

theorem setError_chans (o : Obj) (e : Option Err) : (setError o e).chans = o.chans := by
  unfold setError; split <;> rfl

theorem setError_dead (o : Obj) (e : Option Err) : (setError o e).dead = o.dead := by
  unfold setError; split <;> rfl

/-- with no failing `resampler_create`: channel count and stored error are untouched, and a stored error is what is
    returned. -/
theorem setIoRatio_nofail (o : Obj) (r : D) (slew : Nat) (c c' : Ctx) (hn : NoFail c.toks) (oe : Obj × Option Err)
    (h : setIoRatio o r slew c = .ok oe c') :
    oe.1.chans = o.chans ∧ oe.1.dead = o.dead ∧ oe.1.error = o.error ∧ (o.error ≠ none → oe.2 = o.error) := by
  obtain ⟨cfg, chans, io, error, inited, dead, hasFn, maxIlen, flushing⟩ := o
  unfold setIoRatio at h
  simp only at h ⊢
  cases error with
  | some x =>
    simp only [Option.isSome_some, if_true] at h
    rw [pure_ok] at h; obtain ⟨h1, -⟩ := h; subst h1
    exact ⟨rfl, rfl, rfl, fun _ => rfl⟩
  | none =>
    simp only [Option.isSome_none, Bool.false_eq_true, if_false] at h
    split at h
    · rw [pure_ok] at h; obtain ⟨h1, -⟩ := h; subst h1; exact ⟨rfl, rfl, rfl, fun hh => absurd rfl hh⟩
    · split at h
      · rw [pure_ok] at h; obtain ⟨h1, -⟩ := h; subst h1; exact ⟨rfl, rfl, rfl, fun hh => absurd rfl hh⟩
      · split at h
        · unfold initialise at h
          obtain ⟨o', e⟩ := oe
          obtain ⟨h1, h2⟩ := initLoop_nofail _ _ _ c c' hn o' e h
          subst h1 h2
          exact ⟨rfl, rfl, rfl, fun hh => absurd rfl hh⟩
        · split at h
          · rw [bind_ok] at h
            obtain ⟨_, c1, _, h⟩ := h
            rw [pure_ok] at h; obtain ⟨h1, -⟩ := h; subst h1; exact ⟨rfl, rfl, rfl, fun hh => absurd rfl hh⟩
          · rw [pure_ok] at h; obtain ⟨h1, -⟩ := h; subst h1; exact ⟨rfl, rfl, rfl, fun hh => absurd rfl hh⟩

/-- `Live` survives `soxr_set_io_ratio` (+ `soxr_set_error`) when no `resampler_create` fails; no error is cleared. -/
theorem setIoRatio_live (o : Obj) (r : D) (slew : Nat) (c c' : Ctx) (hn : NoFail c.toks) (oe : Obj × Option Err)
    (h : setIoRatio o r slew c = .ok oe c') : Ext o oe.1 ∧ Ext o (setError oe.1 oe.2) := by
  obtain ⟨h1, hd, h2, h3⟩ := setIoRatio_nofail o r slew c c' hn oe h
  refine ⟨⟨h1, hd, fun hh => by rw [← h2]; exact hh⟩, ?_⟩
  cases ho : o.error with
  | none =>
    rw [setError_none _ _ (by rw [h2]; exact ho)]
    exact ⟨h1, hd, fun _ => ho⟩
  | some x =>
    have he : oe.2 = some x := by rw [← ho]; exact h3 (by rw [ho]; exact fun hh => by cases hh)
    refine ⟨by rw [setError_chans]; exact h1, by rw [setError_dead]; exact hd, fun hh => ?_⟩
    rw [setError_some _ _ x (by rw [h2]; exact ho), he] at hh
    cases hh

/-- `Wf` survives `soxr_set_io_ratio` followed by `soxr_set_error`, for **every** oracle: when `resampler_create` fails
    the object is the torn-down one with its error. -/
theorem setIoRatio_wf (o : Obj) (r : D) (slew : Nat) (hw : Wf o) (c c' : Ctx) (oe : Obj × Option Err)
    (h : setIoRatio o r slew c = .ok oe c') : Wf (setError oe.1 oe.2) ∧ Wf oe.1 := by
  obtain ⟨cfg, chans, io, error, inited, dead, hasFn, maxIlen, flushing⟩ := o
  unfold setIoRatio at h
  simp only at h
  have wfse : ∀ (o1 : Obj), Wf o1 → o1.error = none → ∀ e, Wf (setError o1 e) := fun o1 h1 h2 e => by
    rw [setError_none o1 e h2]; exact h1
  cases error with
  | some x =>
    simp only [Option.isSome_some, if_true] at h
    rw [pure_ok] at h; obtain ⟨h1, -⟩ := h; subst h1
    refine ⟨?_, hw⟩
    have e1 : (setError (⟨cfg, chans, io, some x, inited, dead, hasFn, maxIlen, flushing⟩ : Obj) (some x)) =
        ⟨cfg, chans, io, some x, inited, dead, hasFn, maxIlen, flushing⟩ := by
      unfold setError; simp
    rw [e1]; exact hw
  | none =>
    have hlive : chans ≠ 0 ∧ dead = false := by
      rcases hw with h1 | ⟨_, h2⟩
      · exact h1
      · exact absurd rfl h2
    simp only [Option.isSome_none, Bool.false_eq_true, if_false, hlive.1] at h
    split at h
    · rw [pure_ok] at h; obtain ⟨h1, -⟩ := h; subst h1
      exact ⟨wfse _ hw rfl _, hw⟩
    · split at h
      · unfold initialise at h
        obtain ⟨o', e⟩ := oe
        rcases (initLoop_spec _ _ _ c).2 o' e c' h with ⟨h1, h2⟩ | ⟨h1, h2⟩
        · subst h1 h2
          have w2 : Wf (⟨cfg, chans, r, none, true, dead, hasFn, maxIlen, flushing⟩ : Obj) := Or.inl hlive
          exact ⟨wfse _ w2 rfl _, w2⟩
        · subst h1 h2
          have w2 : Wf (deadObj .engine) := Or.inr ⟨rfl, fun hh => by cases hh⟩
          refine ⟨?_, w2⟩
          have e1 : setError (deadObj .engine) (some .engine) = deadObj .engine := by decide
          rw [e1]; exact w2
      · split at h
        · rw [bind_ok] at h
          obtain ⟨_, c1, _, h⟩ := h
          rw [pure_ok] at h; obtain ⟨h1, -⟩ := h; subst h1
          exact ⟨wfse _ hw rfl _, hw⟩
        · rw [pure_ok] at h; obtain ⟨h1, -⟩ := h; subst h1
          exact ⟨wfse _ hw rfl _, hw⟩

/-- the generic "result of a step": the new object, and what it relates to. -/
theorem setIoRatio_no_crash (o : Obj) (r : D) (slew : Nat) (c c' : Ctx) : setIoRatio o r slew c ≠ .crash c' := by
  unfold setIoRatio
  intro h
  split at h
  · exact pure_no_crash _ _ _ h
  · split at h
    · exact pure_no_crash _ _ _ h
    · split at h
      · exact pure_no_crash _ _ _ h
      · split at h
        · unfold initialise at h; exact (initLoop_spec _ _ _ c).1 c' h
        · split at h
          · rw [bind_crash] at h
            rcases h with h | ⟨_, _, _, h⟩
            · exact repeatM_emit_no_crash _ _ _ _ h
            · exact pure_no_crash _ _ _ h
          · exact pure_no_crash _ _ _ h

/-! ## one step of every entry point -/

/-- **`src_process` keeps `Inv`** — every oracle, every data block (also out-of-contract ones). -/
theorem srcProcess_inv (fuel : Nat) (o : Obj) (d : Data) (hi : Inv o) (c c' : Ctx) (p' : Option Obj) (r : PRes)
    (h : srcProcess fuel (some o) (some d) c = .ok (p', r) c') : ∃ o', p' = some o' ∧ Inv o' := by
  unfold srcProcess at h
  simp only at h
  rw [bind_ok] at h
  obtain ⟨oe, c1, hoe, h⟩ := h
  rw [bind_ok] at h
  obtain ⟨rr, c2, hp, h⟩ := h
  rw [pure_ok] at h; obtain ⟨h1, -⟩ := h; cases h1
  exact ⟨rr.1, rfl, (soxrProcess_ext _ _ _ _ _ _ _ _ _ hp).inv (setIoRatio_inv o _ _ hi c c1 oe hoe).1⟩

/-- **`src_process` keeps `Live`** when no `resampler_create` fails during the call. -/
theorem srcProcess_live (fuel : Nat) (o : Obj) (d : Data) (hl : Live o) (c c' : Ctx) (hn : NoFail c.toks)
    (p' : Option Obj) (r : PRes) (h : srcProcess fuel (some o) (some d) c = .ok (p', r) c') :
    ∃ o', p' = some o' ∧ Live o' := by
  unfold srcProcess at h
  simp only at h
  rw [bind_ok] at h
  obtain ⟨oe, c1, hoe, h⟩ := h
  rw [bind_ok] at h
  obtain ⟨rr, c2, hp, h⟩ := h
  rw [pure_ok] at h; obtain ⟨h1, -⟩ := h; cases h1
  exact ⟨rr.1, rfl, ((setIoRatio_live o _ _ c c1 hn oe hoe).2.trans (soxrProcess_ext _ _ _ _ _ _ _ _ _ hp)).live hl⟩

theorem srcCallbackRead_inv (fuel : Nat) (o : Obj) (ratio : D) (olen : BitVec 64) (outNull : Bool) (hi : Inv o)
    (c c' : Ctx) (p' : Option Obj) (ret : Int) (h : srcCallbackRead fuel (some o) ratio olen outNull c = .ok (p', ret) c') :
    ∃ o', p' = some o' ∧ Inv o' := by
  unfold srcCallbackRead at h
  simp only at h
  split at h
  · rw [pure_ok] at h; obtain ⟨h1, -⟩ := h; cases h1; exact ⟨o, rfl, hi⟩
  · rw [bind_ok] at h
    obtain ⟨oe, c1, hoe, h⟩ := h
    rw [bind_ok] at h
    obtain ⟨rr, c2, hp, h⟩ := h
    rw [pure_ok] at h; obtain ⟨h1, -⟩ := h; cases h1
    exact ⟨rr.1, rfl, (soxrOutput_ext _ _ _ _ _ _ _ hp).inv (setIoRatio_inv o _ _ hi c c1 oe hoe).1⟩

theorem srcCallbackRead_live (fuel : Nat) (o : Obj) (ratio : D) (olen : BitVec 64) (outNull : Bool) (hl : Live o)
    (c c' : Ctx) (hn : NoFail c.toks) (p' : Option Obj) (ret : Int)
    (h : srcCallbackRead fuel (some o) ratio olen outNull c = .ok (p', ret) c') : ∃ o', p' = some o' ∧ Live o' := by
  unfold srcCallbackRead at h
  simp only at h
  split at h
  · rw [pure_ok] at h; obtain ⟨h1, -⟩ := h; cases h1; exact ⟨o, rfl, hl⟩
  · rw [bind_ok] at h
    obtain ⟨oe, c1, hoe, h⟩ := h
    rw [bind_ok] at h
    obtain ⟨rr, c2, hp, h⟩ := h
    rw [pure_ok] at h; obtain ⟨h1, -⟩ := h; cases h1
    exact ⟨rr.1, rfl, ((setIoRatio_live o _ _ c c1 hn oe hoe).2.trans (soxrOutput_ext _ _ _ _ _ _ _ hp)).live hl⟩

/-- **`src_process` keeps `Wf`** — every oracle. -/
theorem srcProcess_wf (fuel : Nat) (o : Obj) (d : Data) (hw : Wf o) (c c' : Ctx) (p' : Option Obj) (r : PRes)
    (h : srcProcess fuel (some o) (some d) c = .ok (p', r) c') : ∃ o', p' = some o' ∧ Wf o' := by
  unfold srcProcess at h
  simp only at h
  rw [bind_ok] at h
  obtain ⟨oe, c1, hoe, h⟩ := h
  rw [bind_ok] at h
  obtain ⟨rr, c2, hp, h⟩ := h
  rw [pure_ok] at h; obtain ⟨h1, -⟩ := h; cases h1
  exact ⟨rr.1, rfl, (soxrProcess_ext _ _ _ _ _ _ _ _ _ hp).wf (setIoRatio_wf o _ _ hw c c1 oe hoe).1⟩

theorem srcCallbackRead_wf (fuel : Nat) (o : Obj) (ratio : D) (olen : BitVec 64) (outNull : Bool) (hw : Wf o)
    (c c' : Ctx) (p' : Option Obj) (ret : Int) (h : srcCallbackRead fuel (some o) ratio olen outNull c = .ok (p', ret) c') :
    ∃ o', p' = some o' ∧ Wf o' := by
  unfold srcCallbackRead at h
  simp only at h
  split at h
  · rw [pure_ok] at h; obtain ⟨h1, -⟩ := h; cases h1; exact ⟨o, rfl, hw⟩
  · rw [bind_ok] at h
    obtain ⟨oe, c1, hoe, h⟩ := h
    rw [bind_ok] at h
    obtain ⟨rr, c2, hp, h⟩ := h
    rw [pure_ok] at h; obtain ⟨h1, -⟩ := h; cases h1
    exact ⟨rr.1, rfl, (soxrOutput_ext _ _ _ _ _ _ _ hp).wf (setIoRatio_wf o _ _ hw c c1 oe hoe).1⟩

/-- `src_set_ratio` (any ratio): never crashes, keeps `Inv` and `Wf` (every oracle) and `Live` (no failing create). -/
theorem srcSetRatio_step (o : Obj) (ratio : D) (c : Ctx) :
    (∀ c', srcSetRatio (some o) ratio c ≠ .crash c') ∧
    (∀ p' rc c', srcSetRatio (some o) ratio c = .ok (p', rc) c' →
      ∃ o', p' = some o' ∧ (Inv o → Inv o') ∧ (Wf o → Wf o') ∧ (NoFail c.toks → Live o → Live o')) := by
  unfold srcSetRatio
  simp only
  constructor
  · intro c' h
    rw [bind_crash] at h
    rcases h with h | ⟨_, _, _, h⟩
    · exact setIoRatio_no_crash _ _ _ _ _ h
    · exact pure_no_crash _ _ _ h
  · intro p' rc c' h
    rw [bind_ok] at h
    obtain ⟨oe, c1, hoe, h⟩ := h
    rw [pure_ok] at h; obtain ⟨h1, -⟩ := h; cases h1
    exact ⟨oe.1, rfl, fun hi => (setIoRatio_inv o _ _ hi c c1 oe hoe).2, fun hw => (setIoRatio_wf o _ _ hw c c1 oe hoe).2,
      fun hn hl => (setIoRatio_live o _ _ c c1 hn oe hoe).1.live hl⟩

theorem closeAll_spec (o : Obj) (c c' : Ctx) (u : Unit) (h : closeAll o c = .ok u c') : c'.toks = c.toks := by
  obtain ⟨c1, h1, h2⟩ := closeAll_ok o c
  rw [h1] at h; cases h; exact h2

/-- `soxr_clear` (as repaired, /repo b5a678f): never crashes, keeps `Wf` for **every** oracle — a torn-down object is
    refused and keeps its error — and keeps `Live` when no `resampler_create` fails. -/
theorem soxrClear_step (o : Obj) (c : Ctx) :
    (∀ c', soxrClear o c ≠ .crash c') ∧
    (∀ oe c', soxrClear o c = .ok oe c' → (Wf o → Wf oe.1) ∧ (NoFail c.toks → Live o → Live oe.1)) := by
  unfold soxrClear
  split
  · refine ⟨fun c' => pure_no_crash _ _ _, ?_⟩
    intro oe c' h
    rw [pure_ok] at h; obtain ⟨h1, -⟩ := h; subst h1
    exact ⟨id, fun _ hl => hl⟩
  · rename_i hz
    have hlive : Wf o → o.chans ≠ 0 ∧ o.dead = false := by
      intro hw
      rcases hw with h1 | ⟨h1, h2⟩
      · exact h1
      · exfalso; apply hz
        cases he : o.error with
        | none => exact absurd he h2
        | some x => simp [h1]
    constructor
    · intro c' h
      rw [bind_crash] at h
      rcases h with h | ⟨_, c1, _, h⟩
      · obtain ⟨c2, h1, _⟩ := closeAll_ok o c
        rw [h1] at h; cases h
      · split at h
        · exact pure_no_crash _ _ _ h
        · split at h
          · exact setIoRatio_no_crash _ _ _ _ _ h
          · exact pure_no_crash _ _ _ h
    · intro oe c' h
      rw [bind_ok] at h
      obtain ⟨_, c2, hcl, h⟩ := h
      have ht := closeAll_spec o c c2 _ hcl
      split at h
      · rw [pure_ok] at h; obtain ⟨h1, -⟩ := h; subst h1
        exact ⟨fun hw => Or.inl (hlive hw), fun _ hl => hl⟩
      · split at h
        · have hcl' : ∀ (hl : Live o), Live ({ o with error := none, inited := false, flushing := false } : Obj) := fun hl => hl
          have hw' : Wf o → Wf ({ o with error := none, inited := false, flushing := false } : Obj) :=
            fun hw => Or.inl (hlive hw)
          exact ⟨fun hw => (setIoRatio_wf _ _ _ (hw' hw) c2 c' oe h).2,
            fun hn hl => (setIoRatio_live _ _ _ c2 c' (by rw [ht]; exact hn) oe h).1.live (hcl' hl)⟩
        · rw [pure_ok] at h; obtain ⟨h1, -⟩ := h; subst h1
          exact ⟨fun hw => Or.inl (hlive hw), fun _ hl => hl⟩

/-- `src_reset`: never crashes, keeps `Wf` (every oracle) and `Live` (no failing create). -/
theorem srcReset_step (o : Obj) (c : Ctx) :
    (∀ c', srcReset (some o) c ≠ .crash c') ∧
    (∀ p' rc c', srcReset (some o) c = .ok (p', rc) c' →
      ∃ o', p' = some o' ∧ (Wf o → Wf o') ∧ (NoFail c.toks → Live o → Live o')) := by
  obtain ⟨n1, n2⟩ := soxrClear_step o c
  unfold srcReset
  simp only
  constructor
  · intro c' h
    rw [bind_crash] at h
    rcases h with h | ⟨_, _, _, h⟩
    · exact n1 _ h
    · exact pure_no_crash _ _ _ h
  · intro p' rc c' h
    rw [bind_ok] at h
    obtain ⟨oe, c1, hoe, h⟩ := h
    rw [pure_ok] at h; obtain ⟨h1, -⟩ := h; cases h1
    exact ⟨oe.1, rfl, (n2 oe c1 hoe).1, (n2 oe c1 hoe).2⟩

/-- the torn-down object is refused by `src_reset` and the next call reports the error. -/
theorem reset_refuses_torn_down :
    srcReset (some (deadObj .engine)) ⟨[], []⟩ = .ok (some (deadObj .engine), -1) ⟨[], []⟩ := by decide

/-- HISTORICAL (finding F40, fixed by /repo b5a678f): the pre-repair `src_reset` did not keep `Inv` — the torn-down object
    a failed `resampler_create` leaves satisfies `Inv` (its error is stored); the old `soxr_clear` dropped the error and kept
    the zero channel count. -/
theorem Historical.reset_breaks_inv :
    Inv (deadObj .engine) ∧
    Historical.srcResetPre (some (deadObj .engine)) ⟨[], []⟩ = .ok (some { deadObj .engine with error := none }, 0) ⟨[], []⟩ ∧
    ¬ Inv { deadObj .engine with error := none } := by
  refine ⟨fun h => (by cases h), (by decide), fun h => h rfl rfl⟩

/-! ## sequences -/

/-- the calls a live converter can be given (what the driver's `runOp` executes on the current object). -/
inductive Op where
  | process (d : Data)
  | read (ratio : D) (olen : BitVec 64) (outNull : Bool)
  | setRatio (ratio : D)
  | reset
  | error
deriving Repr

/-- in contract for the no-crash clause: a valid `src_ratio` where one is dereferenced into the engine
    (`src_set_ratio` tolerates any value). -/
def Op.inContract : Op → Prop
  | .process d => dpos (recip d.ratio) = true
  | .read r _ _ => dpos (recip r) = true
  | _ => True

/-- outcome of a step / of a sequence. -/
inductive Out where
  | ok (o : Obj)
  | crash
  | desync
deriving DecidableEq, Repr

def outOf {α : Type} (r : R (Option Obj × α)) : Out :=
  match r with
  | .ok (some o, _) _ => .ok o
  | .ok (none, _) _ => .desync
  | .crash _ => .crash
  | .desync _ => .desync

/-- one call with its own oracle (as the driver runs it: events start empty). -/
def stepOp (fuel : Nat) (o : Obj) (op : Op) (toks : List Tok) : Out :=
  match op with
  | .process d => outOf (srcProcess fuel (some o) (some d) ⟨[], toks⟩)
  | .read r olen outNull => outOf (srcCallbackRead fuel (some o) r olen outNull ⟨[], toks⟩)
  | .setRatio r => outOf (srcSetRatio (some o) r ⟨[], toks⟩)
  | .reset => outOf (srcReset (some o) ⟨[], toks⟩)
  | .error => .ok o

/-- a sequence of calls, each with its oracle; stops at the first crash / desync. -/
def runOps (fuel : Nat) : Obj → List (Op × List Tok) → Out
  | o, [] => .ok o
  | o, (op, toks) :: rest =>
    match stepOp fuel o op toks with
    | .ok o' => runOps fuel o' rest
    | x => x

theorem outOf_crash {α : Type} (r : R (Option Obj × α)) (h : outOf r = .crash) : ∃ c, r = .crash c := by
  unfold outOf at h
  split at h
  · cases h
  · cases h
  · exact ⟨_, rfl⟩
  · cases h

theorem outOf_ok {α : Type} (r : R (Option Obj × α)) (o : Obj) (h : outOf r = .ok o) : ∃ a c, r = .ok (some o, a) c := by
  unfold outOf at h
  split at h <;> first | (cases h; exact ⟨_, _, rfl⟩) | cases h

/-- one in-contract step from a `Wf` object, **every oracle**: no crash, the result is `Wf` again; the channel count is
    kept when no `resampler_create` fails. -/
theorem stepOp_spec (fuel : Nat) (o : Obj) (op : Op) (toks : List Tok) (hc : op.inContract) (hw : Wf o) :
    stepOp fuel o op toks ≠ .crash ∧
    (∀ o', stepOp fuel o op toks = .ok o' → Wf o' ∧ (NoFail toks → Live o → Live o')) := by
  have hi := hw.inv
  cases op with
  | process d =>
    constructor
    · intro h
      obtain ⟨c, hcr⟩ := outOf_crash _ h
      exact srcProcess_no_crash fuel o d hi hc _ _ hcr
    · intro o' h
      obtain ⟨a, c, hok⟩ := outOf_ok _ o' h
      refine ⟨?_, fun hn hl => ?_⟩
      · obtain ⟨o2, e, i2⟩ := srcProcess_wf fuel o d hw _ _ _ _ hok; cases e; exact i2
      · obtain ⟨o2, e, i2⟩ := srcProcess_live fuel o d hl _ _ hn _ _ hok; cases e; exact i2
  | read r olen outNull =>
    constructor
    · intro h
      obtain ⟨c, hcr⟩ := outOf_crash _ h
      exact srcCallbackRead_no_crash fuel o r olen outNull hi hc _ _ hcr
    · intro o' h
      obtain ⟨a, c, hok⟩ := outOf_ok _ o' h
      refine ⟨?_, fun hn hl => ?_⟩
      · obtain ⟨o2, e, i2⟩ := srcCallbackRead_wf fuel o r olen outNull hw _ _ _ _ hok; cases e; exact i2
      · obtain ⟨o2, e, i2⟩ := srcCallbackRead_live fuel o r olen outNull hl _ _ hn _ _ hok; cases e; exact i2
  | setRatio r =>
    obtain ⟨n1, n2⟩ := srcSetRatio_step o r ⟨[], toks⟩
    constructor
    · intro h
      obtain ⟨c, hcr⟩ := outOf_crash _ h
      exact n1 _ hcr
    · intro o' h
      obtain ⟨a, c, hok⟩ := outOf_ok _ o' h
      obtain ⟨o2, e, _, w2, l2⟩ := n2 _ _ _ hok
      cases e
      exact ⟨w2 hw, l2⟩
  | reset =>
    obtain ⟨n1, n2⟩ := srcReset_step o ⟨[], toks⟩
    constructor
    · intro h
      obtain ⟨c, hcr⟩ := outOf_crash _ h
      exact n1 _ hcr
    · intro o' h
      obtain ⟨a, c, hok⟩ := outOf_ok _ o' h
      obtain ⟨o2, e, w2, l2⟩ := n2 _ _ _ hok
      cases e
      exact ⟨w2 hw, l2⟩
  | error =>
    constructor
    · intro h; cases h
    · intro o' h
      cases h
      exact ⟨hw, fun _ hl => hl⟩

/-- **every sequence of in-contract calls — `src_reset` included, every oracle, failing `resampler_create` included —
    from a `Wf` object: no crash**, and the object stays `Wf`. -/
theorem runOps_no_crash (fuel : Nat) (o : Obj) (hw : Wf o) (ops : List (Op × List Tok))
    (hops : ∀ x ∈ ops, x.1.inContract) :
    runOps fuel o ops ≠ .crash ∧ ∀ o', runOps fuel o ops = .ok o' → Wf o' := by
  induction ops generalizing o with
  | nil =>
    unfold runOps
    exact ⟨fun h => (by cases h), fun o' h => (by cases h; exact hw)⟩
  | cons x rest ih =>
    obtain ⟨op, toks⟩ := x
    have hc := hops (op, toks) List.mem_cons_self
    obtain ⟨n1, n2⟩ := stepOp_spec fuel o op toks hc hw
    unfold runOps
    cases hs : stepOp fuel o op toks with
    | ok o' =>
      simp only
      exact ih o' (n2 o' hs).1 (fun y hy => hops y (List.mem_cons_of_mem _ hy))
    | crash => exact absurd hs n1
    | desync => exact ⟨fun h => (by cases h), fun o' h => (by cases h)⟩

/-- when moreover no `resampler_create` fails, the converter keeps its channel count throughout (it is never torn down). -/
theorem runOps_live (fuel : Nat) (o : Obj) (hw : Wf o) (hl : Live o) (ops : List (Op × List Tok))
    (hops : ∀ x ∈ ops, x.1.inContract ∧ NoFail x.2) : ∀ o', runOps fuel o ops = .ok o' → Live o' := by
  induction ops generalizing o with
  | nil => unfold runOps; intro o' h; cases h; exact hl
  | cons x rest ih =>
    obtain ⟨op, toks⟩ := x
    obtain ⟨hc, hn⟩ := hops (op, toks) List.mem_cons_self
    obtain ⟨n1, n2⟩ := stepOp_spec fuel o op toks hc hw
    unfold runOps
    cases hs : stepOp fuel o op toks with
    | ok o' =>
      simp only
      exact ih o' (n2 o' hs).1 ((n2 o' hs).2 hn hl) (fun y hy => hops y (List.mem_cons_of_mem _ hy))
    | crash => intro o' h; cases h
    | desync => intro o' h; cases h

theorem fresh_wf (id chans : Nat) (fn : Bool) (hch : chans ≠ 0) : Wf (fresh id chans fn) := Or.inl ⟨hch, rfl⟩

end Soxr.Lsr
