import SoxrModel.Conv.LemmasPass
/-! The sample-array helpers of `soxr-lsr.c` (`src_short_to_float_array`, `src_float_to_short_array`,
    `src_int_to_float_array`, `src_float_to_int_array`). -/
set_option exponentiation.threshold 4096
namespace Soxr.Conv

/-- the comparisons-then-`rint16` of `src_float_to_short_array` compute the saturating round-half-even reference of the
    exact product `x · 32768`, and never raise the x87 invalid exception on a finite operand. -/
theorem lsrToShort_eq_ref (x : Int) :
    lsrToShort (.fin x) = ((convSample 32767 (.fin (x * 32768))).1, false) := by
  have hmx := rhe_mul 32767 unit unit_pos
  have hmn := rhe_mul (-32768) unit unit_pos
  simp only [lsrToShort, convSample, show ((-32767 : Int) - 1) = -32768 from by decide]
  by_cases h1 : 32767 * (unit : Int) < x * 32768
  · simp only [h1, if_true]
    have hr := rhe_mono _ _ unit unit_pos (Int.le_of_lt h1)
    rw [hmx] at hr
    by_cases h2 : (32767 : Int) < rhe (x * 32768) unit
    · simp [h2]
    · have h3 : ¬ rhe (x * 32768) unit < -32768 := by omega
      simp only [h2, h3, if_false]
      congr 1; omega
  · simp only [h1, if_false]
    by_cases h2 : x * 32768 < -32768 * (unit : Int)
    · simp only [h2, if_true]
      have hr := rhe_mono _ _ unit unit_pos (Int.le_of_lt h2)
      rw [hmn] at hr
      have h3 : ¬ (32767 : Int) < rhe (x * 32768) unit := by omega
      simp only [h3, if_false]
      by_cases h4 : rhe (x * 32768) unit < -32768
      · simp [h4]
      · simp only [h4, if_false]
        congr 1; omega
    · simp only [h2, if_false, fist]
      have hr1 := rhe_mono _ _ unit unit_pos (Int.not_lt.mp h1)
      have hr2 := rhe_mono _ _ unit unit_pos (Int.not_lt.mp h2)
      rw [hmx] at hr1
      rw [hmn] at hr2
      have h3 : ¬ (32767 : Int) < rhe (x * 32768) unit := by omega
      have h4 : ¬ rhe (x * 32768) unit < -32768 := by omega
      have h5 : -32768 ≤ rhe (x * 32768) unit ∧ rhe (x * 32768) unit ≤ 32767 := by omega
      simp [h3, h4, h5]

/-- the same for `src_float_to_int_array` (`N = 2^31`, first comparison `>=`). -/
theorem lsrToInt_eq_ref (x : Int) :
    lsrToInt (.fin x) = ((convSample 2147483647 (.fin (x * 2147483648))).1, false) := by
  have hmx := rhe_mul 2147483647 unit unit_pos
  have hmn := rhe_mul (-2147483648) unit unit_pos
  simp only [lsrToInt, convSample, show ((-2147483647 : Int) - 1) = -2147483648 from by decide]
  by_cases h1 : 2147483647 * (unit : Int) ≤ x * 2147483648
  · simp only [h1, if_true]
    have hr := rhe_mono _ _ unit unit_pos h1
    rw [hmx] at hr
    by_cases h2 : (2147483647 : Int) < rhe (x * 2147483648) unit
    · simp [h2]
    · have h3 : ¬ rhe (x * 2147483648) unit < -2147483648 := by omega
      simp only [h2, h3, if_false]
      congr 1; omega
  · simp only [h1, if_false]
    by_cases h2 : x * 2147483648 < -2147483648 * (unit : Int)
    · simp only [h2, if_true]
      have hr := rhe_mono _ _ unit unit_pos (Int.le_of_lt h2)
      rw [hmn] at hr
      have h3 : ¬ (2147483647 : Int) < rhe (x * 2147483648) unit := by omega
      simp only [h3, if_false]
      by_cases h4 : rhe (x * 2147483648) unit < -2147483648
      · simp [h4]
      · simp only [h4, if_false]
        congr 1; omega
    · simp only [h2, if_false, fist]
      have hr1 := rhe_mono _ _ unit unit_pos (Int.le_of_lt (Int.not_le.mp h1))
      have hr2 := rhe_mono _ _ unit unit_pos (Int.not_lt.mp h2)
      rw [hmx] at hr1
      rw [hmn] at hr2
      have h3 : ¬ (2147483647 : Int) < rhe (x * 2147483648) unit := by omega
      have h4 : ¬ rhe (x * 2147483648) unit < -2147483648 := by omega
      have h5 : -2147483648 ≤ rhe (x * 2147483648) unit ∧ rhe (x * 2147483648) unit ≤ 2147483647 := by omega
      simp [h3, h4, h5]

/-- `(float)(v · 2^-k)` is exact for every integer the 24-bit significand holds (every `short`; `int`s below `2^24`). -/
theorem lsrToFloat_exact (k : Nat) (hk : k ≤ 149) (v : Int) (hv : v.natAbs < 2 ^ 24) :
    f32.decode (lsrToFloat k v) = .fin (v * ((2 ^ (U - k) : Nat) : Int)) := by
  have hrep : Fmt.Rep f32 (v.natAbs * 2 ^ (U - k)) := by
    apply Fmt.Rep.mk' f32 _ _ hv
    · have : f32.sh = 925 := rfl
      have := U_val; omega
    · have : f32.p = 24 := rfl
      have : f32.topExp = 1202 := by decide
      have := U_val; omega
  obtain ⟨e1, e2⟩ := Fmt.roundMag_exact f32 Fmt.wf32 _ hrep
  unfold lsrToFloat
  rw [Fmt.decode_sign_mag f32 Fmt.wf32 _ _ e2, e1]
  congr 1
  by_cases hneg : v < 0
  · simp only [hneg, decide_true, if_true]
    have : (v.natAbs : Int) = -v := by omega
    rw [Int.natCast_mul, this, Int.neg_mul, Int.neg_neg]
  · simp only [hneg, decide_false, Bool.false_eq_true, if_false]
    have : (v.natAbs : Int) = v := by omega
    rw [Int.natCast_mul, this]

/-- **short → float → short is the identity** (and `fistp` raises nothing). -/
theorem lsr_short_roundtrip (v : Int) (h1 : -32768 ≤ v) (h2 : v ≤ 32767) :
    lsrToShort (f32.decode (lsrToFloat 15 v)) = (v, false) := by
  have hv : v.natAbs < 2 ^ 24 := by
    have : (2 : Nat) ^ 24 = 16777216 := by decide
    omega
  rw [lsrToFloat_exact 15 (by decide) v hv, lsrToShort_eq_ref]
  have e : v * ((2 ^ (U - 15) : Nat) : Int) * 32768 = v * (unit : Int) := by
    have := full_scale_meaning v 15 (by decide)
    have h : ((2 ^ 15 : Nat) : Int) = 32768 := by decide
    rw [h] at this; exact this
  rw [e, convSample_int 32767 v (by omega) (by omega)]

/-- int → float → int is the identity on the integers float32 holds exactly (`|v| < 2^24`). -/
theorem lsr_int_roundtrip (v : Int) (hv : v.natAbs < 2 ^ 24) :
    lsrToInt (f32.decode (lsrToFloat 31 v)) = (v, false) := by
  rw [lsrToFloat_exact 31 (by decide) v hv, lsrToInt_eq_ref]
  have e : v * ((2 ^ (U - 31) : Nat) : Int) * 2147483648 = v * (unit : Int) := by
    have := full_scale_meaning v 31 (by decide)
    have h : ((2 ^ 31 : Nat) : Int) = 2147483648 := by decide
    rw [h] at this; exact this
  have : (2 : Nat) ^ 24 = 16777216 := by decide
  rw [e, convSample_int 2147483647 v (by omega) (by omega)]

end Soxr.Conv
