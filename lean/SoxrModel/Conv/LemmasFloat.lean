import SoxrModel.Conv.LemmasRound
/-! `Fmt.roundMag` / `Fmt.decodeMag`: a magnitude the format can represent is encoded exactly (so every conversion of
    `data-io.c` is exact wherever the target can represent the value), and what follows for the integer and float casts. -/
set_option exponentiation.threshold 4096
namespace Soxr.Conv

theorem pow_split (a b : Nat) (h : a ≤ b) : 2 ^ b = 2 ^ a * 2 ^ (b - a) := by
  rw [← Nat.pow_add]; congr 1; omega

theorem pow_lt_of_lt {a b : Nat} (h : 2 ^ a < 2 ^ b) : a < b := (Nat.pow_lt_pow_iff_right (by decide)).mp h
theorem pow_le_of_le {a b : Nat} (h : a ≤ b) : 2 ^ a ≤ 2 ^ b := Nat.pow_le_pow_right (by decide) h
theorem pow_lt_pow {a b : Nat} (h : a < b) : 2 ^ a < 2 ^ b := (Nat.pow_lt_pow_iff_right (by decide)).mpr h

theorem div_of_field (e r k : Nat) (hr : r < 2 ^ k) : (e * 2 ^ k + r) / 2 ^ k = e := by
  rw [Nat.mul_comm, Nat.mul_add_div (Nat.two_pow_pos k), Nat.div_eq_of_lt hr]; rfl

theorem mod_of_field (e r k : Nat) (hr : r < 2 ^ k) : (e * 2 ^ k + r) % 2 ^ k = r := by
  rw [Nat.mul_comm, Nat.mul_add_mod, Nat.mod_eq_of_lt hr]

namespace Fmt

/-- exponent (in units) just above the largest finite magnitude: every finite magnitude is below `2^topExp`. -/
def topExp (f : Fmt) : Nat := f.fb + (2 ^ f.w - 2) + f.sh

/-- a well-formed format: at least two significand bits and two exponent bits. -/
structure WF (f : Fmt) : Prop where
  hp : 2 ≤ f.p
  hw : 2 ≤ f.w

theorem wf32 : WF f32 := ⟨by decide, by decide⟩
theorem wf64 : WF f64 := ⟨by decide, by decide⟩

/-- `N` units are representable in `f`: an at most `p`-bit integer times a power of two not below the least subnormal,
    below the overflow threshold. -/
def Rep (f : Fmt) (N : Nat) : Prop := ∃ M s, N = M * 2 ^ s ∧ M < 2 ^ f.p ∧ f.sh ≤ s ∧ N < 2 ^ f.topExp

theorem p_eq (f : Fmt) (h : WF f) : f.p = f.fb + 1 := by unfold fb; have := h.hp; omega

theorem two_le_pow_w (f : Fmt) (h : WF f) : 4 ≤ 2 ^ f.w := by
  have := pow_le_of_le h.hw; simpa using this

/-- **exactness of the encoder**: a representable magnitude is encoded without change and without overflow. -/
theorem roundMag_exact (f : Fmt) (h : WF f) (N : Nat) (hN : Rep f N) :
    f.decodeMag (f.roundMag N) = N ∧ f.roundMag N < f.infMag := by
  obtain ⟨M, s, hNM, hM, hs, htop⟩ := hN
  have hp := p_eq f h
  have hw := two_le_pow_w f h
  have hfbpos : 0 < 2 ^ f.fb := Nat.two_pow_pos _
  have hinf : f.infMag = (2 ^ f.w - 1) * 2 ^ f.fb := rfl
  by_cases hN0 : N = 0
  · subst hN0
    have hu : f.ulpExp 0 = f.sh := by
      unfold ulpExp; have : Nat.log2 0 = 0 := by decide
      rw [this]; have := h.hp; omega
    have hr : rheNat 0 (2 ^ f.sh) = 0 := by
      have := rheNat_mul 0 (2 ^ f.sh) (Nat.two_pow_pos _); simpa using this
    have hb : f.roundMag 0 = 0 := by
      unfold roundMag; simp only [hu, hr, Nat.sub_self, Nat.zero_mul, Nat.add_zero]
      have : ¬ f.infMag ≤ 0 := by
        rw [hinf]; have : 0 < (2 ^ f.w - 1) * 2 ^ f.fb := Nat.mul_pos (by omega) hfbpos
        omega
      simp [this]
    rw [hb]
    constructor
    · unfold decodeMag exOf frOf; simp
    · rw [hinf]; exact Nat.mul_pos (by omega) hfbpos
  · -- N > 0
    have hL1 : 2 ^ N.log2 ≤ N := Nat.log2_self_le hN0
    have hL2 : N < 2 ^ (N.log2 + 1) := Nat.lt_log2_self
    -- the spacing chosen by the encoder divides N
    have hNlt : N < 2 ^ (f.p + s) := by
      rw [hNM, Nat.pow_add]; exact Nat.mul_lt_mul_of_pos_right hM (Nat.two_pow_pos s)
    have hLlt : N.log2 < f.p + s := (Nat.log2_lt hN0).mpr hNlt
    have hLtop : N.log2 < f.topExp := (Nat.log2_lt hN0).mpr htop
    generalize hs' : f.ulpExp N = s'
    have hs'def : s' = max (N.log2 + 1 - f.p) f.sh := by rw [← hs']; rfl
    have hs's : s' ≤ s := by omega
    have hshs' : f.sh ≤ s' := by omega
    -- N = M' * 2^s'
    have hNM' : N = (M * 2 ^ (s - s')) * 2 ^ s' := by
      rw [hNM, Nat.mul_assoc, ← Nat.pow_add]; congr 2; omega
    generalize hM'def : M * 2 ^ (s - s') = M' at hNM'
    have hs'pos : 0 < 2 ^ s' := Nat.two_pow_pos _
    have hr : rheNat N (2 ^ s') = M' := by rw [hNM']; exact rheNat_mul M' _ hs'pos
    have hM'lt : M' < 2 ^ f.p := by
      have h1 : N < 2 ^ (f.p + s') := Nat.lt_of_lt_of_le hL2 (pow_le_of_le (by omega))
      rw [hNM', Nat.pow_add] at h1
      exact Nat.lt_of_mul_lt_mul_right h1
    have hround : f.roundMag N = if f.infMag ≤ (s' - f.sh) * 2 ^ f.fb + M' then f.infMag else (s' - f.sh) * 2 ^ f.fb + M' := by
      unfold roundMag; simp only [hs', hr]
    have hp2 : 2 ^ f.p = 2 * 2 ^ f.fb := by rw [hp, Nat.pow_succ]; omega
    by_cases hsub : M' < 2 ^ f.fb
    · -- subnormal: then the spacing is the least one
      have hs'eq : s' = f.sh := by
        rcases Nat.lt_or_ge f.sh s' with hlt | hge
        · exfalso
          have hs'L : s' = N.log2 + 1 - f.p := by omega
          have hLge : f.p ≤ N.log2 + 1 := by omega
          have h2 : 2 ^ N.log2 = 2 ^ f.fb * 2 ^ s' := by
            rw [← Nat.pow_add]; congr 1; omega
          rw [h2, hNM'] at hL1
          have := Nat.le_of_mul_le_mul_right hL1 hs'pos
          omega
        · omega
      have hb : f.roundMag N = M' := by
        rw [hround, hs'eq]; simp only [Nat.sub_self, Nat.zero_mul, Nat.zero_add]
        have : ¬ f.infMag ≤ M' := by
          rw [hinf]
          have : 1 * 2 ^ f.fb ≤ (2 ^ f.w - 1) * 2 ^ f.fb := Nat.mul_le_mul_right _ (by omega)
          omega
        simp [this]
      rw [hb]
      constructor
      · unfold decodeMag exOf frOf
        rw [Nat.div_eq_of_lt hsub, Nat.mod_eq_of_lt hsub]
        simp only [if_true]
        rw [hNM', hs'eq]
      · rw [hinf]
        have : 1 * 2 ^ f.fb ≤ (2 ^ f.w - 1) * 2 ^ f.fb := Nat.mul_le_mul_right _ (by omega)
        omega
    · -- normal
      have hsub : 2 ^ f.fb ≤ M' := by omega
      have hbform : (s' - f.sh) * 2 ^ f.fb + M' = (s' - f.sh + 1) * 2 ^ f.fb + (M' - 2 ^ f.fb) := by
        rw [Nat.add_mul]; omega
      have hfr : M' - 2 ^ f.fb < 2 ^ f.fb := by omega
      -- exponent field below all-ones
      have hex : s' - f.sh + 1 ≤ 2 ^ f.w - 2 := by
        unfold topExp at hLtop
        omega
      have hnotinf : ¬ f.infMag ≤ (s' - f.sh + 1) * 2 ^ f.fb + (M' - 2 ^ f.fb) := by
        rw [hinf]
        have : (s' - f.sh + 1) * 2 ^ f.fb ≤ (2 ^ f.w - 2) * 2 ^ f.fb := Nat.mul_le_mul_right _ hex
        have e : (2 ^ f.w - 1) * 2 ^ f.fb = (2 ^ f.w - 2) * 2 ^ f.fb + 2 ^ f.fb := by
          have : 2 ^ f.w - 1 = (2 ^ f.w - 2) + 1 := by omega
          rw [this, Nat.add_mul]; omega
        omega
      have hb : f.roundMag N = (s' - f.sh + 1) * 2 ^ f.fb + (M' - 2 ^ f.fb) := by
        rw [hround, hbform]; simp [hnotinf]
      rw [hb]
      constructor
      · unfold decodeMag exOf frOf
        rw [div_of_field _ _ _ hfr, mod_of_field _ _ _ hfr]
        have : ¬ (s' - f.sh + 1 = 0) := by omega
        simp only [this, if_false]
        have e1 : 2 ^ f.fb + (M' - 2 ^ f.fb) = M' := by omega
        rw [e1, Nat.add_sub_cancel, Nat.mul_assoc, ← Nat.pow_add, hNM']
        congr 2; omega
      · omega

theorem infMag_lt (f : Fmt) (h : WF f) : f.infMag < 2 ^ (f.fb + f.w) := by
  have hw := two_le_pow_w f h
  have : f.infMag = (2 ^ f.w - 1) * 2 ^ f.fb := rfl
  rw [this, Nat.pow_add, Nat.mul_comm (2 ^ f.fb)]
  exact Nat.mul_lt_mul_of_pos_right (by omega) (Nat.two_pow_pos _)

theorem magOf_sign (f : Fmt) (neg : Bool) (mag : Nat) (h : mag < 2 ^ (f.fb + f.w)) :
    f.magOf (f.signBit neg + mag) = mag ∧ f.negOf (f.signBit neg + mag) = neg := by
  unfold magOf negOf signBit
  cases neg with
  | true =>
    simp only [if_true]
    constructor
    · rw [Nat.add_mod_left, Nat.mod_eq_of_lt h]
    · have : (2 ^ (f.fb + f.w) + mag) / 2 ^ (f.fb + f.w) = 1 := by
        rw [Nat.add_div_left _ (Nat.two_pow_pos _), Nat.div_eq_of_lt h]
      rw [this]; decide
  | false =>
    simp only [Bool.false_eq_true, if_false, Nat.zero_add]
    constructor
    · exact Nat.mod_eq_of_lt h
    · rw [Nat.div_eq_of_lt h]; decide

theorem exOf_lt (f : Fmt) (mag : Nat) (h : mag < f.infMag) : f.exOf mag < f.expAll := by
  unfold exOf
  apply Nat.div_lt_of_lt_mul
  rw [Nat.mul_comm]; exact h

/-- a pattern made of a sign and a finite magnitude decodes to that signed magnitude. -/
theorem decode_sign_mag (f : Fmt) (h : WF f) (neg : Bool) (mag : Nat) (hm : mag < f.infMag) :
    f.decode (f.signBit neg + mag) = .fin (if neg then -(f.decodeMag mag : Int) else (f.decodeMag mag : Int)) := by
  have hlt := Nat.lt_trans hm (infMag_lt f h)
  obtain ⟨h1, h2⟩ := magOf_sign f neg mag hlt
  have hex := exOf_lt f mag hm
  unfold decode
  simp only [h1, h2]
  have : ¬ f.exOf mag = f.expAll := by omega
  simp only [this, if_false]

theorem decode_sign_inf (f : Fmt) (h : WF f) (neg : Bool) :
    f.decode (f.signBit neg + f.infMag) = .inf neg := by
  obtain ⟨h1, h2⟩ := magOf_sign f neg f.infMag (infMag_lt f h)
  unfold decode
  simp only [h1, h2]
  have e1 : f.exOf f.infMag = f.expAll := by
    unfold exOf infMag
    have := div_of_field f.expAll 0 f.fb (Nat.two_pow_pos _)
    simpa using this
  have e2 : f.frOf f.infMag = 0 := by
    unfold frOf infMag
    have := mod_of_field f.expAll 0 f.fb (Nat.two_pow_pos _)
    simp
  simp [e1, e2]

/-- the value of every finite pattern is representable (in its own format). -/
theorem decodeMag_rep (f : Fmt) (h : WF f) (mag : Nat) (hm : mag < f.infMag) : Rep f (f.decodeMag mag) := by
  have hp := p_eq f h
  have hw := two_le_pow_w f h
  have hex := exOf_lt f mag hm
  have hfr : f.frOf mag < 2 ^ f.fb := Nat.mod_lt _ (Nat.two_pow_pos _)
  have hp2 : 2 ^ f.p = 2 * 2 ^ f.fb := by rw [hp, Nat.pow_succ]; omega
  unfold decodeMag
  unfold expAll at hex
  by_cases h0 : f.exOf mag = 0
  · simp only [h0, if_true]
    refine ⟨f.frOf mag, f.sh, rfl, by omega, Nat.le_refl _, ?_⟩
    calc f.frOf mag * 2 ^ f.sh < 2 ^ f.fb * 2 ^ f.sh := Nat.mul_lt_mul_of_pos_right hfr (Nat.two_pow_pos _)
      _ = 2 ^ (f.fb + f.sh) := (Nat.pow_add 2 _ _).symm
      _ ≤ 2 ^ f.topExp := pow_le_of_le (by unfold topExp; omega)
  · simp only [h0, if_false]
    refine ⟨2 ^ f.fb + f.frOf mag, f.exOf mag - 1 + f.sh, ?_, by omega, by omega, ?_⟩
    · rw [Nat.mul_assoc, ← Nat.pow_add]
    · calc (2 ^ f.fb + f.frOf mag) * 2 ^ (f.exOf mag - 1) * 2 ^ f.sh
          = (2 ^ f.fb + f.frOf mag) * 2 ^ (f.exOf mag - 1 + f.sh) := by rw [Nat.mul_assoc, ← Nat.pow_add]
        _ < 2 ^ f.p * 2 ^ (f.exOf mag - 1 + f.sh) := Nat.mul_lt_mul_of_pos_right (by omega) (Nat.two_pow_pos _)
        _ = 2 ^ (f.p + (f.exOf mag - 1 + f.sh)) := (Nat.pow_add 2 _ _).symm
        _ ≤ 2 ^ f.topExp := pow_le_of_le (by unfold topExp; omega)

/-- a wider format represents everything a narrower one does. -/
theorem Rep.widen {f g : Fmt} {N : Nat} (hN : Rep f N) (hp : f.p ≤ g.p) (hsh : g.sh ≤ f.sh) (ht : f.topExp ≤ g.topExp) :
    Rep g N := by
  obtain ⟨M, s, h1, h2, h3, h4⟩ := hN
  exact ⟨M, s, h1, Nat.lt_of_lt_of_le h2 (pow_le_of_le hp), by omega, Nat.lt_of_lt_of_le h4 (pow_le_of_le ht)⟩

/-- multiplying by a power of two keeps a value representable as long as it does not overflow: scaling by a full-scale
    factor is exact. -/
theorem Rep.scale {f : Fmt} {N : Nat} (hN : Rep f N) (j : Nat) (ht : N * 2 ^ j < 2 ^ f.topExp) : Rep f (N * 2 ^ j) := by
  obtain ⟨M, s, h1, h2, h3, _⟩ := hN
  exact ⟨M, s + j, by rw [h1, Nat.mul_assoc, ← Nat.pow_add], h2, by omega, ht⟩

/-- dividing by a power of two keeps a value representable as long as it stays on the grid of the format. -/
theorem Rep.unscale {f : Fmt} {N : Nat} (hN : Rep f N) (M s j : Nat) (h1 : N = M * 2 ^ s) (h2 : M < 2 ^ f.p)
    (h3 : f.sh + j ≤ s) : Rep f (N / 2 ^ j) := by
  obtain ⟨_, _, _, _, _, h4⟩ := hN
  have e : N / 2 ^ j = M * 2 ^ (s - j) := by
    rw [h1, pow_split j s (by omega), ← Nat.mul_assoc, Nat.mul_comm M, Nat.mul_assoc,
      Nat.mul_div_cancel_left _ (Nat.two_pow_pos j)]
  refine ⟨M, s - j, e, h2, by omega, Nat.lt_of_le_of_lt (Nat.div_le_self _ _) h4⟩

/-- **the value conversion between formats is exact wherever the target can represent the value**
    (`cvtss2sd` always; `cvtsd2ss` on float-representable doubles); infinities are kept. -/
theorem decode_cvt_exact (a b : Fmt) (hb : WF b) (x : Nat)
    (hfin : a.magOf x < a.infMag) (hrep : Rep b (a.decodeMag (a.magOf x))) :
    b.decode (cvt a b x) = a.decode x := by
  have hex := exOf_lt a _ hfin
  have hne : ¬ a.exOf (a.magOf x) = a.expAll := by omega
  obtain ⟨e1, e2⟩ := roundMag_exact b hb _ hrep
  unfold cvt
  simp only [hne, if_false]
  rw [decode_sign_mag b hb _ _ e2, e1]
  unfold decode
  simp only [hne, if_false]

theorem decode_cvt_inf (a b : Fmt) (hb : WF b) (x : Nat)
    (h1 : a.exOf (a.magOf x) = a.expAll) (h2 : a.frOf (a.magOf x) = 0) :
    b.decode (cvt a b x) = a.decode x := by
  unfold cvt
  simp only [h1, h2, if_true]
  rw [decode_sign_inf b hb]
  unfold decode
  simp [h1, h2]

/-- **an integer the significand can hold converts exactly** (`cvtsi2ss` / `cvtsi2sd`). -/
theorem decode_ofInt (f : Fmt) (h : WF f) (hsh : f.sh ≤ U) (htop : f.p + U ≤ f.topExp) (v : Int)
    (hv : v.natAbs < 2 ^ f.p) : f.decode (f.ofInt v) = .fin (v * (unit : Int)) := by
  have hrep : Rep f (v.natAbs * unit) := by
    refine ⟨v.natAbs, U, rfl, hv, hsh, ?_⟩
    calc v.natAbs * unit < 2 ^ f.p * 2 ^ U := Nat.mul_lt_mul_of_pos_right hv (Nat.two_pow_pos _)
      _ = 2 ^ (f.p + U) := (Nat.pow_add 2 _ _).symm
      _ ≤ 2 ^ f.topExp := pow_le_of_le htop
  obtain ⟨e1, e2⟩ := roundMag_exact f h _ hrep
  unfold ofInt
  rw [decode_sign_mag f h _ _ e2, e1]
  congr 1
  by_cases hneg : v < 0
  · simp only [hneg, decide_true, if_true]
    have : (v.natAbs : Int) = -v := by omega
    rw [Int.natCast_mul, this, Int.neg_mul, Int.neg_neg]
  · simp only [hneg, decide_false, Bool.false_eq_true, if_false]
    have : (v.natAbs : Int) = v := by omega
    rw [Int.natCast_mul, this]

end Fmt
end Soxr.Conv
