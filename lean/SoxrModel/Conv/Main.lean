import SoxrModel.Conv.Model
/-! Line-protocol driver of the Conv model (`soxr_conv`): the same lines `harness/conv/conv.c` reads, the same canonical
    lines out (see the header of that file for the protocol).

      conv  <kernel> <n> <ch> <seed-hex> <flag> <hex bit patterns ...>
      convr <kernel> <n> <ch> <seed-hex> <flag> <first-hex> <step-hex>     patterns first + k*step, output hashed (FNV-1a)
-/
namespace Soxr.Conv.Driver
open Soxr.Conv

def hexDigit (c : Char) : Nat :=
  if '0' ≤ c ∧ c ≤ '9' then c.toNat - '0'.toNat
  else if 'a' ≤ c ∧ c ≤ 'f' then c.toNat - 'a'.toNat + 10
  else if 'A' ≤ c ∧ c ≤ 'F' then c.toNat - 'A'.toNat + 10
  else 0

def hexToNat (s : String) : Nat := s.foldl (fun acc c => acc * 16 + hexDigit c) 0

def hexChar (d : Nat) : Char := if d < 10 then Char.ofNat (48 + d) else Char.ofNat (87 + d)

/-- fixed-width lower-case hex. -/
def toHex (width : Nat) (v : Nat) : String :=
  let rec go : Nat → Nat → List Char → List Char
    | 0, _, acc => acc
    | k + 1, v, acc => go k (v / 16) (hexChar (v % 16) :: acc)
  String.ofList (go width v [])

/-- minimal-width hex (C's `%lx`). -/
def toHexMin (v : Nat) : String := String.ofList (Nat.toDigits 16 v)

def typeOfName (s : String) : Option DType :=
  match s with
  | "f32" => some .f32 | "f64" => some .f64 | "i32" => some .i32 | "i16" => some .i16 | _ => none

def engOf (s : String) : Fmt := if s == "d" then f64 else f32
def engType (e : Fmt) : DType := if e = f64 then .f64 else .f32

def hexW (t : DType) : Nat := t.bits / 4

def chunk {α : Type} (n : Nat) : Nat → List α → List (List α)
  | 0, _ => []
  | k + 1, xs => xs.take n :: chunk n k (xs.drop n)

structure Out where
  vals : List Nat
  ty : DType
  clips : Nat
  seed : Nat
  adv : Nat
  flag : Bool

def fnv (vals : List Nat) : UInt64 :=
  vals.foldl (fun h v => (h ^^^ v.toUInt64) * 0x100000001b3) 0xcbf29ce484222325

def tailStr (o : Out) : String :=
  s!"| c={o.clips} s={toHexMin o.seed} p={o.adv} f={if o.flag then 1 else 0}"

def render (o : Out) : String :=
  String.join (o.vals.map fun v => toHex (hexW o.ty) v ++ " ") ++ tailStr o

def renderHash (o : Out) : String :=
  s!"h={toHexMin (fnv o.vals).toNat} " ++ tailStr o

/-- runs one kernel on explicit patterns. -/
def runKernel (kern : String) (n ch : Nat) (seed : Nat) (fl : Bool) (pats : List Nat) : Option Out :=
  let parts := kern.splitOn "-"
  match parts with
  | "il" :: e :: o :: rest =>
    (typeOfName o).map fun ot =>
      let eng := engOf e
      let chans := chunk n ch pats
      let r := interleave eng ot chans n (rest.contains "dith") (BitVec.ofNat 64 seed) fl
      { vals := r.out, ty := ot, clips := r.clips, seed := r.seed.toNat, adv := n * ch, flag := r.flag }
  | ["de", e, i] =>
    (typeOfName i).map fun it =>
      let eng := engOf e
      let outs := deinterleave eng it pats n ch
      { vals := outs.flatten, ty := engType eng, clips := 0, seed := seed, adv := n * ch, flag := fl }
  | ["lsr", "s2f"] => some { vals := pats.map fun b => lsrToFloat 15 (toSigned 16 b), ty := .f32, clips := 0, seed := seed, adv := n, flag := fl }
  | ["lsr", "i2f"] => some { vals := pats.map fun b => lsrToFloat 31 (toSigned 32 b), ty := .f32, clips := 0, seed := seed, adv := n, flag := fl }
  | ["lsr", "f2s"] =>
    let rs := pats.map fun b => lsrToShort (f32.decode b)
    some { vals := rs.map fun r => ofSigned 16 r.1, ty := .i16, clips := 0, seed := seed, adv := n, flag := fl || rs.any (·.2) }
  | ["lsr", "f2i"] =>
    let rs := pats.map fun b => lsrToInt (f32.decode b)
    some { vals := rs.map fun r => ofSigned 32 r.1, ty := .i32, clips := 0, seed := seed, adv := n, flag := fl || rs.any (·.2) }
  | "api" :: e :: i :: o :: _ =>
    match typeOfName i, typeOfName o with
    | some it, some ot =>
      let eng := engOf e
      let rs := pats.map (passSample eng it ot)
      some { vals := rs.map (·.1), ty := ot, clips := (rs.filter (·.2)).length, seed := seed, adv := n, flag := fl }
    | _, _ => none
  | _ => none

/-- input sample type of a kernel (for `convr`). -/
def inType (kern : String) : DType :=
  match kern.splitOn "-" with
  | "il" :: e :: _ => engType (engOf e)
  | ["de", _, i] => (typeOfName i).getD .f32
  | ["lsr", "s2f"] => .i16
  | ["lsr", "i2f"] => .i32
  | "api" :: _ :: i :: _ => (typeOfName i).getD .f32
  | _ => .f32

def step (line : String) : Option String :=
  let toks := (line.trimAscii.toString.splitOn " ").filter (· ≠ "")
  match toks with
  | "conv" :: kern :: n :: ch :: seed :: fl :: pats =>
    let n := n.toNat?.getD 0
    let ch := ch.toNat?.getD 1
    match runKernel kern n ch (hexToNat seed) (fl == "1") (pats.map hexToNat) with
    | some o => some (render o)
    | none => some "ERR bad kernel"
  | ["convr", kern, n, ch, seed, fl, first, stp] =>
    let n := n.toNat?.getD 0
    let ch := ch.toNat?.getD 1
    let first := hexToNat first
    let stp := hexToNat stp
    let m := 2 ^ (inType kern).bits
    let pats := (List.range (n * ch)).map fun k => (first + k * stp) % m
    match runKernel kern n ch (hexToNat seed) (fl == "1") pats with
    | some o => some (renderHash o)
    | none => some "ERR bad kernel"
  | [] => some ""
  | _ => some "ERR unknown op"

partial def loop (h : IO.FS.Stream) (out : IO.FS.Stream) : IO Unit := do
  let line ← h.getLine
  if line.isEmpty then return ()
  match step line with
  | some s => out.putStrLn s
  | none => pure ()
  loop h out

end Soxr.Conv.Driver

def main : IO Unit := do
  let stdin ← IO.getStdin
  let stdout ← IO.getStdout
  Soxr.Conv.Driver.loop stdin stdout
