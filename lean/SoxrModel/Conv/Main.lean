/-! Line-protocol driver of the Conv model (stub). -/
def main : IO Unit := pure ()
