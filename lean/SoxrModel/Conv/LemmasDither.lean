import SoxrModel.Conv.LemmasKernel
/-! The dither: the LCG on 64-bit words, the numerator `k` with `|k| ≤ 31`, the binary64 addition `src + k/32`,
    the total error bound. -/
set_option exponentiation.threshold 4096
namespace Soxr.Conv

/-- the LCG step as arithmetic modulo `2^64`. -/
theorem lcg_toNat (s : Seed) : (lcg s).toNat = (Gen.lcgA * s.toNat + Gen.lcgC) % 2 ^ 64 := by
  unfold lcg
  rw [BitVec.toNat_add, BitVec.toNat_mul, BitVec.toNat_ofNat, BitVec.toNat_ofNat]
  simp [Nat.add_mod, Nat.mul_mod]

/-- `(int)(((ran1 >>= 3) & 31) - ((ran2 >>= 3) & 31))` is the difference of two 5-bit fields. -/
theorem ditherNext_val (r : Ran) :
    (ditherNext r).1 = (((r.r1 >>> 3).toNat % 32 : Nat) : Int) - (((r.r2 >>> 3).toNat % 32 : Nat) : Int) := by
  unfold ditherNext
  simp only [BitVec.toInt_eq_toNat_cond, BitVec.toNat_setWidth, BitVec.toNat_sub, BitVec.toNat_and]
  have h31 : (31#64).toNat = 2 ^ 5 - 1 := by decide
  rw [h31, Nat.and_two_pow_sub_one_eq_mod, Nat.and_two_pow_sub_one_eq_mod]
  have ha : (r.r1 >>> 3).toNat % 2 ^ 5 < 32 := Nat.mod_lt _ (by decide)
  have hb : (r.r2 >>> 3).toNat % 2 ^ 5 < 32 := Nat.mod_lt _ (by decide)
  have e5 : (2 : Nat) ^ 5 = 32 := by decide
  rw [e5] at ha hb ⊢
  generalize (r.r1 >>> 3).toNat % 32 = a at ha ⊢
  generalize (r.r2 >>> 3).toNat % 32 = b at hb ⊢
  omega

/-- **the dither numerator is at most 31 in magnitude**, whatever the seed. -/
theorem ditherNext_bound (r : Ran) : -31 ≤ (ditherNext r).1 ∧ (ditherNext r).1 ≤ 31 := by
  rw [ditherNext_val]
  have ha : (r.r1 >>> 3).toNat % 32 < 32 := Nat.mod_lt _ (by decide)
  have hb : (r.r2 >>> 3).toNat % 32 < 32 := Nat.mod_lt _ (by decide)
  omega

/-- every operand of a dithered kernel is its sample plus `k/32` (in `double` arithmetic) with `|k| ≤ 31`;
    of an undithered kernel the sample itself. -/
def DithRel (dith : Bool) (x d : Val) : Prop :=
  if dith then ∃ k : Int, -31 ≤ k ∧ k ≤ 31 ∧ d = addDither x k else d = x

theorem operand_rel (c : Cfg) (x : Val) (r : Ran) : DithRel c.dith x (operand c x r).1 := by
  unfold DithRel operand
  cases hd : c.dith with
  | true => exact ⟨(ditherNext r).1, (ditherNext_bound r).1, (ditherNext_bound r).2, by simp⟩
  | false => simp

/-! ## One rounding to binary64 -/

theorem two_pow_le_of_log2 (N : Nat) (h : N ≠ 0) : 2 ^ N.log2 ≤ N := Nat.log2_self_le h

/-- `round53` either overflows, or is exact (below `2^53` units), or returns a value `y` with `|y| ≥ 2^(52+s)` and
    `|y − x| ≤ 2^s / 2` for some `s`. -/
theorem round53_spec (x : Int) :
    (∃ neg, round53 x = .inf neg) ∨
    (round53 x = .fin x) ∨
    (∃ (y : Int) (s : Nat), round53 x = .fin y ∧ 2 ^ (52 + s) ≤ y.natAbs ∧ 2 * (y - x).natAbs ≤ 2 ^ s) := by
  unfold round53
  by_cases h53 : x.natAbs < 2 ^ 53
  · simp [h53]
  · simp only [h53, if_false]
    have hN0 : x.natAbs ≠ 0 := by
      intro h0; rw [h0] at h53; exact h53 (Nat.two_pow_pos 53)
    have hL : 53 ≤ x.natAbs.log2 := (Nat.le_log2 hN0).mpr (by omega)
    generalize hs : x.natAbs.log2 - 52 = s
    have hd : 0 < 2 ^ s := Nat.two_pow_pos s
    by_cases hov : 2 ^ (1024 + U) ≤ rheNat x.natAbs (2 ^ s) * 2 ^ s
    · left; exact ⟨decide (x < 0), by simp [hov]⟩
    · right; right
      simp only [hov, if_false]
      have hpow : 2 ^ x.natAbs.log2 ≤ x.natAbs := Nat.log2_self_le hN0
      have hsplit : 2 ^ x.natAbs.log2 = 2 ^ 52 * 2 ^ s := by
        rw [← Nat.pow_add]; congr 1; omega
      have hM : 2 ^ 52 ≤ rheNat x.natAbs (2 ^ s) := by
        have h1 := rhe_mono ((2 ^ 52 : Nat) * (2 ^ s : Nat) : Int) (x.natAbs : Int) (2 ^ s) hd (by
          have : ((2 ^ 52 * 2 ^ s : Nat) : Int) ≤ (x.natAbs : Int) := by
            apply Int.ofNat_le.mpr; rw [← hsplit]; exact hpow
          simpa using this)
        rw [rhe_mul _ _ hd, ← rheNat_cast _ _ hd] at h1
        exact Int.ofNat_le.mp h1
      have hR : 2 ^ (52 + s) ≤ rheNat x.natAbs (2 ^ s) * 2 ^ s := by
        rw [Nat.pow_add]; exact Nat.mul_le_mul_right _ hM
      obtain ⟨n1, n2⟩ := rheNat_near x.natAbs (2 ^ s) hd
      generalize rheNat x.natAbs (2 ^ s) * 2 ^ s = R at hov hR n1 n2 ⊢
      by_cases hneg : x < 0
      · refine ⟨-(R : Int), s, by simp [hneg], by rw [Int.natAbs_neg, Int.natAbs_natCast]; exact hR, ?_⟩
        omega
      · refine ⟨(R : Int), s, by simp [hneg], by rw [Int.natAbs_natCast]; exact hR, ?_⟩
        omega

/-- `1/32` in units. -/
def lsb32 : Nat := 2 ^ (U - 5)

theorem unit_eq_32 : unit = 32 * lsb32 := by
  have hU : U = 5 + (U - 5) := by decide
  unfold unit lsb32
  calc 2 ^ U = 2 ^ (5 + (U - 5)) := congrArg _ hU
    _ = 2 ^ 5 * 2 ^ (U - 5) := Nat.pow_add 2 5 (U - 5)

/-- **Total error of a dithered, unsaturated sample is below 1.5 LSB**: for every operand `x` and every dither numerator
    `|k| ≤ 31`, if `x + k/32` (rounded to `double`) converts without saturating, the result is within `3/2` of `x`. -/
theorem dither_error (mx : Int) (hmx : 0 ≤ mx) (hmx2 : mx < 2 ^ 20) (x k : Int) (hk1 : -31 ≤ k) (hk2 : k ≤ 31)
    (hc : (convSample mx (addDither (.fin x) k)).2 = false) :
    2 * ((convSample mx (addDither (.fin x) k)).1 * (unit : Int) - x).natAbs < 3 * unit := by
  have hE := unit_eq_32
  have hkE1 : k * (lsb32 : Int) ≤ 31 * lsb32 := mul_le_of_le k 31 lsb32 hk2
  have hkE2 : -31 * (lsb32 : Int) ≤ k * lsb32 := mul_le_of_le (-31) k lsb32 hk1
  have hEpos : 0 < lsb32 := Nat.two_pow_pos _
  simp only [addDither] at hc ⊢
  change (convSample mx (round53 (x + k * (lsb32 : Nat)))).2 = false at hc
  change 2 * ((convSample mx (round53 (x + k * (lsb32 : Nat)))).1 * (unit : Int) - x).natAbs < 3 * unit
  rcases round53_spec (x + k * (lsb32 : Nat)) with ⟨neg, h⟩ | h | ⟨y, s, h, hy, hys⟩
  · rw [h] at hc; simp [convSample] at hc
  · rw [h] at hc ⊢
    simp only [convSample] at hc ⊢
    obtain ⟨n1, n2⟩ := rhe_near (x + k * (lsb32 : Nat)) unit unit_pos
    split at hc
    · simp at hc
    · split at hc
      · simp at hc
      · rename_i h1 h2
        simp only [h1, h2, if_false]
        omega
  · rw [h] at hc ⊢
    simp only [convSample] at hc ⊢
    obtain ⟨n1, n2⟩ := rhe_near y unit unit_pos
    split at hc
    · simp at hc
    · split at hc
      · simp at hc
      · rename_i h1 h2
        simp only [h1, h2, if_false]
        -- |rhe y| ≤ mx + 1 ≤ 2^20, hence |y| < 2^21 units, hence 2^s ≤ 1/32
        have hu1 : rhe y unit * (unit : Int) ≤ (2 ^ 20 : Int) * unit := mul_le_of_le _ _ unit (by omega)
        have hu2 : (-(2 ^ 20) : Int) * unit ≤ rhe y unit * (unit : Int) := mul_le_of_le _ _ unit (by omega)
        have hy2 : y.natAbs < 2 ^ 21 * unit := by omega
        have hlt : 2 ^ (52 + s) < 2 ^ (21 + U) := by
          calc 2 ^ (52 + s) ≤ y.natAbs := hy
            _ < 2 ^ 21 * unit := hy2
            _ = 2 ^ (21 + U) := (Nat.pow_add 2 21 U).symm
        have hs : 52 + s < 21 + U := (Nat.pow_lt_pow_iff_right (by decide)).mp hlt
        have hsE : 2 ^ s ≤ lsb32 := by
          unfold lsb32
          exact Nat.pow_le_pow_right (by decide) (by unfold U at hs ⊢; omega)
        omega

end Soxr.Conv
