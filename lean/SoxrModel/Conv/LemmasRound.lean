import SoxrModel.Conv.Model
/-! Lemmas on `rhe` (round half even of `x / d`): nearest, ties to even, exact on multiples, sign, monotone. -/
namespace Soxr.Conv

theorem unit_pos : 0 < unit := Nat.two_pow_pos U

theorem rhe_cases (x : Int) (d : Nat) (hd : 0 < d) :
    ∃ q r : Int, x = q * d + r ∧ 0 ≤ r ∧ r < d ∧
      rhe x d = (if 2 * r < d then q else if (d : Int) < 2 * r then q + 1 else if q % 2 = 0 then q else q + 1) := by
  refine ⟨x / (d : Int), x % (d : Int), ?_, ?_, ?_, rfl⟩
  · have := Int.mul_ediv_add_emod x d
    rw [Int.mul_comm] at this; omega
  · exact Int.emod_nonneg _ (by omega)
  · exact Int.emod_lt_of_pos _ (by omega)

/-- `rhe x d` is within half of `x / d`:  `|rhe x d · d − x| ≤ d / 2`. -/
theorem rhe_near (x : Int) (d : Nat) (hd : 0 < d) :
    -(d : Int) ≤ 2 * (rhe x d * d - x) ∧ 2 * (rhe x d * d - x) ≤ d := by
  obtain ⟨q, r, hx, h0, h1, hr⟩ := rhe_cases x d hd
  rw [hr]
  have e : (q + 1) * (d : Int) = q * d + d := by rw [Int.add_mul]; omega
  split
  · omega
  · split
    · rw [e]; omega
    · split
      · omega
      · rw [e]; omega

/-- on an exact tie the even neighbour is taken. -/
theorem rhe_tie_even (x : Int) (d : Nat) (hd : 0 < d)
    (h : 2 * (rhe x d * d - x) = d ∨ 2 * (rhe x d * d - x) = -(d : Int)) : rhe x d % 2 = 0 := by
  obtain ⟨q, r, hx, h0, h1, hr⟩ := rhe_cases x d hd
  rw [hr] at h ⊢
  have e : (q + 1) * (d : Int) = q * d + d := by rw [Int.add_mul]; omega
  split at h
  · split <;> omega
  · split at h
    · rw [e] at h; omega
    · split at h
      · rename_i h2 h3 h4; simp [h2, h3, h4]
      · rename_i h2 h3 h4; simp [h2, h3, h4]; omega

/-- no integer is strictly nearer to `x / d` than `rhe x d`. -/
theorem rhe_nearest (x : Int) (d : Nat) (hd : 0 < d) (z : Int) :
    (rhe x d * d - x).natAbs ≤ (z * d - x).natAbs := by
  obtain ⟨h1, h2⟩ := rhe_near x d hd
  rcases Int.lt_trichotomy z (rhe x d) with h | h | h
  · have : z * (d : Int) ≤ (rhe x d - 1) * d := Int.mul_le_mul_of_nonneg_right (by omega) (by omega)
    rw [Int.sub_mul] at this; omega
  · subst h; omega
  · have : (rhe x d + 1) * (d : Int) ≤ z * d := Int.mul_le_mul_of_nonneg_right (by omega) (by omega)
    rw [Int.add_mul] at this; omega

/-- multiples are fixed: `rhe (v · d) d = v`. -/
theorem rhe_mul (v : Int) (d : Nat) (hd : 0 < d) : rhe (v * d) d = v := by
  unfold rhe
  have h1 : v * (d : Int) % d = 0 := Int.mul_emod_left v d
  have h2 : v * (d : Int) / d = v := Int.mul_ediv_cancel v (by omega)
  simp only [h1, h2]
  simp; omega

theorem mul_le_of_le (a b : Int) (d : Nat) (h : a ≤ b) : a * (d : Int) ≤ b * d :=
  Int.mul_le_mul_of_nonneg_right h (by omega)

theorem rhe_nonneg (x : Int) (d : Nat) (hd : 0 < d) (hx : 0 ≤ x) : 0 ≤ rhe x d := by
  obtain ⟨q, r, hx', h0, h1, hr⟩ := rhe_cases x d hd
  have hq : 0 ≤ q := by
    rcases Int.lt_or_le q 0 with hq | hq
    · have := mul_le_of_le q (-1) d (by omega)
      omega
    · exact hq
  rw [hr]; split
  · exact hq
  · split
    · omega
    · split <;> omega

theorem rhe_nonpos (x : Int) (d : Nat) (hd : 0 < d) (hx : x ≤ 0) : rhe x d ≤ 0 := by
  obtain ⟨q, r, hx', h0, h1, hr⟩ := rhe_cases x d hd
  rw [hr]
  by_cases hr0 : r = 0
  · subst hr0
    have hq : q ≤ 0 := by
      rcases Int.lt_or_le 0 q with hq | hq
      · have := mul_le_of_le 1 q d (by omega)
        omega
      · exact hq
    have : 2 * (0 : Int) < d := by omega
    simp only [this, if_true]; exact hq
  · have hq : q ≤ -1 := by
      rcases Int.lt_or_le (-1) q with hq | hq
      · have := mul_le_of_le 0 q d (by omega)
        omega
      · exact hq
    split
    · omega
    · split
      · omega
      · split <;> omega

/-- `rhe` is monotone in `x`. -/
theorem rhe_mono (x y : Int) (d : Nat) (hd : 0 < d) (h : x ≤ y) : rhe x d ≤ rhe y d := by
  obtain ⟨a1, a2⟩ := rhe_near x d hd
  obtain ⟨b1, b2⟩ := rhe_near y d hd
  rcases Int.lt_or_le (rhe y d) (rhe x d) with hlt | hge
  · exfalso
    have hm := mul_le_of_le (rhe y d + 1) (rhe x d) d (by omega)
    rw [Int.add_mul] at hm
    -- the two roundings are at least `d` apart while `x ≤ y`: both are ties, to consecutive integers, both even
    have hxy : x = y := by omega
    subst hxy
    have t1 : 2 * (rhe x d * d - x) = d := by omega
    have e1 := rhe_tie_even x d hd (Or.inl t1)
    omega
  · exact hge

theorem rheNat_cast (n d : Nat) (hd : 0 < d) : ((rheNat n d : Nat) : Int) = rhe n d := by
  unfold rheNat
  exact Int.toNat_of_nonneg (rhe_nonneg _ _ hd (by omega))

/-- `rheNat (M · d) d = M`. -/
theorem rheNat_mul (M d : Nat) (hd : 0 < d) : rheNat (M * d) d = M := by
  have h := rheNat_cast (M * d) d hd
  have : ((M * d : Nat) : Int) = (M : Int) * d := by simp
  rw [this, rhe_mul _ _ hd] at h
  exact Int.ofNat_inj.mp h

/-- `|rheNat n d · d − n| ≤ d / 2` on naturals. -/
theorem rheNat_near (n d : Nat) (hd : 0 < d) :
    2 * n ≤ 2 * (rheNat n d * d) + d ∧ 2 * (rheNat n d * d) ≤ 2 * n + d := by
  obtain ⟨h1, h2⟩ := rhe_near n d hd
  rw [← rheNat_cast n d hd] at h1 h2
  have e : ((rheNat n d : Nat) : Int) * (d : Int) = ((rheNat n d * d : Nat) : Int) := by simp
  rw [e] at h1 h2
  omega

end Soxr.Conv
