import SoxrModel.Conv.LemmasTop
import SoxrModel.Conv.LemmasPass
/-! Final forms used by `Properties/C11.lean`: the unclipped case of the reference, the saturation thresholds, the
    two-pass round trips through the unit-gain path, the dithered kernel. -/
set_option exponentiation.threshold 4096
namespace Soxr.Conv

/-- an unsaturated finite sample is `rhe x unit`. -/
theorem convSample_unclipped (mx x : Int) (hc : (convSample mx (.fin x)).2 = false) :
    (convSample mx (.fin x)).1 = rhe x unit ∧ -mx - 1 ≤ rhe x unit ∧ rhe x unit ≤ mx := by
  simp only [convSample] at hc ⊢
  by_cases h1 : mx < rhe x unit
  · simp [h1] at hc
  · by_cases h2 : rhe x unit < -mx - 1
    · simp [h1, h2] at hc
    · simp only [h1, h2, if_false]
      exact ⟨trivial, by omega, by omega⟩

theorem convSample_clipped_iff (mx x : Int) :
    (convSample mx (.fin x)).2 = true ↔ (mx < rhe x unit ∨ rhe x unit < -mx - 1) := by
  simp only [convSample]
  by_cases h1 : mx < rhe x unit
  · simp [h1]
  · by_cases h2 : rhe x unit < -mx - 1
    · simp [h1, h2]
    · simp [h1, h2]

/-- `rhe x d > m` (for odd `m`) exactly from the half-way point up: the tie `m + 1/2` goes to the even `m + 1`. -/
theorem rhe_gt_iff_odd (x m : Int) (d : Nat) (hd : 0 < d) (hm : m % 2 = 1) :
    m < rhe x d ↔ (2 * m + 1) * (d : Int) ≤ 2 * x := by
  obtain ⟨n1, n2⟩ := rhe_near x d hd
  have e1 : (2 * m + 1) * (d : Int) = 2 * (m * d) + d := by rw [Int.add_mul, Int.mul_assoc]; omega
  rw [e1]
  constructor
  · intro h
    have : (m + 1) * (d : Int) ≤ rhe x d * d := mul_le_of_le _ _ d (by omega)
    rw [Int.add_mul] at this
    omega
  · intro h
    apply Int.lt_of_not_ge
    intro hle
    have h3 : rhe x d * (d : Int) ≤ m * d := mul_le_of_le _ _ d hle
    -- then rhe x d * d = m * d and the distance is exactly d / 2: a tie, which goes to an even integer
    have h4 : 2 * (rhe x d * d - x) = -(d : Int) := by omega
    have hev := rhe_tie_even x d hd (Or.inr h4)
    have h5 : rhe x d * (d : Int) = m * d := by omega
    have h6 : rhe x d = m := by
      rcases Int.lt_trichotomy (rhe x d) m with h | h | h
      · have : rhe x d * (d : Int) ≤ (m - 1) * d := mul_le_of_le _ _ d (by omega)
        rw [Int.sub_mul] at this; omega
      · exact h
      · omega
    omega

/-- `rhe x d < m` (for even `m`) exactly below the half-way point: the tie `m − 1/2` goes to the even `m`. -/
theorem rhe_lt_iff_even (x m : Int) (d : Nat) (hd : 0 < d) (hm : m % 2 = 0) :
    rhe x d < m ↔ 2 * x < (2 * m - 1) * (d : Int) := by
  obtain ⟨n1, n2⟩ := rhe_near x d hd
  have e1 : (2 * m - 1) * (d : Int) = 2 * (m * d) - d := by rw [Int.sub_mul, Int.mul_assoc]; omega
  rw [e1]
  constructor
  · intro h
    have h3 : rhe x d * (d : Int) ≤ (m - 1) * d := mul_le_of_le _ _ d (by omega)
    rw [Int.sub_mul] at h3
    -- distance ≤ d/2 gives 2x ≤ 2 m d − d, equality only on a tie with rhe = m − 1 odd
    rcases Int.lt_or_le (2 * x) (2 * (m * d) - d) with h4 | h4
    · exact h4
    · exfalso
      have h5 : 2 * (rhe x d * d - x) = -(d : Int) := by omega
      have hev := rhe_tie_even x d hd (Or.inr h5)
      have h6 : rhe x d * (d : Int) = (m - 1) * d := by rw [Int.sub_mul]; omega
      have h7 : rhe x d = m - 1 := by
        rcases Int.lt_trichotomy (rhe x d) (m - 1) with h | h | h
        · have : rhe x d * (d : Int) ≤ (m - 1 - 1) * d := mul_le_of_le _ _ d (by omega)
          rw [Int.sub_mul] at this; omega
        · exact h
        · omega
      omega
  · intro h
    apply Int.lt_of_not_ge
    intro hge
    have : m * (d : Int) ≤ rhe x d * d := mul_le_of_le _ _ d hge
    omega

/-- **saturation thresholds** for an odd `RINT_MAX` (both `32767` and `2147483647`): a finite sample saturates exactly when
    `x ≥ RINT_MAX + 1/2` or `x < −RINT_MAX − 3/2` (the lower tie rounds to the even `−RINT_MAX − 1`, which is in range). -/
theorem clip_iff_threshold (mx x : Int) (hm : mx % 2 = 1) :
    (convSample mx (.fin x)).2 = true ↔
      ((2 * mx + 1) * (unit : Int) ≤ 2 * x ∨ 2 * x < (2 * (-mx - 1) - 1) * (unit : Int)) := by
  rw [convSample_clipped_iff, rhe_gt_iff_odd x mx unit unit_pos hm,
    rhe_lt_iff_even x (-mx - 1) unit unit_pos (by omega)]

/-! ## float64 → int32 through the float64 engine -/

theorem pass_f64_i32_f64 (b : Nat) (x : Int) (hx : f64.decode b = .fin x) (hrep : Fmt.Rep f64 (x.natAbs * 2 ^ 31)) :
    passSample f64 .f64 .i32 b =
      (ofSigned 32 (convSample 2147483647 (.fin (x * 2147483648))).1, (convSample 2147483647 (.fin (x * 2147483648))).2) := by
  have h0 : scaleLog2 .f64 .i32 = ((31 : Nat) : Int) := by decide
  rw [passSample_i32, h0]
  have h1 : deinterleaveSample f64 .f64 b = b % 2 ^ 64 := by simp [deinterleaveSample]
  have hx' : f64.decode (deinterleaveSample f64 .f64 b) = .fin x := by rw [h1, f64_decode_mod, hx]
  have hy : scaleUnits x ((31 : Nat) : Int) = x * ((2 ^ 31 : Nat) : Int) := scaleUnits_up _ 31
  have hrep' : Fmt.Rep f64 (x * ((2 ^ 31 : Nat) : Int)).natAbs := by rw [natAbs_mul_pow]; exact hrep
  rw [scaleSample_exact f64 Fmt.wf64 _ (by decide) _ _ _ hx' hy hrep']
  have : ((2 ^ 31 : Nat) : Int) = 2147483648 := by decide
  rw [this]

/-! ## two passes through the library: integer → float → integer -/

/-- int16 → float32 → int16 (float32 engine both times): every `short` comes back, nothing saturates. -/
theorem roundtrip_i16_f32 (b : Nat) :
    passSample f32 .f32 .i16 (passSample f32 .i16 .f32 b).1 = (b % 2 ^ 16, false) := by
  have hr := toSigned16_range b
  have hx := full_scale_i16_f32 b
  have hrep : Fmt.Rep f32 ((toSigned 16 b * ((2 ^ (U - 15) : Nat) : Int)).natAbs * 2 ^ 15) := by
    rw [natAbs_mul_pow, Nat.mul_assoc, ← Nat.pow_add]
    apply Fmt.Rep.mk' f32 _ _ _ (by decide) (by decide)
    have : (2 : Nat) ^ 15 = 32768 := by decide
    have : (2 : Nat) ^ 24 = 16777216 := by decide
    show (toSigned 16 b).natAbs < 2 ^ 24
    omega
  rw [pass_f32_i16_f32 _ _ hx hrep]
  have e : toSigned 16 b * ((2 ^ (U - 15) : Nat) : Int) * 32768 = toSigned 16 b * (unit : Int) := by
    have := full_scale_meaning (toSigned 16 b) 15 (by decide)
    have h : ((2 ^ 15 : Nat) : Int) = 32768 := by decide
    rw [h] at this; exact this
  rw [e, convSample_int 32767 _ (by omega) (by omega), ofSigned_toSigned16]

/-- int32 → float64 → int32 (float64 engine both times): every `int32` comes back, nothing saturates. -/
theorem roundtrip_i32_f64 (b : Nat) :
    passSample f64 .f64 .i32 (passSample f64 .i32 .f64 b).1 = (b % 2 ^ 32, false) := by
  have hr := toSigned32_range b
  have hx := full_scale_i32_f64 b
  have hrep : Fmt.Rep f64 ((toSigned 32 b * ((2 ^ (U - 31) : Nat) : Int)).natAbs * 2 ^ 31) := by
    rw [natAbs_mul_pow, Nat.mul_assoc, ← Nat.pow_add]
    apply Fmt.Rep.mk' f64 _ _ _ (by decide) (by decide)
    have : (2 : Nat) ^ 31 = 2147483648 := by decide
    have : (2 : Nat) ^ 53 = 9007199254740992 := by decide
    show (toSigned 32 b).natAbs < 2 ^ 53
    omega
  rw [pass_f64_i32_f64 _ _ hx hrep]
  have e : toSigned 32 b * ((2 ^ (U - 31) : Nat) : Int) * 2147483648 = toSigned 32 b * (unit : Int) := by
    have := full_scale_meaning (toSigned 32 b) 31 (by decide)
    have h : ((2 ^ 31 : Nat) : Int) = 2147483648 := by decide
    rw [h] at this; exact this
  rw [e, convSample_int 2147483647 _ (by omega) (by omega), ofSigned_toSigned32]

/-! ## the dithered kernel -/

/-- the dithered `LSX_RINT_CLIP` (flag clear on entry), every length, input and seed: there are per-sample dither
    numerators `|k_i| ≤ 31` such that output `i` is the reference conversion of `src[i] + k_i/32` (one `double` addition)
    and the counter advances by exactly the number of those that saturate. -/
theorem lsxRintClip_dither (c : Cfg) (h : 0 ≤ c.mx) (xs : List Val) (seed : Seed) (n : Nat) :
    ∃ ds : List Val, Rel₂ (DithRel c.dith) xs ds ∧
      lsxRintClip c xs seed ⟨false, n⟩ = (refOut c.mx ds, (kernelOperands c xs seed).2, ⟨false, n + refClips c.mx ds⟩) :=
  ⟨(kernelOperands c xs seed).1, kernelOperands_rel c _ (operand_rel c) xs seed, lsxRintClip_clear c h xs seed n⟩

end Soxr.Conv
