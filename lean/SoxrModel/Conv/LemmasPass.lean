import SoxrModel.Conv.LemmasFloat
import SoxrModel.Conv.LemmasDither
/-! Integer patterns, the casts of `data-io.c` on representable values, the unit-gain path, the libsamplerate helpers. -/
set_option exponentiation.threshold 4096
namespace Soxr.Conv

/-! ## two's complement -/

theorem toSigned16_range (b : Nat) : -32768 ≤ toSigned 16 b ∧ toSigned 16 b ≤ 32767 := by
  unfold toSigned; simp only []; split <;> omega

theorem toSigned32_range (b : Nat) : -2147483648 ≤ toSigned 32 b ∧ toSigned 32 b ≤ 2147483647 := by
  unfold toSigned; simp only []; split <;> omega

theorem ofSigned_toSigned16 (b : Nat) : ofSigned 16 (toSigned 16 b) = b % 2 ^ 16 := by
  unfold ofSigned toSigned; simp only []; split <;> omega

theorem ofSigned_toSigned32 (b : Nat) : ofSigned 32 (toSigned 32 b) = b % 2 ^ 32 := by
  unfold ofSigned toSigned; simp only []; split <;> omega

theorem toSigned_ofSigned16 (v : Int) (h1 : -32768 ≤ v) (h2 : v ≤ 32767) : toSigned 16 (ofSigned 16 v) = v := by
  unfold ofSigned toSigned; simp only []; split <;> omega

theorem toSigned_ofSigned32 (v : Int) (h1 : -2147483648 ≤ v) (h2 : v ≤ 2147483647) :
    toSigned 32 (ofSigned 32 v) = v := by
  unfold ofSigned toSigned; simp only []; split <;> omega

/-! ## the reference conversion on exact integers -/

/-- an integer within the limits converts to itself, unsaturated. -/
theorem convSample_int (mx v : Int) (h1 : -mx - 1 ≤ v) (h2 : v ≤ mx) :
    convSample mx (.fin (v * (unit : Int))) = (v, false) := by
  simp only [convSample, rhe_mul v unit unit_pos]
  have a : ¬ mx < v := by omega
  have b : ¬ v < -mx - 1 := by omega
  simp [a, b]

theorem convSample_range (mx : Int) (h : 0 ≤ mx) (v : Val) :
    -mx - 1 ≤ (convSample mx v).1 ∧ (convSample mx v).1 ≤ mx := by
  cases v with
  | fin x =>
    simp only [convSample]
    split
    · simp; omega
    · split
      · simp; omega
      · simp; omega
  | inf neg => cases neg <;> simp [convSample] <;> omega
  | nan => simp [convSample]; omega

/-! ## casts of integer samples -/

theorem f32_ofInt16 (b : Nat) : f32.decode (f32.ofInt (toSigned 16 b)) = .fin (toSigned 16 b * (unit : Int)) := by
  apply Fmt.decode_ofInt f32 Fmt.wf32 (by decide) (by decide)
  have := toSigned16_range b
  have : (toSigned 16 b).natAbs ≤ 32768 := by omega
  exact Nat.lt_of_le_of_lt this (by decide)

theorem f64_ofInt16 (b : Nat) : f64.decode (f64.ofInt (toSigned 16 b)) = .fin (toSigned 16 b * (unit : Int)) := by
  apply Fmt.decode_ofInt f64 Fmt.wf64 (by decide) (by decide)
  have := toSigned16_range b
  have : (toSigned 16 b).natAbs ≤ 32768 := by omega
  exact Nat.lt_of_le_of_lt this (by decide)

theorem f64_ofInt32 (b : Nat) : f64.decode (f64.ofInt (toSigned 32 b)) = .fin (toSigned 32 b * (unit : Int)) := by
  apply Fmt.decode_ofInt f64 Fmt.wf64 (by decide) (by decide)
  have := toSigned32_range b
  have : (toSigned 32 b).natAbs ≤ 2147483648 := by omega
  exact Nat.lt_of_le_of_lt this (by decide)

/-- int32 samples that fit the 24-bit significand are exact in the float32 engine as well. -/
theorem f32_ofInt_small (v : Int) (h : v.natAbs < 2 ^ 24) : f32.decode (f32.ofInt v) = .fin (v * (unit : Int)) :=
  Fmt.decode_ofInt f32 Fmt.wf32 (by decide) (by decide) v h

/-! ## exact values through `ofUnits`, patterns modulo the width -/

theorem Fmt.decode_ofUnits (f : Fmt) (h : Fmt.WF f) (x : Int) (hr : Fmt.Rep f x.natAbs) :
    f.decode (f.ofUnits x) = .fin x := by
  obtain ⟨e1, e2⟩ := Fmt.roundMag_exact f h _ hr
  unfold Fmt.ofUnits
  rw [Fmt.decode_sign_mag f h _ _ e2, e1]
  congr 1
  by_cases hneg : x < 0
  · simp only [hneg, decide_true, if_true]; omega
  · simp only [hneg, decide_false, Bool.false_eq_true, if_false]; omega

theorem f32_decode_mod (b : Nat) : f32.decode (b % 2 ^ 32) = f32.decode b := by
  have h1 : f32.magOf (b % 2 ^ 32) = f32.magOf b := by
    simp only [Fmt.magOf, Fmt.fb, f32]; omega
  have h2 : f32.negOf (b % 2 ^ 32) = f32.negOf b := by
    simp only [Fmt.negOf, Fmt.fb, f32]
    have : b % 2 ^ 32 / 2 ^ (24 - 1 + 8) % 2 = b / 2 ^ (24 - 1 + 8) % 2 := by omega
    simp only [this]
    rfl
  unfold Fmt.decode
  simp only [h1, h2]

theorem f64_decode_mod (b : Nat) : f64.decode (b % 2 ^ 64) = f64.decode b := by
  have h1 : f64.magOf (b % 2 ^ 64) = f64.magOf b := by
    simp only [Fmt.magOf, Fmt.fb, f64]; omega
  have h2 : f64.negOf (b % 2 ^ 64) = f64.negOf b := by
    simp only [Fmt.negOf, Fmt.fb, f64]
    have : b % 2 ^ 64 / 2 ^ (53 - 1 + 11) % 2 = b / 2 ^ (53 - 1 + 11) % 2 := by omega
    simp only [this]
    rfl
  unfold Fmt.decode
  simp only [h1, h2]

/-! ## equal rates, unit gain: `passSample` -/

theorem passSample_i16 (eng : Fmt) (i : DType) (b : Nat) :
    passSample eng i .i16 b =
      (ofSigned 16 (convSample 32767 (eng.decode (scaleSample eng (scaleLog2 i .i16) (deinterleaveSample eng i b)))).1,
       (convSample 32767 (eng.decode (scaleSample eng (scaleLog2 i .i16) (deinterleaveSample eng i b)))).2) := rfl

theorem passSample_i32 (eng : Fmt) (i : DType) (b : Nat) :
    passSample eng i .i32 b =
      (ofSigned 32 (convSample 2147483647 (eng.decode (scaleSample eng (scaleLog2 i .i32) (deinterleaveSample eng i b)))).1,
       (convSample 2147483647 (eng.decode (scaleSample eng (scaleLog2 i .i32) (deinterleaveSample eng i b)))).2) := rfl

theorem scaleSample_zero (eng : Fmt) (b : Nat) : scaleSample eng 0 b = b := by
  unfold scaleSample; simp

/-- int16 → int16, float32 engine: bit-identical, nothing saturates. -/
theorem pass_i16_i16_f32 (b : Nat) : passSample f32 .i16 .i16 b = (b % 2 ^ 16, false) := by
  have hr := toSigned16_range b
  have h0 : scaleLog2 .i16 .i16 = 0 := by decide
  rw [passSample_i16, h0, scaleSample_zero]
  change (ofSigned 16 (convSample 32767 (f32.decode (f32.ofInt (toSigned 16 b)))).1,
    (convSample 32767 (f32.decode (f32.ofInt (toSigned 16 b)))).2) = _
  rw [f32_ofInt16 b, convSample_int 32767 _ (by omega) (by omega), ofSigned_toSigned16]

/-- int16 → int16, float64 engine. -/
theorem pass_i16_i16_f64 (b : Nat) : passSample f64 .i16 .i16 b = (b % 2 ^ 16, false) := by
  have hr := toSigned16_range b
  have h0 : scaleLog2 .i16 .i16 = 0 := by decide
  rw [passSample_i16, h0, scaleSample_zero]
  change (ofSigned 16 (convSample 32767 (f64.decode (f64.ofInt (toSigned 16 b)))).1,
    (convSample 32767 (f64.decode (f64.ofInt (toSigned 16 b)))).2) = _
  rw [f64_ofInt16 b, convSample_int 32767 _ (by omega) (by omega), ofSigned_toSigned16]

/-- int32 → int32, float64 engine: bit-identical. -/
theorem pass_i32_i32_f64 (b : Nat) : passSample f64 .i32 .i32 b = (b % 2 ^ 32, false) := by
  have hr := toSigned32_range b
  have h0 : scaleLog2 .i32 .i32 = 0 := by decide
  rw [passSample_i32, h0, scaleSample_zero]
  change (ofSigned 32 (convSample 2147483647 (f64.decode (f64.ofInt (toSigned 32 b)))).1,
    (convSample 2147483647 (f64.decode (f64.ofInt (toSigned 32 b)))).2) = _
  rw [f64_ofInt32 b, convSample_int 2147483647 _ (by omega) (by omega), ofSigned_toSigned32]

theorem passSample_f32 (eng : Fmt) (i : DType) (b : Nat) :
    passSample eng i .f32 b =
      (interleaveFloat eng f32 (scaleSample eng (scaleLog2 i .f32) (deinterleaveSample eng i b)), false) := rfl

theorem passSample_f64 (eng : Fmt) (i : DType) (b : Nat) :
    passSample eng i .f64 b =
      (interleaveFloat eng f64 (scaleSample eng (scaleLog2 i .f64) (deinterleaveSample eng i b)), false) := rfl

/-- float32 → float32 through the float32 engine: bit-identical (NaNs and infinities included). -/
theorem pass_f32_f32_f32 (b : Nat) : passSample f32 .f32 .f32 b = (b % 2 ^ 32, false) := by
  have h0 : scaleLog2 .f32 .f32 = 0 := by decide
  rw [passSample_f32, h0, scaleSample_zero]
  have h1 : deinterleaveSample f32 .f32 b = b % 2 ^ 32 := by simp [deinterleaveSample]
  have h2 : ∀ y, interleaveFloat f32 f32 y = y % 2 ^ 32 := by
    intro y; simp [interleaveFloat]; rfl
  rw [h1, h2, Nat.mod_mod]

/-- float64 → float64 through the float64 engine: bit-identical. -/
theorem pass_f64_f64_f64 (b : Nat) : passSample f64 .f64 .f64 b = (b % 2 ^ 64, false) := by
  have h0 : scaleLog2 .f64 .f64 = 0 := by decide
  rw [passSample_f64, h0, scaleSample_zero]
  have h1 : deinterleaveSample f64 .f64 b = b % 2 ^ 64 := by simp [deinterleaveSample]
  have h2 : ∀ y, interleaveFloat f64 f64 y = y % 2 ^ 64 := by
    intro y; simp [interleaveFloat]; rfl
  rw [h1, h2, Nat.mod_mod]

/-! ## scaling by a full-scale factor (a power of two) -/

theorem scaleSample_fin (eng : Fmt) (j : Int) (hj : j ≠ 0) (b : Nat) (x : Int) (h : eng.decode b = .fin x) :
    scaleSample eng j b = eng.ofUnits (scaleUnits x j) := by
  unfold scaleSample; simp [hj, h]

theorem Fmt.Rep.mk' (f : Fmt) (M s : Nat) (hM : M < 2 ^ f.p) (hs : f.sh ≤ s) (ht : f.p + s ≤ f.topExp) :
    Fmt.Rep f (M * 2 ^ s) := by
  refine ⟨M, s, rfl, hM, hs, ?_⟩
  calc M * 2 ^ s < 2 ^ f.p * 2 ^ s := Nat.mul_lt_mul_of_pos_right hM (Nat.two_pow_pos _)
    _ = 2 ^ (f.p + s) := (Nat.pow_add 2 _ _).symm
    _ ≤ 2 ^ f.topExp := pow_le_of_le ht

/-- the scaling stage on an exactly held value whose scaled image is representable: exact. -/
theorem scaleSample_exact (eng : Fmt) (hw : Fmt.WF eng) (j : Int) (hj : j ≠ 0) (b : Nat) (x y : Int)
    (hdec : eng.decode b = .fin x) (hy : scaleUnits x j = y) (hrep : Fmt.Rep eng y.natAbs) :
    eng.decode (scaleSample eng j b) = .fin y := by
  rw [scaleSample_fin eng j hj b x hdec, hy]
  exact Fmt.decode_ofUnits eng hw y hrep

theorem scaleUnits_up (x : Int) (j : Nat) : scaleUnits x (j : Int) = x * ((2 ^ j : Nat) : Int) := by
  unfold scaleUnits
  have : (0 : Int) ≤ (j : Int) := by omega
  simp [this]

theorem scaleUnits_down (v : Int) (j : Nat) (hj : 0 < j) (hjU : j ≤ U) :
    scaleUnits (v * (unit : Int)) (-(j : Int)) = v * ((2 ^ (U - j) : Nat) : Int) := by
  unfold scaleUnits
  have h1 : ¬ (0 : Int) ≤ -(j : Int) := by omega
  simp only [h1, if_false, Int.neg_neg, Int.toNat_natCast]
  have hu : (unit : Int) = ((2 ^ (U - j) : Nat) : Int) * ((2 ^ j : Nat) : Int) := by
    rw [← Int.natCast_mul, ← Nat.pow_add]
    unfold unit
    congr 2; omega
  rw [hu, ← Int.mul_assoc]
  have hpos : ((2 ^ j : Nat) : Int) ≠ 0 := by
    have := Nat.two_pow_pos j; omega
  exact Int.mul_ediv_cancel _ hpos

theorem natAbs_mul_pow (v : Int) (k : Nat) : (v * ((2 ^ k : Nat) : Int)).natAbs = v.natAbs * 2 ^ k := by
  rw [Int.natAbs_mul, Int.natAbs_natCast]

theorem U_val : U = 1074 := rfl

/-- int16 → int32 (gain `2^16`), either engine: exactly `v · 65536`, nothing saturates. -/
theorem pass_i16_i32 (eng : Fmt) (hw : Fmt.WF eng) (hp : 16 ≤ eng.p) (hsh : eng.sh ≤ U) (ht : eng.p + (U + 16) ≤ eng.topExp)
    (hdec : ∀ b, eng.decode (eng.ofInt (toSigned 16 b)) = .fin (toSigned 16 b * (unit : Int))) (b : Nat) :
    passSample eng .i16 .i32 b = (ofSigned 32 (toSigned 16 b * 65536), false) := by
  have hr := toSigned16_range b
  have h0 : scaleLog2 .i16 .i32 = ((16 : Nat) : Int) := by decide
  rw [passSample_i32, h0]
  have hx : eng.decode (deinterleaveSample eng .i16 b) = .fin (toSigned 16 b * (unit : Int)) := hdec b
  have hy : scaleUnits (toSigned 16 b * (unit : Int)) ((16 : Nat) : Int)
      = toSigned 16 b * (unit : Int) * ((2 ^ 16 : Nat) : Int) := scaleUnits_up _ 16
  have hrep : Fmt.Rep eng (toSigned 16 b * (unit : Int) * ((2 ^ 16 : Nat) : Int)).natAbs := by
    rw [natAbs_mul_pow, show (unit : Int) = ((2 ^ U : Nat) : Int) from rfl, natAbs_mul_pow, Nat.mul_assoc, ← Nat.pow_add]
    apply Fmt.Rep.mk' eng _ _ _ (by omega) ht
    have : (toSigned 16 b).natAbs ≤ 2 ^ 15 := by
      have : (2 : Nat) ^ 15 = 32768 := by decide
      omega
    exact Nat.lt_of_le_of_lt this (Nat.lt_of_lt_of_le (pow_lt_pow (by decide : 15 < 16)) (pow_le_of_le hp))
  rw [scaleSample_exact eng hw _ (by decide) _ _ _ hx hy hrep]
  have e : toSigned 16 b * (unit : Int) * ((2 ^ 16 : Nat) : Int) = (toSigned 16 b * 65536) * (unit : Int) := by
    have : ((2 ^ 16 : Nat) : Int) = 65536 := by decide
    rw [this, Int.mul_right_comm]
  rw [e, convSample_int 2147483647 _ (by omega) (by omega)]

theorem pass_i16_i32_f32 (b : Nat) : passSample f32 .i16 .i32 b = (ofSigned 32 (toSigned 16 b * 65536), false) :=
  pass_i16_i32 f32 Fmt.wf32 (by decide) (by decide) (by decide) f32_ofInt16 b

theorem pass_i16_i32_f64 (b : Nat) : passSample f64 .i16 .i32 b = (ofSigned 32 (toSigned 16 b * 65536), false) :=
  pass_i16_i32 f64 Fmt.wf64 (by decide) (by decide) (by decide) f64_ofInt16 b

/-! ## integer full scale is ±1.0 -/

/-- the engine's sample after the scaling stage, for int16 input and a floating-point output type (gain `2^-15`):
    exactly `v / 32768`. -/
theorem scaled_i16_down (eng : Fmt) (hw : Fmt.WF eng) (hp : 16 ≤ eng.p) (hsh : eng.sh ≤ U - 15)
    (ht : eng.p + (U - 15) ≤ eng.topExp)
    (hdec : ∀ b, eng.decode (eng.ofInt (toSigned 16 b)) = .fin (toSigned 16 b * (unit : Int))) (b : Nat) :
    eng.decode (scaleSample eng (-((15 : Nat) : Int)) (deinterleaveSample eng .i16 b))
      = .fin (toSigned 16 b * ((2 ^ (U - 15) : Nat) : Int)) := by
  have hr := toSigned16_range b
  have hx : eng.decode (deinterleaveSample eng .i16 b) = .fin (toSigned 16 b * (unit : Int)) := hdec b
  have hy := scaleUnits_down (toSigned 16 b) 15 (by decide) (by decide)
  apply scaleSample_exact eng hw _ (by decide) _ _ _ hx hy
  rw [natAbs_mul_pow]
  apply Fmt.Rep.mk' eng _ _ _ hsh ht
  have : (toSigned 16 b).natAbs ≤ 2 ^ 15 := by
    have : (2 : Nat) ^ 15 = 32768 := by decide
    omega
  exact Nat.lt_of_le_of_lt this (Nat.lt_of_lt_of_le (pow_lt_pow (by decide : 15 < 16)) (pow_le_of_le hp))

/-- **int16 → float32 (float32 engine): the output is exactly `v / 32768`**; full scale `-32768` is `-1.0`. -/
theorem full_scale_i16_f32 (b : Nat) :
    f32.decode (passSample f32 .i16 .f32 b).1 = .fin (toSigned 16 b * ((2 ^ (U - 15) : Nat) : Int)) := by
  have h0 : scaleLog2 .i16 .f32 = -((15 : Nat) : Int) := by decide
  rw [passSample_f32, h0]
  have h2 : ∀ y, interleaveFloat f32 f32 y = y % 2 ^ 32 := by
    intro y; simp [interleaveFloat]; rfl
  simp only [h2, f32_decode_mod]
  exact scaled_i16_down f32 Fmt.wf32 (by decide) (by decide) (by decide) f32_ofInt16 b

/-- int16 → float64 (float64 engine): exactly `v / 32768`. -/
theorem full_scale_i16_f64 (b : Nat) :
    f64.decode (passSample f64 .i16 .f64 b).1 = .fin (toSigned 16 b * ((2 ^ (U - 15) : Nat) : Int)) := by
  have h0 : scaleLog2 .i16 .f64 = -((15 : Nat) : Int) := by decide
  rw [passSample_f64, h0]
  have h2 : ∀ y, interleaveFloat f64 f64 y = y % 2 ^ 64 := by
    intro y; simp [interleaveFloat]; rfl
  simp only [h2, f64_decode_mod]
  exact scaled_i16_down f64 Fmt.wf64 (by decide) (by decide) (by decide) f64_ofInt16 b

/-- int32 → float64 (float64 engine): exactly `v / 2^31`. -/
theorem full_scale_i32_f64 (b : Nat) :
    f64.decode (passSample f64 .i32 .f64 b).1 = .fin (toSigned 32 b * ((2 ^ (U - 31) : Nat) : Int)) := by
  have hr := toSigned32_range b
  have h0 : scaleLog2 .i32 .f64 = -((31 : Nat) : Int) := by decide
  rw [passSample_f64, h0]
  have h2 : ∀ y, interleaveFloat f64 f64 y = y % 2 ^ 64 := by
    intro y; simp [interleaveFloat]; rfl
  simp only [h2, f64_decode_mod]
  have hx : f64.decode (deinterleaveSample f64 .i32 b) = .fin (toSigned 32 b * (unit : Int)) := f64_ofInt32 b
  have hy := scaleUnits_down (toSigned 32 b) 31 (by decide) (by decide)
  apply scaleSample_exact f64 Fmt.wf64 _ (by decide) _ _ _ hx hy
  rw [natAbs_mul_pow]
  apply Fmt.Rep.mk' f64 _ _ _ (by decide) (by decide)
  have : (toSigned 32 b).natAbs ≤ 2 ^ 31 := by
    have : (2 : Nat) ^ 31 = 2147483648 := by decide
    omega
  exact Nat.lt_of_le_of_lt this (pow_lt_pow (by decide))

/-- the values the statements above name: `y = v · 2^(U-k)` is `v / 2^k` (in units: `y · 2^k = v · 1.0`). -/
theorem full_scale_meaning (v : Int) (k : Nat) (hk : k ≤ U) :
    v * ((2 ^ (U - k) : Nat) : Int) * ((2 ^ k : Nat) : Int) = v * (unit : Int) := by
  rw [Int.mul_assoc, ← Int.natCast_mul, ← Nat.pow_add]
  unfold unit
  congr 3; omega

/-! ## floating-point input to integer output: scaled by the full scale, rounded to nearest, saturating -/

/-- float32 → int16 through the float32 engine (gain `2^15`): the reference conversion of the exact product `x · 32768`
    (whenever that product does not overflow float32: `|x| < 2^113`). -/
theorem pass_f32_i16_f32 (b : Nat) (x : Int) (hx : f32.decode b = .fin x) (hrep : Fmt.Rep f32 (x.natAbs * 2 ^ 15)) :
    passSample f32 .f32 .i16 b =
      (ofSigned 16 (convSample 32767 (.fin (x * 32768))).1, (convSample 32767 (.fin (x * 32768))).2) := by
  have h0 : scaleLog2 .f32 .i16 = ((15 : Nat) : Int) := by decide
  rw [passSample_i16, h0]
  have h1 : deinterleaveSample f32 .f32 b = b % 2 ^ 32 := by simp [deinterleaveSample]
  have hx' : f32.decode (deinterleaveSample f32 .f32 b) = .fin x := by rw [h1, f32_decode_mod, hx]
  have hy : scaleUnits x ((15 : Nat) : Int) = x * ((2 ^ 15 : Nat) : Int) := scaleUnits_up _ 15
  have hrep' : Fmt.Rep f32 (x * ((2 ^ 15 : Nat) : Int)).natAbs := by rw [natAbs_mul_pow]; exact hrep
  rw [scaleSample_exact f32 Fmt.wf32 _ (by decide) _ _ _ hx' hy hrep']
  have : ((2 ^ 15 : Nat) : Int) = 32768 := by decide
  rw [this]

/-! ## float32 ↔ float64 -/

theorem finite_of_ex (f : Fmt) (mag : Nat) (h : f.exOf mag ≠ f.expAll) (hm : mag < 2 ^ (f.fb + f.w)) :
    mag < f.infMag := by
  have hlt : f.exOf mag < 2 ^ f.w := by
    unfold Fmt.exOf
    apply Nat.div_lt_of_lt_mul
    rw [← Nat.pow_add]; exact hm
  have hlt2 : f.exOf mag < f.expAll := by unfold Fmt.expAll at h ⊢; omega
  unfold Fmt.exOf at hlt2
  have := (Nat.div_lt_iff_lt_mul (Nat.two_pow_pos f.fb)).mp hlt2
  exact this

theorem magOf_lt (f : Fmt) (b : Nat) : f.magOf b < 2 ^ (f.fb + f.w) := Nat.mod_lt _ (Nat.two_pow_pos _)

/-- **float32 → float64 (`cvtss2sd`) is exact for every pattern that is not a NaN.** -/
theorem float_widen_exact (b : Nat) (hn : f32.decode b ≠ .nan) : f64.decode (Fmt.cvt f32 f64 b) = f32.decode b := by
  by_cases hex : f32.exOf (f32.magOf b) = f32.expAll
  · by_cases hfr : f32.frOf (f32.magOf b) = 0
    · exact Fmt.decode_cvt_inf f32 f64 Fmt.wf64 b hex hfr
    · exfalso; apply hn; unfold Fmt.decode; simp [hex, hfr]
  · have hfin := finite_of_ex f32 _ hex (magOf_lt f32 b)
    apply Fmt.decode_cvt_exact f32 f64 Fmt.wf64 b hfin
    exact Fmt.Rep.widen (Fmt.decodeMag_rep f32 Fmt.wf32 _ hfin) (by decide) (by decide) (by decide)

theorem cvt_finite (a b : Fmt) (x : Nat) (hne : a.exOf (a.magOf x) ≠ a.expAll) :
    Fmt.cvt a b x = b.signBit (a.negOf x) + b.roundMag (a.decodeMag (a.magOf x)) := by
  unfold Fmt.cvt; simp [hne]

/-- float32 → (float64 engine) → float32: the value of every finite or infinite pattern comes back unchanged. -/
theorem pass_f32_f32_f64 (b : Nat) (hn : f32.decode b ≠ .nan) :
    f32.decode (passSample f64 .f32 .f32 b).1 = f32.decode b := by
  have h0 : scaleLog2 .f32 .f32 = 0 := by decide
  rw [passSample_f32, h0, scaleSample_zero]
  have hne : ¬ (f64 = f32) := by decide
  have h1 : deinterleaveSample f64 .f32 b = Fmt.cvt f32 f64 b := by simp [deinterleaveSample, hne]
  have h2 : ∀ y, interleaveFloat f64 f32 y = Fmt.cvt f64 f32 y := by intro y; simp [interleaveFloat, hne]
  rw [h1, h2]
  by_cases hex : f32.exOf (f32.magOf b) = f32.expAll
  · by_cases hfr : f32.frOf (f32.magOf b) = 0
    · -- infinity
      have hc : Fmt.cvt f32 f64 b = f64.signBit (f32.negOf b) + f64.infMag := by unfold Fmt.cvt; simp [hex, hfr]
      obtain ⟨m1, m2⟩ := Fmt.magOf_sign f64 (f32.negOf b) f64.infMag (Fmt.infMag_lt f64 Fmt.wf64)
      have e1 : f64.exOf f64.infMag = f64.expAll := by decide
      have e2 : f64.frOf f64.infMag = 0 := by decide
      rw [Fmt.decode_cvt_inf f64 f32 Fmt.wf32 _ (by rw [hc, m1]; exact e1) (by rw [hc, m1]; exact e2)]
      rw [hc, Fmt.decode_sign_inf f64 Fmt.wf64]
      unfold Fmt.decode; simp [hex, hfr]
    · exfalso; apply hn; unfold Fmt.decode; simp [hex, hfr]
  · have hfin := finite_of_ex f32 _ hex (magOf_lt f32 b)
    have hrep32 := Fmt.decodeMag_rep f32 Fmt.wf32 _ hfin
    have hrep64 : Fmt.Rep f64 (f32.decodeMag (f32.magOf b)) := Fmt.Rep.widen hrep32 (by decide) (by decide) (by decide)
    obtain ⟨e1, e2⟩ := Fmt.roundMag_exact f64 Fmt.wf64 _ hrep64
    have hc := cvt_finite f32 f64 b hex
    obtain ⟨m1, m2⟩ := Fmt.magOf_sign f64 (f32.negOf b) _ (Nat.lt_trans e2 (Fmt.infMag_lt f64 Fmt.wf64))
    have back : f32.decode (Fmt.cvt f64 f32 (Fmt.cvt f32 f64 b)) = f64.decode (Fmt.cvt f32 f64 b) := by
      apply Fmt.decode_cvt_exact f64 f32 Fmt.wf32
      · rw [hc, m1]; exact e2
      · rw [hc, m1, e1]; exact hrep32
    rw [back]
    exact float_widen_exact b hn

end Soxr.Conv
