import SoxrModel.Conv.LemmasRound
/-! The kernels of `rint-clip.h` against the per-sample reference `convSample`:
    `RINT_CLIP`, the unrolled block with its flag test and fix-up, `LSX_RINT_CLIP`, `LSX_RINT_CLIP_2`. -/
namespace Soxr.Conv

/-! ## The reference -/

/-- the operands `src[i] DITHERING` a loop sees, the dither registers shifted from sample to sample. -/
def operands (c : Cfg) : List Val → Ran → List Val
  | [], _ => []
  | x :: xs, r => (operand c x r).1 :: operands c xs (operand c x r).2

/-- per-sample reference results. -/
def refOut (mx : Int) (ds : List Val) : List Int := ds.map fun d => (convSample mx d).1

/-- number of saturated samples. -/
def refClips (mx : Int) (ds : List Val) : Nat := ds.countP fun d => (convSample mx d).2

/-- operands of `k` unrolled blocks (registers re-drawn per block): operands, unconverted rest, seed. -/
def blockOperands (c : Cfg) : Nat → List Val → Seed → List Val × List Val × Seed
  | 0, xs, seed => ([], xs, seed)
  | k + 1, xs, seed =>
    let v := vars c seed
    let r := blockOperands c k (xs.drop Gen.unroll) v.2
    (operands c (xs.take Gen.unroll) v.1 ++ r.1, r.2.1, r.2.2)

/-- operands of a whole call of `LSX_RINT_CLIP` and the seed it leaves. -/
def kernelOperands (c : Cfg) (xs : List Val) (seed : Seed) : List Val × Seed :=
  let b := blockOperands c (numBlocks xs.length) xs seed
  let v := vars c b.2.2
  (b.1 ++ operands c b.2.1 v.1, v.2)

/-- operands of `LSX_RINT_CLIP_2`, channel by channel. -/
def kernelOperands2 (c : Cfg) : List (List Val) → Seed → List (List Val) × Seed
  | [], seed => ([], seed)
  | xs :: rest, seed =>
    let a := kernelOperands c xs seed
    let b := kernelOperands2 c rest a.2
    (a.1 :: b.1, b.2)

/-! ## `fistp` + fix-up = reference -/

theorem convSample_sat_value (mx : Int) (h : 0 ≤ mx) (d : Val) (hc : (convSample mx d).2 = true) :
    (convSample mx d).1 = if d.isPos then mx else -mx - 1 := by
  cases d with
  | fin x =>
    simp only [convSample] at hc ⊢
    by_cases h1 : mx < rhe x unit
    · simp only [h1, if_true]
      have hx : 0 < x := by
        rcases Int.lt_or_le 0 x with hx | hx
        · exact hx
        · have := rhe_nonpos x unit unit_pos hx
          omega
      simp [Val.isPos, hx]
    · simp only [h1, if_false] at hc ⊢
      by_cases h2 : rhe x unit < -mx - 1
      · simp only [h2, if_true]
        have hx : ¬ 0 < x := by
          intro hx
          have := rhe_nonneg x unit unit_pos (by omega)
          omega
        simp [Val.isPos, hx]
      · simp [h2] at hc
  | inf neg => cases neg <;> simp [convSample, Val.isPos]
  | nan => simp [convSample, Val.isPos]

theorem fist_eq (mx : Int) (v : Val) :
    fist mx v = (if (convSample mx v).2 then -mx - 1 else (convSample mx v).1, (convSample mx v).2) := by
  cases v with
  | fin x =>
    simp only [fist, convSample]
    by_cases h1 : mx < rhe x unit
    · have : ¬ (-mx - 1 ≤ rhe x unit ∧ rhe x unit ≤ mx) := by omega
      simp [h1, this]
    · by_cases h2 : rhe x unit < -mx - 1
      · have : ¬ (-mx - 1 ≤ rhe x unit ∧ rhe x unit ≤ mx) := by omega
        simp [h1, h2, this]
      · have : (-mx - 1 ≤ rhe x unit ∧ rhe x unit ≤ mx) := by omega
        simp [h1, h2, this]
  | inf neg => simp [fist, convSample]
  | nan => simp [fist, convSample]

/-- one iteration of `RINT_CLIP` entered with the invalid flag clear: the reference result, the flag clear again, the
    counter advanced iff the sample saturated. -/
theorem clipStep_clear (c : Cfg) (h : 0 ≤ c.mx) (d : Val) (n : Nat) :
    clipStep c d ⟨false, n⟩ = ((convSample c.mx d).1, ⟨false, n + if (convSample c.mx d).2 then 1 else 0⟩) := by
  unfold clipStep
  rw [fist_eq]
  by_cases hc : (convSample c.mx d).2 = true
  · simp [hc, convSample_sat_value c.mx h d hc]
  · simp [hc]

theorem rintClipLoop_clear (c : Cfg) (h : 0 ≤ c.mx) (xs : List Val) (r : Ran) (n : Nat) :
    rintClipLoop c xs r ⟨false, n⟩ =
      (refOut c.mx (operands c xs r), ⟨false, n + refClips c.mx (operands c xs r)⟩) := by
  induction xs generalizing r n with
  | nil => simp [rintClipLoop, operands, refOut, refClips]
  | cons x xs ih =>
    simp only [rintClipLoop, operands]
    rw [clipStep_clear c h]
    simp only [ih]
    simp only [refOut, refClips, List.map_cons, List.countP_cons]
    congr 2
    omega

/-- `DO_16`: the values `fistp` stored and the disjunction of the invalid exceptions (the flag is sticky). -/
theorem rawLoop_eq (c : Cfg) (xs : List Val) (r : Ran) (fl : Bool) :
    rawLoop c xs r fl =
      ((operands c xs r).map (fun d => (fist c.mx d).1), fl || (operands c xs r).any (fun d => (fist c.mx d).2)) := by
  induction xs generalizing r fl with
  | nil => simp [rawLoop, operands]
  | cons x xs ih =>
    simp only [rawLoop, operands]
    rw [ih]
    simp [Bool.or_assoc]

theorem no_invalid_ref (mx : Int) (ds : List Val) (h : ds.any (fun d => (fist mx d).2) = false) :
    ds.map (fun d => (fist mx d).1) = refOut mx ds ∧ refClips mx ds = 0 := by
  rw [List.any_eq_false] at h
  constructor
  · apply List.map_congr_left
    intro d hd
    have := h d hd
    rw [fist_eq] at this ⊢
    simp at this
    simp [this]
  · unfold refClips
    rw [List.countP_eq_zero]
    intro d hd
    have := h d hd
    rw [fist_eq] at this
    simpa using this

/-- One iteration of the unrolled loop (flag clear on entry) is the reference on its samples: either no `fistp` raised
    invalid, and then nothing saturates; or the block is redone by `RINT_CLIP` from the saved seed. -/
theorem block_clear (c : Cfg) (h : 0 ≤ c.mx) (xs : List Val) (seed : Seed) (n : Nat) :
    block c xs seed ⟨false, n⟩ =
      (refOut c.mx (operands c xs (vars c seed).1), (vars c seed).2,
        ⟨false, n + refClips c.mx (operands c xs (vars c seed).1)⟩) := by
  unfold block
  simp only [rawLoop_eq, Bool.false_or]
  by_cases hany : (operands c xs (vars c seed).1).any (fun d => (fist c.mx d).2) = true
  · simp only [hany, if_true, rintClip, rintClipLoop_clear c h]
  · have hany : (operands c xs (vars c seed).1).any (fun d => (fist c.mx d).2) = false := by simpa using hany
    obtain ⟨h1, h2⟩ := no_invalid_ref c.mx _ hany
    simp [hany, h1, h2]

theorem refOut_append (mx : Int) (a b : List Val) : refOut mx (a ++ b) = refOut mx a ++ refOut mx b := by
  simp [refOut]

theorem refClips_append (mx : Int) (a b : List Val) : refClips mx (a ++ b) = refClips mx a + refClips mx b := by
  simp [refClips, List.countP_append]

theorem blocks_clear (c : Cfg) (h : 0 ≤ c.mx) (k : Nat) (xs : List Val) (seed : Seed) (n : Nat) :
    blocks c k xs seed ⟨false, n⟩ =
      (refOut c.mx (blockOperands c k xs seed).1, (blockOperands c k xs seed).2.1, (blockOperands c k xs seed).2.2,
        ⟨false, n + refClips c.mx (blockOperands c k xs seed).1⟩) := by
  induction k generalizing xs seed n with
  | zero => simp [blocks, blockOperands, refOut, refClips]
  | succ k ih =>
    simp only [blocks, blockOperands]
    rw [block_clear c h]
    simp only [ih, refOut_append, refClips_append]
    congr 4
    omega

/-- **`LSX_RINT_CLIP` ≡ per-sample reference** (flag clear on entry): for every input list, seed and counter value the
    unrolled loop with its fix-up path followed by the tail computes the reference conversion of every operand, leaves the
    flag clear and advances the counter by exactly the number of saturated samples. -/
theorem lsxRintClip_clear (c : Cfg) (h : 0 ≤ c.mx) (xs : List Val) (seed : Seed) (n : Nat) :
    lsxRintClip c xs seed ⟨false, n⟩ =
      (refOut c.mx (kernelOperands c xs seed).1, (kernelOperands c xs seed).2,
        ⟨false, n + refClips c.mx (kernelOperands c xs seed).1⟩) := by
  unfold lsxRintClip kernelOperands
  simp only [blocks_clear c h, rintClip, rintClipLoop_clear c h, refOut_append, refClips_append]
  congr 3
  omega

/-- the strided kernel: channel by channel. -/
theorem lsxRintClip2_clear (c : Cfg) (h : 0 ≤ c.mx) (chans : List (List Val)) (seed : Seed) (n : Nat) :
    lsxRintClip2 c chans seed ⟨false, n⟩ =
      ((kernelOperands2 c chans seed).1.map (refOut c.mx), (kernelOperands2 c chans seed).2,
        ⟨false, n + ((kernelOperands2 c chans seed).1.map (refClips c.mx)).sum⟩) := by
  induction chans generalizing seed n with
  | nil => simp [lsxRintClip2, kernelOperands2]
  | cons xs rest ih =>
    simp only [lsxRintClip2, kernelOperands2]
    rw [lsxRintClip_clear c h]
    simp only [ih, List.map_cons, List.sum_cons]
    congr 3
    omega

/-! ## Without dither the operands are the samples themselves -/

theorem operands_nodith (c : Cfg) (hd : c.dith = false) (xs : List Val) (r : Ran) : operands c xs r = xs := by
  induction xs generalizing r with
  | nil => rfl
  | cons x xs ih => simp [operands, operand, hd, ih]

theorem vars_nodith (c : Cfg) (hd : c.dith = false) (seed : Seed) : (vars c seed).2 = seed := by
  simp [vars, hd]

theorem blockOperands_nodith (c : Cfg) (hd : c.dith = false) (k : Nat) (xs : List Val) (seed : Seed) :
    (blockOperands c k xs seed).1 ++ (blockOperands c k xs seed).2.1 = xs ∧ (blockOperands c k xs seed).2.2 = seed := by
  induction k generalizing xs seed with
  | zero => simp [blockOperands]
  | succ k ih =>
    simp only [blockOperands, operands_nodith c hd, vars_nodith c hd]
    obtain ⟨h1, h2⟩ := ih (xs.drop Gen.unroll) seed
    refine ⟨?_, h2⟩
    rw [List.append_assoc, h1, List.take_append_drop]

theorem kernelOperands_nodith (c : Cfg) (hd : c.dith = false) (xs : List Val) (seed : Seed) :
    kernelOperands c xs seed = (xs, seed) := by
  unfold kernelOperands
  obtain ⟨h1, h2⟩ := blockOperands_nodith c hd (numBlocks xs.length) xs seed
  simp only [operands_nodith c hd, vars_nodith c hd, h1, h2]

theorem kernelOperands2_nodith (c : Cfg) (hd : c.dith = false) (chans : List (List Val)) (seed : Seed) :
    kernelOperands2 c chans seed = (chans, seed) := by
  induction chans generalizing seed with
  | nil => rfl
  | cons xs rest ih => simp [kernelOperands2, kernelOperands_nodith c hd, ih]

/-! ## With dither every operand is its sample plus `k / 32`, `|k| ≤ 31` (shown in `LemmasDither`) -/

/-- pointwise relation of two lists. -/
inductive Rel₂ {α β : Type} (R : α → β → Prop) : List α → List β → Prop
  | nil : Rel₂ R [] []
  | cons {a b as bs} : R a b → Rel₂ R as bs → Rel₂ R (a :: as) (b :: bs)

theorem Rel₂.append {α β : Type} {R : α → β → Prop} {a₁ a₂ : List α} {b₁ b₂ : List β}
    (h₁ : Rel₂ R a₁ b₁) (h₂ : Rel₂ R a₂ b₂) : Rel₂ R (a₁ ++ a₂) (b₁ ++ b₂) := by
  induction h₁ with
  | nil => simpa using h₂
  | cons h _ ih => exact Rel₂.cons h ih

theorem Rel₂.length_eq {α β : Type} {R : α → β → Prop} {a : List α} {b : List β} (h : Rel₂ R a b) :
    a.length = b.length := by
  induction h with
  | nil => rfl
  | cons _ _ ih => simp [ih]

theorem Rel₂.get {α β : Type} {R : α → β → Prop} {a : List α} {b : List β} (h : Rel₂ R a b)
    (i : Nat) (ha : i < a.length) (hb : i < b.length) : R a[i] b[i] := by
  induction h generalizing i with
  | nil => simp at ha
  | cons h0 _ ih =>
    cases i with
    | zero => simpa using h0
    | succ i => simpa using ih i (by simpa using ha) (by simpa using hb)

theorem Rel₂.refl_of {α : Type} {R : α → α → Prop} (hr : ∀ a, R a a) (l : List α) : Rel₂ R l l := by
  induction l with
  | nil => exact Rel₂.nil
  | cons a l ih => exact Rel₂.cons (hr a) ih

/-- a relation every single `operand` satisfies lifts to a whole call. -/
theorem operands_rel (c : Cfg) (R : Val → Val → Prop) (hR : ∀ x r, R x (operand c x r).1) (xs : List Val) (r : Ran) :
    Rel₂ R xs (operands c xs r) := by
  induction xs generalizing r with
  | nil => exact Rel₂.nil
  | cons x xs ih => exact Rel₂.cons (hR x r) (ih _)

theorem blockOperands_rel (c : Cfg) (R : Val → Val → Prop) (hR : ∀ x r, R x (operand c x r).1)
    (k : Nat) (xs : List Val) (seed : Seed) :
    ∃ pre, xs = pre ++ (blockOperands c k xs seed).2.1 ∧ Rel₂ R pre (blockOperands c k xs seed).1 := by
  induction k generalizing xs seed with
  | zero => exact ⟨[], by simp [blockOperands], Rel₂.nil⟩
  | succ k ih =>
    obtain ⟨pre, h1, h2⟩ := ih (xs.drop Gen.unroll) (vars c seed).2
    refine ⟨xs.take Gen.unroll ++ pre, ?_, ?_⟩
    · simp only [blockOperands]
      rw [List.append_assoc, ← h1, List.take_append_drop]
    · simp only [blockOperands]
      exact Rel₂.append (operands_rel c R hR _ _) h2

theorem kernelOperands_rel (c : Cfg) (R : Val → Val → Prop) (hR : ∀ x r, R x (operand c x r).1)
    (xs : List Val) (seed : Seed) : Rel₂ R xs (kernelOperands c xs seed).1 := by
  unfold kernelOperands
  obtain ⟨pre, h1, h2⟩ := blockOperands_rel c R hR (numBlocks xs.length) xs seed
  have := Rel₂.append h2 (operands_rel c R hR (blockOperands c (numBlocks xs.length) xs seed).2.1
    (vars c (blockOperands c (numBlocks xs.length) xs seed).2.2).1)
  rw [← h1] at this
  exact this

end Soxr.Conv
