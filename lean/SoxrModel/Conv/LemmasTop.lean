import SoxrModel.Conv.LemmasDither
/-! `_soxr_interleave(_f)` as a whole: integer outputs against the per-sample specification, the seed, the index maps. -/
set_option exponentiation.threshold 4096
namespace Soxr.Conv
def iter {α : Type} (f : α → α) : Nat → α → α
  | 0, a => a
  | n + 1, a => iter f n (f a)

theorem vars_dith (c : Cfg) (hd : c.dith = true) (seed : Seed) : (vars c seed).2 = lcg (lcg seed) := by
  simp [vars, hd, ditherVars]

theorem blockOperands_succ (c : Cfg) (k : Nat) (xs : List Val) (seed : Seed) :
    (blockOperands c (k + 1) xs seed).2.2 = (blockOperands c k (xs.drop Gen.unroll) (vars c seed).2).2.2 := by
  rw [blockOperands]

theorem blockOperands_seed (c : Cfg) (hd : c.dith = true) (k : Nat) (xs : List Val) (seed : Seed) :
    (blockOperands c k xs seed).2.2 = iter (fun s => lcg (lcg s)) k seed := by
  induction k generalizing xs seed with
  | zero => rfl
  | succ k ih => rw [blockOperands_succ, ih, vars_dith c hd, iter]

theorem iter_succ_out {α : Type} (f : α → α) (k : Nat) (a : α) : iter f (k + 1) a = f (iter f k a) := by
  induction k generalizing a with
  | zero => rfl
  | succ k ih => exact ih (f a)

theorem kernelOperands_eq (c : Cfg) (xs : List Val) (seed : Seed) :
    (kernelOperands c xs seed).2 = (vars c (blockOperands c (numBlocks xs.length) xs seed).2.2).2 := rfl

/-- **the dithered kernel advances the seed by exactly two LCG steps per unrolled block plus two for the tail**
    (also when the tail, or the whole call, is empty). -/
theorem kernelOperands_seed (c : Cfg) (hd : c.dith = true) (xs : List Val) (seed : Seed) :
    (kernelOperands c xs seed).2 = iter (fun s => lcg (lcg s)) (numBlocks xs.length + 1) seed := by
  rw [kernelOperands_eq]
  generalize numBlocks xs.length = k
  rw [vars_dith c hd, blockOperands_seed c hd, iter_succ_out]

/-! ## index maps -/

theorem interleaveLists_single {α : Type} [Inhabited α] (l : List α) : interleaveLists [l] l.length = l := by
  induction l with
  | nil => rfl
  | cons a l ih => simp [interleaveLists, ih]

/-- memory order of the strided kernel: element `i * ch + j` of the output is sample `i` of channel `j`. -/
theorem interleaveLists_get {α : Type} [Inhabited α] (chans : List (List α)) (n : Nat)
    (hlen : ∀ c ∈ chans, c.length = n) (i j : Nat) (hi : i < n) (hj : j < chans.length) :
    (interleaveLists chans n)[i * chans.length + j]? = (chans[j]?).bind (·[i]?) := by
  induction n generalizing chans i with
  | zero => omega
  | succ n ih =>
    simp only [interleaveLists]
    have hl : (chans.map (·.headD default)).length = chans.length := by simp
    cases i with
    | zero =>
      rw [List.getElem?_append_left (by simp; omega)]
      simp only [Nat.zero_mul, Nat.zero_add, List.getElem?_map]
      cases hc : chans[j]? with
      | none => simp
      | some c =>
        have hmem : c ∈ chans := List.mem_of_getElem? hc
        have := hlen c hmem
        cases c with
        | nil => simp at this
        | cons a c => simp
    | succ i =>
      rw [List.getElem?_append_right (by rw [hl, Nat.succ_mul]; omega)]
      rw [hl]
      have e : (i + 1) * chans.length + j - chans.length = i * (chans.map List.tail).length + j := by
        rw [Nat.succ_mul]; simp; omega
      rw [e, ih (chans.map List.tail) (by
        intro c hc
        rw [List.mem_map] at hc
        obtain ⟨c', hc', rfl⟩ := hc
        have := hlen c' hc'
        simp [this]) i (by omega) (by simpa using hj)]
      simp only [List.getElem?_map]
      cases hc : chans[j]? with
      | none => simp
      | some c =>
        cases c with
        | nil => simp
        | cons a c => simp

/-! ## `_soxr_interleave(_f)` for the integer output types -/

/-- per-sample specification of integer output without dither: every sample converted by the reference, in the memory
    order of `n` interleaved frames; the number of saturated samples. -/
def specInt (eng : Fmt) (t : DType) (chans : List (List Nat)) (n : Nat) : List Nat × Nat :=
  ((interleaveLists (chans.map fun c => c.map fun b => (convSample (rintMax t) (eng.decode b)).1) n).map (ofSigned t.bits),
   (chans.map fun c => c.countP fun b => (convSample (rintMax t) (eng.decode b)).2).sum)

theorem rintMax_nonneg (t : DType) : 0 ≤ rintMax t := by cases t <;> decide

theorem refOut_map (mx : Int) (f : Nat → Val) (c : List Nat) :
    refOut mx (c.map f) = c.map fun b => (convSample mx (f b)).1 := by
  simp [refOut, List.map_map, Function.comp_def]

theorem refClips_map (mx : Int) (f : Nat → Val) (c : List Nat) :
    refClips mx (c.map f) = c.countP fun b => (convSample mx (f b)).2 := by
  simp [refClips, List.countP_map, Function.comp_def]

/-- **`_soxr_interleave(_f)` to an integer type without dither** (int32 always; int16 under `SOXR_NO_DITHER`), invalid flag
    clear on entry: for every engine precision, channel count, length and input the output is the per-sample reference in
    interleaved order, the clip count is exactly the number of saturated samples, the seed is not touched, the flag is
    clear again — whichever kernel variant (`LSX_RINT_CLIP` for one channel, `LSX_RINT_CLIP_2` otherwise) runs. -/
theorem interleaveInt_nodither (eng : Fmt) (t : DType) (chans : List (List Nat)) (n : Nat)
    (hlen : ∀ c ∈ chans, c.length = n) (dith : Bool) (hd : dith = false ∨ t ≠ .i16) (seed : Seed) :
    interleaveInt eng t chans n dith seed false =
      ⟨(specInt eng t chans n).1, (specInt eng t chans n).2, seed, false⟩ := by
  have hc : (dith && decide (t = .i16)) = false := by
    rcases hd with h | h
    · simp [h]
    · simp [h]
  have hmx := rintMax_nonneg t
  unfold interleaveInt
  generalize hcfg : (⟨rintMax t, dith && decide (t = .i16)⟩ : Cfg) = c
  have hcd : c.dith = false := by rw [← hcfg]; exact hc
  have hcm : 0 ≤ c.mx := by rw [← hcfg]; exact hmx
  have hcx : c.mx = rintMax t := by rw [← hcfg]
  cases chans with
  | nil =>
    simp only [List.map_nil, lsxRintClip2, specInt]
    simp
  | cons c0 rest =>
    cases rest with
    | nil =>
      simp only [List.map_cons, List.map_nil]
      rw [lsxRintClip_clear c hcm, kernelOperands_nodith c hcd]
      have hn : c0.length = n := hlen c0 (by simp)
      simp only [specInt, List.map_cons, List.map_nil, List.sum_cons, List.sum_nil, Nat.add_zero, Nat.zero_add]
      have e1 : refOut c.mx (c0.map eng.decode) = c0.map fun b => (convSample (rintMax t) (eng.decode b)).1 := by
        rw [hcx]; exact refOut_map _ _ _
      have e2 : refClips c.mx (c0.map eng.decode) = c0.countP fun b => (convSample (rintMax t) (eng.decode b)).2 := by
        rw [hcx]; exact refClips_map _ _ _
      rw [e1, e2]
      have e3 := interleaveLists_single (c0.map fun b => (convSample (rintMax t) (eng.decode b)).1)
      rw [List.length_map, hn] at e3
      rw [e3]
    | cons c1 rest =>
      simp only [List.map_cons]
      rw [lsxRintClip2_clear c hcm, kernelOperands2_nodith c hcd]
      simp only [specInt, List.map_cons, List.map_map, Nat.zero_add]
      have e1 : ∀ l : List Nat, refOut c.mx (l.map eng.decode) = l.map fun b => (convSample (rintMax t) (eng.decode b)).1 := by
        intro l; rw [hcx]; exact refOut_map _ _ _
      have e2 : ∀ l : List Nat, refClips c.mx (l.map eng.decode) = l.countP fun b => (convSample (rintMax t) (eng.decode b)).2 := by
        intro l; rw [hcx]; exact refClips_map _ _ _
      simp only [e1, e2, Function.comp_def]

theorem interleave_int_nodither (eng : Fmt) (t : DType) (ht : t = .i32 ∨ t = .i16) (chans : List (List Nat)) (n : Nat)
    (hlen : ∀ c ∈ chans, c.length = n) (dith : Bool) (hd : dith = false ∨ t = .i32) (seed : Seed) :
    let r := interleave eng t chans n dith seed false
    r.out = (specInt eng t chans n).1 ∧ r.clips = (specInt eng t chans n).2 ∧ r.seed = seed ∧ r.flag = false := by
  have hd' : dith = false ∨ t ≠ .i16 := by
    rcases hd with h | h
    · exact Or.inl h
    · exact Or.inr (by rw [h]; decide)
  have := interleaveInt_nodither eng t chans n hlen dith hd' seed
  have e : interleave eng t chans n dith seed false = interleaveInt eng t chans n dith seed false := by
    rcases ht with h | h <;> subst h <;> rfl
  intro r
  show (interleave eng t chans n dith seed false).out = _ ∧ (interleave eng t chans n dith seed false).clips = _ ∧
    (interleave eng t chans n dith seed false).seed = _ ∧ (interleave eng t chans n dith seed false).flag = _
  rw [e, this]
  exact ⟨rfl, rfl, rfl, rfl⟩

end Soxr.Conv
