import SoxrModel.Conv.LemmasDither
/-! `_soxr_interleave(_f)` as a whole: integer outputs against the per-sample specification, the seed, the index maps. -/
set_option exponentiation.threshold 4096
namespace Soxr.Conv

/-! ## the seed -/

/-- `f` applied `n` times. -/
def iter {α : Type} (f : α → α) : Nat → α → α
  | 0, a => a
  | n + 1, a => iter f n (f a)

theorem vars_dith (c : Cfg) (hd : c.dith = true) (seed : Seed) : (vars c seed).2 = lcg (lcg seed) := by
  simp [vars, hd, ditherVars]

theorem blockOperands_seed (c : Cfg) (hd : c.dith = true) (k : Nat) (xs : List Val) (seed : Seed) :
    (blockOperands c k xs seed).2.2 = iter (fun s => lcg (lcg s)) k seed := by
  induction k generalizing xs seed with
  | zero => rfl
  | succ k ih => simp only [blockOperands, iter, ih, vars_dith c hd]

/-- **the dithered kernel advances the seed by exactly two LCG steps per unrolled block plus two for the tail**
    (also when the tail, or the whole call, is empty). -/
theorem kernelOperands_seed (c : Cfg) (hd : c.dith = true) (xs : List Val) (seed : Seed) :
    (kernelOperands c xs seed).2 = iter (fun s => lcg (lcg s)) (numBlocks xs.length + 1) seed := by
  have h : ∀ k s, iter (fun s => lcg (lcg s)) (k + 1) s = lcg (lcg (iter (fun s => lcg (lcg s)) k s)) := by
    intro k
    induction k with
    | zero => intro s; rfl
    | succ k ih => intro s; exact ih (lcg (lcg s))
  unfold kernelOperands
  simp only [vars_dith c hd, blockOperands_seed c hd, h]

/-! ## index maps -/

theorem interleaveLists_single {α : Type} [Inhabited α] (l : List α) : interleaveLists [l] l.length = l := by
  induction l with
  | nil => rfl
  | cons a l ih => simp [interleaveLists, ih]

/-- memory order of the strided kernel: element `i * ch + j` of the output is sample `i` of channel `j`. -/
theorem interleaveLists_get {α : Type} [Inhabited α] (chans : List (List α)) (n : Nat)
    (hlen : ∀ c ∈ chans, c.length = n) (i j : Nat) (hi : i < n) (hj : j < chans.length) :
    (interleaveLists chans n)[i * chans.length + j]? = (chans[j]?).bind (·[i]?) := by
  induction n generalizing chans i with
  | zero => omega
  | succ n ih =>
    simp only [interleaveLists]
    have hl : (chans.map (·.headD default)).length = chans.length := by simp
    cases i with
    | zero =>
      rw [List.getElem?_append_left (by simp; omega)]
      simp only [Nat.zero_mul, Nat.zero_add, List.getElem?_map]
      cases hc : chans[j]? with
      | none => simp
      | some c =>
        have hmem : c ∈ chans := List.mem_of_getElem? hc
        have := hlen c hmem
        cases c with
        | nil => simp at this
        | cons a c => simp
    | succ i =>
      rw [List.getElem?_append_right (by rw [hl, Nat.succ_mul]; omega)]
      rw [hl]
      have e : (i + 1) * chans.length + j - chans.length = i * (chans.map List.tail).length + j := by
        rw [Nat.succ_mul]; simp; omega
      rw [e, ih (chans.map List.tail) (by
        intro c hc
        rw [List.mem_map] at hc
        obtain ⟨c', hc', rfl⟩ := hc
        have := hlen c' hc'
        simp [this]) i (by omega) (by simpa using hj)]
      simp only [List.getElem?_map]
      cases hc : chans[j]? with
      | none => simp
      | some c =>
        cases c with
        | nil => simp
        | cons a c => simp

/-! ## `_soxr_interleave(_f)` for the integer output types -/

/-- per-sample specification of integer output without dither: every sample converted by the reference, in the memory
    order of `n` interleaved frames; the number of saturated samples. -/
def specInt (eng : Fmt) (t : DType) (chans : List (List Nat)) (n : Nat) : List Nat × Nat :=
  ((interleaveLists (chans.map fun c => c.map fun b => (convSample (rintMax t) (eng.decode b)).1) n).map (ofSigned t.bits),
   (chans.map fun c => c.countP fun b => (convSample (rintMax t) (eng.decode b)).2).sum)

theorem rintMax_nonneg (t : DType) : 0 ≤ rintMax t := by cases t <;> decide

theorem refOut_map (mx : Int) (f : Nat → Val) (c : List Nat) :
    refOut mx (c.map f) = c.map fun b => (convSample mx (f b)).1 := by
  simp [refOut, List.map_map, Function.comp_def]

theorem refClips_map (mx : Int) (f : Nat → Val) (c : List Nat) :
    refClips mx (c.map f) = c.countP fun b => (convSample mx (f b)).2 := by
  simp [refClips, List.countP_map, Function.comp_def]

/-- **`_soxr_interleave(_f)` to an integer type without dither** (int32 always; int16 under `SOXR_NO_DITHER`), invalid flag
    clear on entry: for every engine precision, channel count, length and input the output is the per-sample reference in
    interleaved order, the clip count is exactly the number of saturated samples, the seed is not touched, the flag is
    clear again — whichever kernel variant (`LSX_RINT_CLIP` for one channel, `LSX_RINT_CLIP_2` otherwise) runs. -/
theorem interleave_int_nodither (eng : Fmt) (t : DType) (ht : t = .i32 ∨ t = .i16) (chans : List (List Nat)) (n : Nat)
    (hlen : ∀ c ∈ chans, c.length = n) (dith : Bool) (hd : dith = false ∨ t = .i32) (seed : Seed) :
    let r := interleave eng t chans n dith seed false
    r.out = (specInt eng t chans n).1 ∧ r.clips = (specInt eng t chans n).2 ∧ r.seed = seed ∧ r.flag = false := by
  have hc : (dith && decide (t = .i16)) = false := by
    rcases hd with h | h
    · simp [h]
    · subst h; simp
  have hmx := rintMax_nonneg t
  have key : ∀ (vals : List (List Val)), vals = chans.map (fun ch => ch.map eng.decode) →
      let c : Cfg := ⟨rintMax t, dith && decide (t = .i16)⟩
      (match vals with
        | [xs] =>
          let (os, seed', st) := lsxRintClip c xs seed ⟨false, 0⟩
          (⟨os.map (ofSigned t.bits), st.clips, seed', st.flag⟩ : IlResult)
        | _ =>
          let (oss, seed', st) := lsxRintClip2 c vals seed ⟨false, 0⟩
          ⟨(interleaveLists oss n).map (ofSigned t.bits), st.clips, seed', st.flag⟩) =
      ⟨(specInt eng t chans n).1, (specInt eng t chans n).2, seed, false⟩ := by
    intro vals hv c
    have hcd : c.dith = false := hc
    have hcm : 0 ≤ c.mx := hmx
    cases chans with
    | nil =>
      subst hv
      simp only [List.map_nil, lsxRintClip2, specInt]
      simp
    | cons c0 rest =>
      cases rest with
      | nil =>
        subst hv
        simp only [List.map_cons, List.map_nil]
        rw [lsxRintClip_clear c hcm, kernelOperands_nodith c hcd]
        have hn : c0.length = n := hlen c0 (by simp)
        simp only [specInt, List.map_cons, List.map_nil, List.sum_cons, List.sum_nil, Nat.add_zero, Nat.zero_add]
        have e1 : refOut c.mx (c0.map eng.decode) = c0.map fun b => (convSample (rintMax t) (eng.decode b)).1 :=
          refOut_map _ _ _
        have e2 : refClips c.mx (c0.map eng.decode) = c0.countP fun b => (convSample (rintMax t) (eng.decode b)).2 :=
          refClips_map _ _ _
        rw [e1, e2]
        have e3 := interleaveLists_single (c0.map fun b => (convSample (rintMax t) (eng.decode b)).1)
        rw [List.length_map, hn] at e3
        rw [e3]
      | cons c1 rest =>
        subst hv
        simp only [List.map_cons]
        rw [lsxRintClip2_clear c hcm, kernelOperands2_nodith c hcd]
        simp only [specInt, List.map_cons, List.map_map, Nat.zero_add]
        have e1 : ∀ l : List Nat, refOut c.mx (l.map eng.decode) = l.map fun b => (convSample (rintMax t) (eng.decode b)).1 :=
          fun l => refOut_map _ _ _
        have e2 : ∀ l : List Nat, refClips c.mx (l.map eng.decode) = l.countP fun b => (convSample (rintMax t) (eng.decode b)).2 :=
          fun l => refClips_map _ _ _
        simp only [e1, e2, Function.comp_def]
  rcases ht with h | h <;> subst h
  · have := key _ rfl
    simp only [interleave]
    rw [this]
    simp
  · have := key _ rfl
    simp only [interleave]
    rw [this]
    simp

end Soxr.Conv
