import SoxrModel.Conv.Generated
/-!
# Model of the format-conversion code of libsoxr (`data-io.c`, `rint-clip.h`, `rint.h`, the array helpers of `soxr-lsr.c`)

Core Lean only (the line-protocol driver `soxr_conv` links this file).

* Every finite IEEE-754 binary32 / binary64 value is an integer number of **units** of `2^-1074` (the least subnormal
  `double`), so all arithmetic of the model is exact integer arithmetic: `Val.fin x` is the real number `x · 2^-1074`.
* `Fmt.decode` maps a bit pattern to its exact value, `Fmt.roundMag` rounds an exact magnitude to the format
  (round-to-nearest, ties to even, gradual underflow, overflow to infinity) and yields the bit pattern.
* `fist` is the x87 `fistp` instruction as `rint.h` uses it: round to nearest even in the current (default) rounding mode;
  if the rounded value does not fit the destination — or the operand is an infinity or a NaN — the *integer indefinite*
  (the most negative integer) is stored and the sticky invalid-operation flag of the x87 status word is set.
* `rintClip` is the per-sample loop `RINT_CLIP` of `rint-clip.h` (store, test the flag, fix up, count), `lsxRintClip` the
  function `LSX_RINT_CLIP` with its 16-way unrolled body (`DO_16`), the flag test per block, the re-run of the block
  through `RINT_CLIP` and the tail; `lsxRintClip2` the strided multi-channel variant `LSX_RINT_CLIP_2`.  The dithered
  variants draw `ran1`, `ran2` from the 64-bit LCG once per block and once for the tail, as written.
* `deinterleaveSample` / `interleaveFloat` are the casts of `DEINTERLEAVE_FROM` / `INTERLEAVE_TO` as SSE2 performs them
  (`cvtss2sd`, `cvtsd2ss`, `cvtsi2ss`, `cvtsi2sd`; a same-type copy preserves the bits).

Assumptions of this x86-64 build (observed on the real code by the correspondence harness on every run):
`unsigned long` has 64 bits; `double` arithmetic is SSE2 (one rounding to binary64 per operation); the x87 control word is
the default one (round to nearest even, 64-bit precision); `fistp` of NaN / ±Inf / out-of-range stores the integer
indefinite and sets IE; NaN conversions set the quiet bit and shift / truncate the payload.
-/
namespace Soxr.Conv

/-! ## Exact values -/

/-- binary64's least subnormal is `2^-U`; every finite value of the model is an integer multiple of it. -/
def U : Nat := 1074

/-- `1.0` in units. -/
def unit : Nat := 2 ^ U

/-- A floating-point operand: a finite value `x · 2^-1074`, an infinity, or a NaN. -/
inductive Val where
  | fin (x : Int)
  | inf (neg : Bool)
  | nan
deriving DecidableEq, Repr, Inhabited

/-- C's `d > 0` on a floating-point operand (false for NaN). -/
def Val.isPos : Val → Bool
  | .fin x => decide (0 < x)
  | .inf neg => !neg
  | .nan => false

/-- Round-half-even of the rational `x / d` (`d > 0`): floor quotient, remainder compared with `d / 2`, ties to the even
    neighbour.  This is what `fistp` (default rounding mode) and IEEE round-to-nearest do. -/
def rhe (x : Int) (d : Nat) : Int :=
  let q := x / (d : Int)
  let r := x % (d : Int)
  if 2 * r < d then q else if (d : Int) < 2 * r then q + 1 else if q % 2 = 0 then q else q + 1

/-- the same on naturals. -/
def rheNat (n d : Nat) : Nat := (rhe (n : Int) d).toNat

/-! ## IEEE-754 interchange formats -/

/-- `p` significand bits (hidden bit included), `w` exponent-field bits, least subnormal `= 2^sh` units. -/
structure Fmt where
  p : Nat
  w : Nat
  sh : Nat
deriving DecidableEq, Repr

/-- binary32: least subnormal `2^-149 = 2^925` units. -/
def f32 : Fmt := ⟨24, 8, 925⟩
/-- binary64. -/
def f64 : Fmt := ⟨53, 11, 0⟩

namespace Fmt

/-- number of fraction bits. -/
def fb (f : Fmt) : Nat := f.p - 1
/-- the all-ones exponent field (infinities and NaNs). -/
def expAll (f : Fmt) : Nat := 2 ^ f.w - 1
/-- width of the format. -/
def bits (f : Fmt) : Nat := f.fb + f.w + 1
/-- the pattern without its sign bit. -/
def magOf (f : Fmt) (b : Nat) : Nat := b % 2 ^ (f.fb + f.w)
def negOf (f : Fmt) (b : Nat) : Bool := b / 2 ^ (f.fb + f.w) % 2 = 1
def exOf (f : Fmt) (mag : Nat) : Nat := mag / 2 ^ f.fb
def frOf (f : Fmt) (mag : Nat) : Nat := mag % 2 ^ f.fb
def signBit (f : Fmt) (neg : Bool) : Nat := if neg then 2 ^ (f.fb + f.w) else 0
/-- magnitude bits of infinity. -/
def infMag (f : Fmt) : Nat := f.expAll * 2 ^ f.fb
/-- the quiet bit of a NaN. -/
def quietBit (f : Fmt) : Nat := 2 ^ (f.fb - 1)

def isNaN (f : Fmt) (b : Nat) : Bool := f.exOf (f.magOf b) = f.expAll && f.frOf (f.magOf b) ≠ 0
def isInf (f : Fmt) (b : Nat) : Bool := f.exOf (f.magOf b) = f.expAll && f.frOf (f.magOf b) = 0

/-- exact magnitude, in units, of a finite pattern (sign stripped). -/
def decodeMag (f : Fmt) (mag : Nat) : Nat :=
  (if f.exOf mag = 0 then f.frOf mag else (2 ^ f.fb + f.frOf mag) * 2 ^ (f.exOf mag - 1)) * 2 ^ f.sh

/-- exact value of a bit pattern. -/
def decode (f : Fmt) (b : Nat) : Val :=
  let mag := f.magOf b
  if f.exOf mag = f.expAll then (if f.frOf mag = 0 then .inf (f.negOf b) else .nan)
  else .fin (if f.negOf b then -(f.decodeMag mag : Int) else (f.decodeMag mag : Int))

/-- exponent (in units) of the spacing of the format around a magnitude of `N` units: `max (⌊log2 N⌋ + 1 - p) sh`. -/
def ulpExp (f : Fmt) (N : Nat) : Nat := max (N.log2 + 1 - f.p) f.sh

/-- magnitude bits of `N` units rounded to the format: round to nearest, ties to even; gradual underflow; overflow to
    infinity.  (`(s - sh) * 2^fb + M` is the encoding for subnormal and normal results alike, carry included.) -/
def roundMag (f : Fmt) (N : Nat) : Nat :=
  let s := f.ulpExp N
  let b := (s - f.sh) * 2 ^ f.fb + rheNat N (2 ^ s)
  if f.infMag ≤ b then f.infMag else b

/-- SSE2 `cvtss2sd` / `cvtsd2ss`: convert a pattern of format `a` to format `b` (value rounded to nearest even; the sign of
    zero and of NaN kept; NaN: quiet bit set, payload shifted or truncated). -/
def cvt (a b : Fmt) (x : Nat) : Nat :=
  let mag := a.magOf x
  let sgn := b.signBit (a.negOf x)
  if a.exOf mag = a.expAll then
    if a.frOf mag = 0 then sgn + b.infMag
    else sgn + b.infMag + ((if a.fb ≤ b.fb then a.frOf mag * 2 ^ (b.fb - a.fb) else a.frOf mag / 2 ^ (a.fb - b.fb)) ||| b.quietBit)
  else sgn + b.roundMag (a.decodeMag mag)

/-- SSE2 `cvtsi2ss` / `cvtsi2sd`: an integer to the format (rounded to nearest even; `0` gives `+0`). -/
def ofInt (f : Fmt) (v : Int) : Nat := f.signBit (decide (v < 0)) + f.roundMag (v.natAbs * unit)

/-- a finite exact value (in units) to the format, rounded (`neg` supplies the sign of a zero result). -/
def ofUnits (f : Fmt) (x : Int) : Nat := f.signBit (decide (x < 0)) + f.roundMag x.natAbs

end Fmt

/-- two's-complement reading of a `bits`-bit pattern. -/
def toSigned (bits : Nat) (b : Nat) : Int :=
  let m := b % 2 ^ bits
  if m < 2 ^ (bits - 1) then (m : Int) else (m : Int) - (2 ^ bits : Nat)

/-- two's-complement pattern of an integer. -/
def ofSigned (bits : Nat) (v : Int) : Nat := (v % ((2 ^ bits : Nat) : Int)).toNat

/-! ## `fistp` and the clip fix-up -/

/-- `fistp` to an integer type with largest value `mx` (`RINT(dest, d)`): the value stored and whether the
    invalid-operation exception was raised. -/
def fist (mx : Int) : Val → Int × Bool
  | .fin x =>
    let r := rhe x unit
    if -mx - 1 ≤ r ∧ r ≤ mx then (r, false) else (-mx - 1, true)
  | _ => (-mx - 1, true)

/-- the x87 invalid flag and the clip counter. -/
structure St where
  flag : Bool
  clips : Nat
deriving DecidableEq, Repr

/-- The per-sample reference conversion (the specification the kernels are proved against): round half even, saturate,
    report whether the sample saturated. -/
def convSample (mx : Int) : Val → Int × Bool
  | .fin x =>
    let r := rhe x unit
    if mx < r then (mx, true) else if r < -mx - 1 then (-mx - 1, true) else (r, false)
  | .inf neg => (if neg then -mx - 1 else mx, true)
  | .nan => (-mx - 1, true)

/-! ## Dither: the LCG on `unsigned long` words -/

abbrev Seed := BitVec 64

/-- `seed = 1664525UL * seed + 1013904223UL` on 64-bit `unsigned long` (constants read from the source). -/
def lcg (s : Seed) : Seed := BitVec.ofNat 64 Gen.lcgA * s + BitVec.ofNat 64 Gen.lcgC

/-- the two shift registers `ran1`, `ran2`. -/
structure Ran where
  r1 : Seed
  r2 : Seed
deriving DecidableEq, Repr, Inhabited

/-- `DITHER_VARS`: `unsigned long ran1 = DITHER_RAND, ran2 = DITHER_RAND` with
    `DITHER_RAND = (seed = a * seed + c) >> 3`.  Returns the registers and the advanced seed. -/
def ditherVars (seed : Seed) : Ran × Seed :=
  let s1 := lcg seed
  let s2 := lcg s1
  (⟨s1 >>> Gen.ditherShift0, s2 >>> Gen.ditherShift0⟩, s2)

/-- `DITHERING`: `(int)(((ran1 >>= 3) & 31) - ((ran2 >>= 3) & 31))` — the numerator of the dither (in 1/32 LSB). -/
def ditherNext (r : Ran) : Int × Ran :=
  let r1 := r.r1 >>> 3
  let r2 := r.r2 >>> 3
  (((r1 &&& 31#64) - (r2 &&& 31#64)).setWidth 32 |>.toInt, ⟨r1, r2⟩)

/-- binary64 round-to-nearest-even of an exact value of `x` units (the one rounding of the SSE2 `addsd`). -/
def round53 (x : Int) : Val :=
  let N := x.natAbs
  if N < 2 ^ 53 then .fin x
  else
    let s := N.log2 - 52
    let R := rheNat N (2 ^ s) * 2 ^ s
    if 2 ^ (1024 + U) ≤ R then .inf (decide (x < 0)) else .fin (if x < 0 then -(R : Int) else R)

/-- `src[i] + (1./32) * k` in `double` arithmetic. -/
def addDither (v : Val) (k : Int) : Val :=
  match v with
  | .fin x => round53 (x + k * (2 ^ (U - 5) : Nat))
  | v => v

/-! ## The kernels of `rint-clip.h` -/

/-- one instantiation of `rint-clip.h`: `RINT_MAX` and whether `DITHER` is defined. -/
structure Cfg where
  mx : Int
  dith : Bool
deriving DecidableEq, Repr

/-- the operand `src[i] DITHERING`. -/
def operand (c : Cfg) (x : Val) (r : Ran) : Val × Ran :=
  if c.dith then
    let (k, r') := ditherNext r
    (addDither x k, r')
  else (x, r)

/-- `COPY_SEED; DITHER_VARS` (nothing when `DITHER` is not defined). -/
def vars (c : Cfg) (seed : Seed) : Ran × Seed :=
  if c.dith then ditherVars seed else (default, seed)

/-- body of the loop of `RINT_CLIP`:
    `RINT(dest[i], d); if (fe_test_invalid()) {fe_clear_invalid(); dest[i] = d > 0 ? RINT_MAX : -RINT_MAX - 1; ++*clips;}` -/
def clipStep (c : Cfg) (d : Val) (st : St) : Int × St :=
  let (r, inv) := fist c.mx d
  if st.flag || inv then ((if d.isPos then c.mx else -c.mx - 1), ⟨false, st.clips + 1⟩) else (r, st)

/-- the loop of `RINT_CLIP` over `src[i .. n)`. -/
def rintClipLoop (c : Cfg) : List Val → Ran → St → List Int × St
  | [], _, st => ([], st)
  | x :: xs, r, st =>
    let (d, r') := operand c x r
    let (o, st') := clipStep c d st
    let (os, st'') := rintClipLoop c xs r' st'
    (o :: os, st'')

/-- `RINT_CLIP(dest, src, stride, i, n, clips, seed0)`: results for `src[i .. n)`, the seed written back, flag and counter. -/
def rintClip (c : Cfg) (xs : List Val) (seed : Seed) (st : St) : List Int × Seed × St :=
  let (r, seed') := vars c seed
  let (os, st') := rintClipLoop c xs r st
  (os, seed', st')

/-- `DO_16`: `RINT(dest[i], src[i] DITHERING); ++i` sixteen times, the flag not looked at in between (it is sticky). -/
def rawLoop (c : Cfg) : List Val → Ran → Bool → List Int × Bool
  | [], _, fl => ([], fl)
  | x :: xs, r, fl =>
    let (d, r') := operand c x r
    let (v, inv) := fist c.mx d
    let (os, fl') := rawLoop c xs r' (fl || inv)
    (v :: os, fl')

/-- one iteration of the unrolled loop of `LSX_RINT_CLIP`:
    `COPY_SEED1; DITHER_VARS; DO_16; if (fe_test_invalid()) {fe_clear_invalid(); RINT_CLIP(dest, src, 1, i - 16, i, &clips, &seed1);}` -/
def block (c : Cfg) (xs : List Val) (seed : Seed) (st : St) : List Int × Seed × St :=
  let (r, seed') := vars c seed
  let (os, fl) := rawLoop c xs r st.flag
  if fl then
    let (os', _, st') := rintClip c xs seed ⟨false, st.clips⟩
    (os', seed', st')
  else (os, seed', ⟨false, st.clips⟩)

/-- `k` iterations of the unrolled loop; returns the unconverted rest. -/
def blocks (c : Cfg) : Nat → List Val → Seed → St → List Int × List Val × Seed × St
  | 0, xs, seed, st => ([], xs, seed, st)
  | k + 1, xs, seed, st =>
    let (o1, seed1, st1) := block c (xs.take Gen.unroll) seed st
    let (o2, rest, seed2, st2) := blocks c k (xs.drop Gen.unroll) seed1 st1
    (o1 ++ o2, rest, seed2, st2)

/-- number of iterations of `for (i = 0; i < (n & ~15u);) {… DO_16 …}`: `~15u` is an `unsigned int`, so for a `size_t n`
    the bound is `n & 0xFFFFFFF0` (bits 32 and up are dropped: as written). -/
def numBlocks (n : Nat) : Nat := (n &&& 0xFFFFFFF0) / Gen.unroll

/-- the body shared by `LSX_RINT_CLIP` and one channel of `LSX_RINT_CLIP_2`: unrolled blocks, then the tail through
    `RINT_CLIP` (which draws a fresh pair of dither registers even when the tail is empty). -/
def lsxRintClip (c : Cfg) (xs : List Val) (seed : Seed) (st : St) : List Int × Seed × St :=
  let (o1, rest, seed1, st1) := blocks c (numBlocks xs.length) xs seed st
  let (o2, seed2, st2) := rintClip c rest seed1 st1
  (o1 ++ o2, seed2, st2)

/-- `LSX_RINT_CLIP_2`: the channels one after the other (`for (j = 0; j < stride; ++j, ++dest)`), seed, flag and counter
    carried from one channel to the next.  Result: one output list per channel. -/
def lsxRintClip2 (c : Cfg) : List (List Val) → Seed → St → List (List Int) × Seed × St
  | [], seed, st => ([], seed, st)
  | xs :: rest, seed, st =>
    let (o, seed1, st1) := lsxRintClip c xs seed st
    let (os, seed2, st2) := lsxRintClip2 c rest seed1 st1
    (o :: os, seed2, st2)

/-- memory order of the strided stores `dest[stride * i]` with `dest` advanced per channel: frame `i` holds
    channel 0, 1, … (`n` frames). -/
def interleaveLists {α : Type} [Inhabited α] (chans : List (List α)) : Nat → List α
  | 0 => []
  | n + 1 => chans.map (·.headD default) ++ interleaveLists (chans.map List.tail) n

/-- `n` frames of `ch` samples each. -/
def frames {α : Type} (ch : Nat) : Nat → List α → List (List α)
  | 0, _ => []
  | n + 1, mem => mem.take ch :: frames ch n (mem.drop ch)

/-- inverse index map: `dest[i][j] = *src++` for `j < n`, `i < ch`. -/
def deinterleaveLists {α : Type} [Inhabited α] (mem : List α) (n ch : Nat) : List (List α) :=
  let fr := frames ch n mem
  (List.range ch).map fun i => fr.map fun f => f.getD i default

/-! ## `data-io.c` -/

/-- `soxr_datatype_t & 3`. -/
inductive DType where
  | f32 | f64 | i32 | i16
deriving DecidableEq, Repr, Inhabited

def DType.code : DType → Nat
  | .f32 => 0 | .f64 => 1 | .i32 => 2 | .i16 => 3

def DType.ofCode : Nat → DType
  | 0 => .f32 | 1 => .f64 | 2 => .i32 | _ => .i16

/-- width in bits. -/
def DType.bits : DType → Nat
  | .f32 => 32 | .f64 => 64 | .i32 => 32 | .i16 => 16

/-- `log2` of the full scale of a datatype (`datatype_full_scale[] = {1, 1, 65536.*32768, 32768}`). -/
def DType.fullScaleLog2 : DType → Nat
  | .f32 => 0 | .f64 => 0 | .i32 => 31 | .i16 => 15

/-- `(DEINTERLEAVE_TO)*src++`: one input sample of type `t` to the engine's sample format `eng` (bit patterns). -/
def deinterleaveSample (eng : Fmt) (t : DType) (b : Nat) : Nat :=
  match t with
  | .f32 => if eng = f32 then b % 2 ^ 32 else Fmt.cvt f32 eng b
  | .f64 => if eng = f64 then b % 2 ^ 64 else Fmt.cvt f64 eng b
  | .i32 => eng.ofInt (toSigned 32 b)
  | .i16 => eng.ofInt (toSigned 16 b)

/-- `_soxr_deinterleave(_f)`: `n * ch` patterns in memory order to `ch` channel lists. -/
def deinterleave (eng : Fmt) (t : DType) (mem : List Nat) (n ch : Nat) : List (List Nat) :=
  (deinterleaveLists mem n ch).map fun c => c.map (deinterleaveSample eng t)

/-- `(T)src[i][j]` for a floating-point output type. -/
def interleaveFloat (eng out : Fmt) (b : Nat) : Nat :=
  if eng = out then b % 2 ^ eng.bits else Fmt.cvt eng out b

/-- `RINT_MAX` per integer output type (`2147483647L` / `32767`).  `Properties/C11.lean` checks on every run that the values
    observed on the real kernels (`Gen.limits`, `Gen.rintMax16`, `Gen.rintMax32`) are these. -/
def rintMax : DType → Int
  | .i32 => 2147483647
  | _ => 32767

/-- result of `_soxr_interleave(_f)`: the output patterns in memory order, clip count, seed, flag. -/
structure IlResult where
  out : List Nat
  clips : Nat
  seed : Seed
  flag : Bool
deriving Repr

/-- the integer output types of `_soxr_interleave(_f)`: the `rint-clip.h` kernels. -/
def interleaveInt (eng : Fmt) (t : DType) (chans : List (List Nat)) (n : Nat) (dith : Bool) (seed : Seed) (flag : Bool) :
    IlResult :=
  let c : Cfg := ⟨rintMax t, dith && t = .i16⟩
  let vals := chans.map fun ch => ch.map eng.decode
  match vals with
  | [xs] =>                                  -- ch == 1: LSX_RINT_CLIP
    let r := lsxRintClip c xs seed ⟨flag, 0⟩
    ⟨r.1.map (ofSigned t.bits), r.2.2.clips, r.2.1, r.2.2.flag⟩
  | _ =>                                     -- LSX_RINT_CLIP_2
    let r := lsxRintClip2 c vals seed ⟨flag, 0⟩
    ⟨(interleaveLists r.1 n).map (ofSigned t.bits), r.2.2.clips, r.2.1, r.2.2.flag⟩

/-- `_soxr_interleave(data_type, dest0, src, n, ch, seed)` (engine `double`) / `_soxr_interleave_f` (engine `float`).
    `chans`: the `ch` channel buffers (bit patterns of the engine's sample type, `n` each);
    `dith`: whether a seed pointer is passed (`soxr.c` passes none under `SOXR_NO_DITHER`; only int16 output uses it). -/
def interleave (eng : Fmt) (t : DType) (chans : List (List Nat)) (n : Nat) (dith : Bool) (seed : Seed) (flag : Bool) :
    IlResult :=
  match t with
  | .f32 => ⟨interleaveLists (chans.map fun c => c.map (interleaveFloat eng f32)) n, 0, seed, flag⟩
  | .f64 => ⟨interleaveLists (chans.map fun c => c.map (interleaveFloat eng f64)) n, 0, seed, flag⟩
  | .i32 => interleaveInt eng .i32 chans n dith seed flag
  | .i16 => interleaveInt eng .i16 chans n dith seed flag

/-! ## The unit-gain path of `soxr.c` at equal rates -/

/-- exponent of `io_spec.scale = full_scale[otype] / full_scale[itype]` (a power of two). -/
def scaleLog2 (i o : DType) : Int := (o.fullScaleLog2 : Int) - (i.fullScaleLog2 : Int)

/-- `x · 2^j` in units.  For `j < 0` the division is exact on every operand the code can present (a negative exponent
    only arises for integer input, whose values are multiples of `2^1074` units). -/
def scaleUnits (x : Int) (j : Int) : Int :=
  if 0 ≤ j then x * (2 ^ j.toNat : Nat) else x / ((2 ^ (-j).toNat : Nat) : Int)

/-- The engine at ratio 1 with gain `2^j`: no stage at all when `j = 0` (samples are copied), otherwise the cubic stage
    with `x = 0`: `(sample_t)(mult * s)` — one rounding to the engine's sample format. -/
def scaleSample (eng : Fmt) (j : Int) (b : Nat) : Nat :=
  if j = 0 then b
  else match eng.decode b with
    | .fin x => eng.ofUnits (scaleUnits x j)
    | _ => b

/-- one sample through `soxr_process` at equal rates and unit gain, without dither: pattern out, saturated?. -/
def passSample (eng : Fmt) (i o : DType) (b : Nat) : Nat × Bool :=
  let s := scaleSample eng (scaleLog2 i o) (deinterleaveSample eng i b)
  match o with
  | .f32 => (interleaveFloat eng f32 s, false)
  | .f64 => (interleaveFloat eng f64 s, false)
  | o =>
    let (v, cl) := convSample (rintMax o) (eng.decode s)
    (ofSigned o.bits v, cl)

/-! ## The array helpers of `soxr-lsr.c` -/

/-- `src_short_to_float_array` / `src_int_to_float_array`: `(float)(src * (1 / 2^k))`, `k = 15 / 31`; the product is exact
    in `double`. -/
def lsrToFloat (k : Nat) (v : Int) : Nat := f32.signBit (decide (v < 0)) + f32.roundMag (v.natAbs * 2 ^ (U - k))

/-- `src_float_to_short_array`: `d = src * N; d > N - 1 ? N - 1 : d < -N ? -N : rint16(d)` with `N = 32768`:
    the value and whether `fistp` raised invalid (only for NaN; the helper does not clear the flag). -/
def lsrToShort (v : Val) : Int × Bool :=
  match v with
  | .fin x =>
    let d := x * 32768
    if 32767 * (unit : Int) < d then (32767, false)
    else if d < -32768 * (unit : Int) then (-32768, false)
    else fist 32767 (.fin d)
  | .inf neg => (if neg then -32768 else 32767, false)
  | .nan => (-32768, true)

/-- `src_float_to_int_array`: `d = src * N; d >= N - 1 ? N - 1 : d < -N ? -N : rint32(d)` with `N = 2^31`. -/
def lsrToInt (v : Val) : Int × Bool :=
  match v with
  | .fin x =>
    let d := x * 2147483648
    if 2147483647 * (unit : Int) ≤ d then (2147483647, false)
    else if d < -2147483648 * (unit : Int) then (-2147483648, false)
    else fist 2147483647 (.fin d)
  | .inf neg => (if neg then -2147483648 else 2147483647, false)
  | .nan => (-2147483648, true)

end Soxr.Conv
