import SoxrModel.Conc.Clips
/-!
# C06, threads clause — "…whether channels are processed sequentially or by OpenMP threads; the clip counter equals the sum of
# the per-channel clip counts."

Model: `Soxr.Conc.Clips` (each channel's `p->clips += n_i` is an action of some thread; any number of channels/threads;
arbitrary interleaving).

* The code as it is (`size_t clips = interleave(…); #pragma omp atomic  p->clips += clips;`, fix of F8): the addition is ONE
  atomic step, the total is exact under every interleaving (`atomic_total_exact`), across any number of successive parallel
  regions (`atomic_rounds_exact`), and equals what the sequential loop computes (`sequential_total`).  The real-code
  falsifier (`checks/conclib.clips_threads`) now reports ANY lost count as a violation.
* Historical, why the atomic is needed: with the former plain `p->clips +=` (a load followed by a store) the clause was false
  under threads: a two-channel lost update is reachable (`nonatomic_lost_update_reachable`, `not_nonatomic_exact`; defect
  F8, fixed); what held was one-sided, the counter never exceeded the exact sum (`nonatomic_never_overcounts`).
-/
namespace Soxr.C06Threads
open Soxr.Conc.Clips

/-- atomic RMW: when every channel has added its count the counter is exactly the old value plus the sum, whatever the order
    in which the threads got to run -/
theorem atomic_total_exact {t0 : Nat} {cs : List Nat} {s : ASt}
    (h : AReach { total := t0, todo := cs } s) (hdone : s.todo = []) : s.total = t0 + cs.sum := by
  have := atomic_inv h
  simp only [hdone, List.sum_nil] at this
  omega

/-- atomic RMW, at every intermediate moment: counter + what is still to be added = exact sum -/
theorem atomic_total_invariant {t0 : Nat} {cs : List Nat} {s : ASt}
    (h : AReach { total := t0, todo := cs } s) : s.total + s.todo.sum = t0 + cs.sum :=
  atomic_inv h

/-- successive parallel regions (successive `soxr_process` calls): `Runs t0 css t1` = each region of `css` is run to completion
    under some interleaving, starting from counter `t0` and ending with `t1` -/
inductive Runs : Nat → List (List Nat) → Nat → Prop
  | nil (t : Nat) : Runs t [] t
  | cons {t0 t1 : Nat} {cs : List Nat} {css : List (List Nat)} {s : ASt} :
      AReach { total := t0, todo := cs } s → s.todo = [] → Runs s.total css t1 → Runs t0 (cs :: css) t1

theorem atomic_rounds_exact {t0 t1 : Nat} {css : List (List Nat)} (h : Runs t0 css t1) :
    t1 = t0 + (css.map List.sum).sum := by
  induction h with
  | nil t => simp
  | cons hr hd _ ih =>
    have := atomic_total_exact hr hd
    simp only [List.map_cons, List.sum_cons]
    omega

/-- the sequential loop (`for (u = 0; u < num_channels; ++u)`) is one of the interleavings and yields the same total -/
theorem sequential_total (t0 : Nat) (cs : List Nat) : (arun cs { total := t0, todo := cs }).total = t0 + cs.sum := by
  suffices h : ∀ (cs : List Nat) (s : ASt), (arun cs s).total = s.total + cs.sum from h cs _
  intro cs
  induction cs with
  | nil => intro s; simp [arun]
  | cons c cs ih => intro s; simp only [arun, ih, List.sum_cons]; omega

/-- HISTORICAL (code before the fix of F8) — negation for the non-atomic `p->clips +=`: two channels that each clipped once, both load 0, both store 1 -/
theorem nonatomic_lost_update_reachable :
    ∃ s, NReach (ninit 0 [1, 1]) s ∧ s.todo = [] ∧ s.loaded = [] ∧ s.total = 1 := by
  refine ⟨{ total := 1, todo := [], loaded := [] }, ?_, rfl, rfl, rfl⟩
  have s1 : NStep (ninit 0 [1, 1]) { total := 0, todo := [1], loaded := [(0, 1)] } := NStep.load (ninit 0 [1, 1]) 1 (by decide)
  have s2 : NStep { total := 0, todo := [1], loaded := [(0, 1)] } { total := 0, todo := [], loaded := [(0, 1), (0, 1)] } :=
    NStep.load { total := 0, todo := [1], loaded := [(0, 1)] } 1 (by decide)
  have s3 : NStep { total := 0, todo := [], loaded := [(0, 1), (0, 1)] } { total := 1, todo := [], loaded := [(0, 1)] } :=
    NStep.store { total := 0, todo := [], loaded := [(0, 1), (0, 1)] } 0 1 (by decide)
  have s4 : NStep { total := 1, todo := [], loaded := [(0, 1)] } { total := 1, todo := [], loaded := [] } :=
    NStep.store { total := 1, todo := [], loaded := [(0, 1)] } 0 1 (by decide)
  exact .step (.step (.step (.step .init s1) s2) s3) s4

theorem not_nonatomic_exact :
    ¬ ∀ (t0 : Nat) (cs : List Nat) (s : NSt), NReach (ninit t0 cs) s → s.todo = [] → s.loaded = [] → s.total = t0 + cs.sum := by
  intro h
  obtain ⟨s, hr, h1, h2, h3⟩ := nonatomic_lost_update_reachable
  have := h 0 [1, 1] s hr h1 h2
  simp at this
  omega

/-- non-atomic RMW: updates may be lost but the counter never exceeds the exact sum, under every interleaving -/
theorem nonatomic_never_overcounts {t0 : Nat} {cs : List Nat} {s : NSt} (h : NReach (ninit t0 cs) s) :
    s.total ≤ t0 + cs.sum := by
  obtain ⟨D, h1, -, h3⟩ := nonatomic_inv h
  omega

/-! non-vacuity -/
/-- an atomic run of three channels to completion in a non-sequential order -/
example : ∃ s, AReach { total := 5, todo := [3, 0, 4] } s ∧ s.todo = [] ∧ s.total = 12 := by
  refine ⟨{ total := 12, todo := [] }, ?_, rfl, rfl⟩
  have s1 : AStep { total := 5, todo := [3, 0, 4] } { total := 9, todo := [3, 0] } := AStep.add _ 4 (by decide)
  have s2 : AStep { total := 9, todo := [3, 0] } { total := 12, todo := [0] } := AStep.add _ 3 (by decide)
  have s3 : AStep { total := 12, todo := [0] } { total := 12, todo := [] } := AStep.add _ 0 (by decide)
  exact .step (.step (.step .init s1) s2) s3

example : Runs 0 [[1, 2], [3]] 6 := by
  have a1 : AStep { total := 0, todo := [1, 2] } { total := 2, todo := [1] } := AStep.add _ 2 (by decide)
  have a2 : AStep { total := 2, todo := [1] } { total := 3, todo := [] } := AStep.add _ 1 (by decide)
  have b1 : AStep { total := 3, todo := [3] } { total := 6, todo := [] } := AStep.add _ 3 (by decide)
  exact .cons (s := { total := 3, todo := [] }) (.step (.step .init a1) a2) rfl
    (.cons (s := { total := 6, todo := [] }) (.step .init b1) rfl (.nil 6))

end Soxr.C06Threads
