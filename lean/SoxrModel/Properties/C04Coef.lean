import SoxrModel.Cr.CoefTableLemmas
import SoxrModel.Cr.TimeLemmas
/-!
# The coefficient table of the poly-phase stages (C04: where the stage's response is centred; C12: the gain reaches
# every tap; C07: table writes and kernel reads stay inside the allocation)

Model: `Cr/CoefTable.lean` — `prepare_poly_fir_coefs` (cr.c) statement by statement over any sample type, the index macros
`coef` / `coef4` (cr.h).  Tie: `harness/cr/coeftab.c` runs the REAL `prepare_poly_fir_coefs` (through the real macros, all
four engine layouts) on marker prototypes; the compiled driver runs `prep` — the model of the loop — and `spec` — the
closed form of the theorems — on the same prototypes (`cr.coeftab`); every entry of the whole allocation is compared as
an integer (checks/coeftab.py, run by C04 and C12).

Until now `Cr/Time.lean` took the position of the poly-phase kernel's centre ("tap `i`, phase `j` holds prototype
coefficient `i·P + j − 1` …") from a reading of the source, validated by measurement only.  Here it is a theorem about
the model of that source:

* `table_is_closed_form` — for every prototype, multiplier, `num_coefs`, `num_phases`, order ≤ 3, both layouts: the loop
  leaves at `(phase j, coefficient number ci, tap num_coefs4 − 1 − i)` the `ci`-th polynomial coefficient of the four
  scaled prototype taps around position `i·P + j − 1`, zeros elsewhere;
* `order0_entry` — for a plain (order 0) table that is `multiplier × coefs[i·P + j − 1]`;
* `gain_reaches_every_tap` — every value the table is built from is `multiplier ×` a prototype tap (or zero), the first
  one — seeded before the loop — included (the clause the F-SG4 defect broke);
* `table_mirror` — for a symmetric prototype (every `lsx_design_lpf` result is; `Phase` area, `makeLpf_symmetric`) the
  taps at equal distances before and after prototype index `(nc·P − 2)/2` are equal;
* `centre_is_where_the_time_map_puts_it` — the coefficient that multiplies FIFO position `div + k` at phase `φ` sits
  `k − (φ/P + num_coefs4 − 1 − nc/2)` input periods from that centre: exactly the constant `tstage` uses for a clocked
  poly-phase stage;
* `table_writes_in_bounds` / `kernel_reads_in_bounds` (C07) — every index `STORE` writes and every index a kernel forms
  from `phase < num_phases`, `tap < num_coefs4`, coefficient number ≤ order is below `length`.
-/
namespace Soxr.Properties.C04Coef
open Soxr.Cr Soxr.Cr.CoefTable

variable {α : Type}

/-- **the loop computes the closed form** (any sample type, any prototype and multiplier, both layouts, order ≤ 3) -/
theorem table_is_closed_form (p : Par α) (hord : p.ord ≤ 3) :
    (∀ i j ci, i < p.nc → j < p.P → ci ≤ p.ord → prep p (p.idx j ci (p.len - 1 - i)) = (E p i j).get ci) ∧
    (∀ x, (∀ i j ci, i < p.nc → j < p.P → ci ≤ p.ord → x ≠ p.idx j ci (p.len - 1 - i)) → prep p x = p.o.zero) :=
  prep_spec p hord

/-- order 0 (`poly-fir0.h`, exact rational ratios): the entry is the scaled prototype tap itself -/
theorem order0_entry (p : Par α) (h0 : p.ord = 0) (i j : Nat) (hi : i < p.nc) (hj : j < p.P) :
    prep p (p.idx j 0 (p.len - 1 - i)) = F p ((i : Int) * p.P + j - 1) := by
  have := (prep_spec p (by omega)).1 i j 0 hi hj (by omega)
  rw [this]; unfold E comp; rw [h0]; rfl

/-- every value that enters the table is zero or `multiplier ×` a prototype tap -/
theorem gain_reaches_every_tap (p : Par α) (q : Int) :
    F p q = p.o.zero ∨ ∃ k, F p q = p.o.mul (p.coefs k) p.mult := by
  unfold F
  by_cases h1 : q = (p.nc : Int) * p.P - 2
  · rw [if_pos h1]; exact Or.inr ⟨0, rfl⟩
  · rw [if_neg h1]
    by_cases h2 : q < 0
    · rw [if_pos h2]; exact Or.inl rfl
    · rw [if_neg h2]
      by_cases h3 : q < (p.nc : Int) * p.P - 2
      · rw [if_pos h3]; exact Or.inr ⟨_, rfl⟩
      · rw [if_neg h3]; exact Or.inl rfl

/-- with a prototype whose two end taps agree (a symmetric one) the loop's view of the prototype is simply
    `multiplier × coefs[q]` on the whole support — also at the last position, whose value is seeded before the loop -/
theorem scaled_prototype (p : Par α) (hends : p.coefs 0 = p.coefs (p.nc * p.P - 2)) (q : Nat) (hq : q + 2 ≤ p.nc * p.P) :
    F p q = p.o.mul (p.coefs q) p.mult := by
  have hc : ((p.nc * p.P : Nat) : Int) = (p.nc : Int) * p.P := Int.natCast_mul _ _
  unfold F
  by_cases h1 : (q : Int) = (p.nc : Int) * p.P - 2
  · rw [if_pos h1, hends]
    have : q = p.nc * p.P - 2 := by omega
    rw [this]
  · rw [if_neg h1, if_neg (by omega), if_pos (by omega)]; rfl

/-- symmetric prototype: `coefs[a] = coefs[b]` whenever `a + b = nc·P − 2` -/
def Symmetric (p : Par α) : Prop := ∀ a b : Nat, a + b + 2 = p.nc * p.P → p.coefs a = p.coefs b

theorem F_mirror (p : Par α) (hs : Symmetric p) (h2 : 2 ≤ p.nc * p.P) (q q' : Int) (h : q + q' = (p.nc : Int) * p.P - 2) :
    F p q = F p q' := by
  have hc : ((p.nc * p.P : Nat) : Int) = (p.nc : Int) * p.P := Int.natCast_mul _ _
  -- both outside, or both inside
  by_cases hneg : q < 0
  · rw [F_ge p (q := q') (by omega)]
    unfold F; rw [if_neg (by omega), if_pos hneg]
  by_cases hneg' : q' < 0
  · rw [F_ge p (q := q) (by omega)]
    unfold F; rw [if_neg (by omega), if_pos hneg']
  have e : ∀ r : Int, 0 ≤ r → r ≤ (p.nc : Int) * p.P - 2 → F p r = p.o.mul (p.coefs r.toNat) p.mult := by
    intro r h0 h1
    have := scaled_prototype p (hs 0 (p.nc * p.P - 2) (by omega)) r.toNat (by omega)
    rwa [Int.toNat_of_nonneg h0] at this
  rw [e q (by omega) (by omega), e q' (by omega) (by omega), hs q.toNat q'.toNat (by omega)]

/-- **mirror symmetry of the plain table**: two entries whose prototype positions are equally far on either side of
    the centre `(nc·P − 2)/2` are equal -/
theorem table_mirror (p : Par α) (h0 : p.ord = 0) (hs : Symmetric p) (i j i' j' : Nat) (hi : i < p.nc) (hj : j < p.P)
    (hi' : i' < p.nc) (hj' : j' < p.P) (h2 : 2 ≤ p.nc * p.P) (h : i * p.P + j + (i' * p.P + j') = p.nc * p.P) :
    prep p (p.idx j 0 (p.len - 1 - i)) = prep p (p.idx j' 0 (p.len - 1 - i')) := by
  rw [order0_entry p h0 i j hi hj, order0_entry p h0 i' j' hi' hj']
  apply F_mirror p hs h2
  have : ((i * p.P + j + (i' * p.P + j') : Nat) : Int) = ((p.nc * p.P : Nat) : Int) := by rw [h]
  push_cast at this; omega

/-- twice the distance, in units of `1/P` input periods, from the prototype's centre `(nc·P − 2)/2` to the coefficient
    that multiplies window position `k` at phase `φ` (tap `i = num_coefs4 − 1 − k`) -/
def twiceOffset (p : Par α) (k φ : Nat) : Int := 2 * (((p.len : Int) - 1 - k) * p.P + φ - 1) - ((p.nc : Int) * p.P - 2)

/-- **the centre of the stage's response is where `tstage` puts it.**  For a clocked poly-phase stage of the plan
    (`den = P` phases, `taps = num_coefs4`, `nc = num_coefs`, clock `φ`, preload `pl`) the coefficient multiplying FIFO
    position `k` lies `k − (b + pl)` input periods after the prototype's centre, `b` being the offset `tstage` computes;
    so with a mirror-symmetric table (`table_mirror`) the response is symmetric about the instant the time map assigns. -/
theorem centre_is_where_the_time_map_puts_it (p : Par α) (x : LStage) (k : Nat) (hk : x.cfg.kind = .clocked)
    (hc : x.lat.cubic = false) (hden : x.cfg.den = p.P) (hP : 0 < p.P) (htaps : x.cfg.taps = p.len) (hnc : x.lat.nc = p.nc) :
    ((k : ℚ) - ((tstage x).b + (x.s0.occ : ℚ))) * (2 * p.P) = -(twiceOffset p k x.s0.clk : ℚ) := by
  unfold tstage twiceOffset
  simp only [hk, hc, hden, htaps, hnc]
  have : (p.P : ℚ) ≠ 0 := by exact_mod_cast (Nat.pos_iff_ne_zero.mp hP)
  push_cast
  field_simp
  ring

/-! ### the gain multiplies the whole table (C12: "gain applied exactly once"), exact arithmetic over any commutative ring -/

/-- the loop's arithmetic in a commutative ring; `.5` and `1/6.` are whatever elements `h`, `s` (no division needed) -/
def ringOps (R : Type) [CommRing R] (h s : R) : Ops R :=
  { zero := 0, add := (· + ·), sub := (· - ·), mul := (· * ·), half := h, sixth := s, four := 4 }

theorem comp_scales {R : Type} [CommRing R] (h s m a b c d : R) (ord ci : Nat) (hord : ord ≤ 3) :
    (comp (ringOps R h s) ord (m * a) (m * b) (m * c) (m * d)).get ci = m * (comp (ringOps R h s) ord a b c d).get ci := by
  have hget : ∀ e : Entry R, e.get ci = if ci = 0 then e.f0 else if ci = 1 then e.b else if ci = 2 then e.c else e.d := by
    intro e
    rcases Nat.lt_or_ge ci 3 with h3 | h3
    · rcases (by omega : ci = 0 ∨ ci = 1 ∨ ci = 2) with rfl | rfl | rfl <;> simp [Entry.get]
    · obtain ⟨k, rfl⟩ := Nat.exists_eq_add_of_le' h3
      simp [Entry.get]
  rw [hget, hget]
  rcases (by omega : ord = 0 ∨ ord = 1 ∨ ord = 2 ∨ ord = 3) with rfl | rfl | rfl | rfl <;>
    simp only [comp, ringOps] <;> split_ifs <;> ring

/-- a call of `prepare_poly_fir_coefs` in a commutative ring with multiplier `m` -/
def rpar {R : Type} [CommRing R] (h s : R) (coefs : Nat → R) (nc P ord : Nat) (simd : Bool) (m : R) : Par R :=
  { o := ringOps R h s, coefs := coefs, mult := m, nc := nc, P := P, ord := ord, simd := simd }

theorem F_scales {R : Type} [CommRing R] (h s m : R) (coefs : Nat → R) (nc P ord : Nat) (simd : Bool) (q : Int) :
    F (rpar h s coefs nc P ord simd m) q = m * F (rpar h s coefs nc P ord simd 1) q := by
  unfold F
  by_cases h1 : q = ((rpar h s coefs nc P ord simd m).nc : Int) * (rpar h s coefs nc P ord simd m).P - 2
  · rw [if_pos h1, if_pos (show q = ((rpar h s coefs nc P ord simd 1).nc : Int) * (rpar h s coefs nc P ord simd 1).P - 2 from h1)]
    show coefs 0 * m = m * (coefs 0 * 1); ring
  · rw [if_neg h1, if_neg (show ¬ q = ((rpar h s coefs nc P ord simd 1).nc : Int) * (rpar h s coefs nc P ord simd 1).P - 2 from h1)]
    by_cases h2 : q < 0
    · rw [if_pos h2, if_pos h2]; show (0 : R) = m * 0; ring
    · rw [if_neg h2, if_neg h2]
      by_cases h3 : q < ((rpar h s coefs nc P ord simd m).nc : Int) * (rpar h s coefs nc P ord simd m).P - 2
      · rw [if_pos h3, if_pos (show q < ((rpar h s coefs nc P ord simd 1).nc : Int) * (rpar h s coefs nc P ord simd 1).P - 2 from h3)]
        show coefs q.toNat * m = m * (coefs q.toNat * 1); ring
      · rw [if_neg h3, if_neg (show ¬ q < ((rpar h s coefs nc P ord simd 1).nc : Int) * (rpar h s coefs nc P ord simd 1).P - 2 from h3)]
        show (0 : R) = m * 0; ring

theorem E_scales {R : Type} [CommRing R] (h s m : R) (coefs : Nat → R) (nc P ord : Nat) (simd : Bool) (hord : ord ≤ 3) (i j ci : Nat) :
    (E (rpar h s coefs nc P ord simd m) i j).get ci = m * (E (rpar h s coefs nc P ord simd 1) i j).get ci := by
  unfold E
  simp only [F_scales h s m coefs nc P ord simd]
  exact comp_scales h s m _ _ _ _ ord ci hord

/-- **The gain multiplies every cell of the table, once**: the table built with multiplier `m` is `m ×` the table built with
    multiplier 1, cell by cell over the whole allocation — every order, both layouts, any prototype (exact arithmetic in any
    commutative ring; with `dot_scaled_table` of `Properties/C12Fir` a gain folded into the table is that gain on the output). -/
theorem gain_scales_whole_table {R : Type} [CommRing R] (h s m : R) (coefs : Nat → R) (nc P ord : Nat) (simd : Bool) (hord : ord ≤ 3)
    (x : Nat) : prep (rpar h s coefs nc P ord simd m) x = m * prep (rpar h s coefs nc P ord simd 1) x := by
  have A := prep_spec (rpar h s coefs nc P ord simd m) hord
  have B := prep_spec (rpar h s coefs nc P ord simd 1) hord
  by_cases hx : ∃ i j ci, i < nc ∧ j < P ∧ ci ≤ ord ∧
      x = (rpar h s coefs nc P ord simd 1).idx j ci ((rpar h s coefs nc P ord simd 1).len - 1 - i)
  · obtain ⟨i, j, ci, hi, hj, hci, rfl⟩ := hx
    have a := A.1 i j ci hi hj hci
    have b := B.1 i j ci hi hj hci
    rw [b]
    have ea : (rpar h s coefs nc P ord simd m).idx j ci ((rpar h s coefs nc P ord simd m).len - 1 - i) =
        (rpar h s coefs nc P ord simd 1).idx j ci ((rpar h s coefs nc P ord simd 1).len - 1 - i) := rfl
    rw [ea] at a
    rw [a]
    exact E_scales h s m coefs nc P ord simd hord i j ci
  · have hne : ∀ i j ci, i < nc → j < P → ci ≤ ord →
        x ≠ (rpar h s coefs nc P ord simd 1).idx j ci ((rpar h s coefs nc P ord simd 1).len - 1 - i) :=
      fun i j ci hi hj hci he => hx ⟨i, j, ci, hi, hj, hci, he⟩
    have a := A.2 x hne
    have b := B.2 x hne
    rw [a, b]
    show (0 : R) = m * 0
    ring

/-- **Continuity of the interpolated table across phases.**  The kernels of `poly-fir.h` evaluate `f0 + x·(b + x·(c + x·d))` with
    `x ∈ [0, 1)` the fraction of a phase.  At `x = 1` that polynomial is `f0 + b + c + d`, and for every order 1, 2, 3 the loop's
    coefficients make it exactly `f1`, the `f0` of the next prototype position: between two neighbouring phases the interpolated
    coefficient moves from one table value to the next with no jump, whatever `.5` and `1/6.` are (any commutative ring). -/
theorem interp_reaches_next_value {R : Type} [CommRing R] (h s fm1 f0 f1 f2 : R) (ord : Nat) (h1 : 1 ≤ ord) (h3 : ord ≤ 3) :
    let e := comp (ringOps R h s) ord fm1 f0 f1 f2
    e.f0 + e.b + e.c + e.d = f1 := by
  rcases (by omega : ord = 1 ∨ ord = 2 ∨ ord = 3) with rfl | rfl | rfl <;> simp only [comp, ringOps] <;> ring

/-- … and at `x = 0` it is the table value itself, for every order -/
theorem interp_starts_at_value {R : Type} [CommRing R] (h s fm1 f0 f1 f2 : R) (ord : Nat) :
    (comp (ringOps R h s) ord fm1 f0 f1 f2).f0 = f0 := by
  unfold comp; split <;> rfl

/-- the SIMD-less interpolated kernels of `poly-fir.h` index the table as `coefs[(ORDER+1)*(N*phase+j) + (ORDER-ci)]`: the same cell
    as the macro `coef` that `prepare_poly_fir_coefs` stores through -/
theorem kernel_index_form (ord N phase ci j : Nat) : (ord + 1) * (N * phase + j) + (ord - ci) = coefIdx ord N phase ci j := by
  unfold coefIdx; ring

/-- C07: every index `STORE` writes lies inside the `length` items `prepare_poly_fir_coefs` allocates -/
theorem table_writes_in_bounds (p : Par α) (i j ci : Nat) (hi : i < p.nc) (hj : j < p.P) (hci : ci ≤ p.ord) :
    p.idx j ci (p.len - 1 - i) < p.length := by
  have := len_ge p
  exact p.idx_lt hj hci (by omega)

/-- C07: every index a kernel forms from a phase `< num_phases`, a tap `< num_coefs4` and a coefficient number `≤ order`
    lies inside the allocation; and two different triples never share a cell -/
theorem kernel_reads_in_bounds (p : Par α) (φ k ci : Nat) (hφ : φ < p.P) (hk : k < p.len) (hci : ci ≤ p.ord) :
    p.idx φ ci k < p.length := p.idx_lt hφ hci hk

theorem table_cells_distinct (p : Par α) {j ci k j' ci' k' : Nat} (hci : ci ≤ p.ord) (hci' : ci' ≤ p.ord) (hk : k < p.len)
    (hk' : k' < p.len) (h : p.idx j ci k = p.idx j' ci' k') : j = j' ∧ ci = ci' ∧ k = k' := p.idx_inj hci hci' hk hk' h

/-! ### non-vacuity: a concrete call on integers (3 taps × 2 phases, order 3, SIMD layout, gain 5) -/

def intOps : Ops Int := { zero := 0, add := (· + ·), sub := (· - ·), mul := (· * ·), half := 1, sixth := 1, four := 4 }
def exPar : Par Int := { o := intOps, coefs := fun k => [1, 4, 9, 4, 1].getD k 0, mult := 5, nc := 3, P := 2, ord := 0, simd := true }

example : exPar.ord ≤ 3 ∧ exPar.len = 4 ∧ exPar.length = 8 := by decide
example : Symmetric exPar := by
  intro a b h
  have e : exPar.nc * exPar.P = 6 := rfl
  rw [e] at h
  have hb : b = 4 - a := by omega
  subst hb
  rcases (by omega : a = 0 ∨ a = 1 ∨ a = 2 ∨ a = 3 ∨ a = 4) with rfl | rfl | rfl | rfl | rfl <;> rfl
/-- the whole table of the example: one padding cell, then in tap order phase 0 holds `coefs[3], coefs[1], 0`, phase 1 `coefs[4], coefs[2], coefs[0]`, times 5 (`num_coefs4 = 4`) -/
example : (List.range 8).map (prep exPar) = [0, 20, 20, 0, 0, 5, 45, 5] := by decide

end Soxr.Properties.C04Coef
