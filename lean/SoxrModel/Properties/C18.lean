import SoxrModel.Cr.Model
namespace Soxr.Properties.C18
end Soxr.Properties.C18
