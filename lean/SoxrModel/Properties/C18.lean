import SoxrModel.Cr.PullCount
/-!
# C18 Input-function contract: bounded requests, no call after end or failure

Model: `Api.output` (= `soxr_output` of `soxr.c` as it is now, i.e. with the repaired `break` on failure and with
`soxr_clear` keeping `max_ilen`), the input function being an **arbitrary** script of answers.  Tie to `/repo`:
`checks/c18.py` logs every (request, answer) pair of the real library under scripted input functions and replays the
same calls through this very definition (compiled driver), comparing request sizes, number of calls, counts and flags.
-/
namespace Soxr.Properties.C18
open Soxr Soxr.Cr

/-- the answers a call consumed: `script = used ++ rest` -/
def Used (script rest used : List Supply) : Prop := script = used ++ rest

/-- **Requests are bounded.**  Every request made during a `soxr_output` call asks for exactly
    `min(max_ilen, ⌈olen·io_ratio⌉)` frames — never more than `max_ilen`. -/
theorem request_le_max_ilen (num : Num) (fuel : Nat) (a a' : Api) (len0 od : Nat) (script rest : List Supply) (reqs : List Nat)
    (h : a.output num fuel len0 script = some (a', od, rest, reqs)) :
    ∀ r ∈ reqs, r = min a.maxIlen (num.iForO len0) ∧ r ≤ a.maxIlen := by
  unfold Api.output at h
  split at h
  · injection h with h; injection h with _ h; injection h with _ h; injection h with _ h
    subst h; simp
  · rename_i herr
    cases hp : pullLoop num fuel len0 (min a.maxIlen (num.iForO len0)) (script.length + 2) a len0 0 script [] with
    | none => simp [hp] at h
    | some v =>
      obtain ⟨b, od', rest', reqs'⟩ := v
      simp only [hp] at h
      injection h with h; injection h with h1 h; injection h with _ h; injection h with h3 h4
      have spec := pullLoop_spec num fuel len0 _ _ a len0 0 script [] b od' rest' reqs' hp (by simpa using herr)
      obtain ⟨used, _, u2, _⟩ := spec.used
      intro r hr
      rw [← h4, u2] at hr
      simp only [List.append_nil, List.mem_reverse] at hr
      have := List.eq_of_mem_replicate hr
      exact ⟨this, by rw [this]; exact Nat.min_le_left _ _⟩

/-- The full shape of one call, for every script: the consumed answers are a prefix of the script; all but the last
    are proper (non-empty) supplies — so **nothing is asked after end-of-input or failure**; the number of requests
    equals the number of answers; a failure puts the resampler in the error state and only a failure does; end-of-input
    is latched exactly by an end answer. -/
theorem call_shape (num : Num) (fuel : Nat) (a a' : Api) (len0 od : Nat) (script rest : List Supply) (reqs : List Nat)
    (herr : a.error = false) (h : a.output num fuel len0 script = some (a', od, rest, reqs)) :
    ∃ used, Used script rest used ∧ reqs.length = used.length ∧
      (∀ s ∈ used.dropLast, s.isData = true) ∧
      (a'.error = true ↔ used.getLast? = some Supply.fail) ∧
      (a.flushing = false → (a'.flushing = true ↔ ∃ s, used.getLast? = some s ∧ s.isEnd = true)) ∧
      (a.flushing = true → a'.flushing = true) ∧ a'.hasFn = a.hasFn ∧ a'.maxIlen = a.maxIlen := by
  unfold Api.output at h
  simp only [herr, Bool.false_eq_true, if_false] at h
  cases hp : pullLoop num fuel len0 (min a.maxIlen (num.iForO len0)) (script.length + 2) a len0 0 script [] with
  | none => simp [hp] at h
  | some v =>
    obtain ⟨b, od', rest', reqs'⟩ := v
    simp only [hp] at h
    injection h with h; injection h with h1 h; injection h with _ h; injection h with h3 h4
    subst h1; subst h3
    have spec := pullLoop_spec num fuel len0 _ _ a len0 0 script [] _ od' _ reqs' hp herr
    obtain ⟨used, u1, u2, u3, u4, _, u6⟩ := spec.used
    refine ⟨used, u1, ?_, u3, u4, u6, spec.fl_mono, spec.hasFn, spec.maxIlen⟩
    rw [← h4, u2]; simp

/-- **No call after end-of-input** (across calls): once flushing, a `soxr_output` call asks nothing. -/
theorem no_call_when_flushing (num : Num) (fuel : Nat) (a a' : Api) (len0 od : Nat) (script rest : List Supply) (reqs : List Nat)
    (hfl : a.flushing = true) (h : a.output num fuel len0 script = some (a', od, rest, reqs)) :
    reqs = [] ∧ rest = script ∧ a'.flushing = true := by
  unfold Api.output at h
  split at h
  · rename_i herr
    injection h with h; injection h with h1 h; injection h with _ h; injection h with h3 h4
    subst h1; exact ⟨h4.symm, h3.symm, hfl⟩
  · rename_i herr
    cases hp : pullLoop num fuel len0 (min a.maxIlen (num.iForO len0)) (script.length + 2) a len0 0 script [] with
    | none => simp [hp] at h
    | some v =>
      obtain ⟨b, od', rest', reqs'⟩ := v
      simp only [hp] at h
      injection h with h; injection h with h1 h; injection h with _ h; injection h with h3 h4
      subst h1; subst h3
      have spec := pullLoop_spec num fuel len0 _ _ a len0 0 script [] _ od' _ reqs' hp (by simpa using herr)
      obtain ⟨used, u1, u2, _, _, u5, _⟩ := spec.used
      have : used = [] := u5 (Or.inl hfl)
      subst this
      simp only [List.nil_append] at u1
      refine ⟨?_, u1.symm, spec.fl_mono hfl⟩
      rw [← h4, u2]; simp

/-- **After a failure: no call, no output, state unchanged** — for every later request and every script. -/
theorem nothing_after_failure (num : Num) (fuel : Nat) (a : Api) (len0 : Nat) (script : List Supply) (herr : a.error = true) :
    a.output num fuel len0 script = some (a, 0, script, []) := by
  unfold Api.output; simp [herr]

/-- … and the error state persists over any number of further calls. -/
theorem failure_is_sticky (num : Num) (fuel : Nat) (a : Api) (herr : a.error = true) (lens : List Nat) (script : List Supply) :
    ∀ len0 ∈ lens, a.output num fuel len0 script = some (a, 0, script, []) :=
  fun len0 _ => nothing_after_failure num fuel a len0 script herr

/-- `soxr_process` on the generic path goes through the same loop: its requests obey the same bound. -/
theorem process_request_bound (num : Num) (fuel : Nat) (a a' : Api) (hasIn flushReq useIdone : Bool) (ilen0 olen idone odone : Nat)
    (script rest : List Supply) (reqs : List Nat)
    (h : a.process num fuel hasIn flushReq useIdone ilen0 olen script = some (a', idone, odone, rest, reqs)) :
    ∀ r ∈ reqs, r ≤ a.maxIlen := by
  unfold Api.process at h
  simp only at h
  split at h
  · simp at h
  · rename_i a2 od2 rest2 reqs2 hout
    injection h with h; injection h with _ h; injection h with _ h; injection h with _ h; injection h with _ h4
    subst h4
    intro r hr
    have := (request_le_max_ilen num fuel _ a2 olen od2 script rest2 reqs2 hout r hr).2
    -- `max_ilen` is not touched by the flag update nor by `soxr_input`
    have hm : ∀ (b : Api) (n : Nat), (if n != 0 then b.input n else b).maxIlen = b.maxIlen := by
      intro b n; split
      · exact (input_flags b n).2.2.1
      · rfl
    rw [hm] at this
    exact this

/-- **Everything supplied is consumed exactly once** (count form).  Over one `soxr_output` call that does not latch
    end-of-input, the engine's `samples_in` grows by exactly the frames carried by the answers the call consumed — the
    consumed answers being a prefix of the script (order) — for every script, state and request.  (That the SAMPLES
    then come out as the resampling of exactly those frames in that order is C05's `delivered_is_canonical`; once
    end-of-input is latched `_soxr_flush` folds `samples_in` into the owed count, which C03 covers.) -/
theorem supplied_consumed_once (num : Num) (fuel : Nat) (a a' : Api) (len0 od : Nat) (script rest : List Supply) (reqs : List Nat)
    (h : a.output num fuel len0 script = some (a', od, rest, reqs)) (herr : a.error = false) (hefl : a.eng.fl = false)
    (hfl' : a'.flushing = false) :
    ∃ used, script = used ++ rest ∧ a'.eng.sin = a.eng.sin + dataSum used := by
  unfold Api.output at h
  simp only [herr, Bool.false_eq_true, if_false] at h
  cases hp : pullLoop num fuel len0 (min a.maxIlen (num.iForO len0)) (script.length + 2) a len0 0 script [] with
  | none => simp [hp] at h
  | some v =>
    obtain ⟨b, od', rest', reqs'⟩ := v
    simp only [hp] at h
    injection h with h; injection h with h1 h; injection h with _ h; injection h with h3 _
    subst h1; subst h3
    obtain ⟨used, u1, u2, _⟩ := pullLoop_sin num fuel len0 _ _ a len0 0 script [] _ od' _ reqs' hp herr hefl hfl'
    exact ⟨used, u1, u2⟩

/-! ## non-vacuity: a scripted call on a concrete engine -/
def exApi : Api := { eng := { stages :=
  [ { cfg := { kind := .half, prePost := 32 }, st := { occ := 16, isz := 8192 } } ] }, hasFn := true, maxIlen := 64 }
def exNum : Num := { owed := fun n => n / 2, iForO := fun n => 2 * n }

example : ∃ r, exApi.output exNum 1000 10 [.data 64, .data 64, .fail, .data 100] = some r ∧ r.1.error = false ∧
    r.2.1 = 10 ∧ r.2.2.2 = [20] ∧ r.2.2.1 = [.data 64, .fail, .data 100] ∧ r.1.eng.sin = 64 ∧ r.1.flushing = false := by
  refine ⟨_, rfl, ?_, ?_, ?_, ?_, ?_, ?_⟩ <;> decide

/-- a failure at the first call: error state, the answers after it are never asked for -/
example : ∃ r, exApi.output exNum 1000 100 [.fail, .data 100] = some r ∧ r.1.error = true ∧ r.2.2.1 = [.data 100] := by
  refine ⟨_, rfl, ?_, ?_⟩ <;> decide

end Soxr.Properties.C18
