import SoxrModel.Conc.Safety
import SoxrModel.Conc.Witness
import SoxrModel.Conc.Vr
import SoxrModel.Conc.Two
/-!
# C17 — distinct resamplers can be used concurrently

"Different resampler objects may be created, run and deleted at the same time from different threads.  Under every
interleaving each object produces exactly the output it produces when run alone, and the process-wide FFT cache and
coefficient tables are never read while being rebuilt nor initialised twice."

The theorems are about the counter-abstraction model `Soxr.Conc` of one FFT cache (`fft4g_cache.h` + `ccrw2.h`; the model's
step function is checked against event traces of the real code on every run, see `Conc/Main.lean`) and the model
`Soxr.Conc.Vr` of `vr_init`'s tables.  They hold for **any number of threads** and **every interleaving** (induction over the
reachable states).

* After initialisation (`Good`): writer/reader exclusion, no read during a rebuild, readers find the tables built, the
  re-test after the upgrade makes every rebuild a strict growth (`FFT_LEN` and the tables are monotone, rebuilt at most once
  per growth), and nothing changes under a reader inside a transform.
* The initialisers themselves (`LSX_INIT_FFT_CACHE`, `vr_init`) are unguarded in the pinned tree: "never initialised twice"
  is **false** — negations proved by reachable witnesses (`init_twice_reachable`, `late_init_breaks_exclusion`, …; defect F9) —
  and holds only under the explicit hypothesis that initialisation has completed before a second thread enters
  (`init_once_partial`, `vr_init_once_partial`).
* "Each object produces exactly the output it produces when run alone" is not a statement about this model; it is what the
  falsifier measures on the real code under every explored schedule (the tables' content for a given length is a pure
  function of the length, so by `tables_stable_while_read` + `readers_find_tables_built` a transform sees the same
  tables as in a serial run; that the kernels are deterministic is the recorded assumption).
-/
namespace Soxr.C17
open Soxr.Conc

/-- "after initialisation": reachable under **every** interleaving from a state in which one complete, undisturbed
    `LSX_INIT_FFT_CACHE` has happened (`warm n`), or reachable from process start (`cold n`) by steps in which a thread enters
    the initialiser only while no other thread is inside it -/
inductive Good : St → Prop
  | warm (n : Nat) {s : St} : Reachable (warm n) s → Good s
  | coldSerial (n : Nat) {s : St} : ReachableS (cold n) s → Good s

theorem good_inv {s : St} (h : Good s) : Inv s := by
  cases h with
  | warm n h => exact (inv_of_reachable_warm h).1
  | coldSerial n h => exact inv_of_reachableS_cold h

/-- at most one thread holds the writer role, and then no thread holds the reader role -/
theorem writer_excludes_all {s : St} (h : Good s) : s.writersIn ≤ 1 ∧ (0 < s.writersIn → s.readersIn = 0) :=
  (good_inv h).writer_excl

/-- while any thread holds the reader role, no thread holds the writer role -/
theorem readers_exclude_writer {s : St} (h : Good s) : 0 < s.readersIn → s.writersIn = 0 :=
  (good_inv h).readers_excl

/-- no thread is inside a transform reading the tables while another re-allocates or rebuilds them (and at most one does) -/
theorem no_read_during_rebuild {s : St} (h : Good s) : s.rebuilding ≤ 1 ∧ (0 < s.rebuilding → s.reading = 0) :=
  ⟨(good_inv h).one_rebuilder, (good_inv h).no_read_during_rebuild⟩

/-- a reader inside a transform finds tables that are complete for the current `FFT_LEN`: it never builds them itself -/
theorem readers_find_tables_built {s : St} (h : Good s) : 0 < s.reading → 0 < s.flen ∧ s.tab = s.flen :=
  (good_inv h).tables_ready

/-- the thread that waited for the writer role re-tests `len > FFT_LEN`: whenever the store `FFT_LEN = len` is executed,
    `len` exceeds the current `FFT_LEN` (every rebuild is a strict growth) -/
theorem upgrade_rechecks {s t : St} (h : Good s) {len : Int} {z : Bool} (hf : fire (.store len z) s = some t) :
    s.flen < len ∧ t.flen = len ∧ t.nStore = s.nStore + 1 := by
  obtain ⟨g, rfl⟩ := fire_some hf
  exact ⟨(good_inv h).store_grows g, rfl, rfl⟩

/-- `FFT_LEN` and the length the tables are built for never decrease, whichever thread steps -/
theorem tables_monotone {s t : St} (h : Good s) (st : Step s t) : s.flen ≤ t.flen ∧ s.tab ≤ t.tab := by
  obtain ⟨l, hf⟩ := st
  obtain ⟨g, rfl⟩ := fire_some hf
  exact (good_inv h).mono l g

/-- the tables are re-allocated at most once per growth: never more often than `FFT_LEN` is large -/
theorem rebuilt_once_per_growth {s : St} (h : Good s) : 0 ≤ s.flen → (s.nStore : Int) ≤ s.flen :=
  (good_inv h).stores_le

/-- while a reader is inside a transform, no step of any thread changes `FFT_LEN` or the tables -/
theorem tables_stable_while_read {s t : St} (h : Good s) (st : Step s t) (hr : 0 < s.reading) :
    t.flen = s.flen ∧ t.tab = s.tab := by
  obtain ⟨l, hf⟩ := st
  obtain ⟨g, rfl⟩ := fire_some hf
  exact (good_inv h).stable_while_read l g hr

/-- from a finished initialisation, **every** interleaving of any number of threads is `Good` (no hypothesis on the schedule) -/
theorem all_interleavings_good_after_init {n : Nat} {s : St} (h : Reachable (warm n) s) : Good s := .warm n h

/-- PARTIAL (the unconditional statement is false, see below): if initialisation completes before a second thread enters it,
    the initialiser runs at most once, `FFT_LEN = 0` is stored at most once, and everything above holds from process start.
    Missing: the guard that would establish the hypothesis (the pinned `LSX_INIT_FFT_CACHE` has none). -/
theorem init_once_partial {n : Nat} {s : St} (h : ReachableS (cold n) s) :
    s.nInit ≤ 1 ∧ s.nReset ≤ 1 ∧ s.inInit ≤ 1 ∧ Good s :=
  have i := (inv_of_reachableS_cold h).init_once
  ⟨i.1, i.2.1, i.2.2, .coldSerial n h⟩

/-- NEGATION of "never initialised twice" on the model of the pinned code: with two threads the initialiser is entered twice -/
theorem init_twice_reachable : ∃ s, Reachable (cold 2) s ∧ s.nInit = 2 := by
  obtain ⟨s, hr, ho⟩ := exists_of_run_obs bothPass_run
  refine ⟨s, hr, ?_⟩
  simp only [obs, List.cons.injEq] at ho
  omega

theorem not_init_once : ¬ ∀ (n : Nat) (s : St), Reachable (cold n) s → s.nInit ≤ 1 := by
  intro h
  obtain ⟨s, hr, h2⟩ := init_twice_reachable
  have := h 2 s hr
  omega

/-- NEGATION of "never read while being rebuilt" from process start: the late second initialisation re-creates the locks and
    stores `FFT_LEN = 0` while the other thread is inside a transform; the late thread then holds the writer role and
    re-allocates the tables under the reader (F9) -/
theorem late_init_breaks_exclusion :
    ∃ s, Reachable (cold 2) s ∧ s.nInit = 2 ∧ s.nReset = 2 ∧ 0 < s.reading ∧ 0 < s.rebuilding := by
  obtain ⟨s, hr, ho⟩ := exists_of_run_obs f9Trace_run
  refine ⟨s, hr, ?_⟩
  simp only [obs, List.cons.injEq] at ho
  omega

theorem not_no_read_during_rebuild_from_start :
    ¬ ∀ (n : Nat) (s : St), Reachable (cold n) s → 0 < s.rebuilding → s.reading = 0 := by
  intro h
  obtain ⟨s, hr, -, -, h1, h2⟩ := late_init_breaks_exclusion
  have := h 2 s hr h2
  omega

set_option maxRecDepth 100000 in
/-- … and after that thread's store the reader is inside a transform with `FFT_LEN` reset to a smaller value and the tables
    marked empty (negation of `readers_find_tables_built` / `tables_monotone` from process start) -/
theorem late_init_shrinks_tables : ∃ s, Reachable (cold 2) s ∧ 0 < s.reading ∧ s.flen = 4 ∧ s.tab = 0 ∧ s.nStore = 2 := by
  have h : (run (f9Trace ++ [.store 4 true]) (cold 2)).map (fun s => obs s ++ [(s.nStore : Int)]) = some [1, 1, 1, 2, 2, 4, 0, 2] := by
    decide
  cases hr : run (f9Trace ++ [.store 4 true]) (cold 2) with
  | none => simp [hr] at h
  | some s =>
    refine ⟨s, reach_of_run _ hr, ?_⟩
    simp only [hr, Option.map_some, obs, Option.some.injEq, List.cons_append, List.nil_append, List.cons.injEq] at h
    omega

/-- two threads hold the writer role at once after a late second initialisation -/
theorem two_writers_reachable : ∃ s, Reachable (cold 2) s ∧ s.writersIn = 2 ∧ s.rebuilding = 2 := by
  obtain ⟨s, hr, ho⟩ := exists_of_run_obs twoWriters_run
  refine ⟨s, hr, ?_⟩
  simp only [obs, List.cons.injEq] at ho
  omega

/-! ## the point of use

`rdft`/`cdft` report the first dereference of the shared tables (`ip[0]`, then the twiddles) through the hook
`soxr_verif_table_use`; in the model that is the visible step `use_r` (a reader, `rd → ru`) or `use_w` (the writer, `wt → wu`,
before it rebuilds).  No other step of the model is a table use: a use by a thread that is neither a registered reader nor the
writer (e.g. a transform called on the shared tables without `UPDATE_FFT_CACHE`, or after `DONE_WITH_FFT_CACHE`) is not a step of
the model, the driver rejects the trace (TABLE-USE-OUTSIDE-LOCK). -/

/-- a table use is a step of the model only for a thread that holds the reader role or the writer role -/
theorem table_use_requires_role {l : Label} {s t : St} (hf : fire l s = some t) (hv : l.vis = .use) :
    (l = .use_r ∧ 0 < s.readersIn) ∨ (l = .use_w ∧ 0 < s.writersIn) := by
  obtain ⟨g, -⟩ := fire_some hf
  cases l <;> simp [Label.vis] at hv
  · left
    have := num_ge s readersW .rd g.1
    simp only [readersW] at this
    exact ⟨rfl, by show 0 < s.num readersW; omega⟩
  · right
    have := num_ge s writersW .wt g.1
    simp only [writersW] at this
    exact ⟨rfl, by show 0 < s.num writersW; omega⟩

/-- "never read while being rebuilt", at the point of use: when a reader dereferences the tables no thread is re-allocating or
    rebuilding them, they are complete for the current `FFT_LEN`, and the step changes neither -/
theorem reader_use_no_rebuild {s t : St} (h : Good s) (hf : fire .use_r s = some t) :
    s.rebuilding = 0 ∧ 0 < s.flen ∧ s.tab = s.flen ∧ t.flen = s.flen ∧ t.tab = s.tab := by
  obtain ⟨g, rfl⟩ := fire_some hf
  have hr : 0 < s.reading := by
    have := num_ge s readingW .rd g.1
    simp only [readingW] at this
    show 0 < s.num readingW; omega
  have nr := no_read_during_rebuild h
  have tb := readers_find_tables_built h hr
  refine ⟨?_, tb.1, tb.2, rfl, rfl⟩
  by_cases hne : s.rebuilding = 0
  · exact hne
  · have := nr.2 (Nat.pos_of_ne_zero hne); omega

/-- … and when the writer dereferences them (to rebuild them) it is the only thread that re-allocates or rebuilds, no thread is
    inside a transform reading them, and no thread holds the reader role -/
theorem writer_use_exclusive {s t : St} (h : Good s) (hf : fire .use_w s = some t) :
    s.rebuilding = 1 ∧ s.reading = 0 ∧ s.writersIn = 1 ∧ s.readersIn = 0 ∧ t.flen = s.flen ∧ t.tab = s.tab := by
  obtain ⟨g, rfl⟩ := fire_some hf
  have h1 : 0 < s.rebuilding := by
    have := num_ge s rebuildingW .wt g.1
    simp only [rebuildingW] at this
    show 0 < s.num rebuildingW; omega
  have h2 : 0 < s.writersIn := by
    have := num_ge s writersW .wt g.1
    simp only [writersW] at this
    show 0 < s.num writersW; omega
  have nr := no_read_during_rebuild h
  have we := writer_excludes_all h
  refine ⟨by omega, nr.2 h1, by omega, we.2 h2, rfl, rfl⟩

/-! ## two caches: the locks of the double and of the float cache are different objects

Everything above is about one cache.  The process has two; that they do not interfere is the assumption built into `SysStep`
(a step with respect to one cache changes nothing of the other: different `ccrw2_t`, `FFT_LEN`, tables), checked on the real
code by the harness monitor `LOCK-SHARED-BETWEEN-CACHES`. -/

/-- HYPOTHESIS EXPLICIT (`SysStep`): if the two caches share no variable, then after both are initialised every interleaving of
    any number of threads through both caches keeps BOTH `Good`, i.e. every theorem above holds for each of them -/
theorem both_caches_good {n m : Nat} {s : Sys} (h : SysReachable ⟨warm n, warm m⟩ s) : Good s.d ∧ Good s.f :=
  ⟨.warm n (sys_proj h).1, .warm m (sys_proj h).2⟩

/-- … and from process start, as long as neither cache's initialisation is raced -/
theorem both_caches_good_partial {n m : Nat} {d f : St} (hd : ReachableS (cold n) d) (hf : ReachableS (cold m) f) :
    Good d ∧ Good f := ⟨.coldSerial n hd, .coldSerial m hf⟩

/-- NEGATION with the hypothesis dropped (one `ccrw2_t` serving both caches, each cache keeping its own first-use guard): the
    other cache's initialiser re-creates the lock words while a reader of this cache is inside a transform; a second thread
    then takes `w` and re-allocates the tables under that reader — from a `Good` state, with no raced initialisation of THIS
    cache.  With the lock intact the same thread is stopped at `P(w)` (`grow_blocked_run`). -/
theorem shared_lock_breaks_exclusion :
    ∃ s u, Good s ∧ run growUnderReaderTrace (foreignInit s) = some u ∧ 0 < u.reading ∧ 0 < u.rebuilding ∧
      run growUnderReaderTrace s = none := by
  have h1 := grow_after_foreignInit_run
  have h2 := grow_blocked_run
  -- (propositional rewriting only: a definitional unfolding of `run` on a symbolic state is hopeless for the kernel)
  cases hr : run readerInTrace (warm 2) with
  | none => rw [hr] at h1; exact absurd h1 (by simp)
  | some s =>
    rw [hr, Option.bind_some] at h1 h2
    cases hu : run growUnderReaderTrace (foreignInit s) with
    | none => rw [hu] at h1; exact absurd h1 (by simp)
    | some u =>
      rw [hu, Option.map_some] at h1
      have h3 := Option.some.inj h1
      simp only [obs, List.cons.injEq] at h3
      refine ⟨s, u, .warm 2 (reach_of_run _ hr), hu, by omega, by omega, ?_⟩
      cases hb : run growUnderReaderTrace s with
      | none => rfl
      | some _ => rw [hb] at h2; exact absurd h2 (by simp)

/-! ## `vr_init`'s tables -/

/-- PARTIAL: if no thread executes the test `fade_coefs[0]==0` while another is inside the initialiser, the tables are written
    at most once and never used while being written.  Missing: any guard in `vr_init`. -/
theorem vr_init_once_partial {n : Nat} {s : Vr.St} (h : Vr.ReachableS (Vr.cold n) s) :
    s.nFill ≤ 1 ∧ (0 < s.vu → s.v2 = 0 ∧ s.fade0 = 1) := by
  obtain ⟨h1, h2, h3, h4, h5⟩ := Vr.inv_of_reachableS h
  refine ⟨?_, fun hu => ⟨h5 hu, ?_⟩⟩
  · by_cases hf : s.fade0 = 0
    · have := h3 hf; omega
    · have := h4 (by omega); omega
  · by_cases hf : s.fade0 = 0
    · have := h3 hf; omega
    · omega

/-- NEGATION: two threads pass the test before either stores `fade_coefs[0]`; the tables are written twice -/
theorem vr_init_twice_reachable : ∃ s, Vr.Reachable (Vr.cold 2) s ∧ s.nFill = 2 :=
  ⟨_, Vr.run_reachable _ _ _ .init Vr.twice_run, rfl⟩

/-- NEGATION: a second thread sees `fade_coefs[0] != 0` and uses the tables while the first is still computing them -/
theorem vr_use_during_init_reachable : ∃ s, Vr.Reachable (Vr.cold 2) s ∧ 0 < s.vu ∧ 0 < s.v2 :=
  ⟨_, Vr.run_reachable _ _ _ .init Vr.earlyUse_run, by decide, by decide⟩

/-! ## non-vacuity: the hypotheses are met by concrete, non-trivial reachable states -/

/-- a `Good` state in which a writer is re-allocating (hypothesis `0 < rebuilding` of `no_read_during_rebuild`) -/
example : ∃ s, Good s ∧ s.writersIn = 1 ∧ s.rebuilding = 1 ∧ s.flen = 8 := by
  obtain ⟨s, hr, ho⟩ := exists_of_run_obs writerIn_run
  refine ⟨s, .warm 2 hr, ?_⟩
  simp only [obs, List.cons.injEq] at ho
  omega

/-- a `Good` state with two readers inside transforms at once (hypothesis `0 < reading`) -/
example : ∃ s, Good s ∧ s.reading = 2 ∧ s.flen = 8 ∧ s.tab = 8 := by
  obtain ⟨s, hr, ho⟩ := exists_of_run_obs twoReaders_run
  refine ⟨s, .warm 3 hr, ?_⟩
  simp only [obs, List.cons.injEq] at ho
  omega

/-- the hypotheses of `reader_use_no_rebuild` / `writer_use_exclusive` are met: two readers, resp. the writer, at the point of use -/
example : ∃ s t, Good s ∧ fire .use_r s = some t := by
  cases hr : run twoReadersTrace (warm 3) with
  | none => have := twoReaders_at_use; simp [hr] at this
  | some s =>
    have h2 := twoReaders_at_use
    simp only [hr, Option.map_some, Option.some.injEq] at h2
    have hg : Soxr.Conc.guard .use_r s := ⟨by simp [Label.src, h2], by simp [guardX]⟩
    exact ⟨s, eff .use_r s, .warm 3 (reach_of_run _ hr), by simp [fire, hg]⟩

example : ∃ s t, Good s ∧ fire .use_w s = some t := by
  cases hr : run writerInTrace (warm 2) with
  | none => have := writerIn_at_use; simp [hr] at this
  | some s =>
    have h2 := writerIn_at_use
    simp only [hr, Option.map_some, Option.some.injEq] at h2
    have hg : Soxr.Conc.guard .use_w s := ⟨by simp [Label.src, h2], by simp [guardX]⟩
    exact ⟨s, eff .use_w s, .warm 2 (reach_of_run _ hr), by simp [fire, hg]⟩

/-- the hypothesis of `both_caches_good` is met by a run in which both caches are used: the double cache grown, a float reader -/
example : ∃ s : Sys, SysReachable ⟨warm 2, warm 2⟩ s ∧ s.d.flen = 8 ∧ 0 < s.f.cnt .r2 := by
  cases hr : run readerInTrace (warm 2) with
  | none => have := grow_after_foreignInit_run; rw [hr] at this; exact absurd this (by simp)
  | some d =>
    have hd : d.flen = 8 := by
      have h : (run readerInTrace (warm 2)).map (fun s => s.flen) = some 8 := by decide
      rw [hr, Option.map_some] at h
      exact Option.some.inj h
    cases hf : run [.call, .i0_warm, .r1] (warm 2) with
    | none => have h : (run [.call, .i0_warm, .r1] (warm 2)).isSome = true := by decide
              rw [hf] at h; exact absurd h (by simp)
    | some f =>
      have hc : 0 < f.cnt .r2 := by
        have h : (run [.call, .i0_warm, .r1] (warm 2)).map (fun s => s.cnt .r2) = some 1 := by decide
        rw [hf, Option.map_some] at h
        have := Option.some.inj h
        omega
      -- lift the two single-cache runs to the product
      have liftD : ∀ {a b : St} (x : St), Reachable a b → SysReachable ⟨a, x⟩ ⟨b, x⟩ := by
        intro a b x h
        induction h with
        | init => exact .init
        | step _ st ih => exact .step ih (.dbl x st)
      have liftF : ∀ {a b : St} (x : St), Reachable a b → SysReachable ⟨x, a⟩ ⟨x, b⟩ := by
        intro a b x h
        induction h with
        | init => exact .init
        | step _ st ih => exact .step ih (.flt x st)
      have trans : ∀ {a b c : Sys}, SysReachable a b → SysReachable b c → SysReachable a c := by
        intro a b c h1 h2
        induction h2 with
        | init => exact h1
        | step _ st ih => exact .step ih st
      exact ⟨⟨d, f⟩, trans (liftD (warm 2) (reach_of_run _ hr)) (liftF d (reach_of_run _ hf)), hd, hc⟩

/-- the re-test matters: a `Good` state in which a thread that upgraded finds `len > FFT_LEN` false (another thread grew the
    cache while it waited) and downgrades -/
example : ∃ s, Good s ∧ s.cnt .d1 = 1 ∧ s.flen = 8 := by
  cases hr : run downgradeTrace (warm 2) with
  | none => have := downgrade_run; simp [hr] at this
  | some s =>
    have := downgrade_run
    simp only [hr, Option.map_some, Option.some.injEq, Prod.mk.injEq] at this
    exact ⟨s, .warm 2 (reach_of_run _ hr), this.1, this.2⟩

set_option maxRecDepth 100000 in
/-- the serial-initialisation hypothesis of `init_once_partial` is satisfiable all the way through a first use -/
example : ∃ s, ReachableS (cold 2) s ∧ s.flen = 0 ∧ s.nInit = 1 := by
  have h : (run ([.call, .i0_cold] ++ initSeq) (cold 2)).map (fun s => (s.flen, s.nInit)) = some (0, 1) := by decide
  have hs : ∀ (ls : List Label) (s t : St), (∀ l ∈ ls, l ≠ .i0_cold) → ReachableS (cold 2) s → run ls s = some t →
      ReachableS (cold 2) t := by
    intro ls
    induction ls with
    | nil => intro s t _ hr e; simp [run] at e; exact e ▸ hr
    | cons l ls ih =>
      intro s t hn hr e
      simp only [run] at e
      cases hf : fire l s with
      | none => simp [hf] at e
      | some u =>
        simp only [hf, Option.bind_some] at e
        exact ih u t (fun l' hl' => hn l' (List.mem_cons_of_mem _ hl')) (.step hr ⟨l, hf, fun e => absurd e (hn l List.mem_cons_self)⟩) e
  -- first two steps by hand (the cold test is taken while nobody is inside the initialiser), the rest has no cold test
  cases h1 : fire .call (cold 2) with
  | none => simp [run, initSeq, h1] at h
  | some s1 =>
    cases h2 : fire .i0_cold s1 with
    | none => simp [run, initSeq, h1, h2] at h
    | some s2 =>
      have r1 : ReachableS (cold 2) s1 := .step .init ⟨.call, h1, fun e => by cases e⟩
      have hin : s1.inInit = 0 := by
        obtain ⟨-, rfl⟩ := fire_some h1
        decide
      have r2 : ReachableS (cold 2) s2 := .step r1 ⟨.i0_cold, h2, fun _ => hin⟩
      cases h3 : run initSeq s2 with
      | none => simp [run, h1, h2, h3] at h
      | some s3 =>
        have r3 := hs initSeq s2 s3 (by decide) r2 h3
        simp only [List.cons_append, List.nil_append, run, h1, h2, Option.bind_some, h3, Option.map_some,
          Option.some.injEq, Prod.mk.injEq] at h
        exact ⟨s3, r3, h.1, h.2⟩

end Soxr.C17
