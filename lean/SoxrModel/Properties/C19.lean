import SoxrModel.Lsr.Invariant
import SoxrModel.Conv.LemmasProps
import SoxrModel.Conv.LemmasLsr

/-!
# C19 — the libsamplerate-compatible wrapper keeps the `SRC_DATA` contract

Model: `SoxrModel/Lsr/Model.lean` — `soxr-lsr.c` and the API layer of `soxr.c` under it (`soxr_set_io_ratio` with lazy
initialisation, `soxr_set_error` **as written** (inverted), `fatal_error`, `soxr_clear`, `soxr_process` with the
`~input_frames` encoding on 64-bit words and `soxr_i_for_o` in correctly rounded `double` arithmetic, `soxr_input`,
`soxr_output` with its pull loop) as a state machine over an **abstract engine**: every call into the engine is an event,
every answer of the engine / of the caller's callback comes from an oracle.  Theorems hold for **every oracle** (any engine
answers, any callback answers, any number of pull-loop iterations), every object state, every argument value.
The engine law E2 (`resampler_output` hands over at most what was asked) is part of the abstract engine (`askOutput`);
the laws used for the totals clause (exact drain C03, progress C08) are explicit hypotheses of `totals_owed_then_zero`.
The array helpers are `Conv.lsrToShort / lsrToInt / lsrToFloat` on exact dyadics (every float32 value is one).

Clauses and theorems
* `~input_frames`                         `eoi_encoding_roundtrip`
* used ≤ input_frames, gen ≤ output_frames `process_contract`, `callback_read_contract`, `simple_contract`
  (all three for any engine, any callback script, any state; `pull_loop_bound` is the loop lemma)
* totals = owed, then 0                    `totals_owed_then_zero` (engine laws as hypotheses), `drain_call_reports_engine_answer`
* src_reset = fresh                        `reset_is_fresh` (every converter id, any history), `reset_of_new_is_noop`;
                                           `reset_on_clear_not_fresh_historical`: what ids 3, 4, 5 did before /repo's repair
                                           88f0e06 (finding F31, fixed) — still what `RESET_ON_CLEAR` objects of `soxr.h` do
* NULL converter / data ⇒ error code       `null_arguments_give_error` (every entry point incl. `src_error`, since a55ec94;
                                           findings F32, F33 fixed)
* per-call ratio change, as written        `set_error_never_records`, `refused_ratio_change_is_noop`, `same_ratio_accepted`
* src_simple on failure                    `simple_failure_reports_zero`
* helpers                                  `float_to_short_is_reference`, `float_to_int_is_reference`, `helpers_nearest`,
                                           `helpers_saturate`, `helpers_nonfinite`, `short_float_short_exact`,
                                           `int_float_int_exact`, `short_to_float_exact`
* constants read from /repo               `generated_constants`
* outside the contract (why the assumptions are needed)  `invalid_ratio_crashes`
* a failed create, then `src_reset`           `failed_create_then_reset_reports_error` (as repaired by /repo b5a678f, finding F40);
                                           `failed_create_then_reset_crashed_historical`

* no crash with a valid ratio              `no_crash_in_contract` (single call, any engine / callback behaviour)
* its hypothesis is an invariant            `channels_invariant_process` (the former `Goal_channels_invariant`: every oracle, no side
                                           hypothesis), `channels_invariant_read`, `channels_invariant_set_ratio`,
                                           `wellformed_invariant_reset` (every entry point keeps `Wf`: channels set and not torn
                                           down, or torn down and carrying the error), `wellformed_invariant_step`;
                                           `channels_invariant_reset_violated_historical` (the pre-repair `soxr_clear`, F40)
* no crash, every sequence                 `no_crash_every_sequence` — full strength: from `src_new` / `src_callback_new`, every
                                           sequence of in-contract calls incl. `src_reset`, EVERY oracle (failing
                                           `resampler_create` included); `channels_kept_without_failing_create`
-/

set_option exponentiation.threshold 4096
namespace Soxr.Lsr.C19
open Soxr.Lsr Soxr.Conv

/-! ## the end-of-input encoding -/

/-- `(size_t)(io->end_of_input ? ~io->input_frames : io->input_frames)` is decoded by `soxr_process` to exactly
    (`end_of_input`, `input_frames`) for every non-negative `input_frames` (64-bit words). -/
theorem eoi_encoding_roundtrip (n : BitVec 64) (h : n.msb = false) :
    decodeIlen (~~~n) = (true, n) ∧ decodeIlen n = (false, n) := decodeIlen_roundtrip n h

example : (1000#64).msb = false := by decide

/-- the hypothesis is needed: a negative `input_frames` without `end_of_input` is taken for an end-of-input block of
    `-input_frames - 1` frames (the code reads that many frames from `data_in`). -/
theorem negative_input_frames_read_as_flush : decodeIlen (BitVec.ofInt 64 (-5)) = (true, 4#64) := by decide

/-! ## the `SRC_DATA` contract -/

/-- **`src_process`**: whatever the converter's state, the engine's and the callback's answers: both counts are
    reported, `input_frames_used ≤ input_frames`, `output_frames_gen ≤ output_frames`. -/
theorem process_contract (fuel : Nat) (o : Obj) (d : Data) (hin : d.inFrames.msb = false) (c c' : Ctx)
    (p' : Option Obj) (r : PRes) (h : srcProcess fuel (some o) (some d) c = .ok (p', r) c') :
    ∃ u g, r.used = some u ∧ r.gen = some g ∧ u ≤ d.inFrames.toNat ∧ g ≤ d.outFrames.toNat :=
  srcProcess_contract fuel o d hin c c' p' r h

/-- a run that returns: converter 4, 2 channels, ratio 2.0, 100 frames in, room for 300, end of input; the engine is
    created twice, takes 100 frames per channel, is flushed and hands over 200. -/
example : srcProcess 3 (some (fresh 4 2 false)) (some ⟨0x4000000000000000, 100#64, 300#64, true, false, false⟩)
      ⟨[], [.c true, .c true, .g 200, .g 200]⟩ =
    .ok (some { fresh 4 2 false with ioRatio := 0x3fe0000000000000, inited := true, flushing := true },
         ⟨0, some 100, some 200⟩)
      ⟨[.output 200, .process 300, .flush, .output 200, .process 300, .flush, .input 100, .input 100,
        .create 0x3fe0000000000000 true, .create 0x3fe0000000000000 true], []⟩ := by decide +kernel

/-- the loop lemma: `soxr_output` never delivers more than was asked for, for any number of iterations. -/
theorem pull_loop_bound (fuel : Nat) (o : Obj) (outNull : Bool) (len0 : Nat) (c c' : Ctx) (o' : Obj) (r : Nat)
    (h : soxrOutput fuel o outNull len0 c = .ok (o', r) c') : r ≤ len0 := soxrOutput_le fuel o outNull len0 c c' o' r h

/-- **`src_callback_read`** returns `-1` for a NULL converter or a negative length (touching nothing), otherwise a count
    between 0 and `olen` — for every callback script (short, zero, NULL supplies) and every engine. -/
theorem callback_read_contract (fuel : Nat) (p : Option Obj) (ratio : D) (olen : BitVec 64) (outNull : Bool)
    (c c' : Ctx) (p' : Option Obj) (ret : Int) (h : srcCallbackRead fuel p ratio olen outNull c = .ok (p', ret) c') :
    (p = none ∨ olen.msb = true → ret = -1 ∧ p' = p ∧ c' = c) ∧
    (p ≠ none → olen.msb = false → 0 ≤ ret ∧ ret ≤ olen.toNat) :=
  srcCallbackRead_contract fuel p ratio olen outNull c c' p' ret h

/-- a read of 200 frames at ratio 1.5: nothing yet, callback supplies 64, nothing yet, callback supplies 0 (end), flush: 96. -/
example : srcCallbackRead 9 (some (fresh 1 1 true)) 0x3ff8000000000000 200#64 false
      ⟨[], [.c true, .g 0, .k 64 false, .g 0, .k 0 false, .g 96]⟩ =
    .ok (some { fresh 1 1 true with ioRatio := 0x3fe5555555555555, inited := true, flushing := true }, 96)
      ⟨[.output 96, .process 200, .flush, .cb 0 false, .output 0, .process 200, .input 64, .cb 64 false, .output 0,
        .process 200, .create 0x3fe5555555555555 true], []⟩ := by decide +kernel

/-- **`src_simple`**: when it completes, the counts are within the offered sizes. -/
theorem simple_contract (fuel : Nat) (d : Data) (id : Nat) (chans : Int) (c c' : Ctx) (rc : Int) (u g : Nat)
    (h : srcSimple fuel (some d) id chans c = .ok (.done rc u g) c') :
    u ≤ d.inFrames.toNat ∧ g ≤ d.outFrames.toNat ∧ d.inFrames.msb = false :=
  srcSimple_contract fuel d id chans c c' rc u g h

example : srcSimple 3 (some ⟨0x3ff4000000000000, 100#64, 200#64, false, false, false⟩) 2 1 ⟨[], [.c true, .g 125]⟩ =
    .ok (.done 0 100 125) ⟨[.close, .output 125, .process 200, .flush, .input 100, .create 0x3fe999999999999a true], []⟩ := by
  decide +kernel

/-! ## totals -/

/-- **Totals**: along any run of calls with `end_of_input` set in which the engine obeys E2, exact drain (C03: never more
    than the owed total) and progress (C08: something is delivered while output is owed and room is offered), the first
    call that returns 0 although room was offered comes exactly when the owed total has been delivered, and every later
    call returns 0.  (`owed` is `round(input · src_ratio)` for the engines by the delay relation C03; the check's
    falsifier measures it on the real code.) -/
theorem totals_owed_then_zero (owed tout : Nat) (pre post : List Drain) (d : Drain) (h0 : tout ≤ owed)
    (h : Lawful owed tout (pre ++ d :: post)) (hroom : 0 < d.olen) (hz : d.g = 0) :
    tout + delivered pre = owed ∧ ∀ e ∈ post, e.g = 0 :=
  Soxr.Lsr.totals_owed_then_zero owed tout pre post d h0 h hroom hz

example : Lawful 200 0 ([⟨150, 150⟩, ⟨0, 0⟩, ⟨150, 50⟩] ++ ⟨100, 0⟩ :: [⟨7, 0⟩]) := by
  simp [Lawful]

/-- what a drain call reports is the engine's answer: a running one-channel converter that is flushing, room for `len`
    frames, engine answer `g`: `soxr_output` flushes, asks for `len`, and returns `min g len` (the `min` is E2). -/
theorem drain_call_reports_engine_answer (o : Obj) (len g : Nat) (evs : List Ev) (rest : List Tok)
    (he : o.error = none) (hch : o.chans = 1) (hi : o.inited = true) (hfl : o.flushing = true) :
    soxrOutput 1 o false len ⟨evs, .g g :: rest⟩ =
      .ok (o, min g len) ⟨.output (min g len) :: .process len :: .flush :: evs, rest⟩ := by
  obtain ⟨cfg, chans, io, error, inited, dead, hasFn, maxIlen, flushing⟩ := o
  simp only at he hch hi hfl
  subst he hch hi hfl
  simp [soxrOutput, pullLoop, outputNoCallback, outChans, M.bind, M.pure, emit, askOutput]

/-! ## `src_reset` -/

/-- **`src_reset` = fresh, every converter id** (no id carries `RESET_ON_CLEAR` since /repo's repair 88f0e06, see
    `generated_constants`): any history, any stored error, running or not — the engine instances are closed, the object
    is the one `src_new` returns, the return code is 0. -/
theorem reset_is_fresh (id chans : Nat) (fn : Bool) (hid : id < 6) (o : Obj) (hcfg : o.cfg = cfgOf id)
    (hch : o.chans = chans) (hfn : o.hasFn = fn) (hmax : o.maxIlen = 2 ^ 64 - 1) (hdead : o.dead = false) (c : Ctx) :
    ∃ c', srcReset (some o) c = .ok (some (fresh id chans fn), 0) c' ∧ c'.toks = c.toks := by
  have hr : ∀ i < 6, (cfgOf i).reset = false := by decide
  exact reset_is_fresh_of_flag id chans fn o hcfg (hr id hid) hch hfn hmax hdead c

example : ({ fresh 4 2 false with ioRatio := 0x3fe0000000000000, inited := true, flushing := true, error := some .nullOut } : Obj).dead = false ∧
    ({ fresh 4 2 false with ioRatio := 0x3fe0000000000000, inited := true } : Obj).cfg = cfgOf 4 := by
  decide

/-- converter 4 after a run at ratio 2.0: `src_reset` closes the engine; the next `src_process` at ratio 0.5 creates it
    at `io_ratio` 2.0 and 100 frames in give 50 out — as on a new converter. -/
example :
    let used : Obj := { fresh 4 1 false with ioRatio := 0x3fe0000000000000, inited := true, flushing := true }
    let d : Data := ⟨0x3fe0000000000000, 100#64, 300#64, true, false, false⟩
    srcReset (some used) ⟨[], []⟩ = .ok (some (fresh 4 1 false), 0) ⟨[.close], []⟩ ∧
    srcProcess 3 (some (fresh 4 1 false)) (some d) ⟨[], [.c true, .g 50]⟩ =
      .ok (some { fresh 4 1 false with ioRatio := 0x4000000000000000, inited := true, flushing := true },
           ⟨0, some 100, some 50⟩)
        ⟨[.output 50, .process 300, .flush, .input 100, .create 0x4000000000000000 true], []⟩ := by decide +kernel

/-- HISTORICAL witness (finding F31, fixed by 88f0e06): before the repair `soxr_quality_spec` gave converter ids 3, 4, 5
    `RESET_ON_CLEAR` (`cfg.reset = true`).  On such an object — which is still what `soxr_clear` does for the ordinary
    recipes of `soxr.h` — `src_reset` after a run at ratio 2.0 closes the engine and creates it again **at the old
    `io_ratio` 0.5**; the next `src_process` at ratio 0.5 (`io_ratio` 2.0) is refused silently: return code 0, engine still
    at 0.5, 100 frames in give 200 out. -/
theorem reset_on_clear_not_fresh_historical :
    let new4 : Obj := { fresh 4 1 false with cfg := ⟨true, false⟩ }
    let used : Obj := { new4 with ioRatio := 0x3fe0000000000000, inited := true, flushing := true }
    let afterReset : Obj := { new4 with ioRatio := 0x3fe0000000000000, inited := true }
    let d : Data := ⟨0x3fe0000000000000, 100#64, 300#64, true, false, false⟩
    srcReset (some used) ⟨[], [.c true]⟩ = .ok (some afterReset, 0) ⟨[.create 0x3fe0000000000000 true, .close], []⟩ ∧
    afterReset ≠ new4 ∧
    srcProcess 3 (some afterReset) (some d) ⟨[], [.g 200]⟩ =
      .ok (some { afterReset with flushing := true }, ⟨0, some 100, some 200⟩)
        ⟨[.output 200, .process 300, .flush, .input 100], []⟩ := by decide +kernel

/-- on a converter that has not been used yet `src_reset` changes nothing and returns 0, whatever the id. -/
theorem reset_of_new_is_noop :
    srcReset (some (fresh 4 1 false)) ⟨[], []⟩ = .ok (some (fresh 4 1 false), 0) ⟨[], []⟩ ∧
    srcReset (some (fresh 1 1 false)) ⟨[], []⟩ = .ok (some (fresh 1 1 false), 0) ⟨[], []⟩ := by decide +kernel

/-- `soxr_clear` with `RESET_ON_CLEAR` (not a libsamplerate converter any more) on a used object is "close everything, forget error /
    flushing, then `soxr_set_io_ratio(p, old io_ratio, 0)` on the cleared object that keeps the old ratio" — a new
    converter that has already been given the old ratio. -/
theorem reset_is_fresh_partial (o : Obj) (hr : o.cfg.reset = true) (hc : o.chans ≠ 0) (hz : isZero o.ioRatio = false)
    (hd : o.dead = false) (c : Ctx) :
    soxrClear o c = M.bind (closeAll o) (fun _ =>
      setIoRatio { o with error := none, inited := false, flushing := false } o.ioRatio 0) c :=
  reset_with_flag o hr hc hz hd c

example : ({ fresh 4 1 false with cfg := ⟨true, false⟩, ioRatio := 0x3fe0000000000000 } : Obj).cfg.reset = true ∧
    isZero 0x3fe0000000000000 = false ∧ (fresh 4 1 false).dead = false := by decide +kernel


/-! ## NULL arguments -/

/-- **A NULL converter or data block yields `-1`, not a crash**, and nothing is touched: `src_process` (either NULL),
    `src_callback_read`, `src_set_ratio`, `src_reset`, `src_error`, `src_simple` (NULL data); `src_delete(NULL)` is a
    no-op. -/
theorem null_arguments_give_error (fuel : Nat) (p : Option Obj) (io : Option Data) (r : D) (olen : BitVec 64) (b : Bool)
    (id : Nat) (ch : Int) (c : Ctx) :
    (p = none ∨ io = none → srcProcess fuel p io c = .ok (p, ⟨-1, none, none⟩) c) ∧
    srcCallbackRead fuel none r olen b c = .ok (none, -1) c ∧
    srcSetRatio none r c = .ok (none, -1) c ∧
    srcReset none c = .ok (none, -1) c ∧
    srcError none c = .ok (-1) c ∧
    srcSimple fuel none id ch c = .ok .refused c ∧
    srcDelete none c = .ok () c :=
  ⟨fun h => srcProcess_null fuel p io h c, rfl, rfl, rfl, rfl, rfl, rfl⟩

/-! ## per-call ratio changes, as written -/

/-- `soxr_set_error` never records a new error: with none stored, the object is unchanged whatever it is given. -/
theorem set_error_never_records (o : Obj) (e : Option Err) (h : o.error = none) : setError o e = o :=
  setError_none o e h

/-- a running constant-rate converter (all LSR ids on the pinned tree: no engine has a `set_io_ratio` entry, see
    `generated_constants`) refuses a different ratio, and the refusal changes nothing and is not recorded: the old
    ratio stays in force and `src_process` carries on. -/
theorem refused_ratio_change_is_noop (o : Obj) (r : D) (slew : Nat) (he : o.error = none) (hc : o.chans ≠ 0)
    (hr : dpos r = true) (hi : o.inited = true) (hv : o.cfg.vr = false) (hd : closeTo o.ioRatio r = false) (c : Ctx) :
    setIoRatio o r slew c = .ok (o, some .varying) c ∧ setError o (some .varying) = o :=
  ⟨setIoRatio_refused o r slew he hc hr hi hv hd c, setError_none o _ he⟩

example : closeTo 0x3fe0000000000000 0x4000000000000000 = false ∧ dpos 0x4000000000000000 = true := by decide +kernel

/-- the same ratio (reciprocal within `1e-15` of the stored one) is accepted and changes nothing. -/
theorem same_ratio_accepted (o : Obj) (r : D) (slew : Nat) (he : o.error = none) (hc : o.chans ≠ 0)
    (hr : dpos r = true) (hi : o.inited = true) (hv : o.cfg.vr = false) (hd : closeTo o.ioRatio r = true) (c : Ctx) :
    setIoRatio o r slew c = .ok (o, none) c := setIoRatio_same o r slew he hc hr hi hv hd c

example : closeTo 0x3fe0000000000000 0x3fe0000000000001 = true := by decide +kernel

/-! ## `src_simple` on failure -/

/-- with `src_ratio = 0` (or negative, or NaN) `soxr_create` fails inside `soxr_oneshot`: `-1` and both counts 0 (since
    a55ec94; before it two uninitialised locals were copied out, finding F33); with NULL data / bad sizes nothing is
    written. -/
theorem simple_failure_reports_zero :
    srcSimple 3 (some ⟨0, 100#64, 400#64, false, false, false⟩) 2 1 ⟨[], []⟩ = .ok (.done (-1) 0 0) ⟨[], []⟩ ∧
    srcSimple 3 (some ⟨0xBFF0000000000000, 100#64, 400#64, false, false, false⟩) 2 1 ⟨[], []⟩ = .ok (.done (-1) 0 0) ⟨[], []⟩ ∧
    srcSimple 3 (some ⟨0x3ff0000000000000, 100#64, 400#64, false, false, false⟩) 2 0 ⟨[], []⟩ = .ok .refused ⟨[], []⟩ := by
  decide +kernel

/-! ## outside the contract: why the assumptions are there -/

/-- an invalid `src_ratio` (here `-1.0`) on a new converter: the error of `soxr_set_io_ratio` is lost in
    `soxr_set_error`, `soxr_process` runs on the uninitialised object and dereferences `p->resamplers` (NULL). -/
theorem invalid_ratio_crashes :
    srcProcess 3 (some (fresh 0 1 false)) (some ⟨0xBFF0000000000000, 10#64, 10#64, false, false, false⟩) ⟨[], []⟩ =
      .crash ⟨[], []⟩ := by decide +kernel

/-- a failing `resampler_create` (here: `src_ratio = 0`, `io_ratio = inf`) leaves the torn-down object with the error;
    `src_reset` refuses it (`-1`, error kept); the next `src_process` reports the error with zero counts — no crash
    (as repaired by /repo b5a678f; regression sequence `fixed-failed-create-reset` of the check, with `src_ratio = 2^-32`). -/
theorem failed_create_then_reset_reports_error :
    let d0 : Data := ⟨0, 10#64, 10#64, false, false, false⟩
    let d1 : Data := ⟨0x3ff0000000000000, 10#64, 10#64, false, false, false⟩
    srcProcess 3 (some (fresh 0 1 false)) (some d0) ⟨[], [.c false]⟩ =
      .ok (some (deadObj .engine), ⟨-1, some 0, some 0⟩) ⟨[.close, .create 0x7ff0000000000000 false], []⟩ ∧
    srcReset (some (deadObj .engine)) ⟨[], []⟩ = .ok (some (deadObj .engine), -1) ⟨[], []⟩ ∧
    srcProcess 3 (some (deadObj .engine)) (some d1) ⟨[], []⟩ = .ok (some (deadObj .engine), ⟨-1, some 0, some 0⟩) ⟨[], []⟩ ∧
    srcCallbackRead 3 (some (deadObj .engine)) 0x3ff0000000000000 10#64 false ⟨[], []⟩ = .ok (some (deadObj .engine), 0) ⟨[], []⟩ := by
  decide +kernel

/-- HISTORICAL (finding F40, fixed by /repo b5a678f): with the pre-repair `soxr_clear`, `src_reset` dropped the error of the
    torn-down object and the next call crashed.  Replayed on the real code before the repair (`src_ratio = 2^-32`:
    `src_process` -1, `src_reset` 0, `src_error` 0, next `src_process` SIGSEGV), model and code agreeing op by op. -/
theorem failed_create_then_reset_crashed_historical :
    let d1 : Data := ⟨0x3ff0000000000000, 10#64, 10#64, false, false, false⟩
    Historical.srcResetPre (some (deadObj .engine)) ⟨[], []⟩ = .ok (some { deadObj .engine with error := none }, 0) ⟨[], []⟩ ∧
    srcProcess 3 (some { deadObj .engine with error := none }) (some d1) ⟨[], []⟩ = .crash ⟨[], []⟩ := by decide +kernel

/-- **No crash with a valid ratio**: `src_process` and `src_callback_read` cannot reach a crash site of the model for a
    valid `src_ratio` (`1 / src_ratio > 0`) on any object that is not "zeroed with its error dropped"
    (`error = none → num_channels ≠ 0`: true of every new converter) — whatever the engine and the callback answer, whether
    `resampler_create` fails or not, for any buffer pointers and sizes. -/
theorem no_crash_in_contract (fuel : Nat) (o : Obj) (d : Data) (ratio : D) (olen : BitVec 64) (outNull : Bool)
    (hch : o.error = none → o.chans ≠ 0) (c c' : Ctx) :
    (dpos (recip d.ratio) = true → srcProcess fuel (some o) (some d) c ≠ .crash c') ∧
    (dpos (recip ratio) = true → srcCallbackRead fuel (some o) ratio olen outNull c ≠ .crash c') :=
  ⟨fun hr => srcProcess_no_crash fuel o d hch hr c c', fun hr => srcCallbackRead_no_crash fuel o ratio olen outNull hch hr c c'⟩

example : ((fresh 3 2 true).error = none → (fresh 3 2 true).chans ≠ 0) ∧ dpos (recip 0x3ff8000000000000) = true := by
  decide +kernel

/-! ## the hypothesis of `no_crash_in_contract` as an invariant

Formerly `def Goal_channels_invariant : Prop := ∀ fuel o d c c' o' r, (o.error = none → o.chans ≠ 0) →
srcProcess fuel (some o) (some d) c = .ok (some o', r) c' → (o'.error = none → o'.chans ≠ 0)` — now
`channels_invariant_process`; the other entry points and the lift to sequences follow (`src_reset` broke it before /repo
b5a678f: finding F40, kept as historical witness).
`Inv o` is `o.error = none → o.chans ≠ 0`; `Live o` is `o.chans ≠ 0`; `NoFail toks`: the oracle has no failing
`resampler_create` (`Lsr/Invariant.lean`). -/

/-- **`src_process` keeps the invariant** — for every oracle (a failing `resampler_create` zeroes the channel count but
    stores the error), every data block, in contract or not. -/
theorem channels_invariant_process (fuel : Nat) (o : Obj) (d : Data) (c c' : Ctx) (o' : Obj) (r : PRes)
    (hi : o.error = none → o.chans ≠ 0) (h : srcProcess fuel (some o) (some d) c = .ok (some o', r) c') :
    o'.error = none → o'.chans ≠ 0 := by
  obtain ⟨o2, e, i2⟩ := srcProcess_inv fuel o d hi c c' _ r h
  cases e; exact i2

example : srcProcess 3 (some (fresh 0 1 false)) (some ⟨0, 10#64, 10#64, false, false, false⟩) ⟨[], [.c false]⟩ =
    .ok (some (deadObj .engine), ⟨-1, some 0, some 0⟩) ⟨[.close, .create 0x7ff0000000000000 false], []⟩ ∧
    Inv (deadObj .engine) := ⟨by decide +kernel, fun h => by cases h⟩

/-- `src_callback_read` keeps it (every oracle). -/
theorem channels_invariant_read (fuel : Nat) (o : Obj) (ratio : D) (olen : BitVec 64) (outNull : Bool) (c c' : Ctx)
    (o' : Obj) (ret : Int) (hi : Inv o) (h : srcCallbackRead fuel (some o) ratio olen outNull c = .ok (some o', ret) c') :
    Inv o' := by
  obtain ⟨o2, e, i2⟩ := srcCallbackRead_inv fuel o ratio olen outNull hi c c' _ ret h
  cases e; exact i2

/-- `src_set_ratio` keeps it (every oracle, any ratio) and never crashes. -/
theorem channels_invariant_set_ratio (o : Obj) (ratio : D) (c c' : Ctx) (o' : Obj) (rc : Int) (hi : Inv o)
    (h : srcSetRatio (some o) ratio c = .ok (some o', rc) c') : Inv o' ∧ ∀ c'', srcSetRatio (some o) ratio c ≠ .crash c'' := by
  obtain ⟨n1, n2⟩ := srcSetRatio_step o ratio c
  obtain ⟨o2, e, i2, -⟩ := n2 _ _ _ h
  cases e; exact ⟨i2 hi, n1⟩

/-- **`src_reset` keeps the object well-formed** (every oracle): `Wf o` — channels set and not torn down, or torn down by
    `fatal_error` and carrying the error — implies the hypothesis of `no_crash_in_contract`, and `src_reset` never crashes
    and returns a `Wf` object: a torn-down one is refused and keeps its error (/repo b5a678f), any other is cleared. -/
theorem wellformed_invariant_reset (o : Obj) (c c' : Ctx) (o' : Obj) (rc : Int) (hw : Wf o)
    (h : srcReset (some o) c = .ok (some o', rc) c') :
    Wf o' ∧ (o'.error = none → o'.chans ≠ 0) ∧ (NoFail c.toks → Live o → Live o') ∧
    ∀ c'', srcReset (some o) c ≠ .crash c'' := by
  obtain ⟨n1, n2⟩ := srcReset_step o c
  obtain ⟨o2, e, w2, l2⟩ := n2 _ _ _ h
  cases e; exact ⟨w2 hw, (w2 hw).inv, l2, n1⟩

example : Wf (deadObj .engine) ∧ Wf (fresh 2 1 false) ∧ NoFail [.c true, .g 5] :=
  ⟨Or.inr ⟨rfl, fun h => by cases h⟩, Or.inl ⟨by decide, rfl⟩, by unfold NoFail; decide⟩

/-- HISTORICAL (finding F40): the pre-repair `src_reset` did not keep the invariant. -/
theorem channels_invariant_reset_violated_historical :
    Inv (deadObj .engine) ∧
    Historical.srcResetPre (some (deadObj .engine)) ⟨[], []⟩ = .ok (some { deadObj .engine with error := none }, 0) ⟨[], []⟩ ∧
    ¬ Inv { deadObj .engine with error := none } := Historical.reset_breaks_inv

/-- one in-contract call of any kind (with its own oracle, as the driver runs it) from a well-formed object, **every
    oracle**: no crash, the result is well-formed; the channel count is kept when no `resampler_create` fails. -/
theorem wellformed_invariant_step (fuel : Nat) (o : Obj) (op : Op) (toks : List Tok) (hc : op.inContract) (hw : Wf o) :
    stepOp fuel o op toks ≠ .crash ∧
    (∀ o', stepOp fuel o op toks = .ok o' → Wf o' ∧ (NoFail toks → Live o → Live o')) := stepOp_spec fuel o op toks hc hw

/-- **No crash, every sequence — full strength**: from the object `src_new` / `src_callback_new` returns (any converter
    id, any positive channel count), through every sequence of in-contract calls — `src_process` / `src_callback_read` with
    a valid ratio and any sizes, buffers, `end_of_input`; `src_set_ratio` with any ratio; `src_reset`; `src_error` — for
    **every** oracle: whatever the engine and the callback answer and wherever `resampler_create` fails, no call crashes,
    and the object stays well-formed.  (`no_crash_in_contract` without its hypothesis.) -/
theorem no_crash_every_sequence (fuel id chans : Nat) (fn : Bool) (hch : chans ≠ 0) (ops : List (Op × List Tok))
    (hops : ∀ x ∈ ops, x.1.inContract) :
    runOps fuel (fresh id chans fn) ops ≠ .crash ∧ ∀ o', runOps fuel (fresh id chans fn) ops = .ok o' → Wf o' :=
  runOps_no_crash fuel (fresh id chans fn) (fresh_wf id chans fn hch) ops hops

/-- when moreover no `resampler_create` fails, the converter is never torn down: it keeps its channel count. -/
theorem channels_kept_without_failing_create (fuel id chans : Nat) (fn : Bool) (hch : chans ≠ 0)
    (ops : List (Op × List Tok)) (hops : ∀ x ∈ ops, x.1.inContract ∧ NoFail x.2) (o' : Obj)
    (h : runOps fuel (fresh id chans fn) ops = .ok o') : o'.chans ≠ 0 :=
  runOps_live fuel (fresh id chans fn) (fresh_wf id chans fn hch) hch ops hops o' h

/-- a sequence that runs: new converter 4, process (engine created, 100 in, 200 out), reset, set ratio, error. -/
example : runOps 3 (fresh 4 1 false)
    [(.process ⟨0x4000000000000000, 100#64, 300#64, true, false, false⟩, [.c true, .g 200]), (.reset, []),
     (.setRatio 0x3ff0000000000000, [.c true]), (.error, [])] =
    .ok { fresh 4 1 false with ioRatio := 0x3ff0000000000000, inited := true } := by decide +kernel

/-- and one in which `resampler_create` fails: the error is reported, `src_reset` is refused, later calls report the error. -/
example : runOps 3 (fresh 0 1 false)
    [(.process ⟨0x3df0000000000000, 10#64, 10#64, false, false, false⟩, [.c false]), (.reset, []),
     (.process ⟨0x3ff0000000000000, 10#64, 10#64, false, false, false⟩, []), (.read 0x3ff0000000000000 5#64 false, [])] =
    .ok (deadObj .engine) := by decide +kernel

/-! ## the array helpers -/

/-- **`src_float_to_short_array`** on every finite operand is the saturating round-half-even reference of the exact
    product `x · 32768`, and `fistp` never raises. -/
theorem float_to_short_is_reference (x : Int) :
    lsrToShort (.fin x) = ((convSample 32767 (.fin (x * 32768))).1, false) := lsrToShort_eq_ref x

/-- **`src_float_to_int_array`** likewise with `2^31`. -/
theorem float_to_int_is_reference (x : Int) :
    lsrToInt (.fin x) = ((convSample 2147483647 (.fin (x * 2147483648))).1, false) := lsrToInt_eq_ref x

/-- hence **round to nearest, ties to even** whenever the scaled value is in range (`unit` = 1 LSB), both helpers. -/
theorem helpers_nearest (x : Int) :
    ((convSample 32767 (.fin (x * 32768))).2 = false →
      2 * ((lsrToShort (.fin x)).1 * (unit : Int) - x * 32768).natAbs ≤ unit ∧
      (2 * ((lsrToShort (.fin x)).1 * (unit : Int) - x * 32768).natAbs = unit → (lsrToShort (.fin x)).1 % 2 = 0)) ∧
    ((convSample 2147483647 (.fin (x * 2147483648))).2 = false →
      2 * ((lsrToInt (.fin x)).1 * (unit : Int) - x * 2147483648).natAbs ≤ unit ∧
      (2 * ((lsrToInt (.fin x)).1 * (unit : Int) - x * 2147483648).natAbs = unit → (lsrToInt (.fin x)).1 % 2 = 0)) := by
  rw [lsrToShort_eq_ref, lsrToInt_eq_ref]
  constructor
  · intro hc
    obtain ⟨e, -, -⟩ := convSample_unclipped 32767 _ hc
    obtain ⟨n1, n2⟩ := rhe_near (x * 32768) unit unit_pos
    simp only [e]
    exact ⟨by omega, fun ht => rhe_tie_even _ unit unit_pos (by omega)⟩
  · intro hc
    obtain ⟨e, -, -⟩ := convSample_unclipped 2147483647 _ hc
    obtain ⟨n1, n2⟩ := rhe_near (x * 2147483648) unit unit_pos
    simp only [e]
    exact ⟨by omega, fun ht => rhe_tie_even _ unit unit_pos (by omega)⟩

example : (convSample 32767 (.fin (unit / 2 * 32768))).2 = false := by decide +kernel

/-- **and saturate**: every operand — finite, infinite, NaN — gives a value inside the integer type's range. -/
theorem helpers_saturate (v : Val) :
    -32768 ≤ (lsrToShort v).1 ∧ (lsrToShort v).1 ≤ 32767 ∧
    -2147483648 ≤ (lsrToInt v).1 ∧ (lsrToInt v).1 ≤ 2147483647 := by
  cases v with
  | fin x =>
    rw [lsrToShort_eq_ref, lsrToInt_eq_ref]
    have a := convSample_range 32767 (by decide) (.fin (x * 32768))
    have b := convSample_range 2147483647 (by decide) (.fin (x * 2147483648))
    simp only at a b ⊢
    omega
  | inf neg => cases neg <;> simp [lsrToShort, lsrToInt]
  | nan => simp [lsrToShort, lsrToInt]

/-- `1.0f` gives 32767 (saturated), `-1.0f` gives -32768 exactly; every float32 pattern is covered by `helpers_saturate`
    through `f32.decode`. -/
example : lsrToShort (f32.decode 0x3f800000) = (32767, false) ∧ lsrToShort (f32.decode 0xbf800000) = (-32768, false) ∧
    lsrToInt (f32.decode 0x3f800000) = (2147483647, false) := by decide +kernel

/-- ±Inf saturate by the comparisons; NaN fails both comparisons, goes through `fistp` and gives the most negative
    value with the x87 invalid flag raised (the helpers do not clear it). -/
theorem helpers_nonfinite :
    lsrToShort (.inf false) = (32767, false) ∧ lsrToShort (.inf true) = (-32768, false) ∧ lsrToShort .nan = (-32768, true) ∧
    lsrToInt (.inf false) = (2147483647, false) ∧ lsrToInt (.inf true) = (-2147483648, false) ∧
    lsrToInt .nan = (-2147483648, true) := ⟨rfl, rfl, rfl, rfl, rfl, rfl⟩

/-- **short → float → short is the identity** for every `short`. -/
theorem short_float_short_exact (v : Int) (h1 : -32768 ≤ v) (h2 : v ≤ 32767) :
    lsrToShort (f32.decode (lsrToFloat 15 v)) = (v, false) := lsr_short_roundtrip v h1 h2

/-- int → float → int is the identity on the integers float32 holds (`|v| < 2^24`). -/
theorem int_float_int_exact (v : Int) (hv : v.natAbs < 2 ^ 24) :
    lsrToInt (f32.decode (lsrToFloat 31 v)) = (v, false) := lsr_int_roundtrip v hv

/-- `src_short_to_float_array` is exact: `v ↦ v / 32768` (in units: `v · 2^(1074-15)`). -/
theorem short_to_float_exact (v : Int) (hv : v.natAbs < 2 ^ 24) :
    f32.decode (lsrToFloat 15 v) = .fin (v * ((2 ^ (U - 15) : Nat) : Int)) := lsrToFloat_exact 15 (by decide) v hv

example : f32.decode (lsrToFloat 15 (-32768)) = .fin (-(unit : Int)) := by decide +kernel

/-! ## constants generated from /repo on every run -/

/-- what `harness/lsr/gen.c` read off the real `src_new` objects: no LSR converter id has an engine with a
    `set_io_ratio` entry and none carries `RESET_ON_CLEAR`; `max_ilen` after
    `src_callback_new`; the `1e-15` literal; word sizes; `src_strerror` distinguishes 0 / 1 / other. -/
theorem generated_constants :
    (∀ id < 6, (cfgOf id).vr = false) ∧
    (∀ id < 6, (cfgOf id).reset = false) ∧
    Gen.maxIlen = 2 ^ 64 - 1 ∧ Gen.tinyBits = tiny ∧ Gen.sizeofLong = 8 ∧ Gen.sizeofSizeT = 8 ∧
    Gen.strerrorDistinct = true := by decide

end Soxr.Lsr.C19
