/-
  C02 — Stop-band rejection.

  "Input content at or above the configured stop-band start (when down-sampling: everything that would alias; when
  up-sampling: every spectral image of the pass-band) appears in the output attenuated by at least the configured
  precision, about 6.02 dB per bit.  This holds at every frequency up to the input Nyquist limit, not only at probe
  frequencies, for every ratio, quality spec and engine."

  What is proved here (over ℂ, exact arithmetic, rational ratio, beyond the start-up horizon): for a linear system with
  finitely supported rows that is (L,M)-shift covariant from `k₀` on,
  * the output LEVEL of a stop-band tone over the whole stream is decided by the `L` outputs of one period
    (`stopband_iff_one_period`), so every finite sum of stop-band tones with arbitrary complex amplitudes comes out
    at most `ε·Σ|aᵢ|` at EVERY output index (`stopband_rejection`) — aliases included, since the bound is on the
    total output whatever frequency it lands on;
  * a signal with in-band and stop-band content comes out as its in-band part (times the filter's response) up to
    `ε_pass·Σ|aᵢ| + ε_stop·Σ|bⱼ|` (`mixed_signal`);
  * when up-sampling, every spectral image of an in-band tone — every zero-sum unimodular line of the period of
    `c_r` — is at most `max_r |c_r − G|` (`images_rejected`).
  The inequalities on the `L` numbers per frequency are MEASURED on the real code (checks/c02.py), on a frequency grid
  from the stop-band start to the input Nyquist limit; between grid points only the grid density speaks.

  Not proved: that the designed filters meet the inequalities (`Goal_designed_filters_reject`), irrational ratios,
  floating-point rounding.
-/
import SoxrModel.Properties.C01

namespace Soxr.C02

open Soxr.Signal Soxr.Signal.Kernel Finset

/-- The hypotheses of one rational configuration for the stop band.  `S` is the set of input tones from the stop-band
start to the input Nyquist limit the hypothesis was evaluated for, `ε` the rejection bound (2^(−bits)).
`cov` is ASSUMED of the real kernels; `level` is MEASURED (`|y_z[k₀+r]| = |Σₙ g[k₀+r,n]·zⁿ|`). -/
structure StopBand (K : Kernel ℂ) (L M k₀ : ℤ) (S : Set ℂ) (ε : ℝ) : Prop where
  cov : K.CovFrom L M k₀
  Lpos : 0 < L
  unit_in : ∀ z ∈ S, ‖z‖ = 1
  level : ∀ z ∈ S, ∀ r, 0 ≤ r → r < L → ‖K.resp (fun n => z ^ n) (k₀ + r)‖ ≤ ε

variable {K : Kernel ℂ} {L M k₀ : ℤ} {S : Set ℂ} {ε : ℝ}

/-- **Stop-band rejection.** Every finite sum of stop-band tones with arbitrary complex amplitudes appears in the
output at a level of at most `ε·Σ|aᵢ|`, at EVERY output index beyond the horizon. -/
theorem stopband_rejection (D : StopBand K L M k₀ S ε) {ι : Type*} (s : Finset ι) (a z : ι → ℂ)
    (hz : ∀ i ∈ s, z i ∈ S) {k : ℤ} (hk : k₀ ≤ k) :
    ‖K.resp (fun n => ∑ i ∈ s, a i * z i ^ n) k‖ ≤ ε * ∑ i ∈ s, ‖a i‖ := by
  have h := D.cov.tones_level_le' D.Lpos s a z (fun _ => ε) (fun i hi => D.unit_in _ (hz i hi))
    (fun i hi => D.level _ (hz i hi)) hk
  calc _ ≤ ∑ i ∈ s, ‖a i‖ * ε := h
    _ = ε * ∑ i ∈ s, ‖a i‖ := by rw [Finset.mul_sum]; exact Finset.sum_congr rfl fun i _ => mul_comm _ _

/-- One period decides the whole stream, and only one period is needed: for a single tone the level bound over all
`k ≥ k₀` holds IF AND ONLY IF it holds at the `L` outputs of the first period. -/
theorem stopband_iff_one_period (hcov : K.CovFrom L M k₀) (hL : 0 < L) {z : ℂ} (hz1 : ‖z‖ = 1) (e : ℝ) :
    (∀ k, k₀ ≤ k → ‖K.resp (fun n => z ^ n) k‖ ≤ e) ↔ (∀ r, 0 ≤ r → r < L → ‖K.resp (fun n => z ^ n) (k₀ + r)‖ ≤ e) :=
  hcov.tone_level_le_iff hL hz1 e

/-- **In-band plus stop-band content.** The output is the in-band part (each tone times the filter's own response) up to
`ε_pass·Σ|aᵢ| + ε_stop·Σ|bⱼ|`: stop-band content neither leaks nor disturbs the pass-band. -/
theorem mixed_signal {B : Set ℂ} {wOf G : ℂ → ℂ} {εp δ : ℝ} (P : C01.PassBand K L M k₀ B wOf G εp δ)
    (D : StopBand K L M k₀ S ε) {ι κ : Type*} (s : Finset ι) (a z : ι → ℂ) (hz : ∀ i ∈ s, z i ∈ B)
    (t : Finset κ) (b u : κ → ℂ) (hu : ∀ j ∈ t, u j ∈ S) {k : ℤ} (hk : k₀ ≤ k) :
    ‖K.resp (fun n => (∑ i ∈ s, a i * z i ^ n) + ∑ j ∈ t, b j * u j ^ n) k
        - ∑ i ∈ s, a i * (G (z i) * wOf (z i) ^ k)‖ ≤ εp * ∑ i ∈ s, ‖a i‖ + ε * ∑ j ∈ t, ‖b j‖ := by
  rw [K.resp_add]
  have h1 := C01.passband_fidelity P s a z hz hk
  have h2 := stopband_rejection D t b u hu hk
  have e : K.resp (fun n => ∑ i ∈ s, a i * z i ^ n) k + K.resp (fun n => ∑ j ∈ t, b j * u j ^ n) k
      - ∑ i ∈ s, a i * (G (z i) * wOf (z i) ^ k)
      = (K.resp (fun n => ∑ i ∈ s, a i * z i ^ n) k - ∑ i ∈ s, a i * (G (z i) * wOf (z i) ^ k))
        + K.resp (fun n => ∑ j ∈ t, b j * u j ^ n) k := by ring
  rw [e]
  exact (norm_add_le _ _).trans (add_le_add h1 h2)

/-- **Images when up-sampling.** For an in-band tone the output is `c_{(k−k₀) mod L}·w^k`; the mean of the `c_r` is
the wanted tone's gain and every other line of the period (weights `u_r` unimodular with zero sum — for the m-th image
`u_r = ζ^{−mr}`, ζ a primitive L-th root of unity) is a spectral image.  Each image, normalised like the gain
(divided by `L`), is at most the measured residual. -/
theorem images_rejected {B : Set ℂ} {wOf G : ℂ → ℂ} {εp δ : ℝ} (P : C01.PassBand K L M k₀ B wOf G εp δ) {z : ℂ}
    (hz : z ∈ B) (u : ℤ → ℂ) (hu0 : ∑ r ∈ Finset.Ico (0 : ℤ) L, u r = 0) (hu1 : ∀ r, ‖u r‖ ≤ 1) :
    ‖∑ r ∈ Finset.Ico (0 : ℤ) L, K.coef z (wOf z) (k₀ + r) * u r‖ ≤ (Finset.Ico (0 : ℤ) L).card * εp :=
  image_line_le (Finset.Ico (0 : ℤ) L) (fun r => K.coef z (wOf z) (k₀ + r)) u (G z) εp hu0 (fun r _ => hu1 r)
    (fun r hr => P.residual z hz r (Finset.mem_Ico.mp hr).1 (Finset.mem_Ico.mp hr).2)

/-- NOT PROVED: that the designed filters reject every stop-band frequency of every configuration by the configured
precision.  Evaluated by measurement on sampled configurations and a frequency grid up to the input Nyquist limit. -/
def Goal_designed_filters_reject (K : Kernel ℂ) (L M k₀ : ℤ) (stopband : Set ℂ) (bits : ℕ) : Prop :=
  StopBand K L M k₀ stopband ((2 : ℝ) ^ (-(bits : ℤ)))

/-! ### Non-vacuity: the ×2 linear interpolator at the input Nyquist frequency -/

theorem interp2_nyquist_level (r : ℤ) (hr0 : 0 ≤ r) (hr2 : r < 2) :
    ‖(interp2 ℂ).resp (fun n => (-1 : ℂ) ^ n) (0 + r)‖ ≤ 1 := by
  rw [interp2_resp]
  have h : r = 0 ∨ r = 1 := by omega
  rcases h with rfl | rfl <;> simp

/-- The hypotheses are satisfiable (with the honest bound 1: a linear interpolator does not reject `z = −1`). -/
theorem interp2_stopband : StopBand (interp2 ℂ) 2 1 0 {-1} 1 where
  cov := interp2_cov.covFrom 0
  Lpos := by norm_num
  unit_in := fun z hz => by rw [Set.mem_singleton_iff.mp hz]; simp
  level := fun z hz r hr0 hr2 => by rw [Set.mem_singleton_iff.mp hz]; exact interp2_nyquist_level r hr0 hr2

example (a : ℂ) {k : ℤ} (hk : 0 ≤ k) :
    ‖(interp2 ℂ).resp (fun n => ∑ _i ∈ ({0} : Finset ℕ), a * (-1 : ℂ) ^ n) k‖ ≤ 1 * ∑ _i ∈ ({0} : Finset ℕ), ‖a‖ :=
  stopband_rejection interp2_stopband {0} (fun _ => a) (fun _ => -1) (fun _ _ => rfl) hk

/-- The zero-sum unimodular weights of the single image of L = 2: `u = (1, −1)`. -/
example : ∑ r ∈ Finset.Ico (0 : ℤ) 2, (if r = 0 then (1 : ℂ) else -1) = 0 := by
  have : Finset.Ico (0 : ℤ) 2 = {0, 1} := by decide
  rw [this]; simp

end Soxr.C02
