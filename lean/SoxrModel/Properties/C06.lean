import SoxrModel.Chan.Sim3
import SoxrModel.Chan.Toy
set_option linter.unusedSimpArgs false
/-!
# C06 — channel isolation: every channel of a multi-channel resampler equals a mono run (sequential half)

Model: `SoxrModel/Chan/Model.lean` (the API layer of soxr.c over ABSTRACT per-channel engines, any channel count, both
layouts on each side, both code paths of `soxr_process`, the pull loop), `Chan/Index.lean` (the (de)interleave index maps).
The OpenMP half (atomic / non-atomic `clips +=`, finding F8) is `Properties/C06Threads.lean` (area `conc`).

* index algebra, all `ch`, `n`: `index_bijection`, `frame_major_walk`, `deinterleave_interleave_id`,
  `interleave_deinterleave_id`, `pull_advance_views`, `pull_advance_flat`;
* `multi_equals_mono_partial`: for EVERY sequence of API calls, every channel count, every layout combination, every engine
  whose counts do not depend on the data (`Shape`), channel `c` of everything the caller of the multi-channel resampler
  observes (idone, odone, error, flushing, delay, the samples written for channel `c`) is what the caller of a 1-channel
  resampler fed channel `c` alone observes — PROVIDED the conversion does not use the dither seed (`PureConv`: every
  output type but int16 with dither on).  `mono_reads_channel`: what that 1-channel resampler reads is exactly channel
  `c`'s data in either input layout.
* `multi_equals_mono_view` / `channel_data_isolation`: with ANY conversion whose seed advance is data-independent (dither
  included) channel `c` is the 1-channel run seen through `chanView`, hence never depends on other channels' DATA;
* the excluded case is really false (finding F17): `dither_breaks_multi_equals_mono` — int16 output with dither, two
  channels: channel 1 continues the dither stream where channel 0 stopped;
* `clips_eq_sum_shares` (any conversion) and `clips_sum_of_mono_runs` (seed-free conversions): the clip counter is the sum of
  the per-channel clip counts;
* `split_path_eq_generic`: the both-split loop of `soxr_process` computes what the generic path computes — also with a
  latched error (sticky on both paths since /repo commit 27b24c1; the hypothesis "no latched error" is gone).
-/
namespace Soxr.C06
open Soxr.Chan

variable {σ α β κ : Type} {E : Engine σ α}

/-! ## index algebra -/

/-- `(frame, channel) ↦ frame·ch + channel` is a bijection between `[0,n) × [0,ch)` and `[0, n·ch)` -/
theorem index_bijection (ch n : Nat) :
    (∀ f c, f < n → c < ch → idx ch f c < n * ch) ∧
    (∀ f c f' c', c < ch → c' < ch → idx ch f c = idx ch f' c' → f = f' ∧ c = c') ∧
    (∀ k, k < n * ch → k / ch < n ∧ k % ch < ch ∧ idx ch (k / ch) (k % ch) = k) :=
  ⟨fun _ _ hf hc => idx_lt hf hc, fun _ _ _ _ hc hc' h => idx_inj hc hc' h, fun _ hk => idx_surj hk⟩

/-- the frame-major loops of data-io.c (`*src++` / `*dest++`): `n·ch` assignments, the `k`-th one handles
    (frame `k / ch`, channel `k % ch`), i.e. the running pointer is at `idx ch frame channel` -/
theorem frame_major_walk (ch n : Nat) :
    (walk ch n).length = n * ch ∧ ∀ k, k < n * ch → (walk ch n)[k]? = some (k / ch, k % ch) :=
  ⟨walk_length ch n, fun k hk => walk_getElem? ch n k hk⟩

theorem deinterleave_interleave_id (d : β) (ch n : Nat) (chans : List (List β)) (c : Nat) (hc : c < ch)
    (hlen : (chans.getD c []).length = n) :
    deinterleave d ch n (interleave d ch n chans) c = chans.getD c [] := by
  rw [deinterleave_interleave d ch n chans c hc, takePad_eq_self d hlen]

theorem interleave_deinterleave_id (d : β) (ch n : Nat) (buf : List β) (h : buf.length = n * ch) :
    interleave d ch n ((List.range ch).map (deinterleave d ch n buf)) = buf :=
  interleave_deinterleave d ch n buf h

/-- pull loop, interleaved output: a chunk written at flat offset `n1·ch` extends every channel's view -/
theorem pull_advance_views (d : β) (ch n1 n2 : Nat) (b1 b2 : List β) (c : Nat) (hc : c < ch) (h : b1.length = n1 * ch) :
    deinterleave d ch (n1 + n2) (b1 ++ b2) c = deinterleave d ch n1 b1 c ++ deinterleave d ch n2 b2 c :=
  deinterleave_append d ch n1 n2 b1 b2 c hc h

/-- … and the flat buffer written chunk after chunk is the interleaving of the channel-wise concatenations -/
theorem pull_advance_flat (d : β) (ch n1 n2 : Nat) (a b : List (List β)) (ha : ∀ c, c < ch → (a.getD c []).length = n1) :
    interleave d ch n1 a ++ interleave d ch n2 b
      = interleave d ch (n1 + n2) ((List.range ch).map (fun c => a.getD c [] ++ b.getD c [])) :=
  interleave_append d ch n1 n2 a b ha

example : deinterleave (0 : Int) 3 2 (interleave 0 3 2 [[1, 2], [3, 4], [5, 6]]) 1 = [3, 4] := by decide
example : interleave (0 : Int) 3 2 [[1, 2], [3, 4], [5, 6]] = [1, 3, 5, 2, 4, 6] := by decide
example : (walk 3 2)[4]? = some (1, 1) := by decide

/-! ## multi = mono -/

/-- what the 1-channel resampler reads when it is "fed channel `c` alone" is channel `c`'s data, in both input layouts -/
theorem mono_reads_channel (cfg : Cfg α β) (len : Nat) (X : List (List β)) (c : Nat) (hc : c < cfg.ch)
    (hlen : (X.getD c []).length = len) :
    decodeIn (monoCfg cfg) len (projIn cfg c len (encodeIn cfg len X)) 0 = X.getD c [] := by
  show decodeIn (monoCfgC cfg cfg.cout) len _ 0 = _
  rw [decode_proj cfg cfg.cout c len len _ (Nat.le_refl _), decode_encode cfg len X c hc, takePad_eq_self _ hlen]

/-- MAIN (sequential, seed-free conversion).  For every engine with a count abstraction, every configuration (any `ch`,
    4 layout combinations), every channel `c < ch`, every initial seed and EVERY sequence of API calls: the observations of
    the 1-channel run on channel `c`'s data are the channel-`c` projection of the observations of the multi-channel run. -/
theorem multi_equals_mono_partial (Sh : Shape E κ) (cfg : Cfg α β) (P : PureConv cfg.cout) (c : Nat) (hc : c < cfg.ch)
    (seed : Nat) (ops : List (Op β)) :
    (run E (monoCfg cfg) (initSt E 1 seed) (ops.map (projOp cfg c))).2
      = (run E cfg (initSt E cfg.ch seed) ops).2.map (projObs c) :=
  (run_sim Sh cfg (chanConv_of_pure P cfg.ch c hc) ops (rel_init Sh cfg.ch c seed hc)).2

/-- the general form (dither included): if the conversion's seed advance depends on the seed and the number of samples only
    (`adv`; true of rint-clip.h: two LCG draws per block of 16 and two for the tail), channel `c` of the multi-channel run is
    the run of a 1-channel resampler whose conversion is channel `c`'s VIEW of the shared dither stream (`chanView`: skip
    `c` channels' worth of draws, convert, skip the rest) — same seed, same everything else -/
theorem multi_equals_mono_view (Sh : Shape E κ) (cfg : Cfg α β) (adv : Nat → Nat → Nat)
    (hadv : ∀ seed ys, (cfg.cout seed ys).2.2 = adv seed ys.length) (c : Nat) (hc : c < cfg.ch)
    (seed : Nat) (ops : List (Op β)) :
    (run E (monoCfgC cfg (chanView cfg.cout adv cfg.ch c)) (initSt E 1 seed) (ops.map (projOp cfg c))).2
      = (run E cfg (initSt E cfg.ch seed) ops).2.map (projObs c) :=
  (run_sim Sh cfg (chanConv_of_seedLen cfg.cout adv hadv cfg.ch c hc) ops (rel_init Sh cfg.ch c seed hc)).2

/-- CHANNEL DATA ISOLATION, dither included: two call sequences that agree on everything channel `c` is handed (same calls,
    same sizes, same samples for channel `c`, same answers of the input function for channel `c`) give the caller the same
    observations for channel `c` — whatever the OTHER channels carry.  No hypothesis on the conversion beyond the
    data-independence of its seed advance. -/
theorem channel_data_isolation (Sh : Shape E κ) (cfg : Cfg α β) (adv : Nat → Nat → Nat)
    (hadv : ∀ seed ys, (cfg.cout seed ys).2.2 = adv seed ys.length) (c : Nat) (hc : c < cfg.ch)
    (seed : Nat) (ops ops' : List (Op β)) (hops : ops.map (projOp cfg c) = ops'.map (projOp cfg c)) :
    (run E cfg (initSt E cfg.ch seed) ops).2.map (projObs c) = (run E cfg (initSt E cfg.ch seed) ops').2.map (projObs c) := by
  rw [← multi_equals_mono_view Sh cfg adv hadv c hc seed ops, ← multi_equals_mono_view Sh cfg adv hadv c hc seed ops', hops]

/-- the clip counter is the sum of the per-channel shares for ANY conversion (dither included), any call sequence -/
theorem clips_eq_sum_shares (cfg : Cfg α β) (seed : Nat) (ops : List (Op β)) :
    (run E cfg (initSt E cfg.ch seed) ops).1.clips = (run E cfg (initSt E cfg.ch seed) ops).1.clipsBy.sum :=
  (clipInv_run cfg ops _ (clipInv_init (E := E) cfg.ch seed)).1

/-- clips of the multi-channel run = Σ over the channels of the clips of the mono runs -/
theorem clips_sum_of_mono_runs (Sh : Shape E κ) (cfg : Cfg α β) (P : PureConv cfg.cout) (seed : Nat) (ops : List (Op β)) :
    (run E cfg (initSt E cfg.ch seed) ops).1.clips
      = ((List.range cfg.ch).map
          (fun c => (run E (monoCfg cfg) (initSt E 1 seed) (ops.map (projOp cfg c))).1.clips)).sum := by
  have hinv := clipInv_run (E := E) cfg ops _ (clipInv_init (E := E) cfg.ch seed)
  have hlen : (run E cfg (initSt E cfg.ch seed) ops).1.clipsBy.length = cfg.ch := by
    rcases Nat.eq_zero_or_pos cfg.ch with h0 | hpos
    · -- no channel: nothing ever changes the length of the (empty) engine list
      have := (run_len0 (E := E) cfg ops (initSt E cfg.ch seed) (by simp [initSt]))
      rw [hinv.2, this, h0]
    · exact (run_sim Sh cfg (chanConv_of_pure P cfg.ch 0 hpos) ops (rel_init Sh cfg.ch 0 seed hpos)).1.clen
  rw [hinv.1, ← sum_range_getD, hlen]
  congr 1
  apply List.map_congr_left
  intro c hc
  exact ((run_sim Sh cfg (chanConv_of_pure P cfg.ch c (List.mem_range.mp hc)) ops (rel_init Sh cfg.ch c seed (List.mem_range.mp hc))).1.clips).symm

/-! ## both-split path ≡ generic path -/

/-- the generic branch of `soxr_process` (`soxr_input`, then `soxr_output`), whatever the layout flags say -/
def processGeneric (E : Engine σ α) (cfg : Cfg α β) (s : St σ) (inb : Option (InBuf β)) (ilen0 : Nat)
    (fr wi op : Bool) (olen : Nat) (rs : List (Nat → FnReply β)) : ProcRes σ β :=
  let ilen := procIlen cfg inb ilen0 wi olen
  let s0 := procFlush cfg s inb ilen0 fr wi olen
  let r1 := if ilen ≠ 0 then input E cfg s0 inb ilen else (s0, 0)
  let r2 := output E cfg r1.1 op olen rs
  { st := r2.1, idone := r1.2, odone := r2.2.1, out := r2.2.2 }

theorem split_path_eq_generic (cfg : Cfg α β) (s : St σ) (inb : Option (InBuf β)) (ilen0 : Nat) (fr wi : Bool) (olen : Nat)
    (rs : List (Nat → FnReply β))
    (hs : cfg.isplit = true ∧ cfg.osplit = true)
    (hlen : s.eng.length = cfg.ch)
    (hfn : s.fn = none)                -- the both-split loop never calls the input function
    (hnil : ∀ e, E.input e [] = e)     -- soxr_input_1ch with ilen = 0 reserves nothing
    :
    process E cfg s inb ilen0 fr wi true olen rs = processGeneric E cfg s inb ilen0 fr wi true olen rs := by
  by_cases hE : s.error.isSome = true
  · -- a latched error is sticky on both paths (since /repo commit 27b24c1): nothing but the flush bookkeeping happens
    rw [process_err cfg s inb ilen0 fr wi true olen rs (by simp) hE]
    have he0 : (procFlush cfg s inb ilen0 fr wi olen).error.isSome = true := hE
    unfold processGeneric
    simp only
    have hin : (if procIlen cfg inb ilen0 wi olen ≠ 0 then input E cfg (procFlush cfg s inb ilen0 fr wi olen) inb
          (procIlen cfg inb ilen0 wi olen) else (procFlush cfg s inb ilen0 fr wi olen, 0))
        = (procFlush cfg s inb ilen0 fr wi olen, 0) := by
      split
      · exact input_err cfg _ _ _ he0
      · rfl
    rw [hin]
    simp only [output, he0, if_true]
  have herr : s.error = none := by
    cases hS : s.error with
    | none => rfl
    | some e => rw [hS] at hE; simp at hE
  rw [process_split_eq cfg s inb ilen0 fr wi true olen rs hs (by simp) herr]
  unfold processGeneric
  simp only
  -- the state after the input step is the same
  have hin : (if procIlen cfg inb ilen0 wi olen ≠ 0 then input E cfg (procFlush cfg s inb ilen0 fr wi olen) inb
        (procIlen cfg inb ilen0 wi olen) else (procFlush cfg s inb ilen0 fr wi olen, 0))
      = ({ (procFlush cfg s inb ilen0 fr wi olen) with eng := feedOpt E cfg s.eng inb (procIlen cfg inb ilen0 wi olen) },
         procIlen cfg inb ilen0 wi olen) := by
    have he : (procFlush cfg s inb ilen0 fr wi olen).error = none := herr
    cases inb with
    | none =>
      have : procIlen cfg none ilen0 wi olen = 0 := by simp [procIlen]
      simp only [this, ne_eq, not_true_eq_false, if_false, feedOpt_none]
      rfl
    | some b =>
      by_cases hz : procIlen cfg (some b) ilen0 wi olen = 0
      · simp only [hz, ne_eq, not_true_eq_false, if_false]
        have : feedOpt E cfg s.eng (some b) 0 = s.eng := by
          unfold feedOpt feed1
          have : ∀ k, (decodeIn cfg 0 b k).map cfg.cin = [] := by
            intro k
            have := decodeIn_length cfg 0 b k
            rw [List.length_eq_zero_iff] at this
            rw [this]; rfl
          simp only [this, hnil]
          exact mapIdx_id _
        rw [this]; rfl
      · simp only [hz, ne_eq, not_false_eq_true, if_true]
        rw [input_feed cfg _ b _ he hz]
        rfl
  rw [hin]
  simp only
  -- soxr_output: no error, output present, no input function: one round of soxr_output_no_callback
  have hl : ({ (procFlush cfg s inb ilen0 fr wi olen) with
      eng := feedOpt E cfg s.eng inb (procIlen cfg inb ilen0 wi olen) } : St σ).eng.length = cfg.ch := by
    show (feedOpt E cfg s.eng inb _).length = _
    simp [feedOpt, hlen]
  generalize hS1 : ({ (procFlush cfg s inb ilen0 fr wi olen) with
      eng := feedOpt E cfg s.eng inb (procIlen cfg inb ilen0 wi olen) } : St σ) = S1 at hl ⊢
  have he1 : S1.error = none := by rw [← hS1]; exact herr
  have hf1 : S1.fn = none := by rw [← hS1]; exact hfn
  have hout : output E cfg S1 true olen rs
      = ((outputNoCb E cfg S1 olen).1, (outputNoCb E cfg S1 olen).2.1, (outputNoCb E cfg S1 olen).2.2) := by
    have hfn' : (outputNoCb E cfg S1 olen).1.fn = none := hf1
    have hol : (outputNoCb E cfg S1 olen).2.2.length = cfg.ch := by
      unfold outputNoCb
      simp only [convAll_length1, List.length_map, hl]
    have hstop : stopNow (outputNoCb E cfg S1 olen).1 ((outputNoCb E cfg S1 olen).2.1) olen = true := by
      simp [stopNow, hfn']
    unfold output
    simp only [he1, Option.isSome_none, Bool.false_eq_true, if_false, Bool.true_eq_false, false_and]
    cases rs <;>
    · unfold pullLoop
      simp only [Nat.zero_add, hstop, if_true]
      unfold appendCh blank
      rw [← hol, zipWith_nil_append]
  rw [hout]

/-! ## the excluded case is false on the pinned code: dither (finding F17) -/

/-- int16 output with dither on, two channels carrying the SAME sample: channel 1 of the 2-channel run gets 0, the
    1-channel run (same seed) gets −1, because channel 1 continues the dither stream where channel 0 stopped.
    (Replayed on the real code by `checks/c06.py`: `harness/chan/iso.c` with both channels fed the same signal.) -/
theorem dither_breaks_multi_equals_mono :
    ¬ ∀ (cfg : Cfg Int Int) (c : Nat) (seed : Nat) (ops : List (Op Int)), c < cfg.ch →
        (run (Toy.engine 1 1 1) (monoCfg cfg) (initSt (Toy.engine 1 1 1) 1 seed) (ops.map (projOp cfg c))).2
          = (run (Toy.engine 1 1 1) cfg (initSt (Toy.engine 1 1 1) cfg.ch seed) ops).2.map (projObs c) := by
  intro h
  have := h (Toy.cfg 2 false false 3 true 1 1 false) 1 1
    [Op.process (some (InBuf.inter [0, 0])) 1 false false true 1 []] (by decide)
  have h2 := congrArg (fun l => l.map (fun o => o.out)) this
  revert h2
  decide

/-! ## non-vacuity: the hypotheses are satisfiable by the engine and conversions the executable tie runs -/

example : Shape (Toy.engine 2 3 4) Toy.TK := Toy.shape 2 3 4
example : PureConv (Toy.cfg 3 true false 2 true 1 1 false).cout := Toy.pureToy 2 true (by decide)
/-- the dithering int16 conversion of the toy tie advances the seed by a function of (seed, number of samples) only -/
example : ∃ adv : Nat → Nat → Nat, ∀ seed (ys : List Int), (Toy.toyCout 3 true seed ys).2.2 = adv seed ys.length :=
  ⟨fun seed n => (Toy.ditherAll (n / 16 + 1) (List.replicate n 0) seed).2.2, Toy.dither_seed_len⟩

/-- a 3-channel, split-in / interleaved-out run whose channel 2 is what the mono run delivers (saturating int16, scale 4:
    2 of the 3 samples of channel 2 clip) -/
example :
    ((run (Toy.engine 1 1 4) (Toy.cfg 3 true false 3 false 1 1 false) (initSt (Toy.engine 1 1 4) 3 7)
        [Op.process (some (InBuf.split [[1, 2, 3], [10, 20, 30], [9000, -9000, 5]])) 3 false false true 3 []]).2.map
      (fun o => (o.odone, o.out.getD 2 []))) = [(3, [32767, -32768, 20])] := by decide

end Soxr.C06
