import SoxrModel.Vr.Lemmas
import SoxrModel.Vr.Frames
import SoxrModel.Vr.Fade
import SoxrModel.Vr.Engine
import SoxrModel.Vr.ExactNum
import Mathlib.Tactic.Linarith
import Mathlib.Tactic.Ring
/-!
# C16 — the variable-rate engine follows the requested ratio

Theorems about the control skeleton of `vr32.c` (`Vr/Model.lean`, compared field by field with the real engine on
every run) and about the decision logic of `soxr_set_io_ratio`.  They hold for **every** state of the skeleton
(reachable or not), every ratio, every slew length, every sequence of calls and every evaluation `Num ρ` of the three
floating-point expressions — except where a hypothesis is written out.

What is *not* here: the 80 dB residual and "no discontinuity in the output" are statements about sample values
(floating-point kernels); they are measured by the falsifier of `checks/c16.py`.  Statements still open are the
`Goal_…` definitions at the end.

History.  The model follows /repo: since the `fix:` commits for F13 (`vr_set_io_ratio(r, 0)` cancels a slew in
progress) and F14 (`lshift` shifts the unsigned representation) the theorems of §3 hold for *every* state — the
hypothesis "no unfinished slew" of the pinned tree is gone; the pre-repair function and the two witnesses of its
failure are kept in §3b as a historical record.  F35 (the two cross-faded streams could get out of step: the C
assertion `odone == odone2` failed) was found by this model and repaired in /repo (`occupancy0` is re-aligned at an
up-switch: `switchOcc`); §7 keeps the negation of the alignment statement for the pre-repair loop with its concrete
witness, shows the same call sequence aligned on the current model (the check replays it on the real code), and
proves the part of the alignment that the skeleton carries.  F36 (a stage restarted by a second or third up-switch of
one call was read beyond the samples it holds: garbage output, then a stage below its preload) was found by C07's
sanitizer sweep, located with this model's stage occupancies and repaired in /repo (`occupancy0` is clamped to what the
restarted stage holds: `switchOcc`); §8 has the theorem for the current code and the pre-repair witness.

Units: `step` counts `2⁻³²` samples of the current stage per (2x-rate) output; `rateIn` (`Vr/Arith.lean`) is the same
quantity in the stage-independent unit `2⁻³³` input frames per output frame.
-/
namespace Soxr.Vr.C16
open Soxr.Vr
variable {ρ : Type}

/-- `j` output frames after request `g` — see `SlewingV`. -/
def Slewing (cfg : Cfg ρ) (g : Req ρ) (s : St ρ) (j : Nat) : Prop := SlewingV cfg g s.v j

/-- no ratio request outstanding: initial ratio set, `slew_len = 0`, `new_io_ratio = 0`, `step_step = 0` -/
def Quiescent (s : St ρ) : Prop := QuiescentV s.v

def NoRatio (ops : List (Op ρ)) : Prop := ∀ o ∈ ops, o.isRatio = false

/-! ## 1. The request: `soxr_set_io_ratio(r, slew_len)`, `slew_len > 0` -/

/-- The increment `vr_set_io_ratio` stores is `(target − step)/slew_len` rounded to nearest: `slew_len` increments
    miss the target by at most `slew_len/2` units of `2⁻³²`; and it points towards the target. -/
theorem slew_increment_rounding (cfg : Cfg ρ) (s : St ρ) (r : ρ) (L : Nat) (hL : 0 < L) :
    let T := cfg.num.stepOf r s.cur.mult
    let inc := (setIoRatio cfg s r L).cur.ss
    2 * ((L : Int) * inc - (T - s.cur.step)) ≤ L ∧ 2 * ((T - s.cur.step) - (L : Int) * inc) ≤ L ∧
    (s.cur.step ≤ T → 0 ≤ inc) ∧ (T ≤ s.cur.step → inc ≤ 0) := by
  intro T inc
  have h := (setIoRatio_slew_spec cfg s r L (by omega)).2.2.2.2.2.2.2.1
  have b := slewInc_bound T s.cur.step L hL
  have sg := slewInc_sign T s.cur.step L hL
  show 2 * ((L : Int) * (setIoRatio cfg s r L).cur.ss - _) ≤ _ ∧ 2 * (_ - (L : Int) * (setIoRatio cfg s r L).cur.ss) ≤ _ ∧
    (_ → 0 ≤ (setIoRatio cfg s r L).cur.ss) ∧ (_ → (setIoRatio cfg s r L).cur.ss ≤ 0)
  rw [h]
  exact ⟨b.1, b.2, sg.1, sg.2⟩

/-- A request with a non-zero increment starts a slew: the engine is at frame 0 of `Slewing`. -/
theorem slew_request (cfg : Cfg ρ) (s : St ρ) (r : ρ) (L : Nat) (hL : 0 < L) (hd : s.defR = none)
    (hne : slewInc (cfg.num.stepOf r s.cur.mult) s.cur.step L ≠ 0) :
    Slewing cfg { step0 := s.cur.step, ss0 := slewInc (cfg.num.stepOf r s.cur.mult) s.cur.step L, L := L, r := r,
                  mult := s.cur.mult } (setIoRatio cfg s r L) 0 := by
  obtain ⟨h1, h2, h3, _, _, _, _, h8, _, h10⟩ := setIoRatio_slew_spec cfg s r L (by omega)
  obtain ⟨h11, h12⟩ := h10 hne
  refine ⟨by simp only [St.v]; rw [h1, hd], by simp only [St.v]; exact h3, Or.inl ⟨hL, ?_, ?_, ?_, ?_⟩⟩ <;>
    simp only [St.v]
  · rw [h11]; simp
  · exact h12
  · rw [h2]; simp
  · exact h8

/-- A request whose increment rounds to zero (target within `slew_len/2` units of `2⁻³²`) is dropped: nothing moves,
    no slew is left running. -/
theorem slew_request_dropped (cfg : Cfg ρ) (s : St ρ) (r : ρ) (L : Nat) (hL : 0 < L) (hd : s.defR = none)
    (h0 : slewInc (cfg.num.stepOf r s.cur.mult) s.cur.step L = 0) :
    Quiescent (setIoRatio cfg s r L) ∧ (setIoRatio cfg s r L).cur.step = s.cur.step ∧
    2 * (cfg.num.stepOf r s.cur.mult - s.cur.step) ≤ L ∧ 2 * (s.cur.step - cfg.num.stepOf r s.cur.mult) ≤ L := by
  obtain ⟨h1, h2, _, _, _, _, _, h8, h9, _⟩ := setIoRatio_slew_spec cfg s r L (by omega)
  obtain ⟨h11, h12⟩ := h9 h0
  have b := slewInc_bound (cfg.num.stepOf r s.cur.mult) s.cur.step L hL
  rw [h0] at b
  refine ⟨⟨?_, ?_, ?_, ?_⟩, h2, by omega, by omega⟩ <;> simp only [St.v]
  · rw [h1, hd]
  · exact h11
  · exact h12
  · rw [h8, h0]

/-! ## 2. The slew: `step = step₀ + j·step_step`, then the snap -/

/-- **Slew progression.**  Over any sequence of `soxr_process` calls (any block sizes, flush included) without a new
    ratio request, without a stage switch (`nsw = 0`) and with the two cross-faded streams in step (`nmis = 0`, the C
    assertion `odone == odone2`): after `n` more output frames the engine is `n` frames further along the slew. -/
theorem slew_progression (cfg : Cfg ρ) (g : Req ρ) (s : St ρ) (j : Nat) (ops : List (Op ρ))
    (h : Slewing cfg g s j) (hops : NoRatio ops)
    (hsw : (run cfg { st := s } ops).nsw = 0) (hmis : (run cfg { st := s } ops).nmis = 0) :
    Slewing cfg g (run cfg { st := s } ops).st (j + (run cfg { st := s } ops).out) :=
  SlewingV_run cfg g ops { st := s } j hops h hsw hmis

/-- While the snap has not happened, `step` is exactly linear in the frames delivered — so it moves monotonically,
    by the same signed amount every frame. -/
theorem slew_step_linear (cfg : Cfg ρ) (g : Req ρ) (s : St ρ) (j : Nat) (h : Slewing cfg g s j)
    (hp : s.newR ≠ none) :
    s.cur.step = g.step0 + ((min j g.L : Nat) : Int) * g.ss0 ∧ s.cur.ss = g.ss0 ∧ s.slew = (g.L : Int) - (min j g.L : Nat) := by
  obtain ⟨_, _, hc⟩ := h
  simp only [St.v] at hc
  rcases hc with ⟨hj, h1, _, h3, h4⟩ | ⟨hj, h1, _, h3, h4⟩ | ⟨_, _, h2, _, _⟩
  · rw [Nat.min_eq_left (Nat.le_of_lt hj)]; exact ⟨h3, h4, h1⟩
  · rw [hj, Nat.min_self]; exact ⟨h3, h4, by omega⟩
  · exact absurd h2 hp

/-- **The snap.**  More than `slew_len` frames after the request, `step` is the target exactly, `step_step = 0`,
    and no request is outstanding. -/
theorem snap_exact (cfg : Cfg ρ) (g : Req ρ) (s : St ρ) (j : Nat) (h : Slewing cfg g s j) (hj : g.L < j) :
    s.cur.step = cfg.num.stepOf g.r s.cur.mult ∧ Quiescent s := by
  obtain ⟨hd, hm, hc⟩ := h
  simp only [St.v] at hd hm hc
  rcases hc with ⟨h0, _⟩ | ⟨h0, _⟩ | ⟨_, h1, h2, h3, h4⟩
  · omega
  · omega
  · exact ⟨by rw [h3, hm], ⟨hd, h1, h2, h4⟩⟩

/-- **Overshoot before the snap.**  During the slew `step` stays between its starting value and the target, except
    that it may pass the target by at most `slew_len/2` units of `2⁻³²` (the rounding of the increment). -/
theorem slew_overshoot_bound (cfg : Cfg ρ) (g : Req ρ) (s : St ρ) (j : Nat) (h : Slewing cfg g s j)
    (hp : s.newR ≠ none) (hL : 0 < g.L) (hg : g.ss0 = slewInc (cfg.num.stepOf g.r g.mult) g.step0 g.L) :
    let T := cfg.num.stepOf g.r g.mult
    (g.step0 ≤ T → g.step0 ≤ s.cur.step ∧ 2 * (s.cur.step - T) ≤ g.L) ∧
    (T ≤ g.step0 → s.cur.step ≤ g.step0 ∧ 2 * (T - s.cur.step) ≤ g.L) := by
  intro T
  obtain ⟨h1, _, _⟩ := slew_step_linear cfg g s j h hp
  have b := slewInc_bound T g.step0 g.L hL
  have sg := slewInc_sign T g.step0 g.L hL
  rw [← hg] at b sg
  have hm : ((min j g.L : Nat) : Int) ≤ g.L := by omega
  have hm0 : (0 : Int) ≤ ((min j g.L : Nat) : Int) := by omega
  generalize ((min j g.L : Nat) : Int) = m at *
  constructor
  · intro hT
    have hs := sg.1 hT
    have e1 : 0 ≤ m * g.ss0 := Int.mul_nonneg hm0 hs
    have e2 : m * g.ss0 ≤ (g.L : Int) * g.ss0 := Int.mul_le_mul_of_nonneg_right hm hs
    omega
  · intro hT
    have hs := sg.2 hT
    have e1 : m * g.ss0 ≤ 0 := Int.mul_nonpos_of_nonneg_of_nonpos hm0 hs
    have e2 : (g.L : Int) * g.ss0 ≤ m * g.ss0 := Int.mul_le_mul_of_nonpos_right hm hs
    omega

/-- The sign of `step_step` never changes without a new request — through stage switches, fades, flush, anything:
    the ratio never turns round in mid-slew. -/
theorem slew_sign_invariant (cfg : Cfg ρ) (s : St ρ) (ops : List (Op ρ)) (hops : NoRatio ops) :
    (0 ≤ s.cur.ss → 0 ≤ (run cfg { st := s } ops).st.cur.ss) ∧
    (s.cur.ss ≤ 0 → (run cfg { st := s } ops).st.cur.ss ≤ 0) :=
  run_ss_sign cfg ops { st := s } hops

/-- Whatever happened before (stage switches included): the chunk that finds the slew finished sets `step` to the
    target of the pending request, exactly, in the units of the stage then current. -/
theorem snap_sets_target (cfg : Cfg ρ) (s : St ρ) (rem : Nat) (r : ρ) (h0 : s.slew = 0) (hr : s.newR = some r) :
    (chunkStart cfg s rem).1.cur.step = cfg.num.stepOf r s.cur.mult ∧ (chunkStart cfg s rem).1.cur.ss = 0 ∧
    (chunkStart cfg s rem).1.newR = none ∧ (chunkStart cfg s rem).1.slew = 0 := by
  rw [chunkStart_pending cfg s rem r h0 hr]
  exact ⟨rfl, rfl, rfl, h0⟩

/-- **The snap sets BOTH streams.**  The chunk that finds the slew finished puts the fade-out stream on the target as
    well (in the units of its own stage) and clears its slew increment too — whether or not a cross-fade is in progress
    — so that a fade running at the end of a slew does not keep slewing on one side. -/
theorem snap_sets_both_streams (cfg : Cfg ρ) (s : St ρ) (rem : Nat) (r : ρ) (h0 : s.slew = 0) (hr : s.newR = some r) :
    (chunkStart cfg s rem).1.cur.step = cfg.num.stepOf r s.cur.mult ∧ (chunkStart cfg s rem).1.cur.ss = 0 ∧
    (chunkStart cfg s rem).1.fo.step = cfg.num.stepOf r s.fo.mult ∧ (chunkStart cfg s rem).1.fo.ss = 0 ∧
    (chunkStart cfg s rem).1.cur.clk = s.cur.clk ∧ (chunkStart cfg s rem).1.fo.clk = s.fo.clk ∧
    (chunkStart cfg s rem).1.fade = s.fade := by
  rw [chunkStart_pending cfg s rem r h0 hr]
  exact ⟨rfl, rfl, rfl, rfl, rfl, rfl, rfl⟩

/-- No chunk is longer than `AL(buf) >> 1 = 64` frames, and none outlasts the slew. -/
theorem chunk_length (cfg : Cfg ρ) (s : St ρ) (rem : Nat) :
    (chunkStart cfg s rem).2 ≤ chunkMax ∧ (chunkStart cfg s rem).2 ≤ rem ∧
    (s.slew ≠ 0 → (chunkStart cfg s rem).2 ≤ s.slew) := by
  unfold chunkStart
  dsimp only
  split
  · exact ⟨by omega, by omega, fun _ => by omega⟩
  · split <;> exact ⟨by omega, by omega, fun h => by omega⟩

/-! ## 3. `slew_len = 0`: at once; and staying there -/

/-- **Immediate when zero.**  `soxr_set_io_ratio(r, 0)` sets `step` to the target at once (first call: after choosing
    the stage by the octave of `r`). -/
theorem immediate_when_zero (cfg : Cfg ρ) (s : St ρ) (r : ρ) :
    (setIoRatio cfg s r 0).cur.step = cfg.num.stepOf r (setIoRatio cfg s r 0).cur.mult ∧
    (setIoRatio cfg s r 0).defR = none :=
  ⟨(setIoRatio_zero_spec cfg s r).2.1, (setIoRatio_zero_spec cfg s r).1⟩

/-- **The stage the first request starts on**: `octave < 0 ? −1 : min(octave, num_stages0 − 1)` with `num_stages0` the
    number of half-band octaves the declared maximum needs (0 for a maximum `≤ 1`, where `num_stages = 1`); the stream is
    a down-sampling one exactly on stages `≥ 0`, and its clock starts half a step in. -/
theorem first_ratio_stage (cfg : Cfg ρ) (s : St ρ) (r x : ρ) (hd : s.defR = some x) :
    (setIoRatio cfg s r 0).cur.sn = (if cfg.num.octave r < 0 then -1 else min (cfg.num.octave r) ((s.ns0 : Int) - 1)) ∧
    (setIoRatio cfg s r 0).cur.isD = decide ((setIoRatio cfg s r 0).cur.sn ≥ 0) ∧
    (setIoRatio cfg s r 0).cur.clk = INT s.cur.clk * two32 + FRAC (setIoRatio cfg s r 0).cur.step / 2 ∧
    -1 ≤ (setIoRatio cfg s r 0).cur.sn ∧ ((setIoRatio cfg s r 0).cur.sn : Int) ≤ max ((s.ns0 : Int) - 1) (-1) := by
  unfold setIoRatio
  simp only [hd, Option.isSome_some, if_true, ne_eq, not_true_eq_false, if_false, enter, enterStream, setStep]
  refine ⟨trivial, trivial, trivial, ?_, ?_⟩ <;> split <;> omega

/-- with a declared maximum `≤ 1` (`num_stages0 = 0`) the engine starts on the up-sampling stage −1 whatever the octave
    of the first ratio -/
theorem first_ratio_stage_max_le_one (cfg : Cfg ρ) (s : St ρ) (r x : ρ) (hd : s.defR = some x) (h0 : s.ns0 = 0) :
    (setIoRatio cfg s r 0).cur.sn = -1 ∧ (setIoRatio cfg s r 0).cur.isD = false := by
  obtain ⟨h1, h2, _, h4, h5⟩ := first_ratio_stage cfg s r x hd
  rw [h0] at h5
  have : (setIoRatio cfg s r 0).cur.sn = -1 := by omega
  exact ⟨this, by rw [h2, this]; decide⟩

/-- … and **nothing is left outstanding, whatever was going on before**: a slew in progress or a pending snap is
    cancelled (`slew_len = 0`, `new_io_ratio = 0`, `step_step = 0` for both streams).  No hypothesis on `s`.
    (On the pinned tree this needed "no slew is running and no snap is pending": F13, repaired; §3b.) -/
theorem immediate_quiescent (cfg : Cfg ρ) (s : St ρ) (r : ρ) : Quiescent (setIoRatio cfg s r 0) := by
  obtain ⟨h1, _, _, _, a, b, c, _⟩ := setIoRatio_zero_spec cfg s r
  exact ⟨h1, a, b, c⟩

/-- the fade-out stream's slew increment is cancelled too -/
theorem immediate_cancels_fadeout_slew (cfg : Cfg ρ) (s : St ρ) (r : ρ) : (setIoRatio cfg s r 0).fo.ss = 0 :=
  (setIoRatio_zero_spec cfg s r).2.2.2.2.2.2.2

/-- **Stays at the target.**  With no request outstanding, no sequence of calls (without a new request) changes
    anything: no slew starts by itself, and as long as no stage switch happens `step` does not move at all.
    (At a stage switch it is rescaled: `stage_switch_rescale`.) -/
theorem stays_at_target (cfg : Cfg ρ) (s : St ρ) (ops : List (Op ρ)) (h : Quiescent s) (hops : NoRatio ops) :
    Quiescent (run cfg { st := s } ops).st ∧
    ((run cfg { st := s } ops).nsw = 0 →
      (run cfg { st := s } ops).st.cur.step = s.cur.step ∧ (run cfg { st := s } ops).st.cur.mult = s.cur.mult ∧
      (run cfg { st := s } ops).st.cur.sn = s.cur.sn) :=
  QuiescentV_run cfg ops { st := s } hops h

/-- **At once, and then stays at `r`** — for every state `s` (a slew may be running, a snap pending, a fade in progress,
    the very first request included), every `r`, every later sequence of calls without a new request: the engine is
    quiescent, and as long as no stage switch happens `step` is exactly the target.  No hypothesis on the history. -/
theorem immediate_then_stays (cfg : Cfg ρ) (s : St ρ) (r : ρ) (ops : List (Op ρ)) (hops : NoRatio ops) :
    Quiescent (run cfg { st := setIoRatio cfg s r 0 } ops).st ∧
    ((run cfg { st := setIoRatio cfg s r 0 } ops).nsw = 0 →
      (run cfg { st := setIoRatio cfg s r 0 } ops).st.cur.step = cfg.num.stepOf r (setIoRatio cfg s r 0).cur.mult ∧
      (run cfg { st := setIoRatio cfg s r 0 } ops).st.cur.mult = (setIoRatio cfg s r 0).cur.mult) := by
  obtain ⟨hq, hs⟩ := stays_at_target cfg (setIoRatio cfg s r 0) ops (immediate_quiescent cfg s r) hops
  refine ⟨hq, fun hsw => ?_⟩
  obtain ⟨e1, e2, _⟩ := hs hsw
  exact ⟨by rw [e1]; exact (immediate_when_zero cfg s r).1, e2⟩

/-- **Every request settles** (the clause "moves to `r` over `slew_len` output frames — at once if `slew_len` is 0 — and
    then stays at `r`", for all histories).  From *any* state in which the first ratio has been set — whatever slew,
    snap or fade is in progress — a request `(r, L)` followed by any calls without a new request, without a stage
    switch (`nsw = 0`) and with the cross-faded streams in step (`nmis = 0`) that deliver more than `L` frames leaves
    nothing outstanding, with `step` equal to the target exactly; the one exception is the request whose increment
    rounds to zero (`L > 0`, target within `L/2` units of `2⁻³²`), which is dropped and leaves `step` where it was,
    within `L/2` units of the target. -/
theorem request_settles (cfg : Cfg ρ) (s : St ρ) (r : ρ) (L : Nat) (ops : List (Op ρ)) (hd : s.defR = none)
    (hops : NoRatio ops) (hsw : (run cfg { st := setIoRatio cfg s r L } ops).nsw = 0)
    (hmis : (run cfg { st := setIoRatio cfg s r L } ops).nmis = 0)
    (hout : L < (run cfg { st := setIoRatio cfg s r L } ops).out) :
    let T := cfg.num.stepOf r s.cur.mult
    let R := run cfg { st := setIoRatio cfg s r L } ops
    Quiescent R.st ∧ R.st.cur.mult = s.cur.mult ∧
    ((L = 0 ∨ slewInc T s.cur.step L ≠ 0) → R.st.cur.step = T) ∧
    ((0 < L ∧ slewInc T s.cur.step L = 0) →
      R.st.cur.step = s.cur.step ∧ 2 * (T - R.st.cur.step) ≤ L ∧ 2 * (R.st.cur.step - T) ≤ L) := by
  intro T R
  by_cases hL : L = 0
  · subst hL
    obtain ⟨hq, hs⟩ := immediate_then_stays cfg s r ops hops
    obtain ⟨e1, e2⟩ := hs hsw
    have hm : (setIoRatio cfg s r 0).cur.mult = s.cur.mult := ((setIoRatio_zero_spec cfg s r).2.2.2.1 hd).1
    refine ⟨hq, by show (run _ _ _).st.cur.mult = _; rw [e2, hm], fun _ => ?_, fun h => absurd h.1 (by omega)⟩
    show (run _ _ _).st.cur.step = _
    rw [e1, hm]
  · have hLp : 0 < L := by omega
    by_cases h0 : slewInc (cfg.num.stepOf r s.cur.mult) s.cur.step L = 0
    · obtain ⟨hq, hstep, b1, b2⟩ := slew_request_dropped cfg s r L hLp hd h0
      obtain ⟨hq', hs⟩ := stays_at_target cfg (setIoRatio cfg s r L) ops hq hops
      obtain ⟨e1, e2, _⟩ := hs hsw
      have hm : (setIoRatio cfg s r L).cur.mult = s.cur.mult := (setIoRatio_slew_spec cfg s r L hL).2.2.1
      refine ⟨hq', by show (run _ _ _).st.cur.mult = _; rw [e2, hm], fun h => ?_, fun _ => ?_⟩
      · rcases h with h | h
        · exact absurd h hL
        · exact absurd h0 h
      · have e : (run cfg { st := setIoRatio cfg s r L } ops).st.cur.step = s.cur.step := by rw [e1, hstep]
        show (run _ _ _).st.cur.step = _ ∧ 2 * (T - (run _ _ _).st.cur.step) ≤ _ ∧ 2 * ((run _ _ _).st.cur.step - T) ≤ _
        rw [e]
        exact ⟨rfl, b1, b2⟩
    · have hreq := slew_request cfg s r L hLp hd h0
      have hprog := slew_progression cfg _ (setIoRatio cfg s r L) 0 ops hreq hops hsw hmis
      rw [Nat.zero_add] at hprog
      obtain ⟨hstep, hq⟩ := snap_exact cfg _ _ _ hprog hout
      obtain ⟨_, hm, _⟩ := hprog
      simp only [St.v] at hm
      refine ⟨hq, hm, fun _ => ?_, fun h => absurd h.2 h0⟩
      show (run _ _ _).st.cur.step = _
      rw [hstep, hm]

/-! ## 3b. Historical record: F13 on the tree before its `fix:` commit

Until the repair the immediate branch of `vr_set_io_ratio` did not touch `slew_len`, `step_step`, `new_io_ratio`.
`Historical.setIoRatioPre` is that function; `runPre` runs a call sequence with it (the rest of the engine is
unchanged — `vr_process` applies the creation-time ratio through the same function, but on a fresh engine the three
fields are zero, so clearing them changes nothing).  The two theorems below were the negation of "then stays at `r`"
on the pinned tree (replayed on the real code as witnessA / witnessB / e20, finding F13); `witnesses_repaired` is the
same two call sequences on the model of the current code, which the check replays on the current code on every run. -/

def b8 : Nat := 0x4020000000000000      -- 8.0
def b6 : Nat := 0x4018000000000000      -- 6.0
def b4 : Nat := 0x4010000000000000      -- 4.0
def b3 : Nat := 0x4008000000000000      -- 3.0
def b2 : Nat := 0x4000000000000000      -- 2.0
def b1 : Nat := 0x3FF0000000000000      -- 1.0
def b025 : Nat := 0x3FD0000000000000    -- 0.25
def b39 : Nat := 0x400F333333333333     -- 3.9 (nearest double)

def wcfg : Cfg Nat := { num := Num.exact }

namespace Historical

/-- `vr_set_io_ratio` as it was before the repair of F13: the immediate branch leaves `slew_len`, `new_io_ratio` and
    the `step_step`s alone. -/
def setIoRatioPre (cfg : Cfg ρ) (s : St ρ) (r : ρ) (slew : Nat) : St ρ :=
  if slew ≠ 0 then setIoRatio cfg s r slew
  else
    let first := s.defR.isSome
    let s1 :=
      if first then
        let oct := cfg.num.octave r
        let sn : Int := if oct < 0 then -1 else min oct ((s.ns0 : Int) - 1)
        enter { s with cur := { s.cur with sn := sn } } 0
      else if s.fade ≠ 0 then { s with fo := setStep cfg s.fo r }
      else s
    let c := setStep cfg s1.cur r
    let c := if first then { c with clk := INT c.clk * two32 + FRAC c.step / 2 } else c
    { s1 with cur := c, defR := none }

def stepOpPre (cfg : Cfg ρ) (r : Run ρ) : Op ρ → Run ρ
  | .ratio x slew => { r with st := setIoRatioPre cfg r.st x slew }
  | o => stepOp cfg r o

def runPre (cfg : Cfg ρ) (r : Run ρ) (ops : List (Op ρ)) : Run ρ := ops.foldl (stepOpPre cfg) r

/-- the repair is exactly "clear the four fields first" -/
theorem setIoRatio_eq_pre_after_clear (cfg : Cfg ρ) (s : St ρ) (r : ρ) :
    setIoRatio cfg s r 0 =
      setIoRatioPre cfg { s with slew := 0, newR := none, cur := { s.cur with ss := 0 }, fo := { s.fo with ss := 0 } } r 0 := by
  simp [setIoRatio, setIoRatioPre]

/-- … so when nothing is outstanding (and the fade-out increment is zero) the two functions agree -/
theorem setIoRatio_eq_pre_of_quiescent (cfg : Cfg ρ) (s : St ρ) (r : ρ) (L : Nat)
    (h : s.slew = 0 ∧ s.newR = none ∧ s.cur.ss = 0 ∧ s.fo.ss = 0) : setIoRatio cfg s r L = setIoRatioPre cfg s r L := by
  by_cases hL : L = 0
  · subst hL
    rw [setIoRatio_eq_pre_after_clear]
    obtain ⟨h1, h2, h3, h4⟩ := h
    have : ({ s with slew := 0, newR := none, cur := { s.cur with ss := 0 }, fo := { s.fo with ss := 0 } } : St ρ) = s := by
      cases s with
      | mk ns0 ns fl fade slew xfade inc sw newR defR oocc stages cur fo =>
        cases cur; cases fo
        simp_all
    rw [this]
  · simp [setIoRatioPre, hL]

/-- e20.c scaled down: at ratio 4, slew to 1.0 over 500 frames; 50 frames into it, `soxr_set_io_ratio(3.9, 0)`. -/
def opsA : List (Op Nat) :=
  [.ratio b4 0] ++ List.replicate 10 (.proc 400 50) ++ [.ratio b1 500] ++ [.proc 400 50] ++
    [.ratio b39 0] ++ List.replicate 14 (.proc 400 50)

/-- the slew has just delivered its last frame when the immediate request arrives (snap pending) -/
def opsB : List (Op Nat) :=
  [.ratio b4 0] ++ List.replicate 10 (.proc 400 50) ++ [.ratio b2 100] ++ [.proc 400 50, .proc 400 50] ++
    [.ratio b3 0] ++ [.proc 400 50, .proc 400 50]

def witnessAPre : Run Nat := runPre wcfg { st := init wcfg b8 } opsA
def witnessBPre : Run Nat := runPre wcfg { st := init wcfg b8 } opsB
def witnessA : Run Nat := run wcfg { st := init wcfg b8 } opsA
def witnessB : Run Nat := run wcfg { st := init wcfg b8 } opsB

set_option maxRecDepth 100000 in
/-- **F13 (historical; the pre-repair function).**  The last request was `(3.9, 0)`; 700 frames later nothing is
    outstanding, yet `step` is the target of the *abandoned* slew (1.0), not 3.9. -/
theorem pre_fix_stays_at_target_fails_during_slew :
    witnessAPre.st.slew = 0 ∧ witnessAPre.st.newR = none ∧ witnessAPre.nneg = 0 ∧
    witnessAPre.st.cur.step = exactStepOf b1 witnessAPre.st.cur.mult ∧
    witnessAPre.st.cur.step ≠ exactStepOf b39 witnessAPre.st.cur.mult := by
  decide +kernel

set_option maxRecDepth 100000 in
/-- Same defect, other window: the request arrives after the last frame of a slew but before the next chunk has
    snapped; the next `vr_process` then overwrote 3.0 with the old target 2.0. -/
theorem pre_fix_stays_at_target_fails_snap_pending :
    witnessBPre.st.slew = 0 ∧ witnessBPre.st.newR = none ∧
    witnessBPre.st.cur.step = exactStepOf b2 witnessBPre.st.cur.mult ∧
    witnessBPre.st.cur.step ≠ exactStepOf b3 witnessBPre.st.cur.mult := by
  decide +kernel

set_option maxRecDepth 100000 in
/-- The same call sequences on the model of the current code end at the last requested ratio (instances of
    `immediate_then_stays`; computed here so that the check can replay exactly these numbers on the real code). -/
theorem witnesses_repaired :
    witnessA.st.cur.step = exactStepOf b39 witnessA.st.cur.mult ∧ witnessA.st.slew = 0 ∧ witnessA.st.newR = none ∧
    witnessB.st.cur.step = exactStepOf b3 witnessB.st.cur.mult ∧ witnessB.st.slew = 0 ∧ witnessB.st.newR = none := by
  decide +kernel

end Historical

/-! ## 4. Stage switch: one power of two, time continuous -/

/-- **Rescaling.**  At a stage switch the old current stream becomes the fade-out stream unchanged; the new current
    stream reads the neighbouring stage with `at`, `step`, `step_step` shifted by one power of two (two for `step`
    and `step_step` between the up-sampling stage −1 and stage 0, whose streams run at different output rates);
    the pending request and the slew counter are untouched; the cross-fade of the streams starts. -/
theorem stage_switch_rescale (s : St ρ) (dif occ0 : Int) :
    (switchStage s dif occ0).fo = s.cur ∧ (switchStage s dif occ0).cur.sn = s.cur.sn + dif ∧
    (switchStage s dif occ0).cur.clk = lshift s.cur.clk (-dif) ∧
    (switchStage s dif occ0).cur.step = lshift s.cur.step (switchShift s dif) ∧
    (switchStage s dif occ0).cur.ss = lshift s.cur.ss (switchShift s dif) ∧
    (switchStage s dif occ0).slew = s.slew ∧ (switchStage s dif occ0).newR = s.newR ∧
    (switchStage s dif occ0).fade = fadeLen := by
  obtain ⟨h1, h2, _, _, _, h6, h7, _, h9, _, _, h12, h13, h14⟩ := switchStage_spec s dif occ0
  exact ⟨h6, h9, h12, h13, h14, h1, h2, h7⟩

/-- **The shifts of the repaired code are the model's (F14).**  `vr_process` rescales with the macro
    `lshift(x,by) = by > 0 ? (int64_t)((uint64_t)x << by) : x >> -by` (`lshiftC`); the model's `lshift` multiplies /
    floor-divides unbounded integers.  They agree for every value — negative ones included: the `step_step` of a downward
    slew at a switch to the finer stage, which the pinned tree shifted left as a signed value (undefined behaviour) —
    whenever the left-shifted value still fits 64 bits.  So the three fields after a stage switch are what the C code
    computes. -/
theorem stage_switch_shifts_as_repaired_code (s : St ρ) (dif occ0 : Int)
    (hfit : ∀ x ∈ [s.cur.clk, s.cur.step, s.cur.ss], ∀ k ∈ [-dif, switchShift s dif],
      k > 0 → -2 ^ 63 ≤ x * 2 ^ k.toNat ∧ x * 2 ^ k.toNat < 2 ^ 63) :
    (switchStage s dif occ0).cur.clk = lshiftC s.cur.clk (-dif) ∧
    (switchStage s dif occ0).cur.step = lshiftC s.cur.step (switchShift s dif) ∧
    (switchStage s dif occ0).cur.ss = lshiftC s.cur.ss (switchShift s dif) := by
  obtain ⟨_, _, h3, h4, h5, _⟩ := stage_switch_rescale s dif occ0
  rw [h3, h4, h5]
  refine ⟨(lshiftC_eq_lshift _ _ ?_).symm, (lshiftC_eq_lshift _ _ ?_).symm, (lshiftC_eq_lshift _ _ ?_).symm⟩
  · exact hfit _ (by simp) _ (by simp)
  · exact hfit _ (by simp) _ (by simp)
  · exact hfit _ (by simp) _ (by simp)

/-- a negative `step_step` shifted left by one, as at every downward octave crossing: `-3221225 → -6442450` -/
example : lshiftC (-3221225) 1 = lshift (-3221225) 1 ∧ lshift (-3221225) 1 = -6442450 ∧
    (-2 ^ 63 ≤ (-3221225 : Int) * 2 ^ 1 ∧ (-3221225 : Int) * 2 ^ 1 < 2 ^ 63) := by decide

/-- **Time continuity, switching down** (to the stage with twice the rate; only taken from a down-sampling stream):
    read position, ratio and slew rate in input time are *exactly* unchanged. -/
theorem stage_switch_down_continuous (s : St ρ) (occ0 : Int) (hsn : 0 ≤ s.cur.sn) (hd : s.cur.isD = true) :
    posIn (switchStage s (-1) occ0).cur = posIn s.cur ∧ rateIn (switchStage s (-1) occ0).cur = rateIn s.cur ∧
    slewIn (switchStage s (-1) occ0).cur = slewIn s.cur := by
  obtain ⟨_, _, _, _, _, _, _, _, h9, h10, _, h12, h13, h14⟩ := switchStage_spec s (-1) occ0
  have hp := posScale_succ (s.cur.sn + -1) (by omega)
  rw [show s.cur.sn + -1 + 1 = s.cur.sn by omega] at hp
  unfold posIn rateIn slewIn rateScale
  rw [h9, h10, h12, h13, h14, hd]
  unfold switchShift
  rw [hd]
  by_cases h0 : s.cur.sn = 0
  · have e : decide (s.cur.sn + -1 ≥ 0) = false := by simp; omega
    rw [e]
    simp only [b2i, if_true, Bool.false_eq_true, if_false, Int.neg_neg]
    rw [show (1 : Int) + (1 - 0) = 2 by decide, lshift_one, lshift_two, lshift_two, hp]
    generalize posScale (s.cur.sn + -1) = P
    refine ⟨by ring, by ring, by ring⟩
  · have e : decide (s.cur.sn + -1 ≥ 0) = true := by simp; omega
    rw [e]
    simp only [b2i, if_true, Int.neg_neg]
    rw [show (1 : Int) + (1 - 1) = 1 by decide, lshift_one, lshift_one, lshift_one, hp]
    generalize posScale (s.cur.sn + -1) = P
    refine ⟨by ring, by ring, by ring⟩

/-- **Time continuity, switching up** (to the stage with half the rate): the three are rounded *down* to the coarser
    representation — the read position moves back by less than one unit of the new clock (`2⁻³²` sample of the new
    stage), the ratio and the slew rate fall by less than one unit of the new `step`. -/
theorem stage_switch_up_continuous (s : St ρ) (occ0 : Int) (hsn : -1 ≤ s.cur.sn) (hd : s.cur.isD = decide (0 ≤ s.cur.sn)) :
    let c' := (switchStage s 1 occ0).cur
    (0 ≤ posIn s.cur - posIn c' ∧ posIn s.cur - posIn c' < posScale c'.sn) ∧
    (0 ≤ rateIn s.cur - rateIn c' ∧ rateIn s.cur - rateIn c' < rateScale c') ∧
    (0 ≤ slewIn s.cur - slewIn c' ∧ slewIn s.cur - slewIn c' < rateScale c') := by
  intro c'
  obtain ⟨_, _, _, _, _, _, _, _, h9, h10, _, h12, h13, h14⟩ := switchStage_spec s 1 occ0
  have hp := posScale_succ s.cur.sn hsn
  have hpos := posScale_pos s.cur.sn
  have e : decide (s.cur.sn + 1 ≥ 0) = true := by simp; omega
  show (0 ≤ posIn s.cur - posIn (switchStage s 1 occ0).cur ∧ _ < posScale (switchStage s 1 occ0).cur.sn) ∧
    (0 ≤ rateIn s.cur - rateIn (switchStage s 1 occ0).cur ∧ _ < rateScale (switchStage s 1 occ0).cur) ∧
    (0 ≤ slewIn s.cur - slewIn (switchStage s 1 occ0).cur ∧ _ < rateScale (switchStage s 1 occ0).cur)
  unfold posIn rateIn slewIn rateScale
  rw [h9, h10, h12, h13, h14, e, hp, lshift_neg_one]
  unfold switchShift
  rw [e]
  by_cases h0 : 0 ≤ s.cur.sn
  · have hd' : s.cur.isD = true := by rw [hd]; simp [h0]
    rw [hd']
    simp only [b2i, if_true]
    rw [show -(1 : Int) + (1 - 1) = -1 by decide, lshift_neg_one, lshift_neg_one]
    have a := half_floor_scaled s.cur.clk (posScale s.cur.sn) hpos
    have b := half_floor_scaled s.cur.step (posScale s.cur.sn * 2) (by omega)
    have c := half_floor_scaled s.cur.ss (posScale s.cur.sn * 2) (by omega)
    generalize posScale s.cur.sn = P at *
    refine ⟨⟨by omega, by omega⟩, ⟨?_, ?_⟩, ⟨?_, ?_⟩⟩
    · rw [show s.cur.step / 2 * (2 * P * 2) = s.cur.step / 2 * (2 * (P * 2)) by rw [Int.mul_assoc 2 P 2]]; exact b.1
    · rw [show s.cur.step / 2 * (2 * P * 2) = s.cur.step / 2 * (2 * (P * 2)) by rw [Int.mul_assoc 2 P 2]]
      rw [show 2 * P * 2 = 2 * (P * 2) by rw [Int.mul_assoc 2 P 2]]; exact b.2
    · rw [show s.cur.ss / 2 * (2 * P * 2) = s.cur.ss / 2 * (2 * (P * 2)) by rw [Int.mul_assoc 2 P 2]]; exact c.1
    · rw [show s.cur.ss / 2 * (2 * P * 2) = s.cur.ss / 2 * (2 * (P * 2)) by rw [Int.mul_assoc 2 P 2]]
      rw [show 2 * P * 2 = 2 * (P * 2) by rw [Int.mul_assoc 2 P 2]]; exact c.2
  · have hm : s.cur.sn = -1 := by omega
    have hd' : s.cur.isD = false := by rw [hd]; simp [h0]
    have hP : posScale s.cur.sn = 1 := by rw [hm]; rfl
    rw [hd']
    simp only [b2i, if_true, Bool.false_eq_true, if_false]
    rw [show -(1 : Int) + (0 - 1) = -2 by decide, lshift_neg_two, lshift_neg_two, hP]
    have a := half_floor_scaled s.cur.clk 1 (by decide)
    refine ⟨⟨by omega, by omega⟩, ⟨by omega, by omega⟩, ⟨by omega, by omega⟩⟩

/-! ## 5. Frame count at a constant ratio, on the clock -/

/-- **N / ratio within two frames (up-sampling stream).**  A stream at a constant `step = S` (`step_step = 0`) that
    starts inside its first step (`0 ≤ at < S`) and is asked for more than it can give delivers `k` frames from `len = N`
    samples with `|k − N·2³²/S| < 1`; and if `S` is `r·2³²` rounded for `r = p/q` samples per frame and `k` is below
    the resolution of the 32-bit fraction (`(k+1)/r ≤ 2³²`), then `|k − N/r| < 2`. -/
theorem frames_for_constant_ratio (s : Stream) (n : Nat) (p q : Int) (hss : s.ss = 0) (hS : 0 < s.step)
    (hA0 : 0 ≤ s.clk) (hA : s.clk < s.step) (hN : 0 ≤ s.len) (hk : (firU s n).2 < n) (hp : 0 < p) (hq : 0 < q)
    (hr1 : s.step * q - p * 4294967296 ≤ q) (hr2 : p * 4294967296 - s.step * q ≤ q)
    (hres : (((firU s n).2 : Int) + 1) * q ≤ p * 4294967296) :
    ((firU s n).2 : Int) * p - s.len * q < 2 * p ∧ s.len * q - ((firU s n).2 : Int) * p < 2 * p := by
  obtain ⟨_, h2, h3⟩ := firU_const n s hss
  have hstop := h2 hk
  generalize (firU s n).2 = k at *
  apply count_within_two (k : Int) s.len s.step s.clk p q hS hA0 hA (by omega) hN hp hq _ _ hr1 hr2 hres
  · intro hk0
    have := h3 (k - 1) (by omega)
    rw [show (((k - 1 : Nat)) : Int) = (k : Int) - 1 by omega] at this
    simpa [two32] using this
  · simpa [two32] using hstop

/-- The same for a down-sampling stream (`poly_fir_d`): `k` output frames are `k` pairs of 2x-rate samples, the clock
    advances `2·step` per frame. -/
theorem frames_for_constant_ratio_d (s : Stream) (n : Nat) (p q : Int) (hss : s.ss = 0) (hS : 0 < s.step)
    (hA0 : 0 ≤ s.clk) (hA : s.clk < s.step) (hN : 0 ≤ s.len) (hk : (firDPairs s n).2 < n) (hp : 0 < p) (hq : 0 < q)
    (hr1 : 2 * s.step * q - p * 4294967296 ≤ q) (hr2 : p * 4294967296 - 2 * s.step * q ≤ q)
    (hres : (((firDPairs s n).2 : Int) + 1) * q ≤ p * 4294967296) :
    ((firDPairs s n).2 : Int) * p - s.len * q < 2 * p ∧ s.len * q - ((firDPairs s n).2 : Int) * p < 2 * p := by
  obtain ⟨_, h2, h3⟩ := firDPairs_const n s hss (by omega)
  have hstop := h2 hk
  generalize (firDPairs s n).2 = k at *
  apply count_within_two (k : Int) s.len (2 * s.step) (s.clk + s.step) p q (by omega) (by omega) (by omega) (by omega)
    hN hp hq _ _ hr1 hr2 hres
  · intro hk0
    have := h3 (k - 1) (by omega)
    rw [show (((k - 1 : Nat)) : Int) = (k : Int) - 1 by omega] at this
    simp only [two32] at this
    omega
  · simp only [two32] at hstop
    omega

/-- **`vr_process` never delivers more than it was asked for** (`odone0 ≤ olen0`, the space reserved in the output
    FIFO) — from any state, through snaps, stage switches and fades; and `vr_output` hands out at most `n` frames. -/
theorem process_delivers_at_most_requested (cfg : Cfg ρ) (s : St ρ) (olen0 n : Nat) :
    (process cfg s olen0).od ≤ olen0 ∧ (output s n).2 ≤ n := by
  refine ⟨?_, ?_⟩
  · exact process_induct cfg s olen0 (fun _ od _ _ => od ≤ olen0) (Nat.zero_le _) (by
      intro l hl hlt
      have hc := chunk_spec cfg olen0 l
      dsimp only at hc
      obtain ⟨_, _, c3, _, _, _, _, _, _, _, _, _, c14⟩ := hc
      have hb := (chunk_length cfg l.st (olen0 - l.od0)).2.1
      omega)
  · unfold output
    dsimp only
    omega

/-! ## 5b. Frame count at a constant ratio, the whole engine

`Vr/Engine.lean`: `vr_input`, the half-band chain of `do_input_stage` with its preloads, `occupancy0`, the chunked `while`
loop, the hand-back of consumed input to every FIFO, `vr_flush` — for an engine that has just been given its first
ratio and whose increment lies in the octave of the stage it starts on (so that no stage switch is taken). -/

/-- the first request is the first operation of the run -/
theorem run_first_ratio (cfg : Cfg ρ) (s : St ρ) (r : ρ) (ops : List (Op ρ)) :
    run cfg { st := s } ([.ratio r 0] ++ ops) = run cfg { st := setIoRatio cfg s r 0 } ops := by
  simp [run, stepOp]

/-- **N / ratio frames from the WHOLE ENGINE.**  `vr_create(max)`, a first `vr_set_io_ratio(r, 0)`, then ANY sequence of
    `soxr_process` calls (any input block sizes, any output requests, totalling `N` input frames), then ANY flush calls
    of which the last delivers fewer frames than it is asked for (the engine is drained).  If the increment the first
    request stores lies in the octave of the stage it starts on (`InRange`: no stage switch will ever be asked for),
    the total number `K` of frames delivered satisfies

        (K − 1) · ρ  <  N  <  (K + 2) · ρ        i.e.   N/ρ − 2  <  K  <  N/ρ + 1

    where `ρ = rateIn / 2³³` is the ratio the engine actually runs at (`rateIn`: the stored increment in the
    stage-independent unit of `2⁻³³` input frames per output frame).  No stage switch is taken, no cross-fade mismatch
    occurs.  Every stage: up-sampling (−1), stage 0, and every half-band stage `k ≥ 1`, where the chain delivers
    `⌊N / 2^k⌋` samples of stage `k` after the flush — the floor is the second frame of the lower bound. -/
theorem frames_full_engine (cfg : Cfg ρ) (mx r : ρ) (blocks : List (Nat × Nat)) (drain : List Nat) (o : Nat)
    (hrange : InRange (setIoRatio cfg (init cfg mx) r 0).cur)
    (hdr : (run cfg { st := init cfg mx } ([.ratio r 0] ++ (procOps blocks ++ flushOps drain ++ [.flush o]))).out <
      (run cfg { st := init cfg mx } ([.ratio r 0] ++ (procOps blocks ++ flushOps drain))).out + o) :
    let R := run cfg { st := init cfg mx } ([.ratio r 0] ++ (procOps blocks ++ flushOps drain ++ [.flush o]))
    let rate := rateIn (setIoRatio cfg (init cfg mx) r 0).cur
    (0 < R.out → ((R.out : Int) - 1) * rate < (totalIn blocks : Int) * 8589934592) ∧
    (totalIn blocks : Int) * 8589934592 < ((R.out : Int) + 2) * rate ∧ R.nsw = 0 ∧ R.nmis = 0 := by
  intro R rate
  have hR : R = run cfg { st := setIoRatio cfg (init cfg mx) r 0 } (procOps blocks ++ flushOps drain ++ [.flush o]) :=
    run_first_ratio cfg _ r _
  have hrdef : rate = rateIn (setIoRatio cfg (init cfg mx) r 0).cur := rfl
  clear_value R rate
  rw [run_first_ratio, run_first_ratio] at hdr
  obtain ⟨hsn, hisd, _, hlo, _⟩ := first_ratio_stage cfg (init cfg mx) r mx rfl
  generalize hs0 : setIoRatio cfg (init cfg mx) r 0 = s0 at *
  by_cases hneg : s0.cur.sn = -1
  · -- up-sampling stage
    have hd : s0.cur.isD = false := by rw [hisd, hneg]; decide
    have hS : 0 < s0.cur.step ∧ s0.cur.step ≤ 8589934592 := by
      unfold InRange at hrange; rw [hd] at hrange; simpa using hrange
    have h0 := engU_init cfg mx r (by rw [hs0]; exact hneg) (by rw [hs0]; exact hS)
    rw [hs0] at h0
    obtain ⟨e1, e2, e3, e4⟩ := frames_engine_U cfg s0.cur.step (FRAC s0.cur.step / 2) s0 blocks drain o h0 hdr
    rw [← hR] at e1 e2 e3 e4
    have hrate : rate = s0.cur.step := by
      rw [hrdef]
      unfold rateIn rateScale posScale
      rw [hd, hneg]; simp
    have hA : 0 ≤ FRAC s0.cur.step / 2 ∧ FRAC s0.cur.step / 2 < s0.cur.step := by unfold FRAC two32; omega
    rw [hrate]
    unfold two32 at e1 e2
    generalize s0.cur.step = S at *
    generalize FRAC S / 2 = A0 at *
    generalize (totalIn blocks : Int) = N at *
    generalize (R.out : Int) = K at *
    refine ⟨fun hK => ?_, ?_, e3, e4⟩
    · have := e1 hK; nlinarith
    · nlinarith
  · -- down-sampling stage k ≥ 0
    obtain ⟨k, hk⟩ : ∃ k : Nat, s0.cur.sn = (k : Int) := ⟨s0.cur.sn.toNat, by omega⟩
    have hd : s0.cur.isD = true := by rw [hisd, hk]; simp
    have hS : 2147483648 ≤ s0.cur.step ∧ s0.cur.step ≤ 4294967296 := by
      unfold InRange at hrange; rw [hd] at hrange; simpa using hrange
    have h0 := eng_init cfg mx r k (by rw [hs0]; exact hk) (by rw [hs0]; exact hS)
    rw [hs0] at h0
    obtain ⟨e1, e2, e3, e4⟩ := frames_engine_D cfg k s0.cur.step (FRAC s0.cur.step / 2) s0 blocks drain o h0 hdr
    rw [← hR] at e1 e2 e3 e4
    have hrate : rate = s0.cur.step * (2 ^ k * 4) := by
      rw [hrdef]
      unfold rateIn rateScale posScale
      rw [hd, hk, show ((k : Int) + 1).toNat = k + 1 by omega, Int.pow_succ]
      simp only [if_true]
      ring
    have hA : 0 ≤ FRAC s0.cur.step / 2 ∧ 2 * (FRAC s0.cur.step / 2) ≤ s0.cur.step := by unfold FRAC two32; omega
    have hP : (0 : Int) < 2 ^ k := Int.pow_pos (by decide)
    have hdiv := Int.mul_ediv_add_emod (totalIn blocks : Int) (2 ^ k)
    have hm0 := Int.emod_nonneg (totalIn blocks : Int) (Int.ne_of_gt hP)
    have hm1 := Int.emod_lt_of_pos (totalIn blocks : Int) hP
    rw [hrate]
    unfold two32 at e1 e2
    generalize s0.cur.step = S at *
    generalize FRAC S / 2 = A0 at *
    generalize (totalIn blocks : Int) / 2 ^ k = N' at *
    generalize (totalIn blocks : Int) % 2 ^ k = rem at *
    generalize (totalIn blocks : Int) = N at *
    generalize (2 : Int) ^ k = P at *
    generalize (R.out : Int) = K at *
    refine ⟨fun hK => ?_, ?_, e3, e4⟩
    · have h1 := e1 hK
      have : (K - 1) * (2 * S) < N' * 4294967296 := by nlinarith
      have : (K - 1) * (2 * S) * (2 * P) < N' * 4294967296 * (2 * P) := by
        apply Int.mul_lt_mul_of_pos_right this; omega
      nlinarith
    · have : N' * 4294967296 * (2 * P) ≤ (A0 + K * (2 * S) + S) * (2 * P) := by
        apply Int.mul_le_mul_of_nonneg_right e2; omega
      have hSP : 0 < S * P := Int.mul_pos (by omega) hP
      nlinarith

/-- … against a ratio `p/q` (input frames per output frame) that the stored increment represents exactly — every dyadic
    ratio, e.g. — **within two frames of `N / ratio`**: `N/ratio − 2 < K < N/ratio + 1`. -/
theorem frames_full_engine_exact_ratio (cfg : Cfg ρ) (mx r : ρ) (blocks : List (Nat × Nat)) (drain : List Nat) (o : Nat) (p q : Int)
    (hq : 0 < q) (hpq : rateIn (setIoRatio cfg (init cfg mx) r 0).cur * q = p * 8589934592)
    (hrange : InRange (setIoRatio cfg (init cfg mx) r 0).cur)
    (hdr : (run cfg { st := init cfg mx } ([.ratio r 0] ++ (procOps blocks ++ flushOps drain ++ [.flush o]))).out <
      (run cfg { st := init cfg mx } ([.ratio r 0] ++ (procOps blocks ++ flushOps drain))).out + o) :
    let R := run cfg { st := init cfg mx } ([.ratio r 0] ++ (procOps blocks ++ flushOps drain ++ [.flush o]))
    (0 < R.out → ((R.out : Int) - 1) * p < (totalIn blocks : Int) * q) ∧ (totalIn blocks : Int) * q < ((R.out : Int) + 2) * p := by
  intro R
  obtain ⟨h1, h2, _, _⟩ := frames_full_engine cfg mx r blocks drain o hrange hdr
  generalize rateIn (setIoRatio cfg (init cfg mx) r 0).cur = rate at *
  refine ⟨fun hK => ?_, ?_⟩
  · have := h1 hK
    have : ((R.out : Int) - 1) * rate * q < (totalIn blocks : Int) * 8589934592 * q := Int.mul_lt_mul_of_pos_right this hq
    nlinarith
  · have : (totalIn blocks : Int) * 8589934592 * q < ((R.out : Int) + 2) * rate * q := Int.mul_lt_mul_of_pos_right h2 hq
    nlinarith

/-- … and against a ratio `p/q` that the increment only approximates (`|rateIn·q − p·2³³| ≤ e`, the rounding of
    `(int64)(io_ratio * step_mult + .5)` scaled to input time): at most one frame more on either side as long as the
    accumulated rounding stays below a frame, `(K + 2)·e ≤ p·2³³`. -/
theorem frames_full_engine_rounded_ratio (cfg : Cfg ρ) (mx r : ρ) (blocks : List (Nat × Nat)) (drain : List Nat) (o : Nat) (p q e : Int)
    (hq : 0 < q) (_hp : 0 < p) (he1 : rateIn (setIoRatio cfg (init cfg mx) r 0).cur * q ≤ p * 8589934592 + e)
    (he2 : p * 8589934592 ≤ rateIn (setIoRatio cfg (init cfg mx) r 0).cur * q + e) (he0 : 0 ≤ e)
    (hrange : InRange (setIoRatio cfg (init cfg mx) r 0).cur)
    (hdr : (run cfg { st := init cfg mx } ([.ratio r 0] ++ (procOps blocks ++ flushOps drain ++ [.flush o]))).out <
      (run cfg { st := init cfg mx } ([.ratio r 0] ++ (procOps blocks ++ flushOps drain))).out + o)
    (hres : ((run cfg { st := init cfg mx } ([.ratio r 0] ++ (procOps blocks ++ flushOps drain ++ [.flush o]))).out + 2 : Int) * e ≤
      p * 8589934592) :
    let R := run cfg { st := init cfg mx } ([.ratio r 0] ++ (procOps blocks ++ flushOps drain ++ [.flush o]))
    (1 < R.out → ((R.out : Int) - 2) * p < (totalIn blocks : Int) * q) ∧ (totalIn blocks : Int) * q < ((R.out : Int) + 3) * p := by
  intro R
  obtain ⟨h1, h2, _, _⟩ := frames_full_engine cfg mx r blocks drain o hrange hdr
  generalize rateIn (setIoRatio cfg (init cfg mx) r 0).cur = rate at *
  have hR : (run cfg { st := init cfg mx } ([.ratio r 0] ++ (procOps blocks ++ flushOps drain ++ [.flush o]))).out = R.out := rfl
  rw [hR] at hres
  generalize hKdef : (R.out : Int) = K at *
  generalize (totalIn blocks : Int) = N at *
  have hK0 : (0 : Int) ≤ K := by omega
  refine ⟨fun hK => ?_, ?_⟩
  · have := h1 (by omega)
    have : (K - 1) * rate * q < N * 8589934592 * q := Int.mul_lt_mul_of_pos_right this hq
    have hk1 : (0 : Int) ≤ K - 1 := by omega
    have : (K - 1) * (p * 8589934592) ≤ (K - 1) * (rate * q + e) := Int.mul_le_mul_of_nonneg_left he2 hk1
    nlinarith
  · have : N * 8589934592 * q < (K + 2) * rate * q := Int.mul_lt_mul_of_pos_right h2 hq
    have hk2 : (0 : Int) ≤ K + 2 := by omega
    have : (K + 2) * (rate * q) ≤ (K + 2) * (p * 8589934592 + e) := Int.mul_le_mul_of_nonneg_left he1 hk2
    nlinarith

/-- **… with no hypothesis on the floating-point evaluation left, for the exact one** (`Num.exact`: exact dyadic arithmetic
    on the bit patterns, which the driver compares with IEEE arithmetic at every ratio): for EVERY declared maximum
    `max < 2³¹` and EVERY normal double `2⁻⁶ ≤ r ≤ max` (doubles as bit patterns; positive doubles are ordered as their
    bit patterns) the stage chosen by the octave suits the increment (`inRange_exact`), so: fresh engine, first ratio
    `r`, any blocking, any flush sequence ending drained ⇒ `N/ρ − 2 < K < N/ρ + 1`, no stage switch, no fade mismatch. -/
theorem frames_full_engine_exact_num (mx r : Nat) (blocks : List (Nat × Nat)) (drain : List Nat) (o : Nat)
    (hmx : mx < 2 ^ 63) (hle : r ≤ mx) (hnorm : 1 ≤ (r / 2 ^ 52) % 2048) (hlo : -6 ≤ exactOctave r) (hhi : exactOctave mx ≤ 30)
    (hdr : (run wcfg { st := init wcfg mx } ([.ratio r 0] ++ (procOps blocks ++ flushOps drain ++ [.flush o]))).out <
      (run wcfg { st := init wcfg mx } ([.ratio r 0] ++ (procOps blocks ++ flushOps drain))).out + o) :
    let R := run wcfg { st := init wcfg mx } ([.ratio r 0] ++ (procOps blocks ++ flushOps drain ++ [.flush o]))
    let rate := rateIn (setIoRatio wcfg (init wcfg mx) r 0).cur
    (0 < R.out → ((R.out : Int) - 1) * rate < (totalIn blocks : Int) * 8589934592) ∧
    (totalIn blocks : Int) * 8589934592 < ((R.out : Int) + 2) * rate ∧ R.nsw = 0 ∧ R.nmis = 0 :=
  frames_full_engine wcfg mx r blocks drain o (inRange_exact mx r hmx hle hnorm hlo hhi) hdr

/-- the hypotheses of `frames_full_engine_exact_num` for maximum 8.0 and ratios 6.0, 0.25 and 3.9 (bit patterns) -/
example : b8 < 2 ^ 63 ∧ b6 ≤ b8 ∧ b025 ≤ b8 ∧ b39 ≤ b8 ∧ 1 ≤ (b6 / 2 ^ 52) % 2048 ∧ 1 ≤ (b025 / 2 ^ 52) % 2048 ∧
    -6 ≤ exactOctave b025 ∧ exactOctave b025 = -2 ∧ exactOctave b39 = 1 ∧ exactOctave b8 ≤ 30 := by decide

set_option maxRecDepth 1000000 in
/-- hypotheses and conclusion on a concrete run: maximum 8, ratio 6 (stage 2, increment `6·2²⁹` inside its octave),
    1000 input frames in blocks of 400/600 with output requests of 30 and 500 (nothing comes out yet: stage 2 has not
    been fed 480 samples), flushes of 100, 40 and 50 of which the last returns 26: 166 frames, `1000/6 = 166.7`,
    `p/q = 6/1` exact, `(166 − 1)·6 < 1000 < (166 + 2)·6` -/
example :
    InRange (setIoRatio wcfg (init wcfg b8) b6 0).cur ∧
    rateIn (setIoRatio wcfg (init wcfg b8) b6 0).cur * 1 = 6 * 8589934592 ∧
    (run wcfg { st := init wcfg b8 } ([.ratio b6 0] ++ (procOps [(400, 30), (600, 500)] ++ flushOps [100, 40] ++ [.flush 50]))).out = 166 ∧
    (run wcfg { st := init wcfg b8 } ([.ratio b6 0] ++ (procOps [(400, 30), (600, 500)] ++ flushOps [100, 40]))).out = 140 ∧
    totalIn [(400, 30), (600, 500)] = 1000 := by
  decide +kernel

/-! ## 6. `soxr_set_io_ratio`: who accepts a new ratio -/

/-- **Constant-rate engines refuse.**  An initialised resampler without sticky error whose engine has no
    `set_io_ratio` entry, asked for a ratio that differs from its own by `1e-15` or more: the error string is
    returned, nothing in the struct changes, no engine function is called. -/
theorem cr_refuses_ratio_change (n : ApiNum ρ) (a : ApiSt ρ) (r : ρ) (he : a.sticky = false) (hc : a.nch ≠ 0)
    (hr : n.le0 r = false) (hi : a.inited = true) (hv : a.isVR = false) (hne : n.close a.ioRatio r = false) :
    (apiSetIoRatio n (some a) r).res = .notSupported ∧
    (apiSetIoRatio n (some a) r).res.msg = "varying O/I ratio is not supported with this quality level" ∧
    (apiSetIoRatio n (some a) r).st = some a ∧ (apiSetIoRatio n (some a) r).engineCalls = 0 ∧
    (apiSetIoRatio n (some a) r).initialised = false := by
  simp [apiSetIoRatio, he, hc, hr, hi, hv, hne, SetRes.msg]

/-- the same ratio (within `1e-15`) is accepted by a constant-rate engine, and nothing happens -/
theorem cr_accepts_same_ratio (n : ApiNum ρ) (a : ApiSt ρ) (r : ρ) (he : a.sticky = false) (hc : a.nch ≠ 0)
    (hr : n.le0 r = false) (hi : a.inited = true) (hv : a.isVR = false) (heq : n.close a.ioRatio r = true) :
    (apiSetIoRatio n (some a) r).res = .ok ∧ (apiSetIoRatio n (some a) r).st = some a ∧
    (apiSetIoRatio n (some a) r).engineCalls = 0 := by
  simp [apiSetIoRatio, he, hc, hr, hi, hv, heq]

/-- **The variable-rate engine accepts**: no error, `vr_set_io_ratio` is called once per channel, the struct (its
    `io_ratio` — the declared maximum — included) is unchanged. -/
theorem vr_accepts (n : ApiNum ρ) (a : ApiSt ρ) (r : ρ) (he : a.sticky = false) (hc : a.nch ≠ 0)
    (hr : n.le0 r = false) (hi : a.inited = true) (hv : a.isVR = true) :
    (apiSetIoRatio n (some a) r).res = .ok ∧ (apiSetIoRatio n (some a) r).st = some a ∧
    (apiSetIoRatio n (some a) r).engineCalls = a.nch := by
  simp [apiSetIoRatio, he, hc, hr, hi, hv]

/-- Whatever the engine: a non-positive ratio, a sticky error, a resampler without channels or a null pointer is an
    error and changes nothing. -/
theorem set_io_ratio_error_changes_nothing (n : ApiNum ρ) (p : Option (ApiSt ρ)) (r : ρ)
    (h : (apiSetIoRatio n p r).res ≠ .ok) :
    (apiSetIoRatio n p r).st = p ∧ (apiSetIoRatio n p r).engineCalls = 0 := by
  unfold apiSetIoRatio at h ⊢
  cases p with
  | none => simp
  | some a =>
    dsimp only at h ⊢
    split
    · simp
    · split
      · simp
      · split
        · simp
        · split
          · simp_all
          · split
            · simp_all
            · split <;> simp_all

/-! ## Non-vacuity: the hypotheses are met by concrete, non-trivial states of a real run -/

/-- a state in mid-slew: ratio 4, then 50 frames into a slew to 1.0 over 500 frames -/
def midSlew : St Nat :=
  (run wcfg { st := init wcfg b8 }
    ([.ratio b4 0] ++ List.replicate 10 (.proc 400 50) ++ [.ratio b1 500] ++ [.proc 400 50])).st

/-- at ratio 4 with nothing outstanding -/
def steady : St Nat :=
  (run wcfg { st := init wcfg b8 } ([.ratio b4 0] ++ List.replicate 10 (.proc 400 50))).st

set_option maxRecDepth 100000 in
/-- `slew_request`'s hypotheses hold at `steady` (non-zero increment), and `Slewing` is then satisfied 50 frames on
    — with a negative increment, `slew_len = 450`. -/
example :
    steady.defR = none ∧ slewInc (wcfg.num.stepOf b1 steady.cur.mult) steady.cur.step 500 = -3221225 ∧
    midSlew.slew = 450 ∧ midSlew.newR = some b1 ∧ midSlew.cur.ss = -3221225 ∧
    midSlew.cur.step = steady.cur.step + 50 * -3221225 := by
  decide +kernel

set_option maxRecDepth 100000 in
/-- `Quiescent steady`, with a non-trivial `step` (ratio 4 in stage 2: `4·2²⁹`) -/
example : steady.defR = none ∧ steady.slew = 0 ∧ steady.newR = none ∧ steady.cur.ss = 0 ∧
    steady.cur.step = 2147483648 ∧ steady.cur.sn = 2 := by
  decide +kernel

/-- a stage switch happens in the witness runs (so the `nsw = 0` hypotheses are real restrictions) … -/
example : Historical.witnessA.nsw ≠ 0 := by
  set_option maxRecDepth 100000 in decide +kernel

set_option maxRecDepth 100000 in
/-- `immediate_quiescent` / `immediate_then_stays` / `request_settles` at a state that is *not* quiescent: in mid-slew
    (`slew_len = 450`, increment −3221225, target 1.0 pending) an immediate request for 6.0 leaves nothing outstanding,
    and 200 frames later (no stage switch) `step` is 6.0 in the units of stage 2 -/
example : midSlew.slew = 450 ∧ midSlew.newR = some b1 ∧ midSlew.defR = none ∧
    (setIoRatio wcfg midSlew b6 0).slew = 0 ∧ (setIoRatio wcfg midSlew b6 0).cur.ss = 0 ∧
    (run wcfg { st := setIoRatio wcfg midSlew b6 0 } (List.replicate 4 (.proc 400 50))).nsw = 0 ∧
    (run wcfg { st := setIoRatio wcfg midSlew b6 0 } (List.replicate 4 (.proc 400 50))).nmis = 0 ∧
    (run wcfg { st := setIoRatio wcfg midSlew b6 0 } (List.replicate 4 (.proc 400 50))).out = 200 ∧
    (run wcfg { st := setIoRatio wcfg midSlew b6 0 } (List.replicate 4 (.proc 400 50))).st.cur.step =
      exactStepOf b6 midSlew.cur.mult := by
  decide +kernel

set_option maxRecDepth 100000 in
/-- … and there are non-trivial runs without one: 450 frames at ratio 4 -/
example : (run wcfg { st := steady } (List.replicate 9 (.proc 400 50))).nsw = 0 ∧
    (run wcfg { st := steady } (List.replicate 9 (.proc 400 50))).out = 450 := by
  decide +kernel

/-- the hypotheses of `stage_switch_down_continuous` / `_up_continuous`: a stage-1 down-sampling stream -/
example : ∃ s : St Nat, 0 ≤ s.cur.sn ∧ s.cur.isD = true ∧ -1 ≤ s.cur.sn ∧ s.cur.isD = decide (0 ≤ s.cur.sn) ∧
    posIn s.cur ≠ 0 :=
  ⟨{ cur := { clk := 12345678901, step := 3000000000, ss := -7, sn := 1, isD := true } }, by decide⟩

/-- the hypotheses of `frames_for_constant_ratio`: ratio 1.5 samples per frame (`p/q = 3/2`, `S = 1.5·2³²` exactly),
    1000 samples, more frames asked for than the clock can give (667 delivered) -/
example : ∃ (s : Stream) (n : Nat), s.ss = 0 ∧ 0 < s.step ∧ 0 ≤ s.clk ∧ s.clk < s.step ∧ 0 ≤ s.len ∧
    (firU s n).2 < n ∧ s.step * 2 - 3 * 4294967296 ≤ 2 ∧ 3 * 4294967296 - s.step * 2 ≤ 2 ∧
    (((firU s n).2 : Int) + 1) * 2 ≤ 3 * 4294967296 ∧ (firU s n).2 = 667 :=
  ⟨{ clk := 3221225472, step := 6442450944, len := 1000 }, 5000, by decide +kernel⟩

/-- the API hypotheses: a two-channel constant-rate resampler at ratio "5", asked for "7" -/
example : ∃ (n : ApiNum Nat) (a : ApiSt Nat) (r : Nat), a.sticky = false ∧ a.nch ≠ 0 ∧ n.le0 r = false ∧
    a.inited = true ∧ a.isVR = false ∧ n.close a.ioRatio r = false :=
  ⟨{ le0 := fun x => x == 0, close := fun a b => a == b },
   { sticky := false, nch := 2, inited := true, isVR := false, ioRatio := 5 }, 7, by decide⟩

/-! ## The model's constants are the code's (`Vr/Generated.lean` is printed from vr32.c on every run) -/

example : [stagePreload (-1), stagePreload 0, stagePreload 1, stagePreload 2] = Gen.preloads := by decide
example : [stageMult (-1), stageMult 0, stageMult 1, stageMult 2] = Gen.stepMults := by decide
/-- the stage the first request starts on, for 18 (declared maximum, ratio) pairs RUN on the real `vr_create` /
    `vr_set_io_ratio` by the generator (maxima ≤ 1, where `num_stages0 = 0 ≠ num_stages − 1`, included): the model's choice -/
example : Gen.initialStages.all (fun c => (setIoRatio wcfg (init wcfg c.1) c.2.1 0).cur.sn == c.2.2) = true := by decide
/-- which engines run the phase-matching all-pass on the up-sampling path (`num_stages0 ≠ 0`: declared maximum `> 1`),
    PROBED on the real `vr_process` by the generator for 11 declared maxima (≤ 1, in (1, 2], exactly 2, above) -/
example : Gen.halfPhaseProbe.all (fun c => (init wcfg c.1).halfPhase == c.2) = true := by decide
example : Gen.halfPhaseProbe.length = 11 ∧ (Gen.halfPhaseProbe.filter (fun c => c.2)).length = 8 := by decide
example : Gen.initialStages.length = 18 ∧ (Gen.initialStages.filter (fun c => c.2.2 == -1)).length ≥ 4 := by decide
example : (two32 : Int) = (Gen.mult32 : Int) := by decide
example : Gen.fadeLen = 2 * xfadeLen ∧ Gen.fadeLen % 2 = 0 := by decide

/-- `Num.exact` is `⌊r·step_mult + ½⌋`: e.g. 3.9 in stage 1 -/
example : exactStepOf b39 1073741824 = 4187593114 ∧ exactOctave b39 = 1 ∧ exactNumStages b8 = 3 := by decide

/-! ## 7. Fade alignment: the C assertion `odone == odone2`

During the cross-fade of a stage switch both streams must deliver the same number of samples per chunk
(`assert(odone == odone2)`, compiled out with NDEBUG); the model counts the chunks in which they do not (`nmis`).

History (F35, repaired).  `len` of both streams derives from `occupancy0`, computed at the start of `vr_process` from the
coarsest stage in use *then*; before the repair, when one call took an up-switch to a new coarsest stage, completed its
512-frame fade and then took a down-switch, the new (finer) current stream got `len = occupancy0 >> sn` while the
(coarser) fade-out stream kept the floored `occupancy0 >> (sn+1)`; the finer stream, run first, then delivered pairs the
coarser one had no input for, and the two streams were one sample apart for the rest of the fade (fade-out clock
negative).  The repair rounds `occupancy0` down to whole samples of the new coarsest stage at every up-switch
(`switchOcc`).  `Historical.chunkH rulePre35 … runPre35` is the loop as it was; `Historical.pre_fix_fade_alignment_fails` is the
negation of "`nmis = 0` for every run" on it, with the concrete witness that the check replayed on the real code. -/

/-- max ratio 8; start at 0.25 (up-sampling stage), jump to 6 at once (the engine climbs one octave stage per 512-frame
    fade), 100 frames later slew to 1.0 over 800 frames, then one call of 1400 frames. -/
def opsF35 : List (Op Nat) :=
  [.ratio b025 0, .proc 800 100, .ratio b6 0, .proc 800 100, .ratio b1 800, .proc 2500 1400]

namespace Historical

/-- one iteration of the `while` loop with an earlier rule for `occupancy0` at a stage switch (`rule a dif occ`:
    the value `enter_new_stage` was called with; `a` the state before the switch) -/
def chunkH (rule : St ρ → Int → Int → Int) (cfg : Cfg ρ) (olen0 : Nat) (l : LoopSt ρ) : LoopSt ρ × Bool :=
  let a := chunkStart cfg l.st (olen0 - l.od0)
  let dif := stageDif a.1
  let sw := doesSwitch a.1
  let s := if sw then switchStage a.1 dif (rule a.1 dif l.occ) else a.1
  let k := kernels s a.2 (chunkMn l dif) (chunkMx l dif (decide (a.1.cur.sn + dif < a.1.ns)))
  ({ chunkFinish l sw (sw && negLeftShift a.1 dif) k with occ := if sw then rule a.1 dif l.occ else l.occ },
   decide ((k.od : Int) = k.olen))

def loopH (rule : St ρ → Int → Int → Int) (cfg : Cfg ρ) (olen0 : Nat) : Nat → LoopSt ρ → LoopSt ρ
  | 0, l => l
  | f + 1, l =>
    if l.od0 < olen0 then
      let r := chunkH rule cfg olen0 l
      if r.2 then loopH rule cfg olen0 f r.1 else r.1
    else l

def processH (rule : St ρ → Int → Int → Int) (cfg : Cfg ρ) (s : St ρ) (olen0 : Nat) : PRes ρ :=
  let p := preLoop cfg s olen0
  let l := loopH rule cfg olen0 (olen0 + 1) p.1
  let s := post l.st l.mn l.mx
  { st := { s with oocc := s.oocc - ((olen0 : Int) - l.od0) }, od := l.od0, nsw := l.nsw, nmis := l.nmis, nneg := l.nneg,
    nshl := l.nshl }

def stepOpH (rule : St ρ → Int → Int → Int) (cfg : Cfg ρ) (r : Run ρ) : Op ρ → Run ρ
  | .ratio x slew => { r with st := setIoRatio cfg r.st x slew }
  | .proc ilen olen =>
    let p := processH rule cfg (input r.st ilen) olen
    { st := (output p.st olen).1, out := r.out + p.od, nsw := r.nsw + p.nsw, nmis := r.nmis + p.nmis,
      nneg := r.nneg + p.nneg, nshl := r.nshl + p.nshl }
  | .flush olen =>
    let p := processH rule cfg (flush r.st) olen
    { st := (output p.st olen).1, out := r.out + p.od, nsw := r.nsw + p.nsw, nmis := r.nmis + p.nmis,
      nneg := r.nneg + p.nneg, nshl := r.nshl + p.nshl }

def runH (rule : St ρ → Int → Int → Int) (cfg : Cfg ρ) (r : Run ρ) (ops : List (Op ρ)) : Run ρ :=
  ops.foldl (stepOpH rule cfg) r

/-- before the repair of F35: `occupancy0` was a constant of the call -/
def rulePre35 : St ρ → Int → Int → Int := fun _ _ occ => occ
/-- between the repairs of F35 and F36: re-aligned at an up-switch, but not clamped to what the restarted stage holds -/
def rulePre36 : St ρ → Int → Int → Int := fun a dif occ =>
  if dif > 0 ∧ a.cur.sn + dif > 0 then occ / 2 ^ (a.cur.sn + dif).toNat * 2 ^ (a.cur.sn + dif).toNat else occ

def runPre35 (cfg : Cfg ρ) (r : Run ρ) (ops : List (Op ρ)) : Run ρ := runH rulePre35 cfg r ops
def runPre36 (cfg : Cfg ρ) (r : Run ρ) (ops : List (Op ρ)) : Run ρ := runH rulePre36 cfg r ops

/-- the current loop is the historical one with the current rule -/
theorem chunk_eq_chunkH (cfg : Cfg ρ) (olen0 : Nat) (l : LoopSt ρ) :
    chunk cfg olen0 l = chunkH (fun a dif occ => switchOcc a dif occ) cfg olen0 l := rfl

def witnessF35Pre : Run Nat := runPre35 wcfg { st := init wcfg b8 } opsF35

set_option maxRecDepth 100000 in
/-- **F35 (historical; the loop before the repair).**  In the last call (three stage switches: up, up, down) one chunk
    has `odone ≠ odone2`; afterwards the fade-out stream's clock is negative.  Every call before it is aligned. -/
theorem pre_fix_fade_alignment_fails :
    witnessF35Pre.nmis = 1 ∧ witnessF35Pre.nsw = 3 ∧ witnessF35Pre.st.fo.clk < 0 ∧ witnessF35Pre.st.fade ≠ 0 ∧
    (runPre35 wcfg { st := init wcfg b8 } opsF35.dropLast).nmis = 0 ∧
    (runPre35 wcfg { st := init wcfg b8 } opsF35.dropLast).nneg = 0 := by
  decide +kernel

/-- on the pre-repair loop the universally quantified alignment statement was false -/
theorem pre_fix_not_fade_alignment_for_all_runs :
    ¬ ∀ (mx : Nat) (ops : List (Op Nat)), (runPre35 wcfg { st := init wcfg mx } ops).nmis = 0 := by
  intro h
  have h1 := h b8 opsF35
  have h2 : witnessF35Pre.nmis = 1 := pre_fix_fade_alignment_fails.1
  unfold witnessF35Pre at h2
  omega

end Historical

def witnessF35 : Run Nat := run wcfg { st := init wcfg b8 } opsF35

set_option maxRecDepth 100000 in
/-- **The F35 call sequence on the current code**: the same three stage switches, no misaligned chunk, no negative
    clock, and after the call the two streams of the fade in progress are exact doubles (clock, `step`, `len`).
    (The check replays exactly this on the real code: the asserts-on build must run through.) -/
theorem witnessF35_aligned :
    witnessF35.nmis = 0 ∧ witnessF35.nsw = 3 ∧ witnessF35.nneg = 0 ∧ witnessF35.st.fade ≠ 0 ∧
    witnessF35.st.cur.clk = 2 * witnessF35.st.fo.clk ∧ witnessF35.st.cur.step = 2 * witnessF35.st.fo.step ∧
    witnessF35.st.cur.len = 2 * witnessF35.st.fo.len := by
  decide +kernel

/-- **Fade alignment, the part that holds** (down-switch fades).  A switch to the next finer stage from a
    down-sampling stage `sn ≥ 1` whose `len` came from an `occupancy0` that is a whole number of its samples makes the
    new current stream the old one exactly doubled (clock, `step`, `step_step`, `len`); in a chunk of such a fade both
    streams deliver the same number of samples (`odone == odone2`: no mismatch counted) and remain exactly doubled — so
    by induction the assertion holds in every chunk of the fade until something re-rounds one stream (the snap, a new
    request).  The hypothesis `2^sn ∣ occupancy0` is what failed before the repair of F35 after an up-switch earlier
    in the same call; now it is an invariant of the loop (`occ_aligned_invariant` below).  What is missing for
    `nmis = 0` on all runs: (1) up-switch fades and fades with the up-sampling stage −1, where the rescaling floors and
    the streams are equal only to within one unit of `2⁻³²`; (2) the snap and requests during a fade, which round each
    stream's `step` separately. -/
theorem fade_alignment_down_partial (s : St ρ) (occ0 olen mn mx : Int) (hsn : 1 ≤ s.cur.sn) (hd : s.cur.isD = true)
    (hlen : s.cur.len = shiftr occ0 s.cur.sn) (hdiv : occ0 % 2 ^ s.cur.sn.toNat = 0) :
    Doubled (switchStage s (-1) occ0).cur (switchStage s (-1) occ0).fo ∧
    (kernels (switchStage s (-1) occ0) olen mn mx).mis = false ∧
    Doubled (kernels (switchStage s (-1) occ0) olen mn mx).st.cur (kernels (switchStage s (-1) occ0) olen mn mx).st.fo := by
  obtain ⟨h1, h2, h3, h4⟩ := switch_down_doubled s occ0 hsn hd hlen hdiv
  obtain ⟨k1, k2⟩ := kernels_doubled (switchStage s (-1) occ0) olen mn mx h4 h2 h3 h1
  exact ⟨h1, k1, k2⟩

/-- **`occupancy0` is aligned throughout every `vr_process` call** (the repair of F35 as an invariant): from *any*
    state, `vr_process` enters its loop with `occupancy0` a whole number of samples of the current stage and the current
    stream's `len` equal to it in those samples, and every chunk — snap, up-switch (re-aligned by `switchOcc`),
    down-switch, fade, plain interpolation — keeps that. -/
theorem occ_aligned_invariant (cfg : Cfg ρ) (s : St ρ) (olen0 : Nat) :
    OccInv (preLoop cfg s olen0).1 ∧
    (∀ l : LoopSt ρ, OccInv l → OccInv (chunk cfg olen0 l).1) ∧
    (∀ (f : Nat) (l : LoopSt ρ), OccInv l → OccInv (loop cfg olen0 f l)) :=
  ⟨preLoop_OccInv cfg s olen0, fun l h => chunk_OccInv cfg olen0 l h, fun f l h => loop_OccInv cfg olen0 f l h⟩

/-- **Every down-switch between down-sampling stages starts an aligned fade** — in any chunk of any call (the loop
    invariant supplies the `occupancy0` hypothesis of `fade_alignment_down_partial`, which is what failed before the
    repair of F35): no mismatch is counted in that chunk and the two streams are exact doubles after it. -/
theorem down_switch_fade_aligned_in_loop (cfg : Cfg ρ) (olen0 : Nat) (l : LoopSt ρ) (h : OccInv l)
    (hsw : doesSwitch (chunkStart cfg l.st (olen0 - l.od0)).1 = true)
    (hdif : stageDif (chunkStart cfg l.st (olen0 - l.od0)).1 = -1) (hsn : 1 ≤ l.st.cur.sn) :
    (chunk cfg olen0 l).1.nmis = l.nmis ∧ Doubled (chunk cfg olen0 l).1.st.cur (chunk cfg olen0 l).1.st.fo :=
  chunk_down_switch_aligned cfg olen0 l h hsw hdif hsn

/-- `OccInv` is satisfiable by the loop state of a real run: the first `vr_process` of a fresh 8x engine at ratio 6
    (stage 2, 8000 frames of input: `occupancy0` a non-zero multiple of 4) -/
example : OccInv (preLoop wcfg (input (setIoRatio wcfg (init wcfg b8) b6 0) 8000) 100).1 ∧
    (preLoop wcfg (input (setIoRatio wcfg (init wcfg b8) b6 0) 8000) 100).1.st.cur.sn = 2 ∧
    (preLoop wcfg (input (setIoRatio wcfg (init wcfg b8) b6 0) 8000) 100).1.occ ≠ 0 :=
  ⟨preLoop_OccInv _ _ _, by decide +kernel, by decide +kernel⟩

/-- the inductive step on its own: any chunk of a fade between two exactly doubled down-sampling streams -/
theorem fade_alignment_chunk_partial (s : St ρ) (olen mn mx : Int) (hfade : s.fade ≠ 0) (hc : s.cur.isD = true)
    (hf : s.fo.isD = true) (h : Doubled s.cur s.fo) :
    (kernels s olen mn mx).mis = false ∧ Doubled (kernels s olen mn mx).st.cur (kernels s olen mn mx).st.fo :=
  kernels_doubled s olen mn mx hfade hc hf h

/-- hypotheses of `fade_alignment_down_partial`: a stage-2 stream with `occupancy0 = 1248` input frames, a whole number
    of stage-2 samples (`len` 312; the new stage-1 stream gets 624); `1246` — the value in the F35 witness — is not -/
example : ∃ s : St Nat, 1 ≤ s.cur.sn ∧ s.cur.isD = true ∧ s.cur.len = shiftr 1248 s.cur.sn ∧
    (1248 : Int) % 2 ^ s.cur.sn.toNat = 0 ∧ (switchStage s (-1) 1248).cur.len = 624 ∧ (1246 : Int) % 2 ^ s.cur.sn.toNat ≠ 0 :=
  ⟨{ cur := { clk := 12345678901, step := 1000000000, ss := -7, sn := 2, isD := true, len := 312 },
     stages := #[{}, {}, {}, {}] }, by decide⟩

/-- **The fade from stage 0 down to the up-sampling stage is aligned** — every such switch, in any chunk of any call, for
    any slew: the new current stream (`poly_fir_fade_u` on stage −1) is the fade-out stream (`poly_fir_fade_d` on stage 0)
    exactly (clock ×2, increment and slew increment ×4, `len` ×2), the fade-out stream runs first, and each pair it
    delivers had its first sample inside the input, which is the condition of the current stream's iteration.  No
    mismatch is counted in the chunk of the switch, the pair stays exact, and every later chunk of a fade between such a
    pair is aligned too. -/
theorem fade_alignment_down_to_upsampling (cfg : Cfg ρ) (olen0 : Nat) (l : LoopSt ρ) (h : OccInv l)
    (hsw : doesSwitch (chunkStart cfg l.st (olen0 - l.od0)).1 = true)
    (hdif : stageDif (chunkStart cfg l.st (olen0 - l.od0)).1 = -1) (hsn : l.st.cur.sn = 0) :
    ((chunk cfg olen0 l).1.nmis = l.nmis ∧ Quad (chunk cfg olen0 l).1.st.cur (chunk cfg olen0 l).1.st.fo) ∧
    (∀ (s : St ρ) (olen mn mx : Int), s.fade ≠ 0 → s.cur.isD = false → s.fo.isD = true → Quad s.cur s.fo →
      (kernels s olen mn mx).mis = false ∧ Quad (kernels s olen mn mx).st.cur (kernels s olen mn mx).st.fo) :=
  ⟨chunk_switch_to_upsampling_aligned cfg olen0 l h hsw hdif hsn, fun s olen mn mx a b c d => kernels_quad s olen mn mx a b c d⟩

/-- `Quad` on a concrete pair: stage-0 stream at `at = 1.5`, `step = 0.6`, slewing, `len = 312`; the stage −1 stream reads
    the same positions in half samples -/
example : Quad { clk := 12884901888, step := 10307921512, ss := -28, len := 624, sn := -1, isD := false }
    { clk := 6442450944, step := 2576980378, ss := -7, len := 312, sn := 0, isD := true } := by
  unfold Quad; decide

/-- **The fade from the up-sampling stage up to stage 0 is aligned at a constant ratio.**  The new current stream (stage 0,
    `poly_fir_fade_d`, run first) is the old one floored (`at >> 1`, `step >> 2`): the fade-out stream (`poly_fir_fade_u`) is
    ahead by at most one unit, gaining at most 3 per pair; but it needs only ONE sample per frame, at the pair's first
    sample, while the current stream has placed the pair's second sample — `step ≥ 2³¹` units later — inside the input
    too.  So the fade-out stream always has its sample: no mismatch in the chunk of the switch, and none in any later
    chunk of the fade as long as `step_step = 0` and the accumulated drift `d` (at most `1 + 3·512`) stays below `2·step`
    (second part; `d` grows by 3 per frame delivered).  With a slew running the increments are floored separately every
    frame; not covered. -/
theorem fade_alignment_up_from_upsampling (s : St ρ) (occ0 olen mn mx : Int) (hsn : s.cur.sn = -1) (hd : s.cur.isD = false)
    (hss : s.cur.ss = 0) (hstep : 8589934592 ≤ s.cur.step) (hlen : s.cur.len = shiftr occ0 s.cur.sn) (holen : olen ≤ chunkMax) :
    (NearU (switchStage s 1 (switchOcc s 1 occ0)).cur (switchStage s 1 (switchOcc s 1 occ0)).fo 1 ∧
     (kernels (switchStage s 1 (switchOcc s 1 occ0)) olen mn mx).mis = false ∧
     NearU (kernels (switchStage s 1 (switchOcc s 1 occ0)) olen mn mx).st.cur (kernels (switchStage s 1 (switchOcc s 1 occ0)) olen mn mx).st.fo
       (1 + 3 * ((kernels (switchStage s 1 (switchOcc s 1 occ0)) olen mn mx).od : Int))) ∧
    (∀ (t : St ρ) (d : Int), t.fade ≠ 0 → t.cur.isD = true → t.fo.isD = false → NearU t.cur t.fo d →
      d + 3 * max 0 (min olen (t.fade / 2)) ≤ 2 * t.cur.step →
      (kernels t olen mn mx).mis = false ∧
      NearU (kernels t olen mn mx).st.cur (kernels t olen mn mx).st.fo (d + 3 * ((kernels t olen mn mx).od : Int))) := by
  obtain ⟨h1, h2, h3, h4, h5⟩ := switch_from_upsampling_near s occ0 hsn hd hss hstep hlen
  have hc : (chunkMax : Int) = 64 := by decide
  obtain ⟨k1, k2⟩ := kernels_near (switchStage s 1 (switchOcc s 1 occ0)) olen mn mx 1 h4 h2 h3 h1 (by omega)
  exact ⟨⟨h1, k1, k2⟩, fun t d a b c e f => kernels_near t olen mn mx d a b c e f⟩

/-- `NearU` at the moment of such a switch: an up-sampling stream at ratio 1.05 (`step = 2.1·2³²`, odd) and its floored
    stage-0 successor -/
example : NearU { clk := 3000000000, step := 2254857830, ss := 0, len := 500, sn := 0, isD := true }
    { clk := 6000000001, step := 9019431321, ss := 0, len := 1000, sn := -1, isD := false } 1 := by
  unfold NearU; decide

/-! ### 7b. Fade alignment is still false for all runs: the up-switch fade (F41)

At an up-switch the new (coarser) current stream is the old one *floored*: `at >> 1`, `step >> 1`.  The fade-out stream
is therefore ahead of it by `d₀ + (2j+1)·e` units of `2⁻³²` at the second sample of pair `j` (`d₀, e ∈ {0, 1}` the bits
shifted out).  `poly_fir_fade_d` runs the current stream first and asks the fade-out stream for the same count; when the
second sample of the last pair the current stream delivers lies within that many units below the end of the input, the
fade-out stream has crossed it: `odone2 < odone`.  The coincidence needs the fraction of a clock to hit a window a few
units wide, so random trajectories do not find it; the witness below was *solved for* (the increment of the second
ratio is chosen so that `frac(at + 7·step) = 2³² − 1` in the new stage, the input so that this is the last pair). -/

def b15 : Nat := 0x3FF8000000000000     -- 1.5
def bF41 : Nat := 0x40016DB6DB700000    -- 2.1785714286379516 = (2³² + 383479223) / 2³¹

/-- max ratio 4: ratio 1.5 (stage 0), 1000 frames requested from 3000 of input, then the input run dry (840 frames);
    ratio `(2³² + 383479223)/2³¹` at once (an odd increment just above the octave of stage 0: the next chunk switches
    up to stage 1), 8 more input frames, 600 frames requested -/
def opsF41 : List (Op Nat) := [.ratio b15 0, .proc 3000 1000, .proc 0 5000, .ratio bF41 0, .proc 8 600]

set_option maxRecDepth 1000000 in
/-- **Negation of fade alignment on the current code (F41), concrete.**  In the last call — one stage switch, upwards —
    the current stream delivers 4 pairs, the fade-out stream 3; afterwards the fade-out clock is negative.  Every call
    before it is aligned.  (Replayed on the real code by the check: the asserts-on build aborts on `odone == odone2` in
    exactly that call, the NDEBUG build equals the model field by field through it.) -/
theorem fade_alignment_fails_up_switch :
    (run wcfg { st := init wcfg b4 } opsF41).nmis = 1 ∧ (run wcfg { st := init wcfg b4 } opsF41).nsw = 1 ∧
    (run wcfg { st := init wcfg b4 } opsF41).st.inc = true ∧ (run wcfg { st := init wcfg b4 } opsF41).st.fo.clk < 0 ∧
    (run wcfg { st := init wcfg b4 } opsF41).st.cur.sn = 1 ∧ (run wcfg { st := init wcfg b4 } opsF41).st.fo.sn = 0 ∧
    (run wcfg { st := init wcfg b4 } opsF41.dropLast).nmis = 0 ∧ (run wcfg { st := init wcfg b4 } opsF41.dropLast).nsw = 0 := by
  decide +kernel

/-- **"`odone == odone2` in every run from a fresh engine" is false** (the statement that was `Goal_fade_alignment`):
    before the repair of F35 grossly (`Historical.pre_fix_not_fade_alignment_for_all_runs`), and on the current code
    by the knife-edge witness above.  What does hold is proved: down-switch fades between down-sampling stages
    (`down_switch_fade_aligned_in_loop`, `fade_alignment_chunk_partial`: exact doubling), and fades between stage 0 and the
    up-sampling stage in the downward direction (`fade_alignment_down_to_upsampling`: exact too), and in the upward
    direction at a constant ratio (`fade_alignment_up_from_upsampling`: the up-sampling stream has half a frame of margin).
    Up-switch fades between down-sampling stages (the witness above) and the snap at the end of a slew during a fade round
    the two streams separately (`snap_sets_both_streams`: each `step = (int64)(r·step_mult + .5)` in its own units): there
    alignment holds unless a clock is within the accumulated rounding of an input sample boundary at the moment the input
    runs out — the same knife-edge, same signature (`nmis > 0`), same finding. -/
theorem not_fade_alignment_for_all_runs :
    ¬ ∀ (mx : Nat) (ops : List (Op Nat)), (run wcfg { st := init wcfg mx } ops).nmis = 0 := by
  intro h
  have h1 := h b4 opsF41
  have h2 := fade_alignment_fails_up_switch.1
  omega

/-! ## 8. A restarted stage is not read beyond what it holds (F36, repaired)

`enter_new_stage` gives the new current stream `len = occupancy0 >> stage_num`.  A half-band stage entered by an up-switch
is restarted (cleared, preloaded, filled once from its neighbour), so it holds `preload + what do_input_stage computed`;
before the repair `occupancy0` — computed at the start of the call from another stage — could exceed that from the second
up-switch of one call on (−40 samples of slack at the second, −85 at the third): the interpolator read stale memory
beyond the stage's data (garbage in the last ~100 output frames of the call) and the post-loop `fifo_read` left the
stage with fewer samples than its preload, so that the next call computed `already_done < 0` (UBSan: the report C07
found).  The repair clamps `occupancy0` at every up-switch to what the restarted stage holds (`switchOcc`). -/

/-- **After an up-switch the new stream's `len` is inside the restarted stage.**  For every state and every
    `occupancy0`: `len ≤ max(0, fifo_occupancy − 2·HALF_FIR_LEN_2 − POLY_FIR_LEN_D/2)` of the stage switched to — the
    interpolator's highest read index `2·HALF_FIR_LEN_2 + (len − 1) + POLY_FIR_LEN_D/2` is below the FIFO's occupancy — and
    `occupancy0` never grows at a switch. -/
theorem up_switch_reads_within_stage (s : St ρ) (occ0 : Int) (hsn : 0 ≤ s.cur.sn) :
    (switchStage s 1 (switchOcc s 1 occ0)).cur.len ≤
      max 0 (((switchPrep s 1).stg (s.cur.sn + 1)).occ - 2 * (H2 : Int) - ((PD / 2 : Nat) : Int)) ∧
    (∀ dif, switchOcc s dif occ0 ≤ occ0) :=
  ⟨switch_up_len_within_stage s occ0 hsn, fun dif => switchOcc_le s dif occ0⟩

def b16 : Nat := 0x4030000000000000     -- 16.0
def b067 : Nat := 0x3FE57B2D4DFF339C    -- 0.6712862513901316
def b877 : Nat := 0x40218B8EA66B5309    -- 8.772572708703153

/-- the call sequence C07 found (seed 3): 0.67 → 8.77 over one frame, then a call that takes three up-switches -/
def opsF36 : List (Op Nat) := [.ratio b067 0, .ratio b877 1, .proc 1023 117, .proc 31850 10259]

set_option maxRecDepth 1000000 in
/-- **F36 (historical; the loop between the repairs of F35 and F36).**  After the long call stage 3 is left with 166
    samples, fewer than its preload of 180 (`already_done = −14` in the next call: the UBSan report), three stage switches
    having been taken in that call. -/
theorem Historical.pre_fix_stage_left_below_preload :
    ((Historical.runPre36 wcfg { st := init wcfg b16 } opsF36).st.stg 3).occ = 166 ∧ stagePreload 3 = 180 ∧
    (Historical.runPre36 wcfg { st := init wcfg b16 } opsF36).nsw = 4 := by
  decide +kernel

set_option maxRecDepth 1000000 in
/-- the same call sequence on the current code: every stage keeps at least its preload (replayed on the real code by the
    check, under UBSan and with a sine whose fit residual must stay below −80 dB to the end of the call) -/
theorem witnessF36_within :
    stagePreload 3 ≤ ((run wcfg { st := init wcfg b16 } opsF36).st.stg 3).occ ∧
    stagePreload 2 ≤ ((run wcfg { st := init wcfg b16 } opsF36).st.stg 2).occ ∧
    stagePreload 1 ≤ ((run wcfg { st := init wcfg b16 } opsF36).st.stg 1).occ ∧
    (run wcfg { st := init wcfg b16 } opsF36).nsw = 4 ∧ (run wcfg { st := init wcfg b16 } opsF36).nmis = 0 := by
  decide +kernel

/-! ## Open statements (not proved; decided on sampled inputs by the falsifier of `checks/c16.py`) -/

/-- The whole skeleton, not only the clock: a fresh engine at a constant ratio `r ≤ max`, fed `N` frames in any
    blocks and then flushed until empty, delivers `N/r` frames within two.

    DECIDED: as it stands (against the REQUESTED ratio, for every `N < 2³¹`) this statement is FALSE —
    `goal_frames_full_engine_is_false` below: the engine follows the stored increment `ρ`, and at `r ≈ 1/64`, `N = 2³⁰` the
    rounding of the increment alone is worth hundreds of frames.  The true statement is the one against `ρ`:

    PROVED (§5b, `Vr/Engine.lean`): `frames_full_engine` — for every `Num`, every declared maximum, every first ratio whose
    increment lies in the octave of the stage it starts on (`InRange`), every blocking of input and output requests and
    every flush sequence that ends drained: `N/ρ − 2 < K < N/ρ + 1` with `ρ` the ratio the engine actually runs at
    (the stored increment in input time), on every stage (up-sampling, stage 0, half-band stages `k ≥ 1` through the
    chain occupancies `fed` / `fedF` and the flush preloads), no stage switch, no fade mismatch;
    `frames_full_engine_exact_ratio` — hence within two frames of `N·q/p` for every ratio `p/q` the increment represents
    exactly; `frames_full_engine_rounded_ratio` — within three when it is only approximated and the accumulated rounding
    stays below one frame.

    What separates this from the statement below: (a) `InRange` is a hypothesis about the floating-point evaluation (`Num`)
    — discharged for the exact evaluation by `inRange_exact` (`Vr/ExactNum.lean`; `frames_full_engine_exact_num` has no such
    hypothesis), so what is left of (a) is the agreement of IEEE arithmetic with `Num.exact`, which the driver checks at
    every ratio it meets;
    (b) for an inexact ratio the bound proved is three frames below, two above (clock phase < 1, floor of `N / 2^k` < 1,
    accumulated rounding of the increment < 1); the "within two" of the statement below would need the rounding term
    quantified from `N < 2³¹` (it is at most `(K+2)·2⁻³³·rateScale`), not attempted; (c) only runs that start with the
    first ratio on a fresh engine (after a ratio change the chain occupancies of the stages above the current one are
    not in the closed form `fed`). -/
def Goal_frames_full_engine : Prop :=
  ∀ (mx r : Nat) (blocks : List (Nat × Nat)) (drain : List Nat),
    let cfg := wcfg
    let feed : List (Op Nat) := blocks.map fun b => .proc b.1 b.2
    let fl : List (Op Nat) := drain.map fun o => .flush o
    let R := run cfg { st := init cfg mx } ([.ratio r 0] ++ feed ++ fl)
    let N := (blocks.map (·.1)).sum
    -- drained: a last flush call of positive size returned nothing
    (∃ o, drain.getLast? = some o ∧ 0 < o ∧
        (run cfg { st := init cfg mx } ([.ratio r 0] ++ feed ++ fl.dropLast)).out = R.out) →
    -- `r` a normal double in `[2⁻⁶, mx]`, `N < 2³¹`
    exactOctave r ≥ -6 → exactStepOf r 1 ≤ exactStepOf mx 1 → N < 2 ^ 31 →
    ∃ (p q : Int), 0 < q ∧ exactStepOf r (2 ^ 52) * q = p * 2 ^ 52 ∧
      (R.out : Int) * p - N * q ≤ 2 * p ∧ N * q - (R.out : Int) * p ≤ 2 * p

/-! ### … and the statement above is FALSE as it stands: the engine follows the stored increment, not the request

`Goal_frames_full_engine` compares the frame count with `N / r` for the REQUESTED ratio `r` and allows any `N < 2³¹`.  The
engine runs at `ρ = step / step_mult`, `step = (int64)(r · step_mult + .5)`; on the up-sampling stage `step_mult = 2³³`, so
`ρ` differs from `r` by up to `2⁻³⁴`, relatively up to `2⁻²⁸` at `r = 2⁻⁶`.  Over `N = 2³⁰` input frames at `r ≈ 1/64`
(`2³⁶` output frames) that is up to 256 frames.  The count is within two of `N / ρ` (`frames_full_engine`); it is NOT
within two of `N / r`. -/

/-- `(2⁴⁶ + 2¹⁸ − 1) / 2⁵²` = 0.01562500005820744…: a double just above 1/64 whose increment `r·2³³ = 2²⁷ + 0.49999…` rounds
    down to `2²⁷`, i.e. to the ratio 1/64 exactly -/
def bRound : Nat := 0x3F90000000FFFFC0

/-- the run: declared maximum 1.0, the ratio above, `2³⁰` input frames written in one call that asks for no output, then a
    flush call asking for `2³⁷` frames and one asking for 1 -/
theorem goal_frames_full_engine_is_false : ¬ Goal_frames_full_engine := by
  intro h
  have hs : (setIoRatio wcfg (init wcfg b1) bRound 0).cur.sn = -1 ∧
      (setIoRatio wcfg (init wcfg b1) bRound 0).cur.step = 134217728 ∧
      FRAC (setIoRatio wcfg (init wcfg b1) bRound 0).cur.step / 2 = 67108864 := by decide
  have h0 := engU_init wcfg b1 bRound hs.1 (by rw [hs.2.1]; decide)
  rw [hs.2.1, show FRAC (134217728 : Int) / 2 = 67108864 by decide] at h0
  -- draining
  obtain ⟨hdr, hlast⟩ := engU_drains wcfg 134217728 67108864 (setIoRatio wcfg (init wcfg b1) bRound 0) [(2 ^ 30, 0)] [] (2 ^ 37) 1 h0
    (by decide) (by decide) (by decide)
  obtain ⟨e1, e2, _, _⟩ := frames_engine_U wcfg 134217728 67108864 (setIoRatio wcfg (init wcfg b1) bRound 0) [(2 ^ 30, 0)] [] (2 ^ 37) h0 hdr
  -- the statement, on this run
  have hg := h b1 bRound [(2 ^ 30, 0)] [2 ^ 37, 1]
  dsimp only at hg
  have hrunA : run wcfg { st := init wcfg b1 } ([Op.ratio bRound 0] ++ List.map (fun b => Op.proc b.1 b.2) [(2 ^ 30, 0)] ++
      List.map (fun o => Op.flush o) [2 ^ 37, 1]) =
      run wcfg { st := setIoRatio wcfg (init wcfg b1) bRound 0 } (procOps [(2 ^ 30, 0)] ++ flushOps [] ++ [.flush (2 ^ 37)] ++ [.flush 1]) := by
    rw [List.append_assoc, run_first_ratio]; rfl
  have hrunB : run wcfg { st := init wcfg b1 } ([Op.ratio bRound 0] ++ List.map (fun b => Op.proc b.1 b.2) [(2 ^ 30, 0)] ++
      (List.map (fun o => Op.flush o) [2 ^ 37, 1]).dropLast) =
      run wcfg { st := setIoRatio wcfg (init wcfg b1) bRound 0 } (procOps [(2 ^ 30, 0)] ++ flushOps [] ++ [.flush (2 ^ 37)]) := by
    rw [List.append_assoc, run_first_ratio]; rfl
  rw [hrunA, hrunB] at hg
  obtain ⟨p, q, hq, hpq, hb1, _⟩ := hg ⟨1, rfl, by decide, hlast.symm⟩ (by decide) (by decide) (by decide)
  rw [hlast] at hb1
  have hX : exactStepOf bRound (2 ^ 52) = 70368744439807 := by decide
  rw [hX] at hpq
  have hN : (List.map (fun (x : Nat × Nat) => (x.1 : Int)) [(2 ^ 30, 0)]).sum = 1073741824 := by norm_num
  rw [hN] at hb1
  have hT : (totalIn [(2 ^ 30, 0)] : Int) = 1073741824 := by decide
  rw [hT] at e2
  unfold two32 at e2
  generalize ((run wcfg { st := setIoRatio wcfg (init wcfg b1) bRound 0 } (procOps [(2 ^ 30, 0)] ++ flushOps [] ++ [.flush (2 ^ 37)])).out : Int) = K at *
  -- K ≥ 2³⁶ − 1 (from the clock), while K·p − N·q ≤ 2·p with p/q = (2⁴⁶ + 2¹⁸ − 1)/2⁵² forces K < 2³⁶ − 200
  have hK : 68719476735 ≤ K := by omega
  nlinarith

end Soxr.Vr.C16
