import SoxrModel.Cr.Model
namespace Soxr.Properties.C03
end Soxr.Properties.C03
