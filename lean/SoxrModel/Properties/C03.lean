import SoxrModel.Cr.Stream
/-!
# C03 Output length: N frames in give exactly `owed N` out, then none

Model: the count model of the constant-rate engine (`Cr/Model.lean`), tied to `/repo` by the per-call correspondence
of `checks/c03.py` (every `idone/odone`, occupancy, clock word, `remM`, `input_size`).  `owed` is the engine's
`(int64)((double)N / io_ratio + .5)`, a parameter here (the check compares it with exact `round(N·orate/irate)`).

Quantifiers: every well-formed plan (`PipeWF`, the decidable predicate the driver evaluates on every exported plan),
every N, **every** streaming history (any interleaving of inputs and output requests of any sizes, 0 included) and
every sequence of request sizes after end-of-input.
-/
namespace Soxr.Properties.C03
open Soxr Soxr.Cr

/-- A fresh engine: nothing accepted or delivered, not flushing. -/
structure Fresh (e : Eng) : Prop where
  sin : e.sin = 0
  sout : e.sout = 0
  str : Streaming e

/-- **Drain is exact.**  Once end-of-input has been signalled on a resampler that has not delivered more than it
    owes, *any* sequence of output requests delivers `min(owed, request)` call after call; in total
    `min(owed, Σ requests)`; these counts are the only possible ones (determinism). -/
theorem drain_exact (num : Num) (a : Api) (reqs : List Nat) (hfl : a.flushing = true) (hd : Draining a.eng) :
    (∃ a', Calls num a reqs (drainSpec a.eng.owedLeft reqs) a') ∧
    (∀ ods a', Calls num a reqs ods a' → ods = drainSpec a.eng.owedLeft reqs ∧ ods.sum = min a.eng.owedLeft reqs.sum) := by
  obtain ⟨a', hc, _⟩ := calls_draining num reqs a hfl hd
  refine ⟨⟨a', hc⟩, ?_⟩
  intro ods a'' h
  obtain ⟨e1, _⟩ := calls_det num reqs a _ _ _ _ h hc
  exact ⟨e1, by rw [e1, drainSpec_sum]⟩

/-- **…then none.**  After the owed frames have been delivered every further request, of any size, delivers 0. -/
theorem then_none (num : Num) (a : Api) (reqs : List Nat) (hfl : a.flushing = true) (hd : Draining a.eng)
    (hdone : a.eng.owedLeft = 0) : ∀ ods a', Calls num a reqs ods a' → ∀ x ∈ ods, x = 0 := by
  intro ods a' h
  obtain ⟨e1, _⟩ := (drain_exact num a reqs hfl hd).2 ods a' h
  rw [e1, hdone]
  exact drainSpec_zero reqs

/-- While streaming, `samples_in` counts what was accepted and `samples_out` what was delivered, for every history. -/
theorem streaming_counts (e e' : Eng) (ops : List StreamOp) (F D : Nat) (hf : Fresh e) (h : Streams e ops F D e') :
    e'.sin = F ∧ e'.sout = D ∧ Streaming e' := by
  obtain ⟨h1, h2, h3⟩ := streams_counters ops e F D e' hf.str h
  exact ⟨by rw [h2, hf.sin]; omega, by rw [h3, hf.sout]; omega, h1⟩

/-- **Total is exact.**  A fresh resampler is streamed through *any* history that accepts `N` frames and delivers `D`;
    then end-of-input is signalled and requests `reqs` follow.  Provided the engine was never early (`D ≤ owed N`, see
    `never_early` below) the stream delivers `D + min(owed N − D, Σ reqs)`: exactly `owed N` as soon as enough
    has been requested, whatever the call sizes were. -/
theorem total_exact (num : Num) (a : Api) (e' : Eng) (ops : List StreamOp) (N D : Nat) (reqs : List Nat)
    (hf : Fresh a.eng) (hs : Streams a.eng ops N D e') (hearly : D ≤ num.owed N) :
    let a1 : Api := { a with eng := e'.flush num.owed, flushing := true }
    ∀ ods a2, Calls num a1 reqs ods a2 → D + ods.sum = min (num.owed N) (D + reqs.sum) := by
  intro a1 ods a2 hc
  obtain ⟨hsin, hsout, hstr⟩ := streaming_counts a.eng e' ops N D hf hs
  have hfle : (e'.flush num.owed) = { e' with sout := e'.sout - num.owed e'.sin, sin := 0, fl := true } := by
    unfold Eng.flush; simp [hstr.fl]
  have hd : Draining a1.eng := by
    show Draining (e'.flush num.owed)
    rw [hfle]
    exact ⟨rfl, by show e'.sout - (num.owed e'.sin : Int) ≤ 0; rw [hsout, hsin]; omega, hstr.wf, hstr.ne⟩
  have howed : a1.eng.owedLeft = num.owed N - D := by
    show (e'.flush num.owed).owedLeft = _
    rw [hfle]; unfold Eng.owedLeft
    show (-(e'.sout - (num.owed e'.sin : Int))).toNat = _
    rw [hsout, hsin]; omega
  obtain ⟨_, hsum⟩ := (drain_exact num a1 reqs rfl hd).2 ods a2 hc
  rw [hsum, howed]; omega

/-- **Every history can be run** (each call terminates), so the statements above are not vacuous. -/
theorem histories_run (e : Eng) (ops : List StreamOp) (hf : Fresh e) : ∃ F D e', Streams e ops F D e' :=
  streams_total ops e hf.str

/-- The remaining clause — before end-of-input never more than `⌈N·orate/irate⌉` frames for the `N` accepted so far —
    is an invariant of the *time alignment* of every stage (output `k` of a stage needs input `⌊k·ratio⌋` plus its
    post-context).  It is not yet proved in Lean for the whole pipeline; the check decides it on the real code for
    every call of every generated history (exact rationals).  Stated, not claimed: -/
def Goal_never_early : Prop :=
  ∀ (e e' : Eng) (ops : List StreamOp) (F D : Nat) (owed : Nat → Nat), Fresh e → Streams e ops F D e' → D ≤ owed F + 1

/-! ## non-vacuity: a concrete plan exported by the real planner (44100 → 48000, HQ) meets the hypotheses -/

def exStages : List Stage :=
  [ { cfg := { kind := .clocked, prePost := 15, den := 80, step := 147, poly0 := true, taps := 16 }, st := { occ := 8, clk := 40, isz := 8192 } },
    { cfg := { kind := .dft, L := 2, dftLen := 2048, numTaps := 409, M := 1 }, st := { occ := 102, clk := 0, isz := 1024 } } ]

def exEng : Eng := { stages := exStages }

example : Fresh exEng := ⟨rfl, rfl, ⟨rfl, by decide, by decide⟩⟩
example : PipeWF exStages := by decide

end Soxr.Properties.C03
