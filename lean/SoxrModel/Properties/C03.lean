import SoxrModel.Cr.Stream
import SoxrModel.Cr.EarlyRat
import SoxrModel.Cr.Lift
import Mathlib.Algebra.Order.Floor.Semiring
/-!
# C03 Output length: N frames in give exactly `owed N` out, then none

Model: the count model of the constant-rate engine (`Cr/Model.lean`), tied to `/repo` by the per-call correspondence
of `checks/c03.py` (every `idone/odone`, occupancy, clock word, `remM`, `input_size`).  `owed` is the engine's
`(int64)((double)N / io_ratio + .5)`, a parameter here (the check compares it with exact `round(N·orate/irate)`).

Quantifiers: every well-formed plan (`PipeWF`, the decidable predicate the driver evaluates on every exported plan),
every N, **every** streaming history (any interleaving of inputs and output requests of any sizes, 0 included) and
every sequence of request sizes after end-of-input.
-/
namespace Soxr.Properties.C03
open Soxr Soxr.Cr

/-- A fresh engine: nothing accepted or delivered, not flushing. -/
structure Fresh (e : Eng) : Prop where
  sin : e.sin = 0
  sout : e.sout = 0
  str : Streaming e

/-- **Drain is exact.**  Once end-of-input has been signalled on a resampler that has not delivered more than it
    owes, *any* sequence of output requests delivers `min(owed, request)` call after call; in total
    `min(owed, Σ requests)`; these counts are the only possible ones (determinism). -/
theorem drain_exact (num : Num) (a : Api) (reqs : List Nat) (hfl : a.flushing = true) (hd : Draining a.eng) :
    (∃ a', Calls num a reqs (drainSpec a.eng.owedLeft reqs) a') ∧
    (∀ ods a', Calls num a reqs ods a' → ods = drainSpec a.eng.owedLeft reqs ∧ ods.sum = min a.eng.owedLeft reqs.sum) := by
  obtain ⟨a', hc, _⟩ := calls_draining num reqs a hfl hd
  refine ⟨⟨a', hc⟩, ?_⟩
  intro ods a'' h
  obtain ⟨e1, _⟩ := calls_det num reqs a _ _ _ _ h hc
  exact ⟨e1, by rw [e1, drainSpec_sum]⟩

/-- **…then none.**  After the owed frames have been delivered every further request, of any size, delivers 0. -/
theorem then_none (num : Num) (a : Api) (reqs : List Nat) (hfl : a.flushing = true) (hd : Draining a.eng)
    (hdone : a.eng.owedLeft = 0) : ∀ ods a', Calls num a reqs ods a' → ∀ x ∈ ods, x = 0 := by
  intro ods a' h
  obtain ⟨e1, _⟩ := (drain_exact num a reqs hfl hd).2 ods a' h
  rw [e1, hdone]
  exact drainSpec_zero reqs

/-- While streaming, `samples_in` counts what was accepted and `samples_out` what was delivered, for every history. -/
theorem streaming_counts (e e' : Eng) (ops : List StreamOp) (F D : Nat) (hf : Fresh e) (h : Streams e ops F D e') :
    e'.sin = F ∧ e'.sout = D ∧ Streaming e' := by
  obtain ⟨h1, h2, h3⟩ := streams_counters ops e F D e' hf.str h
  exact ⟨by rw [h2, hf.sin]; omega, by rw [h3, hf.sout]; omega, h1⟩

/-- **Total is exact.**  A fresh resampler is streamed through *any* history that accepts `N` frames and delivers `D`;
    then end-of-input is signalled and requests `reqs` follow.  Provided the engine was never early (`D ≤ owed N`, see
    `never_early` below) the stream delivers `D + min(owed N − D, Σ reqs)`: exactly `owed N` as soon as enough
    has been requested, whatever the call sizes were. -/
theorem total_exact (num : Num) (a : Api) (e' : Eng) (ops : List StreamOp) (N D : Nat) (reqs : List Nat)
    (hf : Fresh a.eng) (hs : Streams a.eng ops N D e') (hearly : D ≤ num.owed N) :
    let a1 : Api := { a with eng := e'.flush num.owed, flushing := true }
    ∀ ods a2, Calls num a1 reqs ods a2 → D + ods.sum = min (num.owed N) (D + reqs.sum) := by
  intro a1 ods a2 hc
  obtain ⟨hsin, hsout, hstr⟩ := streaming_counts a.eng e' ops N D hf hs
  have hfle : (e'.flush num.owed) = { e' with sout := e'.sout - num.owed e'.sin, sin := 0, fl := true } := by
    unfold Eng.flush; simp [hstr.fl]
  have hd : Draining a1.eng := by
    show Draining (e'.flush num.owed)
    rw [hfle]
    exact ⟨rfl, by show e'.sout - (num.owed e'.sin : Int) ≤ 0; rw [hsout, hsin]; omega, hstr.wf, hstr.ne⟩
  have howed : a1.eng.owedLeft = num.owed N - D := by
    show (e'.flush num.owed).owedLeft = _
    rw [hfle]; unfold Eng.owedLeft
    show (-(e'.sout - (num.owed e'.sin : Int))).toNat = _
    rw [hsout, hsin]; omega
  obtain ⟨_, hsum⟩ := (drain_exact num a1 reqs rfl hd).2 ods a2 hc
  rw [hsum, howed]; omega

/-- **Every history can be run** (each call terminates), so the statements above are not vacuous. -/
theorem histories_run (e : Eng) (ops : List StreamOp) (hf : Fresh e) : ∃ F D e', Streams e ops F D e' :=
  streams_total ops e hf.str

/-! ## never early

The remaining clause — before end-of-input never more than `⌈N·orate/irate⌉` frames for the `N` accepted so far — is
proved on the engine model with SAMPLES (`Cr/DataPipe.lean`; any sample type, so in particular the unit type: counts),
for every run, from the time map of the plan (`Cr/Time.lean`, C04): the last sample an output reads lies at or beyond
the instant the output represents (`EarlyOK`, decidable, evaluated by the driver on every exported plan), so
`delivered` outputs need `rate·(delivered − 1) + offset + 1 + margin` inputs. -/

theorem offset_nonneg (lp : List LStage) (hlat : PlanLatOK false lp) : 0 ≤ offsetOf (lp.map tstage) := by
  induction lp with
  | nil => simp [offsetOf]
  | cons x rest ih =>
    have i1 := ih fun y hy => hlat y (by simp [hy])
    obtain ⟨b1, _⟩ := tstage_b_bound x (hlat x (by simp))
    simp only [List.map_cons, offsetOf]
    exact add_nonneg (mul_nonneg b1 (rate_nonneg_map rest)) i1

theorem margOf_nonneg (lp : List LStage) (he : PlanEarlyOK lp) : 0 ≤ margOf lp := by
  induction lp with
  | nil => simp [margOf]
  | cons x rest ih =>
    simp only [margOf]
    exact add_nonneg (mul_nonneg (margin_nonneg x (he x (by simp))) (rate_nonneg_map rest)) (ih fun y hy => he y (by simp [hy]))

/-- **Never early (plan rate).**  In the state reached by ANY streaming run — any interleaving of input blocks and output
    requests of any sizes — of a plan with compensated latency whose windows reach their kernels' centres, the `D`
    frames delivered for the `N` accepted satisfy `(D − 1)·rate < N`, i.e. `D ≤ ⌈N/rate⌉`, `rate` being the plan's exact
    rate product (`= irate/orate` for a rational plan; within the rounded-clock allowance otherwise, C04). -/
theorem never_early {α : Type} (K : Kern α) (z : α) (owed : Nat → Nat) (lp : List LStage)
    (hwf : ∀ x ∈ lp, StageWF x.cfg x.s0) (he : PlanEarlyOK lp) (hlat : PlanLatOK false lp)
    (ops : List (DOp α)) (F D : List α) (e : DEng α)
    (r : DRuns K z owed (DEng.fresh z (lp.map LStage.toPlan)) ops F D e) (hfl : e.fl = false) :
    (1 ≤ D.length → ((D.length : ℚ) - 1) * rateOf (lp.map tstage) < F.length) ∧
    (0 < rateOf (lp.map tstage) → D.length ≤ ⌈(F.length : ℚ) / rateOf (lp.map tstage)⌉₊) := by
  have hr := rate_nonneg_map lp
  have key : 1 ≤ D.length → ((D.length : ℚ) - 1) * rateOf (lp.map tstage) < F.length := by
    intro h1
    have h := never_early_run K z owed lp hwf he hlat ops F D e r hfl h1
    have o1 := offset_nonneg lp hlat
    have hm := margOf_nonneg lp he
    linarith
  refine ⟨key, ?_⟩
  intro hpos
  rcases Nat.eq_zero_or_pos D.length with h0 | h1
  · rw [h0]; exact Nat.zero_le _
  · have h2 : ((D.length - 1 : ℕ) : ℚ) < (F.length : ℚ) / rateOf (lp.map tstage) := by
      rw [lt_div_iff₀ hpos, Nat.cast_sub h1]; simpa using key h1
    have := Nat.lt_ceil.mpr h2
    omega

theorem offset_marg_nonneg (lp : List LStage) (he : PlanEarlyGen lp) : 0 ≤ offsetOf (lp.map tstage) + margOf lp := by
  induction lp with
  | nil => simp [offsetOf, margOf]
  | cons x rest ih =>
    have i1 := ih fun y hy => he y (by simp [hy])
    have hb := (he x (by simp)).2
    simp only [List.map_cons, offsetOf, margOf]
    have := mul_nonneg hb (rate_nonneg_map rest)
    nlinarith

/-- **Never early, any phase response.**  The same bound without assuming the filters centred: it suffices that, stage
    by stage, the last sample an output reads lies at or beyond the instant of that output (`0 ≤ b + margin`) and the
    dft shape clauses hold (`PlanEarlyGen`, decidable, evaluated by the driver on every exported plan — also those
    with a non-linear `phase_response`, whose `b` is positive for minimum and negative for maximum phase). -/
theorem never_early_any_phase {α : Type} (K : Kern α) (z : α) (owed : Nat → Nat) (lp : List LStage)
    (hwf : ∀ x ∈ lp, StageWF x.cfg x.s0) (he : PlanEarlyGen lp)
    (ops : List (DOp α)) (F D : List α) (e : DEng α)
    (r : DRuns K z owed (DEng.fresh z (lp.map LStage.toPlan)) ops F D e) (hfl : e.fl = false) :
    (1 ≤ D.length → ((D.length : ℚ) - 1) * rateOf (lp.map tstage) < F.length) ∧
    (0 < rateOf (lp.map tstage) → D.length ≤ ⌈(F.length : ℚ) / rateOf (lp.map tstage)⌉₊) := by
  have key : 1 ≤ D.length → ((D.length : ℚ) - 1) * rateOf (lp.map tstage) < F.length := by
    intro h1
    have h := never_early_run_gen K z owed lp hwf he ops F D e r hfl h1
    have o1 := offset_marg_nonneg lp he
    linarith
  refine ⟨key, ?_⟩
  intro hpos
  rcases Nat.eq_zero_or_pos D.length with h0 | h1
  · rw [h0]; exact Nat.zero_le _
  · have h2 : ((D.length - 1 : ℕ) : ℚ) < (F.length : ℚ) / rateOf (lp.map tstage) := by
      rw [lt_div_iff₀ hpos, Nat.cast_sub h1]; simpa using key h1
    have := Nat.lt_ceil.mpr h2
    omega

/-- **Never early, even with respect to the final total.**  When the pipeline's post-context is at least half an
    output period (`rate/2 ≤ 1 + offset + margin`, a decidable fact about the plan, evaluated by the driver), what has
    been delivered never exceeds `N/rate + ½`, hence never `⌊N/rate + ½⌋ = round(N/rate)` — which is the hypothesis
    `D ≤ owed N` of `total_exact` whenever the engine's floating-point `owed` is not below that exact rounding. -/
theorem never_early_round {α : Type} (K : Kern α) (z : α) (owed : Nat → Nat) (lp : List LStage)
    (hwf : ∀ x ∈ lp, StageWF x.cfg x.s0) (he : PlanEarlyOK lp) (hlat : PlanLatOK false lp)
    (hpost : rateOf (lp.map tstage) / 2 ≤ 1 + offsetOf (lp.map tstage) + margOf lp) (hpos : 0 < rateOf (lp.map tstage))
    (ops : List (DOp α)) (F D : List α) (e : DEng α)
    (r : DRuns K z owed (DEng.fresh z (lp.map LStage.toPlan)) ops F D e) (hfl : e.fl = false) :
    (D.length : ℚ) ≤ (F.length : ℚ) / rateOf (lp.map tstage) + 1 / 2 ∧
    D.length ≤ ⌊(F.length : ℚ) / rateOf (lp.map tstage) + 1 / 2⌋₊ := by
  have hq : (D.length : ℚ) ≤ (F.length : ℚ) / rateOf (lp.map tstage) + 1 / 2 := by
    rcases Nat.eq_zero_or_pos D.length with h0 | h1
    · rw [h0]
      have : (0 : ℚ) ≤ (F.length : ℚ) / rateOf (lp.map tstage) := by positivity
      simp only [Nat.cast_zero]; linarith
    · have h := never_early_run K z owed lp hwf he hlat ops F D e r hfl h1
      have : (D.length : ℚ) - 1 / 2 ≤ (F.length : ℚ) / rateOf (lp.map tstage) := by
        rw [le_div_iff₀ hpos]; nlinarith
      linarith
  exact ⟨hq, Nat.le_floor hq⟩

/-- **Never early even with respect to the final total, any phase response.**  Without assuming the filters centred: the dft shape
    clauses, `0 ≤ b + margin` stage by stage (`PlanEarlyGen`) and the post-context clause — all decidable, evaluated by the driver on
    every exported plan, and met by every plan of the real planner sampled, minimum- and maximum-phase ones included. -/
theorem never_early_round_any_phase {α : Type} (K : Kern α) (z : α) (owed : Nat → Nat) (lp : List LStage)
    (hwf : ∀ x ∈ lp, StageWF x.cfg x.s0) (he : PlanEarlyGen lp)
    (hpost : rateOf (lp.map tstage) / 2 ≤ 1 + offsetOf (lp.map tstage) + margOf lp) (hpos : 0 < rateOf (lp.map tstage))
    (ops : List (DOp α)) (F D : List α) (e : DEng α)
    (r : DRuns K z owed (DEng.fresh z (lp.map LStage.toPlan)) ops F D e) (hfl : e.fl = false) :
    D.length ≤ ⌊(F.length : ℚ) / rateOf (lp.map tstage) + 1 / 2⌋₊ := by
  have hq : (D.length : ℚ) ≤ (F.length : ℚ) / rateOf (lp.map tstage) + 1 / 2 := by
    rcases Nat.eq_zero_or_pos D.length with h0 | h1
    · rw [h0]
      have : (0 : ℚ) ≤ (F.length : ℚ) / rateOf (lp.map tstage) := by positivity
      simp only [Nat.cast_zero]; linarith
    · have h := never_early_run_gen K z owed lp hwf he ops F D e r hfl h1
      have : (D.length : ℚ) - 1 / 2 ≤ (F.length : ℚ) / rateOf (lp.map tstage) := by
        rw [le_div_iff₀ hpos]; nlinarith
      linarith
  exact Nat.le_floor hq

/-- the engine `_soxr_init` leaves behind for a plan, in the count model -/
def freshEng (lp : List LStage) : Eng := (DEng.fresh () (lp.map LStage.toPlan)).toEng

theorem freshEng_fresh (lp : List LStage) (hwf : ∀ x ∈ lp, StageWF x.cfg x.s0) (hne : lp ≠ []) : Fresh (freshEng lp) := by
  refine ⟨rfl, rfl, ⟨rfl, ?_, ?_⟩⟩
  · intro st hst
    simp only [freshEng, DEng.toEng, DEng.fresh, List.map_map, List.mem_map] at hst
    obtain ⟨x, hx, rfl⟩ := hst
    exact hwf x hx
  · simp only [freshEng, DEng.toEng, DEng.fresh, List.map_map]
    intro h
    exact hne (List.map_eq_nil_iff.mp h)

/-- **Nothing early, for every history of the count model.**  The count model is what the per-call correspondence ties to the
    code; every one of its streaming histories is the shadow of a history on samples (`streams_lift`), so `never_early_round`
    speaks about it: for a plan meeting the decidable hypotheses (the post-context clause included) the `D` frames delivered for
    the `N` accepted never exceed `⌊N/rate + ½⌋`. -/
theorem never_early_round_counts (lp : List LStage) (hwf : ∀ x ∈ lp, StageWF x.cfg x.s0) (he : PlanEarlyOK lp) (hlat : PlanLatOK false lp)
    (hpost : rateOf (lp.map tstage) / 2 ≤ 1 + offsetOf (lp.map tstage) + margOf lp) (hpos : 0 < rateOf (lp.map tstage)) (hne : lp ≠ [])
    (ops : List StreamOp) (N D : Nat) (e' : Eng) (hs : Streams (freshEng lp) ops N D e') :
    D ≤ ⌊(N : ℚ) / rateOf (lp.map tstage) + 1 / 2⌋₊ := by
  have hf := freshEng_fresh lp hwf hne
  let K : Kern Unit := { eval := fun _ _ _ _ _ => () }
  obtain ⟨F', D', d', hrun, hF, hD, hd'⟩ := streams_lift K () (fun _ => 0) ops _ N D e' (DEng.fresh () (lp.map LStage.toPlan)) rfl hf.str hs
  have hfl : d'.fl = false := by
    have := (streams_counters ops _ N D e' hf.str hs).1.fl
    rw [← hd'] at this; exact this
  have := (never_early_round K () (fun _ => 0) lp hwf he hlat hpost hpos (liftOps () ops) F' D' d' hrun hfl).2
  rw [hF, hD] at this
  exact this

/-- … and for any phase response -/
theorem never_early_round_counts_gen (lp : List LStage) (hwf : ∀ x ∈ lp, StageWF x.cfg x.s0) (he : PlanEarlyGen lp)
    (hpost : rateOf (lp.map tstage) / 2 ≤ 1 + offsetOf (lp.map tstage) + margOf lp) (hpos : 0 < rateOf (lp.map tstage)) (hne : lp ≠ [])
    (ops : List StreamOp) (N D : Nat) (e' : Eng) (hs : Streams (freshEng lp) ops N D e') :
    D ≤ ⌊(N : ℚ) / rateOf (lp.map tstage) + 1 / 2⌋₊ := by
  have hf := freshEng_fresh lp hwf hne
  let K : Kern Unit := { eval := fun _ _ _ _ _ => () }
  obtain ⟨F', D', d', hrun, hF, hD, hd'⟩ := streams_lift K () (fun _ => 0) ops _ N D e' (DEng.fresh () (lp.map LStage.toPlan)) rfl hf.str hs
  have hfl : d'.fl = false := by
    have := (streams_counters ops _ N D e' hf.str hs).1.fl
    rw [← hd'] at this; exact this
  have := never_early_round_any_phase K () (fun _ => 0) lp hwf he hpost hpos (liftOps () ops) F' D' d' hrun hfl
  rw [hF, hD] at this
  exact this

/-- **Total is exact for every history, any phase response.** -/
theorem total_exact_any_phase (num : Num) (lp : List LStage) (hwf : ∀ x ∈ lp, StageWF x.cfg x.s0) (he : PlanEarlyGen lp)
    (hpost : rateOf (lp.map tstage) / 2 ≤ 1 + offsetOf (lp.map tstage) + margOf lp)
    (hpos : 0 < rateOf (lp.map tstage)) (hne : lp ≠ [])
    (howed : ∀ n : Nat, ⌊(n : ℚ) / rateOf (lp.map tstage) + 1 / 2⌋₊ ≤ num.owed n)
    (a : Api) (ha : a.eng = freshEng lp) (e' : Eng) (ops : List StreamOp) (N D : Nat) (reqs : List Nat)
    (hs : Streams a.eng ops N D e') :
    let a1 : Api := { a with eng := e'.flush num.owed, flushing := true }
    ∀ ods a2, Calls num a1 reqs ods a2 → D + ods.sum = min (num.owed N) (D + reqs.sum) := by
  have hf : Fresh a.eng := by rw [ha]; exact freshEng_fresh lp hwf hne
  have hearly : D ≤ num.owed N := by
    rw [ha] at hs
    exact le_trans (never_early_round_counts_gen lp hwf he hpost hpos hne ops N D e' hs) (howed N)
  exact total_exact num a e' ops N D reqs hf hs hearly

/-- the ceil bound, likewise for every history of the count model -/
theorem never_early_counts (lp : List LStage) (hwf : ∀ x ∈ lp, StageWF x.cfg x.s0) (he : PlanEarlyOK lp) (hlat : PlanLatOK false lp)
    (hne : lp ≠ []) (ops : List StreamOp) (N D : Nat) (e' : Eng) (hs : Streams (freshEng lp) ops N D e') :
    1 ≤ D → ((D : ℚ) - 1) * rateOf (lp.map tstage) < N := by
  have hf := freshEng_fresh lp hwf hne
  let K : Kern Unit := { eval := fun _ _ _ _ _ => () }
  obtain ⟨F', D', d', hrun, hF, hD, hd'⟩ := streams_lift K () (fun _ => 0) ops _ N D e' (DEng.fresh () (lp.map LStage.toPlan)) rfl hf.str hs
  have hfl : d'.fl = false := by
    have := (streams_counters ops _ N D e' hf.str hs).1.fl
    rw [← hd'] at this; exact this
  have := (never_early K () (fun _ => 0) lp hwf he hlat (liftOps () ops) F' D' d' hrun hfl).1
  rw [hF, hD] at this
  exact this

/-- **Total is exact, for every history — no never-early hypothesis.**  A plan that meets the decidable hypotheses the driver
    evaluates on every exported plan (`StageWF`, `PlanEarlyOK`, `PlanLatOK false`, the post-context clause); the engine's `owed`
    not below the exact rounding `⌊N/rate + ½⌋`.  The freshly initialised resampler is streamed through ANY history that accepts
    `N` frames and delivers `D`, end-of-input is signalled, any requests follow: the stream delivers
    `D + min(owed N − D, Σ requests)` — exactly `owed N` once enough has been requested. -/
theorem total_exact_every_history (num : Num) (lp : List LStage) (hwf : ∀ x ∈ lp, StageWF x.cfg x.s0) (he : PlanEarlyOK lp)
    (hlat : PlanLatOK false lp) (hpost : rateOf (lp.map tstage) / 2 ≤ 1 + offsetOf (lp.map tstage) + margOf lp)
    (hpos : 0 < rateOf (lp.map tstage)) (hne : lp ≠ [])
    (howed : ∀ n : Nat, ⌊(n : ℚ) / rateOf (lp.map tstage) + 1 / 2⌋₊ ≤ num.owed n)
    (a : Api) (ha : a.eng = freshEng lp) (e' : Eng) (ops : List StreamOp) (N D : Nat) (reqs : List Nat)
    (hs : Streams a.eng ops N D e') :
    let a1 : Api := { a with eng := e'.flush num.owed, flushing := true }
    ∀ ods a2, Calls num a1 reqs ods a2 → D + ods.sum = min (num.owed N) (D + reqs.sum) := by
  have hf : Fresh a.eng := by rw [ha]; exact freshEng_fresh lp hwf hne
  have hearly : D ≤ num.owed N := by
    rw [ha] at hs
    exact le_trans (never_early_round_counts lp hwf he hlat hpost hpos hne ops N D e' hs) (howed N)
  exact total_exact num a e' ops N D reqs hf hs hearly

/-! ## non-vacuity: a concrete plan exported by the real planner (44100 → 48000, HQ) meets the hypotheses -/

def exStages : List Stage :=
  [ { cfg := { kind := .clocked, prePost := 15, den := 80, step := 147, poly0 := true, taps := 16 }, st := { occ := 8, clk := 40, isz := 8192 } },
    { cfg := { kind := .dft, L := 2, dftLen := 2048, numTaps := 409, M := 1 }, st := { occ := 102, clk := 0, isz := 1024 } } ]

def exEng : Eng := { stages := exStages }

example : Fresh exEng := ⟨rfl, rfl, ⟨rfl, by decide, by decide⟩⟩
example : PipeWF exStages := by decide

/-- the same plan with the integers the time map reads: all hypotheses of `never_early` and `never_early_round` hold -/
def exL : List LStage :=
  [ { cfg := { kind := .clocked, prePost := 15, den := 80, step := 147, poly0 := true, taps := 16 },
      s0 := { occ := 8, clk := 40, isz := 8192 }, lat := { nc := 15 } },
    { cfg := { kind := .dft, L := 2, dftLen := 2048, numTaps := 409, M := 1 },
      s0 := { occ := 102, clk := 0, isz := 1024 }, lat := { postPeak := 204 } } ]

example : (∀ x ∈ exL, StageWF x.cfg x.s0) ∧ PlanEarlyOK exL ∧ PlanLatOK false exL := by decide

end Soxr.Properties.C03
