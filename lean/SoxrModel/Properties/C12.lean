/-
  C12 — Linearity: unity DC gain, exact scale, superposition, shift covariance.

  "A constant-rate resampler is a linear system: a constant input converges to the same constant, the output scales in
  proportion to io_spec.scale, and the response to a sum of signals equals the sum of the responses, all to within the
  configured precision.  For a rational ratio L/M, delaying the input by M frames delays the output by exactly L frames
  (sample values agreeing to within the precision)."

  What is proved here (exact arithmetic, any commutative semiring of samples, all signals, all output indices, any
  number of stages): the MODEL resampler — a pipeline of stages each of which computes every output as a finite linear
  combination of its inputs with coefficients that depend on the output index only — satisfies superposition,
  homogeneity, "the gain enters exactly once" for `_soxr_init`'s hand-over of `multiplier`, the DC-gain law
  (constant in ⇒ constant × row sum out; unity gain ⇔ every row sums to 1), and shift covariance at the plan's
  implementation period — everywhere for ideal stages, beyond the start-up horizon for stages that discard the
  negative-time part of their intermediate streams (which is what the code does).

  What is NOT proved and stays a hypothesis evaluated by MEASUREMENT on the real code (checks/c12.py): that the real
  floating-point kernels are such linear maps up to rounding within 2^(1−bits) (`Goal_impl_near_linear`), that the
  designed rows sum to 1 within the precision, and that covariance at the REDUCED period L/M holds within the
  precision for in-band signals (a spectral fact: C01/C02).  `near_linear_*` show what those measured facts buy.
-/
import SoxrModel.Signal.Plan
import SoxrModel.Signal.Example
import Mathlib.Analysis.Normed.Field.Basic
import Mathlib.Tactic.Linarith
import Mathlib.Tactic.NormNum

namespace Soxr.C12

open Soxr.Signal Soxr.Signal.Kernel Finset

variable {R : Type*} [CommSemiring R]

/-! ### Superposition and homogeneity: every signal pair, every output index, any number of stages -/

/-- The response to a sum of signals is the sum of the responses. -/
theorem superposition (stages : List (Kernel R)) (x y : ℤ → R) (k : ℤ) :
    run stages (fun n => x n + y n) k = run stages x k + run stages y k := by
  rw [run_add]

/-- Scaling the input scales the output by the same factor. -/
theorem homogeneity (stages : List (Kernel R)) (a : R) (x : ℤ → R) (k : ℤ) :
    run stages (fun n => a * x n) k = a * run stages x k := by
  rw [run_mul_left]

/-- Any finite linear combination. -/
theorem superposition_finite [Nontrivial R] (stages : List (Kernel R)) {ι : Type*} (s : Finset ι) (a : ι → R)
    (x : ι → ℤ → R) (k : ℤ) :
    run stages (fun n => ∑ i ∈ s, a i * x i n) k = ∑ i ∈ s, a i * run stages (x i) k := by
  simp only [← resp_pipeline]
  exact (pipeline stages).resp_linear_comb s a x k

example : run [interp2 ℚ] (fun n => (n : ℚ) + 3) 5 = run [interp2 ℚ] (fun n => (n : ℚ)) 5 + run [interp2 ℚ] (fun _ => 3) 5 :=
  superposition _ _ _ _

/-! ### The gain enters exactly once -/

/-- The realised stage list of a plan: `halves` half-band decimators with static tables, then the designed stages that
exist, each with the gain `_soxr_init` folds into its coefficients (`handOver`). -/
noncomputable def stagesOf (s : Shape) (halves : List (Kernel R)) (pre arb post : Kernel R) (m : R) : List (Kernel R) :=
  let g := handOver s m
  halves ++ (((if s.pre then [(g.1, pre)] else []) ++ (if s.arb then [(g.2.1, arb)] else []) ++
    (if s.post then [(g.2.2.1, post)] else [])).map fun p => smul p.1 p.2)

/-- **gain_once.** Whenever the plan has a designed stage, the requested gain `m` multiplies the output exactly once:
the realised pipeline is `m` times the unit-gain pipeline, for every input and every output index — wherever the
gain-carrying stage sits and however many stages follow or precede it. -/
theorem gain_once (s : Shape) (halves : List (Kernel R)) (pre arb post : Kernel R) (m : R)
    (hd : s.hasDesigned = true) (x : ℤ → R) (k : ℤ) :
    run (stagesOf s halves pre arb post m) x k = m * run (stagesOf s halves pre arb post 1) x k := by
  unfold stagesOf
  rw [run_append, run_append, run_gains, run_gains]
  rcases s with ⟨shr, bpre, barb, bpost⟩
  cases bpre <;> cases barb <;> cases bpost <;>
    simp_all [handOver, takeGain, Shape.hasDesigned]

/-- The gain sits on exactly one stage (restated from `Signal/Plan.lean` so that the audit covers it). -/
theorem gain_on_one_stage (s : Shape) (m : R) :
    (s.pre = true ∧ handOver s m = (m, 1, 1, 1)) ∨
    (s.pre = false ∧ s.arb = true ∧ handOver s m = (1, m, 1, 1)) ∨
    (s.pre = false ∧ s.arb = false ∧ s.post = true ∧ handOver s m = (1, 1, m, 1)) ∨
    (s.hasDesigned = false ∧ handOver s m = (1, 1, 1, m)) :=
  handOver_once s m

/-- With no stage at all and a gain ≠ 1 a (cubic) arbitrary stage is forced, so something always carries the gain —
given that the planner never emits half-band stages alone (checked on every plan the harness exports). -/
theorem gain_always_carried [DecidableEq R] (s : Shape) (m : R) (hd : 0 < s.shr → s.hasDesigned = true) :
    (s.force m).hasDesigned = true ∨ ((s.force m).numStages = 0 ∧ m = 1) :=
  force_carries s m hd

example : (Shape.mk 0 false false false).force (2 : ℚ) = Shape.mk 0 false true false := by decide
example : handOver (Shape.mk 2 true false true) (3 : ℚ) = (3, 1, 1, 1) := by decide
example : handOver (Shape.mk 1 false true true) (3 : ℚ) = (1, 3, 1, 1) := by decide

/-! ### DC gain -/

/-- A constant input `c` gives at output `k` the value `c · Σₙ g[k,n]`. -/
theorem dc_gain (K : Kernel R) (c : R) (k : ℤ) : K.resp (fun _ => c) k = c * K.rowSum k :=
  K.resp_const c k

/-- Unity DC gain ⇔ every row sums to 1 (the row sums are the measured quantity). -/
theorem dc_unity_iff_rows (K : Kernel R) : (∀ (c : R) (k : ℤ), K.resp (fun _ => c) k = c) ↔ ∀ k, K.rowSum k = 1 :=
  K.dc_unity_iff

/-- A pipeline whose stages all have unit row sums reproduces every constant, at every output index. -/
theorem dc_pipeline (stages : List (Kernel R)) (h : ∀ K ∈ stages, ∀ k, K.rowSum k = 1) (c : R) :
    run stages (fun _ => c) = fun _ => c := by
  induction stages with
  | nil => rfl
  | cons K Ks ih =>
    show run Ks (K.resp fun _ => c) = _
    have hK : (K.resp fun _ => c) = fun _ => c := funext fun k => by
      rw [K.resp_const, h K List.mem_cons_self k, mul_one]
    rw [hK]
    exact ih fun K' hK' => h K' (List.mem_cons_of_mem _ hK')

example (c : ℚ) (k : ℤ) : (interp2 ℚ).resp (fun _ => c) k = c := interp2_const (by norm_num) c k
example (k : ℤ) : (interp2 ℚ).rowSum k = 1 := interp2_rowSum (by norm_num) k

/-! ### Shift covariance -/

/-- (L,M)-covariant rows from `k₀` on: delaying the input by `M` delays the output by `L`, EXACTLY, at every output
index beyond the horizon, for every input signal. -/
theorem shift_covariance (K : Kernel R) {L M k₀ : ℤ} (h : K.CovFrom L M k₀) (x : ℤ → R) {k : ℤ} (hk : k₀ ≤ k) :
    K.resp (delay M x) (k + L) = K.resp x k :=
  h.resp_delay x hk

/-- Composition of two covariant stages is covariant with the aligned period, beyond the later stage's horizon,
provided its rows there read the earlier stage's output only beyond that stage's horizon. -/
theorem shift_covariance_two_stages {K₂ K₁ : Kernel R} {L₁ M₁ L₂ M₂ k₁ k₂ : ℤ} (h₂ : K₂.CovFrom L₂ M₂ k₂)
    (h₁ : K₁.CovFrom L₁ M₁ k₁) (hL₁ : 0 ≤ L₁) (hL₂ : 0 ≤ L₂) (a b : ℕ) (hab : M₂ * a = L₁ * b)
    (hreads : ∀ k, k₂ ≤ k → ∀ m ∈ (K₂.row k).support, k₁ ≤ m) (x : ℤ → R) {k : ℤ} (hk : k₂ ≤ k) :
    K₂.resp (K₁.resp (delay (M₁ * b) x)) (k + L₂ * a) = K₂.resp (K₁.resp x) k := by
  rw [← resp_comp, ← resp_comp]
  exact (h₂.comp h₁ hL₁ hL₂ a b hab hreads).resp_delay x hk

/-- A whole plan of (ideal, everywhere covariant) stages is ONE linear periodically time-varying system: delaying the
input by `M_P` delays the output by `L_P`, exactly, where `(L_P, M_P)` is the implementation period of the stage list. -/
theorem shift_covariance_plan [Nontrivial R] (st : List (Kernel R × ℕ × ℕ)) (h : ∀ t ∈ st, t.1.Cov t.2.1 t.2.2)
    (x : ℤ → R) (k : ℤ) :
    run (st.map fun t => t.1) (delay ((implPeriod (st.map fun t => t.2)).2 : ℤ) x)
        (k + (implPeriod (st.map fun t => t.2)).1) = run (st.map fun t => t.1) x k := by
  simp only [← resp_pipeline]
  exact (pipeline_cov st h).resp_delay x k

/-- The implementation period of `÷2` followed by `2/5` (5:1 at HQ) is (2,10), not (1,5). -/
example : implPeriod [(1, 2), (2, 5)] = (2, 10) := by decide
/-- 44.1k → 48k at HQ: `×2` (DFT), then `80/147` (poly-phase): (160, 147). -/
example : implPeriod [(2, 1), (80, 147)] = (160, 147) := by decide
example : (interp2 ℚ).CovFrom 2 1 0 := interp2_cov.covFrom 0

/-! ### What the measured precision buys: an implementation that is ε-close to a linear covariant system -/

section NearLinear

variable {𝕜 : Type*} [NormedField 𝕜]

/-- The real resampler as a black box `impl` is, on the signal class `S` and beyond the horizon `k₀`, within `ε` of
the linear system `K`. -/
def NearLinear (impl : (ℤ → 𝕜) → ℤ → 𝕜) (K : Kernel 𝕜) (S : Set (ℤ → 𝕜)) (k₀ : ℤ) (ε : ℝ) : Prop :=
  ∀ x ∈ S, ∀ k, k₀ ≤ k → ‖impl x k - K.resp x k‖ ≤ ε

/-- NOT PROVED — it is a statement about compiled floating-point code, outside the model: the real constant-rate
resampler of a configuration is `ε`-near-linear and covariant for `ε` a fraction of `2^(1−bits)`.
checks/c12.py measures its consequences (`near_linear_superposition`, `near_linear_shift`) on the real code. -/
def Goal_impl_near_linear (impl : (ℤ → 𝕜) → ℤ → 𝕜) (S : Set (ℤ → 𝕜)) (L M k₀ : ℤ) (ε : ℝ) : Prop :=
  ∃ K : Kernel 𝕜, K.CovFrom L M k₀ ∧ NearLinear impl K S k₀ ε

/-- Superposition within `3ε`. -/
theorem near_linear_superposition {impl : (ℤ → 𝕜) → ℤ → 𝕜} {K : Kernel 𝕜} {S : Set (ℤ → 𝕜)} {k₀ : ℤ} {ε : ℝ}
    (h : NearLinear impl K S k₀ ε) {x y : ℤ → 𝕜} (hx : x ∈ S) (hy : y ∈ S) (hxy : (fun n => x n + y n) ∈ S) {k : ℤ}
    (hk : k₀ ≤ k) : ‖impl (fun n => x n + y n) k - (impl x k + impl y k)‖ ≤ 3 * ε := by
  have e1 := h _ hxy k hk
  have e2 := h _ hx k hk
  have e3 := h _ hy k hk
  rw [K.resp_add] at e1
  have : impl (fun n => x n + y n) k - (impl x k + impl y k) =
      (impl (fun n => x n + y n) k - (K.resp x k + K.resp y k)) - (impl x k - K.resp x k) - (impl y k - K.resp y k) := by
    ring
  rw [this]
  have t1 := norm_sub_le ((impl (fun n => x n + y n) k - (K.resp x k + K.resp y k)) - (impl x k - K.resp x k))
    (impl y k - K.resp y k)
  have t2 := norm_sub_le (impl (fun n => x n + y n) k - (K.resp x k + K.resp y k)) (impl x k - K.resp x k)
  linarith

/-- Scaling within `(1 + |a|)·ε`. -/
theorem near_linear_scale {impl : (ℤ → 𝕜) → ℤ → 𝕜} {K : Kernel 𝕜} {S : Set (ℤ → 𝕜)} {k₀ : ℤ} {ε : ℝ}
    (h : NearLinear impl K S k₀ ε) (a : 𝕜) {x : ℤ → 𝕜} (hx : x ∈ S) (hax : (fun n => a * x n) ∈ S) {k : ℤ}
    (hk : k₀ ≤ k) : ‖impl (fun n => a * x n) k - a * impl x k‖ ≤ (1 + ‖a‖) * ε := by
  have e1 := h _ hax k hk
  have e2 := h _ hx k hk
  rw [K.resp_mul_left] at e1
  have : impl (fun n => a * x n) k - a * impl x k =
      (impl (fun n => a * x n) k - a * K.resp x k) - a * (impl x k - K.resp x k) := by ring
  rw [this]
  have t1 := norm_sub_le (impl (fun n => a * x n) k - a * K.resp x k) (a * (impl x k - K.resp x k))
  rw [norm_mul] at t1
  have t2 : ‖a‖ * ‖impl x k - K.resp x k‖ ≤ ‖a‖ * ε := mul_le_mul_of_nonneg_left e2 (norm_nonneg a)
  linarith

/-- Shift covariance within `2ε`. -/
theorem near_linear_shift {impl : (ℤ → 𝕜) → ℤ → 𝕜} {K : Kernel 𝕜} {S : Set (ℤ → 𝕜)} {L M k₀ : ℤ} {ε : ℝ}
    (h : NearLinear impl K S k₀ ε) (hc : K.CovFrom L M k₀) (hL : 0 ≤ L) {x : ℤ → 𝕜} (hx : x ∈ S)
    (hdx : delay M x ∈ S) {k : ℤ} (hk : k₀ ≤ k) : ‖impl (delay M x) (k + L) - impl x k‖ ≤ 2 * ε := by
  have e1 := h _ hdx (k + L) (le_add_of_le_of_nonneg hk hL)
  have e2 := h _ hx k hk
  rw [hc.resp_delay x hk] at e1
  have : impl (delay M x) (k + L) - impl x k = (impl (delay M x) (k + L) - K.resp x k) - (impl x k - K.resp x k) := by
    ring
  rw [this]
  have t1 := norm_sub_le (impl (delay M x) (k + L) - K.resp x k) (impl x k - K.resp x k)
  linarith

/-- The hypothesis is satisfiable: an exactly linear implementation is 0-near-linear. -/
example : Goal_impl_near_linear (fun x => (interp2 ℝ).resp x) Set.univ 2 1 0 0 :=
  ⟨interp2 ℝ, interp2_cov.covFrom 0, fun x _ k _ => by simp⟩

end NearLinear

end Soxr.C12
