import SoxrModel.Conv.LemmasProps
import SoxrModel.Conv.LemmasLsr

/-!
# C11 — format conversion: exact scaling, round to nearest, saturation, clip count, pass-through, dither bound

Model: `SoxrModel/Conv/Model.lean` — `rint-clip.h` (the twelve kernels `lsx_rint{16,32}_clip[_2][_dither][_f]` as one
parametrised definition: `fistp` with the sticky x87 invalid flag, the 16-way unrolled loop `DO_16`, the re-run of a
block through `RINT_CLIP`, the tail, the strided variant), `rint.h`, the casts of `data-io.c`, the scaling of the
unit-gain path of `soxr.c`, the dither LCG on `BitVec 64`.  All values are exact dyadics: a finite IEEE value is an
integer number of **units** `2^-1074` (`Val.fin x` is `x · 2^-1074`; `unit` is `1.0`), so the theorems quantify over
every finite `float`/`double`, ±Inf and NaN (`Val`), every length, every seed, every channel count.

`convSample mx` is the per-sample specification: round half to even, saturate at `[-mx-1, mx]`, report saturation.

Clauses and theorems
* saturates, never wraps            `rint_clip_range`, `stored_pattern_is_value`, `saturation_value`, `nonfinite_saturate`
* rounds to nearest (ties to even)  `rint_nearest`
* saturation thresholds             `clip_iff`
* the real kernels = specification  `fast_path_eq_reference`, `strided_eq_reference`, `interleave_int_spec`
  (hypothesis: invalid flag clear on entry; `stale_flag_breaks_it` shows the hypothesis is needed)
* clip counter                      `clip_count_exact`, `clip_count_exact_dither`
* full scale = ±1.0, exact scaling  `scale_table_pow2`, `scale_pow2_exact`, `full_scale_i16`, `full_scale_i32`,
                                    `minus_full_scale_is_minus_one`
* exact where representable         `int16_float32_roundtrip`, `int32_float64_roundtrip`, `int16_to_int32_exact`,
                                    `float32_widen_exact`, `float_to_int16_is_reference`
* pass-through at equal rates       `passthrough_exact` (all same-type pairs the engine precision can hold)
* dither                            `dither_amount_bound`, `dither_bound`, `dithered_kernel_spec`, `dither_seed_advance`,
                                    `lcg_is_mod_2_64`
* SOXR_NO_DITHER                    `no_dither_deterministic`
* constants read from /repo         `generated_constants`

Not a theorem here (it is about the planner of `cr.c`, floating point): that equal rates and unit gain give a plan with
zero stages, and that a full-scale factor alone gives the cubic stage at fraction 0, i.e. one multiplication by a power of
two.  `passSample` models exactly that; the tie is the API half of the correspondence check (checks/c11.py), which runs
`soxr_process` at equal rates for all 16 datatype pairs × 2 engines × 4 layouts against `passSample`.
-/

set_option exponentiation.threshold 4096
namespace Soxr.Conv.C11
open Soxr.Conv

/-! ## saturation, never wrap -/

/-- Every result of the reference conversion lies within the limits of the integer type — for every operand, NaN and
    infinities included. -/
theorem rint_clip_range (mx : Int) (h : 0 ≤ mx) (v : Val) :
    -mx - 1 ≤ (convSample mx v).1 ∧ (convSample mx v).1 ≤ mx := convSample_range mx h v

example : (convSample 32767 (.fin (40000 * unit))).1 = 32767 := by decide

/-- The two's-complement pattern stored for a sample reads back as the value itself (no wrap-around), both widths. -/
theorem stored_pattern_is_value (v : Val) :
    toSigned 16 (ofSigned 16 (convSample (rintMax .i16) v).1) = (convSample (rintMax .i16) v).1 ∧
    toSigned 32 (ofSigned 32 (convSample (rintMax .i32) v).1) = (convSample (rintMax .i32) v).1 := by
  have h1 := convSample_range (rintMax .i16) (by decide) v
  have h2 := convSample_range (rintMax .i32) (by decide) v
  have e1 : rintMax .i16 = 32767 := rfl
  have e2 : rintMax .i32 = 2147483647 := rfl
  rw [e1] at h1 ⊢
  rw [e2] at h2 ⊢
  exact ⟨toSigned_ofSigned16 _ (by omega) (by omega), toSigned_ofSigned32 _ (by omega) (by omega)⟩

/-- A saturated sample is the limit on its own side: `RINT_MAX` for a positive operand, `-RINT_MAX - 1` otherwise. -/
theorem saturation_value (mx : Int) (h : 0 ≤ mx) (d : Val) (hc : (convSample mx d).2 = true) :
    (convSample mx d).1 = if d.isPos then mx else -mx - 1 := convSample_sat_value mx h d hc

example : (convSample 32767 (.fin (-40000 * unit))).2 = true := by decide

/-- Infinities and NaN always count as saturated (NaN goes to the most negative value, as `d > 0` is false). -/
theorem nonfinite_saturate (mx : Int) :
    convSample mx (.inf false) = (mx, true) ∧ convSample mx (.inf true) = (-mx - 1, true) ∧
    convSample mx .nan = (-mx - 1, true) := ⟨rfl, rfl, rfl⟩

/-! ## round to nearest, ties to even -/

/-- An unsaturated sample is the nearest integer: the error is at most half an LSB, no integer is nearer, and on an exact
    tie the even neighbour is taken (`x` in units of `2^-1074`; `unit` is one LSB). -/
theorem rint_nearest (mx x : Int) (hc : (convSample mx (.fin x)).2 = false) :
    let r := (convSample mx (.fin x)).1
    2 * (r * (unit : Int) - x).natAbs ≤ unit ∧
    (∀ z : Int, (r * (unit : Int) - x).natAbs ≤ (z * (unit : Int) - x).natAbs) ∧
    (2 * (r * (unit : Int) - x).natAbs = unit → r % 2 = 0) := by
  obtain ⟨e, -, -⟩ := convSample_unclipped mx x hc
  intro r
  have er : r = rhe x unit := e
  rw [er]
  obtain ⟨n1, n2⟩ := rhe_near x unit unit_pos
  refine ⟨by omega, rhe_nearest x unit unit_pos, ?_⟩
  intro ht
  exact rhe_tie_even x unit unit_pos (by omega)

/-- 2.5 rounds to 2, 3.5 to 4, -0.5 to 0. -/
example : (convSample 32767 (.fin (5 * 2 ^ 1073))).1 = 2 ∧ (convSample 32767 (.fin (7 * 2 ^ 1073))).1 = 4 ∧
    (convSample 32767 (.fin (-(2 ^ 1073)))).1 = 0 := by decide

/-- **Saturation thresholds**, `RINT_MAX` odd (`32767`, `2147483647`): a finite sample saturates iff
    `x ≥ RINT_MAX + 1/2` or `x < -RINT_MAX - 3/2`. -/
theorem clip_iff (mx x : Int) (hm : mx % 2 = 1) :
    (convSample mx (.fin x)).2 = true ↔
      ((2 * mx + 1) * (unit : Int) ≤ 2 * x ∨ 2 * x < (2 * (-mx - 1) - 1) * (unit : Int)) :=
  clip_iff_threshold mx x hm

/-- 32767.5 saturates, -32768.5 does not (it is a tie and goes to the even -32768). -/
example : (convSample 32767 (.fin (65535 * 2 ^ 1073))).2 = true ∧ (convSample 32767 (.fin (-65537 * 2 ^ 1073))) = (-32768, false) := by
  decide

/-! ## the kernels of `rint-clip.h` against the per-sample reference -/

/-- **`LSX_RINT_CLIP`: the 16-way unrolled loop with its invalid-flag fix-up, followed by the tail, is the per-sample
    reference** — for every list of operands (every length: `numBlocks` iterations and the tail), every seed, every
    counter value, dithered or not: outputs are the reference conversion of the operands, the flag is clear again, the
    counter has advanced by exactly the number of saturated samples.  Hypothesis: invalid flag clear on entry. -/
theorem fast_path_eq_reference (c : Cfg) (h : 0 ≤ c.mx) (xs : List Val) (seed : Seed) (n : Nat) :
    lsxRintClip c xs seed ⟨false, n⟩ =
      (refOut c.mx (kernelOperands c xs seed).1, (kernelOperands c xs seed).2,
        ⟨false, n + refClips c.mx (kernelOperands c xs seed).1⟩) := lsxRintClip_clear c h xs seed n

/-- a 17-sample call (one unrolled block, which saturates at index 3 and is redone, and a one-sample tail that saturates). -/
example : lsxRintClip ⟨32767, false⟩
    ((List.replicate 3 (.fin 0) ++ [.inf false] ++ List.replicate 12 (.fin (7 * 2 ^ 1073))) ++ [.nan]) 5 ⟨false, 0⟩ =
    (List.replicate 3 0 ++ [32767] ++ List.replicate 12 4 ++ [-32768], 5, ⟨false, 2⟩) := by decide

/-- The strided kernel `LSX_RINT_CLIP_2`, any number of channels. -/
theorem strided_eq_reference (c : Cfg) (h : 0 ≤ c.mx) (chans : List (List Val)) (seed : Seed) (n : Nat) :
    lsxRintClip2 c chans seed ⟨false, n⟩ =
      ((kernelOperands2 c chans seed).1.map (refOut c.mx), (kernelOperands2 c chans seed).2,
        ⟨false, n + ((kernelOperands2 c chans seed).1.map (refClips c.mx)).sum⟩) := lsxRintClip2_clear c h chans seed n

/-- **The hypothesis is needed**: entered with a stale invalid flag, the code saturates (and counts) the first tail sample
    although it is `0.0`.  (Assumption of the property, listed in the check's evidence; the model follows the code.) -/
theorem stale_flag_breaks_it :
    lsxRintClip ⟨32767, false⟩ [.fin 0] 0 ⟨true, 0⟩ = ([-32768], 0, ⟨false, 1⟩) := by decide

/-- **`_soxr_interleave` / `_soxr_interleave_f` to int32, or to int16 without dither**: for every engine precision,
    channel count (the mono kernel or the strided one), length and input, the memory written is the per-sample reference
    in interleaved order; `clips` is exactly the number of saturated samples; the seed is untouched. -/
theorem interleave_int_spec (eng : Fmt) (t : DType) (ht : t = .i32 ∨ t = .i16) (chans : List (List Nat)) (n : Nat)
    (hlen : ∀ c ∈ chans, c.length = n) (dith : Bool) (hd : dith = false ∨ t = .i32) (seed : Seed) :
    let r := interleave eng t chans n dith seed false
    r.out = (specInt eng t chans n).1 ∧ r.clips = (specInt eng t chans n).2 ∧ r.seed = seed ∧ r.flag = false :=
  interleave_int_nodither eng t ht chans n hlen dith hd seed

/-- two channels of two samples, float32 engine, int16 out: `1.0, 40000.0 | -1.0, NaN`. -/
example : (interleave f32 .i16 [[0x3f800000, 0x471c4000], [0xbf800000, 0x7fc00000]] 2 false 0 false).out =
    [1, 0xffff, 0x7fff, 0x8000] ∧
    (interleave f32 .i16 [[0x3f800000, 0x471c4000], [0xbf800000, 0x7fc00000]] 2 false 0 false).clips = 2 := by decide

/-- element `i * ch + j` of the interleaved output is sample `i` of channel `j`. -/
theorem interleaved_order {α : Type} [Inhabited α] (chans : List (List α)) (n : Nat)
    (hlen : ∀ c ∈ chans, c.length = n) (i j : Nat) (hi : i < n) (hj : j < chans.length) :
    (interleaveLists chans n)[i * chans.length + j]? = (chans[j]?).bind (·[i]?) :=
  interleaveLists_get chans n hlen i j hi hj

/-! ## the clip counter -/

/-- **The clip counter grows by exactly the number of saturated samples** (undithered integer output, all channels). -/
theorem clip_count_exact (eng : Fmt) (t : DType) (ht : t = .i32 ∨ t = .i16) (chans : List (List Nat)) (n : Nat)
    (hlen : ∀ c ∈ chans, c.length = n) (seed : Seed) :
    (interleave eng t chans n false seed false).clips =
      (chans.map fun c => c.countP fun b => (convSample (rintMax t) (eng.decode b)).2).sum :=
  (interleave_int_nodither eng t ht chans n hlen false (Or.inl rfl) seed).2.1

/-- With dither the same holds of the dithered operands (the samples plus their dither), every length and seed. -/
theorem clip_count_exact_dither (c : Cfg) (h : 0 ≤ c.mx) (xs : List Val) (seed : Seed) (n : Nat) :
    (lsxRintClip c xs seed ⟨false, n⟩).2.2.clips =
      n + (kernelOperands c xs seed).1.countP fun d => (convSample c.mx d).2 := by
  rw [lsxRintClip_clear c h]; rfl

/-! ## integer full scale is ±1.0; scaling by the full-scale ratio is exact -/

/-- `io_spec.scale` as the real `soxr_create` computes it at unit gain (read back by `harness/conv/gen.c` for all 16
    datatype pairs) is the power of two `2^(fullScaleLog2 o − fullScaleLog2 i)` of the model. -/
theorem scale_table_pow2 :
    ∀ e ∈ Gen.scaleTable, e.2.2.1 = 1 ∧ e.2.2.2 = scaleLog2 (DType.ofCode e.1) (DType.ofCode e.2.1) := by decide

/-- The scaling stage is exact whenever the scaled value is representable in the engine's sample format. -/
theorem scale_pow2_exact (eng : Fmt) (hw : Fmt.WF eng) (j : Int) (hj : j ≠ 0) (b : Nat) (x y : Int)
    (hdec : eng.decode b = .fin x) (hy : scaleUnits x j = y) (hrep : Fmt.Rep eng y.natAbs) :
    eng.decode (scaleSample eng j b) = .fin y := scaleSample_exact eng hw j hj b x y hdec hy hrep

example : f32.decode (scaleSample f32 15 0x3f000000) = .fin (16384 * unit) := by decide +kernel

/-- int16 `v` comes out as exactly `v / 32768` (as float32 through the float32 engine, as float64 through the float64
    engine): `y · 2^15 = v · 1.0` by `full_scale_meaning`. -/
theorem full_scale_i16 (b : Nat) :
    f32.decode (passSample f32 .i16 .f32 b).1 = .fin (toSigned 16 b * ((2 ^ (U - 15) : Nat) : Int)) ∧
    f64.decode (passSample f64 .i16 .f64 b).1 = .fin (toSigned 16 b * ((2 ^ (U - 15) : Nat) : Int)) ∧
    toSigned 16 b * ((2 ^ (U - 15) : Nat) : Int) * ((2 ^ 15 : Nat) : Int) = toSigned 16 b * (unit : Int) :=
  ⟨full_scale_i16_f32 b, full_scale_i16_f64 b, full_scale_meaning _ 15 (by decide)⟩

/-- int32 `v` comes out as exactly `v / 2^31` (float64). -/
theorem full_scale_i32 (b : Nat) :
    f64.decode (passSample f64 .i32 .f64 b).1 = .fin (toSigned 32 b * ((2 ^ (U - 31) : Nat) : Int)) ∧
    toSigned 32 b * ((2 ^ (U - 31) : Nat) : Int) * ((2 ^ 31 : Nat) : Int) = toSigned 32 b * (unit : Int) :=
  ⟨full_scale_i32_f64 b, full_scale_meaning _ 31 (by decide)⟩

/-- the most negative int16 / int32 is the pattern of `-1.0f` / `-1.0`; `+16384` is `0.5f`. -/
theorem minus_full_scale_is_minus_one :
    (passSample f32 .i16 .f32 0x8000).1 = 0xbf800000 ∧ (passSample f64 .i32 .f64 0x80000000).1 = 0xbff0000000000000 ∧
    (passSample f32 .i16 .f32 0x4000).1 = 0x3f000000 := by decide +kernel

/-! ## exact wherever the target can represent the value -/

/-- int16 → float32 → int16: two passes through the library give back every `short` bit for bit, nothing saturates. -/
theorem int16_float32_roundtrip (b : Nat) :
    passSample f32 .f32 .i16 (passSample f32 .i16 .f32 b).1 = (b % 2 ^ 16, false) := roundtrip_i16_f32 b

/-- int32 → float64 → int32 likewise (float64 engine). -/
theorem int32_float64_roundtrip (b : Nat) :
    passSample f64 .f64 .i32 (passSample f64 .i32 .f64 b).1 = (b % 2 ^ 32, false) := roundtrip_i32_f64 b

/-- int16 → int32 is `v · 65536` exactly, either engine. -/
theorem int16_to_int32_exact (b : Nat) :
    passSample f32 .i16 .i32 b = (ofSigned 32 (toSigned 16 b * 65536), false) ∧
    passSample f64 .i16 .i32 b = (ofSigned 32 (toSigned 16 b * 65536), false) := ⟨pass_i16_i32_f32 b, pass_i16_i32_f64 b⟩

/-- float32 → float64 keeps the value of every pattern that is not a NaN; float32 → float64 engine → float32 returns it. -/
theorem float32_widen_exact (b : Nat) (hn : f32.decode b ≠ .nan) :
    f64.decode (Fmt.cvt f32 f64 b) = f32.decode b ∧ f32.decode (passSample f64 .f32 .f32 b).1 = f32.decode b :=
  ⟨float_widen_exact b hn, pass_f32_f32_f64 b hn⟩

example : f32.decode 0x3f800001 ≠ .nan := by decide

/-- float32 → int16 (gain `2^15`) is the reference conversion of the exact product `x · 32768`: scaled exactly, rounded to
    nearest even, saturated, counted (`Rep`: the product does not overflow float32, i.e. `|x| < 2^113`). -/
theorem float_to_int16_is_reference (b : Nat) (x : Int) (hx : f32.decode b = .fin x)
    (hrep : Fmt.Rep f32 (x.natAbs * 2 ^ 15)) :
    passSample f32 .f32 .i16 b =
      (ofSigned 16 (convSample 32767 (.fin (x * 32768))).1, (convSample 32767 (.fin (x * 32768))).2) :=
  pass_f32_i16_f32 b x hx hrep

/-- `1.0f` saturates to 32767 and is counted; `-1.0f` is exactly -32768 and is not. -/
example : passSample f32 .f32 .i16 0x3f800000 = (0x7fff, true) ∧ passSample f32 .f32 .i16 0xbf800000 = (0x8000, false) := by
  decide +kernel

/-! ## pass-through at equal rates and unit gain -/

/-- **Equal rates, unit gain, same type in and out: bit-exact pass-through**, nothing counted as clipped — int16 through
    either engine, int32 through the float64 engine, float32 through either engine (value-exact through float64, bit-exact
    through float32), float64 through the float64 engine.  (int32 through the 24-bit float32 engine and float64 through it
    are not exact and not claimed.) -/
theorem passthrough_exact (b : Nat) :
    passSample f32 .i16 .i16 b = (b % 2 ^ 16, false) ∧ passSample f64 .i16 .i16 b = (b % 2 ^ 16, false) ∧
    passSample f64 .i32 .i32 b = (b % 2 ^ 32, false) ∧
    passSample f32 .f32 .f32 b = (b % 2 ^ 32, false) ∧ passSample f64 .f64 .f64 b = (b % 2 ^ 64, false) ∧
    (f32.decode b ≠ .nan → f32.decode (passSample f64 .f32 .f32 b).1 = f32.decode b) :=
  ⟨pass_i16_i16_f32 b, pass_i16_i16_f64 b, pass_i32_i32_f64 b, pass_f32_f32_f32 b, pass_f64_f64_f64 b, pass_f32_f32_f64 b⟩

/-! ## dither -/

/-- The dither added to a sample is `k/32` LSB with `|k| ≤ 31`: strictly less than one LSB, for every state of the
    generator. -/
theorem dither_amount_bound (r : Ran) : -31 ≤ (ditherNext r).1 ∧ (ditherNext r).1 ≤ 31 := ditherNext_bound r

/-- **Total error of a dithered, unsaturated int16 sample is below 1.5 LSB** (dither `< 1`, rounding `≤ 1/2`, and the one
    `double` rounding of `src + k/32` is accounted for): `2·|out − x| < 3` in LSB. -/
theorem dither_bound (x k : Int) (hk1 : -31 ≤ k) (hk2 : k ≤ 31)
    (hc : (convSample 32767 (addDither (.fin x) k)).2 = false) :
    2 * ((convSample 32767 (addDither (.fin x) k)).1 * (unit : Int) - x).natAbs < 3 * unit :=
  dither_error 32767 (by decide) (by decide) x k hk1 hk2 hc

example : (convSample 32767 (addDither (.fin (5 * 2 ^ 1073)) 31)).2 = false := by decide +kernel

/-- The dithered kernel as a whole (flag clear on entry; every length, input, seed): there are per-sample numerators
    `|k_i| ≤ 31` with output `i` = reference conversion of `src[i] + k_i/32`, and the counter is exact. -/
theorem dithered_kernel_spec (c : Cfg) (h : 0 ≤ c.mx) (xs : List Val) (seed : Seed) (n : Nat) :
    ∃ ds : List Val, Rel₂ (DithRel c.dith) xs ds ∧
      lsxRintClip c xs seed ⟨false, n⟩ = (refOut c.mx ds, (kernelOperands c xs seed).2, ⟨false, n + refClips c.mx ds⟩) :=
  lsxRintClip_dither c h xs seed n

/-- The seed advances by two LCG steps per unrolled block plus two for the tail, also for an empty call. -/
theorem dither_seed_advance (c : Cfg) (hd : c.dith = true) (h : 0 ≤ c.mx) (xs : List Val) (seed : Seed) (n : Nat) :
    (lsxRintClip c xs seed ⟨false, n⟩).2.1 = iter (fun s => lcg (lcg s)) (numBlocks xs.length + 1) seed := by
  rw [lsxRintClip_clear c h]; exact kernelOperands_seed c hd xs seed

/-- The LCG is `seed · 1664525 + 1013904223 (mod 2^64)` with the constants read from `rint-clip.h`. -/
theorem lcg_is_mod_2_64 (s : Seed) : (lcg s).toNat = (Gen.lcgA * s.toNat + Gen.lcgC) % 2 ^ 64 := lcg_toNat s

/-- **Without dither (`SOXR_NO_DITHER`, or int32 output) the output does not depend on the seed** and leaves it alone. -/
theorem no_dither_deterministic (eng : Fmt) (t : DType) (ht : t = .i32 ∨ t = .i16) (chans : List (List Nat)) (n : Nat)
    (hlen : ∀ c ∈ chans, c.length = n) (s₁ s₂ : Seed) :
    (interleave eng t chans n false s₁ false).out = (interleave eng t chans n false s₂ false).out ∧
    (interleave eng t chans n false s₁ false).clips = (interleave eng t chans n false s₂ false).clips ∧
    (interleave eng t chans n false s₁ false).seed = s₁ := by
  have a := interleave_int_nodither eng t ht chans n hlen false (Or.inl rfl) s₁
  have b := interleave_int_nodither eng t ht chans n hlen false (Or.inl rfl) s₂
  exact ⟨a.1.trans b.1.symm, a.2.1.trans b.2.1.symm, a.2.2.1⟩

/-! ## constants generated from /repo on every run -/

/-- What `harness/conv/gen.c` read from the working tree agrees with the model: the unroll factor (observed on the real
    kernel and counted in the macro), the seed width, the saturation results for ±Inf / NaN of all four kernels families,
    `RINT_MAX`, and the libsamplerate helpers' scale. -/
theorem generated_constants :
    Gen.unroll = 16 ∧ Gen.do16Count = 16 ∧ Gen.seedBits = 64 ∧ Gen.ditherShift0 = 3 ∧
    Gen.rintMax16 = rintMax .i16 ∧ Gen.rintMax32 = rintMax .i32 ∧
    (∀ e ∈ Gen.limits,
      let mx := if e.2.1 = 32 then rintMax .i32 else rintMax .i16
      (convSample mx (.inf false)).1 = e.2.2.1 ∧ (convSample mx (.inf true)).1 = e.2.2.2.1 ∧
      (convSample mx .nan).1 = e.2.2.2.2) ∧
    lsrToFloat 15 1 = Gen.lsrShortOne ∧ lsrToFloat 31 1 = Gen.lsrIntOne := by decide +kernel

end Soxr.Conv.C11
