import SoxrModel.Conv.Model
namespace Soxr.Conv
theorem placeholder_c11 : Gen.unroll = 16 := by decide
end Soxr.Conv
