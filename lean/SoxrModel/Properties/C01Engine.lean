import SoxrModel.Properties.C12Engine
import SoxrModel.Properties.C12Fir
import Mathlib.Algebra.Ring.Defs
import Mathlib.Algebra.Order.Ring.Abs
import Mathlib.Analysis.Normed.Field.Basic
import Mathlib.Tactic.Ring
/-!
# C01 / C02 (engine half): the response of the engine model to a tone repeats with the implementation period

`Signal/Tone.lean` proves, for an abstract `(L, M)`-shift-covariant linear system, that the error of a reproduced tone over
a stream of ANY length is decided by one period of `L` output frames — which is why the checks of C01 / C02 measure one
period.  Here the same is proved about the ENGINE MODEL itself (`Cr/Data.lean` … `Cr/Shift.lean`: stage FIFOs, block
schedules, arbitrary call sequences), for every kernel that is homogeneous (`KSmul`: a gain on the window is a gain on the
output — every table-driven FIR kernel, `Properties/C12Fir.lean`): no linear-system abstraction in between.

`planShift` (the executable the driver runs on every exported plan) reports `(d, d_out, hor)`.  Then for the tone
`x[n] = zⁿ` the output stream `y` of any streaming run satisfies, beyond the horizon,

    y[j + d_out] = z^d · y[j]                                   (`tone_step_runs`, `tone_step_one_run`)

so against the same continuous-time tone at the output rate, `G·w^j` with `w^d_out = z^d`,

    y[j + d_out] − G·w^(j + d_out) = z^d · (y[j] − G·w^j)      (`tone_error_step`)

and for `|z| = 1` the error magnitude is `d_out`-periodic (`tone_error_norm_periodic`): the worst error over a stream of
any length is attained within the first `d_out` frames after the horizon (`tone_error_first_period`).
That the compiled floating-point kernels are such kernels up to rounding stays the measured part.
-/
namespace Soxr.Properties.C01Engine
open Soxr Soxr.Cr Soxr.Properties.C12Engine

variable {R : Type} [CommSemiring R]

/-- the first `N` samples of the tone `zⁿ` -/
def tone (z : R) (N : Nat) : List R := (List.range N).map (fun n => z ^ n)

@[simp] theorem tone_length (z : R) (N : Nat) : (tone z N).length = N := by simp [tone]

theorem tone_getElem? (z : R) (N n : Nat) (h : n < N) : (tone z N)[n]? = some (z ^ n) := by
  simp [tone, h]

/-- dropping `d` samples of a tone is the tone times `z^d` -/
theorem tone_drop (z : R) (N d : Nat) : (tone z (N + d)).drop d = lsmul (z ^ d) (tone z N) := by
  apply List.ext_getElem?
  intro n
  rw [List.getElem?_drop]
  by_cases h : n < N
  · rw [tone_getElem? z (N + d) (d + n) (by omega)]
    simp only [lsmul, List.getElem?_map, tone_getElem? z N n h, Option.map_some]
    rw [pow_add]
  · have h1 : (tone z (N + d))[d + n]? = none := by
      apply List.getElem?_eq_none; simp; omega
    have h2 : (lsmul (z ^ d) (tone z N))[n]? = none := by
      apply List.getElem?_eq_none; simp [lsmul]; omega
    rw [h1, h2]

theorem tone_prefix (z : R) {N N' : Nat} (h : N ≤ N') : tone z N <+: tone z N' := by
  rw [List.prefix_iff_eq_take]
  unfold tone
  rw [List.length_map, List.length_range, ← List.map_take, List.take_range, Nat.min_eq_left h]

omit [CommSemiring R] in
theorem prefix_getElem? {a b : List R} (h : a <+: b) {j : Nat} (hj : j < a.length) : b[j]? = a[j]? := by
  obtain ⟨t, rfl⟩ := h
  exact List.getElem?_append_left hj

theorem lsmul_getElem? (a : R) (l : List R) (j : Nat) : (lsmul a l)[j]? = (l[j]?).map (a * ·) := by
  simp [lsmul]

/-- **Tone step on canonical streams.**  `s`: a canonical stream of the plan for the first `N` samples of the tone, `s'`: one
    for the first `N + d`.  Beyond the horizon `s'` is `s`, `d_out` frames later, times `z^d`. -/
theorem tone_step_cinv (K : Kern R) (hK : KSmul K) (bound : Nat) (pl : Plan) (d dout hor : Nat)
    (hp : planShift bound pl = some (d, dout, hor)) (z : R) (N : Nat) (s s' : List R)
    (h1 : CInv K 0 pl (tone z N) s) (h2 : CInv K 0 pl (tone z (N + d)) s') :
    ∀ j, hor ≤ j → j < s.length → j + dout < s'.length → ∀ y, s[j]? = some y → s'[j + dout]? = some (z ^ d * y) := by
  intro j hj hjs hjs' y hy
  -- the canonical stream of `z^d · tone N`, with the same units as `s`
  -- (homogeneity runs the other way round: from a stream of the scaled input to one of the plain input)
  -- so: scale `s` by hand through the plan
  have key : ∀ (plan : Plan) (x t : List R), CInv K 0 plan x t → CInv K 0 plan (lsmul (z ^ d) x) (lsmul (z ^ d) t) := by
    intro plan
    induction plan with
    | nil => intro x t h; cases h; exact CInv.nil _
    | cons p ps ih =>
      intro x t h
      cases h with
      | @cons _ _ t' c s0 m hb hst =>
        have ht := ih x t' hb
        have hpre : List.replicate s0.occ (0 : R) ++ lsmul (z ^ d) t' = lsmul (z ^ d) (List.replicate s0.occ 0 ++ t') := by
          simp [lsmul]
        have hlen : (List.replicate s0.occ (0 : R) ++ lsmul (z ^ d) t').length = (List.replicate s0.occ (0 : R) ++ t').length := by
          simp [lsmul]
        have st : (unitSem K c s0).Stable m (List.replicate s0.occ 0 ++ lsmul (z ^ d) t') := by
          intro u hu; have := hst u hu; rw [hlen]; exact this
        have := CInv.cons (K := K) (z := (0 : R)) c s0 m ht st
        rw [hpre, G_smul_lists K hK] at this
        exact this
  have hsc := key pl _ _ h1
  have hcmp : Comparable (lsmul (z ^ d) (tone z N)) ((tone z (N + d)).drop d) := by
    rw [tone_drop]; exact Comparable.refl _
  have hsh := planShift_sound K 0 bound pl d dout hor hp _ _ _ _ hcmp hsc h2
  -- read index `j - hor` of both sides
  have hl1 : j - hor < ((lsmul (z ^ d) s).drop hor).length := by simp [lsmul]; omega
  have hl2 : j - hor < (s'.drop (hor + dout)).length := by simp; omega
  have e1 : ((lsmul (z ^ d) s).drop hor)[j - hor]? = some (z ^ d * y) := by
    rw [List.getElem?_drop, show hor + (j - hor) = j by omega, lsmul_getElem?, hy]; rfl
  have e2 : (s'.drop (hor + dout))[j - hor]? = s'[j + dout]? := by
    rw [List.getElem?_drop]; congr 1; omega
  rw [← e2]
  rcases hsh with hpre | hpre
  · rw [prefix_getElem? hpre hl1]; exact e1
  · rw [← prefix_getElem? hpre hl2]; exact e1

/-- **Tone step, any schedules.**  Two streaming runs of the freshly initialised engine over the tone, `N` and `N + d` samples
    of it, with ANY call schedules: beyond the horizon, what the longer run has produced at frame `j + d_out` is `z^d` times
    what the shorter one produced at frame `j`. -/
theorem tone_step_runs (K : Kern R) (hK : KSmul K) (owed : Nat → Nat) (plan : Plan) (hwf : PlanWF plan) (bound d dout hor : Nat)
    (hp : planShift bound plan = some (d, dout, hor)) (z : R) (N : Nat)
    (ops₁ ops₂ : List (DOp R)) (D₁ D₂ : List R) (e₁ e₂ : DEng R)
    (r₁ : DRuns K 0 owed (DEng.fresh 0 plan) ops₁ (tone z N) D₁ e₁) (r₂ : DRuns K 0 owed (DEng.fresh 0 plan) ops₂ (tone z (N + d)) D₂ e₂)
    (f₁ : e₁.fl = false) (f₂ : e₂.fl = false) :
    ∀ j, hor ≤ j → j < (D₁ ++ e₁.out).length → j + dout < (D₂ ++ e₂.out).length →
      ∀ y, (D₁ ++ e₁.out)[j]? = some y → (D₂ ++ e₂.out)[j + dout]? = some (z ^ d * y) := by
  obtain ⟨s1, p1, q1⟩ := streaming_state K 0 owed plan hwf ops₁ _ D₁ e₁ r₁ f₁
  obtain ⟨s2, p2, q2⟩ := streaming_state K 0 owed plan hwf ops₂ _ D₂ e₂ r₂ f₂
  rw [q1, q2]
  exact tone_step_cinv K hK bound plan d dout hor hp z N s1 s2 p1.toCInv p2.toCInv

/-- **Tone step inside one stream.**  The same two runs: the streams agree as far as both have got (prefix consistency), so
    inside the longer one `y[j + d_out] = z^d · y[j]` for every `j` beyond the horizon that the shorter run reached. -/
theorem tone_step_one_run (K : Kern R) (hK : KSmul K) (owed : Nat → Nat) (plan : Plan) (hwf : PlanWF plan) (bound d dout hor : Nat)
    (hp : planShift bound plan = some (d, dout, hor)) (z : R) (N : Nat)
    (ops₁ ops₂ : List (DOp R)) (D₁ D₂ : List R) (e₁ e₂ : DEng R)
    (r₁ : DRuns K 0 owed (DEng.fresh 0 plan) ops₁ (tone z N) D₁ e₁) (r₂ : DRuns K 0 owed (DEng.fresh 0 plan) ops₂ (tone z (N + d)) D₂ e₂)
    (f₁ : e₁.fl = false) (f₂ : e₂.fl = false) :
    ∀ j, hor ≤ j → j < (D₁ ++ e₁.out).length → j + dout < (D₂ ++ e₂.out).length →
      ∀ y, (D₂ ++ e₂.out)[j]? = some y → (D₂ ++ e₂.out)[j + dout]? = some (z ^ d * y) := by
  intro j hj h1 h2 y hy
  obtain ⟨s1, p1, q1⟩ := streaming_state K 0 owed plan hwf ops₁ _ D₁ e₁ r₁ f₁
  obtain ⟨s2, p2, q2⟩ := streaming_state K 0 owed plan hwf ops₂ _ D₂ e₂ r₂ f₂
  rw [q1] at h1; rw [q2] at h2 hy ⊢
  have hc := CInv_comparable K 0 plan _ _ s1 s2 p1.toCInv p2.toCInv (Or.inl (tone_prefix z (Nat.le_add_right N d)))
  have hy1 : s1[j]? = some y := by
    rcases hc with h | h
    · rw [← prefix_getElem? h h1]; exact hy
    · rw [prefix_getElem? h (by omega)]; exact hy
  exact tone_step_cinv K hK bound plan d dout hor hp z N s1 s2 p1.toCInv p2.toCInv j hj h1 h2 y hy1

/-- **Every table-driven FIR engine** (`dotKern T`, any coefficient table `T` over any commutative semiring): the tone step holds
    for it with no hypothesis on the kernels at all. -/
theorem fir_engine_tone_step (T : StageCfg → Nat → Nat → Nat → List R) (owed : Nat → Nat) (plan : Plan) (hwf : PlanWF plan)
    (bound d dout hor : Nat) (hp : planShift bound plan = some (d, dout, hor)) (z : R) (N : Nat)
    (ops₁ ops₂ : List (DOp R)) (D₁ D₂ : List R) (e₁ e₂ : DEng R)
    (r₁ : DRuns (dotKern T) 0 owed (DEng.fresh 0 plan) ops₁ (tone z N) D₁ e₁)
    (r₂ : DRuns (dotKern T) 0 owed (DEng.fresh 0 plan) ops₂ (tone z (N + d)) D₂ e₂) (f₁ : e₁.fl = false) (f₂ : e₂.fl = false) :
    ∀ j, hor ≤ j → j < (D₁ ++ e₁.out).length → j + dout < (D₂ ++ e₂.out).length →
      ∀ y, (D₂ ++ e₂.out)[j]? = some y → (D₂ ++ e₂.out)[j + dout]? = some (z ^ d * y) :=
  tone_step_one_run (dotKern T) (dotKern_smul T) owed plan hwf bound d dout hor hp z N ops₁ ops₂ D₁ D₂ e₁ e₂ r₁ r₂ f₁ f₂

/-! ## the error against the ideal output tone -/

section ring
variable {A : Type} [CommRing A]

/-- against the same continuous-time tone at the output rate (`w^d_out = z^d`, gain `G`), the error one period later is the
    error now times `z^d` -/
theorem tone_error_step (z w G y y' : A) (d dout j : Nat) (hw : w ^ dout = z ^ d) (hy : y' = z ^ d * y) :
    y' - G * w ^ (j + dout) = z ^ d * (y - G * w ^ j) := by
  rw [hy, pow_add, hw]; ring

end ring

section normed
variable {𝕜 : Type} [NormedField 𝕜]

/-- for a tone on the unit circle the error MAGNITUDE is `d_out`-periodic -/
theorem tone_error_norm_periodic (z w G y y' : 𝕜) (d dout j : Nat) (hz : ‖z‖ = 1) (hw : w ^ dout = z ^ d) (hy : y' = z ^ d * y) :
    ‖y' - G * w ^ (j + dout)‖ = ‖y - G * w ^ j‖ := by
  rw [tone_error_step z w G y y' d dout j hw hy, norm_mul, norm_pow, hz, one_pow, one_mul]

/-- **One period decides the whole stream.**  A stream `y` (as a function of the frame index, on `[0, n)`) with
    `y[j + d_out] = z^d · y[j]` for `hor ≤ j`, `j + d_out < n` — what `tone_step_one_run` gives for the engine: if the error is at
    most `ε` on the first period after the horizon, it is at most `ε` at every frame of the stream, however long. -/
theorem tone_error_first_period (z w G : 𝕜) (y : Nat → 𝕜) (d dout hor n : Nat) (hd : 0 < dout) (hz : ‖z‖ = 1) (hw : w ^ dout = z ^ d)
    (hstep : ∀ j, hor ≤ j → j + dout < n → y (j + dout) = z ^ d * y j) (ε : ℝ)
    (h0 : ∀ j, hor ≤ j → j < hor + dout → j < n → ‖y j - G * w ^ j‖ ≤ ε) :
    ∀ j, hor ≤ j → j < n → ‖y j - G * w ^ j‖ ≤ ε := by
  intro j
  induction j using Nat.strong_induction_on with
  | _ j ih =>
    intro hj hn
    by_cases hfirst : j < hor + dout
    · exact h0 j hj hfirst hn
    · obtain ⟨i, rfl⟩ : ∃ i, j = i + dout := ⟨j - dout, by omega⟩
      have hi : hor ≤ i := by omega
      rw [tone_error_norm_periodic z w G (y i) (y (i + dout)) d dout i hz hw (hstep i hi hn)]
      exact ih i (by omega) hi (by omega)

end normed

/-! ## non-vacuity: on the example plan the window-sum kernel meets the hypotheses -/

example : planShift 1000 exPlan = some (6, 2, 5) := by decide

end Soxr.Properties.C01Engine
