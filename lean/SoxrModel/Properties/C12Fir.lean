import SoxrModel.Properties.C12Engine
import Mathlib.Algebra.Ring.Defs
import Mathlib.Algebra.BigOperators.Group.List.Basic
import Mathlib.Tactic.Ring
/-!
# C12 (engine half, continued): every table-driven FIR kernel is additive and homogeneous

`superposition_runs` / `homogeneity_runs` take "the kernels are additive / homogeneous in the window" as hypotheses
(`KAdd`, `KSmul`).  What the C kernels compute in exact arithmetic is a dot product of the window with a coefficient
row chosen by the stage configuration and the phase tags (poly-fir: the row of the phase, interpolated in the
fractional phase; half-fir: the fixed half-band row; cubic: four Lagrange weights; the dft stage: row `j` of the
circular convolution with the designed filter).  `dotKern T` is that shape for an ARBITRARY table `T` over an arbitrary
commutative semiring; it satisfies both hypotheses, so the three engine theorems hold for every such engine:
`fir_engine_superposition`, `fir_engine_homogeneity` (and `shift_covariance_runs` needs no hypothesis on the kernels at
all).  That the compiled floating-point kernels are such dot products up to rounding stays the measured part.
-/
namespace Soxr.Properties.C12Engine
open Soxr Soxr.Cr

variable {R : Type} [CommSemiring R]

/-- `Σ cᵢ·wᵢ` over the common length of the two lists -/
def dot (cs w : List R) : R := (List.zipWith (· * ·) cs w).sum

/-- the kernel of a coefficient table: configuration and phase tags choose the row -/
def dotKern (T : StageCfg → Nat → Nat → Nat → List R) : Kern R := { eval := fun c p1 p2 p3 w => dot (T c p1 p2 p3) w }

theorem dot_ladd (cs : List R) : ∀ (w1 w2 : List R), w1.length = w2.length → dot cs (ladd w1 w2) = dot cs w1 + dot cs w2 := by
  induction cs with
  | nil => intro w1 w2 _; simp [dot]
  | cons c cs ih =>
    intro w1 w2 h
    cases w1 with
    | nil => cases w2 with
      | nil => simp [dot, ladd]
      | cons b u => simp at h
    | cons a t =>
      cases w2 with
      | nil => simp at h
      | cons b u =>
        simp only [List.length_cons, Nat.add_right_cancel_iff] at h
        have := ih t u h
        simp only [dot, ladd, List.zipWith_cons_cons, List.sum_cons] at this ⊢
        rw [this]; ring

theorem dot_lsmul (a : R) (cs : List R) : ∀ (w : List R), dot cs (lsmul a w) = a * dot cs w := by
  induction cs with
  | nil => intro w; simp [dot]
  | cons c cs ih =>
    intro w
    cases w with
    | nil => simp [dot, lsmul]
    | cons b t =>
      have := ih t
      simp only [dot, lsmul, List.map_cons, List.zipWith_cons_cons, List.sum_cons] at this ⊢
      rw [this]; ring

theorem dotKern_add (T : StageCfg → Nat → Nat → Nat → List R) : KAdd (dotKern T) :=
  fun c p1 p2 p3 w1 w2 h => dot_ladd (T c p1 p2 p3) w1 w2 h

theorem dotKern_smul (T : StageCfg → Nat → Nat → Nat → List R) : KSmul (dotKern T) :=
  fun c p1 p2 p3 a w => dot_lsmul a (T c p1 p2 p3) w

/-- **Superposition for every table-driven FIR engine**, any plan, any three schedules. -/
theorem fir_engine_superposition (T : StageCfg → Nat → Nat → Nat → List R) (owed : Nat → Nat) (plan : Plan) (hwf : PlanWF plan)
    (ops₁ ops₂ ops₃ : List (DOp R)) (x y D₁ D₂ D₃ : List R) (e₁ e₂ e₃ : DEng R) (hl : x.length = y.length)
    (r₁ : DRuns (dotKern T) 0 owed (DEng.fresh 0 plan) ops₁ x D₁ e₁) (r₂ : DRuns (dotKern T) 0 owed (DEng.fresh 0 plan) ops₂ y D₂ e₂)
    (r₃ : DRuns (dotKern T) 0 owed (DEng.fresh 0 plan) ops₃ (ladd x y) D₃ e₃)
    (f₁ : e₁.fl = false) (f₂ : e₂.fl = false) (f₃ : e₃.fl = false)
    (l₁ : (D₁ ++ e₁.out).length = (D₃ ++ e₃.out).length) (l₂ : (D₂ ++ e₂.out).length = (D₃ ++ e₃.out).length) :
    D₃ ++ e₃.out = ladd (D₁ ++ e₁.out) (D₂ ++ e₂.out) :=
  superposition_runs (dotKern T) (dotKern_add T) 0 (by simp) owed plan hwf ops₁ ops₂ ops₃ x y D₁ D₂ D₃ e₁ e₂ e₃ hl r₁ r₂ r₃ f₁ f₂ f₃ l₁ l₂

/-- **Homogeneity for every table-driven FIR engine** (a gain applied to the input is a gain on the output). -/
theorem fir_engine_homogeneity (T : StageCfg → Nat → Nat → Nat → List R) (a : R) (owed : Nat → Nat) (plan : Plan) (hwf : PlanWF plan)
    (ops₁ ops₂ : List (DOp R)) (x D₁ D₂ : List R) (e₁ e₂ : DEng R)
    (r₁ : DRuns (dotKern T) 0 owed (DEng.fresh 0 plan) ops₁ x D₁ e₁) (r₂ : DRuns (dotKern T) 0 owed (DEng.fresh 0 plan) ops₂ (lsmul a x) D₂ e₂)
    (f₁ : e₁.fl = false) (f₂ : e₂.fl = false) (l : (D₁ ++ e₁.out).length = (D₂ ++ e₂.out).length) :
    D₂ ++ e₂.out = lsmul a (D₁ ++ e₁.out) :=
  homogeneity_runs (dotKern T) (dotKern_smul T) 0 a (by simp) owed plan hwf ops₁ ops₂ x D₁ D₂ e₁ e₂ r₁ r₂ f₁ f₂ l

/-- a gain folded into the table (what `_soxr_init` does with `io_spec.scale`: one stage's coefficients are multiplied) is
    a gain on that kernel's output -/
theorem dot_scaled_table (a : R) (cs : List R) : ∀ (w : List R), dot (cs.map (a * ·)) w = a * dot cs w := by
  induction cs with
  | nil => intro w; simp [dot]
  | cons c cs ih =>
    intro w
    cases w with
    | nil => simp [dot]
    | cons b t =>
      have := ih t
      simp only [dot, List.map_cons, List.zipWith_cons_cons, List.sum_cons] at this ⊢
      rw [this]; ring

/-- non-vacuity: the two-tap averaging table over ℤ -/
example : dot ([1, 1] : List Int) (ladd [3, 4] [10, 20]) = dot [1, 1] [3, 4] + dot [1, 1] [10, 20] := dot_ladd _ _ _ rfl

end Soxr.Properties.C12Engine
