import SoxrModel.Properties.C12Engine
import SoxrModel.Cr.Cone
import Mathlib.Algebra.Ring.Defs
import Mathlib.Algebra.BigOperators.Group.List.Basic
import Mathlib.Tactic.Ring
/-!
# C12 (engine half, continued): every table-driven FIR kernel is additive and homogeneous

`superposition_runs` / `homogeneity_runs` take "the kernels are additive / homogeneous in the window" as hypotheses
(`KAdd`, `KSmul`).  What the C kernels compute in exact arithmetic is a dot product of the window with a coefficient
row chosen by the stage configuration and the phase tags (poly-fir: the row of the phase, interpolated in the
fractional phase; half-fir: the fixed half-band row; cubic: four Lagrange weights; the dft stage: row `j` of the
circular convolution with the designed filter).  `dotKern T` is that shape for an ARBITRARY table `T` over an arbitrary
commutative semiring; it satisfies both hypotheses, so the three engine theorems hold for every such engine:
`fir_engine_superposition`, `fir_engine_homogeneity` (and `shift_covariance_runs` needs no hypothesis on the kernels at
all).  That the compiled floating-point kernels are such dot products up to rounding stays the measured part.
-/
namespace Soxr.Properties.C12Engine
open Soxr Soxr.Cr

variable {R : Type} [CommSemiring R]

/-- `Σ cᵢ·wᵢ` over the common length of the two lists -/
def dot (cs w : List R) : R := (List.zipWith (· * ·) cs w).sum

/-- the kernel of a coefficient table: configuration and phase tags choose the row -/
def dotKern (T : StageCfg → Nat → Nat → Nat → List R) : Kern R := { eval := fun c p1 p2 p3 w => dot (T c p1 p2 p3) w }

theorem dot_ladd (cs : List R) : ∀ (w1 w2 : List R), w1.length = w2.length → dot cs (ladd w1 w2) = dot cs w1 + dot cs w2 := by
  induction cs with
  | nil => intro w1 w2 _; simp [dot]
  | cons c cs ih =>
    intro w1 w2 h
    cases w1 with
    | nil => cases w2 with
      | nil => simp [dot, ladd]
      | cons b u => simp at h
    | cons a t =>
      cases w2 with
      | nil => simp at h
      | cons b u =>
        simp only [List.length_cons, Nat.add_right_cancel_iff] at h
        have := ih t u h
        simp only [dot, ladd, List.zipWith_cons_cons, List.sum_cons] at this ⊢
        rw [this]; ring

theorem dot_lsmul (a : R) (cs : List R) : ∀ (w : List R), dot cs (lsmul a w) = a * dot cs w := by
  induction cs with
  | nil => intro w; simp [dot]
  | cons c cs ih =>
    intro w
    cases w with
    | nil => simp [dot, lsmul]
    | cons b t =>
      have := ih t
      simp only [dot, lsmul, List.map_cons, List.zipWith_cons_cons, List.sum_cons] at this ⊢
      rw [this]; ring

theorem dotKern_add (T : StageCfg → Nat → Nat → Nat → List R) : KAdd (dotKern T) :=
  fun c p1 p2 p3 w1 w2 h => dot_ladd (T c p1 p2 p3) w1 w2 h

theorem dotKern_smul (T : StageCfg → Nat → Nat → Nat → List R) : KSmul (dotKern T) :=
  fun c p1 p2 p3 a w => dot_lsmul a (T c p1 p2 p3) w

/-- **Superposition for every table-driven FIR engine**, any plan, any three schedules. -/
theorem fir_engine_superposition (T : StageCfg → Nat → Nat → Nat → List R) (owed : Nat → Nat) (plan : Plan) (hwf : PlanWF plan)
    (ops₁ ops₂ ops₃ : List (DOp R)) (x y D₁ D₂ D₃ : List R) (e₁ e₂ e₃ : DEng R) (hl : x.length = y.length)
    (r₁ : DRuns (dotKern T) 0 owed (DEng.fresh 0 plan) ops₁ x D₁ e₁) (r₂ : DRuns (dotKern T) 0 owed (DEng.fresh 0 plan) ops₂ y D₂ e₂)
    (r₃ : DRuns (dotKern T) 0 owed (DEng.fresh 0 plan) ops₃ (ladd x y) D₃ e₃)
    (f₁ : e₁.fl = false) (f₂ : e₂.fl = false) (f₃ : e₃.fl = false)
    (l₁ : (D₁ ++ e₁.out).length = (D₃ ++ e₃.out).length) (l₂ : (D₂ ++ e₂.out).length = (D₃ ++ e₃.out).length) :
    D₃ ++ e₃.out = ladd (D₁ ++ e₁.out) (D₂ ++ e₂.out) :=
  superposition_runs (dotKern T) (dotKern_add T) 0 (by simp) owed plan hwf ops₁ ops₂ ops₃ x y D₁ D₂ D₃ e₁ e₂ e₃ hl r₁ r₂ r₃ f₁ f₂ f₃ l₁ l₂

/-- **Homogeneity for every table-driven FIR engine** (a gain applied to the input is a gain on the output). -/
theorem fir_engine_homogeneity (T : StageCfg → Nat → Nat → Nat → List R) (a : R) (owed : Nat → Nat) (plan : Plan) (hwf : PlanWF plan)
    (ops₁ ops₂ : List (DOp R)) (x D₁ D₂ : List R) (e₁ e₂ : DEng R)
    (r₁ : DRuns (dotKern T) 0 owed (DEng.fresh 0 plan) ops₁ x D₁ e₁) (r₂ : DRuns (dotKern T) 0 owed (DEng.fresh 0 plan) ops₂ (lsmul a x) D₂ e₂)
    (f₁ : e₁.fl = false) (f₂ : e₂.fl = false) (l : (D₁ ++ e₁.out).length = (D₂ ++ e₂.out).length) :
    D₂ ++ e₂.out = lsmul a (D₁ ++ e₁.out) :=
  homogeneity_runs (dotKern T) (dotKern_smul T) 0 a (by simp) owed plan hwf ops₁ ops₂ x D₁ D₂ e₁ e₂ r₁ r₂ f₁ f₂ l

/-- a gain folded into the table (what `_soxr_init` does with `io_spec.scale`: one stage's coefficients are multiplied) is
    a gain on that kernel's output -/
theorem dot_scaled_table (a : R) (cs : List R) : ∀ (w : List R), dot (cs.map (a * ·)) w = a * dot cs w := by
  induction cs with
  | nil => intro w; simp [dot]
  | cons c cs ih =>
    intro w
    cases w with
    | nil => simp [dot]
    | cons b t =>
      have := ih t
      simp only [dot, List.map_cons, List.zipWith_cons_cons, List.sum_cons] at this ⊢
      rw [this]; ring

/-! ## DC gain on the engine -/

theorem dot_const (v : R) : ∀ (cs : List R) (n : Nat), cs.length ≤ n → dot cs (List.replicate n v) = v * cs.sum := by
  intro cs
  induction cs with
  | nil => intro n _; simp [dot]
  | cons c cs ih =>
    intro n h
    obtain ⟨k, rfl⟩ : ∃ k, n = k + 1 := ⟨n - 1, by simp at h; omega⟩
    have := ih k (by simpa using h)
    simp only [dot, List.replicate_succ, List.zipWith_cons_cons, List.sum_cons] at this ⊢
    rw [this]; ring

/-- every coefficient row of the stage fits its window and sums to one (unity DC gain of the stage) -/
def RowsUnit (T : StageCfg → Nat → Nat → Nat → List R) (c : StageCfg) (s0 : StageSt) : Prop :=
  ∀ u p1 p2 p3, (T c p1 p2 p3).length ≤ ulen c s0 u ∧ (T c p1 p2 p3).sum = 1

theorem ufix_of_rows (T : StageCfg → Nat → Nat → Nat → List R) (c : StageCfg) (s0 : StageSt) (h : RowsUnit T c s0) (v : R) :
    UFix (unitSem (dotKern T) c s0) v := by
  intro u y hy
  have hl : (unitSem (dotKern T) c s0).len u = ulen c s0 u := unitSem_len _ c s0 u
  rw [hl] at hy
  have key : ∀ p1 p2 p3, dot (T c p1 p2 p3) (List.replicate (ulen c s0 u) v) = v := by
    intro p1 p2 p3
    obtain ⟨a, b⟩ := h u p1 p2 p3
    rw [dot_const v _ _ a, b, mul_one]
  unfold unitSem at hy
  cases hk : c.kind <;> simp only [hk, dotKern, List.mem_cons, List.mem_map, List.not_mem_nil, or_false] at hy
  · rw [hy]; exact key _ _ _
  · rw [hy]; exact key _ _ _
  · obtain ⟨j, _, rfl⟩ := hy; exact key _ _ _

theorem planFix_of_rows (T : StageCfg → Nat → Nat → Nat → List R) (v : R) : ∀ (plan : Plan),
    (∀ p ∈ plan, RowsUnit T p.1 p.2) → PlanFix (dotKern T) v plan := by
  intro plan
  induction plan with
  | nil => intro _; trivial
  | cons p ps ih =>
    intro h
    obtain ⟨c, s0⟩ := p
    exact ⟨ufix_of_rows T c s0 (h (c, s0) List.mem_cons_self) v, ih (fun q hq => h q (List.mem_cons_of_mem _ hq))⟩

/-- **Unity DC gain of the engine.**  Every stage's rows sum to one; the input is the constant `v` on the cone of the
    output interval `[lo, hi]`, which lies beyond start-up (`coneS` — executable — is defined only when no window of the
    cone reaches into a zero preload): then a streaming run with ANY call schedule has delivered `v` on `[lo, hi]`. -/
theorem dc_gain_runs (T : StageCfg → Nat → Nat → Nat → List R) (v : R) (owed : Nat → Nat) (plan : Plan) (hwf : PlanWF plan)
    (hrows : ∀ p ∈ plan, RowsUnit T p.1 p.2) (fuel lo hi a b : Nat) (hc : coneS fuel plan lo hi = some (a, b))
    (ops : List (DOp R)) (x D : List R) (e : DEng R) (r : DRuns (dotKern T) 0 owed (DEng.fresh 0 plan) ops x D e) (f : e.fl = false)
    (hx : ∀ i, a ≤ i → i ≤ b → x[i]? = some v) :
    ∀ j, lo ≤ j → j ≤ hi → j < (D ++ e.out).length → (D ++ e.out)[j]? = some v := by
  obtain ⟨src, hp, hsrc⟩ := streaming_state (dotKern T) 0 owed plan hwf ops x D e r f
  rw [hsrc]
  exact coneS_const (dotKern T) 0 v fuel plan lo hi a b hc (planFix_of_rows T v plan hrows) x src hp.toCInv hx

/-- non-vacuity of `dc_gain_runs`: on the example plan the strict cone of output frame 20 is the input interval
    [47, 71] (frame 3 is still inside start-up: `none`) -/
example : coneS 1000 exPlan 20 20 = some (47, 71) ∧ coneS 1000 exPlan 3 3 = none := by decide

/-- non-vacuity: the two-tap averaging table over ℤ -/
example : dot ([1, 1] : List Int) (ladd [3, 4] [10, 20]) = dot [1, 1] [3, 4] + dot [1, 1] [10, 20] := dot_ladd _ _ _ rfl

end Soxr.Properties.C12Engine
