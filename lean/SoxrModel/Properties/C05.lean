import SoxrModel.Cr.Model
namespace Soxr.Properties.C05
end Soxr.Properties.C05
