import SoxrModel.Cr.Schedule
import SoxrModel.Cr.ApiData
import SoxrModel.Properties.C03
import SoxrModel.Cr.Cone
/-!
# C05 Schedule invariance: streamed, pulled and one-shot output are bit-identical

Model: the constant-rate engine on SAMPLES (`Cr/Data.lean`, `Cr/DataPipe.lean`): FIFOs are lists of an arbitrary
sample type `α`, every numeric kernel (FIR dot product, DFT block convolution, cubic) is an ARBITRARY function
`K.eval (stage configuration, phase tags, window)` — so equality of outputs below is equality of whatever the real
kernels compute (bit patterns included), provided each C kernel is a deterministic function of its window and phase,
the one fact about kernels this model assumes (the check's falsifier compares FNV hashes of the real output under
different schedules).  Control (how much each stage consumes and produces, when it runs, every FIFO occupancy, clock
and `input_size`) is *by construction* the count model's (`dsp_proj`, `dprocLoop_proj`, `DEng.*_proj` below), and the
count model is tied to `/repo` by the per-call correspondence of `checks/c03.py` / `c05.py`.

Quantifiers: every well-formed plan (`PlanWF`, decidable, evaluated by the driver on every plan the real planner
exports), every kernel, every input stream, **every** interleaving of input blocks, output requests of any size
(0 included), end-of-input and calls after it.  `soxr_process`, `soxr_output` with an input function (any supply
pattern) and `soxr_oneshot` all drive the engine through exactly these operations (`Cr/Model.lean`: `Api.input`,
`Api.outputNoCb`, `pullLoop`), so they are instances of `DOp` lists.
-/
namespace Soxr.Properties.C05
open Soxr Soxr.Cr

variable {α : Type}

/-- **Prefix consistency.**  Take ANY two runs of a freshly initialised engine over the same input stream `xs` —
    each accepts a prefix of `xs` (all of it if it has signalled end-of-input) in blocks of any sizes, with output
    requests of any sizes interleaved in any way.  Then what one has delivered is a prefix of what the other has
    delivered (or vice versa): the delivered stream is a function of the input stream and the plan only. -/
theorem prefix_consistency (K : Kern α) (z : α) (owed : Nat → Nat) (plan : Plan) (hwf : PlanWF plan) (xs : List α)
    (ops₁ ops₂ : List (DOp α)) (F₁ F₂ D₁ D₂ : List α) (e₁ e₂ : DEng α)
    (r₁ : DRuns K z owed (DEng.fresh z plan) ops₁ F₁ D₁ e₁) (r₂ : DRuns K z owed (DEng.fresh z plan) ops₂ F₂ D₂ e₂)
    (o₁ : OverStream xs F₁ e₁.fl) (o₂ : OverStream xs F₂ e₂.fl) : D₁ <+: D₂ ∨ D₂ <+: D₁ :=
  runs_comparable K z owed plan hwf xs ops₁ ops₂ F₁ F₂ D₁ D₂ e₁ e₂ r₁ r₂ o₁ o₂

/-- … in particular two runs that have delivered equally many samples have delivered the same samples. -/
theorem same_length_same_samples (K : Kern α) (z : α) (owed : Nat → Nat) (plan : Plan) (hwf : PlanWF plan) (xs : List α)
    (ops₁ ops₂ : List (DOp α)) (F₁ F₂ D₁ D₂ : List α) (e₁ e₂ : DEng α)
    (r₁ : DRuns K z owed (DEng.fresh z plan) ops₁ F₁ D₁ e₁) (r₂ : DRuns K z owed (DEng.fresh z plan) ops₂ F₂ D₂ e₂)
    (o₁ : OverStream xs F₁ e₁.fl) (o₂ : OverStream xs F₂ e₂.fl) (hlen : D₁.length = D₂.length) : D₁ = D₂ :=
  (runs_comparable K z owed plan hwf xs ops₁ ops₂ F₁ F₂ D₁ D₂ e₁ e₂ r₁ r₂ o₁ o₂).eq_of_length hlen

/-- **Schedule invariance.**  Two complete runs over `xs` — any streaming histories `s₁`, `s₂` that accept all of
    `xs` (never early: C03), end-of-input, then any further calls `t₁`, `t₂` until nothing is owed — deliver exactly
    the same `owed |xs|` samples. -/
theorem schedule_invariance (K : Kern α) (z : α) (owed : Nat → Nat) (plan : Plan) (hwf : PlanWF plan) (xs : List α)
    (s₁ s₂ t₁ t₂ : List (DOp α)) (D₁ D₂ F₁' F₂' D₁' D₂' : List α) (e₁ e₂ e₁' e₂' : DEng α)
    (n₁ : NoFlush s₁) (n₂ : NoFlush s₂)
    (r₁ : DRuns K z owed (DEng.fresh z plan) s₁ xs D₁ e₁) (r₂ : DRuns K z owed (DEng.fresh z plan) s₂ xs D₂ e₂)
    (ne₁ : D₁.length ≤ owed xs.length) (ne₂ : D₂.length ≤ owed xs.length)
    (d₁ : DRuns K z owed (e₁.flush owed) t₁ F₁' D₁' e₁') (d₂ : DRuns K z owed (e₂.flush owed) t₂ F₂' D₂' e₂')
    (c₁ : e₁'.sout = 0) (c₂ : e₂'.sout = 0) :
    D₁ ++ D₁' = D₂ ++ D₂' ∧ (D₁ ++ D₁').length = owed xs.length :=
  complete_runs_equal K z owed plan hwf xs s₁ s₂ t₁ t₂ D₁ D₂ F₁' F₂' D₁' D₂' e₁ e₂ e₁' e₂' n₁ n₂ r₁ r₂ ne₁ ne₂ d₁ d₂ c₁ c₂

/-- **Schedule invariance without the never-early hypothesis.**  For a plan with compensated latency whose windows
    reach their kernels' centres and whose post-context is at least half an output period (decidable facts about the
    exported integers: `PlanLatOK`, `PlanEarlyOK`, `hpost`; evaluated by the driver on every plan), `never_early_round`
    (C03) supplies `|D| ≤ ⌊N/rate + ½⌋`; so if the engine's `owed N` is not below that exact rounding, ANY two
    complete runs deliver exactly the same `owed N` samples. -/
theorem schedule_invariance_plan (K : Kern α) (z : α) (owed : Nat → Nat) (lp : List LStage)
    (hwf : ∀ x ∈ lp, StageWF x.cfg x.s0) (he : PlanEarlyOK lp) (hlat : PlanLatOK false lp)
    (hpost : rateOf (lp.map tstage) / 2 ≤ 1 + offsetOf (lp.map tstage) + margOf lp) (hpos : 0 < rateOf (lp.map tstage))
    (xs : List α) (howed : ⌊(xs.length : ℚ) / rateOf (lp.map tstage) + 1 / 2⌋₊ ≤ owed xs.length)
    (s₁ s₂ t₁ t₂ : List (DOp α)) (D₁ D₂ F₁' F₂' D₁' D₂' : List α) (e₁ e₂ e₁' e₂' : DEng α)
    (n₁ : NoFlush s₁) (n₂ : NoFlush s₂)
    (r₁ : DRuns K z owed (DEng.fresh z (lp.map LStage.toPlan)) s₁ xs D₁ e₁)
    (r₂ : DRuns K z owed (DEng.fresh z (lp.map LStage.toPlan)) s₂ xs D₂ e₂)
    (d₁ : DRuns K z owed (e₁.flush owed) t₁ F₁' D₁' e₁') (d₂ : DRuns K z owed (e₂.flush owed) t₂ F₂' D₂' e₂')
    (c₁ : e₁'.sout = 0) (c₂ : e₂'.sout = 0) :
    D₁ ++ D₁' = D₂ ++ D₂' ∧ (D₁ ++ D₁').length = owed xs.length := by
  have hpw : PlanWF (lp.map LStage.toPlan) := by
    intro p hp
    obtain ⟨y, hy, rfl⟩ := List.mem_map.mp hp
    exact hwf y hy
  have f1 := (stream_counters K z owed s₁ _ _ _ _ rfl n₁ r₁).1
  have f2 := (stream_counters K z owed s₂ _ _ _ _ rfl n₂ r₂).1
  have b1 := (Soxr.Properties.C03.never_early_round K z owed lp hwf he hlat hpost hpos s₁ xs D₁ e₁ r₁ f1).2
  have b2 := (Soxr.Properties.C03.never_early_round K z owed lp hwf he hlat hpost hpos s₂ xs D₂ e₂ r₂ f2).2
  exact complete_runs_equal K z owed _ hpw xs s₁ s₂ t₁ t₂ D₁ D₂ F₁' F₂' D₁' D₂' e₁ e₂ e₁' e₂' n₁ n₂ r₁ r₂
    (Nat.le_trans b1 howed) (Nat.le_trans b2 howed) d₁ d₂ c₁ c₂

/-- **Every output sample is the canonical function of the input** (engine law E3): at any point of any run, what has
    been delivered followed by what waits in the output FIFO is the canonical stream of the pipeline for the input
    accepted so far (zero-extended once flushing), each stage's history being its zero preload followed by the
    canonical output of the stage below. -/
theorem delivered_is_canonical (K : Kern α) (z : α) (owed : Nat → Nat) (plan : Plan) (hwf : PlanWF plan)
    (ops : List (DOp α)) (F D : List α) (e : DEng α) (r : DRuns K z owed (DEng.fresh z plan) ops F D e) :
    ∃ pad src, IsPad z e.fl pad ∧ PInv K z plan e.stages (F ++ pad) src ∧ D ++ e.out = src := by
  have := druns_inv K z owed plan ops _ _ _ _ _ _ (fresh_einv K z plan hwf) r
  simp only [List.nil_append] at this
  exact this

/-- a newly created resampler object (an input function may or may not be registered) -/
def freshApi (z : α) (plan : Plan) (hasFn : Bool) (maxIlen : Nat) : DApi α :=
  { eng := DEng.fresh z plan, hasFn := hasFn, maxIlen := maxIlen }

/-- **Push, pull and one-shot are the same function of the input stream.**  Take ANY two sequences of API calls on
    newly created resamplers of the same plan — `soxr_process` with or without `idone`, with or without an
    end-of-input request, `soxr_output` against an input function that answers with ANY script of full / short / empty
    supplies, end-of-input or failure, in any mix, `soxr_oneshot` being the one-call case — whose accepted input runs
    over the same stream `xs`.  What one has delivered is a prefix of what the other has delivered; with equally many
    frames delivered the samples are identical. -/
theorem pull_push_oneshot (K : Kern α) (z : α) (owed : Nat → Nat) (plan : Plan) (hwf : PlanWF plan) (xs : List α)
    (fn₁ fn₂ : Bool) (mi₁ mi₂ : Nat) (calls₁ calls₂ : List (ACall α)) (F₁ F₂ D₁ D₂ : List α) (a₁ a₂ : DApi α)
    (r₁ : ApiRuns K z owed (freshApi z plan fn₁ mi₁) calls₁ F₁ D₁ a₁) (r₂ : ApiRuns K z owed (freshApi z plan fn₂ mi₂) calls₂ F₂ D₂ a₂)
    (o₁ : OverStream xs F₁ a₁.eng.fl) (o₂ : OverStream xs F₂ a₂.eng.fl) :
    (D₁ <+: D₂ ∨ D₂ <+: D₁) ∧ (D₁.length = D₂.length → D₁ = D₂) := by
  have s0 : ∀ fn mi, Sync (freshApi z plan fn mi : DApi α) := by
    intro fn mi hh; simp [freshApi, DEng.fresh] at hh
  obtain ⟨ops1, e1, _⟩ := api_runs_engine K z owed calls₁ _ _ _ _ r₁ (s0 fn₁ mi₁)
  obtain ⟨ops2, e2, _⟩ := api_runs_engine K z owed calls₂ _ _ _ _ r₂ (s0 fn₂ mi₂)
  have hc := runs_comparable K z owed plan hwf xs ops1 ops2 F₁ F₂ D₁ D₂ _ _ e1 e2 o₁ o₂
  exact ⟨hc, fun hl => hc.eq_of_length hl⟩

/-- **Locality (the stream is a function of the input, and of finitely much of it).**  `coneI` (executable; the driver
    evaluates it on exported plans) maps an interval `[lo, hi]` of output frames to an interval `[a, b]` of input frames.
    Two runs of the freshly initialised engine with ANY call schedules, still streaming, over inputs that agree on
    `[a, b]`: whatever each has delivered (or holds ready) agrees on `[lo, hi]` — for every kernel.  No input frame
    after `b` (causality, with the plan's latency) and none before `a` (finite memory) matters. -/
theorem locality_runs (K : Kern α) (z : α) (owed : Nat → Nat) (plan : Plan) (hwf : PlanWF plan) (fuel lo hi a b : Nat)
    (hc : coneI fuel plan lo hi = some (a, b))
    (ops₁ ops₂ : List (DOp α)) (x x' D₁ D₂ : List α) (e₁ e₂ : DEng α)
    (r₁ : DRuns K z owed (DEng.fresh z plan) ops₁ x D₁ e₁) (r₂ : DRuns K z owed (DEng.fresh z plan) ops₂ x' D₂ e₂)
    (f₁ : e₁.fl = false) (f₂ : e₂.fl = false) (hag : ∀ i, a ≤ i → i ≤ b → x[i]? = x'[i]?) :
    ∀ j, lo ≤ j → j ≤ hi → j < (D₁ ++ e₁.out).length → j < (D₂ ++ e₂.out).length → (D₁ ++ e₁.out)[j]? = (D₂ ++ e₂.out)[j]? := by
  have st : ∀ (ops : List (DOp α)) (F D : List α) (e : DEng α), DRuns K z owed (DEng.fresh z plan) ops F D e → e.fl = false →
      CInv K z plan F (D ++ e.out) := by
    intro ops F D e r hf
    have i := druns_inv K z owed plan ops _ _ _ _ _ _ (fresh_einv K z plan hwf) r
    simp only [List.nil_append] at i
    obtain ⟨pad, src, hpad, hp, hsrc⟩ := i
    have : pad = [] := hpad.2 hf
    subst this
    rw [List.append_nil] at hp
    rw [hsrc]; exact hp.toCInv
  exact coneI_sound K z fuel plan lo hi a b hc x x' _ _ (st ops₁ x D₁ e₁ r₁ f₁) (st ops₂ x' D₂ e₂ r₂ f₂) hag

/-- **The tie.**  Forgetting the samples, the data-level engine *is* the count model that the correspondence check
    compares with the real code call by call: same stage scheduling, same counts, same clocks. -/
theorem control_is_the_count_model (K : Kern α) (z : α) :
    (∀ fl fuel (l : List (DStage α)) done, (dsp K z fl fuel l done).map projRes = sp fl fuel (l.map DStage.toStage) done) ∧
    (∀ fuel (e : DEng α) olen, (e.process K z fuel olen).map DEng.toEng = e.toEng.process fuel olen) ∧
    (∀ (e : DEng α) xs, (e.input xs).toEng = e.toEng.input xs.length) ∧
    (∀ owed (e : DEng α), (e.flush owed).toEng = e.toEng.flush owed) ∧
    (∀ (e : DEng α) n0, (e.output n0).1.toEng = (e.toEng.output n0).1 ∧
        ((e.output n0).2.length : Int) = max 0 (e.toEng.output n0).2) :=
  ⟨fun fl fuel l done => dsp_proj K z fl fuel l done, fun fuel e olen => DEng.process_proj K z fuel e olen,
   DEng.input_proj, DEng.flush_proj, DEng.output_proj⟩

/-- … and the API layer on samples is the count-level API model (`Api`, `pullLoop` of `Cr/Model.lean`) that the
    correspondence replays against every real `soxr_process` / `soxr_output` call (request log aside). -/
theorem api_is_the_count_model (K : Kern α) (z : α) (num : Num) :
    (∀ fuel (a : DApi α) len, (a.outputNoCb K z num.owed fuel len).map (fun r => (r.1.toApi, r.2.length)) = a.toApi.outputNoCb num fuel len) ∧
    (∀ (a : DApi α) xs, (a.input xs).toApi = a.toApi.input xs.length) ∧
    (∀ fuel len0 ilen k (a : DApi α) olen out0 script reqs,
      (dpullLoop K z num.owed fuel len0 k a olen out0 script).map (fun r => (r.1.toApi, r.2.1.length, r.2.2.map DSupply.toSupply)) =
      (pullLoop num fuel len0 ilen k a.toApi olen out0.length (script.map DSupply.toSupply) reqs).map (fun r => (r.1, r.2.1, r.2.2.1))) :=
  ⟨fun fuel a len => outputNoCb_proj K z num fuel a len, input_proj,
   fun fuel len0 ilen k a olen out0 script reqs => dpullLoop_proj K z num fuel len0 ilen k a olen out0 script reqs⟩

/-! ## non-vacuity: a concrete plan, kernel and two different schedules -/

/-- a 2:1 half-band stage followed by a 3:2 clocked sampler; the "kernel" adds up its window and tags the phase -/
def exPlan : Plan :=
  [ ({ kind := .clocked, prePost := 3, den := 2, step := 3, taps := 4 }, { occ := 1, clk := 1, isz := 8 }),
    ({ kind := .half, prePost := 4 }, { occ := 2, isz := 8 }) ]
def exK : Kern Int := { eval := fun c ph _ _ w => w.sum * 10 + ph + (if c.kind = .half then 5 else 0) }
def exXs : List Int := [1, 2, 3, 4, 5, 6, 7, 8, 9, 10, 11, 12, 13, 14, 15, 16, 17, 18, 19, 20]
def exOwed : Nat → Nat := fun n => n / 3

example : PlanWF exPlan := by decide

/-- one-shot: everything in one block, one big request after end-of-input -/
def runOps (ops : List (DOp Int)) : Option (List Int × DEng Int) :=
  ops.foldl (fun acc op => match acc with
    | none => none
    | some (D, e) => match op with
      | .feed xs => some (D, e.input xs)
      | .flush => some (D, e.flush exOwed)
      | .take n => match e.process exK 0 100 n with
        | none => none
        | some e1 => some (D ++ (e1.output n).2, (e1.output n).1)) (some ([], DEng.fresh 0 exPlan))

def oneshot : List (DOp Int) := [.feed exXs, .flush, .take 100]
def chunked : List (DOp Int) :=
  [.take 3, .feed (exXs.take 7), .take 0, .take 1, .feed ((exXs.drop 7).take 1), .take 5, .feed (exXs.drop 8), .take 2,
   .flush, .take 1, .take 0, .take 2, .take 100]

example : (runOps oneshot).map (·.1) = (runOps chunked).map (·.1) ∧ ((runOps oneshot).map (·.1.length)) = some (exOwed 20) := by
  decide

/-- the three calling styles on the concrete plan: one-shot, push in odd blocks with `idone`, pull with short supplies -/
def apiRun (a : DApi Int) (calls : List (ACall Int)) : Option (List Int × DApi Int) :=
  calls.foldl (fun acc c => match acc with
    | none => none
    | some (D, a) => match c with
      | .process inp fr cl olen script => match a.process exK 0 exOwed 100 inp fr cl olen script with
        | none => none
        | some (a2, _, out, _) => some (D ++ out, a2)
      | .output len0 script => match a.output exK 0 exOwed 100 len0 script with
        | none => none
        | some (a2, out, _) => some (D ++ out, a2)
      | .signalEnd => some (D, a.signalEnd exOwed)) (some ([], a))

def callsOneshot : List (ACall Int) := [.process (some exXs) true none 100 []]
def callsPush : List (ACall Int) :=
  [.process (some (exXs.take 7)) false (some 7) 2 [], .process (some ((exXs.drop 7).take 5)) false none 0 [],
   .process (some (exXs.drop 12)) false none 3 [], .signalEnd, .process (some []) false none 1 [], .process none false none 100 []]
def callsPull : List (ACall Int) :=
  [.output 2 [.data (exXs.take 3), .data ((exXs.drop 3).take 1)], .output 100 [.data ((exXs.drop 4).take 9), .data (exXs.drop 13), .eof]]

example : (apiRun (freshApi 0 exPlan false 0) callsOneshot).map (·.1) = (apiRun (freshApi 0 exPlan false 0) callsPush).map (·.1) ∧
    (apiRun (freshApi 0 exPlan false 0) callsOneshot).map (·.1) = (apiRun (freshApi 0 exPlan true 64) callsPull).map (·.1) ∧
    (apiRun (freshApi 0 exPlan false 0) callsOneshot).map (·.1.length) = some (exOwed 20) := by
  decide

/-- non-vacuity of `locality_runs`: on the concrete plan output frame 3 depends on the input frames 7 … 15 only -/
example : coneI 100 exPlan 3 3 = some (7, 15) ∧ coneI 100 exPlan 0 0 = some (0, 5) := by decide

end Soxr.Properties.C05
