import SoxrModel.Properties.C03
import SoxrModel.Properties.C15
import SoxrModel.Phase.Bridge
import SoxrModel.Phase.CrBridge
import SoxrModel.Cr.TimeLemmas
import SoxrModel.Phase.Generated
/-!
# C14 The phase setting changes phase only

What Lean carries (the models: `Phase/Model.lean` — selection step of `filter.c:lsx_fir_to_phase`, `lsx_make_lpf`
index structure, `cr.c:dft_stage_init` arithmetic; `Cr/Model.lean` — the count model of the engine):

* **bookkeeping is phase-independent** (`length_phase_independent`, `delay_phase_independent`, `init_stage_wf`): the phase
  setting reaches the engine's control only through `num_taps`, `preload` and `at` of the dft stages, and for *every*
  value of those that `dft_stage_init` can produce the stage is well-formed, so output length, rate and the delay
  relation are those of C03 / C15 — the same for two plans that differ in nothing but the phase.
* **mirror law** (`mirror`): over the *same* cepstral result (opaque: FFTs, `atan2`, `exp` …; it depends on the phase only
  through `phase1`, which is the same for `p` and `100 - p`), the filter for `100 - p` is the filter for `p` reversed and
  the peak position is mirrored: `post_len(100 - p) = len - 1 - post_len(p)`.
* **linear phase is centred and symmetric** (`linear_centred`, `linear_symmetric`, `makeLpf_symmetric`,
  `linear_design_centred`): `post_peak = (num_taps - 1)/2`, `num_taps` odd, tap `j` = tap `n-1-j`.
* **the block-alignment clause of the frequency-domain up-sampling path** (`FDomainOK`: `L ∣ block_len` for power-of-two
  `L`): since the repair of finding F1 (trailing zeros after the phase transform, `tapPad`) it holds for EVERY phase response
  and every power-of-two `L` (`block_aligned_all_phases`; linear phase additionally has `at = 0` and `L·preload = post_peak`,
  `linear_block_aligned`).  `f1_historical_misaligned` keeps the witness of the finding: the arithmetic *without* the padding
  step (`dftStageInitPreF1`) on the plan the planner exported for HQ 1→128 phase 0 violates the clause, the code as it is
  does not.  `fd_rate_exact_iff` says what the clause buys: the stage's rate is exactly `L` iff it holds.

* **the stage meets the hypotheses of the constant-rate theorems** (`dft_stage_init_gives_wf_stage`, `…_pow2_sizes`,
  `…_latency`, `…_linear_time_aligned`, `…_linear_early_ok`; `Phase/CrBridge.lean`): the dft clause of `StageWF`, `DftShapeOK`,
  `LatOK`, `EarlyOK` are derived from the model of `dft_stage_init` instead of being evaluated per exported plan; what
  remains hypothesis is listed there (facts about `set_dft_length`, the sizes of `L`, `M`, the planner's call sites).

What Lean does not carry: that the cepstral transform leaves `|H|` unchanged (floating point; measured by the falsifier),
and the end-to-end mirror / symmetry of the multi-stage response (measured).  `Goal_magnitude_preserved` is stated, not claimed.
-/
namespace Soxr.Properties.C14
open Soxr Soxr.Cr Soxr.Phase
open Soxr.Properties

/-! ## (a) bookkeeping -/

/-- **Every stage `dft_stage_init` can leave is well-formed for the count model**, whatever `num_taps` and `post_peak`
    the phase transform produced (only the shape conditions that hold for every phase alike are assumed). -/
theorem init_stage_wf (i : DftIn) (hL : 0 < i.L) (h1 : 1 ≤ (dftStageInit i).numTaps)
    (h2 : (dftStageInit i).numTaps ≤ (dftStageInit i).dftLen) (h3 : i.L ≤ (dftStageInit i).blockLen)
    (h4 : dftOutOK (toStage (dftStageInit i)).cfg 0) : (toStage (dftStageInit i)).WF :=
  toStage_wf i hL h1 h2 h3 h4

/-- the former F1 plan (HQ 1→128, minimum phase, post stage: 381 taps out of the transform, padded to 385) -/
def exMin : DftIn := { lin := false, L := 32, M := 1, fnEqL := true, fsLe1 := true, nRaw := 380, tpLen := 381, tpPost := 289, dftLen := 2048 }
/-- the same stage with linear phase -/
def exLin : DftIn := { exMin with lin := true }

example : (toStage (dftStageInit exMin)).WF := init_stage_wf exMin (by decide) (by decide) (by decide) (by decide) (by decide)
example : (toStage (dftStageInit exLin)).WF := init_stage_wf exLin (by decide) (by decide) (by decide) (by decide) (by decide)

/-- **Output length does not depend on the phase.**  Two resamplers (two plans: think of the same configuration with
    two phase settings) are streamed through *any* two histories accepting the same `N` frames, then drained by *any*
    request sequences that ask for enough.  Neither having been early (C03), both deliver the same total — `owed N`,
    which is a function of `io_ratio` alone. -/
theorem length_phase_independent (num : Num) (a₁ a₂ : Api) (e₁ e₂ : Eng) (ops₁ ops₂ : List StreamOp) (N D₁ D₂ : Nat)
    (reqs₁ reqs₂ : List Nat) (hf₁ : C03.Fresh a₁.eng) (hf₂ : C03.Fresh a₂.eng)
    (hs₁ : Streams a₁.eng ops₁ N D₁ e₁) (hs₂ : Streams a₂.eng ops₂ N D₂ e₂)
    (he₁ : D₁ ≤ num.owed N) (he₂ : D₂ ≤ num.owed N)
    (hr₁ : num.owed N ≤ D₁ + reqs₁.sum) (hr₂ : num.owed N ≤ D₂ + reqs₂.sum) :
    ∀ ods₁ b₁ ods₂ b₂,
      Calls num { a₁ with eng := e₁.flush num.owed, flushing := true } reqs₁ ods₁ b₁ →
      Calls num { a₂ with eng := e₂.flush num.owed, flushing := true } reqs₂ ods₂ b₂ →
      D₁ + ods₁.sum = num.owed N ∧ D₂ + ods₂.sum = num.owed N := by
  intro ods₁ b₁ ods₂ b₂ c₁ c₂
  have t₁ := C03.total_exact num a₁ e₁ ops₁ N D₁ reqs₁ hf₁ hs₁ he₁ ods₁ b₁ c₁
  have t₂ := C03.total_exact num a₂ e₂ ops₂ N D₂ reqs₂ hf₂ hs₂ he₂ ods₂ b₂ c₂
  exact ⟨by omega, by omega⟩

/-- two engines whose only difference is the dft stage's phase (minimum vs linear): both meet the premises -/
def exEngMin : Eng := { stages := [toStage (dftStageInit exMin)] }
def exEngLin : Eng := { stages := [toStage (dftStageInit exLin)] }
example : C03.Fresh exEngMin := ⟨rfl, rfl, ⟨rfl, by decide, by decide⟩⟩
example : C03.Fresh exEngLin := ⟨rfl, rfl, ⟨rfl, by decide, by decide⟩⟩
example : ∃ F D e', Streams exEngMin [.feed 100, .take 50] F D e' := C03.histories_run exEngMin _ ⟨rfl, rfl, ⟨rfl, by decide, by decide⟩⟩

/-- **The delay relation does not depend on the phase**: at every point of any two streaming histories that accepted
    the same `F` frames, `delivered + round(delay + rem·orate/irate)` is the same number for both plans. -/
theorem delay_phase_independent (e₁ e₁' e₂ e₂' : Eng) (ops₁ ops₂ : List StreamOp) (F D₁ D₂ rem p q : Nat) (hp : 0 < p)
    (hf₁ : C03.Fresh e₁) (hf₂ : C03.Fresh e₂) (h₁ : Streams e₁ ops₁ F D₁ e₁') (h₂ : Streams e₂ ops₂ F D₂ e₂') :
    (D₁ : Int) + C15.roundDiv (C15.delayNum e₁' p q + (rem : Int) * q) p =
    (D₂ : Int) + C15.roundDiv (C15.delayNum e₂' p q + (rem : Int) * q) p := by
  rw [C15.delay_relation_streaming e₁ e₁' ops₁ F D₁ rem p q hp hf₁.sin hf₁.sout hf₁.str h₁,
      C15.delay_relation_streaming e₂ e₂' ops₂ F D₂ rem p q hp hf₂.sin hf₂.sout hf₂.str h₂]

/-! ## (b) the selection step of `lsx_fir_to_phase` -/

/-- **Mirror law.**  For every opaque cepstral part `cep`, every phase `n/d` percent other than 50:
    the filter for `100 - n/d` is the filter for `n/d` reversed, and the peak position is mirrored. -/
theorem mirror {α : Type} (cep : Cep α) (d n : Nat) (h : n ≤ 100 * d) (hne : n ≠ 50 * d) :
    (firToPhaseAt cep d (100 * d - n)).taps = (firToPhaseAt cep d n).taps.reverse ∧
    (firToPhaseAt cep d (100 * d - n)).postLen =
      ((firToPhaseAt cep d n).taps.length : Int) - 1 - (firToPhaseAt cep d n).postLen := by
  unfold firToPhaseAt
  rw [fold_mirror d n h, cls_mirror d n h, gt50_mirror d n h hne]
  have hp := firToPhase_postLen (cep.work (fold d n)) (cls d n) (cep.sel (fold d n))
  have hl := fun g => firToPhase_length (cep.work (fold d n)) g (cls d n) (cep.sel (fold d n))
  cases hg : gt50 d n
  · -- n < 50: the other side is read backwards
    refine ⟨firToPhase_reverse _ _ _, ?_⟩
    show (firToPhase _ true _ _).postLen = ((firToPhase _ false _ _).taps.length : Int) - 1 - (firToPhase _ false _ _).postLen
    rw [hl false]; exact hp
  · refine ⟨?_, ?_⟩
    · show (firToPhase _ false _ _).taps = (firToPhase _ true _ _).taps.reverse
      rw [firToPhase_reverse, List.reverse_reverse]
    · show (firToPhase _ false _ _).postLen = ((firToPhase _ true _ _).taps.length : Int) - 1 - (firToPhase _ true _ _).postLen
      rw [hl true]; omega

/-- a cepstral part for the examples: `work[j] = j`, peak at 40, 21 taps in -/
def exCep : Cep Nat := { sel := fun _ => { len := 21, workLen := 2048, peak := 40, begin0 := 13, end0 := 19 }, work := fun _ j => j }

example : (firToPhaseAt exCep 1 25).taps = [28, 29, 30, 31, 32, 33, 34, 35, 36, 37, 38, 39, 40, 41, 42, 43, 44, 45, 46, 47, 48, 49, 50, 51, 52, 53, 54, 55, 56, 57, 58, 59, 60]
    ∧ (firToPhaseAt exCep 1 25).postLen = 20 ∧ (firToPhaseAt exCep 1 75).postLen = 12
    ∧ (firToPhaseAt exCep 1 75).taps.head? = some 60 := by decide
example : (25 : Nat) ≤ 100 * 1 ∧ (25 : Nat) ≠ 50 * 1 := by decide

/-- **Mirror settings have the same magnitude response** — for any functional `mag` of the tap list that does not see
    time reversal (as `|DFT|` of a real sequence does not; that fact about `mag` is the hypothesis `hrev`). -/
theorem mirror_same_magnitude {α ρ : Type} (mag : List α → ρ) (hrev : ∀ l, mag l.reverse = mag l)
    (cep : Cep α) (d n : Nat) (h : n ≤ 100 * d) (hne : n ≠ 50 * d) :
    mag (firToPhaseAt cep d (100 * d - n)).taps = mag (firToPhaseAt cep d n).taps := by
  rw [(mirror cep d n h hne).1, hrev]

/-- e.g. the sum of squares -/
example : (fun l : List Nat => (l.map (fun x => x * x)).sum) (firToPhaseAt exCep 1 75).taps =
    (fun l : List Nat => (l.map (fun x => x * x)).sum) (firToPhaseAt exCep 1 25).taps := by decide

/-- mirror pairs have the same length -/
theorem mirror_length {α : Type} (cep : Cep α) (d n : Nat) (h : n ≤ 100 * d) :
    (firToPhaseAt cep d (100 * d - n)).taps.length = (firToPhaseAt cep d n).taps.length :=
  at_mirror_length cep d n h

/-- **Linear phase puts the peak in the middle** and keeps the length (the `phase1 == 1` branch). -/
theorem linear_centred {α : Type} (cep : Cep α) (d : Nat) (hd : 0 < d) (hl : 1 ≤ (cep.sel (50 * d)).len) :
    (firToPhaseAt cep d (50 * d)).taps.length = (cep.sel (50 * d)).len ∧
    (firToPhaseAt cep d (50 * d)).postLen = (((cep.sel (50 * d)).len - 1) / 2 : Nat) :=
  at_linear_centred cep d hd hl

example : (firToPhaseAt exCep 1 50).postLen = 10 ∧ (firToPhaseAt exCep 1 50).taps.length = 21 := by decide

/-- **Linear phase: symmetric about the peak.**  If the (opaque) array is symmetric about `peak` over the window and the
    length is odd, tap `k` equals tap `len - 1 - k`. -/
theorem linear_symmetric {α : Type} (work : Nat → α) (i : SelIn) (hodd : i.len % 2 = 1)
    (hsym : ∀ t : Nat, t ≤ i.len / 2 →
      work ((((i.peak : Int) + t + i.workLen) % (i.workLen : Int)).toNat) =
      work ((((i.peak : Int) - t + i.workLen) % (i.workLen : Int)).toNat))
    (k : Nat) (hk : k < i.len)
    (h1 : k < (firToPhase work false .lin i).taps.length) (h2 : i.len - 1 - k < (firToPhase work false .lin i).taps.length) :
    (firToPhase work false .lin i).taps[k] = (firToPhase work false .lin i).taps[i.len - 1 - k] :=
  firToPhase_lin_symmetric work i hodd hsym k hk h1 h2

/-- a symmetric array for the example: distance from 40 -/
example : (firToPhase (fun j => if j ≤ 40 then 40 - j else j - 40) false .lin { len := 5, workLen := 64, peak := 40, begin0 := 0, end0 := 0 }).taps
    = [2, 1, 0, 1, 2] := by decide

/-- **Minimum / maximum phase keep the length**; the peak is `peak` taps from the start (minimum) or from the end. -/
theorem extreme_phase_window {α : Type} (cep : Cep α) (d : Nat) (hd : 0 < d) :
    (firToPhaseAt cep d 0).taps.length = (cep.sel 0).len ∧
    (firToPhaseAt cep d (100 * d)).taps.length = (cep.sel 0).len ∧
    (firToPhaseAt cep d 0).postLen = ((cep.sel 0).len : Int) - 1 - (cep.sel 0).peak ∧
    (firToPhaseAt cep d (100 * d)).postLen = (cep.sel 0).peak :=
  at_extreme_phase_window cep d hd

example : (firToPhaseAt exCep 1 0).postLen = -20 ∧ (firToPhaseAt exCep 1 100).postLen = 40 := by decide

/-- **Every branch keeps `num_taps ≡ 1 (mod 4)`** (the design length for non-linear phase is `≡ 1 (mod 4)`). -/
theorem transformed_length_mod4 {α : Type} (cep : Cep α) (d n : Nat) (h : (cep.sel (fold d n)).len % 4 = 1) :
    (firToPhaseAt cep d n).taps.length % 4 = 1 :=
  at_transformed_length_mod4 cep d n h

example : (exCep.sel (fold 1 25)).len % 4 = 1 ∧ (firToPhaseAt exCep 1 25).taps.length = 33 := by decide

/-- **Mirror settings give plans that are mirrored up to the trailing zeros.**  For `p` and `100 - p` (same `L`, `M`, design,
    and hence the same `set_dft_length` answer, since the padded lengths are equal): the same number of trailing zeros, the
    same `num_taps`, `dft_length`, `block_len` — so the same output-side bookkeeping.  The latency is mirrored about the
    *unpadded* filter: `post_peak(p) + post_peak(100 - p) + 1 = num_taps + pad` (both settings get the zeros at the same end,
    so after padding the two filters are reverses of each other shifted by `pad` taps; with `pad = 0`, i.e. whenever `L`
    already divides the transformed length minus one or `L` is not a power of two, exactly mirrored). -/
theorem mirror_plans {α : Type} (base : DftIn) (cep : Cep α) (d n : Nat) (h : n ≤ 100 * d) (hne : n ≠ 50 * d)
    (h0 : 0 ≤ (firToPhaseAt cep d n).postLen) (h1 : 0 ≤ (firToPhaseAt cep d (100 * d - n)).postLen) :
    let a := dftStageInit (dftInOf base cep d n)
    let b := dftStageInit (dftInOf base cep d (100 * d - n))
    a.numTaps = b.numTaps ∧ a.padTaps = b.padTaps ∧ a.blockLen = b.blockLen ∧
    a.postPeak + b.postPeak + 1 = a.numTaps + a.padTaps ∧ (FDomainOK a ↔ FDomainOK b) := by
  intro a b
  obtain ⟨mt, mp⟩ := mirror cep d n h hne
  have hlen : (firToPhaseAt cep d (100 * d - n)).taps.length = (firToPhaseAt cep d n).taps.length := by rw [mt, List.length_reverse]
  obtain ⟨ha, hap, hapad, _, _⟩ := dft_nonlin (dftInOf base cep d n) rfl
  obtain ⟨hb, hbp, hbpad, _, _⟩ := dft_nonlin (dftInOf base cep d (100 * d - n)) rfl
  have eL : (dftInOf base cep d (100 * d - n)).L = (dftInOf base cep d n).L := rfl
  have eT : (dftInOf base cep d (100 * d - n)).tpLen = (dftInOf base cep d n).tpLen := hlen
  have eTa : (dftInOf base cep d n).tpLen = (firToPhaseAt cep d n).taps.length := rfl
  have ePa : (dftInOf base cep d n).tpPost = (firToPhaseAt cep d n).postLen.toNat := rfl
  have ePb : (dftInOf base cep d (100 * d - n)).tpPost = (firToPhaseAt cep d (100 * d - n)).postLen.toNat := rfl
  rw [eL, eT] at hb hbp hbpad
  have hnt : a.numTaps = b.numTaps := by rw [ha, hb]
  have hpad : a.padTaps = b.padTaps := by rw [hapad, hbpad]
  have hbl : a.blockLen = b.blockLen := by
    rw [dft_blockLen, dft_blockLen, hnt]; rfl
  refine ⟨hnt, hpad, hbl, ?_, ?_⟩
  · rw [hap, hbp, ha, hapad, ePa, ePb, eTa]
    omega
  · unfold FDomainOK; rw [hbl]; exact Iff.rfl

example : let a := dftStageInit (dftInOf exMin exCep 1 25); let b := dftStageInit (dftInOf exMin exCep 1 75)
    a.numTaps = 33 ∧ b.numTaps = 33 ∧ a.padTaps = 0 ∧ a.postPeak = 20 ∧ b.postPeak = 12 := by decide
/-- with trailing zeros: 21 taps at minimum / maximum phase (peak 5 taps in), `L = 32`: 12 zeros, 33 taps -/
def exCep2 : Cep Nat := { sel := fun _ => { len := 21, workLen := 2048, peak := 5, begin0 := 13, end0 := 19 }, work := fun _ j => j }
example : let a := dftStageInit (dftInOf exMin exCep2 1 0); let b := dftStageInit (dftInOf exMin exCep2 1 100)
    a.numTaps = 33 ∧ a.padTaps = 12 ∧ b.padTaps = 12 ∧ a.postPeak + b.postPeak + 1 = 33 + 12 := by decide

/-! ## (c) `lsx_make_lpf` -/

/-- **The designed low-pass is symmetric**: every tap is written and tap `j` is the value computed for
    `min j (n-1-j)`, so `h[j] = h[n-1-j]` — for every length `n ≥ 1` and whatever the loop body computes. -/
theorem makeLpf_symmetric {α : Type} (f : Nat → α) (n j : Nat) (hn : 1 ≤ n) (hj : j < n) :
    makeLpf f n j = some (f (min j (n - 1 - j))) ∧ makeLpf f n j = makeLpf f n (n - 1 - j) := by
  have h1 := makeLpf_spec f n j hn hj
  have h2 := makeLpf_spec f n (n - 1 - j) hn (by omega)
  refine ⟨h1, ?_⟩
  rw [h1, h2]
  have : min (n - 1 - j) (n - 1 - (n - 1 - j)) = min j (n - 1 - j) := by omega
  rw [this]

example : (List.range 6).map (makeLpf (fun i => 10 * i) 6) = [some 0, some 10, some 20, some 20, some 10, some 0] := by decide
example : (List.range 5).map (makeLpf (fun i => 10 * i) 5) = [some 0, some 10, some 20, some 10, some 0] := by decide

/-! ## (d) `dft_stage_init`: latency bookkeeping and the block-alignment clause -/

/-- **Latency is compensated by construction, for every phase**: `post_peak = L·preload + at` with `at < L`. -/
theorem latency_split (i : DftIn) (hL : 0 < i.L) :
    (dftStageInit i).postPeak = i.L * (dftStageInit i).preload + (dftStageInit i).clk ∧ (dftStageInit i).clk < i.L :=
  dft_latency i hL

example : (dftStageInit exMin).postPeak = 293 ∧ (dftStageInit exMin).preload = 9 ∧ (dftStageInit exMin).clk = 5 := by decide

/-- **Linear phase: odd length, peak exactly in the middle** — for every `L`, `Fn`, every length estimate. -/
theorem linear_design_centred (i : DftIn) (hl : i.lin = true) :
    (dftStageInit i).numTaps = 2 * (dftStageInit i).postPeak + 1 := by
  obtain ⟨h1, h2⟩ := dft_lin_numTaps i hl
  rw [h1, h2]
  unfold designK
  split
  · -- k = 2L
    rw [roundTaps_form]
    have : (i.nRaw + 2 * i.L - 2) / (2 * i.L) * (2 * i.L) = 2 * ((i.nRaw + 2 * i.L - 2) / (2 * i.L) * i.L) := by
      rw [Nat.mul_left_comm]
    rw [this]; omega
  · rw [roundTaps_form]; omega

example : (dftStageInit exLin).numTaps = 385 ∧ (dftStageInit exLin).postPeak = 192 := by decide

/-- **Linear phase always satisfies the block-alignment clause.**  Power-of-two `L` with `Fn == L` (the only way the
    planner makes a power-of-two `L > 4`): `num_taps = 2·L·q + 1`; `set_dft_length` answers a power of two (`≥ 1`) and the
    padding loop keeps it one and makes it `≥ 32·L`, so `L ∣ dft_length` and `L ∣ block_len` — no size hypothesis is left;
    and the filter's centre falls on the input grid: `at = 0`, `L·preload = post_peak`. -/
theorem linear_block_aligned (i : DftIn) (hl : i.lin = true) (hp : isPow2L i.L = true) (hf : i.fnEqL = true)
    (b : Nat) (hD : i.dftLen = 2 ^ b) :
    FDomainOK (dftStageInit i) ∧ (dftStageInit i).clk = 0 ∧ i.L * (dftStageInit i).preload = (dftStageInit i).postPeak ∧
    32 * i.L ≤ (dftStageInit i).dftLen := by
  obtain ⟨q, hn, hpp⟩ := dft_lin_form i hl hp hf
  obtain ⟨a, _, ha⟩ := isPow2L_spec i.L hp
  have hLpos : 0 < i.L := by rw [ha]; exact Nat.pow_pos (by omega)
  have hge : 32 * i.L ≤ finalDftLen i.L i.dftLen :=
    finalDftLen_ge i.L i.dftLen hp (by rw [hD]; exact Nat.pow_pos (by omega))
  obtain ⟨c, hc⟩ := finalDftLen_pow2 i.L b
  rw [← hD] at hc
  have hdvdD : i.L ∣ finalDftLen i.L i.dftLen := by
    rw [hc]
    have : i.L ≤ 2 ^ c := by rw [← hc]; omega
    rw [ha] at this ⊢
    exact pow2_dvd_of_le a c this
  refine ⟨?_, ?_, ?_, ?_⟩
  · intro _
    rw [dft_blockLen, hn, dft_dftLen, dft_L]
    apply (Nat.dvd_sub hdvdD)
    exact ⟨2 * q, by rw [Nat.add_sub_cancel, Nat.mul_comm 2 i.L, Nat.mul_assoc]⟩
  · rw [dft_clk, hpp]; exact Nat.mul_mod_right _ _
  · rw [dft_preload, hpp, Nat.mul_div_cancel_left _ hLpos]
  · rw [dft_dftLen]; exact hge

example : FDomainOK (dftStageInit exLin) ∧ (dftStageInit exLin).blockLen = 1664 := by decide
example : isPow2L exLin.L = true ∧ exLin.dftLen = 2 ^ 11 := by decide

/-- **The padding loop of `dft_stage_init`** (repair of F5): for a power-of-two `L` the forward transform keeps at least 32
    points (`dft_length ≥ 32·L`), the length only ever doubles (a power of two stays one), and a length that is already
    large enough — the F1 witness plan, every plan with the default size limits — is untouched. -/
theorem dft_length_padded (i : DftIn) (hD : 1 ≤ i.dftLen) :
    (isPow2L i.L = true → 32 * i.L ≤ (dftStageInit i).dftLen) ∧
    (∃ j, (dftStageInit i).dftLen = i.dftLen * 2 ^ j) ∧
    (32 * i.L ≤ i.dftLen → (dftStageInit i).dftLen = i.dftLen) := by
  refine ⟨fun hp => by rw [dft_dftLen]; exact finalDftLen_ge _ _ hp hD, ?_, fun h => by rw [dft_dftLen]; exact finalDftLen_id _ _ h⟩
  rw [dft_dftLen]; unfold finalDftLen
  split
  · exact padDft_form _ _ _
  · exact ⟨0, by rw [Nat.pow_zero, Nat.mul_one]⟩

/-- `log2_large_dft_size = 8`, 1→8192 (the F5 configuration): `set_dft_length` answers 4096 for the `L = 256` stage, padded to 8192 -/
example : (dftStageInit { lin := true, L := 256, M := 1, nRaw := 2000, dftLen := 4096 }).dftLen = 8192 ∧
    (dftStageInit exMin).dftLen = 2048 ∧ (dftStageInit { exMin with L := 3, dftLen := 64 }).dftLen = 64 := by decide

/-- **Every phase satisfies the clause when `L ∣ 4`** (`L = 2`, `4`: the pre-stage and small post-stages): the length is
    `≡ 1 (mod 4)` both as designed (`k = 4`) and after `lsx_fir_to_phase` (`transformed_length_mod4`). -/
theorem small_L_block_aligned (i : DftIn) (hL4 : i.L ∣ 4) (hD : i.L ∣ (dftStageInit i).dftLen)
    (hmod : (dftStageInit i).numTaps % 4 = 1) : FDomainOK (dftStageInit i) := by
  intro _
  rw [dft_blockLen, dft_L]
  apply Nat.dvd_sub hD
  have : 4 ∣ (dftStageInit i).numTaps - 1 := ⟨(dftStageInit i).numTaps / 4, by omega⟩
  exact Nat.dvd_trans hL4 this

/-- the design length for non-linear phase is `≡ 1 (mod 4)` -/
theorem nonlinear_design_mod4 (i : DftIn) (hl : i.lin = false) : (dftStageInit i).nDesign % 4 = 1 := by
  rw [(dft_nonlin i hl).2.2.2.2, roundTaps_form]; omega

def exSmall : DftIn := { lin := false, L := 4, M := 1, fnEqL := false, nRaw := 810, tpLen := 813, tpPost := 795, dftLen := 4096 }
example : FDomainOK (dftStageInit exSmall) ∧ (dftStageInit exSmall).numTaps % 4 = 1 ∧ exSmall.L ∣ 4 := by decide

/-- **The block-alignment clause holds for every phase response.**  Power-of-two `L`, `set_dft_length` answering a power of
    two: non-linear phase — whatever length and peak position the transform produced — by the trailing zeros
    (`tapPad`: `L ∣ num_taps - 1`); linear phase by the length rounding (`k = 2L` when `Fn == L`, else `k = 4` with `L ∣ 4`:
    the two ways the planner calls `dft_stage_init` with a power-of-two `L`; hypothesis `hlin`, evaluated on every exported
    plan).  And the forward transform keeps 32 points. -/
theorem block_aligned_all_phases (i : DftIn) (hp : isPow2L i.L = true) (b : Nat) (hD : i.dftLen = 2 ^ b)
    (hlin : i.lin = true → i.fnEqL = true ∨ i.L ∣ 4) (hnl : i.lin = false → 1 ≤ i.tpLen) :
    FDomainOK (dftStageInit i) ∧ i.L ∣ (dftStageInit i).blockLen ∧ i.L ∣ (dftStageInit i).numTaps - 1 ∧
    32 * i.L ≤ (dftStageInit i).dftLen :=
  dft_block_aligned i hp b hD hlin hnl

example : FDomainOK (dftStageInit exMin) ∧ (dftStageInit exMin).numTaps = 385 ∧ (dftStageInit exMin).padTaps = 4 ∧
    (dftStageInit exMin).blockLen = 1664 := by decide
example : isPow2L exMin.L = true ∧ exMin.dftLen = 2 ^ 11 ∧ 1 ≤ exMin.tpLen := by decide

/-- **Finding F1, historical witness.**  The plan the planner exported for HQ, 1→128, `phase_response = 0` before the repair
    (post stage: `L = 32`, transformed filter of 381 taps, peak 289 from the end, `dft_length = 2048`): with the arithmetic
    as it was — no padding step, `dftStageInitPreF1` — the power-of-two `L` does not divide `block_len = 1668` and the stage
    is still well-formed for the count model (which is why the count-level theorems did not exclude it); with the code as
    it is (4 trailing zeros, 385 taps, `block_len = 1664`) the clause holds. -/
theorem f1_historical_misaligned :
    ∃ i : DftIn, i.lin = false ∧ isPow2L i.L = true ∧ (toStage (dftStageInitPreF1 i)).WF ∧ ¬ FDomainOK (dftStageInitPreF1 i) ∧
      (dftStageInitPreF1 i).blockLen = 1668 ∧ FDomainOK (dftStageInit i) ∧ (dftStageInit i).blockLen = 1664 :=
  ⟨exMin, by decide, by decide, by decide, by decide, by decide, by decide, by decide⟩

/-- **What the clause buys**: a block yields `block_len` frames for `⌈(block_len − at)/L⌉` frames read (`at` never
    changes on the frequency-domain path), so the stage's rate is exactly `L` iff `L ∣ block_len`. -/
theorem fdomain_rate_exact_iff (L bl clk : Nat) (hL : 0 < L) (hc : clk < L) : L * fdQuot L bl clk = bl ↔ L ∣ bl :=
  fd_rate_exact_iff L bl clk hL hc

example : 32 * fdQuot 32 1668 1 = 1696 ∧ 32 * fdQuot 32 1664 0 = 1664 := by decide

/-! ## (f) the stage `dft_stage_init` leaves meets the hypotheses of the constant-rate theorems (`Phase/CrBridge.lean`) -/

/-- **`dft_stage_init` gives a well-formed, well-shaped stage.**  The exported stage (`lstageOf`: `kind = dft`, `L`, `dftLen`,
    `numTaps`, `M = step.integer`, `clk = at.integer`, `remM = 0`, `occ = preload`, `isz = input_size`, as `harness/cr/trace.c`
    prints it) satisfies the whole dft clause of `StageWF` and the whole of `DftShapeOK` — what `never_early`,
    `delay_gt_neg_one_every_run`, `dft_inv` and the schedule theorems assume of a dft stage — for every phase response,
    every `L` (power-of-two `L ≥ 8` included), `step = M` and the F-domain decimator alike.  Hypotheses: facts about the
    parts the model does not compute — `hT` the transform's length is `≡ 1 (mod 4)` (a theorem of the selection-step model:
    `transformed_length_mod4`), `hD`/`hN` `set_dft_length` answers a power of two not below `num_taps` (floating-point `log`),
    `hB` `L`, `M` do not exceed the block (for power-of-two `L`: `dft_stage_init_pow2_sizes`), `hlin` the planner's call
    sites for linear phase. -/
theorem dft_stage_init_gives_wf_stage (i : DftIn) (hL : 0 < i.L) (hM : 0 < i.M)
    (hT : i.lin = false → i.tpLen % 4 = 1)
    (b : Nat) (hD : i.dftLen = 2 ^ b) (hN : (dftStageInit i).numTaps ≤ i.dftLen)
    (hB : i.L ≤ (dftStageInit i).blockLen ∧ i.M ≤ (dftStageInit i).blockLen)
    (hlin : i.lin = true → isPow2L i.L = true → i.fnEqL = true ∨ i.L ∣ 4) :
    StageWF (lstageOf (dftStageInit i)).cfg (lstageOf (dftStageInit i)).s0 ∧
    DftShapeOK (lstageOf (dftStageInit i)).cfg (lstageOf (dftStageInit i)).s0 :=
  stage_init_wf_shape i hL hM hT b hD hN hB hlin

/-- the former F1 stage (minimum phase, `L = 32`), its linear-phase twin, and an F-domain decimator by 2 -/
example : StageWF (lstageOf (dftStageInit exMin)).cfg (lstageOf (dftStageInit exMin)).s0 ∧
    DftShapeOK (lstageOf (dftStageInit exMin)).cfg (lstageOf (dftStageInit exMin)).s0 :=
  dft_stage_init_gives_wf_stage exMin (by decide) (by decide) (by decide) 11 (by decide) (by decide) (by decide) (by decide)
example : StageWF (lstageOf (dftStageInit exLin)).cfg (lstageOf (dftStageInit exLin)).s0 ∧
    DftShapeOK (lstageOf (dftStageInit exLin)).cfg (lstageOf (dftStageInit exLin)).s0 :=
  dft_stage_init_gives_wf_stage exLin (by decide) (by decide) (by decide) 11 (by decide) (by decide) (by decide) (by decide)
def exDown : DftIn := { lin := false, L := 1, M := 2, fnEqL := false, fsLe1 := true, nRaw := 800, tpLen := 801, tpPost := 700, dftLen := 4096 }
example : (dftStageInit exDown).step = -1 ∧ StageWF (lstageOf (dftStageInit exDown)).cfg (lstageOf (dftStageInit exDown)).s0 ∧
    DftShapeOK (lstageOf (dftStageInit exDown)).cfg (lstageOf (dftStageInit exDown)).s0 :=
  ⟨by decide, dft_stage_init_gives_wf_stage exDown (by decide) (by decide) (by decide) 12 (by decide) (by decide) (by decide) (by decide)⟩

/-- **For a power-of-two `L` the size hypotheses reduce to one numeric fact about `set_dft_length`**
    (`3·n ≤ 2·set_dft_length(n)`; the C expression `1 << (int)(log2 n + 1.77)` is at least `2^0.77·n`): then
    `num_taps ≤ dft_length` and, by the padding loop, the block is more than ten times `L`. -/
theorem dft_stage_init_pow2_sizes (i : DftIn) (hp : isPow2L i.L = true) (hS : 3 * (dftStageInit i).numTaps ≤ 2 * i.dftLen)
    (hD1 : 1 ≤ i.dftLen) : (dftStageInit i).numTaps ≤ i.dftLen ∧ 10 * i.L < (dftStageInit i).blockLen :=
  pow2_sizes i hp hS hD1

example : 3 * (dftStageInit exMin).numTaps ≤ 2 * exMin.dftLen ∧ isPow2L exMin.L = true := by decide

/-- the C macro and the model's power-of-two test agree where it matters: what `dft_stage_fn` treats as a frequency-domain
    up-sampler (`lsx_is_power_of_2(L)`, bitwise) is a power of two -/
theorem isPow2_macro_is_pow2 (x : Nat) (h : isPow2 x = true) : isPow2L x = true ∧ ∃ a, 1 ≤ a ∧ x = 2 ^ a :=
  ⟨isPow2L_of_isPow2 x h, isPow2_spec x h⟩

example : isPow2 64 = true := by decide

/-- **Latency, every phase**: the exported integers satisfy `preload = post_peak / L`, `at = post_peak % L`,
    `post_peak = L·preload + at`, `at < L` — `post_peak` including the trailing zeros of the F1 repair. -/
theorem dft_stage_init_latency (i : DftIn) (hL : 0 < i.L) :
    let x := lstageOf (dftStageInit i)
    x.s0.occ = x.lat.postPeak / x.cfg.L ∧ x.s0.clk = x.lat.postPeak % x.cfg.L ∧
    x.lat.postPeak = x.cfg.L * x.s0.occ + x.s0.clk ∧ x.s0.clk < x.cfg.L :=
  lstage_latency i hL

/-- **Linear phase is time-aligned**: `LatOK` holds (the hypothesis of `dft_b` / `tstage_b_exact`), so output frame `j` of the
    stage represents instant `(M/L)·j` of its input exactly: `(tstage x).b = 0`. -/
theorem dft_stage_init_linear_time_aligned (i : DftIn) (hL : 0 < i.L) (hl : i.lin = true) :
    LatOK true (lstageOf (dftStageInit i)) ∧ LatOK false (lstageOf (dftStageInit i)) ∧
    (tstage (lstageOf (dftStageInit i))).b = 0 :=
  ⟨lstage_latOK_linear i hL hl true, lstage_latOK_linear i hL hl false,
   dft_b _ rfl true (lstage_latOK_linear i hL hl true)⟩

example : exLin.lin = true ∧ 0 < exLin.L := by decide

/-- **`EarlyOK` for a linear-phase power-of-two up-sampler** (with the two theorems above: every per-stage hypothesis of
    `never_early` for such a stage): the peak is at least `L − 1` taps in as soon as the Kaiser estimate asks for two taps. -/
theorem dft_stage_init_linear_early_ok (i : DftIn) (hl : i.lin = true) (hp : isPow2L i.L = true) (hf : i.fnEqL = true)
    (hn : 2 ≤ i.nRaw) (hM : 0 < i.M) (b : Nat) (hD : i.dftLen = 2 ^ b) (hN : (dftStageInit i).numTaps ≤ i.dftLen)
    (hB : i.L ≤ (dftStageInit i).blockLen ∧ i.M ≤ (dftStageInit i).blockLen) :
    EarlyOK (lstageOf (dftStageInit i)) := by
  obtain ⟨a, _, ha⟩ := isPow2L_spec i.L hp
  have hL : 0 < i.L := by rw [ha]; exact Nat.pow_pos (by omega)
  have hs := (stage_init_wf_shape i hL hM (fun h => by rw [hl] at h; cases h) b hD hN hB (fun _ _ => Or.inl hf)).2
  unfold EarlyOK
  show i.L ≤ (dftStageInit i).postPeak + 1 ∧ _
  exact ⟨lstage_peak_ge_L i hl hp hf hn, hs⟩

example : EarlyOK (lstageOf (dftStageInit exLin)) :=
  dft_stage_init_linear_early_ok exLin (by decide) (by decide) (by decide) (by decide) (by decide) 11 (by decide) (by decide) (by decide)

/-- **End to end for the single-stage plan**: a resampler whose plan is the one linear-phase power-of-two up-sampling stage
    `dft_stage_init` leaves (1→2, 1→4 with the small-integer optimisation …) is never early — `never_early` of C03 with every
    per-stage hypothesis discharged from the model of `dft_stage_init`, for every kernel, history and input. -/
theorem never_early_linear_dft_plan {α : Type} (K : Kern α) (z : α) (owed : Nat → Nat) (i : DftIn)
    (hl : i.lin = true) (hp : isPow2L i.L = true) (hf : i.fnEqL = true)
    (hn : 2 ≤ i.nRaw) (hM : 0 < i.M) (b : Nat) (hD : i.dftLen = 2 ^ b) (hN : (dftStageInit i).numTaps ≤ i.dftLen)
    (hB : i.L ≤ (dftStageInit i).blockLen ∧ i.M ≤ (dftStageInit i).blockLen)
    (ops : List (DOp α)) (F D : List α) (e : DEng α)
    (r : DRuns K z owed (DEng.fresh z ([lstageOf (dftStageInit i)].map LStage.toPlan)) ops F D e) (hfl : e.fl = false) :
    (1 ≤ D.length → ((D.length : ℚ) - 1) * rateOf ([lstageOf (dftStageInit i)].map tstage) < F.length) ∧
    (0 < rateOf ([lstageOf (dftStageInit i)].map tstage) →
      D.length ≤ ⌈(F.length : ℚ) / rateOf ([lstageOf (dftStageInit i)].map tstage)⌉₊) := by
  obtain ⟨a, _, ha⟩ := isPow2L_spec i.L hp
  have hL : 0 < i.L := by rw [ha]; exact Nat.pow_pos (by omega)
  have hwf := (stage_init_wf_shape i hL hM (fun h => by rw [hl] at h; cases h) b hD hN hB (fun _ _ => Or.inl hf)).1
  have he := dft_stage_init_linear_early_ok i hl hp hf hn hM b hD hN hB
  have hlat := lstage_latOK_linear i hL hl false
  exact C03.never_early K z owed [lstageOf (dftStageInit i)]
    (fun x hx => by rw [List.mem_singleton] at hx; subst hx; exact hwf)
    (fun x hx => by rw [List.mem_singleton] at hx; subst hx; exact he)
    (fun x hx => by rw [List.mem_singleton] at hx; subst hx; exact hlat)
    ops F D e r hfl

/-! ## (e) generated constants of the working tree (`harness/phase/gen.c` → `Phase/Generated.lean`, regenerated on every run) -/

/-- **The recipe's phase bits**: `SOXR_LINEAR_PHASE` selects the linear branch, `SOXR_INTERMEDIATE_PHASE` the intermediate
    one, `SOXR_MINIMUM_PHASE` the minimum-phase branch, and the undocumented code 2 is its mirror setting (maximum phase):
    same folded phase, opposite reading direction. -/
theorem recipe_phase_bits :
    (Generated.recipePhase[Generated.codeLinear]?).map (cls 1) = some .lin ∧
    (Generated.recipePhase[Generated.codeIntermediate]?).map (cls 1) = some .mid ∧
    (Generated.recipePhase[Generated.codeMinimum]?).map (cls 1) = some .min ∧
    (Generated.recipePhase[Generated.codeMinimum]?).map (fun p => 100 * 1 - p) = Generated.recipePhase[2]? ∧
    Generated.recipePhase.all (· ≤ 100) = true := by decide

/-- **`isPow2L` is the C macro `lsx_is_power_of_2`** on `0 … 130` (beyond: the correspondence of `checks/c14.py`). -/
theorem isPow2L_matches_macro : (List.range 131).map isPow2L = Generated.pow2Table := by decide

/-! ## not carried by Lean (measured by the falsifier of `checks/c14.py`) -/

/-- the cepstral transform changes the phase only: with `mag l ω` the magnitude response of the tap list `l` and `h` the
    designed (linear-phase) filter, `|H_p(ω)| = |H(ω)|` for every phase setting.  Floating point (FFT, `atan2`, `log`, `exp`)
    plus a truncation to `len` taps that costs up to ≈ 3·10⁻⁴ relative at minimum phase — **not proved**; measured. -/
def Goal_magnitude_preserved {α ρ : Type} (mag : List α → Nat → ρ) (cep : Cep α) (h : List α) (d : Nat) : Prop :=
  ∀ n, n ≤ 100 * d → ∀ ω, mag (firToPhaseAt cep d n).taps ω = mag h ω

end Soxr.Properties.C14
