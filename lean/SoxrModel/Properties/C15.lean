import SoxrModel.Cr.Model
namespace Soxr.Properties.C15
end Soxr.Properties.C15
