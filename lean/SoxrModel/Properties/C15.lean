import SoxrModel.Cr.Stream
import SoxrModel.Properties.C03
/-!
# C15 `soxr_delay` reports exactly the output still owed for the input accepted

`_soxr_delay = samples_in / io_ratio − samples_out`.  With `io_ratio = p / q` (the exact rational `irate/orate`;
`p, q > 0`) the delay is the rational `(samples_in·q − samples_out·p) / p`; everything below is stated on that
numerator, in integers, so that no rounding of the model can hide anything.  `roundDiv a p = ⌊a/p + ½⌋`.
The C code evaluates the same expression in binary64; the check compares the two bit for bit through the driver and
evaluates the property's relation in exact rationals (ties within 1e-6 counted separately).
-/
namespace Soxr.Properties.C15
open Soxr Soxr.Cr

/-- `⌊a/p + 1/2⌋` (round half up) -/
def roundDiv (a : Int) (p : Nat) : Int := (2 * a + p) / (2 * p)

/-- numerator of the reported delay over the denominator `p` -/
def delayNum (e : Eng) (p q : Nat) : Int := (e.sin : Int) * q - e.sout * p

/-- numerator of what `soxr_delay()` reports: the guard of soxr.c first (`(p && !p->error && p->resamplers)? resampler_delay : 0`:
    an object that carries an error reports 0), then the engine's value -/
def apiDelayNum (a : Api) (p q : Nat) : Int := if a.error then 0 else delayNum a.eng p q

/-- **After an error nothing more is owed, and `soxr_delay` says so.**  Once an error is recorded (the input function reported
    failure, a NULL buffer was refused, …) every later `soxr_output`, with any request and any input-function script, delivers
    nothing, asks for nothing and leaves the object as it is — and the reported delay is 0: `delivered + round(delay) = the total
    finally delivered` also on that path.  (Round 7 of the seeded changes, `C15-delay-guard-drops-error-test`: the guard lost its
    `!p->error` and the streaming value kept being reported for output that will never come.) -/
theorem delay_zero_after_error (num : Num) (fuel : Nat) (a : Api) (p q len0 : Nat) (script : List Supply) (herr : a.error = true) :
    apiDelayNum a p q = 0 ∧ a.output num fuel len0 script = some (a, 0, script, []) := by
  constructor
  · unfold apiDelayNum; simp [herr]
  · unfold Api.output; simp [herr]

/-- without an error the guard is transparent: every other theorem of this file speaks about what `soxr_delay` returns -/
theorem delay_guard_transparent (a : Api) (p q : Nat) (herr : a.error = false) : apiDelayNum a p q = delayNum a.eng p q := by
  unfold apiDelayNum; simp [herr]

/-- non-vacuity: an object that has accepted 1000 frames at 2:1 and then recorded an error reports 0, not 500 -/
example : apiDelayNum { eng := { stages := [], sin := 1000 }, error := true } 2 1 = 0 ∧
    delayNum ({ eng := { stages := [], sin := 1000 }, error := true } : Api).eng 2 1 = 1000 := by decide

theorem roundDiv_add_mul (a s : Int) (p : Nat) (hp : 0 < p) : roundDiv (a + s * p) p = roundDiv a p + s := by
  unfold roundDiv
  have h2p : (2 * (p : Int)) ≠ 0 := by omega
  have e : 2 * (a + s * p) + p = (2 * a + p) + s * (2 * p) := by
    rw [Int.mul_add]; have : 2 * (s * (p : Int)) = s * (2 * p) := by rw [Int.mul_left_comm]; 
    omega
  rw [e, Int.add_mul_ediv_right _ _ h2p]

/-- **Delay relation while streaming.**  At every point of every streaming history (any call sizes), with `rem`
    frames still to be supplied: `delivered + round(delay + rem·orate/irate) = round((accepted + rem)·orate/irate)`,
    the total the stream will finally deliver. -/
theorem delay_relation_streaming (e e' : Eng) (ops : List StreamOp) (F D rem p q : Nat) (hp : 0 < p)
    (hsin : e.sin = 0) (hsout : e.sout = 0) (hs : Streaming e) (h : Streams e ops F D e') :
    (D : Int) + roundDiv (delayNum e' p q + (rem : Int) * q) p = roundDiv (((F + rem : Nat) : Int) * q) p := by
  obtain ⟨_, h2, h3⟩ := streams_counters ops e F D e' hs h
  unfold delayNum
  rw [h2, h3, hsin, hsout]
  have e1 : ((0 + F : Nat) : Int) * q - (0 + (D : Int)) * p + (rem : Int) * q = ((F + rem : Nat) : Int) * q + (-(D : Int)) * p := by
    push_cast; simp only [Int.zero_add]; rw [Int.add_mul, Int.neg_mul]; omega
  rw [e1, roundDiv_add_mul _ _ _ hp]; omega

/-- **After end-of-input the delay is the number of frames still to come** (an integer, never negative):
    `delivered so far + delay = owed N`, for every history before and every request sequence after the flush. -/
theorem delay_after_flush (num : Num) (a : Api) (e' : Eng) (ops : List StreamOp) (N D : Nat) (reqs : List Nat)
    (hsin : a.eng.sin = 0) (hsout : a.eng.sout = 0) (hstr : Streaming a.eng)
    (hs : Streams a.eng ops N D e') (hearly : D ≤ num.owed N) :
    let a1 : Api := { a with eng := e'.flush num.owed, flushing := true }
    ∀ ods a2, Calls num a1 reqs ods a2 →
      a2.eng.sin = 0 ∧ 0 ≤ -a2.eng.sout ∧ (D : Int) + ods.sum + (-a2.eng.sout) = num.owed N := by
  intro a1 ods a2 hc
  obtain ⟨hst', h2, h3⟩ := streams_counters ops a.eng N D e' hstr hs
  have hfle : (e'.flush num.owed) = { e' with sout := e'.sout - num.owed e'.sin, sin := 0, fl := true } := by
    unfold Eng.flush; simp [hst'.fl]
  have hso : (e'.flush num.owed).sout = (D : Int) - num.owed N := by
    rw [hfle]; show e'.sout - (num.owed e'.sin : Int) = _; rw [h2, h3, hsin, hsout]; simp
  have hd : Draining a1.eng := by
    show Draining (e'.flush num.owed)
    refine ⟨by rw [hfle], by rw [hso]; omega, by rw [hfle]; exact hst'.wf, by rw [hfle]; exact hst'.ne⟩
  -- generalise over the call sequence
  have key : ∀ (reqs : List Nat) (b : Api) (ods : List Nat) (b2 : Api), b.flushing = true → Draining b.eng → b.eng.sin = 0 →
      Calls num b reqs ods b2 → b2.eng.sin = 0 ∧ b2.eng.sout ≤ 0 ∧ b2.eng.sout = b.eng.sout + ods.sum := by
    intro reqs
    induction reqs with
    | nil => intro b ods b2 _ hdb hsb hcb; cases hcb; exact ⟨hsb, hdb.sout, by simp⟩
    | cons n r ih =>
      intro b ods b2 hfb hdb hsb hcb
      cases hcb with
      | cons _ b1 _ _ od _ ods' fuel hcall hrest =>
        obtain ⟨f2, b1', hcall', hfl1, hd1, ho1, _⟩ := outputNoCb_draining num b n hfb hdb
        have := outputNoCb_det num b n fuel f2 _ _ hcall hcall'
        injection this with hb hod
        subst hb
        -- counters of b1
        have hsout1 : b1.eng.sout = b.eng.sout + od := by
          have h1 := hd1.sout; have h0 := hdb.sout
          unfold Eng.owedLeft at ho1 hod
          rw [hod]; omega
        have hsin1 : b1.eng.sin = 0 := by
          -- `_soxr_process` and `_soxr_output` leave samples_in alone
          unfold Api.outputNoCb at hcall
          simp only [hfb, if_true, flush_idem num.owed b.eng hdb.fl] at hcall
          cases hp : b.eng.process fuel n with
          | none => simp [hp] at hcall
          | some e1 =>
            simp only [hp] at hcall
            injection hcall with hcall
            injection hcall with hb1 _
            obtain ⟨f3, e3, hp3, _, hsame, _⟩ := process_flush_total b.eng n hdb.fl hdb.ne hdb.wf
            have := process_det b.eng n fuel f3 e1 e3 hp hp3
            subst this
            rw [← hb1]; show (e1.output n).1.sin = 0
            unfold Eng.output; show e1.sin = 0; rw [hsame.sin]; exact hsb
        obtain ⟨g1, g2, g3⟩ := ih b1 ods' b2 hfl1 hd1 hsin1 hrest
        refine ⟨g1, g2, ?_⟩
        rw [g3, hsout1]; simp only [List.sum_cons]; push_cast; omega
  obtain ⟨k1, k2, k3⟩ := key reqs a1 ods a2 rfl hd (by show (e'.flush num.owed).sin = 0; rw [hfle]) hc
  refine ⟨k1, by omega, ?_⟩
  rw [k3]
  show (D : Int) + ods.sum + -((e'.flush num.owed).sout + ods.sum) = num.owed N
  rw [hso]; omega

/-- **Zero before any input** (and after `soxr_clear`, which the model — like the code — implements as a fresh engine). -/
theorem delay_zero_fresh (e : Eng) (p q : Nat) (hsin : e.sin = 0) (hsout : e.sout = 0) : delayNum e p q = 0 := by
  unfold delayNum; rw [hsin, hsout]; simp

/-- **Zero once drained**: when nothing is owed any more the delay is 0. -/
theorem delay_zero_drained (e : Eng) (p q : Nat) (hsin : e.sin = 0) (hd : Draining e) (h0 : e.owedLeft = 0) :
    delayNum e p q = 0 := by
  unfold delayNum Eng.owedLeft at *
  have := hd.sout
  have : e.sout = 0 := by omega
  rw [hsin, this]; simp

/-- **Never below −1 while streaming**, given the never-early bound `D ≤ ⌈N·q/p⌉` (C03): `delay·p > −p`. -/
theorem delay_gt_neg_one (e : Eng) (p q N D : Nat) (hsin : e.sin = N) (hsout : e.sout = D)
    (hearly : (D : Int) * p < (N : Int) * q + p) : -(p : Int) < delayNum e p q := by
  unfold delayNum; rw [hsin, hsout]; omega

/-- **Never below −1, for every run** (no never-early hypothesis): for a plan whose rate product is `p/q`
    (`= irate/orate` for a rational plan) and whose decidable hypotheses hold (C03 `never_early`), at every point of
    every streaming run the delay numerator `accepted·q − delivered·p` exceeds `−p`, i.e. `soxr_delay() > −1`. -/
theorem delay_gt_neg_one_every_run {α : Type} (K : Kern α) (z : α) (owed : Nat → Nat) (lp : List LStage)
    (hwf : ∀ x ∈ lp, StageWF x.cfg x.s0) (he : PlanEarlyOK lp) (hlat : PlanLatOK false lp) (p q : Nat) (hp : 0 < p) (hq : 0 < q)
    (hrate : rateOf (lp.map tstage) = (p : ℚ) / q) (ops : List (DOp α)) (F D : List α) (e : DEng α)
    (r : DRuns K z owed (DEng.fresh z (lp.map LStage.toPlan)) ops F D e) (hfl : e.fl = false) :
    -(p : Int) < (F.length : Int) * q - (D.length : Int) * p := by
  rcases Nat.eq_zero_or_pos D.length with h0 | h1
  · rw [h0]
    have : (0 : Int) ≤ (F.length : Int) * q := by positivity
    have hp' : (0 : Int) < p := by exact_mod_cast hp
    simp only [Int.ofNat_zero, Int.zero_mul, Int.sub_zero]; omega
  · have h := (Soxr.Properties.C03.never_early K z owed lp hwf he hlat ops F D e r hfl).1 h1
    rw [hrate] at h
    have hqq : (0 : ℚ) < q := by exact_mod_cast hq
    have h2 : ((D.length : ℚ) - 1) * p < (F.length : ℚ) * q := by
      have := mul_lt_mul_of_pos_right h hqq
      have e1 : ((D.length : ℚ) - 1) * ((p : ℚ) / q) * q = ((D.length : ℚ) - 1) * p := by field_simp
      rw [e1] at this; exact this
    have h3 : ((D.length : ℚ)) * p < (F.length : ℚ) * q + p := by linarith
    have h4 : (D.length : Int) * p < (F.length : Int) * q + p := by exact_mod_cast h3
    omega

/-- **Never negative at end-of-input, for every run**: the hypothesis `D ≤ owed N` of `delay_after_flush` holds at every point of
    every streaming run of a plan whose decidable hypotheses hold, the post-context clause included (`rate/2 ≤ 1 + offset + margin`;
    `margin` counts what an output WAITS for — for the cubic stage its hold-back `pre_post`, which is what makes the clause true
    of every linear-phase plan the real planner produces, the large-factor `SOXR_QQ` plans included; evaluated by the driver on
    every exported plan), provided the engine's floating-point `owed` is not below the exact rounding `⌊N/rate + ½⌋`.  So whenever
    end-of-input is said, nothing has been handed out that the final total does not contain: the delay then reported,
    `owed N − D`, is not negative. -/
theorem hearly_every_run {α : Type} (K : Kern α) (z : α) (owed : Nat → Nat) (lp : List LStage)
    (hwf : ∀ x ∈ lp, StageWF x.cfg x.s0) (he : PlanEarlyOK lp) (hlat : PlanLatOK false lp)
    (hpost : rateOf (lp.map tstage) / 2 ≤ 1 + offsetOf (lp.map tstage) + margOf lp) (hpos : 0 < rateOf (lp.map tstage))
    (ops : List (DOp α)) (F D : List α) (e : DEng α)
    (r : DRuns K z owed (DEng.fresh z (lp.map LStage.toPlan)) ops F D e) (hfl : e.fl = false)
    (howed : ⌊(F.length : ℚ) / rateOf (lp.map tstage) + 1 / 2⌋₊ ≤ owed F.length) :
    D.length ≤ owed F.length :=
  le_trans (Soxr.Properties.C03.never_early_round K z owed lp hwf he hlat hpost hpos ops F D e r hfl).2 howed

/-- **Never below −1 while streaming, for every history of the count model** (`accepted·q − delivered·p > −p`, i.e. `soxr_delay() > −1`,
    for a plan whose rate product is `p/q`). -/
theorem delay_gt_neg_one_every_history (lp : List LStage) (hwf : ∀ x ∈ lp, StageWF x.cfg x.s0) (he : PlanEarlyOK lp) (hlat : PlanLatOK false lp)
    (hne : lp ≠ []) (p q : Nat) (hp : 0 < p) (hq : 0 < q) (hrate : rateOf (lp.map tstage) = (p : ℚ) / q)
    (ops : List StreamOp) (N D : Nat) (e' : Eng) (hs : Streams (Soxr.Properties.C03.freshEng lp) ops N D e') :
    -(p : Int) < (N : Int) * q - (D : Int) * p := by
  rcases Nat.eq_zero_or_pos D with h0 | h1
  · rw [h0]
    have : (0 : Int) ≤ (N : Int) * q := by positivity
    have hp' : (0 : Int) < p := by exact_mod_cast hp
    simp only [Int.ofNat_zero, Int.zero_mul, Int.sub_zero]; omega
  · have h := Soxr.Properties.C03.never_early_counts lp hwf he hlat hne ops N D e' hs h1
    rw [hrate] at h
    have hqq : (0 : ℚ) < q := by exact_mod_cast hq
    have h2 : ((D : ℚ) - 1) * p < (N : ℚ) * q := by
      have := mul_lt_mul_of_pos_right h hqq
      have e1 : ((D : ℚ) - 1) * ((p : ℚ) / q) * q = ((D : ℚ) - 1) * p := by field_simp
      rw [e1] at this; exact this
    have h3 : ((D : ℚ)) * p < (N : ℚ) * q + p := by linarith
    have h4 : (D : Int) * p < (N : Int) * q + p := by exact_mod_cast h3
    omega

/-- **After end-of-input the delay is the number of frames still to come, never negative — for every history, no never-early
    hypothesis.**  A plan that meets the decidable hypotheses the driver evaluates on every exported plan; the engine's `owed` not
    below the exact rounding.  ANY streaming history of the freshly initialised resampler (count model: the one the per-call
    correspondence ties to the code; every such history is the shadow of one on samples, `streams_lift`), then end-of-input, then
    any requests: at every point `samples_in = 0`, `delay = −samples_out ≥ 0` and `delivered + delay = owed N`. -/
theorem delay_after_flush_every_history (num : Num) (lp : List LStage) (hwf : ∀ x ∈ lp, StageWF x.cfg x.s0) (he : PlanEarlyOK lp)
    (hlat : PlanLatOK false lp) (hpost : rateOf (lp.map tstage) / 2 ≤ 1 + offsetOf (lp.map tstage) + margOf lp)
    (hpos : 0 < rateOf (lp.map tstage)) (hne : lp ≠ [])
    (howed : ∀ n : Nat, ⌊(n : ℚ) / rateOf (lp.map tstage) + 1 / 2⌋₊ ≤ num.owed n)
    (a : Api) (ha : a.eng = Soxr.Properties.C03.freshEng lp) (e' : Eng) (ops : List StreamOp) (N D : Nat) (reqs : List Nat)
    (hs : Streams a.eng ops N D e') :
    let a1 : Api := { a with eng := e'.flush num.owed, flushing := true }
    ∀ ods a2, Calls num a1 reqs ods a2 →
      a2.eng.sin = 0 ∧ 0 ≤ -a2.eng.sout ∧ (D : Int) + ods.sum + (-a2.eng.sout) = num.owed N := by
  have hf : Soxr.Properties.C03.Fresh a.eng := by rw [ha]; exact Soxr.Properties.C03.freshEng_fresh lp hwf hne
  have hearly : D ≤ num.owed N := by
    rw [ha] at hs
    exact le_trans (Soxr.Properties.C03.never_early_round_counts lp hwf he hlat hpost hpos hne ops N D e' hs) (howed N)
  exact delay_after_flush num a e' ops N D reqs hf.sin hf.sout hf.str hs hearly

/-- the same for any phase response (`PlanEarlyGen` in place of the centred-filter clauses) -/
theorem delay_after_flush_any_phase (num : Num) (lp : List LStage) (hwf : ∀ x ∈ lp, StageWF x.cfg x.s0) (he : PlanEarlyGen lp)
    (hpost : rateOf (lp.map tstage) / 2 ≤ 1 + offsetOf (lp.map tstage) + margOf lp)
    (hpos : 0 < rateOf (lp.map tstage)) (hne : lp ≠ [])
    (howed : ∀ n : Nat, ⌊(n : ℚ) / rateOf (lp.map tstage) + 1 / 2⌋₊ ≤ num.owed n)
    (a : Api) (ha : a.eng = Soxr.Properties.C03.freshEng lp) (e' : Eng) (ops : List StreamOp) (N D : Nat) (reqs : List Nat)
    (hs : Streams a.eng ops N D e') :
    let a1 : Api := { a with eng := e'.flush num.owed, flushing := true }
    ∀ ods a2, Calls num a1 reqs ods a2 →
      a2.eng.sin = 0 ∧ 0 ≤ -a2.eng.sout ∧ (D : Int) + ods.sum + (-a2.eng.sout) = num.owed N := by
  have hf : Soxr.Properties.C03.Fresh a.eng := by rw [ha]; exact Soxr.Properties.C03.freshEng_fresh lp hwf hne
  have hearly : D ≤ num.owed N := by
    rw [ha] at hs
    exact le_trans (Soxr.Properties.C03.never_early_round_counts_gen lp hwf he hpost hpos hne ops N D e' hs) (howed N)
  exact delay_after_flush num a e' ops N D reqs hf.sin hf.sout hf.str hs hearly

/-- non-vacuity of `hearly_every_run` where it matters: the plan the real planner builds for 49 → 10 at `SOXR_QQ` (one cubic stage,
    step 4.9·2³² rounded, `pre_post = 4`, `pre = preload = 1`) meets every hypothesis, the post-context clause included … -/
def exCubic : List LStage :=
  [ { cfg := { kind := .clocked, prePost := 4, den := 4294967296, step := 21045339750, taps := 4 },
      s0 := { occ := 1, clk := 0, isz := 8192 }, lat := { pre := 1, cubic := true } } ]

example : (∀ x ∈ exCubic, StageWF x.cfg x.s0) ∧ PlanEarlyOK exCubic ∧ PlanLatOK false exCubic := by decide
example : rateOf (exCubic.map tstage) / 2 ≤ 1 + offsetOf (exCubic.map tstage) + margOf exCubic := by
  simp only [exCubic, List.map, rateOf, offsetOf, margOf, tstage, margin]; norm_num

/-- … and the same stage with half the window kept as history (`pre = preload = pre_post >> 1 = 2`, a change that passes the
    test-suite and makes the library hand out one frame too many before end-of-input) does not: the clause is what separates them -/
def exCubicHalved : List LStage :=
  [ { cfg := { kind := .clocked, prePost := 4, den := 4294967296, step := 21045339750, taps := 4 },
      s0 := { occ := 2, clk := 0, isz := 8192 }, lat := { pre := 2, cubic := true } } ]

example : ¬ (rateOf (exCubicHalved.map tstage) / 2 ≤ 1 + offsetOf (exCubicHalved.map tstage) + margOf exCubicHalved) := by
  simp only [exCubicHalved, List.map, rateOf, offsetOf, margOf, tstage, margin]; norm_num

example : roundDiv 7 2 = 4 ∧ roundDiv 5 2 = 3 ∧ roundDiv (-1) 2 = 0 := by decide

end Soxr.Properties.C15
