import SoxrModel.Cr.Stream
import SoxrModel.Cr.PullTotal
/-!
# C08 Progress: every call returns, draining terminates, latency stays bounded

Model: count model of the constant-rate engine (`Cr/Model.lean`); `Eng.process fuel` is `_soxr_process` with the
recursion `stage_process` fuelled — "returns `some`" *is* termination of the C loops, and the fuel a call needs is the
work it does.  Hypothesis throughout: `PipeWF` (decidable; evaluated by the driver on every plan the real planner
exports).  Its clauses `pre_post < input_size` and `step ≤ (pre_post+1)·den` are exactly what the proofs need: the
first is what the pinned tree violated for QQ with `io_ratio > 8192` (F3, repaired).
-/
namespace Soxr.Properties.C08
open Soxr Soxr.Cr

/-- **Every streaming call returns.**  For every well-formed state and every request size `_soxr_process` terminates;
    the number of iterations of its loop is at most the weighted amount of buffered data `Σ occᵢ·Wᵢ` plus two —
    work bounded linearly by the data the resampler holds. -/
theorem process_terminates_streaming (e : Eng) (olen : Nat) (h : Streaming e) :
    ∃ F e', (∀ fuel k, F ≤ fuel → phi 0 e.stages + 2 ≤ k → procLoop fuel k e (e.target olen) false = some e') ∧
      SameCounters e e' ∧ PipeWF e'.stages := by
  obtain ⟨F, e', h1, h2, h3, _⟩ := procLoop_stream (e.target olen) _ e false h.fl h.ne h.wf (Nat.le_refl _)
  exact ⟨F, e', h1, h2, h3⟩

/-- **Every call after end-of-input returns** and leaves the whole request (or all that is owed) in the output FIFO. -/
theorem process_terminates_flushing (e : Eng) (olen : Nat) (hfl : e.fl = true) (hne : e.stages ≠ []) (hwf : PipeWF e.stages) :
    ∃ fuel e', e.process fuel olen = some e' ∧ e.target olen ≤ e'.outOcc :=
  let ⟨fuel, e', h1, h2, _⟩ := process_flush_total e olen hfl hne hwf
  ⟨fuel, e', h1, h2⟩

theorem sum_replicate (k n : Nat) : (List.replicate k n).sum = k * n := by
  induction k with
  | zero => simp
  | succ k ih => simp [List.replicate_succ, ih, Nat.succ_mul]; omega

/-- **Draining terminates.**  After end-of-input, requests of `len > 0` frames deliver everything owed within
    `⌈owed / len⌉` calls, each of which returns; afterwards 0 frames for ever. -/
theorem drain_terminates (num : Num) (a : Api) (len : Nat) (hlen : 0 < len) (hfl : a.flushing = true) (hd : Draining a.eng) :
    ∃ a', Calls num a (List.replicate (ceilDiv a.eng.owedLeft len) len)
        (drainSpec a.eng.owedLeft (List.replicate (ceilDiv a.eng.owedLeft len) len)) a' ∧
      a'.eng.owedLeft = 0 ∧ a'.flushing = true ∧ Draining a'.eng := by
  obtain ⟨a', hc, hfl', hd', ho⟩ := calls_draining num (List.replicate (ceilDiv a.eng.owedLeft len) len) a hfl hd
  refine ⟨a', hc, ?_, hfl', hd'⟩
  rw [ho]
  have : a.eng.owedLeft ≤ (List.replicate (ceilDiv a.eng.owedLeft len) len).sum := by
    rw [sum_replicate]
    exact le_ceilDiv_mul hlen
  omega

/-- … and from then on nothing, whatever is requested. -/
theorem drained_stays_empty (num : Num) (a : Api) (reqs : List Nat) (hfl : a.flushing = true) (hd : Draining a.eng)
    (h0 : a.eng.owedLeft = 0) : ∀ ods a', Calls num a reqs ods a' → ods.sum = 0 := by
  intro ods a' hc
  obtain ⟨a'', hc', _⟩ := calls_draining num reqs a hfl hd
  obtain ⟨e1, _⟩ := calls_det num reqs a _ _ _ _ hc hc'
  rw [e1, drainSpec_sum, h0]; simp

/-- **Latency is bounded by the plan, not by the stream.**  Whenever a streaming call ends with fewer frames than were
    asked for, every stage FIFO holds fewer frames than its `input_size`. -/
theorem latency_bounded (e e' : Eng) (olen fuel : Nat) (h : e.process fuel olen = some e')
    (hstarved : (e'.outOcc : Int) < e.target olen) : ∀ x ∈ e'.stages, x.st.occ < x.st.isz := by
  intro x hx
  have := process_starved e olen fuel e' h hstarved x hx
  exact (Stage.short_true_iff x).mp this

/-- Every streaming history can be run to its end: each of its calls returns. -/
theorem every_history_runs (e : Eng) (ops : List StreamOp) (h : Streaming e) : ∃ F D e', Streams e ops F D e' :=
  streams_total ops e h

/-- **A pull loop over `soxr_output` always terminates.**  For every well-formed engine, every request and EVERY finite
    behaviour of the input function (any supplies, end-of-input or failure at any call) there is an amount of fuel from
    which on `soxr_output` returns: each iteration of its `do … while` consumes one answer or leaves the loop
    (at most `#answers + 1` iterations), and every `soxr_output_no_callback` inside it terminates. -/
theorem pull_loop_terminates (num : Num) (a : Api) (len0 : Nat) (script : List Supply) (hwf : PipeWF a.eng.stages)
    (hne : a.eng.stages ≠ []) : ∃ F, ∀ fuel, F ≤ fuel → (a.output num fuel len0 script).isSome = true :=
  output_total num a len0 script ⟨hwf, hne⟩

/-! ## non-vacuity -/
def exEng : Eng := { stages :=
  [ { cfg := { kind := .clocked, prePost := 15, den := 80, step := 147, poly0 := true, taps := 16 }, st := { occ := 8, clk := 40, isz := 8192 } },
    { cfg := { kind := .half, prePost := 32 }, st := { occ := 16, isz := 8192 } },
    { cfg := { kind := .dft, L := 2, dftLen := 2048, numTaps := 409, M := 1 }, st := { occ := 102, clk := 0, isz := 1024 } } ] }

example : Streaming exEng := ⟨rfl, by decide, by decide⟩

end Soxr.Properties.C08
