import SoxrModel.Cr.Model
namespace Soxr.Properties.C08
end Soxr.Properties.C08
