import SoxrModel.Config.Lemmas
import SoxrModel.Config.PlannerLemmas
import SoxrModel.Config.PlannerRat
/-!
# C09 Every configuration is rejected with an error or yields a working resampler

Model: `SoxrModel/Config/Model.lean` — the decision logic of `soxr_create` (`validate`), of the validation block at the
top of `_soxr_init` (`engineValidate`), of the `SOXR_*` overrides (`runtimeNum`, `runtimeFlag`, `applyEnv`) and the error
state machine of a live `soxr_t` (`step`, `run`), on binary64 values as exact dyadics with IEEE comparisons.  Tied to
`/repo` on every run by the generated recipe table / override ranges / literals (`Config/Generated.lean`) and by the
correspondence of `checks/c09.py` (verdict, error string, engine, stored specs of thousands of generated `soxr_create`
calls; every answer of random API call sequences).

What is proved here, for ALL values of every field (NaN, infinities, denormals included) and ALL call sequences:
`accepted → ranges` (no NaN gets through), `ranges → accepted`, the order in which errors are reported, the verdict for
every recipe of the generated table, the clamps of the environment overrides, and that a recorded error is sticky on
every path.  The deviations the pinned tree had (NaN fields, `io_spec.e` ignored, two negative rates, the split/split path
of `soxr_process`, `soxr_engine` after a fatal error) have been repaired in `/repo` (findings F21, F24..F28) and the
model moved with the code; `pre_repair_range_test_passes_nan` keeps the historical witness for the old range tests.
`soxr_set_error` is still modelled as written (`set_error_as_written`).

NOT proved (not provable on this model): `accepted → the planner's plan is well-formed` (floating-point planner); the
check decides `PipeWF` on the exported plan of sampled accepted configurations and runs them under sanitizers instead.
-/
namespace Soxr.Properties.C09
open Soxr.Config Soxr.Config.Dbl

/-! ## accepted → ranges -/

/-- **Accepted ⇒ every validated quantity is inside its range** (engine validation, constant-rate engines). -/
theorem accepted_ranges (r : Dbl) (q : QSpec) (h : engineValidate r q = none) :
    (eq q.precision zero = true ∨ (le c15 q.precision = true ∧ le q.precision c33 = true)) ∧
    (le zero q.phase = true ∧ le q.phase c100 = true) ∧
    (le tbwLo (tbw0 q) = true ∧ le (tbw0 q) tbwHi = true) ∧
    le pbLo q.pb = true ∧ le q.sb sbHi = true ∧
    gt r zero = true ∧ lt r cFactorMax = true := by
  obtain ⟨_, h2, h3, h4, h5, h6, h7⟩ := (engineValidate_none_iff r q).1 h
  have hb := range_of_test_false pbLo sbHi q.pb
  refine ⟨?_, ?_, ?_, ?_, ?_, ?_, ?_⟩
  · unfold precisionTest at h4
    cases hz : eq q.precision zero
    · right
      exact range_of_test_false c15 c33 q.precision (by simpa [ne, hz] using h4)
    · exact Or.inl rfl
  · exact range_of_test_false zero c100 q.phase (by simpa [phaseTest] using h7)
  · exact range_of_test_false tbwLo tbwHi (tbw0 q) (by simpa [tbwTest] using h2)
  · unfold bandTest at h3
    cases h1 : le pbLo q.pb
    · simp [h1] at h3
    · rfl
  · unfold bandTest at h3
    cases h1 : le q.sb sbHi
    · simp [h1] at h3
    · rfl
  · simpa [notPositiveTest] using h5
  · simpa [tooLargeTest] using h6

/-- **No NaN gets through**: none of the four double fields of an accepted quality spec is NaN. -/
theorem accepted_fields_not_nan (r : Dbl) (q : QSpec) (h : engineValidate r q = none) :
    q.precision.isNaN = false ∧ q.phase.isNaN = false ∧ q.pb.isNaN = false ∧ q.sb.isNaN = false := by
  obtain ⟨h1, h2, _, h4, h5, _, _⟩ := accepted_ranges r q h
  refine ⟨?_, not_nan_of_le_right _ _ h2.1, not_nan_of_le_right _ _ h4, not_nan_of_le_left _ _ h5⟩
  rcases h1 with h1 | h1
  · generalize q.precision = p at h1
    cases p with
    | nan => simp [eq] at h1
    | inf s => rfl
    | fin s m e => rfl
  · exact not_nan_of_le_right _ _ h1.1

/-- **Inside every range ⇒ accepted** (the converse; `imagingTest` is the one cross-field condition). -/
theorem ranges_accepted (r : Dbl) (q : QSpec) (himg : imagingTest r q = false)
    (hp : eq q.precision zero = true ∨ (le c15 q.precision = true ∧ le q.precision c33 = true))
    (hph : le zero q.phase = true ∧ le q.phase c100 = true)
    (htbw : le tbwLo (tbw0 q) = true ∧ le (tbw0 q) tbwHi = true)
    (hpb : le pbLo q.pb = true) (hsb : le q.sb sbHi = true)
    (hr0 : gt r zero = true) (hr1 : lt r cFactorMax = true) : engineValidate r q = none := by
  rw [engineValidate_none_iff]
  refine ⟨himg, ?_, ?_, ?_, ?_, ?_, ?_⟩
  · exact test_false_of_range _ _ _ htbw.1 htbw.2
  · simp [bandTest, hpb, hsb]
  · unfold precisionTest
    rcases hp with h | h
    · simp [ne, h]
    · simp [h.1, h.2]
  · simp [notPositiveTest, hr0]
  · simp [tooLargeTest, hr1]
  · exact test_false_of_range _ _ _ hph.1 hph.2

/-- the HQ recipe, used by the examples -/
def hq : QSpec := qualitySpec 4 0

example : engineValidate (div (ofNat 44100) (ofNat 48000)) hq = none := by decide +kernel
example : engineValidate (ofNat 2) { hq with precision := ofNat 14 } = some .precision := by decide +kernel
example : engineValidate (ofNat 2) { hq with phase := ofNat 101 } = some .phase := by decide +kernel

/-- a NaN in any of the four fields is rejected, each with the message of the first test it fails -/
example : engineValidate (ofNat 2) { hq with precision := .nan } = some .precision ∧
    engineValidate (ofNat 2) { hq with phase := .nan } = some .phase ∧
    engineValidate (ofNat 2) { hq with pb := .nan } = some .transitionBandwidth ∧
    engineValidate (ofNat 2) { hq with sb := .nan } = some .transitionBandwidth := by decide +kernel

/-- **Historical witness (finding F26, repaired):** the expression the range tests had before — `lo > x || x > hi` —
    lets every NaN through, whatever the bounds. -/
theorem pre_repair_range_test_passes_nan (lo hi : Dbl) : preRepairRangeTest lo hi .nan = false := by
  cases lo <;> cases hi <;> rfl

/-- error precedence inside `_soxr_init`: each message is returned exactly when its test is the first that fires -/
theorem engine_error_precedence (r : Dbl) (q : QSpec) :
    (engineValidate r q = some .imaging ↔ imagingTest r q = true) ∧
    (engineValidate r q = some .transitionBandwidth ↔ imagingTest r q = false ∧ tbwTest q = true) ∧
    (engineValidate r q = some .transitionBand ↔ imagingTest r q = false ∧ tbwTest q = false ∧ bandTest q = true) ∧
    (engineValidate r q = some .precision ↔
      imagingTest r q = false ∧ tbwTest q = false ∧ bandTest q = false ∧ precisionTest q = true) ∧
    (engineValidate r q = some .factorNotPositive ↔
      imagingTest r q = false ∧ tbwTest q = false ∧ bandTest q = false ∧ precisionTest q = false ∧ notPositiveTest r = true) ∧
    (engineValidate r q = some .factorTooLarge ↔
      imagingTest r q = false ∧ tbwTest q = false ∧ bandTest q = false ∧ precisionTest q = false ∧ notPositiveTest r = false ∧
      tooLargeTest r = true) ∧
    (engineValidate r q = some .phase ↔
      imagingTest r q = false ∧ tbwTest q = false ∧ bandTest q = false ∧ precisionTest q = false ∧ notPositiveTest r = false ∧
      tooLargeTest r = false ∧ phaseTest q = true) :=
  engineValidate_precedence r q

/-! ## `soxr_create` -/

/-- **What an accepted `soxr_create` guarantees**: no constructor error, datatype codes below 8, the engine is the one
    `selectEngine` names, the stored specs are the rescaled quality spec and the overridden runtime spec; when the
    resamplers were built the ratio is positive and passed the engine's validation (constant-rate engines: every range
    test; variable-rate engine: ratio below 2^30). -/
theorem create_accepted (c : Config) (a : Accepted) (h : validate c = .ok a) :
    qErr c = false ∧ ioErr c = false ∧ a.engine = selectEngine (effectiveQ c) c.env c.cpu ∧ a.q = effectiveQ c ∧
    a.rt = effectiveRt c ∧ a.ioRatio = ioRatioOf c.irate c.orate ∧
    (a.ready = true → c.channels ≠ 0 ∧ gt a.ioRatio zero = true ∧ (a.engine ≠ .vr32 → engineValidate a.ioRatio a.q = none) ∧
      (a.engine = .vr32 → lt a.ioRatio cVrFactorMax = true)) ∧
    (a.ready = false → c.channels = 0 ∨ eq a.ioRatio zero = true) := by
  unfold validate at h
  cases hq : qErr c
  case true => simp [hq] at h
  case false =>
  cases hio : ioErr c
  case true => simp [hq, hio] at h
  case false =>
  simp only [hq, hio, if_false, Bool.false_eq_true] at h
  split at h
  · next hc =>
    split at h
    · cases h
    · next hpos =>
      split at h
      · cases h
      · next hcr =>
        injection h with h; subst h
        refine ⟨rfl, rfl, rfl, rfl, rfl, rfl, ?_, ?_⟩
        · intro _
          refine ⟨hc.1, by simpa using hpos, ?_, ?_⟩
          · intro hne
            simpa [engineCreate, hne] using hcr
          · intro hvr
            have hvr' : selectEngine (effectiveQ c) c.env c.cpu = .vr32 := hvr
            cases hl : lt (ioRatioOf c.irate c.orate) cVrFactorMax
            · simp [engineCreate, hvr', hl] at hcr
            · rfl
        · intro hf; cases hf
  · next hc =>
    injection h with h; subst h
    refine ⟨rfl, rfl, rfl, rfl, rfl, rfl, ?_, ?_⟩
    · intro hf; cases hf
    · intro _
      by_cases h0 : c.channels = 0
      · exact Or.inl h0
      · right
        have : ¬ (ne (ioRatioOf c.irate c.orate) zero = true) := fun hn => hc ⟨h0, hn⟩
        simpa [ne] using this

/-- **Accepted and built on a constant-rate engine ⇒ all ranges hold** (corollary of the two theorems above). -/
theorem create_accepted_ranges (c : Config) (a : Accepted) (h : validate c = .ok a) (hr : a.ready = true) (he : a.engine ≠ .vr32) :
    (eq a.q.precision zero = true ∨ (le c15 a.q.precision = true ∧ le a.q.precision c33 = true)) ∧
    (le zero a.q.phase = true ∧ le a.q.phase c100 = true) ∧
    gt a.ioRatio zero = true ∧ lt a.ioRatio cFactorMax = true := by
  obtain ⟨_, _, _, _, _, _, h7, _⟩ := create_accepted c a h
  obtain ⟨g1, g2, _, _, _, g6, g7⟩ := accepted_ranges _ _ ((h7 hr).2.2.1 he)
  exact ⟨g1, g2, g6, g7⟩

/-- **Order of the errors of `soxr_create`**: quality-spec error first, then datatypes, then the ratio test of
    `soxr_set_io_ratio`, then the engine's own validation. -/
theorem create_error_precedence (c : Config) :
    (qErr c = true → validate c = .error .invalidQuality) ∧
    (qErr c = false → ioErr c = true → validate c = .error .invalidDatatype) ∧
    (qErr c = false → ioErr c = false → c.channels ≠ 0 → ne (ioRatioOf c.irate c.orate) zero = true →
      gt (ioRatioOf c.irate c.orate) zero = false → validate c = .error .ratioOutOfRange) ∧
    (∀ e, qErr c = false → ioErr c = false → c.channels ≠ 0 → gt (ioRatioOf c.irate c.orate) zero = true →
      engineCreate (selectEngine (effectiveQ c) c.env c.cpu) (ioRatioOf c.irate c.orate) (effectiveQ c) = some e →
      validate c = .error e) := by
  refine ⟨?_, ?_, ?_, ?_⟩
  · intro h; simp [validate, h]
  · intro h1 h2; simp [validate, h1, h2]
  · intro h1 h2 h3 h4 h5; simp [validate, h1, h2, h3, h4, h5]
  · intro e h1 h2 h3 h4 h5
    have hne := ne_zero_of_gt_zero _ h4
    simp [validate, h1, h2, h3, hne, h4, h5]

/-- **Datatype codes outside 0..7 are rejected** (`(itype | otype) >= 8` is the same as one of them being `>= 8`). -/
theorem bad_datatype_rejected (c : Config) (io : IoSpec) (hio : c.io = some io) (hq : qErr c = false)
    (h : 8 ≤ io.itype ∨ 8 ≤ io.otype) : validate c = .error .invalidDatatype := by
  refine (create_error_precedence c).2.1 hq ?_
  have : 8 ≤ io.itype ||| io.otype := by
    rcases h with h | h
    · exact Nat.le_trans h Nat.left_le_or
    · exact Nat.le_trans h Nat.right_le_or
  simp [ioErr, hio, this]

theorem good_datatype_passes (c : Config) (io : IoSpec) (hio : c.io = some io) (he : io.e = false) (hi : io.itype < 8)
    (ho : io.otype < 8) : ioErr c = false := by
  have : io.itype ||| io.otype < 2 ^ 3 := Nat.or_lt_two_pow hi ho
  simp [ioErr, hio, he]; omega

/-- **The constructor's own error flag is honoured**: `soxr_io_spec` marks invalid datatypes in `.e` (and leaves both
    codes 0); `soxr_create` rejects such a spec with the datatype message (finding F21, repaired). -/
theorem io_constructor_error_rejected (c : Config) (io : IoSpec) (hio : c.io = some io) (hq : qErr c = false)
    (he : io.e = true) : validate c = .error .invalidDatatype :=
  (create_error_precedence c).2.1 hq (by simp [ioErr, hio, he])

/-- **One rate given, the other zero ⇒ rejected** (when channels are given): the ratio is set to −1. -/
theorem one_rate_zero_rejected (c : Config) (hq : qErr c = false) (hio : ioErr c = false) (hc : c.channels ≠ 0)
    (h : (ne c.irate zero = true ∧ ne c.orate zero = false) ∨ (ne c.irate zero = false ∧ ne c.orate zero = true)) :
    validate c = .error .ratioOutOfRange := by
  have hr : ioRatioOf c.irate c.orate = minusOne := by
    unfold ioRatioOf
    split
    · rfl
    · rcases h with ⟨h1, h2⟩ | ⟨h1, h2⟩ <;> simp [h1, h2]
  refine (create_error_precedence c).2.2.1 hq hio hc ?_ ?_
  · rw [hr]; decide +kernel
  · rw [hr]; decide +kernel

/-- **A negative rate ⇒ rejected**, whatever the other rate is (each rate, not only the quotient, must be positive;
    finding F27, repaired). -/
theorem negative_rate_rejected (c : Config) (hq : qErr c = false) (hio : ioErr c = false) (hc : c.channels ≠ 0)
    (h : lt c.irate zero = true ∨ lt c.orate zero = true) : validate c = .error .ratioOutOfRange := by
  have hr : ioRatioOf c.irate c.orate = minusOne := by
    unfold ioRatioOf
    rcases h with h | h <;> simp [h]
  refine (create_error_precedence c).2.2.1 hq hio hc ?_ ?_
  · rw [hr]; decide +kernel
  · rw [hr]; decide +kernel

/-- …and without channels nothing is built from it either: a negative rate never yields a built resampler. -/
theorem negative_rate_never_ready (c : Config) (a : Accepted) (h : lt c.irate zero = true ∨ lt c.orate zero = true)
    (hv : validate c = .ok a) : a.ready = false := by
  obtain ⟨_, _, _, _, _, hr, h7, _⟩ := create_accepted c a hv
  cases hrd : a.ready
  · rfl
  · exfalso
    have hpos := (h7 hrd).2.1
    have hm : ioRatioOf c.irate c.orate = minusOne := by
      unfold ioRatioOf
      rcases h with h | h <;> simp [h]
    rw [hr, hm] at hpos
    revert hpos; decide +kernel

example : isReady (validate { irate := .fin true 44100 0, orate := .fin true 48000 0, channels := 1, q := none, io := none,
                              rt := none, env := {}, cpu := ⟨true, true⟩ }) = false := by decide +kernel

/-- **A NaN rate ⇒ rejected** (the quotient is NaN, which is not `> 0`). -/
theorem nan_rate_rejected (c : Config) (hq : qErr c = false) (hio : ioErr c = false) (hc : c.channels ≠ 0)
    (h : c.irate = .nan ∨ c.orate = .nan) : validate c = .error .ratioOutOfRange := by
  have hnn : ne .nan zero = true := by decide
  have hr : ioRatioOf c.irate c.orate = .nan ∨ ioRatioOf c.irate c.orate = minusOne := by
    unfold ioRatioOf
    split
    · exact Or.inr rfl
    · rcases h with h | h
      · rw [h]; simp only [hnn, ↓reduceIte]
        split
        · rw [div_nan_left]; simp only [hnn, ↓reduceIte]; exact Or.inl trivial
        · exact Or.inr rfl
      · rw [h]; simp only [hnn, ↓reduceIte]
        split
        · rw [div_nan_right]; simp only [hnn, ↓reduceIte]; exact Or.inl trivial
        · exact Or.inr rfl
  refine (create_error_precedence c).2.2.1 hq hio hc ?_ ?_
  · rcases hr with hr | hr <;> rw [hr] <;> decide +kernel
  · rcases hr with hr | hr <;> rw [hr] <;> decide +kernel

/-! ## every recipe of `soxr_quality_spec` -/

/-- the fields the validation looks at do not depend on the flag word or on recipe bits beyond `0x7f` -/
theorem qualitySpec_fields (recipe flags : Nat) :
    (qualitySpec recipe flags).precision = (qualitySpec (recipe % 128) 0).precision ∧
    (qualitySpec recipe flags).phase = (qualitySpec (recipe % 128) 0).phase ∧
    (qualitySpec recipe flags).pb = (qualitySpec (recipe % 128) 0).pb ∧
    (qualitySpec recipe flags).sb = (qualitySpec (recipe % 128) 0).sb ∧
    (qualitySpec recipe flags).e = (qualitySpec (recipe % 128) 0).e := by
  unfold qualitySpec
  rw [Nat.mod_mod]
  cases Gen.recipeTable.find? (fun r => r.1 == recipe % 128) with
  | none => exact ⟨rfl, rfl, rfl, rfl, rfl⟩
  | some x => obtain ⟨_, _, _, _, _, _, _, _⟩ := x; exact ⟨rfl, rfl, rfl, rfl, rfl⟩

/-- the tests that do not involve the ratio, on the stored (rescaled) spec -/
def staticTests (q : QSpec) : Bool :=
  tbwTest (rescale q) || bandTest (rescale q) || precisionTest (rescale q) || phaseTest (rescale q) ||
  gt (sub (rescale q).sb one) (sub one (div (rescale q).pb tolerance))

theorem staticTests_congr (q q' : QSpec) (h1 : q.precision = q'.precision) (h2 : q.phase = q'.phase) (h3 : q.pb = q'.pb)
    (h4 : q.sb = q'.sb) : staticTests q = staticTests q' := by
  simp only [staticTests, tbwTest, bandTest, precisionTest, phaseTest, tbw0, rescale, h1, h2, h3, h4]

/-- decided over the generated table: all 128 recipe words -/
theorem recipe_table_passes : ∀ k < 128, (qualitySpec k 0).e = false → staticTests (qualitySpec k 0) = false := by
  decide +kernel

/-- **Every recipe is accepted**: for every recipe word and every flag word for which `soxr_quality_spec` reports no
    error, every channel count ≥ 1, every valid io spec and every ratio in `(0, 2^31 - 1)` (`(0, 2^30)` when the flag word
    asks for the variable-rate engine), `soxr_create` builds a resampler. -/
theorem every_recipe_accepted (c : Config) (recipe flags : Nat) (hq : c.q = some (qualitySpec recipe flags))
    (he : (qualitySpec recipe flags).e = false) (hio : ioErr c = false) (hc : c.channels ≠ 0)
    (hr0 : gt (ioRatioOf c.irate c.orate) zero = true) (hr1 : lt (ioRatioOf c.irate c.orate) cFactorMax = true)
    (hvr : hasFlag (qualitySpec recipe flags).flags Gen.flagVR = true → lt (ioRatioOf c.irate c.orate) cVrFactorMax = true) :
    ∃ a, validate c = .ok a ∧ a.ready = true := by
  obtain ⟨f1, f2, f3, f4, f5⟩ := qualitySpec_fields recipe flags
  have hst : staticTests (qualitySpec recipe flags) = false := by
    rw [staticTests_congr _ _ f1 f2 f3 f4]
    exact recipe_table_passes (recipe % 128) (Nat.mod_lt _ (by decide)) (by rw [← f5]; exact he)
  have hqe : qErr c = false := by simp [qErr, hq, he]
  have heff : effectiveQ c = rescale (qualitySpec recipe flags) := by simp [effectiveQ, hq]
  simp only [staticTests, Bool.or_eq_false_iff] at hst
  obtain ⟨⟨⟨⟨t1, t2⟩, t3⟩, t4⟩, t5⟩ := hst
  have hev : engineValidate (ioRatioOf c.irate c.orate) (effectiveQ c) = none := by
    rw [heff, engineValidate_none_iff]
    refine ⟨?_, t1, t2, t3, by simp [notPositiveTest, hr0], by simp [tooLargeTest, hr1], t4⟩
    simp [imagingTest, t5]
  have hne := ne_zero_of_gt_zero _ hr0
  have hcr : engineCreate (selectEngine (effectiveQ c) c.env c.cpu) (ioRatioOf c.irate c.orate) (effectiveQ c) = none := by
    unfold engineCreate
    split
    · next hv =>
      have hf : hasFlag (effectiveQ c).flags Gen.flagVR = true := by
        cases hh : hasFlag (effectiveQ c).flags Gen.flagVR
        · exfalso
          unfold selectEngine at hv
          simp only [hh, Bool.false_eq_true, if_false] at hv
          repeat' split at hv
          all_goals cases hv
        · rfl
      have : (effectiveQ c).flags = (qualitySpec recipe flags).flags := by rw [heff]; rfl
      rw [this] at hf
      simp [hvr hf]
    · exact hev
  exact (isReady_iff _).1 (by simp [validate, hqe, hio, hc, hne, hr0, hcr, isReady])

example : isReady (validate
    { irate := ofNat 44100, orate := ofNat 48000, channels := 2, q := some (qualitySpec 6 8), io := none,
      rt := none, env := {}, cpu := ⟨true, true⟩ }) = true := by decide +kernel

/-! ## the `SOXR_*` overrides -/

/-- **`runtime_num` clamps**: the field keeps the caller's value or takes a value inside `[min, max]`. -/
theorem runtimeNum_clamp (env : Option String) (lo hi : Int) (field : Nat) (hlo : 0 ≤ lo) :
    runtimeNum env lo hi field = field ∨
    (lo ≤ (runtimeNum env lo hi field : Int) ∧ (runtimeNum env lo hi field : Int) ≤ hi) := by
  unfold runtimeNum
  cases env with
  | none => exact Or.inl rfl
  | some e =>
    simp only []
    split
    · next h => right; rw [Int.toNat_of_nonneg (by omega)]; exact h
    · exact Or.inl rfl

/-- the ranges measured on the real `soxr_create` (generated) are the documented ones -/
theorem env_ranges : numRange 0 = (8, 15) ∧ numRange 1 = (8, 20) ∧ numRange 2 = (100, 800) ∧ numRange 3 = (0, 64) ∧
    flagField 0 = (2, 0) ∧ flagField 1 = (1, 2) ∧ flagField 2 = (1, 3) := by decide

/-- **A runtime spec inside the documented ranges stays inside them under every environment.** -/
theorem applyEnv_in_range (env : Env) (r : RtSpec) (h1 : 8 ≤ r.minDft ∧ r.minDft ≤ 15) (h2 : 8 ≤ r.largeDft ∧ r.largeDft ≤ 20) :
    (8 ≤ (applyEnv env r).minDft ∧ (applyEnv env r).minDft ≤ 15) ∧
    (8 ≤ (applyEnv env r).largeDft ∧ (applyEnv env r).largeDft ≤ 20) := by
  obtain ⟨e0, e1, _⟩ := env_ranges
  have k0 : (applyEnv env r).minDft = runtimeNum env.minDft 8 15 r.minDft := by
    show runtimeNum env.minDft (numRange 0).1 (numRange 0).2 r.minDft = _
    rw [e0]
  have k1 : (applyEnv env r).largeDft = runtimeNum env.largeDft 8 20 r.largeDft := by
    show runtimeNum env.largeDft (numRange 1).1 (numRange 1).2 r.largeDft = _
    rw [e1]
  rw [k0, k1]
  constructor
  · rcases runtimeNum_clamp env.minDft 8 15 r.minDft (by decide) with h | h
    · rw [h]; exact h1
    · omega
  · rcases runtimeNum_clamp env.largeDft 8 20 r.largeDft (by decide) with h | h
    · rw [h]; exact h2
    · omega

/-- **`runtime_flag`**: the flag word is unchanged, or exactly the addressed bit field is replaced by a value that fits. -/
theorem runtimeFlag_cases (env : Option String) (nBits shift flags : Nat) :
    runtimeFlag env nBits shift flags = flags ∨
    ∃ v, v ≤ 2 ^ nBits - 1 ∧
      runtimeFlag env nBits shift flags = (flags ^^^ (flags &&& ((2 ^ nBits - 1) <<< shift))) ||| (v <<< shift) := by
  unfold runtimeFlag
  cases env with
  | none => exact Or.inl rfl
  | some e =>
    simp only []
    split
    · next h => exact Or.inr ⟨(atoi e).toNat, by omega, rfl⟩
    · exact Or.inl rfl

example : runtimeNum (some "12") 8 15 10 = 12 ∧ runtimeNum (some "16") 8 15 10 = 10 ∧ runtimeNum (some " +9x") 8 15 10 = 9 ∧
    runtimeNum (some "4294967306") 8 15 11 = 10 ∧ runtimeFlag (some "3") 2 0 8 = 11 := by decide +kernel

/-! ## sticky error -/

/-- a live resampler with the error `e` recorded, interleaved on at least one side -/
def exErr : Api :=
  { error := some .nullOutput, channels := 1, ioRatio := ofNat 2, built := true, wiped := false, q := hq, itype := 0, otype := 0,
    engine := .cr32s }

/-- **Sticky error.**  Once `p->error` is set, for EVERY later call sequence that contains neither `soxr_clear` nor
    `soxr_set_error` — on every path, whatever the layouts: the error is still recorded at the end, every `soxr_process`
    returns it with `odone = 0`, every `soxr_output` and `soxr_delay` returns 0, `soxr_set_io_ratio` and `soxr_error`
    return it. -/
theorem sticky_error (s : Api) (e : ErrorKind) (ops : List Op) (h : s.error = some e) (hq : ∀ op ∈ ops, op.quiet = true) :
    (run s ops).1.error = some e ∧ Answers (stickyRet e) ops (run s ops).2 :=
  run_sticky ops s e h hq

example : (run exErr [.process false false 10 .quiet, .output false 5 .quiet, .delay, .setIoRatio (ofNat 2), .error]).2 =
    [.frames .zero (some .nullOutput), .count .zero, .count .zero, .status (some .nullOutput), .status (some .nullOutput)] := by
  decide +kernel

/-- the split-input/split-output path too (finding F25, repaired: that branch of `soxr_process` used not to test `p->error`) -/
example : (step { exErr with itype := 4, otype := 4 } (.process false false 100 .quiet)).2 = .frames .zero (some .nullOutput) := by
  decide +kernel

/-- **How errors get recorded**: a NULL output buffer with `olen > 0`, or a failing input function, on a healthy
    resampler records the error at once and (NULL buffer) delivers nothing. -/
theorem error_recorded (s : Api) (olen : Nat) (fn : FnObs) (h : s.error = none) (hb : s.built = true) (hl : 0 < olen) :
    (output s true olen fn).1.error = some .nullOutput ∧ (output s true olen fn).2 = .count .zero ∧
    (s.otype &&& Gen.splitBit = 0 → (output s false olen .failed).1.error = some .inputFailure) := by
  refine ⟨by simp [output, h, hb, hl], by simp [output, h, hb, hl], ?_⟩
  intro hsplit
  simp [output, h, hb]

/-- **`soxr_clear` resets the error**: afterwards no error is recorded, unless re-creating the engine (recipes with
    RESET_ON_CLEAR) fails — then that engine error is recorded — or the resampler had been torn down by a fatal error
    (control block zeroed): then `soxr_clear` refuses, returns the error and leaves everything as it is. -/
theorem clear_resets_error (s : Api) :
    (clear s).1.error = none ∨ (∃ e, (clear s).1.error = some e ∧ engineCreate s.engine s.ioRatio s.q = some e) ∨
    (s.wiped = true ∧ s.error ≠ none ∧ clear s = (s, .status s.error)) := by
  unfold clear
  split
  · next h =>
    simp only [Bool.and_eq_true, Option.isSome_iff_ne_none] at h
    exact Or.inr (Or.inr ⟨h.2, h.1, rfl⟩)
  · simp only []
    split
    · split
      · unfold setIoRatio
        simp only []
        repeat' split
        all_goals first
          | exact Or.inl rfl
          | (next he => exact Or.inr (Or.inl ⟨_, rfl, he⟩))
      · exact Or.inl rfl
    · exact Or.inl rfl

/-- **`soxr_set_error` as written** (`if (!p->error && p->error != error) return p->error;`): it can never record an
    error on a healthy resampler, and it overwrites — or clears — an error that is already recorded. -/
theorem set_error_as_written (s : Api) (x : Option ErrorKind) :
    (s.error = none → (setError s x).1.error = none) ∧ (∀ e, s.error = some e → (setError s x).1.error = x) := by
  constructor
  · intro h
    unfold setError
    split
    · exact h
    · next hn => cases x <;> simp_all
  · intro e h
    unfold setError
    split
    · next hn => rw [h] at hn; cases hn.1
    · rfl

/-! ## the stage planner's rate decomposition (`planRates`, Config/Planner.lean)

The model mirrors the stage-determination loop of `_soxr_init` statement by statement and is compared with the real
planner's exported plan on every run (checks/c09.py, stage `planner`).  Proved here for ALL ratios (any binary64 value)
and ALL knob settings: the loops end, and the integer skeleton of the plan is bounded. -/

/-- **The `while (!n++)` loop of the planner always ends**: from any state three passes suffice (each repetition uses up
    one of the two reasons to repeat — splitting off a post stage, bumping `mode` from 0), and more fuel changes nothing. -/
theorem planner_loop_total (k : Knobs) (st : PSt) :
    (planLoop k 3 st).again = false ∧ ∀ g, planLoop k (3 + g) st = planLoop k 3 st :=
  planLoop_three k st

/-- **`planRates` is total**: for every ratio, every knob setting, the plan it returns is one the loop arrived at by itself
    (never a state cut off by the pass limit of the executable model). -/
theorem planner_terminates (r : Dbl) (k : Knobs) (g : Bool) : (planRates r k g).finished = true := by
  rw [(planRates_fields r k g).2.2.2.2.2.2.2.1, planState_finished]; rfl

/-- **The halving loop `for (i = (int)(.5 * arbM); i >>= 1; …)` ends** within 31 rounds for every non-negative `int`: the 64
    rounds the model allows are never used up, so its result does not depend on that limit.  (`i` is negative only for
    factors `>= 2^32`, which `_soxr_init` rejects before — finding F4; there the C loop itself never ends.) -/
theorem planner_halving_total (i : Int) (a : Dbl) (s : Nat) (ok : Bool) (h0 : 0 ≤ i) (h1 : i < 2 ^ 31) (g : Nat) :
    halve (64 + g) i a s ok = halve 64 i a s ok ∧ (halve 64 i a s ok).2.1 ≤ s + 31 := by
  have e31 : halve 64 i a s ok = halve 31 i a s ok := halve_fuel 31 33 i a s ok h0 h1
  refine ⟨?_, ?_⟩
  · have : 64 + g = 31 + (33 + g) := by omega
    rw [this, halve_fuel 31 (33 + g) i a s ok h0 h1, e31]
  · rw [e31]; exact halve_shr_le 31 i a s ok

/-- what a denominator search returns is a denominator within `maxL` whose multiple of `frac` passed the planner's own
    test `fabs(try / (frac * i) - 1) <= epsilon`, with `try = (int)(frac * i + .5)` -/
theorem planner_search_spec (frac eps : Dbl) (maxL i : Nat) (t : Int) (h : search frac eps maxL 1 = some (i, t)) :
    1 ≤ i ∧ i ≤ maxL ∧ t = (add (mul frac (ofNat i)) half).truncInt ∧
    le (abs (sub (div (ofInt t) (mul frac (ofNat i))) one)) eps = true := by
  obtain ⟨h1, h2, h3, h4⟩ := search_range frac eps maxL 1 i t h
  exact ⟨h1, by omega, h3, h4⟩

/-- **Bounds of every plan** (the integer skeleton the well-formedness clauses rest on): the denominator of the
    arbitrary-ratio stage is at most `max(2048, maxL)`; `postM` is 1 or 2; `postL` is 1 or a power of two from 4 to 256;
    `preL >= 1`; at most 65 half-band stages (31 for accepted ratios, `planner_halving_total`); at most `shr + 3` stages. -/
theorem planner_bounds (r : Dbl) (k : Knobs) (g : Bool) :
    (planRates r k g).arbL ≤ lMax k ∧
    ((planRates r k g).postM = 1 ∨ (planRates r k g).postM = 2) ∧
    (∃ b, b ≤ 8 ∧ b ≠ 1 ∧ (planRates r k g).postL = 2 ^ b) ∧
    1 ≤ (planRates r k g).preL ∧
    (planRates r k g).shr ≤ 65 ∧
    (planRates r k g).numStages ≤ (planRates r k g).shr + 3 := by
  obtain ⟨f1, f2, _, _, f5, f6, _, _, f9⟩ := planRates_fields r k g
  have h := planState_inv r k
  obtain ⟨b, h1, h2, h3⟩ := h.postL
  refine ⟨?_, by rw [f6]; exact h.postM, ⟨b, h1, h3, by rw [f5]; exact h2⟩, by rw [f2]; exact h.preL, by rw [f1]; exact h.shr, ?_⟩
  · rcases f9 with f9 | f9 <;> rw [f9]
    · exact h.arbL
    · omega
  · have a := b2n_le (planRates r k g).havePre
    have b := b2n_le ((planRates r k g).haveArb || (planRates r k g).cubic)
    have c := b2n_le (planRates r k g).havePost
    unfold RatePlan.numStages; omega

example : (planRates (div (ofNat 44100) (ofNat 48000)) { bitsZero := false, mode0 := 3, interpolator := -1, iOpt := true, kb := 400, sizeofReal := 4 } false).arbL = 80 ∧
    (planRates (div (ofNat 44100) (ofNat 48000)) { bitsZero := false, mode0 := 3, interpolator := -1, iOpt := true, kb := 400, sizeofReal := 4 } false).arbM = ofInt 147 ∧
    (planRates (div (ofNat 44100) (ofNat 48000)) { bitsZero := false, mode0 := 3, interpolator := -1, iOpt := true, kb := 400, sizeofReal := 4 } false).preL = 2 := by
  decide +kernel

/-! ### the product of the stage rates (exact rationals)

`ratioOf st = 2^shr · max(preM,1)/preL · arbM/arbL · postM/postL` is the factor a planner state stands for (`toRat` reads a
binary64 as the rational it is).  One pass of the loop from a fresh state (`arbL = 1`, true of every pass: `PInv.fresh`)
that does not split off a post stage: -/

/-- **`rate_product`, no snap**: when the search finds no denominator (an irrational ratio — the stage then runs on a
    rounded clock step —, or no fraction at all) the product of the stage rates is EXACTLY the value the pass started
    from (over the post stage already split off), through the small-integer shortcut and the mode retry too. -/
theorem rate_product_unsnapped (k : Knobs) (st : PSt) (hfin : isFin st.arbM) (hfresh : st.arbL = 1)
    (hnone : (core k st).found = none) (hp : ¬ takesPost k st (core k st) = true)
    (hsm : takesSmallInt k (core k st) = true →
      1 ≤ (core k st).M ∧
      (((if (core k st).postM == 2 then scale2 (core k st).a4 1 else (core k st).a4).truncNat : ℕ) : ℚ) =
        toRat (core k st).a4 * (core k st).postM) :
    ratioOf (iter k st) = toRat st.arbM / st.postL := by
  rw [iter_ratio k st (by omega) hp hsm, base_unsnapped k st hfin hfresh hnone]

/-- **`rate_product`, snapped**: when the search finds `(i, try)` the product of the stage rates is the starting value times
    `snapped / arbM` EXACTLY, `arbM` being the value that entered the snap and `snapped` the rational `(int)arbM + try/i`
    (or `ceil(arbM)`) that replaces it; `planner_search_spec` is the planner's own bound on the two
    (`fabs(try / (frac * i) - 1) <= epsilon` in binary64). -/
theorem rate_product_snapped (k : Knobs) (st : PSt) (hfin : isFin st.arbM) (hfresh : st.arbL = 1) (i : Nat) (t : Int)
    (hsome : (core k st).found = some (i, t)) (hp : ¬ takesPost k st (core k st) = true)
    (hsm : takesSmallInt k (core k st) = true →
      1 ≤ (core k st).M ∧
      (((if (core k st).postM == 2 then scale2 (core k st).a4 1 else (core k st).a4).truncNat : ℕ) : ℚ) =
        toRat (core k st).a4 * (core k st).postM) :
    ratioOf (iter k st) * toRat (core k st).a3 = toRat st.arbM / st.postL * snappedValue (core k st).a3 i t := by
  rw [iter_ratio k st (by omega) hp hsm, base_snapped k st hfin hfresh i t hsome]

/-- the value that enters the snap is the pass's starting value times `preL / (2^shr · postM)`, exactly -/
theorem rate_before_snap (k : Knobs) (st : PSt) (hfin : isFin st.arbM) :
    toRat (core k st).a3 * (core k st).postM * (2 : ℚ) ^ (core k st).shr = toRat st.arbM * (core k st).preL :=
  core_a3 k st hfin

/-- non-vacuity: 44100 → 48000 at HQ snaps to 147/80 after the pre stage doubles the rate (`arbM = 147`, `arbL = 80`,
    search result `(80, 67)`: 1 + 67/80) -/
example : (core { bitsZero := false, mode0 := 3, interpolator := -1, iOpt := true, kb := 400, sizeofReal := 4 }
    { arbM := div (ofNat 44100) (ofNat 48000), mode := 3 }).found = some (80, 67) := by decide +kernel

/-- What is NOT proved: a bound in real numbers on `|snapped - arbM|` (and on the rounding of `arbM * postL / arbL` when a post
    stage is split off).  It follows from the planner's test only through an error analysis of the three rounded binary64
    operations in it (`frac * i`, `try / d`, `… - 1`); the model states the test in binary64 (`planner_search_spec`), and
    the driver decides, in exact integers, `|product - io_ratio| <= 2^-32 · max(1, io_ratio)` on every plan of the sweep
    (`RatePlan.productNear`) — the hypothesis Properties/C04 `drift_bound` takes. -/
def Goal_snap_bound : Prop :=
  ∀ (k : Knobs) (st : PSt) (i : Nat) (t : Int), isFin st.arbM → (core k st).found = some (i, t) →
    |snappedValue (core k st).a3 i t - toRat (core k st).a3| * 2 ^ 32 ≤ 1

end Soxr.Properties.C09
