import SoxrModel.Alloc.Lemmas

/-!
# C20 — allocation failure is reported as an error: no crash, no leak

Model: `SoxrModel/Alloc/Model.lean` (heap of blocks, every allocation call decided by an oracle, the code of
`soxr.c` as written, an engine's `create` abstracted to its tagged allocation sites).  Everything below holds for
**every channel count** (`engs : List (List Site)` has one entry per channel, of any length), **every engine site
list**, **every starting heap** and — unless the single-failure oracle `failAt` is named — **every oracle**.

The quantifier of the property ("failure of the k-th allocation for every k") is the index `k` into the job's site
sequence `createSeq engs true` = `soxr_create`'s calloc, the three callocs of `initialise`, then per channel the
channel calloc followed by the engine's sites.

Clauses and theorems
* reports an error            `error_returned`, `clear_error_returned`, `lazy_init_error_returned`, `completed_means_no_failure`
* nothing is leaked           `no_leak`, `no_leak_after_delete`, `job_no_leak_no_double_free`
* object can be deleted       `deletable`, `every_operation_keeps_deletable`, `delete0_idempotent_after_fatal_error`
* no dereference of a failed allocation (checked sites)   `no_deref_of_failed`, `faults_only_at_unchecked_sites`
* the pinned code violates the property at every unchecked site (finding F10): `unchecked_site_crashes`,
  `unchecked_site_reports_nothing`, `process_failure_crashes`, and the concrete witnesses at the end.
-/

namespace Soxr.Alloc.C20
open Soxr.Alloc

/-! ## Failing index at a checked site, `soxr_create` -/

/-- Fail call `k` of `soxr_create`; if the site of call `k` is a checked one, `soxr_create` returns the NULL handle
(with an error string) — and, `no_leak`, every block the call had allocated has been freed again. -/
theorem error_returned (engs : List (List Site)) (h0 : Heap) (k : Nat) (s : Site)
    (hk : (createSeq engs true)[k]? = some s) (hc : s.kind = .checked) :
    ∃ h', create (failAt (h0.count + k)) engs true h0 = .ok none h' ∧ h'.live.Perm h0.live := by
  have hS := create_spec (failAt (h0.count + k)) engs true h0
  rw [classify_failAt, hk] at hS
  simp only [hc] at hS
  exact hS

theorem no_leak (engs : List (List Site)) (h0 : Heap) (k : Nat) (s : Site)
    (hk : (createSeq engs true)[k]? = some s) (hc : s.kind = .checked) (r : Option Obj) (h' : Heap)
    (hr : create (failAt (h0.count + k)) engs true h0 = .ok r h') :
    r = none ∧ h'.live.Perm h0.live ∧ h'.live.length = h0.live.length := by
  obtain ⟨h'', e, p⟩ := error_returned engs h0 k s hk hc
  rw [e] at hr
  cases hr
  exact ⟨rfl, p, p.length_eq⟩

/-- `no_deref_of_failed`, checked sites: failing a checked site never leads to a fault of any kind (no dereference of
the NULL, no use after free, no double free in the tear-down). -/
theorem no_deref_of_failed (engs : List (List Site)) (h0 : Heap) (k : Nat) (s : Site)
    (hk : (createSeq engs true)[k]? = some s) (hc : s.kind = .checked) (f : Fault) :
    create (failAt (h0.count + k)) engs true h0 ≠ .fault f := by
  obtain ⟨h', e, -⟩ := error_returned engs h0 k s hk hc
  rw [e]
  exact fun h => nomatch h

/-- For every oracle: the only fault `soxr_create` can run into is the dereference of a NULL that an *unchecked* site
of some channel's engine got from a failed allocation call.  (So: never a double free, never a use after free, and
the allocations of `soxr.c` itself — all checked — are never dereferenced when they fail.) -/
theorem faults_only_at_unchecked_sites (fail : Nat → Bool) (engs : List (List Site)) (init : Bool) (h0 : Heap) (f : Fault)
    (hf : create fail engs init h0 = .fault f) :
    ∃ s k, f = .derefNull s.name ∧ s.kind = .unchecked ∧ (∃ e ∈ engs, s ∈ e) ∧ h0.count ≤ k ∧ fail k = true := by
  have hS := create_spec fail engs init h0
  cases hct : classify fail h0.count (createSeq engs init) <;> rw [hct] at hS
  · obtain ⟨o, h', e, -⟩ := hS
    rw [e] at hf; cases hf
  · obtain ⟨h', e, -⟩ := hS
    rw [e] at hf; cases hf
  · rename_i k s
    obtain ⟨a1, a2, a3, a4, -⟩ := classify_crashAt fail _ h0.count k s hct
    simp only [CreatePost] at hS
    rw [hS] at hf
    cases hf
    have hmem : s ∈ createSeq engs init := List.mem_of_getElem? a4
    refine ⟨s, k, rfl, a1, ?_, a3, a2⟩
    rcases mem_createSeq engs init s hmem with h | h | h | h | h | h
    · exact absurd a1 (by simp [h, siteCreate])
    · exact absurd a1 (by simp [h, siteChannelPtrs])
    · exact absurd a1 (by simp [h, siteShared])
    · exact absurd a1 (by simp [h, siteResamplers])
    · exact absurd a1 (by simp [h, siteChan])
    · exact h

/-- For every oracle: a handle is returned only if no allocation call of `soxr_create` failed; the object then owns
exactly what was allocated, is not in error state, and (see `deletable`) can be deleted. -/
theorem create_success_means_no_failure (fail : Nat → Bool) (engs : List (List Site)) (init : Bool) (h0 : Heap)
    (o : Obj) (h' : Heap) (hr : create fail engs init h0 = .ok (some o) h') :
    NoFail fail h0.count h'.count ∧ Good o ∧ Owns o h' h0.live ∧ o.error = false := by
  have hS := create_spec fail engs init h0
  cases hct : classify fail h0.count (createSeq engs init) <;> rw [hct] at hS
  · obtain ⟨o1, h1, e, g, own, hc, he⟩ := hS
    rw [e] at hr
    cases hr
    exact ⟨hc ▸ classify_allOk fail _ h0.count hct, g, own, he⟩
  · obtain ⟨h1, e, -⟩ := hS
    rw [e] at hr; cases hr
  · simp only [CreatePost] at hS
    rw [hS] at hr; cases hr

/-! ## The object exists: `soxr_clear`, lazy `soxr_set_io_ratio` -/

/-- Fail call `k` of the re-initialisation done by `soxr_clear`; if its site is checked, `soxr_clear` returns an
error, the object is in the all-zero error state, exactly the object's own block is still live, and `soxr_delete`
then frees it without touching anything else. -/
theorem clear_error_returned (engs : List (List Site)) (o : Obj) (h : Heap) (F : List Blk)
    (g : Good o) (own : Owns o h F) (hn : o.numChannels ≠ 0) (k : Nat) (s : Site)
    (hk : (initSeq engs)[k]? = some s) (hc : s.kind = .checked) :
    ∃ h', clear (failAt (h.count + k)) o true engs h = .ok (true, o.errState) h' ∧ h'.live.Perm (o.self :: F) ∧
      ∃ h'', delete o.errState h' = .ok () h'' ∧ h''.live.Perm F := by
  have hS := clear_spec (failAt (h.count + k)) o engs h F g own hn
  rw [classify_failAt, hk] at hS
  simp only [hc] at hS
  obtain ⟨h', e, p⟩ := hS
  have p' : h'.live.Perm (o.self :: F) := p
  refine ⟨h', e, p', ?_⟩
  obtain ⟨L, eL, pL⟩ := delete_spec o.errState h' F (wf_errState o) (by simpa [Owns] using p')
  exact ⟨_, eL, pL⟩

/-- The same for an object created without a ratio (or channels) whose resamplers are built by a later
`soxr_set_io_ratio`. -/
theorem lazy_init_error_returned (engs : List (List Site)) (o : Obj) (h : Heap) (F : List Blk)
    (fr : Fresh o) (hn : o.numChannels ≠ 0) (hp : h.live.Perm (o.self :: F)) (k : Nat) (s : Site)
    (hk : (initSeq engs)[k]? = some s) (hc : s.kind = .checked) :
    ∃ h', setIoRatio (failAt (h.count + k)) o engs h = .ok (true, o.errState) h' ∧ h'.live.Perm (o.self :: F) := by
  rw [setIoRatio_fresh _ o engs h fr hn (hp.mem_iff.mpr (by simp))]
  have hS := initialise_spec (failAt (h.count + k)) o engs h F fr hp
  rw [classify_failAt, hk] at hS
  simp only [hc] at hS
  exact hS

/-! ## Deleting -/

/-- `soxr_delete` of any good object frees exactly the object's blocks: every `free` hits a live block or NULL
(no double free, no dangling pointer), every pointer read on the way is live, and afterwards nothing of the object
is live. -/
theorem deletable (o : Obj) (h : Heap) (F : List Blk) (g : Good o) (own : Owns o h F) :
    ∃ h', delete o h = .ok () h' ∧ h'.live.Perm F :=
  let ⟨_, e, p⟩ := delete_spec o h F g.1 own
  ⟨_, e, p⟩

theorem no_leak_after_delete (o : Obj) (h : Heap) (F : List Blk) (g : Good o) (own : Owns o h F) (h' : Heap)
    (hd : delete o h = .ok () h') : h'.live.length = F.length := by
  obtain ⟨h'', e, p⟩ := deletable o h F g own
  rw [e] at hd
  cases hd
  exact p.length_eq

/-- Every operation, under every oracle, either dereferences the NULL of a failed allocation (an unchecked site), or
leaves an object that is still good and exactly owned — hence deletable by `deletable` — whether it reported an
error or not; and when it did not report one, no allocation call failed during it. -/
theorem every_operation_keeps_deletable (fail : Nat → Bool) (o : Obj) (op : Op) (h : Heap) (F : List Blk)
    (g : Good o) (own : Owns o h F) :
    match runOp fail o op h with
    | .ok (false, o') h' => Good o' ∧ Owns o' h' F ∧ NoFail fail h.count h'.count
    | .ok (true, o') h' => Good o' ∧ Owns o' h' F
    | .fault (.derefNull _) => ∃ k, h.count ≤ k ∧ fail k = true
    | .fault _ => False := by
  have hP := runOp_post fail o op h F g own
  cases hr : runOp fail o op h with
  | fault f => rw [hr] at hP; cases f <;> exact hP
  | ok a h' =>
    rw [hr] at hP
    obtain ⟨err, o'⟩ := a
    cases err
    · exact ⟨hP.1, hP.2.1, hP.2.2.2⟩
    · exact hP

/-- `soxr_create` calls `soxr_delete(p)` after `initialise` has failed and `fatal_error` has already run
`soxr_delete0`: the second `soxr_delete0` frees nothing (the heap is literally unchanged), so there is no double
free. -/
theorem delete0_idempotent_after_fatal_error (o : Obj) (h : Heap) (F : List Blk) (wf : WF o) (own : Owns o h F) :
    ∃ h1, fatalError o h = .ok o.errState h1 ∧ h1.live.Perm (o.self :: F) ∧
      delete0 o.errState h1 = .ok o.zero h1 := by
  obtain ⟨L, e, p⟩ := fatalError_spec o h F wf own
  exact ⟨_, e, p, delete0_errState o _ (p.mem_iff.mpr (by simp))⟩

/-! ## Whole jobs (create, any operations, delete), every oracle -/

theorem job_no_leak_no_double_free (fail : Nat → Bool) (j : Job) (h0 : Heap) :
    match runJob fail j h0 with
    | .ok _ h' => h'.live.Perm h0.live
    | .fault (.derefNull _) => ∃ k, h0.count ≤ k ∧ fail k = true
    | .fault _ => False := by
  have hP := runJob_post fail j h0
  cases hr : runJob fail j h0 with
  | fault f => rw [hr] at hP; cases f <;> exact hP
  | ok v h' => rw [hr] at hP; exact hP.1

/-- If a job runs to its end and no call reported an error, then no allocation call failed: a failure is never
swallowed by the API layer. -/
theorem completed_means_no_failure (fail : Nat → Bool) (j : Job) (h0 h' : Heap) (m : Nat)
    (hr : runJob fail j h0 = .ok (.completed m) h') :
    NoFail fail h0.count h'.count ∧ m = h0.live.length := by
  have hP := runJob_post fail j h0
  rw [hr] at hP
  exact ⟨hP.2.2, hP.2.1⟩

/-! ## The negation at unchecked sites (finding F10) -/

/-- Fail call `k`; if its site is unchecked the model, like the code, dereferences the NULL. -/
theorem unchecked_site_crashes (engs : List (List Site)) (h0 : Heap) (k : Nat) (s : Site)
    (hk : (createSeq engs true)[k]? = some s) (hu : s.kind = .unchecked) :
    create (failAt (h0.count + k)) engs true h0 = .fault (.derefNull s.name) := by
  have hS := create_spec (failAt (h0.count + k)) engs true h0
  rw [classify_failAt, hk] at hS
  simp only [hu] at hS
  exact hS

/-- … so for such a `k` the conclusion of `error_returned` is false: no error is reported (nothing is returned). -/
theorem unchecked_site_reports_nothing (engs : List (List Site)) (h0 : Heap) (k : Nat) (s : Site)
    (hk : (createSeq engs true)[k]? = some s) (hu : s.kind = .unchecked) :
    ¬ ∃ r h', create (failAt (h0.count + k)) engs true h0 = .ok r h' := by
  rw [unchecked_site_crashes engs h0 k s hk hu]
  exact fun ⟨_, _, h⟩ => nomatch h

/-- While streaming there is no checked site at all: whichever allocation call of `soxr_process` fails (FIFO growth,
FFT cache growth), its NULL is dereferenced. -/
theorem process_failure_crashes (o : Obj) (ss : List Site) (h : Heap) (F : List Blk) (own : Owns o h F)
    (he : o.error = false) (k : Nat) (s : Site) (hk : ss[k]? = some s) :
    process (failAt (h.count + k)) o ss h = .fault (.derefNull s.name) := by
  have hself : o.self ∈ h.live := own.mem_iff.mpr (by simp [Obj.blocks])
  have hE := engRun_spec (failAt (h.count + k)) ss h
  have hk' : (ss.map uncheck)[k]? = some (uncheck s) := by simp [hk]
  rw [classify_failAt, hk'] at hE
  simp only [uncheck] at hE
  simp [process, derefLive_ok hself, he, hE]

/-! ## Non-vacuity and concrete witnesses

`crEngine` is the site list of one channel of the constant-rate engine as the harness records it for 44100 → 48000,
`SOXR_HQ`, SIMD build (first channel: filters are designed; later channels reuse `*shared`); `vrEngine` that of the
variable-rate engine.  The names are the keys of `harness/alloc/sites.json`. -/

def crEngine : List Site := [
  ⟨"_soxr_init:p->stages", .checked, .own⟩,
  ⟨"dft_stage_init:h", .unchecked, .temp⟩,
  ⟨"dft_stage_init:f->coefs", .unchecked, .shared⟩,
  ⟨"dft_stage_init:p->dft_out", .unchecked, .own⟩,
  ⟨"dft_stage_init:p->dft_scratch", .unchecked, .own⟩,
  ⟨"dft_stage_init:coef_setup", .unchecked, .temp⟩,
  ⟨"dft_stage_init:coef_setup", .unchecked, .temp⟩,
  ⟨"dft_stage_init:f->dft_forward_setup", .unchecked, .shared⟩,
  ⟨"dft_stage_init:f->dft_forward_setup", .unchecked, .shared⟩,
  ⟨"dft_stage_init:f->dft_backward_setup", .unchecked, .shared⟩,
  ⟨"dft_stage_init:f->dft_backward_setup", .unchecked, .shared⟩,
  ⟨"_soxr_init:coefs", .unchecked, .temp⟩,
  ⟨"prepare_poly_fir_coefs:result", .unchecked, .shared⟩,
  ⟨"_soxr_init:fifo_create", .unchecked, .own⟩,
  ⟨"_soxr_init:fifo_create", .unchecked, .own⟩,
  ⟨"_soxr_init:fifo_create", .unchecked, .own⟩]

def crEngineLater : List Site := [
  ⟨"_soxr_init:p->stages", .checked, .own⟩,
  ⟨"dft_stage_init:p->dft_out", .unchecked, .own⟩,
  ⟨"dft_stage_init:p->dft_scratch", .unchecked, .own⟩,
  ⟨"_soxr_init:fifo_create", .unchecked, .own⟩,
  ⟨"_soxr_init:fifo_create", .unchecked, .own⟩,
  ⟨"_soxr_init:fifo_create", .unchecked, .own⟩]

def vrEngine : List Site := [
  ⟨"vr_init:p->stages", .unchecked, .own⟩,
  ⟨"vr_init:fifo_create", .unchecked, .own⟩,
  ⟨"vr_init:fifo_create", .unchecked, .own⟩,
  ⟨"vr_init:fifo_create", .unchecked, .own⟩,
  ⟨"prepare_coefs:coefs1", .unchecked, .temp⟩,
  ⟨"prepare_coefs:coefs1", .unchecked, .temp⟩]

def stereo : List (List Site) := [crEngine, crEngineLater]

/-- the hypotheses of `error_returned` are met: call 22 of the stereo job is the stage array of the second channel -/
example : (createSeq stereo true)[22]? = some ⟨"_soxr_init:p->stages", .checked, .own⟩ ∧
    (⟨"_soxr_init:p->stages", .checked, .own⟩ : Site).kind = .checked := by decide +kernel

/-- … and the model computes what the theorem says: NULL handle, nothing live, 23 calls made -/
example : create (failAt 22) stereo true {} = .ok none { count := 23, live := [], cache := [] } := by decide +kernel

/-- the per-channel calloc of the second channel (call 21): the first channel, fully built, is closed again -/
example : create (failAt 21) stereo true {} = .ok none { count := 22, live := [], cache := [] } := by decide +kernel

/-- the first calloc of `initialise` fails: the other two are still made (4 calls in all), then everything is freed -/
example : create (failAt 1) stereo true {} = .ok none { count := 4, live := [], cache := [] } := by decide +kernel

/-- what a successful stereo create returns -/
def stereoObj : Obj :=
  { self := 0, numChannels := 2, channelPtrs := some 1, shared := some 2, resamplers := some 3
    chans := [some ⟨4, [20, 19, 18, 9, 8, 5]⟩, some ⟨21, [27, 26, 25, 24, 23, 22]⟩]
    sharedOwn := [17, 15, 14, 13, 12, 7] }

def stereoHeap : Heap :=
  { count := 28, live := [27, 26, 25, 24, 23, 22, 21, 20, 19, 18, 17, 15, 14, 13, 12, 9, 8, 7, 5, 4, 3, 2, 1, 0], cache := [] }

/-- no failure: 28 calls, 24 blocks live (the 4 temporaries are gone), and `soxr_delete` frees all 24 -/
example : create (fun _ => false) stereo true {} = .ok (some stereoObj) stereoHeap ∧ stereoHeap.live.length = 24 ∧
    delete stereoObj stereoHeap = .ok () { count := 28, live := [], cache := [] } := by decide +kernel

/-- the hypotheses of `clear_error_returned`, `deletable`, `every_operation_keeps_deletable` are met by that object -/
example : Good stereoObj ∧ Owns stereoObj stereoHeap [] ∧ stereoObj.numChannels ≠ 0 := by
  have hS := create_spec (fun _ => false) stereo true {}
  have hct : classify (fun _ => false) 0 (createSeq stereo true) = .allOk := by decide +kernel
  rw [show ({} : Heap).count = 0 from rfl, hct] at hS
  obtain ⟨o, h', e, g, own, -, -⟩ := hS
  have e2 : create (fun _ => false) stereo true {} = .ok (some stereoObj) stereoHeap := by decide +kernel
  rw [e2] at e
  cases e
  exact ⟨g, own, by decide⟩

/-- `soxr_clear` of the stereo object with the second channel's calloc failing (call 28 + 3 + 17 = 48): error, object
in error state, 1 block live (the handle), 0 after delete — the model's `runJob` says `opFailed 0 1 0`. -/
example : runJob (failAt 48) ⟨stereo, true, [.clear true stereo]⟩ {} =
    .ok (.opFailed 0 1 0) { count := 49, live := [], cache := [] } := by decide +kernel

/-- witnesses of the negation, one per class of unchecked site of the constant-rate engine … -/
example : create (failAt 6) stereo true {} = .fault (.derefNull "dft_stage_init:h") := by decide +kernel
example : create (failAt 7) stereo true {} = .fault (.derefNull "dft_stage_init:f->coefs") := by decide +kernel
example : create (failAt 8) stereo true {} = .fault (.derefNull "dft_stage_init:p->dft_out") := by decide +kernel
example : create (failAt 9) stereo true {} = .fault (.derefNull "dft_stage_init:p->dft_scratch") := by decide +kernel
example : create (failAt 10) stereo true {} = .fault (.derefNull "dft_stage_init:coef_setup") := by decide +kernel
example : create (failAt 12) stereo true {} = .fault (.derefNull "dft_stage_init:f->dft_forward_setup") := by decide +kernel
example : create (failAt 14) stereo true {} = .fault (.derefNull "dft_stage_init:f->dft_backward_setup") := by decide +kernel
example : create (failAt 16) stereo true {} = .fault (.derefNull "_soxr_init:coefs") := by decide +kernel
example : create (failAt 17) stereo true {} = .fault (.derefNull "prepare_poly_fir_coefs:result") := by decide +kernel
example : create (failAt 18) stereo true {} = .fault (.derefNull "_soxr_init:fifo_create") := by decide +kernel
/-- … of the variable-rate engine (its very first allocation, the stage array, is unchecked) … -/
example : create (failAt 5) [vrEngine] true {} = .fault (.derefNull "vr_init:p->stages") := by decide +kernel
example : create (failAt 6) [vrEngine] true {} = .fault (.derefNull "vr_init:fifo_create") := by decide +kernel
example : create (failAt 9) [vrEngine] true {} = .fault (.derefNull "prepare_coefs:coefs1") := by decide +kernel
/-- … and of streaming: FIFO growth -/
example : runJob (failAt 29) ⟨stereo, true, [.process [⟨"fifo_reserve:f->data", .unchecked, .grow⟩,
    ⟨"fifo_reserve:f->data", .unchecked, .grow⟩]]⟩ {} = .fault (.derefNull "fifo_reserve:f->data") := by decide +kernel

end Soxr.Alloc.C20
