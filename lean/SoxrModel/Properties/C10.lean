import SoxrModel.Chan.Clear
set_option linter.unusedSimpArgs false
/-!
# C10 — history independence: `soxr_clear` = fresh; instances do not affect each other

Model: `SoxrModel/Chan/Clear.lean` — `struct soxr` as a record (field list generated from /repo/src/soxr.c on every run and
compared by `fields_match`, `clear_preserved_match`, …), `soxr_create` / `soxr_set_input_fn` / `soxr_set_io_ratio` /
`soxr_set_num_channels` / `soxr_clear` / `soxr_delete0` / `initialise` / `fatal_error` as functions, every other API call as
the footprint `Dyn`; the process-wide FFT cache and VR coefficient tables as `Globals`.

* `clear_torn_down_keeps_error` (commit b5a678f, F40): an object `fatal_error` has torn down (error set, control block
  zeroed) is returned unchanged with its error; `fatal_is_torn_down`, `torn_down_absorbing`: that state is what a failed
  deferred initialisation leaves and no operation of the model leaves it.
* `clear_eq_fresh`: for EVERY state `p` that is NOT torn down (hence after every history: partial streams, flushes, sticky
  errors, earlier clears): the struct after `soxr_clear(p)` equals, FIELD BY FIELD, the struct `soxr_create` builds for `p`'s
  configuration (seed 0) with `p`'s input-function registration copied in; recipes without RESET_ON_CLEAR: the fresh
  object is the one created with rates 0/0 (ratio not yet known), exactly as the code leaves it.
  `clear_fails_like_create`: if engine creation fails, `soxr_clear` reports what `soxr_create` would.
* `clear_resets`: clips 0, flushing 0, error 0 (when it returns 0), seed 0 (a fresh object gets a time/address seed: the
  dither stream is the one thing that cannot be "as new"; the falsifier pins it), engines = newly created ones
  (`clear_engines_fresh`: hence delay and all future output as new).
* `history_keeps_config` / `clear_after_history`: along every history of a live object the configuration `soxr_create`
  stored never changes (except `io_ratio`/`num_channels` through their setters while still unconfigured), and the
  registered input function is the last one registered — so "the same configuration + the same set_input_fn" is what
  `clear_eq_fresh` rebuilds.  (F11, repaired in /repo: `max_ilen` is among the copied members; `clear_preserved_match`
  pins that list to the source.)
* `instances_independent_struct`: an operation on one object leaves every other object's struct alone.
* process-wide tables: `fft_view_history_independent` — a length-`n` transform reads the same table entries whatever
  other instances grew the cache to (under the ASSUMED prefix property of fft4g's tables, exercised by the falsifier);
  `instances_independent_partial` — hence any behaviour that depends on the configuration and those views only (every
  engine but VR) is independent of the process history.
* VR: `vr_first_instance_wins`, `vr_not_independent` — the static tables take the FIRST VR instance's `mult`; a later
  instance with another scale gets the first one's gain: independence is FALSE for the VR engine (finding F6, replayed on the
  real code by `checks/c10.py`); `vr_independent_same_mult` is what remains true.  `vr_tables_first_wins`,
  `vr_tables_mult_only`, `vr_probe_independent_same_mult`: the three tables sit behind one guard and are built
  unconditionally from `mult` only (tied to the text of vr32.c by `vr_init_block_match`), so the first instance's ratio
  class / stage count can matter for NO table; the falsifier's first-instance matrix searches the real code for it.
* `clear_forgets_ratio_without_channels`: HISTORICAL witness about `clearOld`, the expression before commit 76fe472 (F18:
  clear of an object without channels forgot io_ratio); `clear` follows the repaired code and `clear_eq_fresh` needs no
  excluding hypothesis.  `checks/c10.py` replays the witness history on every run: the forgetting coming back is a violation.
-/
namespace Soxr.C10
open Soxr.Chan.Clear

variable {σ : Type}

/-- the configuration `soxr_clear` re-creates from: the stored one, with the ratio forgotten unless RESET_ON_CLEAR -/
def clearConfig (p : Soxr σ) : Config :=
  { configOf p with io_ratio := if hasReset p.q_spec then p.io_ratio else 0 }

/-- copy `p`'s input-function registration into `q` (what re-registering the same function does: `copyFn_eq_setInputFn`) -/
def copyFn (q p : Soxr σ) : Soxr σ :=
  { q with input_fn := p.input_fn, input_fn_state := p.input_fn_state, max_ilen := p.max_ilen }

theorem copyFn_eq_setInputFn (q p : Soxr σ) (f s m : Nat) :
    copyFn q (setInputFn p f s m) = setInputFn q f s m := rfl

/-- MAIN: whatever state the object is in, `soxr_clear` leaves the struct a successful `soxr_create` of the same
    configuration (seed 0) would build, field by field, plus the registered input function, and returns 0 — no excluding
    hypothesis (since the F18 repair, commit 76fe472, also for objects whose channel count is not set yet). -/
theorem clear_of_not_torn (W : Eng σ) (p : Soxr σ) (ht : ¬ TornDown p) : clear W p = clearLive W p := by
  unfold clear; rw [if_neg ht]

/-- an object torn down by a fatal error is returned as it is, with its error (commit b5a678f, F40): `soxr_clear` does not
    revive it (there is no control block left to restart from) -/
theorem clear_torn_down_keeps_error (W : Eng σ) (p : Soxr σ) (ht : TornDown p) :
    clear W p = (p, p.error) ∧ (clear W p).2 ≠ 0 := by
  unfold clear; rw [if_pos ht]; exact ⟨rfl, ht.1⟩

/-- what `fatal_error` leaves is torn down, and stays so under every operation of the model (`soxr_set_input_fn`,
    `soxr_set_io_ratio`, `soxr_set_num_channels`, `soxr_clear`): the handle can only be deleted -/
theorem fatal_is_torn_down (p : Soxr σ) (e : Nat) : TornDown (fatal p (e + 1)) := by
  simp [TornDown, fatal, delete0, zero]

theorem torn_down_absorbing (W : Eng σ) (p : Soxr σ) (o : HOp) (ht : TornDown p) : TornDown (applyOp W p o) := by
  have he : p.error ≠ 0 := ht.1
  cases o with
  | setInputFn f s m => exact ht
  | setIoRatio r l => simp only [applyOp, setIoRatio, he, ne_eq, not_false_eq_true, if_true]; exact ht
  | setNumChannels n =>
    simp only [applyOp, setNumChannels]
    split
    · exact ht
    · split
      · exact ht
      · split
        · exact ht
        · simp only [setIoRatio, he, ne_eq, not_false_eq_true, if_true]; exact ht
  | clear => simp only [applyOp]; rw [(clear_torn_down_keeps_error W p ht).1]; exact ht

theorem clear_eq_fresh (W : Eng σ) (p q : Soxr σ) (ht : ¬ TornDown p) (h : (create W (clearConfig p) 0).1 = some q) :
    clear W p = (copyFn q p, 0) := by
  rw [clear_of_not_torn W p ht]
  unfold create at h
  unfold clearLive clearBase clearConfig configOf copyFn at *
  by_cases hr : hasReset p.q_spec = true
  · simp only [hr, if_true] at h ⊢
    by_cases hc : p.num_channels = 0
    · simp [hc] at h ⊢
      subst h; simp
    · by_cases hz : p.io_ratio = 0
      · simp [hz] at h ⊢
        subst h; first | rfl | simp [hz]
      · simp only [hc, hz, ne_eq, not_false_eq_true, and_self, if_true] at h ⊢
        simp only [setIoRatio, initialise, hc, hz, ne_eq, not_true_eq_false, if_false] at h ⊢
        cases hcr : W.create p.control_block p.io_ratio p.q_spec p.runtime_spec p.io_spec.scale with
        | error e =>
          simp [hcr, fatal, delete0, zero] at h
        | ok e0 =>
          simp [hcr] at h ⊢
          subst h; first | rfl | simp
  · have hr' : hasReset p.q_spec = false := by simpa using hr
    simp only [hr', Bool.false_eq_true, if_false, ne_eq, not_true_eq_false, and_false] at h ⊢
    simp at h
    subst h; first | rfl | simp

/-- HISTORICAL witness (finding F18, repaired in /repo by 76fe472): with the expression as first pinned (`clearOld`) an
    object whose channel count is not set yet (`soxr_create(…, 0, …)`, channels to be supplied by `soxr_set_num_channels`)
    FORGOT its ratio in `soxr_clear`: `soxr_set_io_ratio` refuses ("must set # channels before O/I ratio") before storing it.
    The current `clear` does not (`clear_eq_fresh` has no excluding hypothesis). -/
theorem clear_forgets_ratio_without_channels :
    ∃ (p q : Soxr Unit), (create dEng (clearConfig p) 0).1 = some q ∧ (Historical.clearOld dEng p).1 ≠ copyFn q p ∧
      (Historical.clearOld dEng p).1.io_ratio = 0 ∧ q.io_ratio = 7 ∧ (Historical.clearOld dEng p).2 = errNoChannels ∧
      clear dEng p = (copyFn q p, 0) := by
  refine ⟨{ (zero : Soxr Unit) with io_ratio := 7, q_spec := ⟨resetBit, 1⟩, control_block := 4 }, _, rfl, ?_, rfl, rfl, rfl,
    by rw [clear_of_not_torn _ _ (by decide)]; rfl⟩
  intro h
  have := congrArg Soxr.io_ratio h
  revert this
  decide

/-- … and when engine creation fails, `soxr_clear` returns the error `soxr_create` would return -/
theorem clear_fails_like_create (W : Eng σ) (p : Soxr σ) (e : Nat) (ht : ¬ TornDown p)
    (h : create W (clearConfig p) 0 = (none, e)) :
    (clear W p).2 = e ∧ (clear W p).1 = fatal p e := by
  rw [clear_of_not_torn W p ht]
  unfold create at h
  unfold clearLive clearBase clearConfig configOf at *
  by_cases hr : hasReset p.q_spec = true
  · simp only [hr, if_true] at h ⊢
    by_cases hc : p.num_channels = 0
    · simp [hc] at h
    · by_cases hz : p.io_ratio = 0
      · simp [hz] at h
      · simp only [hc, hz, ne_eq, not_false_eq_true, and_self, if_true] at h ⊢
        simp only [setIoRatio, initialise, hc, hz, ne_eq, not_true_eq_false, if_false] at h ⊢
        cases hcr : W.create p.control_block p.io_ratio p.q_spec p.runtime_spec p.io_spec.scale with
        | error e' =>
          simp [hcr, fatal, delete0, zero] at h ⊢
          exact h
        | ok e0 => simp [hcr] at h
  · have hr' : hasReset p.q_spec = false := by simpa using hr
    simp [hr'] at h

/-- error reset, clips 0, flushing 0, seed 0 — for every prior state -/
theorem clear_resets (W : Eng σ) (p : Soxr σ) (ht : ¬ TornDown p) :
    (clear W p).1.clips = 0 ∧ (clear W p).1.flushing = 0 ∧ (clear W p).1.seed = 0 ∧
    ((clear W p).2 = 0 → (clear W p).1.error = 0) := by
  rw [clear_of_not_torn W p ht]
  unfold clearLive clearBase
  by_cases hr : hasReset p.q_spec = true
  · simp only [hr, if_true]
    by_cases hc : p.num_channels = 0
    · simp [hc]
    · by_cases hz : p.io_ratio = 0
      · simp [hc, hz]
      · unfold setIoRatio initialise
        cases hcr : W.create p.control_block p.io_ratio p.q_spec p.runtime_spec p.io_spec.scale with
        | error e => simp [hc, hz, hcr, fatal, delete0, zero]
        | ok e0 => simp [hc, hz, hcr]
  · have hr' : hasReset p.q_spec = false := by simpa using hr
    simp [hr']

/-- the engines after a successful clear of a RESET_ON_CLEAR object are newly created ones (so is their delay) -/
theorem clear_engines_fresh (W : Eng σ) (p : Soxr σ) (e0 : σ) (hr : hasReset p.q_spec = true) (hc : p.num_channels ≠ 0)
    (hz : p.io_ratio ≠ 0) (hcr : W.create p.control_block p.io_ratio p.q_spec p.runtime_spec p.io_spec.scale = .ok e0)
    (ht : ¬ TornDown p) :
    (clear W p).1.resamplers = some (List.replicate p.num_channels e0) ∧ (clear W p).1.io_ratio = p.io_ratio := by
  rw [clear_of_not_torn W p ht]
  unfold clearLive clearBase
  simp [hr, setIoRatio, initialise, hc, hz, hcr]

/-! ### along every history -/

/-- the members nothing but `soxr_create` writes -/
def fixedPart (p : Soxr σ) : QSpec × IoSpec × Nat × Nat × Nat × Nat :=
  (p.q_spec, p.io_spec, p.runtime_spec, p.control_block, p.deinterleave, p.interleave)

theorem setIoRatio_fixed (W : Eng σ) (p : Soxr σ) (r l : Nat) :
    Live (setIoRatio W p r l).1 → (fixedPart (setIoRatio W p r l).1 = fixedPart p ∧ Live p) := by
  unfold setIoRatio initialise
  repeat' split
  all_goals (intro hl; first | exact ⟨rfl, hl⟩ | (simp [Live, fatal, delete0, zero] at hl))

theorem clear_fixed (W : Eng σ) (p : Soxr σ) :
    Live (clear W p).1 → (fixedPart (clear W p).1 = fixedPart p ∧ Live p) := by
  unfold clear
  split
  · intro hl; exact ⟨rfl, hl⟩
  unfold clearLive
  simp only
  split
  · split
    · intro hl
      have := setIoRatio_fixed W _ p.io_ratio 0 hl
      exact ⟨this.1, this.2⟩
    · intro hl; exact ⟨rfl, hl⟩
  · intro hl; exact ⟨rfl, hl⟩

theorem applyOp_fixed (W : Eng σ) (p : Soxr σ) (o : HOp) (hl : Live (applyOp W p o)) :
    fixedPart (applyOp W p o) = fixedPart p ∧ Live p := by
  cases o with
  | setInputFn f s m => exact ⟨rfl, hl⟩
  | setIoRatio r l => exact setIoRatio_fixed W p r l hl
  | setNumChannels n =>
    simp only [applyOp, setNumChannels] at hl ⊢
    split
    · simp_all
    · split
      · simp_all
      · split
        · simp_all
        · rename_i h1 h2 h3
          simp only [h1, h2, h3, if_false] at hl
          have := setIoRatio_fixed W { p with num_channels := n } p.io_ratio 0 hl
          exact ⟨this.1, this.2⟩
  | clear => exact clear_fixed W p hl

theorem dyn_fixed {q q' : Soxr σ} (hd : Dyn q q') (hl : Live q') : fixedPart q' = fixedPart q ∧ Live q := by
  have hcfg := hd.cfg
  have h1 := congrArg Config.q_spec hcfg
  have h2 := congrArg Config.io_spec hcfg
  have h3 := congrArg Config.runtime_spec hcfg
  have h4 := congrArg Config.control_block hcfg
  have h5 := congrArg Config.deinterleave hcfg
  have h6 := congrArg Config.interleave hcfg
  simp only [configOf] at h1 h2 h3 h4 h5 h6
  refine ⟨?_, ?_⟩
  · unfold fixedPart; rw [h1, h2, h3, h4, h5, h6]
  · unfold Live at hl ⊢; rw [← h4]; exact hl

theorem history_keeps_config (W : Eng σ) {p0 p : Soxr σ} (h : Reach W p0 p) :
    Live p → (fixedPart p = fixedPart p0 ∧ Live p0) := by
  induction h with
  | refl => intro hl; exact ⟨rfl, hl⟩
  | op o _ ih =>
    intro hl
    have h1 := applyOp_fixed W _ o hl
    have h2 := ih h1.2
    exact ⟨by rw [h1.1, h2.1], h2.2⟩
  | dyn _ hd ih =>
    intro hl
    have h1 := dyn_fixed hd hl
    have h2 := ih h1.2
    exact ⟨by rw [h1.1, h2.1], h2.2⟩

/-- clear after ANY history of a live object created with configuration `c`: a fresh object of that configuration (with
    the channel count and ratio the object has now), seed 0, plus the input function registered now -/
theorem clear_after_history (W : Eng σ) (c : Config) (seed : Nat) {p0 p q : Soxr σ}
    (hc : (create W c seed).1 = some p0) (hr : Reach W p0 p) (hl : Live p)
    (hq : (create W (clearConfig p) 0).1 = some q) :
    clear W p = (copyFn q p, 0) ∧ fixedPart p = fixedPart p0 :=
  ⟨clear_eq_fresh W p q (fun ht => hl ht.2) hq, (history_keeps_config W hr hl).1⟩

/-! ### several objects -/

/-- an operation on object `i` leaves the struct of every other object alone -/
theorem instances_independent_struct (W : Eng σ) (objs : List (Soxr σ)) (i j : Nat) (o : HOp) (hij : i ≠ j) (hi : i < objs.length) :
    (objs.set i (applyOp W objs[i] o))[j]? = objs[j]? := by
  rw [List.getElem?_set_ne hij]

/-! ### process-wide tables -/

theorem useFft_ge (g : Globals) (n : Nat) : n ≤ (useFft g n).fftLen ∧ g.fftLen ≤ (useFft g n).fftLen := by
  simp [useFft]; omega

/-- a length-`n` transform reads the same entries whatever the cache was grown to by other instances -/
theorem fft_view_history_independent {τ : Type} (T : FftTables τ) (g1 g2 : Globals) (n : Nat) :
    fftView T g1 n = fftView T g2 n := by
  unfold fftView
  apply List.map_congr_left
  intro i hi
  have hi' : i < T.used n := List.mem_range.mp hi
  rw [T.prefix_ok _ n i (useFft_ge g1 n).1 hi', T.prefix_ok _ n i (useFft_ge g2 n).1 hi']

/-- positive half of independence: what depends on the configuration and on the FFT views only (every engine but VR)
    does not depend on which other instances exist or existed -/
theorem instances_independent_partial {τ B : Type} (T : FftTables τ) (beh : Config → List (List τ) → B)
    (c : Config) (lens : List Nat) (g1 g2 : Globals) :
    beh c (lens.map (fftView T g1)) = beh c (lens.map (fftView T g2)) := by
  congr 1
  apply List.map_congr_left
  intro n _
  exact fft_view_history_independent T g1 g2 n

theorem useVr_first (g : Globals) (a b : Nat) : vrEffective (useVr g a) b = (useVr g a).vrMult.getD b ∧
    (useVr (useVr g a) b).vrMult = (useVr g a).vrMult := by
  simp [vrEffective, useVr]

/-- the first VR instance's `mult` is what every later VR instance gets -/
theorem vr_first_instance_wins (a b : Nat) : vrEffective (applyUse Globals.init ⟨[], some a⟩) b = a := by
  simp [vrEffective, applyUse, useVr, Globals.init]

/-- NEGATION of independence for the VR engine (F6): the same instance (`mult = 3`) gets gain 3 in a fresh process and
    gain 1 in a process where a VR instance with `mult = 1` was created before -/
theorem vr_not_independent :
    ¬ ∀ (g1 g2 : Globals) (m : Nat), vrEffective g1 m = vrEffective g2 m := by
  intro h
  have := h Globals.init (applyUse Globals.init ⟨[], some 1⟩) 3
  revert this
  decide

/-- what remains true: if every VR instance of the process uses the same `mult`, each gets its own -/
theorem vr_independent_same_mult (g : Globals) (m : Nat) (h : g.vrMult = none ∨ g.vrMult = some m) :
    vrEffective g m = m := by
  rcases h with h | h <;> simp [vrEffective, useVr, h]

/-! ### the VR tables: which of the first instance's parameters may matter -/

/-- after any number of VR instances the tables are what the FIRST one built -/
theorem vr_tables_first_wins (p : VrParams) (ps : List VrParams) :
    (ps.foldl vrInit (vrInit none p)) = some (vrBuild p) := by
  induction ps generalizing p with
  | nil => rfl
  | cons q qs ih =>
    have : vrInit (vrInit none p) q = vrInit none p := rfl
    simp only [List.foldl_cons, this]
    exact ih p

/-- the CONTENT of the tables depends on nothing of the first instance besides `mult` (its ratio class, number of stages,
    default ratio are irrelevant), and every table is built whatever the first instance needs itself -/
theorem vr_tables_mult_only (p1 p2 : VrParams) (h : p1.mult = p2.mult) :
    vrBuild p1 = vrBuild p2 ∧ (vrBuild p1).fade.isSome ∧ (vrBuild p1).u.isSome ∧ (vrBuild p1).d.isSome := by
  simp [vrBuild, h]

/-- positive independence for VR: a probe instance sees the tables of a fresh process, whatever VR instances — of ANY ratio
    class — came before, as long as they used the same `mult` (the F6 proviso) -/
theorem vr_probe_independent_same_mult (probe first : VrParams) (others : List VrParams) (h : first.mult = probe.mult) :
    vrSeen (others.foldl vrInit (vrInit none first)) probe = vrSeen none probe := by
  rw [vr_tables_first_wins]
  simp [vrSeen, vrInit, (vr_tables_mult_only first probe h).1]

/-- what a violation of this looks like (a table built only if the first instance needs it): an up-sampling-only first
    instance leaves the down-sampling table empty for every later instance -/
example :
    let buildIfNeeded : VrParams → VrTables := fun p => { fade := some (), u := some p.mult, d := if p.stages0 ≠ 0 then some p.mult else none }
    buildIfNeeded ⟨1, 0, 1⟩ ≠ buildIfNeeded ⟨1, 2, 4⟩ := by decide

example : vrSeen ([⟨1, 3, 9⟩].foldl vrInit (vrInit none ⟨1, 0, 1⟩)) ⟨1, 1, 2⟩ = vrSeen none ⟨1, 1, 2⟩ := by decide

/-! ### non-vacuity -/

/-- a 2-channel RESET_ON_CLEAR object with a sticky error, clips and a registered input function: clear = fresh + fn -/
example :
    let W : Eng Unit := dEng
    let c : Config := ⟨2, 7, ⟨resetBit, 1⟩, ⟨0, 1, 0⟩, 1, 4, 1, 1⟩
    ∃ p0 q, (create W c 99).1 = some p0 ∧
      (create W (clearConfig { (setInputFn p0 7 9 0) with error := 3, clips := 17, flushing := 1 }) 0).1 = some q ∧
      clear W { (setInputFn p0 7 9 0) with error := 3, clips := 17, flushing := 1 } = (setInputFn q 7 9 0, 0) :=
  ⟨_, _, rfl, rfl, rfl⟩

/-- a deferred object (ratio not yet known) whose spec the engine rejects: the late `soxr_set_io_ratio` tears it down;
    `soxr_clear` then hands it back as it is, with the error -/
example :
    let p := (setIoRatio dEng (((create dEng ⟨2, 0, ⟨resetBit, 99⟩, ⟨0, 1, 0⟩, 1, 4, 1, 1⟩ 5).1).getD zero) 7 0).1
    TornDown p ∧ clear dEng p = (p, 8) := ⟨by decide, rfl⟩

example : Reach dEng (zero : Soxr Unit) (applyOp dEng (zero : Soxr Unit) (.setInputFn 1 2 3)) := .op _ (.refl _)

example : fftView (τ := Nat) ⟨fun _ n i => n * 100 + i, fun n => n / 2, fun _ _ _ _ _ => rfl⟩ ⟨64, none⟩ 8
    = fftView ⟨fun _ n i => n * 100 + i, fun n => n / 2, fun _ _ _ _ _ => rfl⟩ ⟨0, none⟩ 8 := by decide

end Soxr.C10
