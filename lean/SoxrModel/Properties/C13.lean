import SoxrModel.Config.Lemmas
import SoxrModel.Properties.C09
import SoxrModel.Properties.C03
import SoxrModel.Properties.C15
/-!
# C13 Engine equivalence: which engine is selected, and what cannot depend on it

* **Selection** (`soxr_create`, modelled by `selectEngine`; tied to `/repo` by the correspondence of `checks/c13.py` over the
  flag / precision / `SOXR_USE_SIMD*` space and by the generated engine-name table): the decision table is complete and
  exclusive; `SOXR_VR` ⇒ `vr32`; otherwise precision `> 20` or `SOXR_DOUBLE_PRECISION` ⇒ a double-precision engine, else a
  single-precision one; the SIMD variant by `SOXR_USE_SIMD`, then `SOXR_USE_SIMD32/64`, then CPU detection; `soxr_engine()`
  names the selected engine for the whole life of the resampler.
* **Length and delay do not depend on the engine.**  The four constant-rate engines produce *different* plans (7-tap
  half-band, unrolled `U100` poly-phase kernels, `num_coefs4`), but `total_exact` (C03) and the delay relation (C15)
  hold for ANY well-formed plan; so for two engines given the same stream the totals agree, and at every point of the
  stream "frames delivered + delay" agrees — stated explicitly below for two arbitrary well-formed pipelines.
* **Clip behaviour**: the conversion kernels are chosen by precision class, not by SIMD variant, so given equal samples the
  two engines of a class clip identically (`conversion_kernels_shared`).
* Agreement of the *sample values* within the configured precision is a numeric fact about floating-point kernels:
  not provable here; `Goal_samples_agree` states it and the check's falsifier decides it on the real code.
-/
namespace Soxr.Properties.C13
open Soxr Soxr.Cr Soxr.Config Soxr.Config.Dbl

/-! ## selection -/

/-- **The decision table of `soxr_create`, complete and exclusive.** -/
theorem select_engine (q : QSpec) (env : Env) (cpu : Cpu) :
    (hasFlag q.flags Gen.flagVR = true → selectEngine q env cpu = .vr32) ∧
    (hasFlag q.flags Gen.flagVR = false → le q.precision c20 = true → hasFlag q.flags Gen.flagDoublePrecision = false →
      selectEngine q env cpu = if useSimd env.simd env.simd32 cpu.simd32 then .cr32s else .cr32) ∧
    (hasFlag q.flags Gen.flagVR = false → (le q.precision c20 = false ∨ hasFlag q.flags Gen.flagDoublePrecision = true) →
      selectEngine q env cpu = if useSimd env.simd env.simd64 cpu.simd64 then .cr64s else .cr64) := by
  refine ⟨?_, ?_, ?_⟩
  · intro h; simp [selectEngine, h]
  · intro h1 h2 h3; simp [selectEngine, h1, h2, h3]
  · intro h1 h2
    rcases h2 with h2 | h2 <;> simp [selectEngine, h1, h2]

/-- **Precision above 20 bits, or `SOXR_DOUBLE_PRECISION`, selects a double-precision engine** (unless `SOXR_VR`). -/
theorem double_precision_engine (q : QSpec) (env : Env) (cpu : Cpu) (hv : hasFlag q.flags Gen.flagVR = false)
    (h : gt q.precision c20 = true ∨ hasFlag q.flags Gen.flagDoublePrecision = true) :
    (selectEngine q env cpu).isDouble = true := by
  have h' : le q.precision c20 = false ∨ hasFlag q.flags Gen.flagDoublePrecision = true := by
    rcases h with h | h
    · left
      cases hl : le q.precision c20
      · rfl
      · have := lt_false_of_le _ _ hl
        simp only [gt] at h
        rw [h] at this; cases this
    · exact Or.inr h
  rw [(select_engine q env cpu).2.2 hv h']
  split <;> rfl

/-- …and only then: a single-precision constant-rate engine is selected exactly for precision `<= 20` without the flag. -/
theorem single_precision_engine_iff (q : QSpec) (env : Env) (cpu : Cpu) :
    ((selectEngine q env cpu = .cr32 ∨ selectEngine q env cpu = .cr32s) ↔
      (hasFlag q.flags Gen.flagVR = false ∧ le q.precision c20 = true ∧ hasFlag q.flags Gen.flagDoublePrecision = false)) := by
  unfold selectEngine
  cases hasFlag q.flags Gen.flagVR <;> cases le q.precision c20 <;> cases hasFlag q.flags Gen.flagDoublePrecision <;>
    cases useSimd env.simd env.simd32 cpu.simd32 <;> cases useSimd env.simd env.simd64 cpu.simd64 <;> simp

/-- **`SOXR_VR` selects the variable-rate engine**, whatever else is set. -/
theorem vr_engine_iff (q : QSpec) (env : Env) (cpu : Cpu) :
    selectEngine q env cpu = .vr32 ↔ hasFlag q.flags Gen.flagVR = true := by
  unfold selectEngine
  cases hasFlag q.flags Gen.flagVR <;> cases (le q.precision c20 && !hasFlag q.flags Gen.flagDoublePrecision) <;>
    cases useSimd env.simd env.simd32 cpu.simd32 <;> cases useSimd env.simd env.simd64 cpu.simd64 <;> simp

/-- **SIMD or portable**: `SOXR_USE_SIMD` decides if set; else the variable of the precision class; else the CPU. -/
theorem simd_choice (all specific : Option String) (cpu : Bool) :
    (∀ e, all = some e → useSimd all specific cpu = (atoi e != 0)) ∧
    (∀ e, all = none → specific = some e → useSimd all specific cpu = (atoi e != 0)) ∧
    (all = none → specific = none → useSimd all specific cpu = cpu) := by
  refine ⟨?_, ?_, ?_⟩
  · intro e h; subst h; rfl
  · intro e h1 h2; subst h1; subst h2; rfl
  · intro h1 h2; subst h1; subst h2; rfl

theorem simd_variant_iff (q : QSpec) (env : Env) (cpu : Cpu) :
    (selectEngine q env cpu).isSimd = true ↔
      (hasFlag q.flags Gen.flagVR = false ∧
       ((le q.precision c20 && !hasFlag q.flags Gen.flagDoublePrecision) = true → useSimd env.simd env.simd32 cpu.simd32 = true) ∧
       ((le q.precision c20 && !hasFlag q.flags Gen.flagDoublePrecision) = false → useSimd env.simd env.simd64 cpu.simd64 = true)) := by
  unfold selectEngine
  cases hasFlag q.flags Gen.flagVR <;> cases (le q.precision c20 && !hasFlag q.flags Gen.flagDoublePrecision) <;>
    cases useSimd env.simd env.simd32 cpu.simd32 <;> cases useSimd env.simd env.simd64 cpu.simd64 <;> simp [Engine.isSimd]

example : selectEngine (qualitySpec 4 0) {} ⟨true, true⟩ = .cr32s ∧ selectEngine (qualitySpec 6 0) {} ⟨true, false⟩ = .cr64 ∧
    selectEngine (qualitySpec 4 16) { simd := some "0" } ⟨true, true⟩ = .cr64 ∧
    selectEngine (qualitySpec 6 32) { simd64 := some "1" } ⟨false, false⟩ = .vr32 ∧
    selectEngine { (qualitySpec 4 0) with precision := .nan } {} ⟨true, true⟩ = .cr64s := by decide +kernel

/-- **`soxr_engine()` names** (generated from the five control blocks' `id()` entries): each engine has its own name. -/
theorem engine_names :
    Engine.cr32.name = "cr32" ∧ Engine.cr32s.name = "cr32s" ∧ Engine.cr64.name = "cr64" ∧ Engine.cr64s.name = "cr64s" ∧
    Engine.vr32.name = "vr32" := by decide

theorem engine_name_injective (a b : Engine) (h : a.name = b.name) : a = b := by
  obtain ⟨h1, h2, h3, h4, h5⟩ := engine_names
  cases a <;> cases b <;> first | rfl | (simp only [h1, h2, h3, h4, h5] at h; revert h; decide)

/-- **`soxr_engine()` names the engine in use, for every call history.**  The engine installed by `soxr_create` is the one
    `selectEngine` picks, no API call changes it, and `soxr_engine()` answers its name — or, once `fatal_error` has zeroed
    the control block (a deferred initialisation failed), the generated placeholder name ("none"; finding F28, repaired). -/
theorem engine_reported (c : Config) (a : Accepted) (h : validate c = .ok a) (ops : List Op) :
    let s := (run (Api.ofAccepted c a) ops).1
    s.engine = selectEngine (effectiveQ c) c.env c.cpu ∧
    (step s .engine).2 = .name (if s.wiped then Gen.engineNameWiped else (selectEngine (effectiveQ c) c.env c.cpu).name) := by
  intro s
  have he : s.engine = selectEngine (effectiveQ c) c.env c.cpu := by
    show (run (Api.ofAccepted c a) ops).1.engine = _
    rw [run_engine]
    exact (C09.create_accepted c a h).2.2.1
  refine ⟨he, ?_⟩
  cases hw : s.wiped <;> simp [step, hw, he]

/-- the placeholder is none of the engine names -/
theorem wiped_name_is_no_engine (e : Engine) : e.name ≠ Gen.engineNameWiped := by
  cases e <;> decide

/-! ## length and delay are engine-independent -/

/-- **Equal output length.**  Two well-formed pipelines — the plans of two different engines for the same job — are
    streamed through arbitrary (different) call histories that accept the same `N` frames, then drained by arbitrary
    request sequences that ask for enough: both deliver exactly `owed N` frames in total.  (`owed` is the engine's
    `(int64)(N / io_ratio + .5)`, computed by code all engines share.) -/
theorem engines_equal_total (num : Num) (a b : Cr.Api) (ea eb : Eng) (opsA opsB : List StreamOp) (N DA DB : Nat)
    (reqsA reqsB : List Nat) (hfa : C03.Fresh a.eng) (hfb : C03.Fresh b.eng)
    (hsa : Streams a.eng opsA N DA ea) (hsb : Streams b.eng opsB N DB eb)
    (hea : DA ≤ num.owed N) (heb : DB ≤ num.owed N)
    (odsA odsB : List Nat) (a2 b2 : Cr.Api)
    (hca : Calls num { a with eng := ea.flush num.owed, flushing := true } reqsA odsA a2)
    (hcb : Calls num { b with eng := eb.flush num.owed, flushing := true } reqsB odsB b2)
    (hra : num.owed N ≤ DA + reqsA.sum) (hrb : num.owed N ≤ DB + reqsB.sum) :
    DA + odsA.sum = DB + odsB.sum ∧ DA + odsA.sum = num.owed N := by
  have h1 := C03.total_exact num a ea opsA N DA reqsA hfa hsa hea odsA a2 hca
  have h2 := C03.total_exact num b eb opsB N DB reqsB hfb hsb heb odsB b2 hcb
  omega

/-- **Equal delay.**  At any point of the stream, after arbitrary histories that accepted the same `F` frames, "frames
    delivered + reported delay" is the same for both pipelines (numerators over the common denominator `p`, `io_ratio =
    p/q`): the engines may have delivered different amounts so far, their delays differ by exactly that amount. -/
theorem engines_equal_delay (ea ea' eb eb' : Eng) (opsA opsB : List StreamOp) (F DA DB p q : Nat)
    (hfa : C03.Fresh ea) (hfb : C03.Fresh eb) (hsa : Streams ea opsA F DA ea') (hsb : Streams eb opsB F DB eb') :
    C15.delayNum ea' p q + (DA : Int) * p = C15.delayNum eb' p q + (DB : Int) * p := by
  obtain ⟨a1, a2, _⟩ := C03.streaming_counts ea ea' opsA F DA hfa hsa
  obtain ⟨b1, b2, _⟩ := C03.streaming_counts eb eb' opsB F DB hfb hsb
  unfold C15.delayNum
  rw [a1, a2, b1, b2]
  omega

/-- …and both satisfy the same delay relation (C15): what is still to come is the same function of what was accepted. -/
theorem engines_same_delay_relation (ea ea' eb eb' : Eng) (opsA opsB : List StreamOp) (F DA DB rem p q : Nat) (hp : 0 < p)
    (hfa : C03.Fresh ea) (hfb : C03.Fresh eb) (hsa : Streams ea opsA F DA ea') (hsb : Streams eb opsB F DB eb') :
    (DA : Int) + C15.roundDiv (C15.delayNum ea' p q + (rem : Int) * q) p =
    (DB : Int) + C15.roundDiv (C15.delayNum eb' p q + (rem : Int) * q) p := by
  rw [C15.delay_relation_streaming ea ea' opsA F DA rem p q hp hfa.sin hfa.sout hfa.str hsa,
      C15.delay_relation_streaming eb eb' opsB F DB rem p q hp hfb.sin hfb.sout hfb.str hsb]

/-- non-vacuity: the plans of two different engines for 44100 → 48000 (HQ): the SIMD plan of C03's example and a portable
    plan whose poly-phase stage has 11 taps instead of 16 — both well-formed, both fresh -/
def exPortable : Eng :=
  { stages := [ { cfg := { kind := .clocked, prePost := 10, den := 80, step := 147, poly0 := true, taps := 11 }, st := { occ := 5, clk := 40, isz := 8192 } },
                { cfg := { kind := .dft, L := 2, dftLen := 2048, numTaps := 409, M := 1 }, st := { occ := 102, clk := 0, isz := 1024 } } ] }

example : C03.Fresh exPortable ∧ C03.Fresh C03.exEng ∧ exPortable ≠ C03.exEng :=
  ⟨⟨rfl, rfl, ⟨rfl, by decide, by decide⟩⟩, ⟨rfl, rfl, ⟨rfl, by decide, by decide⟩⟩,
   fun h => by have := congrArg (fun e : Eng => e.stages.head?.map (·.cfg.taps)) h; revert this; decide⟩

/-! ## clip behaviour -/

/-- **The conversion (and clip-counting) kernels depend on the precision class only**: the portable and the SIMD engine
    of a class are given the same `interleave` / `deinterleave` functions by `soxr_create`, so equal samples are
    converted, clipped and counted identically. -/
theorem conversion_kernels_shared :
    Engine.cr32.floatKernels = Engine.cr32s.floatKernels ∧ Engine.cr64.floatKernels = Engine.cr64s.floatKernels ∧
    (∀ e : Engine, e.floatKernels = !e.isDouble) := ⟨rfl, rfl, fun _ => rfl⟩

/-- What is NOT proved: the two engines' sample values agree within the configured precision (a numeric statement about
    floating-point kernels and two FFT back-ends).  The check's falsifier decides it on the real code: same job under
    `SOXR_USE_SIMD* = 0 / 1`, steady-state in-band signals, residual after per-tone gain `<= 2^(1-bits)`. -/
def Goal_samples_agree (out : Engine → (Nat → Int) → Nat → Int) (inBand : (Nat → Int) → Prop) (steady : Nat → Prop) : Prop :=
  -- `out e x k`: sample `k` of engine `e`'s output stream for the input stream `x`, in units of `1/scale` of full scale
  ∀ (bits scale : Nat) (x : Nat → Int), inBand x → ∀ k, steady k →
    (out .cr32 x k - out .cr32s x k).natAbs * 2 ^ bits ≤ 2 * scale ∧
    (out .cr64 x k - out .cr64s x k).natAbs * 2 ^ bits ≤ 2 * scale

end Soxr.Properties.C13
