import SoxrModel.Cr.TimeLemmas
/-!
# C04 Time alignment: zero net delay and no rate drift over streams of any length

Model (`Cr/Time.lean`, exact rationals): every stage is a uniform resampler — output frame `j` represents the instant
`a·j + b` of the stage's input stream, `a` being its rate and `b` the sum of the initial clock, the position of the
kernel's centre in the window it reads and minus the zero preload; `tstage` reads `(a, b)` off the integers of the real
plan (exported by the harness with every plan: `step`, `den`, `at₀`, `pre`, `preload`, `num_taps`, `post_peak`, `L`, `M`,
`num_coefs`), `timeOf` composes the stages.  `LatOK` is the planner's latency compensation as decidable facts about
those integers; the driver evaluates `PlanLatOK`, `offsetOf`, `rateOf` — these very definitions — on every exported
plan (`cr.time`) and the check compares `rateOf` with the exact `irate/orate`.

What the theorems give for EVERY output index / stream length:
* `aligned_forever`: an exactly compensated plan whose rate product is `r` represents output frame `k` at input instant
  `k·r` exactly — frame 0 at instant 0 (zero net delay), no accumulated error ever (rational ratios);
* `drift_bound`: if the rate product is within `ε` of `r` (rounded step of the standard clock: `ε ≤ 2⁻³³·…`,
  `std_step_rounding`), frame `K` is within `K·ε` plus the (≤ 2⁻³³ per clocked stage) initial bias of `K·r`;
* `absolute_clock`: in every state of every run (any call sizes, any length) every clocked stage satisfies
  `consumed·den + at = at₀ + produced·step`: the read position of output `k` is `⌊(at₀ + k·step)/den⌋` with phase the
  remainder, computed from the absolute index — rounding never accumulates;
* `hiprec_carry_is_wide_add`: the two-word clock update of `SOXR_HI_PREC_CLOCK` is 128-bit addition;
* `clock_loop_closed_form`: the closed form the model executes is the C `for` loop.

Not provable here (measured by `checks/c04.py` on the real code: ramp read-back, impulse centroid, sine phase after up
to 10⁸ frames): that each kernel's response really is centred where `tstage` says (symmetric coefficient tables,
filter design), floating-point rounding of the samples.
-/
namespace Soxr.Properties.C04
open Soxr Soxr.Cr

/-- **Zero net delay, no drift — exact for the whole stream.**  For an exactly compensated plan (`PlanLatOK true`)
    whose stage rates multiply to `r` (= `irate/orate` for a rational plan), position `t` of the output stream
    represents input instant `r·t`; in particular output frame `k` is the input at time `k·irate/orate` and the first
    output frame lines up with the first input frame — for every `k`, however long the stream. -/
theorem aligned_forever (l : List LStage) (r : ℚ) (hlat : PlanLatOK true l) (hrate : rateOf (l.map tstage) = r) :
    (∀ t : ℚ, timeOf (l.map tstage) t = r * t) ∧ (∀ k : ℕ, timeOf (l.map tstage) k = k * r) ∧
    timeOf (l.map tstage) 0 = 0 := by
  have h : ∀ t : ℚ, timeOf (l.map tstage) t = r * t := by
    intro t; rw [timeOf_affine, offsetOf_exact l hlat, hrate]; ring
  exact ⟨h, fun k => by rw [h]; ring, by rw [h]; ring⟩

/-- sum over the stages of the rate of everything below them: what a per-stage bias of one input period of that
    stage amounts to in periods of the pipeline's input -/
def rateSum : List TStage → ℚ
  | [] => 0
  | _ :: below => rateOf below + rateSum below

theorem tstage_a_nonneg (x : LStage) : 0 ≤ (tstage x).a := by
  unfold tstage
  cases x.cfg.kind <;> simp only
  · norm_num
  · split <;> positivity
  · positivity

theorem offset_bound : ∀ (l : List LStage), PlanLatOK false l →
    0 ≤ offsetOf (l.map tstage) ∧ offsetOf (l.map tstage) ≤ rateSum (l.map tstage) / 2 ^ 33 := by
  intro l
  induction l with
  | nil => intro _; simp [offsetOf, rateSum]
  | cons x rest ih =>
    intro h
    obtain ⟨i1, i2⟩ := ih fun y hy => h y (by simp [hy])
    obtain ⟨b1, b2⟩ := tstage_b_bound x (h x (by simp))
    have hr : 0 ≤ rateOf (rest.map tstage) := rateOf_nonneg _ (by
      intro s hs; obtain ⟨y, _, rfl⟩ := List.mem_map.mp hs; exact tstage_a_nonneg y)
    simp only [List.map_cons, offsetOf, rateSum]
    constructor
    · exact add_nonneg (mul_nonneg b1 hr) i1
    · have : (tstage x).b * rateOf (rest.map tstage) ≤ 1 / 2 ^ 33 * rateOf (rest.map tstage) :=
        mul_le_mul_of_nonneg_right b2 hr
      rw [add_div]
      have e : rateOf (rest.map tstage) / 2 ^ 33 = 1 / 2 ^ 33 * rateOf (rest.map tstage) := by ring
      rw [e]
      exact add_le_add this i2

/-- **Bounded drift for a rounded clock.**  If the plan's rate product is within `ε` of the requested ratio `r`
    (standard 32.32 clock: the rounded step is within 2⁻³³ of the exact one, `std_step_rounding`), then after `K`
    output frames the represented instant differs from `K·r` by at most `K·ε` plus the initial bias, which is at most
    2⁻³³ input periods of each clocked stage (0 for the standard clock). -/
theorem drift_bound (l : List LStage) (r ε : ℚ) (hlat : PlanLatOK false l) (hrate : |rateOf (l.map tstage) - r| ≤ ε) (K : ℕ) :
    |timeOf (l.map tstage) K - K * r| ≤ K * ε + rateSum (l.map tstage) / 2 ^ 33 := by
  obtain ⟨o1, o2⟩ := offset_bound l hlat
  rw [timeOf_affine]
  have e : rateOf (l.map tstage) * K + offsetOf (l.map tstage) - K * r =
      K * (rateOf (l.map tstage) - r) + offsetOf (l.map tstage) := by ring
  rw [e]
  have hK : (0 : ℚ) ≤ K := by positivity
  calc |(K : ℚ) * (rateOf (l.map tstage) - r) + offsetOf (l.map tstage)|
      ≤ |(K : ℚ) * (rateOf (l.map tstage) - r)| + |offsetOf (l.map tstage)| := abs_add_le _ _
    _ = K * |rateOf (l.map tstage) - r| + offsetOf (l.map tstage) := by rw [abs_mul, abs_of_nonneg hK, abs_of_nonneg o1]
    _ ≤ K * ε + rateSum (l.map tstage) / 2 ^ 33 := add_le_add (mul_le_mul_of_nonneg_left hrate hK) o2

/-- the rounded step of the standard clock: `step.whole = (int64)(x·2³² + .5)` is within 2⁻³³ of `x` -/
theorem std_clock_step_error (x : ℚ) : |((⌊x * 2 ^ 32 + 1 / 2⌋ : ℤ) : ℚ) / 2 ^ 32 - x| ≤ 1 / 2 ^ 33 :=
  std_step_rounding x

/-- **The hi-prec clock's carry chain is 128-bit addition** (`highPrecCore` of `poly-fir.h`): adding the low words
    modulo 2⁶⁴, detecting the carry by `at.ls < step.ls` afterwards and adding it to the high words gives
    `(at + step) mod 2¹²⁸` for all word values. -/
theorem hiprec_carry_is_wide_add (ams als sms sls : Nat) (h1 : als < 2 ^ 64) (h2 : sls < 2 ^ 64) :
    (hpAdd ams als sms sls).1 * 2 ^ 64 + (hpAdd ams als sms sls).2 =
      ((ams * 2 ^ 64 + als) + (sms * 2 ^ 64 + sls)) % 2 ^ 128 :=
  hpAdd_wide ams als sms sls h1 h2

/-- **The closed form is the C loop**: `for (i = 0; pos < limit; ++i, pos += step)` ends with
    `i = ⌈(limit − pos)/step⌉` (0 if `pos ≥ limit`) and `pos` advanced by `i·step`, for all values. -/
theorem clock_loop_closed_form (step limit pos : Nat) (hs : 0 < step) :
    cLoop step limit limit pos 0 = (loopCount pos step limit, pos + loopCount pos step limit * step) := by
  have := cLoop_closed step limit hs limit pos 0 (by omega)
  simpa using this

/-- **The clock never drifts, whatever the schedule and however long the stream.**  In the state reached by ANY run
    (any interleaving of input blocks, output requests, end-of-input) of a freshly initialised engine, every stage
    still has its planned configuration and its control integers are those of its absolute unit index: a clocked stage
    that has consumed `cons` frames and produced `m` outputs has `cons·den + at = at₀ + m·step` — so output `k` is read
    at `⌊(at₀ + k·step)/den⌋` with phase `(at₀ + k·step) mod den` exactly, no rounding is ever accumulated. -/
theorem absolute_clock {α : Type} (K : Kern α) (z : α) (owed : Nat → Nat) (plan : Plan) (hwf : PlanWF plan)
    (ops : List (DOp α)) (F D : List α) (e : DEng α) (r : DRuns K z owed (DEng.fresh z plan) ops F D e) :
    List.Forall₂ (fun (p : StageCfg × StageSt) (x : DStage α) => x.cfg = p.1 ∧ ∃ cons m, ctlRel p.1 p.2 x.st cons m)
      plan e.stages := by
  have := druns_inv K z owed plan ops _ _ _ _ _ _ (fresh_einv K z plan hwf) r
  obtain ⟨_, _, _, hp, _⟩ := this
  exact hp.stages_clock

/-- what `ctlRel` says for a clocked stage -/
example (c : StageCfg) (s0 s : StageSt) (cons m : Nat) (hk : c.kind = .clocked) (h : ctlRel c s0 s cons m) :
    cons * c.den + s.clk = s0.clk + m * c.step := by
  unfold ctlRel at h; simpa [hk] using h

/-! ## non-vacuity: plans exported by the real planner -/

/-- 44100 → 48000, HQ (output side first): poly-phase 80/147 with 15 coefficients, after a ×2 dft stage of 409 taps -/
def ex4448 : List LStage :=
  [ { cfg := { kind := .clocked, prePost := 15, den := 80, step := 147, poly0 := true, taps := 16 },
      s0 := { occ := 8, clk := 40, isz := 8192 }, lat := { nc := 15 } },
    { cfg := { kind := .dft, L := 2, dftLen := 2048, numTaps := 409, M := 1 },
      s0 := { occ := 102, clk := 0, isz := 1024 }, lat := { postPeak := 204 } } ]

example : PlanLatOK true ex4448 := by decide
example : rateOf (ex4448.map tstage) = 147 / 160 := by
  simp [ex4448, tstage, rateOf, dftM]; norm_num
example : ∀ k : ℕ, timeOf (ex4448.map tstage) k = k * (44100 / 48000) :=
  (aligned_forever ex4448 (44100 / 48000) (by decide) (by simp [ex4448, tstage, rateOf, dftM]; norm_num)).2.1

/-- 3 → 1.0001, VHQ with `SOXR_HI_PREC_CLOCK`: the clock starts 2⁻³³ above the exact value (only `PlanLatOK false`) -/
def exHi : List LStage :=
  [ { cfg := { kind := .clocked, prePost := 15, den := 2 ^ 96, step := 237660721470645944238521450496, taps := 16 },
      s0 := { occ := 7, clk := 2 ^ 63, isz := 8192 }, lat := { nc := 16 } },
    { cfg := { kind := .dft, L := 1, dftLen := 4096, numTaps := 825, M := 1 },
      s0 := { occ := 412, clk := 0, isz := 4096 }, lat := { postPeak := 412 } } ]

example : PlanLatOK false exHi ∧ ¬ PlanLatOK true exHi := by decide

end Soxr.Properties.C04
