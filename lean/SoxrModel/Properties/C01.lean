/-
  C01 — Pass-band fidelity.

  "For any constant resampling ratio … and any input whose spectrum lies inside the configured pass-band, the output is
  the same continuous-time signal sampled at the output rate, apart from the filter's own phase response when a
  non-linear phase is selected.  Everything else in the output (distortion, images, aliases, noise) stays below the
  configured precision — 2^(1−bits) of full scale … — and the pass-band gain error stays inside the selected
  roll-off class …"

  What is proved here (over ℂ, exact arithmetic, rational ratio L/M, steady state = beyond the start-up horizon `k₀`):
  for a linear system with finitely supported rows that is (L,M)-shift covariant from `k₀` on — which is what the
  model resampler of C12 is, with (L,M) the plan's implementation period — the property for ALL finite sums of
  in-band tones with arbitrary complex amplitudes and ALL output indices `k ≥ k₀` follows from finitely many numbers per
  frequency: the `L` modulation coefficients `c_r(z) = w^{-(k₀+r)}·Σₙ g[k₀+r,n]·zⁿ` of one period.
  `PassBand` lists exactly those hypotheses; they are evaluated by MEASUREMENT (float64, rows of the real code obtained
  by impulses at all `M_P` input phases, frequencies on a finite grid) in checks/c01.py — not proved.

  Not proved (and not provable in this model): that the Kaiser designs of `filter.c` meet the inequalities
  (`Goal_designed_filters_meet_spec`), behaviour between grid frequencies, irrational ratios, floating-point rounding
  of the kernels.
-/
import SoxrModel.Signal.Tone
import SoxrModel.Signal.Example
import Mathlib.Analysis.Complex.Basic
import Mathlib.Tactic.NormNum

namespace Soxr.C01

open Soxr.Signal Soxr.Signal.Kernel Finset

/-- The hypotheses of one rational configuration.  `B` is the set of in-band input tones `z = e^{iω}` the hypotheses
were evaluated for, `wOf z` the same continuous-time tone at the output rate (`w = e^{iωM/L}`), `G z` the filter's own
response at that frequency (gain and — for a non-linear phase setting — phase), `ε` the bound on everything else
(2^(1−bits)), `δ` the roll-off class as a bound on `| |G| − 1 |`.
`cov` is ASSUMED of the real kernels (C12 proves it for the model and measures it on the code);
`residual` and `gain` are MEASURED. -/
structure PassBand (K : Kernel ℂ) (L M k₀ : ℤ) (B : Set ℂ) (wOf G : ℂ → ℂ) (ε δ : ℝ) : Prop where
  cov : K.CovFrom L M k₀
  Lpos : 0 < L
  unit_in : ∀ z ∈ B, ‖z‖ = 1
  unit_out : ∀ z ∈ B, ‖wOf z‖ = 1
  same_tone : ∀ z ∈ B, wOf z ^ L = z ^ M
  residual : ∀ z ∈ B, ∀ r, 0 ≤ r → r < L → ‖K.coef z (wOf z) (k₀ + r) - G z‖ ≤ ε
  gain : ∀ z ∈ B, |‖G z‖ - 1| ≤ δ

variable {K : Kernel ℂ} {L M k₀ : ℤ} {B : Set ℂ} {wOf G : ℂ → ℂ} {ε δ : ℝ}

/-- **Pass-band fidelity.** For every finite family of in-band tones with arbitrary complex amplitudes, at EVERY output
index beyond the horizon, the output is the same tones at the output rate, each multiplied by the filter's own response
`G`, up to `ε · Σ|aᵢ|` — i.e. up to `ε` of full scale. -/
theorem passband_fidelity (D : PassBand K L M k₀ B wOf G ε δ) {ι : Type*} (s : Finset ι) (a z : ι → ℂ)
    (hz : ∀ i ∈ s, z i ∈ B) {k : ℤ} (hk : k₀ ≤ k) :
    ‖K.resp (fun n => ∑ i ∈ s, a i * z i ^ n) k - ∑ i ∈ s, a i * (G (z i) * wOf (z i) ^ k)‖
      ≤ ε * ∑ i ∈ s, ‖a i‖ := by
  have h := D.cov.tones_error_le D.Lpos s a z (fun i => wOf (z i)) (fun i => G (z i)) (fun _ => ε)
    (fun i hi => D.unit_in _ (hz i hi)) (fun i hi => D.unit_out _ (hz i hi)) (fun i hi => D.same_tone _ (hz i hi))
    (fun i hi => D.residual _ (hz i hi)) hk
  calc _ ≤ ∑ i ∈ s, ‖a i‖ * ε := h
    _ = ε * ∑ i ∈ s, ‖a i‖ := by rw [Finset.mul_sum]; exact Finset.sum_congr rfl fun i _ => mul_comm _ _

/-- **Gain class.** Each output tone's amplitude is the input amplitude within the roll-off class `δ`. -/
theorem passband_gain (D : PassBand K L M k₀ B wOf G ε δ) (a : ℂ) {z : ℂ} (hz : z ∈ B) :
    |‖a * G z‖ - ‖a‖| ≤ δ * ‖a‖ := by
  have h := D.gain z hz
  have e : ‖a * G z‖ - ‖a‖ = ‖a‖ * (‖G z‖ - 1) := by rw [norm_mul]; ring
  rw [e, abs_mul, abs_of_nonneg (norm_nonneg a), mul_comm]
  exact mul_le_mul_of_nonneg_right h (norm_nonneg a)

/-- **Linear phase** (`G` within `δ'` of 1 as a complex number: no phase error, gain inside the class): the output
is the same continuous-time signal sampled at the output rate up to `(ε + δ')·Σ|aᵢ|`. -/
theorem passband_fidelity_aligned (D : PassBand K L M k₀ B wOf G ε δ) {δ' : ℝ} (hG : ∀ z ∈ B, ‖G z - 1‖ ≤ δ')
    {ι : Type*} (s : Finset ι) (a z : ι → ℂ) (hz : ∀ i ∈ s, z i ∈ B) {k : ℤ} (hk : k₀ ≤ k) :
    ‖K.resp (fun n => ∑ i ∈ s, a i * z i ^ n) k - ∑ i ∈ s, a i * wOf (z i) ^ k‖ ≤ (ε + δ') * ∑ i ∈ s, ‖a i‖ := by
  have h := D.cov.tones_error_le D.Lpos s a z (fun i => wOf (z i)) (fun _ => 1) (fun _ => ε + δ')
    (fun i hi => D.unit_in _ (hz i hi)) (fun i hi => D.unit_out _ (hz i hi)) (fun i hi => D.same_tone _ (hz i hi))
    (fun i hi r hr0 hrL => by
      have e : K.coef (z i) (wOf (z i)) (k₀ + r) - 1
          = (K.coef (z i) (wOf (z i)) (k₀ + r) - G (z i)) + (G (z i) - 1) := by ring
      rw [e]
      exact (norm_add_le _ _).trans (add_le_add (D.residual _ (hz i hi) r hr0 hrL) (hG _ (hz i hi)))) hk
  simp only [one_mul] at h
  calc _ ≤ ∑ i ∈ s, ‖a i‖ * (ε + δ') := h
    _ = (ε + δ') * ∑ i ∈ s, ‖a i‖ := by rw [Finset.mul_sum]; exact Finset.sum_congr rfl fun i _ => mul_comm _ _

/-- **One period decides the whole stream — and nothing is lost by looking at one period only:** for a single tone the
bound over all `k ≥ k₀` holds IF AND ONLY IF it holds for the `L` measured coefficients. -/
theorem whole_stream_iff_one_period (hcov : K.CovFrom L M k₀) (hL : 0 < L) {z w : ℂ} (hz1 : ‖z‖ = 1) (hw1 : ‖w‖ = 1)
    (hwz : w ^ L = z ^ M) (g : ℂ) (e : ℝ) :
    (∀ k, k₀ ≤ k → ‖K.resp (fun n => z ^ n) k - g * w ^ k‖ ≤ e) ↔
      (∀ r, 0 ≤ r → r < L → ‖K.coef z w (k₀ + r) - g‖ ≤ e) :=
  hcov.tone_error_le_iff hL hz1 hw1 hwz g e

/-- The supremum of a tone's error over the whole stream is attained within the first period after the horizon. -/
theorem worst_error_in_first_period (hcov : K.CovFrom L M k₀) (hL : 0 < L) {z w : ℂ} (hz1 : ‖z‖ = 1) (hw1 : ‖w‖ = 1)
    (hwz : w ^ L = z ^ M) (g : ℂ) :
    ∃ r, 0 ≤ r ∧ r < L ∧ ∀ k, k₀ ≤ k →
      ‖K.resp (fun n => z ^ n) k - g * w ^ k‖ ≤ ‖K.resp (fun n => z ^ n) (k₀ + r) - g * w ^ (k₀ + r)‖ :=
  hcov.tone_error_sup_attained hL hz1 hw1 hwz g

/-- **A stream that starts at frame 0.** If the rows beyond the horizon read no input before frame 0, the one-sided
signal (zero before the start of the stream) gives the same output there as the two-sided tones: the steady-state
statement applies to real streams. -/
theorem passband_fidelity_causal (D : PassBand K L M k₀ B wOf G ε δ)
    (hreads : ∀ k, k₀ ≤ k → ∀ n ∈ (K.row k).support, 0 ≤ n) {ι : Type*} (s : Finset ι) (a z : ι → ℂ)
    (hz : ∀ i ∈ s, z i ∈ B) {k : ℤ} (hk : k₀ ≤ k) :
    ‖K.resp (fun n => if 0 ≤ n then ∑ i ∈ s, a i * z i ^ n else 0) k - ∑ i ∈ s, a i * (G (z i) * wOf (z i) ^ k)‖
      ≤ ε * ∑ i ∈ s, ‖a i‖ := by
  have e : K.resp (fun n => if 0 ≤ n then ∑ i ∈ s, a i * z i ^ n else 0) k
      = K.resp (fun n => ∑ i ∈ s, a i * z i ^ n) k :=
    K.resp_congr fun n hn => by simp [hreads k hk n hn]
  rw [e]
  exact passband_fidelity D s a z hz hk

/-- **With rounding.** If the real resampler `impl` is within `η` of the linear system on the signal in question
(η: the floating-point noise of the kernels, measured by the sine-fit residual), the bound is `ε·Σ|aᵢ| + η`. -/
theorem passband_fidelity_impl (D : PassBand K L M k₀ B wOf G ε δ) (impl : (ℤ → ℂ) → ℤ → ℂ) {η : ℝ} {ι : Type*}
    (s : Finset ι) (a z : ι → ℂ) (hz : ∀ i ∈ s, z i ∈ B) {k : ℤ} (hk : k₀ ≤ k)
    (himpl : ‖impl (fun n => ∑ i ∈ s, a i * z i ^ n) k - K.resp (fun n => ∑ i ∈ s, a i * z i ^ n) k‖ ≤ η) :
    ‖impl (fun n => ∑ i ∈ s, a i * z i ^ n) k - ∑ i ∈ s, a i * (G (z i) * wOf (z i) ^ k)‖
      ≤ ε * ∑ i ∈ s, ‖a i‖ + η := by
  have h := passband_fidelity D s a z hz hk
  have t := norm_sub_le_norm_sub_add_norm_sub (impl (fun n => ∑ i ∈ s, a i * z i ^ n) k)
    (K.resp (fun n => ∑ i ∈ s, a i * z i ^ n) k) (∑ i ∈ s, a i * (G (z i) * wOf (z i) ^ k))
  linarith

/-- NOT PROVED: that the filters `_soxr_init` designs (Kaiser windows, `lsx_design_lpf`, half-band tables) make the
hypotheses true for every configuration and every in-band frequency.  Evaluated by measurement on sampled
configurations and a frequency grid. -/
def Goal_designed_filters_meet_spec (K : Kernel ℂ) (L M k₀ : ℤ) (passband : Set ℂ) (wOf : ℂ → ℂ) (bits : ℕ)
    (rolloff : ℝ) : Prop :=
  ∃ G : ℂ → ℂ, PassBand K L M k₀ passband wOf G ((2 : ℝ) ^ (1 - (bits : ℤ))) rolloff

/-! ### Non-vacuity: the ×2 linear interpolator (L = 2, M = 1) -/

theorem interp2_dc_coef (k : ℤ) : (interp2 ℂ).coef 1 1 k = 1 := by
  unfold Kernel.coef
  have : tone (1 : ℂ) = fun _ => 1 := funext fun n => one_zpow n
  rw [this, interp2_const (by norm_num), one_zpow, inv_one, one_mul]

/-- At DC the interpolator is perfect: the hypotheses hold with `ε = 0`, `δ = 0`. -/
theorem interp2_passband_dc : PassBand (interp2 ℂ) 2 1 0 {1} (fun _ => 1) (fun _ => 1) 0 0 where
  cov := interp2_cov.covFrom 0
  Lpos := by norm_num
  unit_in := fun z hz => by rw [Set.mem_singleton_iff.mp hz]; exact norm_one
  unit_out := fun _ _ => norm_one
  same_tone := fun z hz => by rw [Set.mem_singleton_iff.mp hz]; simp
  residual := fun z hz r _ _ => by rw [Set.mem_singleton_iff.mp hz, interp2_dc_coef]; simp
  gain := fun _ _ => by simp

/-- At the input Nyquist frequency (`z = −1`, `w = i`) the two coefficients of the period are 1 and 0: gain ½ and an
image of the same size — a linear interpolator does not reject it; the hypotheses hold with `G = ½`, `ε = ½`. -/
theorem interp2_nyquist_coefs :
    (interp2 ℂ).coef (-1) Complex.I 0 = 1 ∧ (interp2 ℂ).coef (-1) Complex.I 1 = 0 := by
  constructor
  · unfold Kernel.coef
    rw [interp2_resp]
    simp [tone]
  · unfold Kernel.coef
    rw [interp2_resp]
    simp [tone]

example : ‖(interp2 ℂ).coef (-1) Complex.I 0 - 2⁻¹‖ ≤ 2⁻¹ ∧ ‖(interp2 ℂ).coef (-1) Complex.I 1 - 2⁻¹‖ ≤ 2⁻¹ := by
  rw [interp2_nyquist_coefs.1, interp2_nyquist_coefs.2]
  constructor
  · have : (1 : ℂ) - 2⁻¹ = 2⁻¹ := by norm_num
    rw [this]; simp
  · simp

/-- The theorem applies: a DC input of any complex amplitude comes out unchanged at every output index ≥ 0. -/
example (a : ℂ) {k : ℤ} (hk : 0 ≤ k) :
    ‖(interp2 ℂ).resp (fun n => ∑ _i ∈ ({0} : Finset ℕ), a * (1 : ℂ) ^ n) k
      - ∑ _i ∈ ({0} : Finset ℕ), a * (1 * (1 : ℂ) ^ k)‖ ≤ 0 * ∑ _i ∈ ({0} : Finset ℕ), ‖a‖ :=
  passband_fidelity interp2_passband_dc {0} (fun _ => a) (fun _ => 1) (fun _ _ => rfl) hk

end Soxr.C01
