import SoxrModel.Fifo.Refine
import SoxrModel.Fifo.FootprintLemmas
import SoxrModel.Fifo.Kernel
import SoxrModel.Fifo.Capacity
/-!
# C07 — memory safety and the buffer contract

Three layers, all for arbitrary byte types, sizes, call sequences and (where a plan is involved) every stage
configuration meeting the stated clauses:

* **FIFO** (`fifo.h`, byte level): the invariant `begin ≤ end ≤ allocation`, refinement of the abstract byte queue by
  every call sequence, every handed-out pointer inside the current block, the `reserve`/`trim_by` pattern of the
  kernels, occupancy, failed reads.
* **Kernels on the count model** (`Cr/Model.lean`): the index sets the half-band, clocked and dft stage functions read
  lie inside the FIFO; the read after each loop succeeds; what is written fits what was reserved (capacity clause).
* **API layer** (`soxr.c`): `idone ≤ ilen`, `odone ≤ olen`, every access to caller memory inside the caller's
  buffers — for both layouts on either side and both paths of `soxr_process`, any number of pull-loop iterations
  (`process_footprint`, for the code as it is in `/repo` now: `Variant.current`).  The tree as first pinned violated
  this in two ways (F2, F15; repaired in `/repo` by e1592d4 and 4b04ca8).  The negations for the *old* expressions
  are kept, labelled historical, with concrete witnesses; `process_footprint_any_variant` states the clause for any
  variant with the excluding hypothesis `Excl` visible, so the three theorems together say exactly what the repairs
  bought.  The check replays the witness calls on the real code on every run.

Not provable in this model (a `Nat`-level model cannot exhibit them): misaligned access, shift/conversion UB, signed
overflow, lifetime errors inside the FFT back-ends, the VR engine's kernels.  Those are searched for by running the
real code under ASan/UBSan (checks/c07.py); see `Goal_…` at the end for what a complete proof would still need.
-/
namespace Soxr.C07
open Soxr.Fifo Soxr.Footprint Soxr.Cr

variable {β : Type}

/-! ## FIFO -/

/-- **Refinement.**  From any state satisfying the invariant, every sequence of `reserve / write / read / trim_to /
    trim_by / clear` calls whose trims stay within the occupancy runs to completion on the byte-level model (the
    reserve loop always returns), re-establishes `begin ≤ end ≤ allocation = |block|`, and its contents follow the
    abstract byte queue step by step — across compaction and growth. -/
theorem fifo_refines_queue (fifoMin : Nat) (junk : Nat → β) (ops : List (Op β)) (f : Fifo β) (hwf : WF f)
    (hv : ValidOps f.itemSize (contents f).length ops) :
    ∃ f' tr, run fifoMin junk f ops = some (f', tr) ∧ WF f' ∧ f'.itemSize = f.itemSize ∧
      QRun f.itemSize (contents f) ops (contents f') := by
  obtain ⟨f', tr, h1, h2, h3, h4, _⟩ := run_sim fifoMin junk ops f hwf hv
  exact ⟨f', tr, h1, h2, h3, h4⟩

/-- the same from `fifo_create`: the abstract queue starts empty. -/
theorem fifo_refines_queue_from_create (fifoMin : Nat) (junk : Nat → β) (sz : Nat) (ops : List (Op β))
    (hv : ValidOps sz 0 ops) :
    ∃ f' tr, run fifoMin junk (create fifoMin junk sz) ops = some (f', tr) ∧ WF f' ∧
      QRun sz [] ops (contents f') := by
  have hc := create_contents fifoMin junk sz
  have hv' : ValidOps (create fifoMin junk sz).itemSize (contents (create fifoMin junk sz)).length ops := by
    rw [hc]; exact hv
  obtain ⟨f', tr, h1, h2, _, h4⟩ := fifo_refines_queue fifoMin junk ops _ (create_wf fifoMin junk sz) hv'
  rw [hc] at h4
  exact ⟨f', tr, h1, h2, h4⟩

example : ValidOps (β := Nat) 4 0 [.write 2 [1, 2, 3, 4, 5, 6, 7, 8], .reserve 5000, .trimBy 4999, .read 1, .read 9, .trimTo 1] := by
  simp [ValidOps, Op.valid, Op.lenAfter]

/-- **Pointers.**  Every `(offset, length)` handed out by `fifo_reserve` / `fifo_write` / `fifo_read` during such a
    run lies inside `[0, allocation)` of the block as it is right after that call (the block the pointer points
    into); a reserved region is the tail `[end − len, end)` of the queue, a read region the stretch `[begin − len,
    begin)` just consumed. -/
theorem fifo_ptr_in_bounds (fifoMin : Nat) (junk : Nat → β) (ops : List (Op β)) (f : Fifo β) (hwf : WF f)
    (hv : ValidOps f.itemSize (contents f).length ops) :
    ∃ f' tr, run fifoMin junk f ops = some (f', tr) ∧ tr.length = ops.length ∧
      ∀ i (hi : i < tr.length) (hj : i < ops.length), WF (tr[i]).1 ∧ PtrOK (tr[i]).1 ops[i] (tr[i]).2 := by
  obtain ⟨f', tr, h1, _, _, _, h5, h6⟩ := run_sim fifoMin junk ops f hwf hv
  exact ⟨f', tr, h1, h5, h6⟩

/-- what `PtrOK` says, spelled out for a pointer. -/
theorem ptrOK_in_block (f' : Fifo β) (op : Op β) (off len : Nat) (h : PtrOK f' op (.ptr off len)) :
    off + len ≤ f'.allocation ∧ f'.data.length = f'.allocation := ⟨h.1, h.2.1⟩

example : (run 16 (fun _ => 0) (create 16 (fun _ => 0) 4) [Op.write 3 (List.range 12), .read 2, .reserve 5]).map
    (fun r => r.2.map (·.2)) = some [Ret.ptr 0 12, Ret.ptr 0 8, Ret.ptr 12 20] := by decide

/-- **Compaction** (`memmove` to the front when `begin > FIFO_MIN`) and **growth** (`realloc` by exactly `n`) keep
    invariant and queue. -/
theorem compaction_preserves_queue (f : Fifo β) (h : WF f) :
    WF { f with data := memmoveDown f.data f.bgn f.end_, end_ := f.end_ - f.bgn, bgn := 0 } ∧
    contents { f with data := memmoveDown f.data f.bgn f.end_, end_ := f.end_ - f.bgn, bgn := 0 } = contents f :=
  ⟨compact_wf h, compact_contents h⟩

theorem growth_preserves_queue (f : Fifo β) (h : WF f) (junk : Nat → β) (n : Nat) :
    WF { f with data := f.data ++ junkBlock junk f.allocation n, allocation := f.allocation + n } ∧
    contents { f with data := f.data ++ junkBlock junk f.allocation n, allocation := f.allocation + n } = contents f :=
  ⟨grow_wf h junk n, grow_contents h junk n⟩

/-- **The reserve loop terminates**: from `end ≤ allocation` it returns within three iterations, and the answer
    does not depend on the fuel the model gives it. -/
theorem reserve_loop_terminates (fifoMin : Nat) (junk : Nat → β) (n : Nat) (f : Fifo β) (h : WF f) :
    ∃ r, reserveLoop fifoMin junk n reserveFuel f = some r ∧ ∀ k, reserveLoop fifoMin junk n (reserveFuel + k) f = some r := by
  obtain ⟨r, hr⟩ := reserveLoop_total fifoMin junk n f h 0
  refine ⟨r, hr, ?_⟩
  intro k
  induction k with
  | zero => exact hr
  | succ k ih => exact reserveLoop_fuel_mono fifoMin junk n _ f r ih

/-- **reserve n, then trim_by k ≤ n** (every clocked kernel and the dft stage): the queue gains exactly the first
    `n − k` items found at the reserved pointer, and the whole reserved stretch `[off, off + n·item)` was inside the block. -/
theorem reserve_then_trim (fifoMin : Nat) (junk : Nat → β) (f : Fifo β) (n k : Nat) (hwf : WF f) (hk : k ≤ n) :
    ∃ f1 off, reserve fifoMin junk f n = some (f1, off) ∧ WF (trimBy f1 k) ∧
      off + n * f.itemSize ≤ f1.allocation ∧
      (bytesAt f1 off ((n - k) * f.itemSize)).length = (n - k) * f.itemSize ∧
      contents (trimBy f1 k) = contents f ++ bytesAt f1 off ((n - k) * f.itemSize) :=
  reserve_trim fifoMin junk f n k hwf hk

example : ∃ f : Fifo Nat, WF f ∧ f.bgn ≠ 0 ∧ contents f = [7, 8] :=
  ⟨{ data := [5, 6, 7, 8, 9, 9], allocation := 6, itemSize := 2, bgn := 2, end_ := 4 }, ⟨rfl, by decide, by decide⟩, by decide, rfl⟩

/-- **Occupancy** is the queue length in items. -/
theorem occupancy_correct (f : Fifo β) (h : WF f) : occupancy f = (contents f).length / f.itemSize := by
  rw [contents_length h]; rfl

theorem occupancy_items (f : Fifo β) (h : WF f) (k : Nat) (hsz : 0 < f.itemSize) (hk : (contents f).length = k * f.itemSize) :
    occupancy f = k := by
  rw [occupancy_correct f h, hk, Nat.mul_div_cancel _ hsz]

/-- **A read of more than is there** returns NULL and leaves the FIFO exactly as it was. -/
theorem read_failure_unchanged (f : Fifo β) (n : Nat) (h : f.end_ - f.bgn < n * f.itemSize) : Fifo.read f n = (f, none) :=
  read_fail h

/-- with the invariant: a read fails iff it asks for more items' bytes than the queue holds. -/
theorem read_fails_iff (f : Fifo β) (hwf : WF f) (n : Nat) : (Fifo.read f n).2 = none ↔ (contents f).length < n * f.itemSize := by
  rw [contents_length hwf]
  by_cases h : f.end_ - f.bgn < n * f.itemSize
  · rw [read_fail h]; exact ⟨fun _ => h, fun _ => rfl⟩
  · rw [read_ok (Nat.le_of_not_lt h)]
    exact ⟨fun h' => (by cases h'), fun h' => absurd h' h⟩

example : Fifo.read ({ data := [1, 2, 3, 4], allocation := 4, itemSize := 2, bgn := 0, end_ := 2 } : Fifo Nat) 2 =
    ({ data := [1, 2, 3, 4], allocation := 4, itemSize := 2, bgn := 0, end_ := 2 }, none) := rfl

/-- **A successful read hands out the front of the queue**, and the pointer stays good (same block, same bytes)
    across every later call that is not a reserve/write: `read`, `trim_to`, `trim_by`, `clear` never touch the block
    (`soxr_output` interleaves from read pointers after the read; `dft_stage_fn` uses `input` after `fifo_read`). -/
theorem read_returns_front (f : Fifo β) (n : Nat) (h : n * f.itemSize ≤ f.end_ - f.bgn) :
    Fifo.read f n = ({ f with bgn := f.bgn + n * f.itemSize }, some f.bgn) ∧
    bytesAt f f.bgn (n * f.itemSize) = (contents f).take (n * f.itemSize) :=
  ⟨read_ok h, read_ok_bytes h⟩

theorem block_untouched_by_non_reserving_calls (f : Fifo β) (n : Nat) :
    (Fifo.read f n).1.data = f.data ∧ (trimTo f n).data = f.data ∧ (trimBy f n).data = f.data ∧ (clear f).data = f.data ∧
    (Fifo.read f n).1.allocation = f.allocation := by
  by_cases h : f.end_ - f.bgn < n * f.itemSize
  · rw [read_fail h]; exact ⟨rfl, rfl, rfl, rfl, rfl⟩
  · rw [read_ok (Nat.le_of_not_lt h)]; exact ⟨rfl, rfl, rfl, rfl, rfl⟩

/-! ## Kernels (count model of the constant-rate engine) -/

/-- half-band decimator with the margins clause `pre_post = 4n` (`pre = 2n`): output `i` reads
    `read_ptr[2i .. 2i + 4n − 1]`, all below the occupancy — also for the last output when `num_in` is odd, which
    borrows one frame of post-context. -/
theorem half_kernel_reads_in_fifo (c : StageCfg) (s : StageSt) (n : Nat) (hpp : c.prePost = 4 * n) :
    ∀ i, i < (halfFn c s).2 → 2 * i + 4 * n ≤ s.occ :=
  half_reads_in_fifo c s n hpp

/-- … and its `fifo_read(2·num_out)` succeeds, so the occupancy really drops by `2·num_out`. -/
theorem half_kernel_read_succeeds (c : StageCfg) (s : StageSt) (n : Nat) (hpp : c.prePost = 4 * n) (hn : 0 < n) :
    2 * (halfFn c s).2 ≤ s.occ ∧ (halfFn c s).1.occ = s.occ - 2 * (halfFn c s).2 :=
  ⟨half_read_succeeds c s n hpp hn, half_occ c s n hpp hn⟩

-- odd `num_in` (= 5) with n = 2: three outputs, the last window ends at item 12 = occupancy − 1
example : (halfFn { kind := .half, prePost := 8 } { occ := 13, isz := 8192 }).2 = 3 ∧ 2 * 2 + 4 * 2 ≤ 13 := by decide

/-- with `pre_post = 4n − 2` (a realistic slip) the theorem's conclusion is false: the last window ends past the FIFO. -/
example : ¬ ∀ i, i < (halfFn { kind := .half, prePost := 6 } { occ := 11, isz := 8192 }).2 → 2 * i + 4 * 2 ≤ 11 := by decide

/-- clocked samplers (`poly-fir0.h`, `poly-fir.h` both clocks, cubic): every output's window — at most
    `pre_post + 1` items from `⌊clock/den⌋` — lies inside the FIFO. -/
theorem clocked_kernel_reads_in_fifo (c : StageCfg) (s : StageSt) (hden : 0 < c.den) (hstep : 0 < c.step) :
    ∀ k, k < clockedCount c s → (s.clk + k * c.step) / c.den + (c.prePost + 1) ≤ s.occ :=
  clocked_reads_in_fifo c s hden hstep

/-- … and with the advance clause `step ≤ (pre_post + 1)·den` the `fifo_read(⌊clk'/den⌋)` after the loop succeeds
    (else C's NULL return would be ignored and the clock reduced without consuming: F3's `pre_post ≥ input_size`
    configurations aside, this is what keeps time alignment), leaving the clock reduced for the next invocation. -/
theorem clocked_read_after_loop_succeeds (c : StageCfg) (s : StageSt) (hden : 0 < c.den) (hstep : 0 < c.step)
    (hadv : c.step ≤ (c.prePost + 1) * c.den) (hclk : s.clk < c.den) :
    clockedClk c s / c.den ≤ s.occ ∧ (clockedFn c s).1.clk < c.den :=
  ⟨clocked_read_succeeds c s hden hstep hadv hclk, (clocked_state c s hden hstep hadv hclk).2⟩

example : let c : StageCfg := { kind := .clocked, prePost := 19, den := 160, step := 147 }
    let s : StageSt := { occ := 100, clk := 3, isz := 8192 }
    0 < c.den ∧ 0 < c.step ∧ c.step ≤ (c.prePost + 1) * c.den ∧ s.clk < c.den ∧ clockedCount c s = 89 := by decide

/-- **Capacity** (the asserts of `poly-fir.h:129`, `poly-fir0.h:40`, `cr-core.c:63`, disabled by NDEBUG): given the
    clause `count ≤ max_num_out` (checked per run: the sanitizer build keeps the asserts), reserving `max_num_out`
    items, writing `count` and trimming by the difference is in bounds and appends exactly `count` items. -/
theorem clocked_writes_in_reserved (fifoMin : Nat) (junk : Nat → β) (out : Fifo β) (hwf : WF out)
    (c : StageCfg) (s : StageSt) (maxOut : Nat) (hcap : clockedCount c s ≤ maxOut) :
    ∃ f1 off, reserve fifoMin junk out maxOut = some (f1, off) ∧
      off + clockedCount c s * out.itemSize ≤ f1.allocation ∧
      WF (trimBy f1 (maxOut - clockedCount c s)) ∧
      (contents (trimBy f1 (maxOut - clockedCount c s))).length = (contents out).length + clockedCount c s * out.itemSize := by
  obtain ⟨f1, off, h1, h2, h3, h4, h5⟩ := reserve_trim fifoMin junk out maxOut (maxOut - clockedCount c s) hwf (Nat.sub_le _ _)
  have e : maxOut - (maxOut - clockedCount c s) = clockedCount c s := by omega
  rw [e] at h4 h5
  have : clockedCount c s * out.itemSize ≤ maxOut * out.itemSize := Nat.mul_le_mul_right _ hcap
  exact ⟨f1, off, h1, by omega, h2, by rw [h5, List.length_append, h4]⟩

/-- the clause holds whenever `out_in_ratio` is exact: the loop yields at most `1 + ⌊num_in·den/step⌋` frames. -/
theorem capacity_exact_ratio (c : StageCfg) (s : StageSt) (hstep : 0 < c.step) :
    clockedCount c s ≤ 1 + numIn c s * c.den / c.step :=
  clocked_count_le_exact c s hstep

/-- dft stage: a block is processed only when the FIFO holds everything it reads — time-domain spread, F-domain
    `memcpy` of `dft_length/L` items (needs `at = 0`: linear phase; violated by the plans of F1), and the `fifo_read`. -/
theorem dft_kernel_reads_in_fifo (c : StageCfg) (s : StageSt) (hL : 0 < c.L) (hgo : s.clk + c.L * s.occ ≥ c.dftLen) :
    ceilDiv (c.dftLen - s.clk) c.L ≤ s.occ ∧ (s.clk = 0 → c.dftLen / c.L ≤ s.occ) ∧
    (c.dftLen - (c.numTaps - 1) + c.L - 1 - s.clk) / c.L ≤ s.occ :=
  ⟨dft_reads_in_fifo c s hL hgo, dft_fdomain_reads_in_fifo c s hL hgo, dft_read_succeeds c s hL hgo⟩

example : let c : StageCfg := { kind := .dft, L := 2, dftLen := 1024, numTaps := 201 }
    let s : StageSt := { occ := 512, clk := 0 }
    s.clk + c.L * s.occ ≥ c.dftLen ∧ c.dftLen / c.L = 512 := by decide

/-- **Every reachable state.**  Starting from an engine whose clocked stages meet the advance clause with a reduced
    clock (`EngOK`: what `_soxr_init` sets up under `PlanWF`), after *any* sequence of `_soxr_input / _soxr_process /
    _soxr_output / _soxr_flush` calls (any sizes, flushing or not) every clocked stage is again in a state from which
    its next invocation reads only inside its FIFO and its `fifo_read` succeeds.  (Half-band and dft stages need no
    state invariant: their theorems above hold in every state.) -/
theorem kernel_reads_in_bounds_reachable (owed : Nat → Nat) (fuel : Nat) (ops : List EngOp) (e e' : Eng)
    (h0 : EngOK e) (hr : Eng.runOps owed fuel e ops = some e') :
    ∀ x ∈ e'.stages, x.cfg.kind = Kind.clocked →
      (∀ k, k < clockedCount x.cfg x.st → (x.st.clk + k * x.cfg.step) / x.cfg.den + (x.cfg.prePost + 1) ≤ x.st.occ) ∧
      clockedClk x.cfg x.st / x.cfg.den ≤ x.st.occ := by
  intro x hx hk
  obtain ⟨h1, h2, h3, h4⟩ := EngOK_runOps owed fuel ops e e' h0 hr x hx hk
  exact ⟨clocked_reads_in_fifo x.cfg x.st h1 h2, clocked_read_succeeds x.cfg x.st h1 h2 h3 h4⟩

-- non-vacuity: a 147/160 poly-fir0 stage behind a half-band stage, fed, processed, flushed and drained
example : let e : Eng := { stages := [
      { cfg := { kind := .clocked, prePost := 19, den := 160, step := 147, poly0 := true }, st := { occ := 10, clk := 80 } },
      { cfg := { kind := .half, prePost := 32 }, st := { occ := 16 } }] }
    EngOK e ∧ (Eng.runOps (fun n => n) 1000 e [.input 5000, .process 100, .output 100, .flush, .process 50, .output 50]).isSome := by
  refine ⟨?_, by decide⟩
  intro x hx
  simp only [List.mem_cons, List.not_mem_nil, or_false] at hx
  rcases hx with rfl | rfl
  · intro _; decide
  · intro h; cases h

/-- E2 for the constant-rate engine: `_soxr_output` delivers at most what was asked and at most what the output
    FIFO holds (the clamp `min(n, fifo_occupancy)`), so `odone ≤ olen` per channel and the final `fifo_read` succeeds. -/
theorem engine_delivers_at_most_requested (e : Eng) (n0 : Nat) :
    (e.output n0).2.toNat ≤ n0 ∧ (e.output n0).2.toNat ≤ e.outOcc :=
  ⟨engine_output_le e n0, engine_output_le_occ e n0⟩

/-! ## API layer -/

/-- `idone ≤ ilen`, both paths, every variant. -/
theorem process_idone_le_ilen (v : Variant) (c : Cfg) (k : Call) (iForO : Nat) (err : Bool) (its : List Iter) :
    (process v c k iForO err its).idone ≤ k.ilen0 := by
  unfold process
  split
  · exact ilenOf_le iForO k
  · simp only [processGeneric]
    split
    · exact ilenOf_le iForO k
    · exact Nat.zero_le _

/-- `odone ≤ olen`, both paths, any number of pull-loop iterations, given E2 for the engine. -/
theorem process_odone_le_olen (v : Variant) (c : Cfg) (k : Call) (iForO : Nat) (err : Bool) (its : List Iter)
    (hch : 0 < c.ch) (hdl : Deliv c k.olen 0 its) : (process v c k iForO err its).odone ≤ k.olen := by
  unfold process
  split
  · simp only [processSplit]
    cases its with
    | nil => exact Nat.zero_le _
    | cons it rest =>
      obtain ⟨_, hd, _⟩ := hdl
      have := hd (c.ch - 1) (by omega)
      simpa using this
  · have := outputDone_le c k.olen hch its 0 (Nat.zero_le _) hdl
    simpa [processGeneric] using this

/-- **Footprint** of the code in `/repo` (`Variant.current`, the repaired expressions): every access of
    `soxr_process` to caller memory — input side: `in[0, ilen·ch)` or the pointer array and `in[c][0, ilen)`; output
    side: `out[0, olen·ch)` or the pointer array and `out[c][0, olen)`; blocks of the input function — lies inside
    the caller's objects.  All layouts, both paths, any number of pull-loop iterations, all sizes including 0;
    the only hypothesis about the engine is E2 (`Deliv`). -/
theorem process_footprint (c : Cfg) (k : Call) (iForO : Nat) (err : Bool) (its : List Iter)
    (hch : 0 < c.ch) (hdl : Deliv c k.olen 0 its) :
    (process Variant.current c k iForO err its).inBounds c k.ilen0 k.olen := by
  unfold process
  split
  · next h =>
    simp only [Bool.and_eq_true] at h
    refine processSplit_inBounds c k iForO _ h.1 h.2 ?_
    cases its with
    | nil => intro u _; exact Nat.zero_le _
    | cons it rest =>
      obtain ⟨_, hd, _⟩ := hdl
      intro u hu
      simpa using hd u hu
  · exact processGeneric_inBounds _ c k iForO err its hch hdl (excl_repaired c k.olen its 0)

/-- the same clause for **any** variant of the two expressions, with the excluding hypothesis visible: on the
    original code (`Variant.original`) interleaved output needs `8·ch` bytes left at the start of every iteration
    (F2) and split output must not be advanced by the pull loop (F15); for `Variant.repaired` `Excl` is vacuous. -/
theorem process_footprint_any_variant (v : Variant) (c : Cfg) (k : Call) (iForO : Nat) (err : Bool) (its : List Iter)
    (hch : 0 < c.ch) (hdl : Deliv c k.olen 0 its) (hex : Excl v c k.olen 0 its) :
    (process v c k iForO err its).inBounds c k.ilen0 k.olen := by
  unfold process
  split
  · next h =>
    simp only [Bool.and_eq_true] at h
    refine processSplit_inBounds c k iForO _ h.1 h.2 ?_
    cases its with
    | nil => intro u _; exact Nat.zero_le _
    | cons it rest =>
      obtain ⟨_, hd, _⟩ := hdl
      intro u hu
      simpa using hd u hu
  · exact processGeneric_inBounds v c k iForO err its hch hdl hex

/-- `Excl` for push mode (one iteration, nothing delivered before): interleaved output of at least one pointer per
    channel, i.e. `8 ≤ olen · sample size`; nothing for split output. -/
theorem excl_push_mode (v : Variant) (c : Cfg) (olen : Nat) (it : Iter)
    (h : c.oSplit = false → v.ptrReadAlways = true → c.ch * c.ptrSize ≤ olen * c.ch * c.osz) :
    Excl v c olen 0 [it] := by
  obtain ⟨d, sup⟩ := it
  exact ⟨fun h1 h2 => by simpa using h h1 h2, fun _ _ => rfl, trivial⟩

-- non-vacuity: a stereo int16-interleaved → float32-split pull call, 3 iterations, the middle one delivering
example : let c : Cfg := { ch := 2, isz := 2, osz := 4, iSplit := false, oSplit := true }
    let its : List Iter := [(fun _ => 0, 64), (fun _ => 30, 64), (fun _ => 70, 0)]
    0 < c.ch ∧ Deliv c 100 0 its := by
  refine ⟨by decide, by decide, fun u _ => by simp, by decide, fun u _ => by simp, by decide, fun u _ => by simp, trivial⟩

/-- int16 mono interleaved both sides, `soxr_process(p, in, 100, &idone, out, 1, &odone)` — design probe e3.c. -/
def f2Cfg : Cfg := { ch := 1, isz := 2, osz := 2, iSplit := false, oSplit := false }
def f2Call : Call := { hasIn := true, flushReq := false, useIdone := true, ilen0 := 100, olen := 1 }
def f2Its : List Iter := [(fun _ => 0, 0)]

/-- **F2, historical** (negation of the footprint clause for the expression before e1592d4).  With a 1-frame int16
    mono interleaved output buffer (2 bytes) the original code read 8 bytes at `out + 0`: `((soxr_bufs_t)out)[0]` at
    soxr.c:689.  E2 holds for the witness, so nothing but `Excl` is violated. -/
theorem F2_historical_interleaved_output_overread :
    Deliv f2Cfg f2Call.olen 0 f2Its ∧
    ¬ (process Variant.original f2Cfg f2Call 2 false f2Its).inBounds f2Cfg f2Call.ilen0 f2Call.olen ∧
    firstBad f2Cfg f2Call.ilen0 f2Call.olen (process Variant.original f2Cfg f2Call 2 false f2Its).acc
      = some ⟨.outBuf, 0, 8, false⟩ := by
  refine ⟨⟨by decide, fun u _ => Nat.zero_le _, trivial⟩, ?_, by decide⟩
  intro h
  have := h ⟨.outBuf, 0, 8, false⟩ (by decide)
  revert this
  decide

/-- float32 mono, interleaved in, split out, pull mode: `soxr_output(p, out, 2)` whose first iteration delivers 1. -/
def f15Cfg : Cfg := { ch := 1, isz := 4, osz := 4, iSplit := false, oSplit := true }
def f15Call : Call := { hasIn := false, flushReq := false, useIdone := false, ilen0 := 0, olen := 2 }
def f15Its : List Iter := [(fun _ => 1, 8), (fun _ => 1, 0)]

/-- **F15, historical** (pull mode with split output, expression before 4b04ca8).  After an iteration that
    delivered one frame the original code had moved `out` — the caller's one-entry pointer array — by
    `osize·odone = 4` bytes, and the next iteration read 8 bytes at `array + 4`; the channel pointer so obtained is
    garbage (`wild` write). -/
theorem F15_historical_split_pull_overread :
    Deliv f15Cfg f15Call.olen 0 f15Its ∧
    ¬ (process Variant.original f15Cfg f15Call 0 false f15Its).inBounds f15Cfg f15Call.ilen0 f15Call.olen ∧
    firstBad f15Cfg f15Call.ilen0 f15Call.olen (process Variant.original f15Cfg f15Call 0 false f15Its).acc
      = some ⟨.outPtrs, 4, 8, false⟩ := by
  refine ⟨⟨by decide, fun u hu => ?_, by decide, fun u hu => ?_, trivial⟩, ?_, by decide⟩
  · show 1 ≤ 2 - 0
    decide
  · show 1 ≤ 2 - (0 + 1)
    decide
  · intro h
    have := h ⟨.outPtrs, 4, 8, false⟩ (by decide)
    revert this
    decide

/-- the same two calls are in bounds on the code as it is now (so the witnesses isolate exactly what was repaired). -/
theorem witnesses_in_bounds_now :
    (process Variant.current f2Cfg f2Call 2 false f2Its).inBounds f2Cfg f2Call.ilen0 f2Call.olen ∧
    (process Variant.current f15Cfg f15Call 0 false f15Its).inBounds f15Cfg f15Call.ilen0 f15Call.olen :=
  ⟨process_footprint f2Cfg f2Call 2 false f2Its (by decide) F2_historical_interleaved_output_overread.1,
   process_footprint f15Cfg f15Call 0 false f15Its (by decide) F15_historical_split_pull_overread.1⟩

/-! ## The capacity clause under C's `double` arithmetic (formerly `Goal_capacity_with_double_rounding`)

`max_num_out = 1 + (int)(num_in * out_in_ratio)` with `out_in_ratio = MULT32 * L / (double)step.whole` (poly-fir.h:125,
cr-core.c:53; cr.c:411, 488).  `Float` is opaque to the kernel, so the statement is made about the exact rational value
`p` of the product under the STANDARD MODEL of binary64 arithmetic: each of the three operations (conversion of
`step.whole`, division, multiplication) returns the exact result times `1 + e` with `|e| ≤ 2⁻⁵³` (no overflow or
underflow here: all values lie between 2⁻³¹ and 2⁶⁴).  `three_roundings` turns that model into `RoundedProduct`; the
two capacity theorems need nothing else.  The truncation `(int)p` is `⌊p⌋` because `0 ≤ p < 2³¹`. -/

/-- **Capacity, standard clock and cubic stage** (`den = 2³²`; `num_in ≤ input_size = 8192`, any bound up to 2¹⁹ will do):
    the clock loop's count fits what was reserved, whatever the roundings did. -/
theorem capacity_with_double_rounding (c : StageCfg) (s : StageSt) (hs : 0 < c.step) (hden : c.den ≤ 2 ^ 32)
    (hn : numIn c s ≤ 2 ^ 19) (p : ℚ) (hp : RoundedProduct (numIn c s * c.den) c.step p) :
    clockedCount c s ≤ 1 + ⌊p⌋.toNat := by
  have hN : numIn c s * c.den ≤ 2 ^ 51 := by
    calc numIn c s * c.den ≤ 2 ^ 19 * 2 ^ 32 := Nat.mul_le_mul hn hden
      _ = 2 ^ 51 := by norm_num
  exact capacity_rounded c s hs hN p hp

/-- **Capacity, hi-prec clock** (`den = 2³²·2⁶⁴`, 96-bit step): the planner divides by the top 64 bits of the step
    (`step.whole`), which over-estimates the ratio; the bound holds with those 64-bit quantities in the hypothesis. -/
theorem capacity_with_double_rounding_hiprec (c : StageCfg) (s : StageSt) (hden : c.den = 2 ^ 32 * 2 ^ 64)
    (hs : 0 < c.step / 2 ^ 64) (hn : numIn c s ≤ 2 ^ 19) (p : ℚ)
    (hp : RoundedProduct (numIn c s * 2 ^ 32) (c.step / 2 ^ 64) p) :
    clockedCount c s ≤ 1 + ⌊p⌋.toNat := by
  have hN : numIn c s * 2 ^ 32 ≤ 2 ^ 51 := by
    calc numIn c s * 2 ^ 32 ≤ 2 ^ 19 * 2 ^ 32 := Nat.mul_le_mul_right _ hn
      _ = 2 ^ 51 := by norm_num
  exact capacity_rounded_hiprec c s (2 ^ 32) hden hs hN p hp

/-- from the floating-point model itself: `w'` the converted step, `q` the planner's `out_in_ratio`, `p` the kernel's product -/
theorem capacity_from_fp_model (c : StageCfg) (s : StageSt) (hs : 0 < c.step) (hden : c.den ≤ 2 ^ 32) (hn : numIn c s ≤ 2 ^ 19)
    (w' q p : ℚ) (hw' : 0 < w') (h1 : w' ≤ (c.step : ℚ) * (1 + 1 / 2 ^ 53)) (h2 : (c.den : ℚ) / w' * (1 - 1 / 2 ^ 53) ≤ q)
    (h3 : (numIn c s : ℚ) * q * (1 - 1 / 2 ^ 53) ≤ p) : clockedCount c s ≤ 1 + ⌊p⌋.toNat :=
  capacity_with_double_rounding c s hs hden hn p (three_roundings (numIn c s) c.den c.step hs w' q p hw' h1 h2 h3)

/-- … and therefore what the kernel writes lies inside what it reserved (the hypothesis `hcap` of
    `clocked_writes_in_reserved` discharged). -/
theorem clocked_writes_in_reserved_rounded (fifoMin : Nat) (junk : Nat → β) (out : Fifo β) (hwf : WF out)
    (c : StageCfg) (s : StageSt) (hs : 0 < c.step) (hden : c.den ≤ 2 ^ 32) (hn : numIn c s ≤ 2 ^ 19) (p : ℚ)
    (hp : RoundedProduct (numIn c s * c.den) c.step p) :
    ∃ f1 off, reserve fifoMin junk out (1 + ⌊p⌋.toNat) = some (f1, off) ∧
      off + clockedCount c s * out.itemSize ≤ f1.allocation ∧
      WF (trimBy f1 (1 + ⌊p⌋.toNat - clockedCount c s)) ∧
      (contents (trimBy f1 (1 + ⌊p⌋.toNat - clockedCount c s))).length = (contents out).length + clockedCount c s * out.itemSize :=
  clocked_writes_in_reserved fifoMin junk out hwf c s _ (capacity_with_double_rounding c s hs hden hn p hp)

/-- non-vacuity, and the `1 +` is needed: ratio 1.5 (`step = 3·2³¹`), three frames available, clock at 0 — the exact
    product is 2, a product rounded down by the whole allowance is `2 − 2⁻⁵⁰`, `(int)` of it is 1, and the loop yields 2. -/
example : RoundedProduct (3 * 2 ^ 32) (3 * 2 ^ 31) (2 - 1 / 2 ^ 50) ∧ ⌊(2 - 1 / 2 ^ 50 : ℚ)⌋.toNat = 1 ∧
    loopCount 0 (3 * 2 ^ 31) (3 * 2 ^ 32) = 2 := by
  refine ⟨?_, ?_, by decide⟩
  · unfold RoundedProduct; norm_num
  · have : ⌊(2 - 1 / 2 ^ 50 : ℚ)⌋ = 1 := by
      rw [Int.floor_eq_iff]; constructor <;> norm_num
    rw [this]; rfl

/-! The variable-rate engine (`vr32.c`) uses the same `fifo.h` (so the FIFO theorems apply to each of its calls),
but the index sets its poly-phase / half-band kernels read are not modelled in this area (its control skeleton is
the `Vr` area); for C07 it is covered only by the sanitizer streams, and no statement is made about it here. -/

end Soxr.C07
