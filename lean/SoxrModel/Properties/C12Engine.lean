import SoxrModel.Cr.Linear
import SoxrModel.Cr.Shift
import SoxrModel.Cr.Schedule
/-!
# C12 (engine half): superposition and homogeneity for the engine model itself

`Properties/C12.lean` proves linearity for abstract pipelines of ring-linear kernels.  Here the same two laws are
proved for the **engine model of C05** (`Cr/DataPipe.lean`: the real control flow — FIFOs, preloads, block-clocked
dft stages, `stage_process`, any schedule of calls), whose control is the count model the correspondence ties to
`/repo`: if every kernel is additive (resp. homogeneous) in its window, then in the states reached by ANY runs over
inputs `x`, `y` and `x + y` that have produced equally many frames, the stream for the sum is the sum of the streams,
sample by sample (resp. for `a·x`).  That the compiled floating-point kernels are such maps up to rounding stays a
measured fact (`checks/c12.py`).
-/
namespace Soxr.Properties.C12Engine
open Soxr Soxr.Cr

variable {α : Type}

/-- while streaming, what a run has delivered plus what waits in its output FIFO is a canonical stream of what it accepted -/
theorem streaming_state (K : Kern α) (z : α) (owed : Nat → Nat) (plan : Plan) (hwf : PlanWF plan) (ops : List (DOp α)) (F D : List α)
    (e : DEng α) (r : DRuns K z owed (DEng.fresh z plan) ops F D e) (hf : e.fl = false) :
    ∃ src, PInv K z plan e.stages F src ∧ D ++ e.out = src := by
  have i := druns_inv K z owed plan ops _ _ _ _ _ _ (fresh_einv K z plan hwf) r
  simp only [List.nil_append] at i
  obtain ⟨pad, src, hpad, hp, hsrc⟩ := i
  have : pad = [] := hpad.2 hf
  subst this
  rw [List.append_nil] at hp
  exact ⟨src, hp, hsrc⟩

/-- **Superposition, any schedules.**  Three runs of a freshly initialised engine of the same plan, streaming (no
    end-of-input yet) the inputs `x`, `y` and `x + y` with ANY call schedules; if what each has delivered plus what waits in
    its output FIFO is equally long, the third stream is the sample-wise sum of the other two. -/
theorem superposition_runs [Add α] (K : Kern α) (hK : KAdd K) (z : α) (hz : z + z = z) (owed : Nat → Nat) (plan : Plan)
    (hwf : PlanWF plan) (ops₁ ops₂ ops₃ : List (DOp α)) (x y D₁ D₂ D₃ : List α) (e₁ e₂ e₃ : DEng α) (hl : x.length = y.length)
    (r₁ : DRuns K z owed (DEng.fresh z plan) ops₁ x D₁ e₁) (r₂ : DRuns K z owed (DEng.fresh z plan) ops₂ y D₂ e₂)
    (r₃ : DRuns K z owed (DEng.fresh z plan) ops₃ (ladd x y) D₃ e₃)
    (f₁ : e₁.fl = false) (f₂ : e₂.fl = false) (f₃ : e₃.fl = false)
    (l₁ : (D₁ ++ e₁.out).length = (D₃ ++ e₃.out).length) (l₂ : (D₂ ++ e₂.out).length = (D₃ ++ e₃.out).length) :
    D₃ ++ e₃.out = ladd (D₁ ++ e₁.out) (D₂ ++ e₂.out) := by
  have inv := streaming_state K z owed plan hwf
  obtain ⟨s1, p1, q1⟩ := inv ops₁ x D₁ e₁ r₁ f₁
  obtain ⟨s2, p2, q2⟩ := inv ops₂ y D₂ e₂ r₂ f₂
  obtain ⟨s3, p3, q3⟩ := inv ops₃ (ladd x y) D₃ e₃ r₃ f₃
  rw [q1, q3] at l₁
  rw [q2, q3] at l₂
  rw [q1, q2, q3]
  exact engine_superposition K hK z hz plan _ _ _ x y s1 s2 s3 hl p1 p2 p3 l₁ l₂

/-- **Homogeneity, any schedules** (the output scales in proportion to a gain applied to the input). -/
theorem homogeneity_runs [Mul α] (K : Kern α) (hK : KSmul K) (z a : α) (hz : a * z = z) (owed : Nat → Nat) (plan : Plan)
    (hwf : PlanWF plan) (ops₁ ops₂ : List (DOp α)) (x D₁ D₂ : List α) (e₁ e₂ : DEng α)
    (r₁ : DRuns K z owed (DEng.fresh z plan) ops₁ x D₁ e₁) (r₂ : DRuns K z owed (DEng.fresh z plan) ops₂ (lsmul a x) D₂ e₂)
    (f₁ : e₁.fl = false) (f₂ : e₂.fl = false) (l : (D₁ ++ e₁.out).length = (D₂ ++ e₂.out).length) :
    D₂ ++ e₂.out = lsmul a (D₁ ++ e₁.out) := by
  have inv := streaming_state K z owed plan hwf
  obtain ⟨s1, p1, q1⟩ := inv ops₁ x D₁ e₁ r₁ f₁
  obtain ⟨s2, p2, q2⟩ := inv ops₂ (lsmul a x) D₂ e₂ r₂ f₂
  rw [q1, q2] at l
  rw [q1, q2]
  exact engine_homogeneity K hK z a hz plan _ _ x s1 s2 p1 p2 l

/-- every state a run reaches: what it has delivered plus what waits in its output FIFO is a canonical stream of what
    it accepted followed by end-of-input padding -/
theorem run_state (K : Kern α) (z : α) (owed : Nat → Nat) (plan : Plan) (hwf : PlanWF plan) (ops : List (DOp α)) (F D : List α)
    (e : DEng α) (r : DRuns K z owed (DEng.fresh z plan) ops F D e) :
    ∃ k src, CInv K z plan (F ++ List.replicate k z) src ∧ D ++ e.out = src := by
  have i := druns_inv K z owed plan ops _ _ _ _ _ _ (fresh_einv K z plan hwf) r
  simp only [List.nil_append] at i
  obtain ⟨pad, src, hpad, hp, hsrc⟩ := i
  obtain ⟨k, rfl⟩ := hpad.1
  exact ⟨k, src, hp.toCInv, hsrc⟩

/-- **Shift covariance at the implementation period, any schedules, any kernels.**  `planShift` (the executable the
    driver runs on every exported plan; it reports only what `chain` accepts) says `(d, d_out, hor)` for the plan.  Two
    runs of the freshly initialised engine, with ANY call schedules, ended or not: one over `x`, one over `x` behind
    ANY `d` frames.  Beyond output frame `hor` the second output stream is the first delayed by exactly `d_out` frames
    (the two are prefix-comparable there: they agree as far as both have got).  No linearity of the kernels is used:
    a kernel is a function of stage configuration, phase tags and window, and the same tags meet the same windows. -/
theorem shift_covariance_runs (K : Kern α) (z : α) (owed : Nat → Nat) (plan : Plan) (hwf : PlanWF plan) (bound d dout hor : Nat)
    (hp : planShift bound plan = some (d, dout, hor))
    (ops₁ ops₂ : List (DOp α)) (x pfx D₁ D₂ : List α) (e₁ e₂ : DEng α) (hl : pfx.length = d)
    (r₁ : DRuns K z owed (DEng.fresh z plan) ops₁ x D₁ e₁) (r₂ : DRuns K z owed (DEng.fresh z plan) ops₂ (pfx ++ x) D₂ e₂) :
    Comparable ((D₁ ++ e₁.out).drop hor) ((D₂ ++ e₂.out).drop (hor + dout)) := by
  obtain ⟨k1, s1, c1, q1⟩ := run_state K z owed plan hwf ops₁ x D₁ e₁ r₁
  obtain ⟨k2, s2, c2, q2⟩ := run_state K z owed plan hwf ops₂ (pfx ++ x) D₂ e₂ r₂
  rw [q1, q2]
  refine planShift_sound K z bound plan d dout hor hp _ _ s1 s2 ?_ c1 c2
  have e : (pfx ++ x ++ List.replicate k2 z).drop d = x ++ List.replicate k2 z := by
    rw [List.append_assoc, ← hl, List.drop_left]
  rw [e]
  exact comparable_append_left x (replicate_comparable z k1 k2)

/-- equally long streams beyond the horizon are equal there, sample by sample -/
theorem shift_covariance_runs_eq (K : Kern α) (z : α) (owed : Nat → Nat) (plan : Plan) (hwf : PlanWF plan) (bound d dout hor : Nat)
    (hp : planShift bound plan = some (d, dout, hor))
    (ops₁ ops₂ : List (DOp α)) (x pfx D₁ D₂ : List α) (e₁ e₂ : DEng α) (hl : pfx.length = d)
    (r₁ : DRuns K z owed (DEng.fresh z plan) ops₁ x D₁ e₁) (r₂ : DRuns K z owed (DEng.fresh z plan) ops₂ (pfx ++ x) D₂ e₂)
    (hlen : (D₂ ++ e₂.out).length = (D₁ ++ e₁.out).length + dout) :
    (D₁ ++ e₁.out).drop hor = (D₂ ++ e₂.out).drop (hor + dout) := by
  apply (shift_covariance_runs K z owed plan hwf bound d dout hor hp ops₁ ops₂ x pfx D₁ D₂ e₁ e₂ hl r₁ r₂).eq_of_length
  simp only [List.length_drop]; omega

/-! ## non-vacuity: the window-sum kernel over the integers is additive and homogeneous -/

def sumK : Kern Int := { eval := fun _ _ _ _ w => w.sum }

theorem sum_ladd : ∀ (w1 w2 : List Int), w1.length = w2.length → (ladd w1 w2).sum = w1.sum + w2.sum := by
  intro w1
  induction w1 with
  | nil => intro w2 h; cases w2 <;> simp_all [ladd]
  | cons a t ih =>
    intro w2 h
    cases w2 with
    | nil => simp at h
    | cons b u =>
      simp only [List.length_cons, Nat.add_right_cancel_iff] at h
      have := ih u h
      simp only [ladd, List.zipWith_cons_cons, List.sum_cons] at this ⊢
      omega

example : KAdd sumK := fun _ _ _ _ w1 w2 h => sum_ladd w1 w2 h

example : KSmul sumK := by
  intro _ _ _ _ a w
  show (lsmul a w).sum = a * w.sum
  induction w with
  | nil => simp [lsmul]
  | cons b t ih => simp only [lsmul, List.map_cons, List.sum_cons] at ih ⊢; rw [ih, Int.mul_add]

/-! ## non-vacuity of `planShift`: a half-band decimator feeding a 2/3 poly-phase stage -/

def exPlan : Plan :=
  [({ kind := .clocked, prePost := 7, den := 2, step := 3, poly0 := true, taps := 8 }, { occ := 4, clk := 0 }),
   ({ kind := .half, prePost := 12 }, { occ := 6 })]

example : planShift 1000 exPlan = some (6, 2, 5) := by decide

end Soxr.Properties.C12Engine
