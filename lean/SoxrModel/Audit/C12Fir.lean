import SoxrModel.Properties.C12Fir
#print axioms Soxr.Properties.C12Engine.dot_ladd
#print axioms Soxr.Properties.C12Engine.dot_lsmul
#print axioms Soxr.Properties.C12Engine.dotKern_add
#print axioms Soxr.Properties.C12Engine.dotKern_smul
#print axioms Soxr.Properties.C12Engine.fir_engine_superposition
#print axioms Soxr.Properties.C12Engine.fir_engine_homogeneity
#print axioms Soxr.Properties.C12Engine.dot_scaled_table
#print axioms Soxr.Properties.C12Engine.dot_const
#print axioms Soxr.Properties.C12Engine.ufix_of_rows
#print axioms Soxr.Properties.C12Engine.dc_gain_runs
#print axioms Soxr.Cr.coneS_const
#print axioms Soxr.Properties.C12Engine.planFix_of_rows
