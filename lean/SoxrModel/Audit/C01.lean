import SoxrModel.Properties.C01
/-! Axiom audit of every theorem of Properties/C01.lean (at most propext, Classical.choice, Quot.sound). -/
#print axioms Soxr.C01.passband_fidelity
#print axioms Soxr.C01.passband_gain
#print axioms Soxr.C01.passband_fidelity_aligned
#print axioms Soxr.C01.whole_stream_iff_one_period
#print axioms Soxr.C01.worst_error_in_first_period
#print axioms Soxr.C01.passband_fidelity_causal
#print axioms Soxr.C01.passband_fidelity_impl
#print axioms Soxr.C01.interp2_dc_coef
#print axioms Soxr.C01.interp2_passband_dc
#print axioms Soxr.C01.interp2_nyquist_coefs
