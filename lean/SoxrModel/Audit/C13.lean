import SoxrModel.Properties.C13
/-! Axiom audit of every theorem of Properties/C13.lean (checked on every run by vlib.common.proof_stage). -/
#print axioms Soxr.Properties.C13.select_engine
#print axioms Soxr.Properties.C13.double_precision_engine
#print axioms Soxr.Properties.C13.single_precision_engine_iff
#print axioms Soxr.Properties.C13.vr_engine_iff
#print axioms Soxr.Properties.C13.simd_choice
#print axioms Soxr.Properties.C13.simd_variant_iff
#print axioms Soxr.Properties.C13.engine_names
#print axioms Soxr.Properties.C13.engine_name_injective
#print axioms Soxr.Properties.C13.engine_reported
#print axioms Soxr.Properties.C13.wiped_name_is_no_engine
#print axioms Soxr.Properties.C13.engines_equal_total
#print axioms Soxr.Properties.C13.engines_equal_delay
#print axioms Soxr.Properties.C13.engines_same_delay_relation
#print axioms Soxr.Properties.C13.conversion_kernels_shared
