import SoxrModel.Properties.C20
open Soxr.Alloc.C20
#print axioms error_returned
#print axioms no_leak
#print axioms no_deref_of_failed
#print axioms faults_only_at_unchecked_sites
#print axioms create_success_means_no_failure
#print axioms clear_error_returned
#print axioms lazy_init_error_returned
#print axioms deletable
#print axioms no_leak_after_delete
#print axioms every_operation_keeps_deletable
#print axioms delete0_idempotent_after_fatal_error
#print axioms job_no_leak_no_double_free
#print axioms completed_means_no_failure
#print axioms unchecked_site_crashes
#print axioms unchecked_site_reports_nothing
#print axioms process_failure_crashes
