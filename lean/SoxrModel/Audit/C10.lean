import SoxrModel.Properties.C10
/-! axiom audit of every theorem of Properties/C10.lean (and of the generated-constant ties in Chan/Clear.lean) -/
#print axioms Soxr.C10.copyFn_eq_setInputFn
#print axioms Soxr.C10.clear_eq_fresh
#print axioms Soxr.C10.clear_forgets_ratio_without_channels
#print axioms Soxr.C10.clear_fails_like_create
#print axioms Soxr.C10.clear_resets
#print axioms Soxr.C10.clear_engines_fresh
#print axioms Soxr.C10.setIoRatio_fixed
#print axioms Soxr.C10.applyOp_fixed
#print axioms Soxr.C10.dyn_fixed
#print axioms Soxr.C10.history_keeps_config
#print axioms Soxr.C10.clear_after_history
#print axioms Soxr.C10.instances_independent_struct
#print axioms Soxr.C10.useFft_ge
#print axioms Soxr.C10.fft_view_history_independent
#print axioms Soxr.C10.instances_independent_partial
#print axioms Soxr.C10.useVr_first
#print axioms Soxr.C10.vr_first_instance_wins
#print axioms Soxr.C10.vr_not_independent
#print axioms Soxr.C10.vr_independent_same_mult
#print axioms Soxr.Chan.Clear.fields_match
#print axioms Soxr.Chan.Clear.clear_preserved_match
#print axioms Soxr.Chan.Clear.clear_shape_match
#print axioms Soxr.Chan.Clear.set_input_fn_match
#print axioms Soxr.Chan.Clear.create_assigns_match
#print axioms Soxr.Chan.Clear.initialise_assigns_match
#print axioms Soxr.Chan.Clear.struct_covered
