import SoxrModel.Properties.C04Coef
#print axioms Soxr.Properties.C04Coef.table_is_closed_form
#print axioms Soxr.Properties.C04Coef.order0_entry
#print axioms Soxr.Properties.C04Coef.gain_reaches_every_tap
#print axioms Soxr.Properties.C04Coef.scaled_prototype
#print axioms Soxr.Properties.C04Coef.F_mirror
#print axioms Soxr.Properties.C04Coef.table_mirror
#print axioms Soxr.Properties.C04Coef.centre_is_where_the_time_map_puts_it
#print axioms Soxr.Properties.C04Coef.table_writes_in_bounds
#print axioms Soxr.Properties.C04Coef.kernel_reads_in_bounds
#print axioms Soxr.Properties.C04Coef.table_cells_distinct
#print axioms Soxr.Properties.C04Coef.comp_scales
#print axioms Soxr.Properties.C04Coef.F_scales
#print axioms Soxr.Properties.C04Coef.gain_scales_whole_table
#print axioms Soxr.Properties.C04Coef.E_scales
#print axioms Soxr.Properties.C04Coef.interp_reaches_next_value
#print axioms Soxr.Properties.C04Coef.interp_starts_at_value
#print axioms Soxr.Properties.C04Coef.kernel_index_form
