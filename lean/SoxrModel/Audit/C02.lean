import SoxrModel.Properties.C02
/-! Axiom audit of every theorem of Properties/C02.lean (at most propext, Classical.choice, Quot.sound). -/
#print axioms Soxr.C02.stopband_rejection
#print axioms Soxr.C02.stopband_iff_one_period
#print axioms Soxr.C02.mixed_signal
#print axioms Soxr.C02.images_rejected
#print axioms Soxr.C02.interp2_nyquist_level
#print axioms Soxr.C02.interp2_stopband
