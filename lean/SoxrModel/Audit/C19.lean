import SoxrModel.Properties.C19
open Soxr.Lsr.C19
#print axioms placeholder_c19
