import SoxrModel.Properties.C12
/-! Axiom audit of every theorem of Properties/C12.lean (at most propext, Classical.choice, Quot.sound). -/
#print axioms Soxr.C12.superposition
#print axioms Soxr.C12.homogeneity
#print axioms Soxr.C12.superposition_finite
#print axioms Soxr.C12.gain_once
#print axioms Soxr.C12.gain_on_one_stage
#print axioms Soxr.C12.gain_always_carried
#print axioms Soxr.C12.dc_gain
#print axioms Soxr.C12.dc_unity_iff_rows
#print axioms Soxr.C12.dc_pipeline
#print axioms Soxr.C12.shift_covariance
#print axioms Soxr.C12.shift_covariance_two_stages
#print axioms Soxr.C12.shift_covariance_plan
#print axioms Soxr.C12.near_linear_superposition
#print axioms Soxr.C12.near_linear_scale
#print axioms Soxr.C12.near_linear_shift
