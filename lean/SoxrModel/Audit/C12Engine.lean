import SoxrModel.Properties.C12Engine
#print axioms Soxr.Properties.C12Engine.superposition_runs
#print axioms Soxr.Properties.C12Engine.homogeneity_runs
#print axioms Soxr.Properties.C12Engine.sum_ladd
#print axioms Soxr.Properties.C12Engine.streaming_state
#print axioms Soxr.Properties.C12Engine.run_state
#print axioms Soxr.Properties.C12Engine.shift_covariance_runs
#print axioms Soxr.Properties.C12Engine.shift_covariance_runs_eq
#print axioms Soxr.Cr.planShift_sound
#print axioms Soxr.Cr.chain_sound
#print axioms Soxr.Cr.UnitSem.G_shift
