import SoxrModel.Properties.C12Engine
#print axioms Soxr.Properties.C12Engine.superposition_runs
#print axioms Soxr.Properties.C12Engine.homogeneity_runs
#print axioms Soxr.Properties.C12Engine.sum_ladd
#print axioms Soxr.Properties.C12Engine.streaming_state
