import SoxrModel.Properties.C18
