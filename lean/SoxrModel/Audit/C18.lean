import SoxrModel.Properties.C18
#print axioms Soxr.Properties.C18.request_le_max_ilen
#print axioms Soxr.Properties.C18.call_shape
#print axioms Soxr.Properties.C18.no_call_when_flushing
#print axioms Soxr.Properties.C18.nothing_after_failure
#print axioms Soxr.Properties.C18.failure_is_sticky
#print axioms Soxr.Properties.C18.process_request_bound
#print axioms Soxr.Properties.C18.supplied_consumed_once
