import SoxrModel.Properties.C15
