import SoxrModel.Properties.C15
#print axioms Soxr.Properties.C15.roundDiv_add_mul
#print axioms Soxr.Properties.C15.delay_relation_streaming
#print axioms Soxr.Properties.C15.delay_after_flush
#print axioms Soxr.Properties.C15.delay_zero_fresh
#print axioms Soxr.Properties.C15.delay_zero_drained
#print axioms Soxr.Properties.C15.delay_gt_neg_one
#print axioms Soxr.Properties.C15.delay_gt_neg_one_every_run
#print axioms Soxr.Properties.C15.hearly_every_run
#print axioms Soxr.Properties.C15.delay_after_flush_every_history
#print axioms Soxr.Properties.C15.delay_gt_neg_one_every_history
#print axioms Soxr.Properties.C15.delay_after_flush_any_phase
#print axioms Soxr.Properties.C15.delay_zero_after_error
#print axioms Soxr.Properties.C15.delay_guard_transparent
