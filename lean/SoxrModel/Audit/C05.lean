import SoxrModel.Properties.C05
#print axioms Soxr.Properties.C05.prefix_consistency
#print axioms Soxr.Properties.C05.same_length_same_samples
#print axioms Soxr.Properties.C05.schedule_invariance
#print axioms Soxr.Properties.C05.delivered_is_canonical
#print axioms Soxr.Properties.C05.control_is_the_count_model
#print axioms Soxr.Properties.C05.schedule_invariance_plan
#print axioms Soxr.Properties.C05.pull_push_oneshot
#print axioms Soxr.Properties.C05.api_is_the_count_model
#print axioms Soxr.Properties.C05.locality_runs
#print axioms Soxr.Cr.coneI_sound
