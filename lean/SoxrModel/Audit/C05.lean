import SoxrModel.Properties.C05
