import SoxrModel.Properties.C03
#print axioms Soxr.Properties.C03.drain_exact
#print axioms Soxr.Properties.C03.then_none
#print axioms Soxr.Properties.C03.streaming_counts
#print axioms Soxr.Properties.C03.total_exact
#print axioms Soxr.Properties.C03.histories_run
#print axioms Soxr.Properties.C03.offset_nonneg
#print axioms Soxr.Properties.C03.margOf_nonneg
#print axioms Soxr.Properties.C03.never_early
#print axioms Soxr.Properties.C03.never_early_round
#print axioms Soxr.Properties.C03.offset_marg_nonneg
#print axioms Soxr.Properties.C03.never_early_any_phase
#print axioms Soxr.Properties.C03.freshEng_fresh
#print axioms Soxr.Properties.C03.never_early_round_counts
#print axioms Soxr.Properties.C03.total_exact_every_history
#print axioms Soxr.Properties.C03.never_early_counts
