import SoxrModel.Properties.C03
