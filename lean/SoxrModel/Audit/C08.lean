import SoxrModel.Properties.C08
