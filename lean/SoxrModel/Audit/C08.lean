import SoxrModel.Properties.C08
#print axioms Soxr.Properties.C08.process_terminates_streaming
#print axioms Soxr.Properties.C08.process_terminates_flushing
#print axioms Soxr.Properties.C08.sum_replicate
#print axioms Soxr.Properties.C08.drain_terminates
#print axioms Soxr.Properties.C08.drained_stays_empty
#print axioms Soxr.Properties.C08.latency_bounded
#print axioms Soxr.Properties.C08.every_history_runs
#print axioms Soxr.Properties.C08.pull_loop_terminates
