import SoxrModel.Properties.C17
/-! Axiom audit of every theorem of `Properties/C17.lean` (run on every check). -/
#print axioms Soxr.C17.good_inv
#print axioms Soxr.C17.writer_excludes_all
#print axioms Soxr.C17.readers_exclude_writer
#print axioms Soxr.C17.no_read_during_rebuild
#print axioms Soxr.C17.readers_find_tables_built
#print axioms Soxr.C17.upgrade_rechecks
#print axioms Soxr.C17.tables_monotone
#print axioms Soxr.C17.rebuilt_once_per_growth
#print axioms Soxr.C17.tables_stable_while_read
#print axioms Soxr.C17.all_interleavings_good_after_init
#print axioms Soxr.C17.init_once_partial
#print axioms Soxr.C17.init_twice_reachable
#print axioms Soxr.C17.not_init_once
#print axioms Soxr.C17.late_init_breaks_exclusion
#print axioms Soxr.C17.not_no_read_during_rebuild_from_start
#print axioms Soxr.C17.late_init_shrinks_tables
#print axioms Soxr.C17.two_writers_reachable
#print axioms Soxr.C17.vr_init_once_partial
#print axioms Soxr.C17.vr_init_twice_reachable
#print axioms Soxr.C17.vr_use_during_init_reachable
#print axioms Soxr.C17.table_use_requires_role
#print axioms Soxr.C17.reader_use_no_rebuild
#print axioms Soxr.C17.writer_use_exclusive
#print axioms Soxr.C17.both_caches_good
#print axioms Soxr.C17.both_caches_good_partial
#print axioms Soxr.C17.shared_lock_breaks_exclusion
