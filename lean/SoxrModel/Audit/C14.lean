import SoxrModel.Properties.C14
#print axioms Soxr.Properties.C14.init_stage_wf
#print axioms Soxr.Properties.C14.length_phase_independent
#print axioms Soxr.Properties.C14.delay_phase_independent
#print axioms Soxr.Properties.C14.mirror
#print axioms Soxr.Properties.C14.mirror_length
#print axioms Soxr.Properties.C14.linear_centred
#print axioms Soxr.Properties.C14.linear_symmetric
#print axioms Soxr.Properties.C14.extreme_phase_window
#print axioms Soxr.Properties.C14.transformed_length_mod4
#print axioms Soxr.Properties.C14.makeLpf_symmetric
#print axioms Soxr.Properties.C14.latency_split
#print axioms Soxr.Properties.C14.linear_design_centred
#print axioms Soxr.Properties.C14.linear_block_aligned
#print axioms Soxr.Properties.C14.small_L_block_aligned
#print axioms Soxr.Properties.C14.nonlinear_design_mod4
#print axioms Soxr.Properties.C14.f1_nonlinear_block_misaligned
#print axioms Soxr.Properties.C14.fdomain_rate_exact_iff
