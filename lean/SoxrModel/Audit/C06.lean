import SoxrModel.Properties.C06
/-! axiom audit of every theorem of Properties/C06.lean -/
#print axioms Soxr.C06.index_bijection
#print axioms Soxr.C06.frame_major_walk
#print axioms Soxr.C06.deinterleave_interleave_id
#print axioms Soxr.C06.interleave_deinterleave_id
#print axioms Soxr.C06.pull_advance_views
#print axioms Soxr.C06.pull_advance_flat
#print axioms Soxr.C06.mono_reads_channel
#print axioms Soxr.C06.multi_equals_mono_partial
#print axioms Soxr.C06.multi_equals_mono_view
#print axioms Soxr.C06.channel_data_isolation
#print axioms Soxr.C06.clips_eq_sum_shares
#print axioms Soxr.C06.clips_sum_of_mono_runs
#print axioms Soxr.C06.split_path_eq_generic
#print axioms Soxr.C06.dither_breaks_multi_equals_mono
