import SoxrModel.Properties.C01Engine
#print axioms Soxr.Properties.C01Engine.tone_length
#print axioms Soxr.Properties.C01Engine.tone_getElem?
#print axioms Soxr.Properties.C01Engine.tone_drop
#print axioms Soxr.Properties.C01Engine.tone_prefix
#print axioms Soxr.Properties.C01Engine.prefix_getElem?
#print axioms Soxr.Properties.C01Engine.lsmul_getElem?
#print axioms Soxr.Properties.C01Engine.tone_step_cinv
#print axioms Soxr.Properties.C01Engine.tone_step_runs
#print axioms Soxr.Properties.C01Engine.tone_step_one_run
#print axioms Soxr.Properties.C01Engine.fir_engine_tone_step
#print axioms Soxr.Properties.C01Engine.tone_error_step
#print axioms Soxr.Properties.C01Engine.tone_error_norm_periodic
#print axioms Soxr.Properties.C01Engine.tone_error_first_period
