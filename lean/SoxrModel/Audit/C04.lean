import SoxrModel.Properties.C04
#print axioms Soxr.Properties.C04.aligned_forever
#print axioms Soxr.Properties.C04.tstage_a_nonneg
#print axioms Soxr.Properties.C04.offset_bound
#print axioms Soxr.Properties.C04.drift_bound
#print axioms Soxr.Properties.C04.std_clock_step_error
#print axioms Soxr.Properties.C04.hiprec_carry_is_wide_add
#print axioms Soxr.Properties.C04.clock_loop_closed_form
#print axioms Soxr.Properties.C04.absolute_clock
