import SoxrModel.Properties.C11
#print axioms Soxr.Conv.placeholder_c11
