import SoxrModel.Properties.C16
/-! Axiom audit of every theorem of `Properties/C16.lean` (run on every check: at most `propext`, `Classical.choice`, `Quot.sound`). -/
open Soxr.Vr.C16
#print axioms slew_increment_rounding
#print axioms slew_request
#print axioms slew_request_dropped
#print axioms slew_progression
#print axioms slew_step_linear
#print axioms snap_exact
#print axioms slew_overshoot_bound
#print axioms slew_sign_invariant
#print axioms snap_sets_target
#print axioms chunk_length
#print axioms immediate_when_zero
#print axioms immediate_quiescent
#print axioms immediate_cancels_fadeout_slew
#print axioms stays_at_target
#print axioms immediate_then_stays
#print axioms request_settles
#print axioms Historical.setIoRatio_eq_pre_after_clear
#print axioms Historical.setIoRatio_eq_pre_of_quiescent
#print axioms Historical.pre_fix_stays_at_target_fails_during_slew
#print axioms Historical.pre_fix_stays_at_target_fails_snap_pending
#print axioms Historical.witnesses_repaired
#print axioms stage_switch_rescale
#print axioms stage_switch_shifts_as_repaired_code
#print axioms stage_switch_down_continuous
#print axioms stage_switch_up_continuous
#print axioms frames_for_constant_ratio
#print axioms frames_for_constant_ratio_d
#print axioms cr_refuses_ratio_change
#print axioms cr_accepts_same_ratio
#print axioms vr_accepts
#print axioms set_io_ratio_error_changes_nothing
#print axioms fade_alignment_fails
#print axioms not_fade_alignment_for_all_runs
#print axioms fade_alignment_down_partial
#print axioms fade_alignment_chunk_partial
