import SoxrModel.Properties.C06Threads
/-! Axiom audit of every theorem of `Properties/C06Threads.lean` (run on every check). -/
#print axioms Soxr.C06Threads.atomic_total_exact
#print axioms Soxr.C06Threads.atomic_total_invariant
#print axioms Soxr.C06Threads.atomic_rounds_exact
#print axioms Soxr.C06Threads.sequential_total
#print axioms Soxr.C06Threads.nonatomic_lost_update_reachable
#print axioms Soxr.C06Threads.not_nonatomic_exact
#print axioms Soxr.C06Threads.nonatomic_never_overcounts
