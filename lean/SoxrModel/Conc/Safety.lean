import SoxrModel.Conc.InvStep
/-!
# What the invariant implies (state predicates and step predicates of the FFT-cache model)
-/
namespace Soxr.Conc

/-- at most one thread holds the writer role, and while one does no thread holds the reader role -/
theorem Inv.writer_excl {s : St} (h : Inv s) : s.writersIn ≤ 1 ∧ (0 < s.writersIn → s.readersIn = 0) := by
  obtain ⟨⟨-, -, a3, a4, a5, a6, -, a8, a9, -⟩, -, -, -⟩ := h
  have j := (incl s).rd_rc
  simp only [St.writersIn, St.readersIn]
  constructor
  · omega
  · intro hw
    have hg : s.gw = 0 := by omega
    obtain ⟨h1, -⟩ := a8 hg
    rcases h1 with h1 | h1
    · omega
    · have := a9 (by omega); omega

/-- while a thread holds the reader role no thread holds the writer role -/
theorem Inv.readers_excl {s : St} (h : Inv s) : 0 < s.readersIn → s.writersIn = 0 := by
  intro hr
  have := h.writer_excl
  omega

/-- nobody is inside a transform reading the tables while a thread re-allocates or rebuilds them -/
theorem Inv.no_read_during_rebuild {s : St} (h : Inv s) : 0 < s.rebuilding → s.reading = 0 := by
  intro hb
  have := h.writer_excl
  obtain ⟨j1, -, -, -, -, -, -, -, j9, j10, -⟩ := incl s
  simp only [St.rebuilding, St.reading, St.writersIn, St.readersIn] at *
  omega

/-- at most one thread re-allocates / rebuilds at a time -/
theorem Inv.one_rebuilder {s : St} (h : Inv s) : s.rebuilding ≤ 1 := by
  have := h.writer_excl
  obtain ⟨j1, -, -, -, -, -, -, -, j9, -, -⟩ := incl s
  simp only [St.rebuilding, St.writersIn] at *
  omega

/-- a reader inside a transform finds the tables complete for the current `FFT_LEN` (and `FFT_LEN` positive): it never has to
    build them itself -/
theorem Inv.tables_ready {s : St} (h : Inv s) : 0 < s.reading → 0 < s.flen ∧ s.tab = s.flen := by
  intro hr
  have hx := h.writer_excl
  obtain ⟨j1, -, -, -, -, -, -, -, -, j10, j11⟩ := incl s
  have c5 := h.c.tab_eq; have c7 := h.c.flen_pos
  simp only [St.reading, St.writersIn, St.readersIn] at *
  have hp : 0 < s.flen := c7 (by omega)
  exact ⟨hp, c5 (by omega) (by omega)⟩

/-- the initialiser was entered at most once and `FFT_LEN = 0` stored at most once -/
theorem Inv.init_once {s : St} (h : Inv s) : s.nInit ≤ 1 ∧ s.nReset ≤ 1 ∧ s.inInit ≤ 1 := by
  obtain ⟨-, ⟨b1, b2, b3, b4⟩, -, -⟩ := h
  simp only [St.inInit]
  by_cases hf : s.flen < 0
  · have := b3 hf; omega
  · have := b4 (by omega); omega

/-- the tables were re-allocated at most `FFT_LEN` times -/
theorem Inv.stores_le {s : St} (h : Inv s) : 0 ≤ s.flen → (s.nStore : Int) ≤ s.flen := h.c.store_le

/-- **the re-test**: the store `FFT_LEN = len` is only ever executed with `len` greater than the current `FFT_LEN` -/
theorem Inv.store_grows {s : St} (h : Inv s) {len : Int} {z : Bool} (g : guard (.store len z) s) : s.flen < len :=
  h.d.pend_gt (len, z) g.2

/-- `FFT_LEN` and the built length of the tables never decrease -/
theorem Inv.mono {s : St} (h : Inv s) (l : Label) (g : guard l s) :
    s.flen ≤ (eff l s).flen ∧ s.tab ≤ (eff l s).tab := by
  have ki := (moves l s g).ki
  have b2 := h.b.flen_ge; have b4 := h.b.warm_done
  have c3 := h.c.tab_ge; have c4 := h.c.tab_le
  have d1 := h.d.pend_gt
  obtain ⟨-, g⟩ := g
  cases l
  case ini6 =>
    simp only [Label.src, inInitW] at ki
    simp only [eff, effX]
    omega
  case store len z =>
    simp only [guardX] at g
    have : s.flen < len := d1 (len, z) g
    have hz := h.d.pend_z (len, z) g
    simp only [eff, effX]
    refine ⟨by omega, ?_⟩
    split
    · have := hz ‹_›; omega
    · omega
  case build len =>
    simp only [eff, effX]
    refine ⟨by omega, ?_⟩
    split <;> omega
  all_goals (simp only [eff, effX]; omega)

/-- while a reader is inside a transform no step changes `FFT_LEN` or the tables -/
theorem Inv.stable_while_read {s : St} (h : Inv s) (l : Label) (g : guard l s) (hr : 0 < s.reading) :
    (eff l s).flen = s.flen ∧ (eff l s).tab = s.tab := by
  have hnr := h.no_read_during_rebuild
  have hpos := (h.tables_ready hr).1
  have b4 := h.b.warm_done
  obtain ⟨-, -, -, -, -, -, -, -, j9, -, -⟩ := incl s
  obtain ⟨-, -, -, -, -, -, -, -, k9, k10, -, -, ki⟩ := moves l s g
  simp only [St.rebuilding, St.reading] at *
  cases l
  case ini6 =>
    simp only [Label.src, inInitW] at ki
    exfalso; omega
  case store len z =>
    simp only [Label.src, Label.dst, b0W, wtW] at k9 k10
    exfalso; omega
  case build len =>
    simp only [Label.src, Label.dst, b0W, wtW] at k9 k10
    exfalso; omega
  all_goals exact ⟨rfl, rfl⟩

/-- the number of threads never changes -/
theorem threads_step (l : Label) (s : St) (g : guard l s) : (eff l s).threads = s.threads := by
  have := num_move s allW l.src l.dst (src_ne_dst l) g.1
  simp only [allW, St.num] at this
  simp only [St.threads, eff, St.num]
  omega

end Soxr.Conc
