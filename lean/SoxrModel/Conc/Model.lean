/-!
# Counter-abstraction model of libsoxr's process-wide FFT cache (`fft4g_cache.h` + `ccrw2.h`)

One instance of this model describes one cache (`filter.c` instantiates the header twice: the `double` cache used by
`cr64`/`fft4g64.c` and by `lsx_fir_to_phase`, and the `float` cache used by `cr32`/`fft4g32.c`).

Threads are anonymous: the state counts how many threads sit at each program point (`Pc`) of

* `LSX_INIT_FFT_CACHE` — the **unguarded** lazy initialiser, modelled as written (`i0 … i6`);
* `UPDATE_FFT_CACHE` — `ccrw2_become_reader` (`r1 … r8`), the test `len > FFT_LEN` (`c0`), the upgrade
  `ccrw2_cease_reading` (`u1 … u4`) + `ccrw2_become_writer` (`w1 … w5`), the **re-test** (`c1`), the rebuild (`b0`, `wt`), or the
  downgrade `ccrw2_cease_writing` (`d1 … d5`) + `ccrw2_become_reader` (`e1 … e8`, `c2`);
* the transform itself, which reads the tables (`rd` as a reader, `wt` as the writer, who first rebuilds them);
* `DONE_WITH_FFT_CACHE` — `ccrw2_cease_reading` (`x1 … x4`) or `ccrw2_cease_writing` (`y1 … y5`).

together with the shared variables: five binary semaphores (`1` = taken; OpenMP simple locks used as Courtois' P/V, released
by a thread other than the acquirer), `readcount`, `writecount`, `FFT_LEN` (`flen`, `-1` = never initialised) and the
length `tab` the tables are currently built for (`4 * LSX_FFT_BR[0]`).  Ghosts: `gw`/`gr` (the reader group holds `w` / the
writer group holds `r`), `nInit`, `nReset`, `nStore` (how often the initialiser was entered, `FFT_LEN = 0` was stored, the
tables were re-allocated), and the multisets `pend`/`wtl` of the thread-local `len` of the threads at `b0`/`wt` (`pend` also
keeps the thread-local `old_n == 0`: `int old_n = FFT_LEN` is read together with the re-test, BEFORE the store, and decides
after the store whether `LSX_FFT_BR[0] = 0` marks the tables empty).

A thread's `len` is otherwise not tracked (it is chosen afresh at each test): an over-approximation, exact for safety.
One `Label` = one atomic step of one thread; `fire l s` is the executable step function the driver `soxr_conc` runs against
the real code's event traces, and `Step`/`Reachable` (what the theorems quantify over) are defined from it.

The list of labels was typed with the help of `work/conc/genmodel.py`; this file is the source of truth.
-/
namespace Soxr.Conc

/-- the five semaphores of `ccrw2_t` -/
inductive Lock where
  | m1 | m2 | m3 | w | r
  deriving DecidableEq, Repr, Inhabited

/-- program points of one thread with respect to one cache -/
inductive Pc where
  /-- not inside `lsx_safe_rdft` of this cache -/
  | idle
  /-- `LSX_INIT_FFT_CACHE`: about to test `FFT_LEN >= 0` -/
  | i0
  /-- test failed (yield `init:check-passed`); about to `omp_init_lock(mutex_1)` -/
  | i1
  /-- about to `omp_init_lock(mutex_2)` -/
  | i2
  /-- about to `omp_init_lock(mutex_3)` -/
  | i3
  /-- about to `omp_init_lock(w)` -/
  | i4
  /-- about to `omp_init_lock(r)` -/
  | i5
  /-- locks initialised (yield `init:locks-initialised`); about to store `FFT_LEN = 0` -/
  | i6
  /-- `ccrw2_become_reader` (entry): P(mutex_3) -/
  | r1
  /-- P(r) -/
  | r2
  /-- P(mutex_1) -/
  | r3
  /-- `++readcount == 1`? -/
  | r4
  /-- first reader: P(w) -/
  | r5
  /-- V(mutex_1) -/
  | r6
  /-- V(r) -/
  | r7
  /-- V(mutex_3) -/
  | r8
  /-- reader: about to test `len > FFT_LEN` -/
  | c0
  /-- inside the transform as a reader (between the yields `dft:begin-as-reader` and `dft:end-as-reader`) -/
  | rd
  /-- reader inside the transform, past the point where `rdft`/`cdft` first dereference the shared tables (hook `table-use`) -/
  | ru
  /-- `DONE_WITH_FFT_CACHE(false)` = `ccrw2_cease_reading`: P(mutex_1) -/
  | x1
  /-- `!--readcount`? -/
  | x2
  /-- last reader: V(w) -/
  | x3
  /-- V(mutex_1) -/
  | x4
  /-- upgrade: `ccrw2_cease_reading`: P(mutex_1) -/
  | u1
  /-- `!--readcount`? -/
  | u2
  /-- last reader: V(w) -/
  | u3
  /-- V(mutex_1) -/
  | u4
  /-- upgrade: `ccrw2_become_writer`: P(mutex_2) -/
  | w1
  /-- `++writecount == 1`? -/
  | w2
  /-- first writer: P(r) -/
  | w3
  /-- V(mutex_2) -/
  | w4
  /-- P(w) -/
  | w5
  /-- writer: about to RE-test `len > FFT_LEN` -/
  | c1
  /-- re-test passed (yield `cache:rebuild-begin`); about to store `FFT_LEN = len` and `realloc` both tables -/
  | b0
  /-- inside the transform as the writer (yield `dft:begin-as-writer`); `rdft` rebuilds the tables (`makewt`/`makect`) first -/
  | wt
  /-- writer inside the transform, past the point where `rdft`/`cdft` first dereference the tables (hook `table-use`); the rebuild
      (`makewt`/`makect`) follows -/
  | wu
  /-- transform done (yield `dft:end-as-writer`); `DONE_WITH_FFT_CACHE(true)` = `ccrw2_cease_writing`: V(w) -/
  | y1
  /-- P(mutex_2) -/
  | y2
  /-- `!--writecount`? -/
  | y3
  /-- last writer: V(r) -/
  | y4
  /-- V(mutex_2) -/
  | y5
  /-- re-test failed: downgrade, `ccrw2_cease_writing`: V(w) -/
  | d1
  /-- P(mutex_2) -/
  | d2
  /-- `!--writecount`? -/
  | d3
  /-- last writer: V(r) -/
  | d4
  /-- V(mutex_2) -/
  | d5
  /-- downgrade: `ccrw2_become_reader`: P(mutex_3) -/
  | e1
  /-- P(r) -/
  | e2
  /-- P(mutex_1) -/
  | e3
  /-- `++readcount == 1`? -/
  | e4
  /-- first reader: P(w) -/
  | e5
  /-- V(mutex_1) -/
  | e6
  /-- V(r) -/
  | e7
  /-- V(mutex_3) -/
  | e8
  /-- downgraded reader: `UPDATE_FFT_CACHE` returns false -/
  | c2
  deriving DecidableEq, Repr, Inhabited

structure St where
  /-- number of threads at each program point -/
  cnt : Pc → Nat
  /-- semaphores, 1 = taken -/
  (m1 m2 m3 w r : Nat)
  (readcount writecount : Int)
  /-- `FFT_LEN` -/
  flen : Int
  /-- length the tables are built for (`4 * LSX_FFT_BR[0]`, 0 while there are none) -/
  tab : Int
  (gw gr nInit nReset nStore : Nat)
  /-- (`len`, `old_n == 0`) of the threads at `b0` -/
  pend : List (Int × Bool)
  /-- `len` of the threads at `wt` / `wu` -/
  wtl : List Int

/-- what the scheduler harness can see of a step: nothing (`tau`), a P (`omp_set_lock` returned), a V (`omp_unset_lock`),
    an `omp_init_lock`, or the first dereference of the shared tables inside a transform (`use`, hook `soxr_verif_table_use`) -/
inductive Vis where
  | tau | p (l : Lock) | v (l : Lock) | ini (l : Lock) | use
  deriving DecidableEq, Repr, Inhabited

/-- one atomic step of one thread -/
inductive Label where
  | call
  | i0_warm
  | i0_cold
  | ini1
  | ini2
  | ini3
  | ini4
  | ini5
  | ini6
  | r1
  | r2
  | r3
  | r4_first
  | r4_more
  | r5
  | r6
  | r7
  | r8
  | c0_ok
  | c0_grow
  | use_r
  | use_w
  | rd_end
  | x1
  | x2_last
  | x2_more
  | x3
  | x4
  | u1
  | u2_last
  | u2_more
  | u3
  | u4
  | w1
  | w2_first
  | w2_more
  | w3
  | w4
  | w5
  | c1_pass (len : Int)
  | c1_fail
  | store (len : Int) (z : Bool)
  | build (len : Int)
  | y1
  | y2
  | y3_last
  | y3_more
  | y4
  | y5
  | d1
  | d2
  | d3_last
  | d3_more
  | d4
  | d5
  | e1
  | e2
  | e3
  | e4_first
  | e4_more
  | e5
  | e6
  | e7
  | e8
  | c2_go
  deriving DecidableEq, Repr, Inhabited

/-- program point the stepping thread leaves -/
def Label.src : Label → Pc
  | .call => .idle
  | .i0_warm => .i0
  | .i0_cold => .i0
  | .ini1 => .i1
  | .ini2 => .i2
  | .ini3 => .i3
  | .ini4 => .i4
  | .ini5 => .i5
  | .ini6 => .i6
  | .r1 => .r1
  | .r2 => .r2
  | .r3 => .r3
  | .r4_first => .r4
  | .r4_more => .r4
  | .r5 => .r5
  | .r6 => .r6
  | .r7 => .r7
  | .r8 => .r8
  | .c0_ok => .c0
  | .c0_grow => .c0
  | .use_r => .rd
  | .use_w => .wt
  | .rd_end => .ru
  | .x1 => .x1
  | .x2_last => .x2
  | .x2_more => .x2
  | .x3 => .x3
  | .x4 => .x4
  | .u1 => .u1
  | .u2_last => .u2
  | .u2_more => .u2
  | .u3 => .u3
  | .u4 => .u4
  | .w1 => .w1
  | .w2_first => .w2
  | .w2_more => .w2
  | .w3 => .w3
  | .w4 => .w4
  | .w5 => .w5
  | .c1_pass _ => .c1
  | .c1_fail => .c1
  | .store _ _ => .b0
  | .build _ => .wu
  | .y1 => .y1
  | .y2 => .y2
  | .y3_last => .y3
  | .y3_more => .y3
  | .y4 => .y4
  | .y5 => .y5
  | .d1 => .d1
  | .d2 => .d2
  | .d3_last => .d3
  | .d3_more => .d3
  | .d4 => .d4
  | .d5 => .d5
  | .e1 => .e1
  | .e2 => .e2
  | .e3 => .e3
  | .e4_first => .e4
  | .e4_more => .e4
  | .e5 => .e5
  | .e6 => .e6
  | .e7 => .e7
  | .e8 => .e8
  | .c2_go => .c2

/-- program point the stepping thread arrives at -/
def Label.dst : Label → Pc
  | .call => .i0
  | .i0_warm => .r1
  | .i0_cold => .i1
  | .ini1 => .i2
  | .ini2 => .i3
  | .ini3 => .i4
  | .ini4 => .i5
  | .ini5 => .i6
  | .ini6 => .r1
  | .r1 => .r2
  | .r2 => .r3
  | .r3 => .r4
  | .r4_first => .r5
  | .r4_more => .r6
  | .r5 => .r6
  | .r6 => .r7
  | .r7 => .r8
  | .r8 => .c0
  | .c0_ok => .rd
  | .c0_grow => .u1
  | .use_r => .ru
  | .use_w => .wu
  | .rd_end => .x1
  | .x1 => .x2
  | .x2_last => .x3
  | .x2_more => .x4
  | .x3 => .x4
  | .x4 => .idle
  | .u1 => .u2
  | .u2_last => .u3
  | .u2_more => .u4
  | .u3 => .u4
  | .u4 => .w1
  | .w1 => .w2
  | .w2_first => .w3
  | .w2_more => .w4
  | .w3 => .w4
  | .w4 => .w5
  | .w5 => .c1
  | .c1_pass _ => .b0
  | .c1_fail => .d1
  | .store _ _ => .wt
  | .build _ => .y1
  | .y1 => .y2
  | .y2 => .y3
  | .y3_last => .y4
  | .y3_more => .y5
  | .y4 => .y5
  | .y5 => .idle
  | .d1 => .d2
  | .d2 => .d3
  | .d3_last => .d4
  | .d3_more => .d5
  | .d4 => .d5
  | .d5 => .e1
  | .e1 => .e2
  | .e2 => .e3
  | .e3 => .e4
  | .e4_first => .e5
  | .e4_more => .e6
  | .e5 => .e6
  | .e6 => .e7
  | .e7 => .e8
  | .e8 => .c2
  | .c2_go => .rd

def Label.vis : Label → Vis
  | .ini1 => .ini .m1
  | .ini2 => .ini .m2
  | .ini3 => .ini .m3
  | .ini4 => .ini .w
  | .ini5 => .ini .r
  | .r1 => .p .m3
  | .r2 => .p .r
  | .r3 => .p .m1
  | .r5 => .p .w
  | .r6 => .v .m1
  | .r7 => .v .r
  | .r8 => .v .m3
  | .x1 => .p .m1
  | .x3 => .v .w
  | .x4 => .v .m1
  | .u1 => .p .m1
  | .u3 => .v .w
  | .u4 => .v .m1
  | .w1 => .p .m2
  | .w3 => .p .r
  | .w4 => .v .m2
  | .w5 => .p .w
  | .y1 => .v .w
  | .y2 => .p .m2
  | .y4 => .v .r
  | .y5 => .v .m2
  | .d1 => .v .w
  | .d2 => .p .m2
  | .d4 => .v .r
  | .d5 => .v .m2
  | .e1 => .p .m3
  | .e2 => .p .r
  | .e3 => .p .m1
  | .e5 => .p .w
  | .e6 => .v .m1
  | .e7 => .v .r
  | .e8 => .v .m3
  | .use_r => .use
  | .use_w => .use
  | _ => .tau

/-- the C condition / semaphore state that allows the step -/
def guardX (l : Label) (s : St) : Prop :=
  match l with
  | .i0_warm => 0 ≤ s.flen
  | .i0_cold => s.flen < 0
  | .r1 => s.m3 = 0
  | .r2 => s.r = 0
  | .r3 => s.m1 = 0
  | .r4_first => s.readcount = 0
  | .r4_more => s.readcount ≠ 0
  | .r5 => s.w = 0
  | .c0_ok => 0 < s.flen
  | .x1 => s.m1 = 0
  | .x2_last => s.readcount = 1
  | .x2_more => s.readcount ≠ 1
  | .u1 => s.m1 = 0
  | .u2_last => s.readcount = 1
  | .u2_more => s.readcount ≠ 1
  | .w1 => s.m2 = 0
  | .w2_first => s.writecount = 0
  | .w2_more => s.writecount ≠ 0
  | .w3 => s.r = 0
  | .w5 => s.w = 0
  | .c1_pass len => s.flen < len
  | .c1_fail => 0 < s.flen
  | .store len z => (len, z) ∈ s.pend
  | .build len => len ∈ s.wtl
  | .y2 => s.m2 = 0
  | .y3_last => s.writecount = 1
  | .y3_more => s.writecount ≠ 1
  | .d2 => s.m2 = 0
  | .d3_last => s.writecount = 1
  | .d3_more => s.writecount ≠ 1
  | .e1 => s.m3 = 0
  | .e2 => s.r = 0
  | .e3 => s.m1 = 0
  | .e4_first => s.readcount = 0
  | .e4_more => s.readcount ≠ 0
  | .e5 => s.w = 0
  | _ => True

instance (l : Label) (s : St) : Decidable (guardX l s) :=
  match l with
  | .call => inferInstanceAs (Decidable (True))
  | .i0_warm => inferInstanceAs (Decidable (0 ≤ s.flen))
  | .i0_cold => inferInstanceAs (Decidable (s.flen < 0))
  | .ini1 => inferInstanceAs (Decidable (True))
  | .ini2 => inferInstanceAs (Decidable (True))
  | .ini3 => inferInstanceAs (Decidable (True))
  | .ini4 => inferInstanceAs (Decidable (True))
  | .ini5 => inferInstanceAs (Decidable (True))
  | .ini6 => inferInstanceAs (Decidable (True))
  | .r1 => inferInstanceAs (Decidable (s.m3 = 0))
  | .r2 => inferInstanceAs (Decidable (s.r = 0))
  | .r3 => inferInstanceAs (Decidable (s.m1 = 0))
  | .r4_first => inferInstanceAs (Decidable (s.readcount = 0))
  | .r4_more => inferInstanceAs (Decidable (s.readcount ≠ 0))
  | .r5 => inferInstanceAs (Decidable (s.w = 0))
  | .r6 => inferInstanceAs (Decidable (True))
  | .r7 => inferInstanceAs (Decidable (True))
  | .r8 => inferInstanceAs (Decidable (True))
  | .c0_ok => inferInstanceAs (Decidable (0 < s.flen))
  | .c0_grow => inferInstanceAs (Decidable (True))
  | .use_r => inferInstanceAs (Decidable (True))
  | .use_w => inferInstanceAs (Decidable (True))
  | .rd_end => inferInstanceAs (Decidable (True))
  | .x1 => inferInstanceAs (Decidable (s.m1 = 0))
  | .x2_last => inferInstanceAs (Decidable (s.readcount = 1))
  | .x2_more => inferInstanceAs (Decidable (s.readcount ≠ 1))
  | .x3 => inferInstanceAs (Decidable (True))
  | .x4 => inferInstanceAs (Decidable (True))
  | .u1 => inferInstanceAs (Decidable (s.m1 = 0))
  | .u2_last => inferInstanceAs (Decidable (s.readcount = 1))
  | .u2_more => inferInstanceAs (Decidable (s.readcount ≠ 1))
  | .u3 => inferInstanceAs (Decidable (True))
  | .u4 => inferInstanceAs (Decidable (True))
  | .w1 => inferInstanceAs (Decidable (s.m2 = 0))
  | .w2_first => inferInstanceAs (Decidable (s.writecount = 0))
  | .w2_more => inferInstanceAs (Decidable (s.writecount ≠ 0))
  | .w3 => inferInstanceAs (Decidable (s.r = 0))
  | .w4 => inferInstanceAs (Decidable (True))
  | .w5 => inferInstanceAs (Decidable (s.w = 0))
  | .c1_pass len => inferInstanceAs (Decidable (s.flen < len))
  | .c1_fail => inferInstanceAs (Decidable (0 < s.flen))
  | .store len z => inferInstanceAs (Decidable ((len, z) ∈ s.pend))
  | .build len => inferInstanceAs (Decidable (len ∈ s.wtl))
  | .y1 => inferInstanceAs (Decidable (True))
  | .y2 => inferInstanceAs (Decidable (s.m2 = 0))
  | .y3_last => inferInstanceAs (Decidable (s.writecount = 1))
  | .y3_more => inferInstanceAs (Decidable (s.writecount ≠ 1))
  | .y4 => inferInstanceAs (Decidable (True))
  | .y5 => inferInstanceAs (Decidable (True))
  | .d1 => inferInstanceAs (Decidable (True))
  | .d2 => inferInstanceAs (Decidable (s.m2 = 0))
  | .d3_last => inferInstanceAs (Decidable (s.writecount = 1))
  | .d3_more => inferInstanceAs (Decidable (s.writecount ≠ 1))
  | .d4 => inferInstanceAs (Decidable (True))
  | .d5 => inferInstanceAs (Decidable (True))
  | .e1 => inferInstanceAs (Decidable (s.m3 = 0))
  | .e2 => inferInstanceAs (Decidable (s.r = 0))
  | .e3 => inferInstanceAs (Decidable (s.m1 = 0))
  | .e4_first => inferInstanceAs (Decidable (s.readcount = 0))
  | .e4_more => inferInstanceAs (Decidable (s.readcount ≠ 0))
  | .e5 => inferInstanceAs (Decidable (s.w = 0))
  | .e6 => inferInstanceAs (Decidable (True))
  | .e7 => inferInstanceAs (Decidable (True))
  | .e8 => inferInstanceAs (Decidable (True))
  | .c2_go => inferInstanceAs (Decidable (True))

/-- effect of the step on the shared variables -/
def effX (l : Label) (s : St) : St :=
  match l with
  | .i0_cold => { s with nInit := s.nInit + 1 }
  | .ini1 => { s with m1 := 0 }
  | .ini2 => { s with m2 := 0 }
  | .ini3 => { s with m3 := 0 }
  | .ini4 => { s with w := 0 }
  | .ini5 => { s with r := 0 }
  | .ini6 => { s with flen := 0, nReset := s.nReset + 1 }
  | .r1 => { s with m3 := 1 }
  | .r2 => { s with r := 1 }
  | .r3 => { s with m1 := 1 }
  | .r4_first => { s with readcount := 1 }
  | .r4_more => { s with readcount := s.readcount + 1 }
  | .r5 => { s with w := 1, gw := 1 }
  | .r6 => { s with m1 := 0 }
  | .r7 => { s with r := 0 }
  | .r8 => { s with m3 := 0 }
  | .x1 => { s with m1 := 1 }
  | .x2_last => { s with readcount := 0 }
  | .x2_more => { s with readcount := s.readcount - 1 }
  | .x3 => { s with w := 0, gw := 0 }
  | .x4 => { s with m1 := 0 }
  | .u1 => { s with m1 := 1 }
  | .u2_last => { s with readcount := 0 }
  | .u2_more => { s with readcount := s.readcount - 1 }
  | .u3 => { s with w := 0, gw := 0 }
  | .u4 => { s with m1 := 0 }
  | .w1 => { s with m2 := 1 }
  | .w2_first => { s with writecount := 1 }
  | .w2_more => { s with writecount := s.writecount + 1 }
  | .w3 => { s with r := 1, gr := 1 }
  | .w4 => { s with m2 := 0 }
  | .w5 => { s with w := 1 }
  | .c1_pass len => { s with pend := (len, decide (s.flen = 0)) :: s.pend }
  | .store len z => { s with flen := len, tab := if z then 0 else s.tab, pend := s.pend.erase (len, z), wtl := len :: s.wtl, nStore := s.nStore + 1 }
  | .build len => { s with tab := if s.tab < len then len else s.tab, wtl := s.wtl.erase len }
  | .y1 => { s with w := 0 }
  | .y2 => { s with m2 := 1 }
  | .y3_last => { s with writecount := 0 }
  | .y3_more => { s with writecount := s.writecount - 1 }
  | .y4 => { s with r := 0, gr := 0 }
  | .y5 => { s with m2 := 0 }
  | .d1 => { s with w := 0 }
  | .d2 => { s with m2 := 1 }
  | .d3_last => { s with writecount := 0 }
  | .d3_more => { s with writecount := s.writecount - 1 }
  | .d4 => { s with r := 0, gr := 0 }
  | .d5 => { s with m2 := 0 }
  | .e1 => { s with m3 := 1 }
  | .e2 => { s with r := 1 }
  | .e3 => { s with m1 := 1 }
  | .e4_first => { s with readcount := 1 }
  | .e4_more => { s with readcount := s.readcount + 1 }
  | .e5 => { s with w := 1, gw := 1 }
  | .e6 => { s with m1 := 0 }
  | .e7 => { s with r := 0 }
  | .e8 => { s with m3 := 0 }
  | _ => s
/-- move one thread from point `a` to point `b` -/
def move (f : Pc → Nat) (a b : Pc) (p : Pc) : Nat :=
  if p = a then f p - 1 else if p = b then f p + 1 else f p

/-- enabling condition: some thread is at the source point, and the C condition / semaphore allows the step -/
def guard (l : Label) (s : St) : Prop := 0 < s.cnt l.src ∧ guardX l s

instance (l : Label) (s : St) : Decidable (guard l s) := by unfold guard; exact inferInstance

/-- effect of the step -/
def eff (l : Label) (s : St) : St := { effX l s with cnt := move s.cnt l.src l.dst }

/-- the executable step function (what `soxr_conc` runs against the real traces) -/
def fire (l : Label) (s : St) : Option St := if guard l s then some (eff l s) else none

/-- one atomic step of some thread -/
def Step (s t : St) : Prop := ∃ l, fire l s = some t

/-- every program point -/
def allS : List Pc :=
  [.idle, .i0, .i1, .i2, .i3, .i4, .i5, .i6, .r1, .r2, .r3, .r4, .r5, .r6, .r7, .r8, .c0, .rd, .ru, .x1, .x2, .x3, .x4,
   .u1, .u2, .u3, .u4, .w1, .w2, .w3, .w4, .w5, .c1, .b0, .wt, .wu, .y1, .y2, .y3, .y4, .y5, .d1, .d2, .d3, .d4, .d5,
   .e1, .e2, .e3, .e4, .e5, .e6, .e7, .e8, .c2]

/-- `Σ_{p ∈ L} w p * f p`: with a 0/1 weight `w`, the number of threads at the points selected by `w` -/
def sumW (f : Pc → Nat) (w : Pc → Nat) : List Pc → Nat
  | [] => 0
  | p :: ps => w p * f p + sumW f w ps

/-- number of threads of state `s` at the program points selected by the 0/1 weight `w` -/
abbrev St.num (s : St) (w : Pc → Nat) : Nat := sumW s.cnt w allS

/-! Sets of program points (as 0/1 weights) the theorems speak about. -/
/-- inside the unguarded initialiser (test `FFT_LEN >= 0` failed, `FFT_LEN = 0` not yet stored) -/
def inInitW : Pc → Nat
  | .i1 | .i2 | .i3 | .i4 | .i5 | .i6 => 1
  | _ => 0
/-- holding the writer role: from P(w) in `become_writer` until V(w) in `cease_writing` -/
def writersW : Pc → Nat
  | .c1 | .b0 | .wt | .wu | .y1 | .d1 => 1
  | _ => 0
/-- holding the reader role: counted in `readcount` while the reader group holds `w` -/
def readersW : Pc → Nat
  | .r6 | .r7 | .r8 | .c0 | .rd | .ru | .x1 | .x2 | .u1 | .u2 | .e6 | .e7 | .e8 | .c2 => 1
  | _ => 0
/-- re-allocating (`b0`) or rebuilding (`wt`) the tables -/
def rebuildingW : Pc → Nat
  | .b0 | .wt | .wu => 1
  | _ => 0
/-- inside a transform that only reads the tables -/
def readingW : Pc → Nat
  | .rd | .ru => 1
  | _ => 0
/-- anywhere -/
def allW : Pc → Nat := fun _ => 1

def St.inInit (s : St) : Nat := s.num inInitW
def St.writersIn (s : St) : Nat := s.num writersW
def St.readersIn (s : St) : Nat := s.num readersW
def St.rebuilding (s : St) : Nat := s.num rebuildingW
def St.reading (s : St) : Nat := s.num readingW
def St.threads (s : St) : Nat := s.num allW

/-- a step that respects the serial-initialisation hypothesis: a thread passes the test `FFT_LEN >= 0` negatively (enters
    the initialiser) only while no other thread is inside the initialiser -/
def StepS (s t : St) : Prop := ∃ l, fire l s = some t ∧ (l = .i0_cold → s.inInit = 0)

/-- states reachable from `s0` under every interleaving -/
inductive Reachable (s0 : St) : St → Prop
  | init : Reachable s0 s0
  | step {s t} : Reachable s0 s → Step s t → Reachable s0 t

/-- states reachable from `s0` when initialisation completes before a second thread enters it -/
inductive ReachableS (s0 : St) : St → Prop
  | init : ReachableS s0 s0
  | step {s t} : ReachableS s0 s → StepS s t → ReachableS s0 t

theorem ReachableS.toReachable {s0 s : St} (h : ReachableS s0 s) : Reachable s0 s := by
  induction h with
  | init => exact .init
  | step _ st ih => exact .step ih (st.elim fun l hl => ⟨l, hl.1⟩)

/-- all shared variables zero, `n` threads outside the library -/
def zero (n : Nat) : St :=
  { cnt := fun p => if p = .idle then n else 0,
    m1 := 0, m2 := 0, m3 := 0, w := 0, r := 0, readcount := 0, writecount := 0, flen := 0, tab := 0, gw := 0, gr := 0,
    nInit := 0, nReset := 0, nStore := 0, pend := [], wtl := [] }

/-- process start: `FFT_LEN = -1`, static storage zeroed, `n` threads that have not called the library yet -/
def cold (n : Nat) : St := { zero n with flen := -1 }

/-- the state right after one complete, undisturbed `LSX_INIT_FFT_CACHE` (`FFT_LEN = 0`, no tables yet), `n` threads outside -/
def warm (n : Nat) : St := { zero n with nInit := 1, nReset := 1 }

/-- run a list of labels -/
def run : List Label → St → Option St
  | [], s => some s
  | l :: ls, s => (fire l s).bind (run ls)

theorem run_reachable {s0 : St} : ∀ (ls : List Label) (s t : St), Reachable s0 s → run ls s = some t → Reachable s0 t
  | [], s, t, h, e => by simp [run] at e; exact e ▸ h
  | l :: ls, s, t, h, e => by
    simp only [run] at e
    cases hf : fire l s with
    | none => simp [hf] at e
    | some u =>
      simp only [hf, Option.bind_some] at e
      exact run_reachable ls u t (.step h ⟨l, hf⟩) e

/-- index of a program point in `allS` (= its constructor index; driver: snapshot of the count function) -/
def Pc.idx (p : Pc) : Nat := p.ctorIdx

/-- extensionally the same state with the count function tabulated (keeps the driver's closures flat) -/
def St.compact (s : St) : St :=
  let a : Array Nat := (allS.map s.cnt).toArray
  { s with cnt := fun p => a.getD p.idx 0 }

/-- all labels, with a given parameter for the three that carry `len` (used by the driver to look labels up by
    source point / visible action) -/
def allLabels (len : Int) (z : Bool := false) : List Label :=
  [.call, .i0_warm, .i0_cold, .ini1, .ini2, .ini3, .ini4, .ini5, .ini6, .r1,
   .r2, .r3, .r4_first, .r4_more, .r5, .r6, .r7, .r8, .c0_ok, .c0_grow, .use_r, .use_w,
   .rd_end, .x1, .x2_last, .x2_more, .x3, .x4, .u1, .u2_last, .u2_more, .u3,
   .u4, .w1, .w2_first, .w2_more, .w3, .w4, .w5, .c1_pass len, .c1_fail, .store len z,
   .build len, .y1, .y2, .y3_last, .y3_more, .y4, .y5, .d1, .d2, .d3_last,
   .d3_more, .d4, .d5, .e1, .e2, .e3, .e4_first, .e4_more, .e5, .e6,
   .e7, .e8, .c2_go]

end Soxr.Conc
