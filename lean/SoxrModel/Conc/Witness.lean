import SoxrModel.Conc.Model
/-!
# Witness traces of the FFT-cache model (concrete interleavings, checked by evaluation)

* from process start (`cold 2`) the unguarded initialiser is entered twice, and the second, late initialisation re-creates
  the five locks and resets `FFT_LEN` while the other thread is inside a transform — after which a writer rebuilds the
  tables under that reader (defect F9 of the pinned tree; the same schedule is replayed on the real code by `checks/c17.py`);
* from `warm n` (initialisation done): reachable states with a writer rebuilding, with several concurrent readers, and with
  a thread on the downgrade path (its re-test `len > FFT_LEN` failed because another thread had grown the cache meanwhile),
  used as non-vacuity examples of the theorems in `Properties/C17.lean`.
-/
namespace Soxr.Conc

theorem reach_of_run {s0 t : St} (ls : List Label) (h : run ls s0 = some t) : Reachable s0 t :=
  run_reachable ls s0 t .init h

/-- `ccrw2_init` + `FFT_LEN = 0` -/
def initSeq : List Label := [.ini1, .ini2, .ini3, .ini4, .ini5, .ini6]
/-- `ccrw2_become_reader`, first reader -/
def brFirst : List Label := [.r1, .r2, .r3, .r4_first, .r5, .r6, .r7, .r8]
/-- `ccrw2_become_reader`, not the first reader -/
def brMore : List Label := [.r1, .r2, .r3, .r4_more, .r6, .r7, .r8]
/-- upgrade: `cease_reading` as the last reader, `become_writer` as the first writer -/
def upgradeLastFirst : List Label := [.c0_grow, .u1, .u2_last, .u3, .u4, .w1, .w2_first, .w3, .w4, .w5]
/-- `cease_writing`, last writer, on exit -/
def cwLast : List Label := [.y1, .y2, .y3_last, .y4, .y5]
/-- `cease_reading`, last reader, on exit -/
def crLast : List Label := [.use_r, .rd_end, .x1, .x2_last, .x3, .x4]

/-- both threads pass the test `FFT_LEN >= 0` before either has stored 0 -/
def bothPass : List Label := [.call, .i0_cold, .call, .i0_cold]

/-- F9: thread A passes the test and is pre-empted; thread B passes it too, initialises, grows the cache to 8, finishes, and
    starts a second transform as a reader; A then re-initialises the locks, stores `FFT_LEN = 0`, becomes a reader (second,
    so it does not wait for `w`), finds `len > 0`, upgrades — `w` is free because A itself re-created it — and passes the
    re-test: A re-allocates the tables while B reads them -/
def f9Trace : List Label :=
  bothPass ++ initSeq ++ brFirst ++ upgradeLastFirst ++ [.c1_pass 8, .store 8 true, .use_w, .build 8] ++ cwLast ++
  [.call, .i0_warm] ++ brFirst ++ [.c0_ok] ++
  initSeq ++ brMore ++ [.c0_grow, .u1, .u2_more, .u4, .w1, .w2_first, .w3, .w4, .w5, .c1_pass 4]

/-- F9, two writers: both initialise; B becomes writer and re-allocates; A's late `ccrw2_init` frees `w` and `r`; A becomes a
    second writer -/
def twoWritersTrace : List Label :=
  bothPass ++ initSeq ++ brFirst ++ upgradeLastFirst ++ [.c1_pass 8, .store 8 true] ++
  initSeq ++ brFirst ++ [.c0_grow, .u1, .u2_last, .u3, .u4, .w1, .w2_more, .w4, .w5, .c1_pass 16]

/-- what the witnesses look at: readers inside a transform, threads re-allocating / rebuilding, threads holding the writer role,
    initialiser entries, `FFT_LEN = 0` stores, `FFT_LEN`, built length -/
def obs (s : St) : List Int :=
  [s.reading, s.rebuilding, s.writersIn, s.nInit, s.nReset, s.flen, s.tab]

set_option maxRecDepth 100000 in
theorem bothPass_run : (run bothPass (cold 2)).map obs = some [0, 0, 0, 2, 0, -1, 0] := by decide

set_option maxRecDepth 100000 in
theorem f9Trace_run : (run f9Trace (cold 2)).map obs = some [1, 1, 1, 2, 2, 0, 8] := by decide

set_option maxRecDepth 100000 in
theorem f9Trace_store_run : (run (f9Trace ++ [.store 4 true]) (cold 2)).map obs = some [1, 1, 1, 2, 2, 4, 0] := by decide

set_option maxRecDepth 100000 in
theorem twoWriters_run : (run twoWritersTrace (cold 2)).map obs = some [0, 2, 2, 2, 2, 0, 0] := by decide

theorem exists_of_run_obs {s0 : St} {ls : List Label} {o} (h : (run ls s0).map obs = some o) :
    ∃ s, Reachable s0 s ∧ obs s = o := by
  cases hr : run ls s0 with
  | none => simp [hr] at h
  | some s => exact ⟨s, reach_of_run ls hr, by simpa [hr] using h⟩

/-! Warm-start traces (non-vacuity). -/
/-- one thread grows the cache to 8 and is inside its transform as the writer -/
def writerInTrace : List Label := [.call, .i0_warm] ++ brFirst ++ upgradeLastFirst ++ [.c1_pass 8, .store 8 true]

/-- … finishes; then two threads read concurrently -/
def twoReadersTrace : List Label :=
  writerInTrace ++ [.use_w, .build 8] ++ cwLast ++ [.call, .i0_warm] ++ brFirst ++ [.c0_ok, .call, .i0_warm] ++ brMore ++ [.c0_ok]

/-- two threads both find `len > FFT_LEN = 0` as readers; the first rebuilds to 8; the second, once it holds the writer role,
    re-tests (say `len = 4`), fails, and downgrades -/
def downgradeTrace : List Label :=
  [.call, .i0_warm] ++ brFirst ++ [.call, .i0_warm] ++ brMore ++ [.c0_grow, .c0_grow,
   .u1, .u2_more, .u4, .u1, .u2_last, .u3, .u4,        -- both cease reading
   .w1, .w2_first, .w3, .w4, .w5,                       -- first becomes writer
   .w1, .w2_more, .w4,                                  -- second queues on w
   .c1_pass 8, .store 8 true, .use_w, .build 8, .y1, .y2, .y3_more, .y5,
   .w5, .c1_fail]

set_option maxRecDepth 100000 in
theorem writerIn_run : (run writerInTrace (warm 2)).map obs = some [0, 1, 1, 1, 1, 8, 0] := by decide

set_option maxRecDepth 100000 in
theorem twoReaders_run : (run twoReadersTrace (warm 3)).map obs = some [2, 0, 0, 1, 1, 8, 8] := by decide

set_option maxRecDepth 100000 in
/-- in the two-readers state both readers are at the point of use; in the writer-in state the writer is -/
theorem twoReaders_at_use : (run twoReadersTrace (warm 3)).map (fun s => s.cnt .rd) = some 2 := by decide

set_option maxRecDepth 100000 in
theorem writerIn_at_use : (run writerInTrace (warm 2)).map (fun s => s.cnt .wt) = some 1 := by decide

set_option maxRecDepth 100000 in
theorem downgrade_run : (run downgradeTrace (warm 2)).map (fun s => (s.cnt .d1, s.flen)) = some (1, 8) := by decide

end Soxr.Conc
