/-! Line-protocol driver of the Conc model (stub). -/
def main : IO Unit := pure ()
