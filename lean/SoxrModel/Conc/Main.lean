import SoxrModel.Conc.Model
import SoxrModel.Conc.Vr
import SoxrModel.Conc.Clips
/-!
# `soxr_conc` — checks event traces of the real code against the model's step function

The deterministic-scheduler harness (`harness/conc/sched.c`) runs the real library and prints, for every run, one line per
lock operation / yield point of every managed thread, together with the values of the real shared variables right after the
event.  This driver replays each trace on the **same `fire` the theorems quantify over**: it keeps, per cache, the abstract
state `St` and (only to know which transition an event is) each thread's program point; an event is mapped to the unique
transition(s) of that thread that can explain it (invisible steps — tests, increments, stores — are taken immediately before
the thread's next event, which is when they happen under the scheduler), each must be enabled in the abstract state, and
after each event the abstract shared variables must equal the real ones and the abstract counts must equal the number of
threads at each program point.  Output: one line per run, `ok …` with what the model saw, or `REJECT …` at the first event the
model cannot take (with what the model saw up to that event).

Input lines
```
RUN <id> threads=<n> warm0=<0|1> warm1=<0|1>      cache 0 = double (`fft_cache_ccrw`), cache 1 = float (`fft_cache_ccrw_f`)
E <tid> <cache> <want|got|rel|init|yield|use> <name> <arg> <FFT_LEN> <readcount> <writecount> <tab> <m1> <m2> <m3> <w> <r>
V <tid> <begin|passed|filled|end|leave>          variable-rate jobs: vr_init's table initialiser
END
CLIPS <t0> <c1> <c2> …                            atomic clip-counter model run to completion
```
-/
namespace Soxr.Conc.Driver
open Soxr.Conc

inductive Ev where
  | want (l : Lock) | got (l : Lock) | rel (l : Lock) | ini (l : Lock) | yld (tag : String) | use
  deriving Repr

/-- the yield point (a no-op for the model) that sits at a program point -/
def yieldAt : Pc → Option String
  | .i1 => some "check-passed"
  | .i6 => some "locks-initialised"
  | .b0 => some "rebuild-begin"
  | .wt => some "begin-as-writer"
  | .y1 => some "end-as-writer"
  | .rd => some "begin-as-reader"
  | .x1 => some "end-as-reader"
  | _ => none

def visLabel (labels : List Label) (pc : Pc) (v : Vis) : Option Label :=
  labels.find? fun l => l.src == pc && l.vis == v

/-- `some none`: the event is visible at `pc` and is a no-op for the model; `some (some l)`: it is transition `l` -/
def visibleAt (labels : List Label) (pc : Pc) : Ev → Option (Option Label)
  | .yld tag => if yieldAt pc == some tag then some none else none
  | .want L => (visLabel labels pc (.p L)).map fun _ => none
  | .got L => (visLabel labels pc (.p L)).map some
  | .rel L => (visLabel labels pc (.v L)).map some
  | .ini L => (visLabel labels pc (.ini L)).map some
  | .use => (visLabel labels pc .use).map some

/-- the invisible transitions that lead from `pc` to a point where the event is visible.  A point that carries a yield point
    cannot be passed silently (the real code always reports the yield there), which makes the explanation unique. -/
def tauPath (labels : List Label) : Nat → Pc → Ev → Option (List Label)
  | 0, _, _ => none
  | fuel + 1, pc, ev =>
    match visibleAt labels pc ev with
    | some _ => some []
    | none =>
      (labels.filter fun l => l.src == pc && l.vis == .tau).findSome? fun l =>
        if (visibleAt labels l.dst ev).isSome then some [l]
        else if (yieldAt l.dst).isSome then none
        else (tauPath labels fuel l.dst ev).map (l :: ·)

structure Cache where
  st : St
  pcs : Array Pc
  lens : Array Int
  -- what the model saw along the trace
  fired : Nat := 0
  overlap : Bool := false       -- a reader inside a transform while a thread re-allocates / rebuilds
  twoWriters : Bool := false
  shrunk : Bool := false        -- FFT_LEN decreased
  maxReaders : Nat := 0
  upgrades : Nat := 0
  downgrades : Nat := 0
  /-- `FFT_LEN` each thread saw when its test `len > FFT_LEN` sent it on the upgrade path -/
  seen : Array Int := #[]
  /-- each thread's `old_n == 0`, taken when it passes the re-test (`c1_pass`) -/
  zs : Array Bool := #[]
  /-- downgrades (re-test failed) although `FFT_LEN` had not grown since the thread's first test: impossible for the pinned
      code (`len > f0` then `¬ len > f1` gives `f0 < f1`); a driver-side oracle, not used by the theorems -/
  spurious : Nat := 0
  /-- how often a thread entered the initialiser (`i0_cold`) while another was inside it: the step that `StepS` /
      `ReachableS` exclude, i.e. the run has left the hypothesis of the `Good` theorems (finding F9) -/
  raced : Nat := 0
  /-- number of the first transition of this cache fired at or after the first such entry (0 = none) -/
  racedAt : Nat := 0
  /-- set of labels fired (bit = constructor index): which transitions of the model the real traces exercised -/
  cov : Nat := 0

def Cache.new (n : Nat) (warmStart : Bool) : Cache :=
  { st := (if warmStart then warm n else cold n).compact, pcs := Array.replicate n Pc.idle, lens := Array.replicate n 0,
    seen := Array.replicate n 0, zs := Array.replicate n false }

instance : Inhabited Cache := ⟨Cache.new 0 true⟩

def lockOf : String → Option Lock
  | "m1" => some .m1 | "m2" => some .m2 | "m3" => some .m3 | "w" => some .w | "r" => some .r
  | _ => none

def showLabel (l : Label) : String := (reprStr l).replace "Soxr.Conc.Label." ""
def showPc (p : Pc) : String := (reprStr p).replace "Soxr.Conc.Pc." ""

def fireOne (c : Cache) (tid : Nat) (l : Label) (evNo : Nat := 0) : Except String Cache :=
  match fire l c.st with
  | none =>
    let s := c.st
    let ls := showLabel l
    let ps := showPc l.src
    .error (s!"transition {ls} of thread {tid} (now at {ps}) is not enabled in the model: FFT_LEN={s.flen} readcount={s.readcount} " ++
            s!"writecount={s.writecount} m1={s.m1} m2={s.m2} m3={s.m3} w={s.w} r={s.r} pend={s.pend}")
  | some t =>
    let t := t.compact
    let ov : Bool := c.overlap || (decide (0 < t.reading) && decide (0 < t.rebuilding))
    let tw : Bool := c.twoWriters || decide (2 ≤ t.writersIn)
    let sh : Bool := c.shrunk || decide (t.flen < c.st.flen)
    let mr : Nat := max c.maxReaders t.reading
    let newPcs := c.pcs.set! tid l.dst
    let nf := c.fired + 1
    let isRace : Bool := (l == .i0_cold) && decide (0 < c.st.inInit)
    let c : Cache := { c with st := t, pcs := newPcs, fired := nf, overlap := ov, twoWriters := tw, shrunk := sh, maxReaders := mr,
                              cov := c.cov ||| (1 <<< l.ctorIdx),
                              raced := c.raced + (if isRace then 1 else 0),
                              racedAt := if isRace && c.racedAt == 0 then evNo else c.racedAt }
    let c := match l with
      | .c0_grow => { c with upgrades := c.upgrades + 1, seen := c.seen.set! tid t.flen }
      | .c1_pass _ => { c with zs := c.zs.set! tid (decide (c.st.flen = 0)) }
      | .c1_fail => { c with downgrades := c.downgrades + 1,
                             spurious := c.spurious + (if c.seen[tid]! < t.flen then 0 else 1) }
      | _ => c
    .ok c

structure Obs where
  flen : Int
  rc : Int
  wc : Int
  tab : Int
  m1 : Nat
  m2 : Nat
  m3 : Nat
  w : Nat
  r : Nat

def checkObs (c : Cache) (o : Obs) : Except String Unit := do
  let s := c.st
  let chk (name : String) (m r : Int) : Except String Unit :=
    if m == r then .ok () else .error s!"after the event the model has {name}={m} but the real code has {name}={r}"
  chk "FFT_LEN" s.flen o.flen
  chk "readcount" s.readcount o.rc
  chk "writecount" s.writecount o.wc
  chk "tab" s.tab o.tab
  chk "mutex_1" s.m1 o.m1
  chk "mutex_2" s.m2 o.m2
  chk "mutex_3" s.m3 o.m3
  chk "w" s.w o.w
  chk "r" s.r o.r

/-- projection: the abstract counts are the numbers of threads at each program point -/
def checkCounts (c : Cache) : Except String Unit :=
  match allS.find? (fun p => c.st.cnt p != (c.pcs.toList.filter (· == p)).length) with
  | some p => .error s!"count projection broken at {showPc p}"
  | none => .ok ()

def stepEvent (c : Cache) (tid : Nat) (ev : Ev) (arg : Int) (o : Obs) (evNo : Nat := 0) : Except String Cache := do
  if tid ≥ c.pcs.size then throw s!"thread id {tid} out of range"
  let pc := c.pcs[tid]!
  let isRebuildBegin := match ev with | .yld "rebuild-begin" => true | _ => false
  let len := if isRebuildBegin then arg else c.lens[tid]!
  let labels := allLabels len c.zs[tid]!
  let isUse := match ev with | .use => true | _ => false
  let some path := tauPath labels 5 pc ev
    | throw (if isUse then
        s!"TABLE-USE-OUTSIDE-LOCK: thread {tid} dereferences the shared tables while it is at {showPc pc} in the model: it holds neither " ++
        "the reader role nor the writer role of this cache (no transition of the model is a table use there)"
      else s!"thread {tid} is at {showPc pc} in the model, where the event cannot happen (neither directly nor after invisible steps)")
  let mut c := c
  if isRebuildBegin then c := { c with lens := c.lens.set! tid arg }
  let mut cur := pc
  for l in path do
    c ← fireOne c tid l evNo
    cur := l.dst
  match visibleAt labels cur ev with
  | some (some l) => c ← fireOne c tid l evNo
  | some none => pure ()
  | none => throw "internal: path does not end at a visible point"
  checkObs c o
  checkCounts c
  return c

/-! variable-rate tables -/
structure VrD where
  st : Vr.St
  pcs : Array Nat     -- 0 idle, 1 v0, 2 v1, 3 v2, 4 vu
  fills : Nat := 0
  earlyUse : Bool := false
  fired : Nat := 0
  /-- the test `fade_coefs[0]==0` executed while another thread was inside the initialiser (excluded by `Vr.StepS`) -/
  raced : Nat := 0
  racedAt : Nat := 0

def VrD.new (n : Nat) : VrD := { st := Vr.cold n, pcs := Array.replicate n 0 }

def vrFire (d : VrD) (tid : Nat) (l : Vr.Label) (dst : Nat) (evNo : Nat := 0) : Except String VrD :=
  match Vr.fire l d.st with
  | none => .error s!"vr: transition {reprStr l} of thread {tid} is not enabled in the model: fade0={d.st.fade0} v1={d.st.v1} v2={d.st.v2} vu={d.st.vu}"
  | some t =>
    let isRace : Bool := (l == .check_cold || l == .check_warm) && decide (0 < d.st.v1 + d.st.v2)
    .ok { d with st := t, pcs := d.pcs.set! tid dst, fired := d.fired + 1, fills := t.nFill,
                 earlyUse := d.earlyUse || (0 < t.vu && 0 < t.v2),
                 raced := d.raced + (if isRace then 1 else 0),
                 racedAt := if isRace && d.racedAt == 0 then evNo else d.racedAt }

def vrEvent (d : VrD) (tid : Nat) (kind : String) (evNo : Nat := 0) : Except String VrD := do
  if tid ≥ d.pcs.size then throw s!"thread id {tid} out of range"
  let pc := d.pcs[tid]!
  match kind, pc with
  | "begin", 0 => vrFire d tid .enter 1
  | "passed", 1 => vrFire d tid .check_cold 2 evNo
  | "filled", 2 => vrFire d tid .fill 3
  | "end", 1 => vrFire d tid .check_warm 4 evNo
  | "end", 2 => do let d ← vrFire d tid .fill 3; vrFire d tid .finish 4
  | "end", 3 => vrFire d tid .finish 4
  | "leave", 4 => vrFire d tid .leave 0
  | k, p => throw s!"vr: event {k} cannot happen with thread {tid} at point {p}"

structure Run where
  id : String
  caches : Array Cache
  vr : VrD
  events : Nat := 0
  failed : Option String := none

def b2n (b : Bool) : Nat := if b then 1 else 0

def summary (r : Run) : String :=
  let c (i : Nat) : String :=
    let k := r.caches[i]!
    s!"c{i}:fired={k.fired},nInit={k.st.nInit},nReset={k.st.nReset},nStore={k.st.nStore},flen={k.st.flen},overlap={b2n k.overlap}," ++
    s!"twoWriters={b2n k.twoWriters},shrunk={b2n k.shrunk},maxReaders={k.maxReaders},upgrades={k.upgrades},downgrades={k.downgrades}," ++
    s!"spurious={k.spurious},raced={k.raced},racedAt={k.racedAt},cov={k.cov},idle={k.st.cnt .idle}"
  s!"events={r.events} {c 0} {c 1} vr:fired={r.vr.fired},fills={r.vr.fills},earlyUse={b2n r.vr.earlyUse},raced={r.vr.raced},racedAt={r.vr.racedAt}"

def kv (toks : List String) (k : String) : Option String :=
  toks.findSome? fun t => match t.splitOn "=" with
    | [a, b] => if a == k then some b else none
    | _ => none

def parseEv (kind name : String) : Option Ev :=
  match kind with
  | "yield" => some (.yld name)
  | "want" => (lockOf name).map .want
  | "got" => (lockOf name).map .got
  | "rel" => (lockOf name).map .rel
  | "init" => (lockOf name).map .ini
  | "use" => some .use
  | _ => none

def handleLine (cur : Option Run) (line : String) : Option Run × Option String :=
  let toks := (line.trimAscii.toString.splitOn " ").filter (· ≠ "")
  match toks with
  | "RUN" :: id :: rest =>
    let n := ((kv rest "threads").bind String.toNat?).getD 2
    let w0 := (kv rest "warm0") == some "1"
    let w1 := (kv rest "warm1") == some "1"
    (some { id := id, caches := #[Cache.new n w0, Cache.new n w1], vr := VrD.new n }, none)
  | ["END"] =>
    match cur with
    | none => (none, some "REJECT ? END without RUN")
    | some r =>
      match r.failed with
      | some msg => (none, some s!"REJECT {r.id} {summary r} :: {msg}")
      | none => (none, some s!"ok {r.id} {summary r}")
  | "E" :: tid :: cache :: kind :: name :: arg :: obs =>
    match cur with
    | none => (none, none)
    | some r =>
      if r.failed.isSome then (some r, none) else
      let r := { r with events := r.events + 1 }
      let fail (m : String) : Option Run × Option String := (some { r with failed := some s!"event={r.events} [{line.trimAscii.toString}] {m}" }, none)
      match tid.toNat?, cache.toNat?, parseEv kind name, arg.toInt?, obs.map String.toInt? with
      | some t, some ci, some ev, some a, [some flen, some rc, some wc, some tab, some m1, some m2, some m3, some w, some rr] =>
        if ci ≥ 2 then fail "bad cache index" else
        let o : Obs := { flen, rc, wc, tab, m1 := m1.toNat, m2 := m2.toNat, m3 := m3.toNat, w := w.toNat, r := rr.toNat }
        match stepEvent r.caches[ci]! t ev a o r.events with
        | .ok c => (some { r with caches := r.caches.set! ci c }, none)
        | .error m => fail m
      | _, _, _, _, _ => fail "unparsable event line"
  | ["V", tid, kind] =>
    match cur with
    | none => (none, none)
    | some r =>
      if r.failed.isSome then (some r, none) else
      let r := { r with events := r.events + 1 }
      match tid.toNat? with
      | none => (some { r with failed := some s!"event={r.events} unparsable V line" }, none)
      | some t =>
        match vrEvent r.vr t kind r.events with
        | .ok d => (some { r with vr := d }, none)
        | .error m => (some { r with failed := some s!"event={r.events} [{line.trimAscii.toString}] {m}" }, none)
  | "CLIPS" :: t0 :: cs =>
    let cs := cs.filterMap String.toNat?
    let t0 := t0.toNat?.getD 0
    let s := Clips.arun cs { total := t0, todo := cs }
    (cur, some s!"clips {s.total} todo={s.todo.length}")
  | _ => (cur, none)

partial def loop (h : IO.FS.Stream) (out : IO.FS.Stream) (cur : Option Run) : IO Unit := do
  let line ← h.getLine
  if line.isEmpty then
    match cur with
    | some r => out.putStrLn s!"REJECT {r.id} trace not terminated by END"
    | none => pure ()
    return
  let (cur, o) := handleLine cur line
  match o with
  | some s => out.putStrLn s
  | none => pure ()
  loop h out cur

end Soxr.Conc.Driver

def main : IO Unit := do
  let stdin ← IO.getStdin
  let stdout ← IO.getStdout
  Soxr.Conc.Driver.loop stdin stdout none
