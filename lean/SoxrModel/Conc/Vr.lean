/-!
# `vr_init`'s lazily initialised process-wide tables (`vr32.c`), modelled as written

```c
  if (fade_coefs[0]==0) {                       // v0: the test      (yield `vr:tables-check-passed` when it succeeds)
    for (i …) fade_coefs[i] = …;                // v1: first store makes fade_coefs[0] = 1
    prepare_coefs(poly_fir_coefs_u, …);         // v2: still writing the other two tables
    prepare_coefs(poly_fir_coefs_d, …);
  }                                             // vu: vr_init has returned; the channel reads all three tables
```
No lock, no atomics.  Counter abstraction as in `Model.lean`: any number of anonymous threads.
-/
namespace Soxr.Conc.Vr

structure St where
  /-- threads outside / about to test / test succeeded / `fade_coefs[0]` written, still writing / using the tables -/
  (idle v0 v1 v2 vu : Nat)
  /-- 1 iff `fade_coefs[0] != 0` -/
  fade0 : Nat
  /-- how many times the tables have been (re)written -/
  nFill : Nat
  deriving DecidableEq, Repr

inductive Label where
  | enter | check_cold | check_warm | fill | finish | leave
  deriving DecidableEq, Repr

def guard (l : Label) (s : St) : Prop :=
  match l with
  | .enter => 0 < s.idle
  | .check_cold => 0 < s.v0 ∧ s.fade0 = 0
  | .check_warm => 0 < s.v0 ∧ s.fade0 ≠ 0
  | .fill => 0 < s.v1
  | .finish => 0 < s.v2
  | .leave => 0 < s.vu

instance (l : Label) (s : St) : Decidable (guard l s) :=
  match l with
  | .enter => inferInstanceAs (Decidable (0 < s.idle))
  | .check_cold => inferInstanceAs (Decidable (0 < s.v0 ∧ s.fade0 = 0))
  | .check_warm => inferInstanceAs (Decidable (0 < s.v0 ∧ s.fade0 ≠ 0))
  | .fill => inferInstanceAs (Decidable (0 < s.v1))
  | .finish => inferInstanceAs (Decidable (0 < s.v2))
  | .leave => inferInstanceAs (Decidable (0 < s.vu))

def eff (l : Label) (s : St) : St :=
  match l with
  | .enter => { s with idle := s.idle - 1, v0 := s.v0 + 1 }
  | .check_cold => { s with v0 := s.v0 - 1, v1 := s.v1 + 1 }
  | .check_warm => { s with v0 := s.v0 - 1, vu := s.vu + 1 }
  | .fill => { s with v1 := s.v1 - 1, v2 := s.v2 + 1, fade0 := 1, nFill := s.nFill + 1 }
  | .finish => { s with v2 := s.v2 - 1, vu := s.vu + 1 }
  | .leave => { s with vu := s.vu - 1, idle := s.idle + 1 }

def fire (l : Label) (s : St) : Option St := if guard l s then some (eff l s) else none

def Step (s t : St) : Prop := ∃ l, fire l s = some t

/-- serial initialisation: no thread executes the test while another thread is inside the initialiser -/
def StepS (s t : St) : Prop := ∃ l, fire l s = some t ∧ ((l = .check_cold ∨ l = .check_warm) → s.v1 + s.v2 = 0)

inductive Reachable (s0 : St) : St → Prop
  | init : Reachable s0 s0
  | step {s t} : Reachable s0 s → Step s t → Reachable s0 t

inductive ReachableS (s0 : St) : St → Prop
  | init : ReachableS s0 s0
  | step {s t} : ReachableS s0 s → StepS s t → ReachableS s0 t

/-- process start, `n` threads -/
def cold (n : Nat) : St := { idle := n, v0 := 0, v1 := 0, v2 := 0, vu := 0, fade0 := 0, nFill := 0 }

def run : List Label → St → Option St
  | [], s => some s
  | l :: ls, s => (fire l s).bind (run ls)

theorem run_reachable {s0 : St} : ∀ (ls : List Label) (s t : St), Reachable s0 s → run ls s = some t → Reachable s0 t
  | [], s, t, h, e => by simp [run] at e; exact e ▸ h
  | l :: ls, s, t, h, e => by
    simp only [run] at e
    cases hf : fire l s with
    | none => simp [hf] at e
    | some u =>
      simp only [hf, Option.bind_some] at e
      exact run_reachable ls u t (.step h ⟨l, hf⟩) e

structure Inv (s : St) : Prop where
  one : s.v1 + s.v2 ≤ 1
  f_le : s.fade0 ≤ 1
  cold_ : s.fade0 = 0 → s.v2 = 0 ∧ s.vu = 0 ∧ s.nFill = 0
  warm_ : s.fade0 = 1 → s.v1 = 0 ∧ s.nFill = 1
  use_ : 0 < s.vu → s.v2 = 0

theorem inv_cold (n : Nat) : Inv (cold n) := by constructor <;> simp [cold]

theorem fire_some {l : Label} {s t : St} (h : fire l s = some t) : guard l s ∧ t = eff l s := by
  unfold fire at h
  split at h
  · exact ⟨‹_›, by injection h with h; exact h.symm⟩
  · cases h

theorem inv_stepS {s t : St} (h : Inv s) (st : StepS s t) : Inv t := by
  obtain ⟨l, hf, hs⟩ := st
  obtain ⟨g, rfl⟩ := fire_some hf
  obtain ⟨h1, h2, h3, h4, h5⟩ := h
  cases l
  case check_cold => have := hs (Or.inl rfl); simp only [guard] at g; constructor <;> simp only [eff] <;> omega
  case check_warm => have := hs (Or.inr rfl); simp only [guard] at g; constructor <;> simp only [eff] <;> omega
  all_goals (simp only [guard] at g; constructor <;> simp only [eff] <;> omega)

theorem inv_of_reachableS {n : Nat} {s : St} (h : ReachableS (cold n) s) : Inv s := by
  induction h with
  | init => exact inv_cold n
  | step _ st ih => exact inv_stepS ih st

/-- two threads pass the test before either has stored `fade_coefs[0]`: the tables are written twice -/
def twiceTrace : List Label := [.enter, .enter, .check_cold, .check_cold, .fill, .fill]
/-- a second thread finds `fade_coefs[0] != 0` and uses the tables while the first is still computing them -/
def earlyUseTrace : List Label := [.enter, .check_cold, .fill, .enter, .check_warm]

theorem twice_run : run twiceTrace (cold 2) = some { idle := 0, v0 := 0, v1 := 0, v2 := 2, vu := 0, fade0 := 1, nFill := 2 } := by decide
theorem earlyUse_run : run earlyUseTrace (cold 2) = some { idle := 0, v0 := 0, v1 := 0, v2 := 1, vu := 1, fade0 := 1, nFill := 1 } := by decide

end Soxr.Conc.Vr
