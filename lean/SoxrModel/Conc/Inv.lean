import SoxrModel.Conc.Model
/-!
# The inductive invariant of the FFT-cache model

`Inv` holds in `warm n` (initialisation done, `n` threads outside) and in `cold n` (process start), and is preserved by every
step of every thread **provided** a thread enters the unguarded initialiser only while no other thread is inside it
(`StepS`; from `warm n` that proviso is vacuous because `FFT_LEN` never becomes negative again).  All clauses but two are
linear, so `omega` discharges each (transition, clause) pair; the two list clauses (`pend`, `wtl`: the thread-local `len` of
the at most one thread re-allocating / rebuilding) are handled by hand for the four transitions that touch them.
-/
namespace Soxr.Conc

/-- the linear clauses -/
structure InvL (s : St) : Prop where
  -- mutex_1 is held exactly by the threads between its P and V
  m1_def : s.m1 = s.r4 + s.r5 + s.r6 + s.e4 + s.e5 + s.e6 + s.x2 + s.x3 + s.x4 + s.u2 + s.u3 + s.u4
  m1_le : s.m1 ≤ 1
  -- readcount counts the threads between `++readcount` and `--readcount`
  rc_def : s.readcount = ((s.r5 + s.r6 + s.r7 + s.r8 + s.c0 + s.rd + s.x1 + s.x2 + s.u1 + s.u2 +
                           s.e5 + s.e6 + s.e7 + s.e8 + s.c2 : Nat) : Int)
  -- `w` is held by the one writer or by the reader group
  w_def : s.w = s.c1 + s.b0 + s.wt + s.y1 + s.d1 + s.gw
  w_le : s.w ≤ 1
  gw_le : s.gw ≤ 1
  gw_on : s.gw = 1 → (0 < s.readcount ∧ s.r5 + s.e5 = 0) ∨ s.x3 + s.u3 = 1
  gw_off : s.gw = 0 → (s.readcount = 0 ∨ s.r5 + s.e5 = 1) ∧ s.x3 + s.u3 = 0
  r5_rc : 0 < s.r5 + s.e5 → s.readcount = 1
  x3_rc : 0 < s.x3 + s.u3 → s.readcount = 0
  -- the initialiser: at most one thread inside; before it completes nobody is anywhere else; afterwards nobody is inside
  init_le : s.i1 + s.i2 + s.i3 + s.i4 + s.i5 + s.i6 ≤ 1
  flen_ge : -1 ≤ s.flen
  cold_quiet : s.flen < 0 →
    s.r1 + s.r2 + s.r3 + s.r4 + s.r5 + s.r6 + s.r7 + s.r8 + s.c0 + s.rd + s.x1 + s.x2 + s.x3 + s.x4 +
    s.u1 + s.u2 + s.u3 + s.u4 + s.w1 + s.w2 + s.w3 + s.w4 + s.w5 + s.c1 + s.b0 + s.wt +
    s.y1 + s.y2 + s.y3 + s.y4 + s.y5 + s.d1 + s.d2 + s.d3 + s.d4 + s.d5 +
    s.e1 + s.e2 + s.e3 + s.e4 + s.e5 + s.e6 + s.e7 + s.e8 + s.c2 = 0 ∧
    s.m1 = 0 ∧ s.w = 0 ∧ s.gw = 0 ∧ s.readcount = 0 ∧ s.tab = 0 ∧ s.nReset = 0 ∧ s.nStore = 0 ∧
    s.nInit = s.i1 + s.i2 + s.i3 + s.i4 + s.i5 + s.i6
  warm_done : 0 ≤ s.flen → s.i1 + s.i2 + s.i3 + s.i4 + s.i5 + s.i6 = 0 ∧ s.nInit = 1 ∧ s.nReset = 1
  -- the tables
  pend_len : s.pend.length = s.b0
  wtl_len : s.wtl.length = s.wt
  tab_ge : 0 ≤ s.tab
  tab_le : 0 ≤ s.flen → s.tab ≤ s.flen
  tab_eq : s.wt = 0 → 0 ≤ s.flen → s.tab = s.flen
  store_le : 0 ≤ s.flen → (s.nStore : Int) ≤ s.flen
  flen_pos : 0 < s.rd + s.c2 + s.d1 + s.d2 + s.d3 + s.d4 + s.d5 +
                 s.e1 + s.e2 + s.e3 + s.e4 + s.e5 + s.e6 + s.e7 + s.e8 + s.x1 + s.x2 + s.x3 + s.x4 → 0 < s.flen

/-- the two clauses about the thread-local `len` of the thread that is re-allocating (`b0`) / rebuilding (`wt`) -/
structure InvD (s : St) : Prop where
  pend_gt : ∀ x ∈ s.pend, s.flen < x
  wtl_eq : ∀ x ∈ s.wtl, x = s.flen

structure Inv (s : St) : Prop where
  lin : InvL s
  dat : InvD s

theorem inv_warm (n : Nat) : Inv (warm n) := by
  refine ⟨?_, ?_⟩
  · constructor <;> simp [warm, zero]
  · constructor <;> simp [warm, zero]

theorem inv_cold (n : Nat) : Inv (cold n) := by
  refine ⟨?_, ?_⟩
  · constructor <;> simp [cold, zero]
  · constructor <;> simp [cold, zero]

private theorem length_le_one_erase {a : Int} : ∀ {l : List Int}, l.length ≤ 1 → a ∈ l → l.erase a = []
  | [], _, h => by simp at h
  | [b], _, h => by
    have : a = b := by simpa using h
    subst this; simp
  | _ :: _ :: _, h, _ => by simp at h

private theorem eq_nil_of_length_eq_zero' {l : List Int} (h : l.length = 0) : l = [] := by
  cases l with
  | nil => rfl
  | cons _ _ => simp at h

/-- the linear clauses are preserved by every step that respects the serial-initialisation proviso -/
set_option maxHeartbeats 20000000 in
theorem invL_step (l : Label) (s : St) (h : Inv s) (g : guard l s) (hs : l = .i0_cold → s.i1 + s.i2 + s.i3 + s.i4 + s.i5 + s.i6 = 0) :
    InvL (eff l s) := by
  obtain ⟨⟨h1, h2, h3, h4, h5, h6, h7, h8, h9, h10, h11, h12, h13, h14, h15, h16, h17, h18, h19, h20, h21⟩, ⟨d1, d2⟩⟩ := h
  cases l
  case c1_pass len =>
    simp only [guard] at g
    constructor <;> simp only [eff, List.length_cons] <;> omega
  case store len =>
    simp only [guard] at g
    have hb : s.pend.length ≤ 1 := by omega
    have hlt := d1 len g.2
    have he := List.length_erase_of_mem g.2
    constructor <;> simp only [eff, List.length_cons, he] <;> (try split) <;> omega
  case build len =>
    simp only [guard] at g
    have hlt := d2 len g.2
    have he := List.length_erase_of_mem g.2
    constructor <;> simp only [eff, he] <;> (try split) <;> omega
  case i0_cold =>
    have hq := hs rfl
    simp only [guard] at g
    constructor <;> simp only [eff] <;> omega
  all_goals
    simp only [guard] at g
    constructor <;> simp only [eff] <;> omega

/-- the list clauses are preserved too -/
theorem invD_step (l : Label) (s : St) (h : Inv s) (g : guard l s) : InvD (eff l s) := by
  obtain ⟨hl, ⟨d1, d2⟩⟩ := h
  cases l
  case c1_pass len =>
    simp only [guard] at g
    refine ⟨?_, ?_⟩
    · intro x hx
      simp only [eff, List.mem_cons] at hx ⊢
      rcases hx with rfl | hx
      · exact g.2
      · exact d1 x hx
    · exact d2
  case store len =>
    simp only [guard] at g
    have hb : s.pend.length ≤ 1 := by have := hl.pend_len; have := hl.w_def; have := hl.w_le; omega
    have hw : s.wtl = [] := eq_nil_of_length_eq_zero' (by have := hl.wtl_len; have := hl.w_def; have := hl.w_le; omega)
    refine ⟨?_, ?_⟩
    · intro x hx
      simp only [eff, length_le_one_erase hb g.2] at hx
      cases hx
    · intro x hx
      simp only [eff, hw, List.mem_cons, List.not_mem_nil, or_false] at hx ⊢
      exact hx
  case build len =>
    simp only [guard] at g
    refine ⟨d1, ?_⟩
    intro x hx
    simp only [eff] at hx ⊢
    exact d2 x (List.mem_of_mem_erase hx)
  case ini6 =>
    simp only [guard] at g
    have hneg : s.flen < 0 := by
      have := hl.warm_done; have := hl.flen_ge; omega
    have hq := hl.cold_quiet hneg
    have hp : s.pend = [] := eq_nil_of_length_eq_zero' (by have := hl.pend_len; omega)
    have hw : s.wtl = [] := eq_nil_of_length_eq_zero' (by have := hl.wtl_len; omega)
    refine ⟨?_, ?_⟩ <;> intro x hx <;> simp only [eff, hp, hw] at hx <;> cases hx
  all_goals exact ⟨d1, d2⟩

theorem inv_step (l : Label) (s : St) (h : Inv s) (g : guard l s) (hs : l = .i0_cold → s.inInit = 0) : Inv (eff l s) :=
  ⟨invL_step l s h g hs, invD_step l s h g⟩

theorem fire_some {l : Label} {s t : St} (h : fire l s = some t) : guard l s ∧ t = eff l s := by
  unfold fire at h
  split at h
  · exact ⟨‹_›, by injection h with h; exact h.symm⟩
  · cases h

theorem inv_stepS {s t : St} (h : Inv s) (st : StepS s t) : Inv t := by
  obtain ⟨l, hf, hs⟩ := st
  obtain ⟨g, rfl⟩ := fire_some hf
  exact inv_step l s h g hs

/-- the invariant holds in every state reachable from process start under the serial-initialisation hypothesis -/
theorem inv_of_reachableS_cold {n : Nat} {s : St} (h : ReachableS (cold n) s) : Inv s := by
  induction h with
  | init => exact inv_cold n
  | step _ st ih => exact inv_stepS ih st

/-- once `FFT_LEN ≥ 0` holds it holds for ever, and the cold test can no longer be passed: from `warm n` every step is a
    serial-initialisation step -/
theorem inv_of_reachable_warm {n : Nat} {s : St} (h : Reachable (warm n) s) : Inv s ∧ 0 ≤ s.flen := by
  induction h with
  | init => exact ⟨inv_warm n, by simp [warm, zero]⟩
  | @step s t _ st ih =>
    obtain ⟨l, hf⟩ := st
    obtain ⟨g, rfl⟩ := fire_some hf
    have hs : l = .i0_cold → s.inInit = 0 := by
      rintro rfl
      simp only [guard] at g
      omega
    have hi := inv_step l s ih.1 g hs
    refine ⟨hi, ?_⟩
    -- FFT_LEN stays non-negative
    have h0 := ih.2
    have hd := ih.1.dat.pend_gt
    have hw := ih.1.lin.warm_done h0
    cases l <;> simp only [eff] <;> try exact h0
    case ini6 => simp only [guard] at g; omega
    case store len => simp only [guard] at g; have := hd len g.2; omega

theorem reachableS_of_reachable_warm {n : Nat} {s : St} (h : Reachable (warm n) s) : ReachableS (warm n) s := by
  induction h with
  | init => exact .init
  | @step s t hr st ih =>
    obtain ⟨l, hf⟩ := st
    refine .step ih ⟨l, hf, ?_⟩
    rintro rfl
    obtain ⟨g, _⟩ := fire_some hf
    have := (inv_of_reachable_warm hr).2
    simp only [guard] at g
    omega

end Soxr.Conc
