import SoxrModel.Conc.Model
/-!
# The inductive invariant of the FFT-cache model

`Inv` holds in `warm n` (initialisation done, `n` threads outside) and in `cold n` (process start), and is preserved by every
step of every thread **provided** a thread enters the unguarded initialiser only while no other thread is inside it
(`StepS`; from `warm n` that proviso is vacuous because `FFT_LEN` never becomes negative again).

Every clause but two is linear in the shared variables and in the numbers of threads at fixed *sets* of program points; a
step moves one thread, so each such number changes by a constant (`sumW_move`, the constant is read off the set's weight
function), and `omega` discharges every (transition, clause) pair.  The two list clauses (`pend`, `wtl`: the thread-local
`len` of the at most one thread re-allocating / rebuilding) are handled by hand for the four transitions that touch them.
-/
namespace Soxr.Conc

theorem sumW_move_notin (f w : Pc → Nat) (a b : Pc) :
    ∀ L : List Pc, a ∉ L → b ∉ L → sumW (move f a b) w L = sumW f w L
  | [], _, _ => rfl
  | p :: ps, ha, hb => by
    simp only [List.mem_cons, not_or] at ha hb
    have h1 : p ≠ a := fun e => ha.1 e.symm
    have h2 : p ≠ b := fun e => hb.1 e.symm
    simp only [sumW, move, h1, h2, if_false, sumW_move_notin f w a b ps ha.2 hb.2]

theorem sumW_move_a (f w : Pc → Nat) (a b : Pc) (ha : 0 < f a) :
    ∀ L : List Pc, L.Nodup → a ∈ L → b ∉ L → sumW (move f a b) w L + w a = sumW f w L
  | [], _, h, _ => by cases h
  | p :: ps, hn, hm, hb => by
    have hp : p ∉ ps := (List.nodup_cons.mp hn).1
    simp only [List.mem_cons, not_or] at hb
    have h2 : p ≠ b := fun e => hb.1 e.symm
    by_cases h1 : p = a
    · subst h1
      have := sumW_move_notin f w p b ps hp hb.2
      simp only [sumW, move, if_true, this]
      have : w p * (f p - 1) + w p = w p * f p := by
        rw [← Nat.mul_succ]; congr 1; omega
      omega
    · have hm' : a ∈ ps := by
        rcases List.mem_cons.mp hm with e | e
        · exact absurd e.symm h1
        · exact e
      have ih := sumW_move_a f w a b ha ps (List.nodup_cons.mp hn).2 hm' hb.2
      simp only [sumW, move, h1, h2, if_false]
      omega

theorem sumW_move_b (f w : Pc → Nat) (a b : Pc) :
    ∀ L : List Pc, L.Nodup → a ∉ L → b ∈ L → sumW (move f a b) w L = sumW f w L + w b
  | [], _, _, h => by cases h
  | p :: ps, hn, ha, hm => by
    have hp : p ∉ ps := (List.nodup_cons.mp hn).1
    simp only [List.mem_cons, not_or] at ha
    have h1 : p ≠ a := fun e => ha.1 e.symm
    by_cases h2 : p = b
    · subst h2
      have := sumW_move_notin f w a p ps ha.2 hp
      simp only [sumW, move, h1, if_false, if_true, this, Nat.mul_add, Nat.mul_one]
      omega
    · have hm' : b ∈ ps := by
        rcases List.mem_cons.mp hm with e | e
        · exact absurd e.symm h2
        · exact e
      have ih := sumW_move_b f w a b ps (List.nodup_cons.mp hn).2 ha.2 hm'
      simp only [sumW, move, h1, h2, if_false]
      omega

/-- moving a thread from `a` to `b ≠ a` changes a weighted thread number by `w b - w a` -/
theorem sumW_move (f w : Pc → Nat) (a b : Pc) (hab : a ≠ b) (ha : 0 < f a) :
    ∀ L : List Pc, L.Nodup → a ∈ L → b ∈ L → sumW (move f a b) w L + w a = sumW f w L + w b
  | [], _, h, _ => by cases h
  | p :: ps, hn, hma, hmb => by
    have hp : p ∉ ps := (List.nodup_cons.mp hn).1
    have hn' := (List.nodup_cons.mp hn).2
    by_cases h1 : p = a
    · subst h1
      have hb' : b ∈ ps := by
        rcases List.mem_cons.mp hmb with e | e
        · exact absurd e.symm hab
        · exact e
      have := sumW_move_b f w p b ps hn' hp hb'
      simp only [sumW, move, if_true, this]
      have : w p * (f p - 1) + w p = w p * f p := by
        rw [← Nat.mul_succ]; congr 1; omega
      omega
    · have ha' : a ∈ ps := by
        rcases List.mem_cons.mp hma with e | e
        · exact absurd e.symm h1
        · exact e
      by_cases h2 : p = b
      · subst h2
        have := sumW_move_a f w a p ha ps hn' ha' hp
        simp only [sumW, move, h1, if_false, if_true, Nat.mul_add, Nat.mul_one]
        omega
      · have hb' : b ∈ ps := by
          rcases List.mem_cons.mp hmb with e | e
          · exact absurd e.symm h2
          · exact e
        have ih := sumW_move f w a b hab ha ps hn' ha' hb'
        simp only [sumW, move, h1, h2, if_false]
        omega

theorem allS_nodup : allS.Nodup := by decide
theorem mem_allS (p : Pc) : p ∈ allS := by cases p <;> decide

/-- the form used below -/
theorem num_move (s : St) (w : Pc → Nat) (a b : Pc) (hab : a ≠ b) (ha : 0 < s.cnt a) :
    sumW (move s.cnt a b) w allS + w a = s.num w + w b :=
  sumW_move s.cnt w a b hab ha allS allS_nodup (mem_allS a) (mem_allS b)

/-! Sets of program points used by the invariant. -/
/-- holding `mutex_1` -/
def m1W : Pc → Nat
  | .r4 | .r5 | .r6 | .e4 | .e5 | .e6 | .x2 | .x3 | .x4 | .u2 | .u3 | .u4 => 1
  | _ => 0
/-- between `++readcount` and `--readcount` -/
def rcW : Pc → Nat
  | .r5 | .r6 | .r7 | .r8 | .c0 | .rd | .ru | .x1 | .x2 | .u1 | .u2 | .e5 | .e6 | .e7 | .e8 | .c2 => 1
  | _ => 0
/-- first reader waiting for `w` -/
def r5W : Pc → Nat
  | .r5 | .e5 => 1
  | _ => 0
/-- last reader about to release `w` -/
def x3W : Pc → Nat
  | .x3 | .u3 => 1
  | _ => 0
/-- anywhere past the initialiser -/
def busyW : Pc → Nat
  | .idle | .i0 | .i1 | .i2 | .i3 | .i4 | .i5 | .i6 => 0
  | _ => 1
/-- points only reached after a test `len <= FFT_LEN` succeeded (with a positive `len`) -/
def posW : Pc → Nat
  | .rd | .ru | .c2 | .d1 | .d2 | .d3 | .d4 | .d5 | .e1 | .e2 | .e3 | .e4 | .e5 | .e6 | .e7 | .e8 | .x1 | .x2 | .x3 | .x4 => 1
  | _ => 0
/-- holding `mutex_1`, about to change `readcount` -/
def r4W : Pc → Nat
  | .r4 | .e4 | .x2 | .u2 => 1
  | _ => 0
def b0W : Pc → Nat
  | .b0 => 1
  | _ => 0
def wtW : Pc → Nat
  | .wt | .wu => 1
  | _ => 0

/-- the readers/writers protocol: who holds `mutex_1` and `w`, what `readcount` counts -/
structure InvA (s : St) : Prop where
  -- mutex_1 is held exactly by the threads between its P and V
  m1_def : s.m1 = s.num m1W
  m1_le : s.m1 ≤ 1
  -- readcount counts the threads between `++readcount` and `--readcount`
  rc_def : s.readcount = (s.num rcW : Int)
  -- `w` is held by the one writer or by the reader group
  w_def : s.w = s.num writersW + s.gw
  w_le : s.w ≤ 1
  gw_le : s.gw ≤ 1
  gw_on : s.gw = 1 → (0 < s.readcount ∧ s.num r5W = 0) ∨ s.num x3W = 1
  gw_off : s.gw = 0 → (s.readcount = 0 ∨ s.num r5W = 1) ∧ s.num x3W = 0
  r5_rc : 0 < s.num r5W → s.readcount = 1
  x3_rc : 0 < s.num x3W → s.readcount = 0

/-- the initialiser: at most one thread inside; before it completes nobody is anywhere else; afterwards nobody is inside -/
structure InvB (s : St) : Prop where
  init_le : s.num inInitW ≤ 1
  flen_ge : -1 ≤ s.flen
  cold_quiet : s.flen < 0 → s.num busyW = 0 ∧ s.m1 = 0 ∧ s.w = 0 ∧ s.gw = 0 ∧ s.readcount = 0 ∧ s.tab = 0 ∧
    s.nReset = 0 ∧ s.nStore = 0 ∧ s.nInit = s.num inInitW
  warm_done : 0 ≤ s.flen → s.num inInitW = 0 ∧ s.nInit = 1 ∧ s.nReset = 1

/-- the tables -/
structure InvC (s : St) : Prop where
  pend_len : s.pend.length = s.num b0W
  wtl_len : s.wtl.length = s.num wtW
  tab_ge : 0 ≤ s.tab
  tab_le : 0 ≤ s.flen → s.tab ≤ s.flen
  tab_eq : s.num wtW = 0 → 0 ≤ s.flen → s.tab = s.flen
  store_le : 0 ≤ s.flen → (s.nStore : Int) ≤ s.flen
  flen_pos : 0 < s.num posW → 0 < s.flen

/-- the thread-local `len` of the thread that is re-allocating (`b0`) / rebuilding (`wt`) -/
structure InvD (s : St) : Prop where
  pend_gt : ∀ x ∈ s.pend, s.flen < x.1
  wtl_eq : ∀ x ∈ s.wtl, x = s.flen
  /-- the thread-local `old_n == 0` is still true of `FFT_LEN` when the store happens (nobody else writes meanwhile) -/
  pend_z : ∀ x ∈ s.pend, x.2 = true → s.flen = 0

structure Inv (s : St) : Prop where
  a : InvA s
  b : InvB s
  c : InvC s
  d : InvD s

/-- with all threads outside, every set that excludes `idle` is empty -/
theorem sumW_idle (n : Nat) (w : Pc → Nat) (h : w .idle = 0) : sumW (fun p => if p = .idle then n else 0) w allS = 0 := by
  simp [sumW, allS, h]

/-- nothing has happened yet apart from (part of) one initialisation -/
structure Quiet (s : St) : Prop where
  busy : s.num busyW = 0
  m1 : s.m1 = 0
  w : s.w = 0
  gw : s.gw = 0
  rc : s.readcount = 0
  tab : s.tab = 0
  nStore : s.nStore = 0
  pend : s.pend = []
  wtl : s.wtl = []
  init_le : s.num inInitW ≤ 1
  phase : (s.flen = -1 ∧ s.nReset = 0 ∧ s.nInit = s.num inInitW) ∨ (s.flen = 0 ∧ s.num inInitW = 0 ∧ s.nInit = 1 ∧ s.nReset = 1)

/-- static inclusions between the sets, as inequalities between the thread numbers -/
structure Incl (s : St) : Prop where
  b0_wt : s.num b0W + s.num wtW ≤ s.num writersW
  m1_busy : s.num m1W ≤ s.num busyW
  rc_busy : s.num rcW ≤ s.num busyW
  wr_busy : s.num writersW ≤ s.num busyW
  pos_busy : s.num posW ≤ s.num busyW
  r5_rc : s.num r5W ≤ s.num rcW
  r5_m1 : s.num r5W + s.num x3W + s.num r4W ≤ s.num m1W
  rd_rc : s.num readersW + s.num r5W = s.num rcW
  rb_wr : s.num rebuildingW = s.num b0W + s.num wtW
  rd_rd : s.num readingW ≤ s.num readersW
  rd_pos : s.num readingW ≤ s.num posW

theorem incl (s : St) : Incl s := by
  constructor <;>
    simp only [St.num, sumW, allS, m1W, rcW, writersW, r5W, x3W, r4W, busyW, posW, b0W, wtW, readersW, rebuildingW, readingW,
      Nat.zero_mul, Nat.one_mul, Nat.zero_add, Nat.add_zero] <;> omega

/-- a thread at a point of a set is counted in the set -/
theorem sumW_ge (f w : Pc → Nat) (a : Pc) (ha : 0 < f a) : ∀ L : List Pc, a ∈ L → w a ≤ sumW f w L
  | [], h => by cases h
  | p :: ps, h => by
    by_cases h1 : p = a
    · subst h1
      simp only [sumW]
      have : w p * 1 ≤ w p * f p := Nat.mul_le_mul_left _ ha
      omega
    · have : a ∈ ps := by
        rcases List.mem_cons.mp h with e | e
        · exact absurd e.symm h1
        · exact e
      have := sumW_ge f w a ha ps this
      simp only [sumW]; omega

theorem num_ge (s : St) (w : Pc → Nat) (a : Pc) (ha : 0 < s.cnt a) : w a ≤ s.num w :=
  sumW_ge s.cnt w a ha allS (mem_allS a)

theorem inv_of_quiet {s : St} (q : Quiet s) : Inv s := by
  obtain ⟨q1, q2, q3, q4, q5, q6, q7, q8, q9, q10, q11⟩ := q
  obtain ⟨j1, j2, j3, j4, j5, j6, j7, j8, j9, j10, j11⟩ := incl s
  refine ⟨?_, ?_, ?_, ?_⟩
  · constructor <;> omega
  · constructor <;> omega
  · constructor <;> (try simp only [q8, q9, List.length_nil]) <;> omega
  · constructor <;> simp [q8, q9]

theorem quiet_zero (s : St) (n : Nat) (hc : s.cnt = fun p => if p = .idle then n else 0)
    (h : s.m1 = 0 ∧ s.w = 0 ∧ s.gw = 0 ∧ s.readcount = 0 ∧ s.tab = 0 ∧ s.pend = [] ∧ s.wtl = [] ∧ s.nStore = 0)
    (hf : (s.flen = -1 ∧ s.nInit = 0 ∧ s.nReset = 0) ∨ (s.flen = 0 ∧ s.nInit = 1 ∧ s.nReset = 1)) : Quiet s := by
  obtain ⟨e1, e2, e3, e4, e5, e6, e7, e8⟩ := h
  have z (w : Pc → Nat) (h : w .idle = 0) : s.num w = 0 := by simp only [St.num, hc]; exact sumW_idle n w h
  have z6 := z inInitW rfl; have z7 := z busyW rfl
  exact ⟨z7, e1, e2, e3, e4, e5, e8, e6, e7, by omega, by omega⟩

theorem inv_warm (n : Nat) : Inv (warm n) :=
  inv_of_quiet (quiet_zero _ n rfl (by simp [warm, zero]) (Or.inr (by simp [warm, zero])))

theorem inv_cold (n : Nat) : Inv (cold n) :=
  inv_of_quiet (quiet_zero _ n rfl (by simp [cold, zero]) (Or.inl (by simp [cold, zero])))

theorem quiet_of_cold {s : St} (h : Inv s) (hf : s.flen < 0) : Quiet s := by
  obtain ⟨_, ⟨b1, b2, b3, b4⟩, ⟨c1, c2, _, _, _, _, _⟩, _⟩ := h
  obtain ⟨j1, j2, j3, j4, j5, j6, j7, j8, j9, j10, j11⟩ := incl s
  obtain ⟨e1, e2, e3, e4, e5, e6, e7, e8, e9⟩ := b3 hf
  have hp : s.pend = [] := List.eq_nil_of_length_eq_zero (by omega)
  have hw : s.wtl = [] := List.eq_nil_of_length_eq_zero (by omega)
  exact ⟨e1, e2, e3, e4, e5, e6, e8, hp, hw, b1, by omega⟩

end Soxr.Conc
