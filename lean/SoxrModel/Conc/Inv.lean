import SoxrModel.Conc.Model
/-!
# The inductive invariant of the FFT-cache model

`Inv` holds in `warm n` (initialisation done, `n` threads outside) and in `cold n` (process start), and is preserved by every
step of every thread **provided** a thread enters the unguarded initialiser only while no other thread is inside it
(`StepS`; from `warm n` that proviso is vacuous because `FFT_LEN` never becomes negative again).

Every clause but two is linear in the shared variables and in the numbers of threads at fixed *sets* of program points; a
step moves one thread, so each such number changes by a constant that `decide` computes (`sumL_move`), and `omega`
discharges every (transition, clause) pair.  The two list clauses (`pend`, `wtl`: the thread-local `len` of the at most one
thread re-allocating / rebuilding) are handled by hand for the four transitions that touch them.
-/
namespace Soxr.Conc

def ind (p : Pc) (L : List Pc) : Nat := if p ∈ L then 1 else 0

theorem sumL_move (f : Pc → Nat) (a b : Pc) (hab : a ≠ b) (ha : 0 < f a) :
    ∀ L : List Pc, L.Nodup → sumL (move f a b) L + ind a L = sumL f L + ind b L
  | [], _ => by simp [sumL, ind]
  | p :: ps, hn => by
    have hp : p ∉ ps := (List.nodup_cons.mp hn).1
    have ih := sumL_move f a b hab ha ps (List.nodup_cons.mp hn).2
    by_cases h1 : p = a
    · subst h1
      have : ind p ps = 0 := by simp [ind, hp]
      have hb : ind b (p :: ps) = ind b ps := by
        simp only [ind, List.mem_cons]
        have : b ≠ p := fun h => hab h.symm
        simp [this]
      have ha' : ind p (p :: ps) = 1 := by simp [ind]
      simp only [sumL, move, if_true, hb, ha']
      omega
    · by_cases h2 : p = b
      · subst h2
        have : ind p ps = 0 := by simp [ind, hp]
        have hb : ind a (p :: ps) = ind a ps := by
          simp only [ind, List.mem_cons]
          simp [hab]
        have hb' : ind p (p :: ps) = 1 := by simp [ind]
        simp only [sumL, move, h1, if_false, if_true, hb, hb']
        omega
      · have e1 : ind a (p :: ps) = ind a ps := by
          simp only [ind, List.mem_cons]
          have : a ≠ p := fun h => h1 h.symm
          simp [this]
        have e2 : ind b (p :: ps) = ind b ps := by
          simp only [ind, List.mem_cons]
          have : b ≠ p := fun h => h2 h.symm
          simp [this]
        simp only [sumL, move, h1, h2, if_false, e1, e2]
        omega

/-! Sets of program points used by the invariant. -/
/-- holding `mutex_1` -/
def m1S : List Pc := [.r4, .r5, .r6, .e4, .e5, .e6, .x2, .x3, .x4, .u2, .u3, .u4]
/-- between `++readcount` and `--readcount` -/
def rcS : List Pc := [.r5, .r6, .r7, .r8, .c0, .rd, .x1, .x2, .u1, .u2, .e5, .e6, .e7, .e8, .c2]
/-- first reader waiting for `w` -/
def r5S : List Pc := [.r5, .e5]
/-- last reader about to release `w` -/
def x3S : List Pc := [.x3, .u3]
/-- anywhere past the initialiser -/
def busyS : List Pc :=
  [.r1, .r2, .r3, .r4, .r5, .r6, .r7, .r8, .c0, .rd, .x1, .x2, .x3, .x4, .u1, .u2, .u3, .u4, .w1, .w2, .w3, .w4, .w5,
   .c1, .b0, .wt, .y1, .y2, .y3, .y4, .y5, .d1, .d2, .d3, .d4, .d5, .e1, .e2, .e3, .e4, .e5, .e6, .e7, .e8, .c2]
/-- points only reached after a test `len <= FFT_LEN` succeeded with a positive `len` -/
def posS : List Pc :=
  [.rd, .c2, .d1, .d2, .d3, .d4, .d5, .e1, .e2, .e3, .e4, .e5, .e6, .e7, .e8, .x1, .x2, .x3, .x4]

/-- the linear clauses -/
structure InvL (s : St) : Prop where
  -- mutex_1 is held exactly by the threads between its P and V
  m1_def : s.m1 = s.num m1S
  m1_le : s.m1 ≤ 1
  -- readcount counts the threads between `++readcount` and `--readcount`
  rc_def : s.readcount = (s.num rcS : Int)
  -- `w` is held by the one writer or by the reader group
  w_def : s.w = s.num writersS + s.gw
  w_le : s.w ≤ 1
  gw_le : s.gw ≤ 1
  gw_on : s.gw = 1 → (0 < s.readcount ∧ s.num r5S = 0) ∨ s.num x3S = 1
  gw_off : s.gw = 0 → (s.readcount = 0 ∨ s.num r5S = 1) ∧ s.num x3S = 0
  r5_rc : 0 < s.num r5S → s.readcount = 1
  x3_rc : 0 < s.num x3S → s.readcount = 0
  -- the initialiser: at most one thread inside; before it completes nobody is anywhere else; afterwards nobody is inside
  init_le : s.num inInitS ≤ 1
  flen_ge : -1 ≤ s.flen
  cold_quiet : s.flen < 0 → s.num busyS = 0 ∧ s.m1 = 0 ∧ s.w = 0 ∧ s.gw = 0 ∧ s.readcount = 0 ∧ s.tab = 0 ∧
    s.nReset = 0 ∧ s.nStore = 0 ∧ s.nInit = s.num inInitS
  warm_done : 0 ≤ s.flen → s.num inInitS = 0 ∧ s.nInit = 1 ∧ s.nReset = 1
  -- the tables
  pend_len : s.pend.length = s.num [.b0]
  wtl_len : s.wtl.length = s.num [.wt]
  tab_ge : 0 ≤ s.tab
  tab_le : 0 ≤ s.flen → s.tab ≤ s.flen
  tab_eq : s.num [.wt] = 0 → 0 ≤ s.flen → s.tab = s.flen
  store_le : 0 ≤ s.flen → (s.nStore : Int) ≤ s.flen
  flen_pos : 0 < s.num posS → 0 < s.flen

/-- the two clauses about the thread-local `len` of the thread that is re-allocating (`b0`) / rebuilding (`wt`) -/
structure InvD (s : St) : Prop where
  pend_gt : ∀ x ∈ s.pend, s.flen < x
  wtl_eq : ∀ x ∈ s.wtl, x = s.flen

structure Inv (s : St) : Prop where
  lin : InvL s
  dat : InvD s

theorem sumL_zero (n : Nat) (L : List Pc) (h : Pc.idle ∉ L) : sumL (fun p => if p = .idle then n else 0) L = 0 := by
  induction L with
  | nil => rfl
  | cons p ps ih =>
    simp only [List.mem_cons, not_or] at h
    have : p ≠ .idle := fun e => h.1 e.symm
    simp [sumL, this, ih h.2]

theorem inv_warm (n : Nat) : Inv (warm n) := by
  refine ⟨?_, ?_⟩
  · constructor <;> simp [warm, zero, St.num, sumL_zero, m1S, rcS, writersS, r5S, x3S, inInitS, busyS, posS]
  · constructor <;> simp [warm, zero]

theorem inv_cold (n : Nat) : Inv (cold n) := by
  refine ⟨?_, ?_⟩
  · constructor <;> simp [cold, zero, St.num, sumL_zero, m1S, rcS, writersS, r5S, x3S, inInitS, busyS, posS]
  · constructor <;> simp [cold, zero]

/-- static inclusions between the sets, as inequalities between the thread numbers -/
structure Incl (s : St) : Prop where
  b0_wt : s.num [.b0] + s.num [.wt] ≤ s.num writersS
  m1_busy : s.num m1S ≤ s.num busyS
  rc_busy : s.num rcS ≤ s.num busyS
  wr_busy : s.num writersS ≤ s.num busyS
  pos_busy : s.num posS ≤ s.num busyS
  r5_rc : s.num r5S ≤ s.num rcS
  r5_m1 : s.num r5S + s.num x3S ≤ s.num m1S
  x3_busy : s.num x3S ≤ s.num busyS

theorem incl (s : St) : Incl s := by
  constructor <;> simp only [St.num, sumL, m1S, rcS, writersS, r5S, x3S, busyS, posS] <;> omega

end Soxr.Conc
