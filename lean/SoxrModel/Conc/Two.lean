import SoxrModel.Conc.Safety
import SoxrModel.Conc.Witness
/-!
# Two caches, and the assumption that their locks are different objects

`filter.c` instantiates `fft4g_cache.h` twice (double tables = cache 0, float tables = cache 1).  `Model.lean` describes ONE
instance, with five lock words, `readcount`, `writecount`, `FFT_LEN` and tables of its own.  That the process is two
independent instances is an assumption about the code (the two `FFT_CACHE_CCRW` name different `ccrw2_t` objects); it is made
explicit here as the shape of `SysStep`, and it is CHECKED on the real code by the scheduler harness (monitor
`LOCK-SHARED-BETWEEN-CACHES`: the lock words each cache's initialiser creates are learned by a probe and must be disjoint).

`foreignInit` is what happens to one cache's lock words when the assumption fails: the OTHER cache's first-use initialiser
(`ccrw2_init` under its own `FFT_LEN < 0` guard) re-creates the shared lock object while this cache's threads hold it.
-/
namespace Soxr.Conc

/-- the state of the process: the double cache and the float cache -/
structure Sys where
  d : St
  f : St

/-- **the assumption, explicit**: a step of a thread with respect to one cache changes no variable of the other cache (the two
    `ccrw2_t`, `FFT_LEN`s and table pairs are different objects) -/
inductive SysStep : Sys → Sys → Prop
  | dbl {s t : St} (f : St) : Step s t → SysStep ⟨s, f⟩ ⟨t, f⟩
  | flt {s t : St} (d : St) : Step s t → SysStep ⟨d, s⟩ ⟨d, t⟩

inductive SysReachable (s0 : Sys) : Sys → Prop
  | init : SysReachable s0 s0
  | step {s t} : SysReachable s0 s → SysStep s t → SysReachable s0 t

/-- under the assumption each cache evolves by its own steps only -/
theorem sys_proj {s0 s : Sys} (h : SysReachable s0 s) : Reachable s0.d s.d ∧ Reachable s0.f s.f := by
  induction h with
  | init => exact ⟨.init, .init⟩
  | step _ st ih =>
    cases st with
    | dbl f st => exact ⟨.step ih.1 st, ih.2⟩
    | flt d st => exact ⟨ih.1, .step ih.2 st⟩

/-- the assumption dropped: the other cache's `ccrw2_init` re-creates (unlocks) this cache's five lock words, whoever holds them -/
def foreignInit (s : St) : St := { s with m1 := 0, m2 := 0, m3 := 0, w := 0, r := 0 }

/-- a thread has grown the cache to 8 and left; a thread is inside a transform as a reader (the reader group holds `w`) -/
def readerInTrace : List Label :=
  writerInTrace ++ [.use_w, .build 8] ++ cwLast ++ [.call, .i0_warm] ++ brFirst ++ [.c0_ok]

/-- a second thread becomes a reader, finds `len = 16 > FFT_LEN`, upgrades, takes `w` and passes the re-test -/
def growUnderReaderTrace : List Label :=
  [.call, .i0_warm, .r1, .r2, .r3, .r4_more, .r6, .r7, .r8, .c0_grow, .u1, .u2_more, .u4, .w1, .w2_first, .w3, .w4, .w5, .c1_pass 16]

set_option maxRecDepth 100000 in
/-- with the lock intact the second thread cannot get past `P(w)`: the trace is not a run of the model -/
theorem grow_blocked_run : ((run readerInTrace (warm 2)).bind (run growUnderReaderTrace)).isNone = true := by decide

set_option maxRecDepth 100000 in
/-- after a foreign initialisation of the lock words it can: it re-allocates the tables under the reader -/
theorem grow_after_foreignInit_run :
    ((run readerInTrace (warm 2)).bind (fun s => run growUnderReaderTrace (foreignInit s))).map obs = some [1, 1, 1, 1, 1, 8, 8] := by decide

end Soxr.Conc
