import SoxrModel.Conc.Inv
/-!
# Every step preserves the invariant

Cold regime (`FFT_LEN < 0`): the state is `Quiet`; only `call`, the cold test and the initialiser's own steps are enabled, and
(under the serial-initialisation proviso) they keep it `Quiet`.  Warm regime (`0 ≤ FFT_LEN`): nobody is inside the
initialiser, and each of the four groups of clauses is preserved using only the clauses it depends on (small `omega`
problems: one per transition and clause).
-/
namespace Soxr.Conc

/-- how the thread numbers of the invariant change when a thread moves from `a` to `b` (`g` is the new count function) -/
structure Moves (s : St) (g : Pc → Nat) (a b : Pc) : Prop where
  k1 : sumW g m1W allS + m1W a = s.num m1W + m1W b
  k2 : sumW g rcW allS + rcW a = s.num rcW + rcW b
  k3 : sumW g writersW allS + writersW a = s.num writersW + writersW b
  k4 : sumW g r5W allS + r5W a = s.num r5W + r5W b
  k5 : sumW g x3W allS + x3W a = s.num x3W + x3W b
  k6 : sumW g inInitW allS + inInitW a = s.num inInitW + inInitW b
  k7 : sumW g busyW allS + busyW a = s.num busyW + busyW b
  k8 : sumW g posW allS + posW a = s.num posW + posW b
  k9 : sumW g b0W allS + b0W a = s.num b0W + b0W b
  k10 : sumW g wtW allS + wtW a = s.num wtW + wtW b
  k11 : sumW g r4W allS + r4W a = s.num r4W + r4W b
  kb : busyW a ≤ s.num busyW
  ki : inInitW a ≤ s.num inInitW

theorem src_ne_dst (l : Label) : l.src ≠ l.dst := by cases l <;> simp [Label.src, Label.dst]

theorem moves (l : Label) (s : St) (g : guard l s) : Moves s (move s.cnt l.src l.dst) l.src l.dst := by
  have hab := src_ne_dst l
  have ha := g.1
  exact ⟨num_move s _ _ _ hab ha, num_move s _ _ _ hab ha, num_move s _ _ _ hab ha, num_move s _ _ _ hab ha,
    num_move s _ _ _ hab ha, num_move s _ _ _ hab ha, num_move s _ _ _ hab ha, num_move s _ _ _ hab ha,
    num_move s _ _ _ hab ha, num_move s _ _ _ hab ha, num_move s _ _ _ hab ha, num_ge s _ _ ha, num_ge s _ _ ha⟩

set_option maxHeartbeats 4000000 in
/-- cold regime, every step but the last one of the initialiser -/
theorem quiet_step (l : Label) (s : St) (q : Quiet s) (hf : s.flen < 0) (g : guard l s)
    (hs : l = .i0_cold → s.num inInitW = 0) (hl : l ≠ .ini6) : Quiet (eff l s) := by
  obtain ⟨q1, q2, q3, q4, q5, q6, q7, q8, q9, q10, q11⟩ := q
  obtain ⟨-, -, -, -, -, k6, k7, -, -, -, -, kb, ki⟩ := moves l s g
  obtain ⟨-, g⟩ := g
  cases l
  case ini6 => exact absurd rfl hl
  case i0_cold =>
    have hq := hs rfl
    simp only [guardX] at g
    simp only [Label.src, Label.dst, inInitW, busyW] at k6 k7 kb ki
    refine ⟨?_, ?_, ?_, ?_, ?_, ?_, ?_, q8, q9, ?_, ?_⟩ <;> simp only [eff, effX, St.num, Label.src, Label.dst] <;>
      (first | omega | exact True.intro)
  all_goals
    simp only [guardX] at g
    simp only [Label.src, Label.dst, inInitW, busyW] at k6 k7 kb ki
    first
    | (exfalso; omega)
    | (refine ⟨?_, ?_, ?_, ?_, ?_, ?_, ?_, q8, q9, ?_, ?_⟩ <;> simp only [eff, effX, St.num, Label.src, Label.dst] <;>
        (first | omega | exact True.intro))

/-- cold regime, the store `FFT_LEN = 0` that ends the initialiser: everything is still zero, one thread is at `r1` -/
theorem ini6_step (s : St) (q : Quiet s) (hf : s.flen < 0) (g : guard .ini6 s) : Inv (eff .ini6 s) := by
  obtain ⟨q1, q2, q3, q4, q5, q6, q7, q8, q9, q10, q11⟩ := q
  obtain ⟨j1, j2, j3, j4, j5, j6, j7, j8, j9, j10, j11⟩ := incl s
  obtain ⟨k1, k2, k3, k4, k5, k6, k7, k8, k9, k10, k11, kb, ki⟩ := moves .ini6 s g
  simp only [Label.src, Label.dst, m1W, rcW, writersW, r5W, x3W, r4W, inInitW, busyW, posW, b0W, wtW] at k1 k2 k3 k4 k5 k6 k7 k8 k9 k10 k11 kb ki
  refine ⟨?_, ?_, ?_, ?_⟩
  · constructor <;> simp only [eff, effX, St.num, Label.src, Label.dst] <;> (first | omega | exact True.intro)
  · constructor <;> simp only [eff, effX, St.num, Label.src, Label.dst] <;> (first | omega | exact True.intro)
  · constructor <;> simp only [eff, effX, St.num, Label.src, Label.dst, q8, q9, List.length_nil] <;> (first | omega | exact True.intro)
  · constructor <;> simp [eff, effX, q8, q9]

set_option maxHeartbeats 4000000 in
/-- warm regime, the readers/writers protocol -/
theorem warmA (l : Label) (s : St) (hA : InvA s) (hI : s.num inInitW = 0) (g : guard l s) : InvA (eff l s) := by
  obtain ⟨h1, h2, h3, h4, h5, h6, h7, h8, h9, h10⟩ := hA
  obtain ⟨-, -, -, -, -, -, j7, -, -, -, -⟩ := incl s
  obtain ⟨k1, k2, k3, k4, k5, -, -, -, -, -, k11, -, ki⟩ := moves l s g
  obtain ⟨-, g⟩ := g
  cases l
  all_goals
    simp only [guardX] at g
    simp only [Label.src, Label.dst, m1W, rcW, writersW, r5W, x3W, r4W, inInitW] at k1 k2 k3 k4 k5 k11 ki
    first
    | (exfalso; omega)
    | (constructor <;> simp only [eff, effX, St.num, Label.src, Label.dst] <;> (first | omega | (intro _; trivial)))

set_option maxHeartbeats 4000000 in
/-- warm regime, the initialiser stays finished (`FFT_LEN` never becomes negative again) -/
theorem warmB (l : Label) (s : St) (hB : InvB s) (hD : InvD s) (hf : 0 ≤ s.flen) (g : guard l s) :
    InvB (eff l s) ∧ 0 ≤ (eff l s).flen := by
  obtain ⟨b1, b2, -, b4⟩ := hB
  obtain ⟨b4, b5, b6⟩ := b4 hf
  obtain ⟨d1, -, -⟩ := hD
  obtain ⟨-, -, -, -, -, k6, -, -, -, -, -, -, ki⟩ := moves l s g
  obtain ⟨-, g⟩ := g
  cases l
  case store len z =>
    simp only [guardX] at g
    have hlt : s.flen < len := d1 (len, z) g
    simp only [Label.src, Label.dst, inInitW] at k6 ki
    refine ⟨?_, ?_⟩
    · constructor <;> simp only [eff, effX, St.num, Label.src, Label.dst] <;> omega
    · simp only [eff, effX]; omega
  all_goals
    simp only [guardX] at g
    simp only [Label.src, Label.dst, inInitW] at k6 ki
    first
    | (exfalso; omega)
    | (refine ⟨?_, ?_⟩
       · constructor <;> simp only [eff, effX, St.num, Label.src, Label.dst] <;> omega
       · simp only [eff, effX]; omega)

private theorem length_le_one_erase {α : Type} [BEq α] [LawfulBEq α] {a : α} : ∀ {l : List α}, l.length ≤ 1 → a ∈ l → l.erase a = []
  | [], _, h => by simp at h
  | [b], _, h => by
    have : a = b := by simpa using h
    subst this; simp
  | _ :: _ :: _, h, _ => by simp at h

set_option maxHeartbeats 4000000 in
/-- warm regime, the tables -/
theorem warmC (l : Label) (s : St) (hA : InvA s) (hC : InvC s) (hD : InvD s) (hI : s.num inInitW = 0) (hf : 0 ≤ s.flen)
    (g : guard l s) : InvC (eff l s) := by
  obtain ⟨-, -, -, a4, a5, -, -, -, -, -⟩ := hA
  obtain ⟨c1, c2, c3, c4, c5, c6, c7⟩ := hC
  obtain ⟨d1, d2, -⟩ := hD
  obtain ⟨j1, -, -, -, -, -, -, -, -, -, -⟩ := incl s
  obtain ⟨-, -, k3, -, -, -, -, k8, k9, k10, -, -, ki⟩ := moves l s g
  obtain ⟨-, g⟩ := g
  cases l
  case c1_pass len =>
    simp only [guardX] at g
    simp only [Label.src, Label.dst, writersW, posW, b0W, wtW, inInitW] at k3 k8 k9 k10 ki
    constructor <;> simp only [eff, effX, St.num, Label.src, Label.dst, List.length_cons] <;> omega
  case store len z =>
    simp only [guardX] at g
    have hlt : s.flen < len := d1 (len, z) g
    have he := List.length_erase_of_mem g
    simp only [Label.src, Label.dst, writersW, posW, b0W, wtW, inInitW] at k3 k8 k9 k10 ki
    constructor <;> simp only [eff, effX, St.num, Label.src, Label.dst, List.length_cons, he] <;> (try split) <;> omega
  case build len =>
    simp only [guardX] at g
    have hlt := d2 len g
    have he := List.length_erase_of_mem g
    simp only [Label.src, Label.dst, writersW, posW, b0W, wtW, inInitW] at k3 k8 k9 k10 ki
    constructor <;> simp only [eff, effX, St.num, Label.src, Label.dst, he] <;> (try split) <;> omega
  all_goals
    simp only [guardX] at g
    simp only [Label.src, Label.dst, writersW, posW, b0W, wtW, inInitW] at k3 k8 k9 k10 ki
    first
    | (exfalso; omega)
    | (constructor <;> simp only [eff, effX, St.num, Label.src, Label.dst] <;> omega)

/-- warm regime, the thread-local `len` of the re-allocating / rebuilding thread -/
theorem warmD (l : Label) (s : St) (hA : InvA s) (hC : InvC s) (hD : InvD s) (hI : s.num inInitW = 0) (g : guard l s) :
    InvD (eff l s) := by
  obtain ⟨d1, d2, d3⟩ := hD
  have j1 := (incl s).b0_wt
  have a4 := hA.w_def; have a5 := hA.w_le
  have c1 := hC.pend_len; have c2 := hC.wtl_len
  have ki := (moves l s g).ki
  have k9 := (moves l s g).k9
  obtain ⟨-, g⟩ := g
  cases l
  case c1_pass len =>
    simp only [guardX] at g
    refine ⟨?_, d2, ?_⟩
    · intro x hx
      simp only [eff, effX, List.mem_cons] at hx ⊢
      rcases hx with rfl | hx
      · exact g
      · exact d1 x hx
    · intro x hx hz
      simp only [eff, effX, List.mem_cons] at hx ⊢
      rcases hx with rfl | hx
      · simpa using hz
      · exact d3 x hx hz
  case store len z =>
    simp only [guardX] at g
    simp only [Label.src, Label.dst, b0W] at k9
    have hb : s.pend.length ≤ 1 := by omega
    have hw : s.wtl = [] := List.eq_nil_of_length_eq_zero (by omega)
    refine ⟨?_, ?_, ?_⟩
    · intro x hx
      simp only [eff, effX, length_le_one_erase hb g] at hx
      cases hx
    · intro x hx
      simp only [eff, effX, hw, List.mem_cons, List.not_mem_nil, or_false] at hx ⊢
      exact hx
    · intro x hx
      simp only [eff, effX, length_le_one_erase hb g] at hx
      cases hx
  case build len =>
    simp only [guardX] at g
    refine ⟨d1, ?_, d3⟩
    intro x hx
    simp only [eff, effX] at hx ⊢
    exact d2 x (List.mem_of_mem_erase hx)
  case ini6 =>
    simp only [Label.src, inInitW] at ki
    exfalso; omega
  all_goals exact ⟨d1, d2, d3⟩

/-- **every step that respects the serial-initialisation proviso preserves the invariant** -/
theorem inv_step (l : Label) (s : St) (h : Inv s) (g : guard l s) (hs : l = .i0_cold → s.inInit = 0) : Inv (eff l s) := by
  by_cases hf : s.flen < 0
  · have q := quiet_of_cold h hf
    by_cases hl : l = .ini6
    · subst hl; exact ini6_step s q hf g
    · exact inv_of_quiet (quiet_step l s q hf g hs hl)
  · have hf' : 0 ≤ s.flen := by omega
    have hI := (h.b.warm_done hf').1
    exact ⟨warmA l s h.a hI g, (warmB l s h.b h.d hf' g).1, warmC l s h.a h.c h.d hI hf' g, warmD l s h.a h.c h.d hI g⟩

theorem fire_some {l : Label} {s t : St} (h : fire l s = some t) : guard l s ∧ t = eff l s := by
  unfold fire at h
  split at h
  · exact ⟨‹_›, by injection h with h; exact h.symm⟩
  · cases h

theorem inv_stepS {s t : St} (h : Inv s) (st : StepS s t) : Inv t := by
  obtain ⟨l, hf, hs⟩ := st
  obtain ⟨g, rfl⟩ := fire_some hf
  exact inv_step l s h g hs

/-- the invariant holds in every state reachable from process start under the serial-initialisation hypothesis -/
theorem inv_of_reachableS_cold {n : Nat} {s : St} (h : ReachableS (cold n) s) : Inv s := by
  induction h with
  | init => exact inv_cold n
  | step _ st ih => exact inv_stepS ih st

/-- from `warm n` every step is a serial-initialisation step: `FFT_LEN` stays non-negative, so the cold test cannot be
    passed -/
theorem inv_of_reachable_warm {n : Nat} {s : St} (h : Reachable (warm n) s) : Inv s ∧ 0 ≤ s.flen := by
  induction h with
  | init => exact ⟨inv_warm n, by simp [warm, zero]⟩
  | @step s t _ st ih =>
    obtain ⟨l, hf⟩ := st
    obtain ⟨g, rfl⟩ := fire_some hf
    have hs : l = .i0_cold → s.inInit = 0 := by
      rintro rfl
      have := g.2
      simp only [guardX] at this
      omega
    exact ⟨inv_step l s ih.1 g hs, (warmB l s ih.1.b ih.1.d ih.2 g).2⟩

theorem reachableS_of_reachable_warm {n : Nat} {s : St} (h : Reachable (warm n) s) : ReachableS (warm n) s := by
  induction h with
  | init => exact .init
  | @step s t hr st ih =>
    obtain ⟨l, hf⟩ := st
    refine .step ih ⟨l, hf, ?_⟩
    rintro rfl
    obtain ⟨g, _⟩ := fire_some hf
    have := (inv_of_reachable_warm hr).2
    have := g.2
    simp only [guardX] at this
    omega

end Soxr.Conc
