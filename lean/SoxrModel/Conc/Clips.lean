/-!
# The shared clip counter of `soxr.c` under the `#pragma omp parallel for` regions

In `soxr_output_1ch` every channel executes `p->clips += n_i` on the one counter of the resampler (`n_i` = number of samples
of channel `i` that clipped in this call).  Inside `#pragma omp parallel for` these read-modify-writes run on different
threads.  Each channel's addition is one action of some thread; threads are anonymous, the interleaving is arbitrary, the
number of channels (hence of threads) is arbitrary.

* `A…` — the addition as ONE atomic step: the code as it is since the fix of F8 (`#pragma omp atomic` on `p->clips += clips`): the total is exact, under every interleaving.
* `N…` — the addition as it was written before that fix, a load followed by a store: updates can be lost; the total never exceeds the exact sum.
-/
namespace Soxr.Conc.Clips

theorem sum_erase {c : Nat} : ∀ {l : List Nat}, c ∈ l → (l.erase c).sum + c = l.sum
  | [], h => by cases h
  | a :: l, h => by
    by_cases e : a = c
    · subst e; simp [Nat.add_comm]
    · have hm : c ∈ l := by
        rcases List.mem_cons.mp h with h | h
        · exact absurd h.symm e
        · exact h
      have ih := sum_erase hm
      have : (a :: l).erase c = a :: l.erase c := by
        rw [List.erase_cons]; simp [e]
      rw [this, List.sum_cons, List.sum_cons]; omega

/-! ## atomic read-modify-write -/
structure ASt where
  total : Nat
  /-- per-channel counts not yet added -/
  todo : List Nat
  deriving DecidableEq, Repr

inductive AStep : ASt → ASt → Prop
  | add (s : ASt) (c : Nat) (h : c ∈ s.todo) : AStep s { total := s.total + c, todo := s.todo.erase c }

inductive AReach (s0 : ASt) : ASt → Prop
  | init : AReach s0 s0
  | step {s t} : AReach s0 s → AStep s t → AReach s0 t

theorem atomic_inv {s0 s : ASt} (h : AReach s0 s) : s.total + s.todo.sum = s0.total + s0.todo.sum := by
  induction h with
  | init => rfl
  | step _ st ih =>
    cases st with
    | add c hc =>
      have := sum_erase hc
      simp only at *
      omega

/-- executing the additions in list order (the sequential loop, or any one schedule) -/
def arun : List Nat → ASt → ASt
  | [], s => s
  | c :: cs, s => arun cs { total := s.total + c, todo := s.todo.erase c }

/-! ## the former non-atomic read-modify-write (before the fix of F8) -/
structure NSt where
  total : Nat
  todo : List Nat
  /-- channels between their load and their store: (value loaded, own count) -/
  loaded : List (Nat × Nat)
  deriving DecidableEq, Repr

inductive NStep : NSt → NSt → Prop
  | load (s : NSt) (c : Nat) (h : c ∈ s.todo) :
      NStep s { s with todo := s.todo.erase c, loaded := (s.total, c) :: s.loaded }
  | store (s : NSt) (v c : Nat) (h : (v, c) ∈ s.loaded) :
      NStep s { s with total := v + c, loaded := s.loaded.erase (v, c) }

inductive NReach (s0 : NSt) : NSt → Prop
  | init : NReach s0 s0
  | step {s t} : NReach s0 s → NStep s t → NReach s0 t

def ninit (t0 : Nat) (cs : List Nat) : NSt := { total := t0, todo := cs, loaded := [] }

theorem sum_snd_erase {p : Nat × Nat} : ∀ {l : List (Nat × Nat)}, p ∈ l → ((l.erase p).map Prod.snd).sum + p.2 = (l.map Prod.snd).sum
  | [], h => by cases h
  | a :: l, h => by
    by_cases e : a = p
    · subst e; simp [Nat.add_comm]
    · have hm : p ∈ l := by
        rcases List.mem_cons.mp h with h | h
        · exact absurd h.symm e
        · exact h
      have ih := sum_snd_erase hm
      have : (a :: l).erase p = a :: l.erase p := by
        rw [List.erase_cons]; simp [e]
      rw [this, List.map_cons, List.map_cons, List.sum_cons, List.sum_cons]; omega

/-- with `D` = sum of the counts already stored: nothing read or written ever exceeds `t0 + D` -/
theorem nonatomic_inv {t0 : Nat} {cs : List Nat} {s : NSt} (h : NReach (ninit t0 cs) s) :
    ∃ D, s.total ≤ t0 + D ∧ (∀ p ∈ s.loaded, p.1 ≤ t0 + D) ∧ D + (s.loaded.map Prod.snd).sum + s.todo.sum = cs.sum := by
  induction h with
  | init => exact ⟨0, by simp [ninit], by simp [ninit], by simp [ninit]⟩
  | step _ st ih =>
    obtain ⟨D, h1, h2, h3⟩ := ih
    cases st with
    | load c hc =>
      refine ⟨D, h1, ?_, ?_⟩
      · intro p hp
        rcases List.mem_cons.mp hp with rfl | hp
        · exact h1
        · exact h2 p hp
      · have := sum_erase hc
        simp only [List.map_cons, List.sum_cons] at *
        omega
    | store v c hm =>
      refine ⟨D + c, ?_, ?_, ?_⟩
      · have := h2 (v, c) hm
        simp only at *; omega
      · intro p hp
        have := h2 p (List.mem_of_mem_erase hp)
        omega
      · have := sum_snd_erase hm
        simp only at *
        omega

end Soxr.Conc.Clips
