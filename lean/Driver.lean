import SoxrModel.Cr.Driver
/-! `soxrmodel <area>`: line-protocol drivers of the executable models (one op per line in, one line out). -/
def main (args : List String) : IO UInt32 := do
  match args with
  | ["cr"] => Soxr.Cr.Driver.main; return 0
  | _ => IO.eprintln "usage: soxrmodel cr"; return 2
