"""Shared machinery of every /verif check.

Pipeline of a check (see DESIGN.md §2.4):
  regenerate Generated.lean from /repo  ->  lake build of the property's modules  ->  axiom / sorry audit
  ->  build the C harness from /repo's working tree  ->  corpus  ->  correspondence  ->  falsifier
  ->  evidence file, KNOWN-FINDING / VIOLATION lines, exit status.

Nothing here keeps state under /tmp between runs; every build directory lives under /verif/build and is keyed by
a hash of the sources it was made from.
"""
import fcntl, hashlib, json, os, random, re, shutil, subprocess, sys, time, glob
from concurrent.futures import ThreadPoolExecutor

VERIF = os.path.dirname(os.path.dirname(os.path.abspath(__file__)))
REPO = os.environ.get("VERIF_REPO", "/repo")
SRC = os.path.join(REPO, "src")
BUILD = os.path.join(VERIF, "build")
LEAN = os.path.join(VERIF, "lean")
HARNESS = os.path.join(VERIF, "harness")
NCPU = os.cpu_count() or 4
GUARD = "SOXR_VERIF"
# evidence/ and replays/ normally live in /verif; mutation runs (bin/seedtest) redirect them so that nothing they write is
# mistaken for evidence about /repo
OUTDIR = os.environ.get("VERIF_OUT", VERIF)
REPO_TAG = hashlib.sha256(os.path.realpath(REPO).encode()).hexdigest()[:6]

# The configuration the repository's own build uses here (soxr-config.h as cmake writes it for this image).
CONFIG = dict(AVCODEC_FOUND=0, AVUTIL_FOUND=0, WITH_PFFFT=1, HAVE_FENV_H=1, HAVE_STDBOOL_H=1, HAVE_STDINT_H=1,
              HAVE_LRINT=1, HAVE_BIGENDIAN=0, WITH_CR32=1, WITH_CR32S=1, WITH_CR64=1, WITH_CR64S=1, WITH_VR32=1,
              WITH_HI_PREC_CLOCK=1, WITH_FLOAT_STD_PREC_CLOCK=0, WITH_DEV_TRACE=1)

LIB_SOURCES = ["soxr", "data-io", "dbesi0", "filter", "fft4g64", "cr", "cr32", "fft4g32", "cr64", "vr32", "soxr-lsr"]
LIB_SOURCES_SSE = ["cr32s", "pffft32s", "util32s"]
LIB_SOURCES_AVX = ["cr64s", "pffft64s", "util64s"]

VARIANTS = {
    # as shipped (cmake Release flags of this image: -O2 -g -DNDEBUG), hooks on
    "rel": "-O2 -g -DNDEBUG",
    # sanitizers, asserts on
    "san": "-O1 -g -fsanitize=address,undefined -fno-sanitize-recover=all -fno-omit-frame-pointer",
    # asserts on, no sanitizer (fast, for count/trace harnesses)
    "dbg": "-O2 -g",
    # thread sanitizer
    "tsan": "-O1 -g -fsanitize=thread",
}


def sh(cmd, **kw):
    return subprocess.run(cmd, shell=isinstance(cmd, str), stdout=subprocess.PIPE, stderr=subprocess.STDOUT,
                          universal_newlines=True, **kw)


def file_hash(paths, extra=""):
    h = hashlib.sha256(extra.encode())
    for p in sorted(paths):
        h.update(p.encode())
        with open(p, "rb") as f:
            h.update(f.read())
    return h.hexdigest()[:16]


def src_files():
    fs = glob.glob(os.path.join(SRC, "*.[ch]"))
    fs.append(os.path.join(REPO, "soxr-config.h.in"))
    return [f for f in fs if os.path.exists(f)]


def src_hash():
    return file_hash(src_files())


class Lock:
    def __init__(self, name):
        os.makedirs(BUILD, exist_ok=True)
        self.path = os.path.join(BUILD, name + ".lock")

    def __enter__(self):
        self.f = open(self.path, "w")
        fcntl.flock(self.f, fcntl.LOCK_EX)
        return self

    def __exit__(self, *a):
        fcntl.flock(self.f, fcntl.LOCK_UN)
        self.f.close()


def write_config(outdir):
    tmpl = open(os.path.join(REPO, "soxr-config.h.in")).read()

    def rep(m):
        k = m.group(1)
        if k not in CONFIG:
            raise RuntimeError("soxr-config.h.in names an option this framework does not know: " + k)
        return "#define %s %d" % (k, CONFIG[k])
    open(os.path.join(outdir, "soxr-config.h"), "w").write(re.sub(r"#cmakedefine01 (\w+)", rep, tmpl))


class BuildError(Exception):
    pass


def _older_than(path, seconds):
    try:
        return time.time() - os.path.getmtime(path) > seconds
    except OSError:
        return False


def build_lib(variant="rel", hooks=True, extra=""):
    """Compile /repo/src (working tree) into a static library; returns the build directory.
    Same file set and per-file flags as src/CMakeLists.txt for this image's configuration."""
    flags = VARIANTS[variant] + (" -D" + GUARD if hooks else "") + (" " + extra if extra else "")
    key = file_hash(src_files(), flags)
    # builds of different source trees (VERIF_REPO overrides used for mutation runs) must not evict each other
    xt = ("-x" + hashlib.sha256(extra.encode()).hexdigest()[:4]) if extra else ""
    prefix = "%s%s%s-%s-" % (variant, "" if hooks else "-nohook", xt, REPO_TAG)
    name = prefix + key
    out = os.path.join(BUILD, "lib", name)
    with Lock("lib-" + variant + xt + "-" + REPO_TAG):
        if os.path.exists(os.path.join(out, "libsoxr.a")):
            return out
        # drop stale builds of this variant of this source tree (not recent ones: a check started before the sources
        # changed may still be linking against / running them)
        for d in glob.glob(os.path.join(BUILD, "lib", prefix + "*")):
            if _older_than(d, 4 * 3600):
                shutil.rmtree(d, ignore_errors=True)
        os.makedirs(out, exist_ok=True)
        write_config(out)
        base = "gcc -std=gnu89 -Wno-error -fopenmp -I%s -I%s -DSOXR_LIB -include soxr-config.h %s" % (out, SRC, flags)
        jobs = [(f, base) for f in LIB_SOURCES] + [(f, base + " -msse2") for f in LIB_SOURCES_SSE] + \
               [(f, base + " -mavx") for f in LIB_SOURCES_AVX]

        def cc(job):
            f, b = job
            r = sh("%s -c %s/%s.c -o %s/%s.o" % (b, SRC, f, out, f))
            return (f, r)
        with ThreadPoolExecutor(NCPU) as ex:
            res = list(ex.map(cc, jobs))
        bad = [(f, r.stdout) for f, r in res if r.returncode]
        if bad:
            shutil.rmtree(out, ignore_errors=True)
            raise BuildError("compiling /repo/src failed:\n" + "\n".join("%s.c:\n%s" % b for b in bad)[:4000])
        r = sh("ar rcs %s/libsoxr.a %s" % (out, " ".join("%s/%s.o" % (out, f) for f, _ in jobs)))
        if r.returncode:
            shutil.rmtree(out, ignore_errors=True)
            raise BuildError(r.stdout)
    return out


def build_harness(name, sources, variant="rel", extra="", link_lib=True, cxx=False, hooks=True, libextra=""):
    """Compile harness program `name` from files under /verif/harness against the working-tree library.
    sources: list of paths relative to /verif/harness. Returns path of the executable."""
    lib = build_lib(variant, hooks, libextra) if link_lib else None
    paths = [os.path.join(HARNESS, s) for s in sources]
    if hooks and link_lib:
        paths.append(os.path.join(HARNESS, "verif_stubs.c"))
    deps = paths + glob.glob(os.path.join(HARNESS, "*.h")) + src_files()
    flags = VARIANTS[variant] + (" -D" + GUARD if hooks else "") + " " + extra
    key = file_hash(deps, flags + (lib or ""))
    outdir = os.path.join(BUILD, "harness")
    os.makedirs(outdir, exist_ok=True)
    exe = os.path.join(outdir, "%s-%s-%s-%s" % (name, variant, REPO_TAG, key))
    with Lock("harness-" + name + "-" + variant + "-" + REPO_TAG):
        if os.path.exists(exe):
            return exe
        for old in glob.glob(os.path.join(outdir, "%s-%s-%s-*" % (name, variant, REPO_TAG))):
            try:
                if _older_than(old, 4 * 3600):
                    os.remove(old)
            except OSError:
                pass
        inc = "-I%s -I%s -I%s -DSOXR_LIB -include soxr-config.h" % (lib or build_lib(variant, hooks, libextra), SRC, HARNESS)
        cc = "g++ -std=gnu++17" if cxx else "gcc -std=gnu99"
        cmd = "%s -Wno-error -fopenmp %s %s %s -o %s %s -lm -lpthread" % (
            cc, inc, flags, " ".join(paths), exe + ".tmp", (lib + "/libsoxr.a") if lib else "")
        r = sh(cmd)
        if r.returncode:
            raise BuildError("harness %s failed to build:\n%s\n%s" % (name, cmd, r.stdout[:6000]))
        os.rename(exe + ".tmp", exe)
    return exe


# ------------------------------------------------------------------ Lean side

FORBIDDEN = re.compile(r"\b(sorry|admit|native_decide|bv_decide|implemented_by|unsafe)\b|^\s*axiom\s|maxHeartbeats\s+0\b", re.M)
OK_AXIOMS = {"propext", "Classical.choice", "Quot.sound"}


def strip_lean_comments(s):
    # nested block comments and line comments
    out, i, depth = [], 0, 0
    while i < len(s):
        if s.startswith("/-", i):
            depth += 1; i += 2; continue
        if s.startswith("-/", i) and depth:
            depth -= 1; i += 2; continue
        if depth:
            if s[i] == "\n":
                out.append("\n")
            i += 1; continue
        if s.startswith("--", i):
            while i < len(s) and s[i] != "\n":
                i += 1
            continue
        out.append(s[i]); i += 1
    return "".join(out)


def strip_strings(s):
    return re.sub(r'"(\\.|[^"\\])*"', '""', s)


def lean_sources():
    fs = glob.glob(os.path.join(LEAN, "SoxrModel", "**", "*.lean"), recursive=True)
    fs += [os.path.join(LEAN, "SoxrModel.lean"), os.path.join(LEAN, "Driver.lean")]
    return [f for f in fs if os.path.exists(f)]


def import_closure(modules):
    """Lean source files of this project transitively imported by the given modules (names like SoxrModel.Properties.C03)."""
    seen, todo = {}, list(modules)
    while todo:
        m = todo.pop()
        if m in seen or not (m.startswith("SoxrModel") or m == "Driver"):
            continue
        f = os.path.join(LEAN, *m.split(".")) + ".lean"
        if not os.path.exists(f):
            continue
        seen[m] = f
        for line in open(f):
            mm = re.match(r"\s*(?:public\s+)?import\s+(\S+)", line)
            if mm:
                todo.append(mm.group(1))
    return sorted(seen.values())


def grep_forbidden(files=None):
    hits = []
    for f in files or lean_sources():
        txt = strip_strings(strip_lean_comments(open(f).read()))
        for m in FORBIDDEN.finditer(txt):
            line = txt.count("\n", 0, m.start()) + 1
            hits.append("%s:%d: %s" % (os.path.relpath(f, VERIF), line, m.group(0).strip()))
    return hits


def lake(args, timeout=3600):
    with Lock("lake"):
        t = time.time()
        r = sh("lake " + args, cwd=LEAN, timeout=timeout)
        r.wall = time.time() - t
        return r


def lake_build(targets):
    """lake build of the given module / exe targets.  Returns (ok, output)."""
    r = lake("build " + " ".join(targets))
    return r.returncode == 0, r.stdout


def model_exe():
    return os.path.join(LEAN, ".lake", "build", "bin", "soxrmodel")


def print_axioms(module):
    """Runs the audit file SoxrModel/Audit/<module>.lean (a list of `#print axioms`), returns {theorem: [axioms]}."""
    path = os.path.join("SoxrModel", "Audit", module + ".lean")
    r = lake("env lean " + path)
    res, cur = {}, None
    if r.returncode:
        return None, r.stdout
    # a long theorem name makes Lean wrap the axiom list over several lines (continuation lines start with a blank)
    txt = re.sub(r"\n[ \t]+", " ", r.stdout)
    for line in txt.splitlines():
        m = re.match(r"'(.+)' depends on axioms: \[(.*)\]", line)
        if m:
            res[m.group(1)] = [a.strip() for a in m.group(2).split(",") if a.strip()]
            continue
        m = re.match(r"'(.+)' does not depend on any axioms", line)
        if m:
            res[m.group(1)] = []
    return res, r.stdout


def theorems_in(module_file):
    """Names of theorems stated in a Properties file (for the obligations count)."""
    txt = strip_lean_comments(open(module_file).read())
    ns = re.findall(r"^namespace\s+(\S+)", txt, re.M)
    names = re.findall(r"^\s*(?:protected\s+|private\s+)?theorem\s+(\S+)", txt, re.M)
    return names


# ------------------------------------------------------------------ randomness, evidence, verdicts

class Rng:
    """xorshift64*; every random choice of a check derives from VERIF_SEED through this."""

    def __init__(self, seed):
        self.s = (seed * 0x9E3779B97F4A7C15 + 0x1234567) & ((1 << 64) - 1) or 88172645463325252

    def next(self):
        s = self.s
        s ^= (s << 13) & ((1 << 64) - 1)
        s ^= s >> 7
        s ^= (s << 17) & ((1 << 64) - 1)
        self.s = s
        return s

    def below(self, n):
        return self.next() % n if n > 0 else 0

    def choice(self, xs):
        return xs[self.below(len(xs))]

    def chance(self, p):
        return (self.next() >> 11) / float(1 << 53) < p

    def uniform(self, a, b):
        return a + (b - a) * ((self.next() >> 11) / float(1 << 53))


def known_findings(pid=None):
    """Entries of /verif/known_findings.json and /verif/known_findings.d/*.json (committed files, never written at
    run time).  Each entry: {"id": "F3", "properties": ["C08"], "status": "known" | "fixed", "what": "...", "signature": {...}}.
    Only status "known" entries may suppress a violation; "fixed" entries are documentation."""
    out = []
    for p in [os.path.join(VERIF, "known_findings.json")] + sorted(glob.glob(os.path.join(VERIF, "known_findings.d", "*.json"))):
        if os.path.exists(p):
            out += json.load(open(p)).get("findings", [])
    if pid:
        out = [f for f in out if pid in f.get("properties", [])]
    return out


def known_active(pid):
    return [f for f in known_findings(pid) if f.get("status") == "known"]


class Ctx:
    """One run of one property's check."""

    def __init__(self, pid, tier, seed, level):
        self.pid, self.tier, self.seed, self.level = pid, tier, seed, level
        self.rng = Rng(seed)
        self.t0 = time.time()
        self.cov = {"samples": []}
        self.assumptions = []
        self.violations = []     # (what, replay_path, no_input)
        self.known_hits = {}     # finding id -> text
        self.notes = []
        self.quick = tier == "quick"

    # --- evidence helpers
    def sample(self, x, cap=6):
        if len(self.cov["samples"]) < cap:
            self.cov["samples"].append(x)

    def count(self, key, n=1):
        self.cov[key] = self.cov.get(key, 0) + n

    def hist(self, key, bucket, n=1):
        d = self.cov.setdefault(key, {})
        d[str(bucket)] = d.get(str(bucket), 0) + n

    def assume(self, *texts):
        for t in texts:
            if t not in self.assumptions:
                self.assumptions.append(t)

    # --- verdicts
    def known(self, fid, text):
        """A falsifier hit matching a listed known finding."""
        self.known_hits.setdefault(fid, text)

    def violation(self, what, replay, no_input=False):
        """Record a violation; `replay` is a JSON-serialisable description written to /verif/replays."""
        os.makedirs(os.path.join(OUTDIR, "replays"), exist_ok=True)
        body = json.dumps({"property": self.pid, "what": what, "replay": replay, "seed": self.seed, "tier": self.tier},
                          indent=1, sort_keys=True, default=str)
        h = hashlib.sha256(body.encode()).hexdigest()[:10]
        path = os.path.join(OUTDIR, "replays", "%s-%s.json" % (self.pid, h))
        open(path, "w").write(body + "\n")
        self.violations.append((what, path, no_input))
        return path

    def finish(self):
        wall = time.time() - self.t0
        ev = {"property_id": self.pid, "tier": self.tier, "seed": self.seed, "level": self.level,
              "coverage": self.cov, "assumptions": self.assumptions, "wall_s": round(wall, 2),
              "violations": len(self.violations)}
        if self.notes:
            ev["coverage"]["notes"] = self.notes
        if self.known_hits:
            ev["coverage"]["known_findings_hit"] = self.known_hits
        os.makedirs(os.path.join(OUTDIR, "evidence"), exist_ok=True)
        tmp = os.path.join(OUTDIR, "evidence", self.pid + ".json.tmp")
        json.dump(ev, open(tmp, "w"), indent=1, sort_keys=True, default=str)
        os.rename(tmp, os.path.join(OUTDIR, "evidence", self.pid + ".json"))
        for fid, text in sorted(self.known_hits.items()):
            print("KNOWN-FINDING: property=%s %s %s" % (self.pid, fid, text))
        seen = set()
        # violations with a concrete failing input first
        for what, path, no_input in sorted(self.violations, key=lambda v: v[2]):
            if path in seen:
                continue
            seen.add(path)
            print("VIOLATION property=%s replay=%s%s" % (self.pid, path, " no-failing-input-found" if no_input else ""))
            print("  " + what[:600].replace("\n", "\n  "))
        print("%s %s: %s in %.1fs (seed %d)" % (self.pid, self.tier, "VIOLATION" if self.violations else "ok", wall, self.seed))
        sys.stdout.flush()
        return 1 if self.violations else 0


# ------------------------------------------------------------------ the proof half of a check

def gen_lean(area):
    """Regenerate lean/SoxrModel/<Area>/Generated.lean from /repo's working tree by compiling and running
    harness/<area>/gen.c (a C program that #includes the real sources and prints Lean definitions).
    The file is only rewritten when its content changes, so an unchanged tree costs no rebuild."""
    low = area.lower()
    exe = build_harness("gen_" + low, [low + "/gen.c"], variant="dbg")
    r = subprocess.run([exe], stdout=subprocess.PIPE, stderr=subprocess.PIPE, universal_newlines=True)
    if r.returncode:
        raise BuildError("generator %s failed:\n%s" % (area, (r.stdout + r.stderr)[:3000]))
    path = os.path.join(LEAN, "SoxrModel", area, "Generated.lean")
    with Lock("gen-" + low):
        old = open(path).read() if os.path.exists(path) else None
        if old != r.stdout:
            open(path, "w").write(r.stdout)
            return True
    return False


def proof_stage(ctx, modules, audit_module, exes=("soxrmodel",), gens=()):
    """generate -> build -> audit.  Fills the proof keys of the evidence.
    modules: lake module targets (e.g. "SoxrModel.Properties.C03"); audit_module: "C03" (SoxrModel/Audit/C03.lean lists
    `#print axioms` for every theorem of SoxrModel/Properties/C03.lean); exes: lean_exe targets to build;
    gens: areas whose Generated.lean is regenerated from /repo first.
    Returns a list of broken obligations (strings); empty when every theorem checks with clean axioms."""
    broken = []
    changed = False
    for area in gens:
        try:
            changed = gen_lean(area) or changed
        except BuildError as e:
            ctx.notes.append("generator: " + str(e)[:2000])
            return ["generator (%s/Generated.lean could not be produced from /repo): %s" % (area, str(e)[:1500])]
    ctx.cov["generated_lean_changed"] = changed
    t = time.time()
    ok, out = lake_build(list(modules) + list(exes))
    ctx.cov["lake_build_s"] = round(time.time() - t, 1)
    if not ok:
        errs = [l for l in out.splitlines() if "error" in l.lower()][:20]
        broken.append("lake build failed: " + " | ".join(errs)[:1500])
        ctx.notes.append(out[-3000:])
    scope = [m for m in modules if m.startswith("SoxrModel")]
    audits = [audit_module] if isinstance(audit_module, str) else list(audit_module or [])
    for a in audits:
        scope.append("SoxrModel.Audit." + a)
    for e in exes:
        scope.append({"soxrmodel": "Driver"}.get(e, "SoxrModel.%s.Main" % e.replace("soxr_", "").capitalize()))
    hits = grep_forbidden(import_closure(scope))
    ctx.cov["lean_files_in_scope"] = len(import_closure(scope))
    if hits:
        broken.append("forbidden constructs in Lean sources: " + "; ".join(hits[:10]))
    thms, stated = {}, []
    for a in audits:
        t1 = {}
        if ok:
            t1, raw = print_axioms(a)
            if t1 is None:
                broken.append("axiom audit %s failed to run: %s" % (a, raw[-1500:]))
                t1 = {}
            for name, ax in t1.items():
                bad = [x for x in ax if x not in OK_AXIOMS]
                if bad:
                    broken.append("theorem %s depends on non-standard axioms %s" % (name, bad))
        pf = os.path.join(LEAN, "SoxrModel", "Properties", a + ".lean")
        if os.path.exists(pf):
            st1 = theorems_in(pf)
            audited = set(n.split(".")[-1] for n in t1)
            missing = [n for n in st1 if n.split(".")[-1] not in audited]
            if ok and missing:
                broken.append("theorems of %s not covered by the axiom audit: %s" % (a, ", ".join(missing[:10])))
            stated += st1
        thms.update(t1)
    audit_module = " ".join(audits)
    ctx.cov["obligations"] = max(len(stated), len(thms))
    ctx.cov["discharged"] = 0 if broken else len(thms)
    ctx.cov["theorems"] = sorted(thms.keys())
    ctx.cov["axioms_used"] = sorted(set(a for ax in thms.values() for a in ax))
    ctx.cov["checker_cmd"] = "cd /verif/lean && lake build %s && %s" % (
        " ".join(modules), " && ".join("lake env lean SoxrModel/Audit/%s.lean" % a for a in audits))
    ctx.cov["trusted_base"] = [
        "Lean 4.33.0 kernel (lake build; leanchecker in the thorough tier)",
        "axioms: " + ", ".join(sorted(OK_AXIOMS)) + " only (audited by #print axioms on every run)",
        "generators harness/<area>/gen.c (print constants of /repo/src as Lean literals): " + (", ".join(gens) or "none used"),
        "correspondence harness + line protocol + Lean compiler for the driver executable",
    ]
    return broken


def leanchecker(module):
    r = lake("env leanchecker " + module, timeout=3600)
    return r.returncode == 0, r.stdout[-2000:]


def run_lines(exe_args, lines, timeout=600, env=None):
    """Feed lines to a process, return its stdout lines."""
    p = subprocess.run(exe_args, input="\n".join(lines) + "\n", stdout=subprocess.PIPE, stderr=subprocess.PIPE,
                       universal_newlines=True, timeout=timeout, env=env)
    return p.returncode, p.stdout.splitlines(), p.stderr
