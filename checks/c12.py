"""C12 - linearity: unity DC gain, exact scale, superposition, shift covariance.

  proof stage   Lean: SoxrModel/Properties/C12.lean - the MODEL resampler (pipeline of ring-linear kernels) satisfies
                superposition, homogeneity, gain_once (the hand-over of `multiplier` in _soxr_init), dc_gain (unity gain <=>
                rows sum to 1) and shift covariance at the implementation period, exactly, for all signals + axiom audit;
                SoxrModel/Properties/C12Engine.lean - the ENGINE model (FIFOs, preloads, block-clocked dft stages, any schedule,
                arbitrary kernels): superposition_runs, homogeneity_runs, shift_covariance_runs
  tie (engine)  checks/c12_engine.py: `cr.period` (planShift, the theorem's hypothesis) on every exported plan of a sweep; the real
                engine run on x and on (d_in other frames ++ x) must agree BIT FOR BIT beyond the horizon, d_out frames apart
  tie           every exported plan: some designed stage exists whenever a half-band stage does (hypothesis of
                `gain_always_carried`); implementation period computed by the mirror of `Soxr.Signal.implPeriod`
  measurement   on the REAL code, compared within 2^(1-bits) of full scale with the measured margin recorded:
                superposition on random in-band and broadband signal pairs; io_spec.scale proportionality (powers of two:
                bit-exactness counted; general and negative factors); a datatype pair with different full scales against the
                float64 run; DC convergence; row sums of the measured rows; shift covariance per sample in max norm over
                streams spanning >= 3.3 blocks of every dft stage: at the implementation period (1 and k periods) for
                broadband signals beyond the start-up horizon (bit-exactness counted) and at the reduced period for in-band
                steady-state signals
  cases         one member of every (plan class, knob) pair of the covering pool (checks/_signal.py cover), ratio 1 with a gain
"""
import math
from fractions import Fraction
import numpy as np
from vlib import common
from checks import _signal as S
from checks import c12_engine
from checks import coeftab

LEVEL = "proof"
COVER_RULE = 'covering set (checks/_signal.py cover): a seeded pool of candidate configurations - %s - is planned by the REAL library; every candidate is labelled with its plan class (per stage: half-band / dft stage with F-domain or time-domain rate change, decimation grid aligned to block_len or not / poly-phase order) and its knob; one member of EVERY (plan class, knob) pair is measured, cheapest implementation periods first, members rotating with the seed; the run reports a violation when a required planner path or engine (REQUIRED_CLASSES, REQUIRED_ORDERS, cr32 / cr32s / cr64 / cr64s) is not hit. '


def lim1(bits):
    return 2.0 ** (1 - bits)


def multitone(rg, N, fmax, shift=0.0, tones=None):
    """Sum of 5 in-band tones, |x| <= 0.45; `shift` delays it as a continuous-time signal (input frames)."""
    if tones is None:
        tones = [(rg.uniform(0.03, 0.09), rg.uniform(0.02, 0.98) * fmax, rg.uniform(0, 6.28)) for _ in range(5)]
    n = np.arange(N, dtype=float) - shift
    x = np.zeros(N)
    for (a, f, p) in tones:
        x += a * np.sin(math.pi * f * n + p)
    return x, tones


FS = {0: 1.0, 1: 1.0, 2: 2147483648.0, 3: 32768.0}
# (itype, otype) pairs whose full scales differ (effective gain != 1 even with io_spec.scale = 1) and float32 / float64 mixes
DTYPE_PAIRS = [(0, 3), (1, 3), (3, 0), (3, 1), (0, 2), (1, 2), (2, 0), (2, 1), (3, 2), (2, 3), (0, 1), (1, 0)]


def block_span_in(info, ratio):
    """Largest dft block of the plan in INPUT frames (a dft stage consumes block_len / L of its own input frames per block;
    its input runs at the product of the earlier stages' rate changes)."""
    rate = 1.0                                         # stage input frames per resampler input frame
    rates = []
    for s in info["stages"]:
        rates.append(rate)
        if s["kind"] == "half":
            rate *= 0.5
        elif s["rational"] and s["M"] > 0:
            rate *= s["L"] / s["M"]
        else:
            known = 1.0
            for t in info["stages"]:
                if t is not s:
                    known *= 0.5 if t["kind"] == "half" else t["L"] / t["M"]
            rate *= (1.0 / ratio) / known
    span = 0.0
    for s, r in zip(info["stages"], rates):
        if s["kind"] == "dft":
            span = max(span, s["blockLen"] / s["L"] / r)
    return span


def quantise(x, it):
    """x (float64, |x| < 1) as samples of datatype `it`, and the exact float64 value of those samples."""
    if it in (2, 3):
        xi = np.round(x * FS[it]).astype(S.DTYPES[it])
        return xi, xi.astype(np.float64) / FS[it]
    if it == 0:
        xi = x.astype(np.float32)
        return xi, xi.astype(np.float64)
    return x, x


def job_c12(args):
    c, seed, nfit = args[:3]
    forced = args[3] if len(args) > 3 else {}
    try:
        info, _ = S.run(c)
        if "error" in info:
            return {"cfg": c, "label": S.cfg_label(c), "skipped": "create failed: " + info["error"]}
        if not info.get("engine", "").startswith("cr") or S.bits_of(info) < 15:
            return {"cfg": c, "label": S.cfg_label(c), "skipped": "property does not speak (precision < 15 bits)"}
        if S.f1_known(info):
            return {"cfg": c, "label": S.cfg_label(c), "skipped": "known finding F1 signature", "f1": True, "f1_linear": info["q"]["phase"] == 50}
        bits = S.bits_of(info)
        rg = np.random.default_rng(seed)
        ratio = float(c["ir"]) / float(c["orr"])
        wlo, whi = S.extents(c, 1.0 / ratio, 1.0)
        H = wlo + whi + 16
        # the stream spans several blocks of every dft stage (a decimation grid or an overlap that slips at block boundaries shows
        # on a few samples per block only)
        span = block_span_in(info, ratio)
        n_blocks = 3.3 + 1.4 * rg.random()
        N = int(math.ceil(max((nfit + 2 * H) * ratio, n_blocks * span + 2 * H * ratio))) + 8
        nyq_low = min(1.0, 1.0 / ratio)
        fmax = min(info["q"]["pb"], 2 - info["q"]["sb"]) * nyq_low
        out = dict(cfg=c, label=S.cfg_label(c), engine=info["engine"], plan=S.plan_signature(info), pclass=S.plan_class(info), bits=bits, seed=seed,
                   flags=S.finding_flags(info),
                   n_in=N, dft_blocks_spanned=round(N / span, 2) if span else None,
                   horizon=H, kinds="+".join(s["kind"] for s in info["stages"]) or "none", designed_ok=S.designed_ok(info),
                   designed=sum(1 for s in info["stages"] if s["kind"] != "half"), where={})
        R = lambda x, **kw: S.run(c, x, **kw)[1]

        def peak(key, d, scale=1.0):
            i = int(np.argmax(d)) if len(d) else 0
            out[key] = float(d[i]) / scale if len(d) else 0.0
            out["where"][key] = i

        # --- superposition: in-band pair and broadband pair, whole stream (start-up included: linearity has no horizon)
        x1, _ = multitone(rg, N, fmax)
        x2, _ = multitone(rg, N, fmax)
        a, b = rg.uniform(-1, 1), rg.uniform(-1, 1)
        y1, y2 = R(x1), R(x2)
        y12 = R(a * x1 + b * x2)
        peak("sup_inband", np.abs(y12 - (a * y1 + b * y2)))
        n1, n2 = rg.uniform(-0.45, 0.45, N), rg.uniform(-0.45, 0.45, N)
        z1, z2 = R(n1), R(n2)
        z12 = R(a * n1 + b * n2)
        peak("sup_noise", np.abs(z12 - (a * z1 + b * z2)))
        out["ab"] = (a, b)

        # --- scale: a power of two (expected bit-exact: every coefficient is scaled exactly), a general and a negative factor
        k = int(rg.choice([-4, -3, -2, -1, 1, 2, 3]))
        sp = 2.0 ** k
        ysp = R(x1, scale=repr(sp))
        out["scale_pow2"] = sp
        peak("scale_pow2_err", np.abs(ysp - sp * y1) if len(ysp) == len(y1) else np.array([np.inf]), sp)
        out["scale_pow2_exact"] = bool(np.array_equal(ysp, sp * y1))
        sg = float(forced.get("scale", rg.uniform(0.2, 3.0) * rg.choice([1, 1, -1])))
        if not info["stages"]:                         # ratio 1: only a gain makes the planner emit a stage (the cubic stage)
            out["pclass"] = S.plan_class(S.run(c, scale=repr(sg))[0])
        ysg = R(n1, scale=repr(sg))
        out["scale_gen"] = sg
        peak("scale_gen_err", np.abs(ysg - sg * z1) if len(ysg) == len(z1) else np.array([np.inf]), abs(sg))

        # --- scale 0: proportionality holds for the factor 0 too - the output is silence, of the same length
        y0 = R(n1, scale="0")
        out["scale_zero_err"] = float(np.abs(y0).max()) if len(y0) == len(z1) and len(y0) else (float("inf") if len(y0) != len(z1) else 0.0)
        out["where"]["scale_zero_err"] = int(np.argmax(np.abs(y0))) if len(y0) else 0

        # --- DC: a full-scale constant converges to the same constant (times scale)
        ydc = R(np.ones(N))
        peak("dc_err", np.abs(ydc[H:len(ydc) - H] - 1.0))
        ydcs = R(np.ones(N), scale=repr(sg))
        peak("dc_scaled_err", np.abs(ydcs[H:len(ydcs) - H] - sg), abs(sg))

        # --- datatypes: the full-scale conversion itype -> otype is part of the gain (times io_spec.scale); the typed run may differ
        #     from the float64 run of the same sample values by the output format's own resolution and the precision only
        it, ot = forced.get("dtypes", DTYPE_PAIRS[int(rg.integers(len(DTYPE_PAIRS)))])
        sd = float(forced.get("dscale", rg.choice([1.0, 1.0, 0.5, 2.0, float(rg.uniform(0.4, 1.9))])))
        # level: the typed output stays below 0.6 of full scale at the input samples (inter-sample peaks of the up-sampled tones and the
        # filter's overshoot must not reach the integer formats' clipping level - clipping is not a linearity defect)
        lvl = 1.0 / max(1.0, abs(sd))
        xt = lvl * (0.4 * x1 / max(1e-9, np.abs(x1).max()) + 0.05)
        xi, xd = quantise(xt, it)
        inft, yt = S.run(c, xi, itype=it, otype=ot, scale=repr(sd))
        yt = yt.astype(np.float64) / FS[ot]
        out["dtype_clips"] = int(inft.get("r", {}).get("clips", 0))
        yd = R(xd)
        out["dtypes"] = (int(it), int(ot))
        out["dtype_scale"] = sd
        out["dtype_bound"] = S.out_resolution(ot) + abs(sd) * lim1(bits)
        out["gain_eff"] = sd * FS[ot] / FS[it]         # what _soxr_init receives as `multiplier`
        if out["dtype_clips"] == 0:
            peak("dtype_err", np.abs(yt - sd * yd) if len(yt) == len(yd) else np.array([np.inf]))

        # --- shift covariance at the implementation period, broadband, beyond the start-up horizon: per sample, max norm
        per = S.plan_period(info)
        fr = Fraction(c["orr"]).limit_denominator(1 << 20) / Fraction(c["ir"]).limit_denominator(1 << 20)
        L, M = fr.numerator, fr.denominator
        out["L"], out["M"] = L, M
        if per is not None and per[1] <= 20000 and per[0] * M == per[1] * L:
            LP, MP = per
            out["LP"], out["MP"] = LP, MP
            Hin = int(math.ceil(H * ratio / MP)) * MP
            xs = np.concatenate([np.zeros(Hin), n1[:max(1000, N - Hin)]])
            ya = R(xs)
            kk = int(rg.integers(2, 8))
            out["shift_multiples"] = (1, kk)
            worst_d = np.zeros(1)
            exact = True
            for q in (1, kk):
                yb = R(np.concatenate([np.zeros(q * MP), xs]))
                m = int(0.98 * min(len(yb) - q * LP, len(ya)))
                if m > 100:
                    d = np.abs(yb[q * LP:q * LP + m] - ya[:m])
                    if d.max() >= worst_d.max():
                        worst_d = d
                        out["shift_impl_multiple"] = q
                    exact = exact and bool(d.max() == 0)
            if len(worst_d) > 1:
                peak("shift_impl_err", worst_d)
                out["shift_impl_exact"] = exact
                out["shift_impl_bad_samples"] = int((worst_d > lim1(bits)).sum())
            # --- shift covariance at the REDUCED period L/M, in-band signal in steady state (only a plan that runs on
            #     rational clocks implements the ratio L/M exactly; an interpolated stage rounds it: C04's allowance)
            if M <= 20000:
                xa, tones = multitone(rg, N + M, fmax)
                xb, _ = multitone(rg, N + M, fmax, shift=float(M), tones=tones)    # the same continuous-time signal M frames later
                ya, yb = R(xa), R(xb)
                lo, hi = H, min(len(ya), len(yb) - L) - H
                if hi - lo > 100:
                    d = np.abs(yb[lo + L:hi + L] - ya[lo:hi])
                    peak("shift_reduced_err", d)
                    out["shift_reduced_bad_samples"] = int((d > lim1(bits)).sum())
                    out["shift_reduced_tones"] = [(float(t[0]), float(t[1]), float(t[2])) for t in tones]
        return out
    except Exception:
        import traceback
        return {"cfg": c, "label": S.cfg_label(c), "error": traceback.format_exc()[-1500:]}


def probe_f1_dc(c):
    return S.probe_f1(c, "dc")


def job_plan(c):
    try:
        info, _ = S.run(c)
        if "error" in info:
            return None
        return (S.cfg_label(c), info.get("engine"), S.plan_signature(info), S.designed_ok(info), len(info["stages"]),
                sum(1 for s in info["stages"] if s["kind"] != "half"))
    except Exception:
        return None


CLAUSES = [  # (key in the job result, what, needs-rational)
    ("sup_inband", "superposition, in-band pair"),
    ("sup_noise", "superposition, broadband pair"),
    ("scale_pow2_err", "io_spec.scale = power of two (relative to the factor)"),
    ("scale_gen_err", "io_spec.scale general factor (relative to the factor)"),
    ("scale_zero_err", "io_spec.scale = 0 (the output must be silence)"),
    ("dc_err", "DC convergence (full-scale constant)"),
    ("dc_scaled_err", "DC convergence with io_spec.scale (relative to the factor)"),
    ("shift_impl_err", "shift covariance at the implementation period (M_P in -> L_P out), broadband, beyond the horizon"),
    ("shift_reduced_err", "shift covariance at the reduced period (M in -> L out), in-band, steady state"),
    ("dtype_err", "datatype pair: typed run vs io_spec.scale x the float64 run of the same sample values"),
]


def run(ctx):
    broken = common.proof_stage(ctx, ["SoxrModel.Properties.C12", "SoxrModel.Properties.C12Engine", "SoxrModel.Properties.C12Fir", "SoxrModel.Properties.C04Coef"], ["C12", "C12Engine", "C12Fir", "C04Coef"], exes=("soxrmodel",), gens=())
    coeftab.run(ctx, broken, "C12")
    S.harness()
    S.set_active("C12")
    rng = ctx.rng
    quick = ctx.quick
    worst, sigs = {}, set()

    # ---------------- engine half: shift covariance of the engine model (Cr/Shift.lean) tied to the real engine bit for bit
    n_shift = c12_engine.section(ctx, common.build_harness("crtrace", ["cr/trace.c"], "rel"))

    # ---------------- tie: hypothesis of gain_always_carried on exported plans (plan export only; no signal)
    pool = S.all_rational() + [S.mkcfg(ir, orr, rec, qf, simd=s) for (ir, orr) in S.RATIOS_IRRATIONAL for (rec, qf) in S.RECIPES for s in (0, 1)]
    if quick:
        pool = [pool[rng.below(len(pool))] for _ in range(300)]
    plans = [p for p in S.pool_map(job_plan, pool) if p]
    bad = [p for p in plans if not p[3]]
    ctx.count("plans_exported", len(plans))
    ctx.cov["plans_with_two_or_more_designed_stages"] = sum(1 for p in plans if p[5] >= 2)
    ctx.cov["distinct_plans_exported"] = len(set((p[1], p[2]) for p in plans))
    for p in bad[:3]:
        ctx.violation("hypothesis of Soxr.C12.gain_always_carried fails: plan of %s consists of half-band stages only (%s): nothing carries io_spec.scale"
                      % (p[0], p[2]), {"config": p[0], "plan": p[2]}, no_input=True)

    # ---------------- row sums of the measured rows (the hypothesis of dc_unity_iff_rows): one member of every plan class
    sel_rows, st_rows = S.cover(rng, ["base"], S.COVER_RATIOS, per_ratio=2 if quick else 6, max_period=64 if quick else 400)
    cfgs = [[c] for c in S.QUICK_CORE] + [e["members"] for e in sel_rows]
    if not quick:
        cfgs += [[c] for c in S.pick_rational(rng, 150, exclude=S.QUICK_CORE)]
    rows = S.pool_map(S.job_rows_first, [(m, 700 if quick else 2000, 3e6 if quick else 8e6) for m in cfgs])
    n_rows = 0
    for r in rows:
        if "error" in r:
            ctx.violation("measurement crashed on %s: %s" % (r["label"], r["error"][-600:]), {"config": r["cfg"], "traceback": r["error"]}, no_input=not S.lib_failed(r["error"]))
            continue
        if "skipped" in r:
            ctx.hist("rows_skipped", r["skipped"].split(":")[0][:60])
            continue
        n_rows += r["LP"]
        lim = lim1(r["bits"])
        m = r["pass"]["row_sum_dev"] / lim
        fid = S.known_excess(r, "rowsum", m)
        if fid:
            ctx.known(fid, S.known_text(fid, r, "a row of the measured period sums to 1 %+.3g = %.2f x 2^(1-bits)" % (r["pass"]["row_sum_dev"], m)))
            continue
        worst["row_sum_dev/2^(1-bits)"] = max(worst.get("row_sum_dev/2^(1-bits)", 0), m)
        sigs.add((r["engine"], r["plan"], "rows"))
        ctx.hist("rows_plan_class", r["pclass"])
        if m > 1:
            ctx.violation("C12 DC gain: %s: a row of the measured period sums to 1 %+.3g, off by %.2f x 2^(1-bits): a constant input does not "
                          "come out as the same constant" % (r["label"], r["pass"]["row_sum_dev"], m),
                          {"config": r["cfg"], "plan": r["plan"], "signal": "constant 1.0", "measured_level": r["pass"]["row_sum_dev"], "bound": lim})
    ctx.count("row_sums_measured", n_rows)

    # ---------------- paired runs on the real code
    # one member of every (plan class, knob) pair the planner produces on the seeded pool: every run hits every planner path, with the
    # recipe's own quality spec, with a non-linear phase setting and with moved band edges; each case carries its own scale factors
    # (power of two, general, negative) and a datatype pair with a different full scale
    sel, st = S.cover(rng, ["base", "ph*", "band*"], S.COVER_RATIOS + S.COVER_IRRATIONAL, per_ratio=2 if quick else 8, members=1,
                      max_period=1000, rtflags=(None, None, 2, 3))
    ctx.cov["covering_pool"] = st
    cfgs = list(S.QUICK_CORE) + [e["members"][0] for e in sel]
    nfit = 6000 if quick else 10000
    jobs = [(c, rng.below(1 << 30), nfit) for c in cfgs]
    # no stage at all (ratio 1) but a gain: the cubic stage is forced to carry it (cr.c: 343-346) - io_spec.scale and datatype pairs
    for simd in (0, 1):
        for rec in (3, 6):
            jobs.append((S.mkcfg(1, 1, rec, 0, simd=simd), rng.below(1 << 30), nfit,
                         {"scale": rng.uniform(0.3, 2.5), "dtypes": rng.choice(DTYPE_PAIRS[:10]), "dscale": 1.0}))
    # the frequency-domain decimators (and the L = 3 stage in front of one) with EVERY recipe: whether a block is a whole number of
    # output frames depends on the filter length each recipe designs (num_taps mod 4), not on the plan class
    for (a, b) in ((4, 3), (2, 3), (2, 1), (8, 3)):
        for rec in (1, 2, 3, 4, 5, 6, 7):
            jobs.append((S.mkcfg(a, b, rec, 0, simd=rng.below(2)), rng.below(1 << 30), nfit))
    if not quick:
        jobs += [(c, rng.below(1 << 30), nfit) for c in S.pick_any(rng, 500) + S.pick_rational(rng, 300)]
    res = S.pool_map(job_c12, jobs)
    classes_hit, engines_hit = set(), set()
    n_cases = n_cmp = 0
    exact = {"scale_pow2": [0, 0], "shift_impl": [0, 0]}
    for t in res:
        if "error" in t:
            ctx.violation("paired-run job crashed on %s: %s" % (t["label"], t["error"][-600:]), {"config": t["cfg"], "traceback": t["error"]}, no_input=not S.lib_failed(t["error"]))
            continue
        if "skipped" in t:
            ctx.hist("skipped", t["skipped"][:50])
            continue
        n_cases += 1
        lim = lim1(t["bits"])
        sigs.add((t["engine"], t["plan"], "paired"))
        classes_hit.add(t["pclass"])
        engines_hit.add(t["engine"])
        ctx.hist("engine", t["engine"])
        ctx.hist("plan_class", t["pclass"])
        ctx.hist("designed_stages", t["designed"])
        ctx.hist("datatype_pair", "%d->%d" % t["dtypes"])
        if t.get("dtype_clips"):
            ctx.hist("datatype_clause_not_evaluated", "typed run clipped")
        if t.get("dft_blocks_spanned"):
            ctx.hist("dft_blocks_spanned", "%d" % min(20, int(t["dft_blocks_spanned"])))
        if "LP" in t:
            ctx.hist("implementation_period_ne_reduced", int((t["LP"], t["MP"]) != (t["L"], t["M"])))
        for key, what in CLAUSES:
            if key not in t:
                continue
            n_cmp += 1
            bound = t["dtype_bound"] if key == "dtype_err" else lim
            m = t[key] / bound
            wk = key + ("/(output resolution + scale x 2^(1-bits))" if key == "dtype_err" else "/2^(1-bits)")
            # known finding F-PH1 on DC / spectral clauses (F-SG4 is repaired in /repo, cd8ddc4: the scale / datatype clauses carry no allowance)
            if (t["flags"].get("F-PH1") or t["flags"].get("F-SG7")) and key in ("dc_err", "dc_scaled_err", "shift_reduced_err"):
                wk += " [F-PH1 / F-SG7 signature]"
            worst[wk] = max(worst.get(wk, 0), m)
            if m > 1 and key in ("dc_err", "dc_scaled_err", "shift_reduced_err"):
                fid = S.known_excess(t, "rowsum" if key.startswith("dc") else "res", m)
                if fid in ("F-PH1", "F-SG7"):
                    ctx.known(fid, S.known_text(fid, t, "%s: differs by %.3g of full scale = %.2f x 2^(1-bits)" % (what, t[key], m)))
                    continue
            if m > 1:
                ctx.violation("C12 %s: %s: differs by %.3g of full scale = %.2f x bound at output frame %d%s"
                              % (what, t["label"], t[key], m, t["where"].get(key, -1),
                                 (" (%d samples of the compared stretch out of bound)" % t[key.replace("_err", "_bad_samples")])
                                 if key.replace("_err", "_bad_samples") in t else ""),
                              {"config": t["cfg"], "plan": t["plan"], "engine": t["engine"], "clause": what, "signal_seed": t["seed"],
                               "input_frames": t["n_in"], "weights_a_b": t.get("ab"), "scale_pow2": t.get("scale_pow2"), "scale_general": t.get("scale_gen"),
                               "datatypes_itype_otype": t.get("dtypes"), "datatype_run_scale": t.get("dtype_scale"),
                               "implementation_period": [t.get("LP"), t.get("MP")], "reduced_period": [t["L"], t["M"]],
                               "shift_in_implementation_periods": t.get("shift_impl_multiple"), "tones_amp_freq_phase": t.get("shift_reduced_tones"),
                               "worst_output_frame": t["where"].get(key), "measured_level": t[key], "bound": bound,
                               "replay": "checks/c12.py job_c12((config, signal_seed, %d)) regenerates the signals" % nfit})
        exact["scale_pow2"][0] += 1
        exact["scale_pow2"][1] += int(t["scale_pow2_exact"])
        if "shift_impl_exact" in t:
            exact["shift_impl"][0] += 1
            exact["shift_impl"][1] += int(t["shift_impl_exact"])
        ctx.sample({"config": t["label"], "engine": t["engine"], "plan": t["plan"], "signal_seed": t["seed"], "input_frames": t["n_in"],
                    "margins(measured/2^(1-bits))": {k: round(t[k] / lim, 5) for k, _ in CLAUSES if k in t},
                    "scale_pow2": t["scale_pow2"], "scale_pow2_bit_exact": t["scale_pow2_exact"], "shift_impl_bit_exact": t.get("shift_impl_exact")})
    f1_seen = [t for t in res if t.get("f1")]
    S.report_f1(ctx, f1_seen, probe_f1_dc, "C12")
    ctx.count("paired_run_cases", n_cases)
    miss = S.missing_classes(classes_hit, S.REQUIRED_CLASSES + S.REQUIRED_ORDERS + [("cubic stage forced to carry the gain (ratio 1)", r"^cubic$")])
    miss += ["engine " + e for e in S.REQUIRED_ENGINES if e not in engines_hit]
    ctx.cov["plan_classes_hit"] = len(classes_hit)
    ctx.cov["required_classes_missing"] = miss
    for name in miss:
        ctx.violation("coverage: no paired-run case of this run went through the planner path `%s` (the covering pool no longer produces it)" % name,
                      {"missing_class": name, "classes_hit": sorted(classes_hit)}, no_input=True)
    ctx.count("clause_comparisons", n_cmp)
    ctx.cov["bit_exact_counts"] = {"scale_power_of_two": "%d of %d" % (exact["scale_pow2"][1], exact["scale_pow2"][0]),
                                   "shift_at_implementation_period": "%d of %d" % (exact["shift_impl"][1], exact["shift_impl"][0])}
    ctx.cov["worst_margins"] = {k: round(v, 6) for k, v in sorted(worst.items())}
    ctx.cov["worst_margins_note"] = "ratios measured/bound (< 1 holds); bound = 2^(1-bits) of full scale"
    ctx.count("evaluations", n_cases + len(plans) + sum(1 for r in rows if "pass" in r))
    ctx.cov["distinct_nontrivial"] = len(sigs)
    ctx.cov["rule"] = ("paired runs: the fixed core of 6 rational configurations plus the " + COVER_RULE % (
                       "coprime ratios a:b up to 12, halving chains, large up-sampling, audio rates and 25 irrational ratios x 14 recipes x engine x interpolation "
                       "order (auto, forced low / high) x knob in {recipe as is, a non-linear phase_response, moved band edges}") +
                       "Ratio 1 with a gain (the cubic stage forced to carry it) is added for both engine widths. Every case: seeded random 5-tone in-band "
                       "sums and uniform broadband noise over a stream spanning >= 3.3 blocks of every dft stage of the plan; superposition; io_spec.scale "
                       "(power of two, general, negative); DC; a datatype pair with different full scales (typed run vs scale x the float64 run of the same "
                       "sample values); shift covariance per sample in max norm at the implementation period (1 and k in 2..7 periods, broadband, beyond the "
                       "horizon) and at the reduced period (in-band, steady state), number of out-of-bound samples recorded. "
                       "distinct_nontrivial = distinct (engine, exported stage plan, kind of measurement) tuples actually measured.")
    ctx.assume(
        "the Lean theorems are about the MODEL (pipelines of ring-linear kernels, exact arithmetic); that the compiled floating-point kernels are "
        "such maps up to rounding is NOT proved (Soxr.C12.Goal_impl_near_linear) - its consequences are measured on sampled configurations and signals",
        "all 'within the configured precision' clauses are floating-point measurements on the real code, compared within 2^(1-bits) of full scale",
        "shift covariance at the implementation period is asserted beyond the start-up horizon only (intermediate streams drop their negative-time "
        "part); at the reduced period only for in-band signals in steady state (it is a spectral fact: C01/C02)",
        "that the planner never emits half-band stages alone (hypothesis of gain_always_carried) is checked on exported plans of the sweep, not proved",
        "F1 (non-linear phase + power-of-two-L dft stage with L not dividing block_len) is repaired in /repo (279ce1a) and listed as fixed: no configuration is "
        "set aside, non-linear phase with L = 8 .. 256 post stages is measured like everything else (the set-aside / child-process probe path of "
        "checks/_signal.py only returns if an F1 entry is listed as known again)",
        "datatype clause: the typed run may differ from io_spec.scale x the float64 run by the output format's resolution (integer rounding, TPDF "
        "dither for int16, float32 mantissa) plus scale x 2^(1-bits)",
        "known findings F-PH1 and F-SG7 (known_findings.d/signal.json) are recognised on the DC / row-sum / reduced-period clauses by a configuration/plan "
        "signature AND a symptom bound; their margins are listed separately under worst_margins ([F-PH1 / F-SG7 signature]); F-SG4 (first poly-phase tap not scaled by "
        "the gain) is repaired in /repo (cd8ddc4, listed as fixed): the scale / DC / datatype clauses are held to their ordinary tolerance everywhere",
    )
    if broken and not ctx.violations:
        ctx.violation("Lean obligations of C12 no longer check: " + "; ".join(broken)[:1500],
                      {"broken": broken, "falsifier": "measurement found no failing signal on this run"}, no_input=True)
