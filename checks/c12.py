"""C12 - linearity: unity DC gain, exact scale, superposition, shift covariance.

  proof stage   Lean: SoxrModel/Properties/C12.lean - the MODEL resampler (pipeline of ring-linear kernels) satisfies
                superposition, homogeneity, gain_once (the hand-over of `multiplier` in _soxr_init), dc_gain (unity gain <=>
                rows sum to 1) and shift covariance at the implementation period, exactly, for all signals + axiom audit
  tie           every exported plan: some designed stage exists whenever a half-band stage does (hypothesis of
                `gain_always_carried`); implementation period computed by the mirror of `Soxr.Signal.implPeriod`
  measurement   on the REAL code, compared within 2^(1-bits) of full scale with the measured margin recorded:
                superposition on random in-band and broadband signal pairs; io_spec.scale proportionality (powers of two:
                bit-exactness counted); DC convergence; row sums of the measured rows; shift covariance at the
                implementation period for broadband signals beyond the start-up horizon (bit-exactness counted) and at the
                reduced period for in-band steady-state signals
"""
import math
from fractions import Fraction
import numpy as np
from vlib import common
from checks import _signal as S

LEVEL = "proof"


def lim1(bits):
    return 2.0 ** (1 - bits)


def multitone(rg, N, fmax, shift=0.0, tones=None):
    """Sum of 5 in-band tones, |x| <= 0.45; `shift` delays it as a continuous-time signal (input frames)."""
    if tones is None:
        tones = [(rg.uniform(0.03, 0.09), rg.uniform(0.02, 0.98) * fmax, rg.uniform(0, 6.28)) for _ in range(5)]
    n = np.arange(N, dtype=float) - shift
    x = np.zeros(N)
    for (a, f, p) in tones:
        x += a * np.sin(math.pi * f * n + p)
    return x, tones


def job_c12(args):
    c, seed, nfit = args
    try:
        info, _ = S.run(c)
        if "error" in info:
            return {"cfg": c, "label": S.cfg_label(c), "skipped": "create failed: " + info["error"]}
        if not info.get("engine", "").startswith("cr") or S.bits_of(info) < 15:
            return {"cfg": c, "label": S.cfg_label(c), "skipped": "property does not speak (precision < 15 bits)"}
        if S.f1_exact(info):
            return {"cfg": c, "label": S.cfg_label(c), "skipped": "known finding F1 signature"}
        bits = S.bits_of(info)
        rg = np.random.default_rng(seed)
        ratio = float(c["ir"]) / float(c["orr"])
        wlo, whi = S.extents(c, 1.0 / ratio, 1.0)
        H = wlo + whi + 16
        N = int(math.ceil((nfit + 2 * H) * ratio)) + 8
        nyq_low = min(1.0, 1.0 / ratio)
        fmax = info["q"]["pb"] * nyq_low
        out = dict(cfg=c, label=S.cfg_label(c), engine=info["engine"], plan=S.plan_signature(info), bits=bits, seed=seed, n_in=N,
                   horizon=H, kinds="+".join(s["kind"] for s in info["stages"]) or "none", designed_ok=S.designed_ok(info),
                   designed=sum(1 for s in info["stages"] if s["kind"] != "half"))
        R = lambda x, **kw: S.run(c, x, **kw)[1]

        # --- superposition: in-band pair and broadband pair, whole stream (start-up included: linearity has no horizon)
        x1, _ = multitone(rg, N, fmax)
        x2, _ = multitone(rg, N, fmax)
        a, b = rg.uniform(-1, 1), rg.uniform(-1, 1)
        y1, y2 = R(x1), R(x2)
        y12 = R(a * x1 + b * x2)
        out["sup_inband"] = float(np.abs(y12 - (a * y1 + b * y2)).max())
        n1, n2 = rg.uniform(-0.45, 0.45, N), rg.uniform(-0.45, 0.45, N)
        z1, z2 = R(n1), R(n2)
        z12 = R(a * n1 + b * n2)
        out["sup_noise"] = float(np.abs(z12 - (a * z1 + b * z2)).max())
        out["ab"] = (a, b)

        # --- scale: a power of two (expected bit-exact: every coefficient is scaled exactly) and a general factor
        k = int(rg.choice([-4, -3, -2, -1, 1, 2, 3]))
        sp = 2.0 ** k
        ysp = R(x1, scale=repr(sp))
        out["scale_pow2"] = sp
        out["scale_pow2_err"] = float(np.abs(ysp - sp * y1).max() / sp)
        out["scale_pow2_exact"] = bool(np.array_equal(ysp, sp * y1))
        sg = float(rg.uniform(0.2, 3.0))
        ysg = R(n1, scale=repr(sg))
        out["scale_gen"] = sg
        out["scale_gen_err"] = float(np.abs(ysg - sg * z1).max() / sg)

        # --- DC: a full-scale constant converges to the same constant (times scale)
        ydc = R(np.ones(N))
        out["dc_err"] = float(np.abs(ydc[H:len(ydc) - H] - 1.0).max())
        ydcs = R(np.ones(N), scale=repr(sg))
        out["dc_scaled_err"] = float(np.abs(ydcs[H:len(ydcs) - H] - sg).max() / sg)

        # --- shift covariance at the implementation period, broadband, beyond the start-up horizon
        per = S.plan_period(info)
        fr = Fraction(c["orr"]).limit_denominator(1 << 20) / Fraction(c["ir"]).limit_denominator(1 << 20)
        L, M = fr.numerator, fr.denominator
        out["L"], out["M"] = L, M
        if per is not None and per[1] <= 20000 and per[0] * M == per[1] * L:
            LP, MP = per
            out["LP"], out["MP"] = LP, MP
            Hin = int(math.ceil(H * ratio / MP)) * MP
            xs = np.concatenate([np.zeros(Hin), n1[:max(1000, N - Hin)]])
            ya = R(xs)
            yb = R(np.concatenate([np.zeros(MP), xs]))
            m = int(0.98 * min(len(yb) - LP, len(ya)))
            if m > 100:
                d = np.abs(yb[LP:LP + m] - ya[:m])
                out["shift_impl_err"] = float(d.max())
                out["shift_impl_exact"] = bool(d.max() == 0)
                out["shift_impl_lead_zero"] = bool(np.all(yb[:LP] == 0) or np.abs(yb[:LP]).max() <= np.abs(ya[:1]).max())
            # --- shift covariance at the REDUCED period L/M, in-band signal in steady state (only a plan that runs on
            #     rational clocks implements the ratio L/M exactly; an interpolated stage rounds it: C04's allowance)
            if M <= 20000:
                xa, tones = multitone(rg, N + M, fmax)
                xb, _ = multitone(rg, N + M, fmax, shift=float(M), tones=tones)    # the same continuous-time signal M frames later
                ya, yb = R(xa), R(xb)
                lo, hi = H, min(len(ya), len(yb) - L) - H
                if hi - lo > 100:
                    out["shift_reduced_err"] = float(np.abs(yb[lo + L:hi + L] - ya[lo:hi]).max())
        return out
    except Exception:
        import traceback
        return {"cfg": c, "label": S.cfg_label(c), "error": traceback.format_exc()[-1500:]}


def job_plan(c):
    try:
        info, _ = S.run(c)
        if "error" in info:
            return None
        return (S.cfg_label(c), info.get("engine"), S.plan_signature(info), S.designed_ok(info), len(info["stages"]),
                sum(1 for s in info["stages"] if s["kind"] != "half"))
    except Exception:
        return None


CLAUSES = [  # (key in the job result, what, needs-rational)
    ("sup_inband", "superposition, in-band pair"),
    ("sup_noise", "superposition, broadband pair"),
    ("scale_pow2_err", "io_spec.scale = power of two (relative to the factor)"),
    ("scale_gen_err", "io_spec.scale general factor (relative to the factor)"),
    ("dc_err", "DC convergence (full-scale constant)"),
    ("dc_scaled_err", "DC convergence with io_spec.scale (relative to the factor)"),
    ("shift_impl_err", "shift covariance at the implementation period (M_P in -> L_P out), broadband, beyond the horizon"),
    ("shift_reduced_err", "shift covariance at the reduced period (M in -> L out), in-band, steady state"),
]


def run(ctx):
    broken = common.proof_stage(ctx, ["SoxrModel.Properties.C12"], "C12", exes=(), gens=())
    S.harness()
    rng = ctx.rng
    quick = ctx.quick
    worst, sigs = {}, set()

    # ---------------- tie: hypothesis of gain_always_carried on exported plans (plan export only; no signal)
    pool = S.all_rational() + [S.mkcfg(ir, orr, rec, qf, simd=s) for (ir, orr) in S.RATIOS_IRRATIONAL for (rec, qf) in S.RECIPES for s in (0, 1)]
    if quick:
        pool = [pool[rng.below(len(pool))] for _ in range(300)]
    plans = [p for p in S.pool_map(job_plan, pool) if p]
    bad = [p for p in plans if not p[3]]
    ctx.count("plans_exported", len(plans))
    ctx.cov["plans_with_two_or_more_designed_stages"] = sum(1 for p in plans if p[5] >= 2)
    ctx.cov["distinct_plans_exported"] = len(set((p[1], p[2]) for p in plans))
    for p in bad[:3]:
        ctx.violation("hypothesis of Soxr.C12.gain_always_carried fails: plan of %s consists of half-band stages only (%s): nothing carries io_spec.scale"
                      % (p[0], p[2]), {"config": p[0], "plan": p[2]}, no_input=True)

    # ---------------- row sums of the measured rows (the hypothesis of dc_unity_iff_rows)
    cfgs = list(S.QUICK_CORE) + S.pick_rational(rng, 2 if quick else 150, exclude=S.QUICK_CORE)
    rows = S.pool_map(S.job_rows, [(c, 700 if quick else 2000, 3e6 if quick else 8e6) for c in cfgs])
    n_rows = 0
    for r in rows:
        if "error" in r:
            ctx.violation("measurement crashed on %s: %s" % (r["label"], r["error"][-600:]), {"config": r["cfg"], "traceback": r["error"]}, no_input=True)
            continue
        if "skipped" in r:
            ctx.hist("rows_skipped", r["skipped"].split(":")[0][:60])
            continue
        n_rows += r["LP"]
        lim = lim1(r["bits"])
        m = r["pass"]["row_sum_dev"] / lim
        worst["row_sum_dev/2^(1-bits)"] = max(worst.get("row_sum_dev/2^(1-bits)", 0), m)
        sigs.add((r["engine"], r["plan"], "rows"))
        if m > 1:
            ctx.violation("C12 DC gain: %s: a row of the measured period sums to 1 %+.3g, off by %.2f x 2^(1-bits): a constant input does not "
                          "come out as the same constant" % (r["label"], r["pass"]["row_sum_dev"], m),
                          {"config": r["cfg"], "plan": r["plan"], "signal": "constant 1.0", "measured_level": r["pass"]["row_sum_dev"], "bound": lim})
    ctx.count("row_sums_measured", n_rows)

    # ---------------- paired runs on the real code
    if quick:
        cfgs = list(S.QUICK_CORE) + S.pick_any(rng, 10)
    else:
        cfgs = list(S.QUICK_CORE) + S.pick_any(rng, 500) + S.pick_rational(rng, 300)
    jobs = [(c, rng.below(1 << 30), 6000 if quick else 10000) for c in cfgs]
    res = S.pool_map(job_c12, jobs)
    n_cases = n_cmp = 0
    exact = {"scale_pow2": [0, 0], "shift_impl": [0, 0]}
    for t in res:
        if "error" in t:
            ctx.violation("paired-run job crashed on %s: %s" % (t["label"], t["error"][-600:]), {"config": t["cfg"], "traceback": t["error"]}, no_input=True)
            continue
        if "skipped" in t:
            ctx.hist("skipped", t["skipped"][:50])
            continue
        n_cases += 1
        lim = lim1(t["bits"])
        sigs.add((t["engine"], t["plan"], "paired"))
        ctx.hist("engine", t["engine"])
        ctx.hist("stage_kinds", t["kinds"])
        ctx.hist("designed_stages", t["designed"])
        if "LP" in t:
            ctx.hist("implementation_period_ne_reduced", int((t["LP"], t["MP"]) != (t["L"], t["M"])))
        for key, what in CLAUSES:
            if key not in t:
                continue
            n_cmp += 1
            m = t[key] / lim
            worst[key + "/2^(1-bits)"] = max(worst.get(key + "/2^(1-bits)", 0), m)
            if m > 1:
                ctx.violation("C12 %s: %s: differs by %.3g of full scale = %.2f x 2^(1-bits)" % (what, t["label"], t[key], m),
                              {"config": t["cfg"], "plan": t["plan"], "engine": t["engine"], "clause": what, "signal_seed": t["seed"],
                               "input_frames": t["n_in"], "weights_a_b": t.get("ab"), "scale_pow2": t.get("scale_pow2"), "scale_general": t.get("scale_gen"),
                               "implementation_period": [t.get("LP"), t.get("MP")], "reduced_period": [t["L"], t["M"]],
                               "measured_level": t[key], "bound": lim,
                               "replay": "checks/c12.py job_c12((config, signal_seed, %d)) regenerates the signals" % (6000 if quick else 10000)})
        exact["scale_pow2"][0] += 1
        exact["scale_pow2"][1] += int(t["scale_pow2_exact"])
        if "shift_impl_exact" in t:
            exact["shift_impl"][0] += 1
            exact["shift_impl"][1] += int(t["shift_impl_exact"])
        ctx.sample({"config": t["label"], "engine": t["engine"], "plan": t["plan"], "signal_seed": t["seed"], "input_frames": t["n_in"],
                    "margins(measured/2^(1-bits))": {k: round(t[k] / lim, 5) for k, _ in CLAUSES if k in t},
                    "scale_pow2": t["scale_pow2"], "scale_pow2_bit_exact": t["scale_pow2_exact"], "shift_impl_bit_exact": t.get("shift_impl_exact")})
    ctx.count("paired_run_cases", n_cases)
    ctx.count("clause_comparisons", n_cmp)
    ctx.cov["bit_exact_counts"] = {"scale_power_of_two": "%d of %d" % (exact["scale_pow2"][1], exact["scale_pow2"][0]),
                                   "shift_at_implementation_period": "%d of %d" % (exact["shift_impl"][1], exact["shift_impl"][0])}
    ctx.cov["worst_margins"] = {k: round(v, 6) for k, v in sorted(worst.items())}
    ctx.cov["worst_margins_note"] = "ratios measured/bound (< 1 holds); bound = 2^(1-bits) of full scale"
    ctx.count("evaluations", n_cases + len(plans) + sum(1 for r in rows if "pass" in r))
    ctx.cov["distinct_nontrivial"] = len(sigs)
    ctx.cov["rule"] = ("paired runs: the fixed core of 6 rational configurations (one per planner path; two of them with >= 2 designed stages, i.e. a "
                       "pre and a later stage for the gain hand-over) plus seeded random configurations (any ratio incl. irrational, recipe, flags, "
                       "engine); signals: seeded random 5-tone in-band sums and uniform broadband noise, weights and scale factors random. "
                       "distinct_nontrivial = distinct (engine, exported stage plan, kind of measurement) tuples actually measured.")
    ctx.assume(
        "the Lean theorems are about the MODEL (pipelines of ring-linear kernels, exact arithmetic); that the compiled floating-point kernels are "
        "such maps up to rounding is NOT proved (Soxr.C12.Goal_impl_near_linear) - its consequences are measured on sampled configurations and signals",
        "all 'within the configured precision' clauses are floating-point measurements on the real code, compared within 2^(1-bits) of full scale",
        "shift covariance at the implementation period is asserted beyond the start-up horizon only (intermediate streams drop their negative-time "
        "part); at the reduced period only for in-band signals in steady state (it is a spectral fact: C01/C02)",
        "that the planner never emits half-band stages alone (hypothesis of gain_always_carried) is checked on exported plans of the sweep, not proved",
        "configurations matching known finding F1 are skipped and counted",
    )
    if broken and not ctx.violations:
        ctx.violation("Lean obligations of C12 no longer check: " + "; ".join(broken)[:1500],
                      {"broken": broken, "falsifier": "measurement found no failing signal on this run"}, no_input=True)
