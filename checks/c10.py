"""C10 — history independence: soxr_clear = fresh; instances do not affect each other.

  proof      lean/SoxrModel/Properties/C10.lean on the model lean/SoxrModel/Chan/Clear.lean (`struct soxr` as a record, field
             by field; create / set_input_fn / set_io_ratio / set_num_channels / clear / delete0 / initialise / fatal_error as
             functions; every other call as a footprint; FFT cache and VR tables as process-wide state):
             clear_eq_fresh for EVERY prior state that a fatal error has not torn down, clear_torn_down_keeps_error for those,
             clear_resets, history_keeps_config / clear_after_history for every
             history, instances_independent_struct, fft_view_history_independent / instances_independent_partial (under
             the assumed prefix property of the FFT tables), and the negations vr_not_independent (F6) and
             (clear_forgets_ratio_without_channels: historical witness of F18, repaired in /repo by 76fe472; replayed).
  tie        (1) harness/chan/gen.c reads the member list of struct soxr, the members soxr_clear copies back from tmp, the
                 members soxr_set_input_fn / soxr_create / initialise assign, the memset / delete0 / RESET_ON_CLEAR shape,
                 out of the TEXT of /repo/src/soxr.c on every run -> Chan/Generated.lean; `decide` theorems compare them
                 with the model's literals (an added member, or one dropped from / added to the copies, breaks the build);
             (2) harness/chan/history.c `fields` (the real struct after create / set_input_fn / traffic / clear) vs the
                 compiled model (`soxr_chan`, lines `c10 …`) on generated histories, line by line (integers / flags).
  falsifier  harness/chan/history.c: the same job in different process histories (fresh process; other instances created,
             used, deleted before and in between — also with larger FFT sizes and other engines; partial streams,
             flushes, input-function failures followed by soxr_clear; clear twice; pull mode across clear) must print
             identical H lines (output hashes per channel, counts, delay bits, clips, error, log of every call); a
             first-instance matrix: every probe engine kind after every kind of FIRST instance of the process (VR up-only /
             unity / one / several octaves down, other datatypes, other gain; CR small / large DFT, float / double, linear /
             non-linear phase, cubic; created only / used / deleted; SIMD and portable engines) vs the fresh process; after
             clear the struct must be memcmp-equal field by field to a newly created twin (`structcmp`).
"""
import os
from vlib import common
from checks import chanlib as cl

LEVEL = "proof"
PID = "C10"
FS = {0: 1.0, 1: 1.0, 2: 65536.0 * 32768, 3: 32768.0}
BIG_RATIOS = [(1, 32), (1, 33), (1, 40), (1, 64), (1, 128), (750, 48000), (1200, 48000), (1, 100), (3, 128), (64, 1), (40, 1), (100, 1), (128, 3)]


def vr_mult(kv):
    return float(kv.get("scale", 1)) * FS[int(kv.get("otype", 1)) & 3] / FS[int(kv.get("itype", 1)) & 3]


def gen_cfg(rng, vr_ok=True, lsr_ok=True):
    kv, vr = cl.gen_real_cfg(rng, allow_vr=vr_ok)
    if lsr_ok and not vr and rng.chance(.12):
        kv["recipe"] = rng.choice([8, 9, 10, 11, 12, 13])   # LSR recipes (11..13 map to QQ / VHQ): no RESET_ON_CLEAR (88f0e06)
        kv["qflags"] = 0
    if not vr and rng.chance(.4):
        # the whole configuration space of the constant-rate planner (every recipe, steep filters, roll-offs, non-linear phase, precision,
        # runtime knobs; large up- and down-sampling factors favoured): every filter the planner designs, pads and caches is reached
        from checks import crcommon
        cfg, _ = crcommon.gen_config(rng, allow_nonlinear=True, max_up=130.0, max_down=200.0)
        if rng.chance(.4):
            cfg["ir"], cfg["or"] = map(str, rng.choice(BIG_RATIOS))
            if rng.chance(.6):
                cfg["phase"] = rng.choice([0, 10, 25, 45, 55, 75, 100])
        kv = dict(cfg)
    kv.update({"ch": rng.choice([1, 1, 2, 3]), "itype": rng.below(8), "otype": rng.below(8), "ioflags": 8,
               "amp": rng.choice([.4, .9, 1.3, 3.0]), "sigseed": rng.below(1000), "scale": rng.choice([1, 1, 1, .5, 3]),
               "threads": 1})
    return kv, vr


def other_traffic(rng, name, big=False):
    """lines that create, use and maybe delete another instance"""
    kv, vr = gen_cfg(rng)
    if big and not vr:
        kv.update({"recipe": 6, "ir": rng.choice([44100, 96000, 7]), "or": rng.choice([48000, 44100, 5])})   # larger DFTs
    lines = ["new %s %s" % (name, cl.kvline(kv))]
    ratio = float(kv["ir"]) / float(kv["or"])
    N = min(rng.below(6000), int(40000 * ratio) + 1)
    for op in cl.gen_schedule(rng, N, vr, ratio)[: 2 + rng.below(6)]:
        lines.append("%s %s" % (name, op))
    if rng.chance(.6):
        lines.append("del %s" % name)
    return lines, (vr, vr_mult(kv) if vr else None)


def partial_traffic(rng, name, kv, vr, allow_fn=True, fn_registered=False):
    """X is used for a while (partial stream, maybe flush, maybe an input-function failure), then cleared.
    allow_fn: may register an input function; fn_registered: one is registered already (then only pull-mode calls: pushing
    input after the registered function has reported end-of-input is outside the API contract).
    Returns (lines, max_ilen registered by these lines or None)"""
    ratio = float(kv["ir"]) / float(kv["or"])
    lines = []
    if fn_registered:
        lines.append("%s limit %d" % (name, rng.choice([0, 300, 4000])))
        for _ in range(1 + rng.below(4)):
            toks = " ".join("d%d" % rng.choice([1, 50, 100, 1000]) for _ in range(1 + rng.below(3)))
            lines.append("%s pull %d %s%s" % (name, rng.choice([1, 100, 500]), toks, " f" if rng.chance(.2) else ""))
        return lines, None
    k = rng.below(4)
    if not allow_fn:
        k = rng.choice([0, 3])
    if k == 0:
        lines += ["%s limit 100000" % name] + ["%s feed %d %d %d" % (name, rng.choice([1, 100, 1000]), rng.choice([10, 500]), rng.below(2)) for _ in range(1 + rng.below(5))]
    elif k == 1:
        lines += ["%s %s" % (name, op) for op in cl.gen_schedule(rng, min(rng.below(4000), int(40000 * ratio) + 1), vr, ratio)]          # complete stream incl. flush
    elif k == 2:
        lines += ["%s limit 5000" % name, "%s setfn 64" % name, "%s pull 300 d100 d100 f" % name, "%s pull 10" % name]   # failure -> sticky error
    else:
        lines += ["%s limit 3000" % name, "%s feed 700 100 0" % name, "%s proc 0 0 0 0 50" % name]                 # flush requested mid-way
    if vr and rng.chance(.6):
        # the variable-rate engine's ratio is moved during the history (soxr_set_io_ratio): soxr_clear must go back to the ratio of creation
        for _ in range(1 + rng.below(3)):
            at = 1 + rng.below(len(lines)) if lines else 0
            lines.insert(at, "%s ratio %.6f %d" % (name, ratio * rng.choice([.25, .5, .7, .9]), rng.choice([0, 0, 100, 1000])))
    reg = [int(l.split()[2]) for l in lines if l.split()[1] == "setfn"]
    return lines, (reg[-1] if reg else None)


def gen_case(rng, ctx):
    """one probe job X and several histories around it; returns (kv, vr, [(label, lines, first_vr_mult_before_X)])"""
    kv, vr = gen_cfg(rng, lsr_ok=True)
    N = rng.choice([0, 1, 500]) if rng.chance(.2) else rng.below(8000 if ctx.quick else 30000)
    ratio = float(kv["ir"]) / float(kv["or"])
    N = min(N, int(60000 * ratio) + 1)
    job = cl.gen_schedule(rng, N, vr, ratio)
    pull = any(o.startswith("setfn") for o in job)
    newx = "new X " + cl.kvline(kv)
    jobx = ["X " + o for o in job] + ["X hash"]
    hs = [("fresh", [newx] + jobx, None)]
    # others before
    pre, first = [], None
    for i in range(1 + rng.below(3)):
        l, (v, m) = other_traffic(rng, "O%d" % i, big=rng.chance(.4))
        pre += l
        if v and first is None:
            first = m
    if vr and rng.chance(.6):
        # a VR instance with the SAME mult but another ratio class comes first: nothing may change (F6 does not apply)
        kv0 = dict(kv); kv0["ir"], kv0["or"] = rng.choice([(1, 2), (1, 1), (11, 5), (40, 1), (3, 1), (2, 3)]); kv0["ch"] = 1
        pre = ["new V0 " + cl.kvline(kv0)] + (["V0 limit 500", "V0 oneshot 500 %d" % (500 * int(kv0["or"]) // int(kv0["ir"]) + 200)] if rng.chance(.5) else []) \
              + (["del V0"] if rng.chance(.3) else []) + pre
        first = vr_mult(kv0)
    hs.append(("others-before", pre + [newx] + jobx, first))
    # clear after partial traffic (and a twin for structcmp)
    # an input function registered before the clear stays registered (by design): only for jobs that register their own
    setfn = ["X setfn %d" % rng.choice([0, 64, 1000])] if (pull and rng.chance(.3)) else []
    part, fnreg = partial_traffic(rng, "X", kv, vr, allow_fn=pull, fn_registered=bool(setfn))
    twin_fn = ["Y setfn %d" % fnreg] if fnreg is not None else [s.replace("X ", "Y ", 1) for s in setfn]
    twin = ["new Y " + cl.kvline(kv)] + twin_fn
    lines = [newx] + setfn + part + ["X clear"] + twin + ["X structcmp Y", "del Y"]
    hs.append(("clear-after-traffic", lines + jobx, None))
    # clear twice + others in between
    mid, first2 = [], None
    l, (v, m) = other_traffic(rng, "M0", big=rng.chance(.5))
    mid += l
    if v:
        first2 = m
    hs.append(("clear-twice-others-between", [newx] + part + ["X clear"] + mid + ["X clear"] + jobx, None if vr_first_is_x(vr) else first2))
    # others in between the job's calls
    inter = [newx]
    f3 = None
    for k, o in enumerate(jobx):
        inter.append(o)
        if k < len(jobx) - 1 and rng.chance(.3):
            l, (v, m) = other_traffic(rng, "I%d" % k)
            inter += l
    hs.append(("others-in-between", inter, None))
    return kv, vr, hs


def vr_first_is_x(vr):
    return vr


def run_history(exe, lines, simd=None, perturb=None):
    """perturb: glibc's MALLOC_PERTURB_ byte - fresh malloc'ed (not calloc'ed) memory and freed memory are filled with it, so that a
    result that depends on heap contents the library never wrote differs from run to run instead of reading zeros by luck"""
    env = None if simd is None and not perturb else dict(os.environ)
    if isinstance(simd, str):          # "32=0" / "64=1" ...: the per-width overrides SOXR_USE_SIMD32 / SOXR_USE_SIMD64
        for v in ("SOXR_USE_SIMD", "SOXR_USE_SIMD32", "SOXR_USE_SIMD64"): env.pop(v, None)
        w, val = simd.split("=")
        env["SOXR_USE_SIMD" + w] = val
    elif simd is not None: env["SOXR_USE_SIMD"] = str(simd)
    if perturb: env["MALLOC_PERTURB_"] = str(perturb)
    rc, out, err = cl.run_text(exe, lines, timeout=900, env=env)
    return rc, out, err


def hline(out, name="X"):
    hs = [l for l in out if l.startswith("H %s " % name)]
    return hs[-1] if hs else None


def falsifier(ctx, ncases):
    exe = cl.exe_history()
    active = {f["id"] for f in common.known_active(PID)}
    nviol = 0
    cases = []
    for _ in range(ncases):
        kv, vr, hs = gen_case(ctx.rng, ctx)
        # portable engines (SOXR_USE_SIMD=0) use fft4g and its process-wide table cache; the SIMD ones use pffft set-ups
        # ... and the per-width overrides alone (SOXR_USE_SIMD32 / SOXR_USE_SIMD64): the engine of one precision class must not depend on
        # what was decided for an object of the other class earlier in the process
        simd = 0 if ctx.rng.chance(.4) else ctx.rng.choice(["32=0", "64=0", "32=1", "64=1"]) if ctx.rng.chance(.35) else None
        # heap contents the library did not write must not matter either: the fresh process runs on the untouched (zero) heap, every
        # other history with malloc'ed and freed memory filled with a byte of its own
        perturbs = [None] + [ctx.rng.choice([None, 85, 170, 255, 1]) for _ in hs[1:]]
        cases.append((kv, vr, hs, simd, perturbs))

    def work(case):
        kv, vr, hs, simd, perturbs = case
        return [run_history(exe, lines, simd, pb) for (label, lines, first_vr), pb in zip(hs, perturbs)]
    from concurrent.futures import ThreadPoolExecutor
    with ThreadPoolExecutor(common.NCPU) as ex:
        results = list(ex.map(work, cases))
    for (kv, vr, hs, simd, perturbs), runs in zip(cases, results):
        ctx.hist("case_simd", "portable(fft4g cache)" if simd == 0 else "SOXR_USE_SIMD" + simd if isinstance(simd, str) else "default")
        ref = None
        ctx.count("cases")
        ctx.hist("case_engine", "vr" if vr else "cr recipe %s" % kv["recipe"])
        for (label, lines, first_vr), pb, (rc, out, err) in zip(hs, perturbs, runs):
            ctx.count("histories")
            ctx.hist("history_kind", label)
            ctx.hist("history_heap", "perturbed" if pb else "zero")
            h = hline(out)
            rep_env = {"SOXR_USE_SIMD": simd, "MALLOC_PERTURB_": pb}
            if rc != 0 or h is None:
                nviol += 1
                ctx.violation("history harness failed (rc=%s) in history `%s`: %s" % (rc, label, (out[-2:] + [err[-300:]])),
                              dict(rep_env, harness="chan/history.c", stdin=lines))
                continue
            sc = [l for l in out if l.startswith("SC ")]
            for l in sc:
                ctx.count("structcmp")
                if not l.endswith("equal"):
                    nviol += 1
                    ctx.violation("after soxr_clear the struct differs from a newly created twin: " + l,
                                  dict(rep_env, harness="chan/history.c", stdin=lines))
            if any(l.startswith("E ") and "clear" in l for l in out):
                nviol += 1
                ctx.violation("soxr_clear returned an error: " + [l for l in out if l.startswith("E ")][0], dict(rep_env, harness="chan/history.c", stdin=lines))
            if ref is None:
                ref = (label, lines, h)
                continue
            if h != ref[2]:
                # F6 signature: X is a VR instance and the FIRST VR instance of that process had another `mult`
                if vr and first_vr is not None and abs(first_vr - vr_mult(kv)) > 1e-12 * abs(first_vr) and "F6" in active:
                    ctx.known("F6", "VR instance after an earlier VR instance with another gain (mult %g, own %g): output differs from the "
                                    "fresh-process run (static coefficient tables are written once, by the first VR instance)" % (first_vr, vr_mult(kv)))
                    ctx.count("F6_hits")
                else:
                    nviol += 1
                    if nviol <= 12:
                        ctx.violation("the same job gives different results in history `%s`%s and in a fresh process:\n %s\n %s"
                                      % (label, " (heap filled with byte %s)" % pb if pb else "", h, ref[2]),
                                      dict(rep_env, harness="chan/history.c", stdin=lines, reference_stdin=ref[1]))
            else:
                ctx.count("identical_histories")
        ctx.sample({"job": cl.kvline(kv), "histories": [h[0] for h in hs]})
    return nviol


def pinned_mixed_pairs(ctx):
    """OUTPUT SAMPLES after soxr_clear for mixed datatype pairs, on every run (not left to the random draw): the job after one
    and after two clears must print the H line (per-channel output hashes, counts, clips, delay) of the fresh-process run.
    A datatype full-scale factor applied again on re-initialisation, or a gain / rounding state surviving the clear, shows here."""
    exe = cl.exe_history()
    n = 0
    for it, ot in [(3, 0), (0, 3), (2, 1), (3, 2), (1, 7), (6, 3), (0, 0)]:
        for extra in ["recipe=4 ir=1 or=2", "recipe=1 ir=3 or=2 scale=0.5", "recipe=4 qflags=32 ir=2 or=1"]:
            cfg = "%s ch=2 itype=%d otype=%d ioflags=8 amp=0.7 sigseed=5 threads=1" % (extra, it, ot)
            job = ["X limit 3000", "X feed 1000 700 0", "X feed 2000 5000 1", "X drain 500", "X hash"]
            fresh = ["new X " + cfg] + job
            once = ["new X " + cfg, "X limit 900", "X feed 900 300 0", "X clear"] + job
            twice = ["new X " + cfg, "X limit 900", "X feed 900 300 0", "X clear", "X limit 100", "X oneshot 100 400", "X clear"] + job
            h0 = hline(run_history(exe, fresh)[1])
            for label, lines in (("after one clear", once), ("after two clears", twice)):
                h = hline(run_history(exe, lines)[1])
                n += 1
                if h0 is None or h != h0:
                    ctx.violation("output after soxr_clear differs from a fresh resampler (datatypes %d -> %d, %s):\n %s\n %s" % (it & 3, ot & 3, label, h, h0),
                                  {"harness": "chan/history.c", "stdin": lines, "reference_stdin": fresh})
    ctx.cov["pinned_mixed_datatype_clear_runs"] = n


PROBES = [("vr-up", "recipe=4 qflags=32 ir=1 or=2", ""), ("vr-down1", "recipe=4 qflags=32 ir=96000 or=44100", ""),
          ("vr-down3", "recipe=4 qflags=32 ir=9 or=1", ""), ("vr-slew", "recipe=4 qflags=32 ir=2 or=1", "X ratio 0.8 500"),
          ("cr-hq", "recipe=4 ir=44100 or=48000", ""), ("cr-vhq", "recipe=6 ir=3 or=2", ""), ("cr-lq", "recipe=1 ir=2 or=1", ""),
          ("cr-qq", "recipe=0 ir=3 or=1", ""), ("cr-minphase", "recipe=4 phase=0 ir=2 or=1", ""), ("cr-lsr", "recipe=8 ir=48000 or=44100", "")]
# what came FIRST in the process, along every axis process-wide state could depend on
FIRSTS = [("vr-up-only", "recipe=4 qflags=32 ir=1 or=2", 1.0), ("vr-unity", "recipe=4 qflags=32 ir=1 or=1", 1.0),
          ("vr-down-1-octave", "recipe=4 qflags=32 ir=11 or=5", 1.0), ("vr-down-many-octaves", "recipe=4 qflags=32 ir=40 or=1", 1.0),
          ("vr-int16-same-mult", "recipe=4 qflags=32 ir=3 or=1 itype=3 otype=3", 1.0), ("vr-other-mult", "recipe=4 qflags=32 ir=2 or=1 scale=3", 3.0),
          ("cr-small-dft", "recipe=1 ir=2 or=1", None), ("cr-large-dft-double", "recipe=6 ir=44100 or=48000", None),
          ("cr-float", "recipe=4 ir=3 or=2", None), ("cr-double-flag", "recipe=4 qflags=16 ir=3 or=2", None),
          ("cr-nonlinear-phase", "recipe=4 phase=0 ir=48000 or=44100", None), ("cr-qq", "recipe=0 ir=5 or=1", None)]
USAGES = [("created-only", []), ("used", ["A limit 800", "A oneshot 800 4000"]), ("used-deleted", ["A limit 800", "A oneshot 800 4000", "del A"])]


def first_instance_matrix(ctx):
    """Every probe engine kind after every kind of FIRST instance (VR: up-sampling only / unity / one octave / several octaves
    down, other datatypes, other gain; CR: small / large DFT, float / double, linear / non-linear phase, cubic), the first
    instance merely created, used, or used and deleted; SIMD and portable (fft4g cache) engines: hash of every channel,
    counts, delay bits, clips and the call log must equal the probe in a fresh process.  The only listed exception is F6
    (VR probe, first VR instance of the process had another mult)."""
    exe = cl.exe_history()
    active = {f["id"] for f in common.known_active(PID)}
    common_kv = "ch=2 itype=0 otype=0 ioflags=8 amp=0.6 sigseed=3 threads=1"
    n = same = 0
    for simd in (None, 0):
        for pname, pcfg, extra in PROBES:
            job = ["X limit 4000", "X feed 1500 900 0"] + ([extra] if extra else []) + ["X feed 2500 6000 1", "X drain 700", "X hash"]
            newx = "new X %s %s" % (pcfg, common_kv)
            h0 = hline(run_history(exe, [newx] + job, simd)[1])
            probe_vr = "qflags=32" in pcfg
            for fname, fcfg, fmult in FIRSTS:
                usages = USAGES
                for uname, ulines in usages:
                    kv = fcfg if "itype" in fcfg else fcfg + " itype=0 otype=0"
                    lines = ["new A %s ch=1 ioflags=8 amp=0.5 threads=1" % kv] + ulines + [newx] + job
                    h = hline(run_history(exe, lines, simd)[1])
                    n += 1
                    ctx.hist("matrix_first", fname); ctx.hist("matrix_probe", pname)
                    if h is not None and h == h0:
                        same += 1
                        continue
                    if probe_vr and fmult is not None and fmult != 1.0 and "F6" in active and h is not None:
                        ctx.known("F6", "VR probe after a first VR instance with another gain (mult %g, own 1): output differs from the fresh process" % fmult)
                        continue
                    ctx.violation("probe `%s` after first instance `%s` (%s)%s differs from the same probe in a fresh process:\n %s\n %s"
                                  % (pname, fname, uname, " [SOXR_USE_SIMD=0]" if simd == 0 else "", h, h0),
                                  {"harness": "chan/history.c", "stdin": lines, "reference_stdin": [newx] + job, "SOXR_USE_SIMD": simd})
    ctx.cov["first_instance_matrix"] = {"runs": n, "identical": same, "probes": len(PROBES), "first_kinds": len(FIRSTS)}
    ctx.count("histories", n)


def replay_F6(ctx):
    exe = cl.exe_history()
    job = ["X oneshot 2000 5000", "X hash"]
    b = "ir=2 or=1 recipe=4 qflags=32 itype=0 otype=0 ch=1 ioflags=8 amp=0.5"
    rc1, o1, _ = run_history(exe, ["new X %s scale=3" % b] + job)
    rc2, o2, _ = run_history(exe, ["new A %s scale=1" % b, "new X %s scale=3" % b] + job)
    rc3, o3, _ = run_history(exe, ["new A %s scale=3" % b, "A oneshot 500 2000", "del A", "new X %s scale=3" % b] + job)
    h1, h2, h3 = hline(o1), hline(o2), hline(o3)
    ctx.cov["F6_replay"] = {"fresh_vs_after_other_gain_differs": h1 != h2, "same_gain_identical": h1 == h3}
    active = {f["id"] for f in common.known_active(PID)}
    lines = ["new A %s scale=1" % b, "new X %s scale=3" % b] + job
    if h1 is None or h2 is None or h3 is None:
        ctx.violation("F6 replay did not run", {"harness": "chan/history.c", "stdin": lines}, no_input=True)
    elif h1 != h2:
        if "F6" in active:
            ctx.known("F6", "VR engine: scale 3 after an instance with scale 1 gives another output than in a fresh process (vr32.c vr_init: "
                            "static tables baked with the first instance's mult); Lean witness vr_not_independent")
        else:
            ctx.violation("VR engine output depends on an earlier instance's gain", {"harness": "chan/history.c", "stdin": lines})
    elif "F6" in active:
        ctx.violation("finding F6 is listed as known but its witness no longer reproduces (model and code have parted: vr_not_independent "
                      "describes the pinned write-once tables)", {"harness": "chan/history.c", "stdin": lines}, no_input=True)
    if h1 is not None and h3 is not None and h1 != h3:
        ctx.violation("VR engine: same gain in an earlier instance, yet output differs from the fresh process", {"harness": "chan/history.c",
                      "stdin": ["new A %s scale=3" % b, "A oneshot 500 2000", "del A", "new X %s scale=3" % b] + job})


# ------------------------------------------------------------------------------------------------ fields correspondence

def fields_correspondence(ctx, ncases):
    """history.c `fields` vs the Lean struct model, line by line.  Returns first mismatch or None."""
    exe = cl.exe_history()
    rng = ctx.rng
    n = 0
    for _ in range(ncases):
        kv, vr = gen_cfg(rng)
        zero_ch = rng.chance(.12)
        unconf = (not zero_ch) and rng.chance(.12)
        if zero_ch:
            kv["ch"] = 0
        if unconf:
            kv["ir"] = 0; kv["or"] = 0
        reset = 1 if (int(kv["recipe"]) & 15) < 8 else 0
        # a deferred object whose quality spec the engine will reject once it is initialised: soxr_create accepts it (nothing is
        # built yet), the late soxr_set_io_ratio / soxr_set_num_channels fails inside initialise -> fatal_error tears it down
        bad = (zero_ch or unconf) and not vr and reset and rng.chance(.5)
        if bad:
            kv.update(dict([rng.choice([("prec", 100), ("prec", 3), ("phase", 150)])]) if rng.chance(.6) else {"pb": 1.5, "sb": 1.2})
        c_lines, m_lines, expect = [], [], []

        def both(c, m):
            c_lines.append(c); m_lines.append(m)
        both("new X " + cl.kvline(kv), None)
        both("X fields", "c10 new X %d %d %d %d%s" % (int(kv["ch"]), 0 if unconf else 7, reset, 1 if vr else 0, " bad" if bad else ""))
        live = not zero_ch and not unconf
        registered = False
        flushed = False
        late = False                                         # deferred configuration supplied
        for _ in range(2 + rng.below(6)):
            k = rng.below(10)
            if k < 2:
                m = rng.choice([0, 1, 64, 100000])
                both("X setfn %d" % m, None); both("X fields", "c10 X setfn %d" % m)
                registered = True
            elif k < 6 and live and not flushed:
                tl, fnreg = partial_traffic(rng, "X", kv, vr, fn_registered=registered)
                registered = registered or fnreg is not None
                flushed = True                               # the stream may have ended: no more traffic until the next clear
                for l in tl:
                    both(l, None)
                if fnreg is not None:
                    both(None, "c10 X setfn %d" % fnreg)
                both("X fields", "DYN")
            elif k < 6 and (zero_ch or unconf) and not late:
                # the deferred parameter arrives: initialise runs now (and fails for a bad spec: the object is torn down)
                late = True
                if unconf:
                    both("X ratio 2 0", None); both("X fields", "c10 X ratio 7")
                else:
                    both("X setch 2", None); both("X fields", "c10 X setch 2")
                ctx.count("torn_down_objects" if bad else "late_configured_objects")
                if bad and rng.chance(.5):
                    # processing calls on the torn-down handle must return its error, not crash
                    both("X proc 1 0 1 10 10", None); both("X pull 5", None); both("X fields", "c10 X fields")
            elif k < 9:
                both("X clear", "c10 X clear")
                flushed = False
                if not reset and not unconf and (not zero_ch or late):
                    both(None, "c10 X ratio 7")          # history.c re-establishes the ratio as soxr-lsr.c does
                both(None, "c10 X pin")                  # history.c pins the dither seed after soxr_clear
                both("X fields", "c10 X fields")
        rc, out, err = run_history(exe, [l for l in c_lines if l])
        fl = [l for l in out if l.startswith("F X")]
        # build the model input, resolving DYN from the real answers (the footprint of process/output: error, clips, flushing)
        mi, k = [], 0
        want = []
        fi = iter(fl)
        pending = []
        for c, m in zip(c_lines, m_lines):
            real = None
            if c in ("X fields", "X clear"):
                real = next(fi, None)
            if m is None:
                continue
            if m == "DYN":
                if real is None:
                    break
                kvs = dict(t.split("=") for t in real.split()[2:])
                m = "c10 X dyn %s %s %s" % (kvs["error"], kvs["clips"], kvs["flushing"])
            mi.append(m)
            want.append(real)
        rl, mo, me = cl.run_text(cl.CHAN_EXE, mi)
        if rc != 0 or rl != 0 or len(mo) != len(mi):
            return {"real_stdin": [l for l in c_lines if l], "model_stdin": mi, "real": "rc=%s %s" % (rc, err[-300:]), "model": "rc=%s %s" % (rl, me[-300:])}
        for w, g, m in zip(want, mo, mi):
            if w is None:
                continue
            n += 1
            w2 = " ".join(t for t in w.split() if not t.startswith("io_ratio="))
            if w2 != g:
                return {"real_stdin": [l for l in c_lines if l], "model_stdin": mi, "at": m, "real": w2, "model": g}
        ctx.hist("fields_case", "torn-down" if (bad and late) else "ch0" if zero_ch else "unconfigured" if unconf else ("vr" if vr else "reset" if reset else "lsr"))
    ctx.count("fields_lines", n)
    return None


def torn_down_histories(ctx):
    """Deferred objects (0 channels or 0 rates) whose spec the engine rejects when the deferred parameter arrives: fatal_error
    tears them down.  Then (commit b5a678f, F40; theorems clear_torn_down_keeps_error / torn_down_absorbing): soxr_clear returns
    the error and changes nothing (struct memcmp against a twin that was not cleared), also the second time and with an
    input function registered; soxr_process / soxr_output return the error (no crash, no output, no input consumed);
    soxr_engine answers "none"."""
    exe = cl.exe_history()
    n = 0
    for bad in ["prec=100", "prec=3", "phase=150", "pb=1.5 sb=1.2"]:
        for recipe in (4, 6, 1):
            for path in ("ratio", "setch"):
                base = ("ir=0 or=0 ch=2" if path == "ratio" else "ir=3 or=2 ch=0") + " recipe=%d %s itype=%d otype=%d" % (recipe, bad, ctx.rng.below(8), ctx.rng.below(8))
                late = "ratio 1.5 0" if path == "ratio" else "setch 2"
                lines = ["new X " + base, "X " + late, "new Y " + base, "Y " + late, "X structcmp Y", "X clear", "X structcmp Y",
                         "X setfn 64", "Y setfn 64", "X clear", "X clear", "X structcmp Y",
                         "X proc 1 0 1 100 100", "X proc 0 0 0 0 50", "X pull 30 d10", "X hash",
                         # (soxr_process latches `flushing` before it looks at the error: the twin gets the same calls)
                         "Y proc 1 0 1 100 100", "Y proc 0 0 0 0 50", "Y pull 30 d10", "X clear", "X structcmp Y", "del X", "del Y"]
                rc, out, err = run_history(exe, lines)
                n += 1
                sc = [l for l in out if l.startswith("SC ")]
                h = hline(out)
                nclr = len([l for l in out if l.startswith("E X clear")])
                ok = (rc == 0 and len(sc) == 4 and all(l.endswith("equal") for l in sc) and nclr == 4 and h is not None
                      and " engine=none " in h and " out=0 " in h and " pos=0 " in h and " err=E " in h
                      and any(l.startswith("E X " + late.split()[0]) for l in out))
                if not ok:
                    ctx.violation("a resampler torn down by a failed deferred initialisation (%s, %s) is not left alone by soxr_clear / "
                                  "does not answer processing calls with its error: rc=%s %s" % (bad, path, rc, (sc + [h or "no H line"] + [err[-200:]])),
                                  {"harness": "chan/history.c", "stdin": lines})
    ctx.cov["torn_down_histories"] = n
    ctx.count("histories", n)


def replay_F18(ctx):
    exe = cl.exe_history()
    lines = ["new X ir=2 or=1 ch=0 recipe=4", "X fields", "X clear", "X fields"]
    rc, out, err = run_history(exe, lines)
    f = [dict(t.split("=") for t in l.split()[2:]) for l in out if l.startswith("F X")]
    active = {x["id"] for x in common.known_active(PID)}
    ok = len(f) >= 3 and f[0]["io_ratio_set"] == "1" and f[1]["io_ratio_set"] == "0"
    ctx.cov["F18_replay"] = {"ratio_forgotten": ok}
    if ok:
        if "F18" in active:
            ctx.known("F18", "soxr_clear on a resampler created with 0 channels (channel count to be set later) forgets io_ratio and returns "
                             "\"must set # channels before O/I ratio\": a fresh soxr_create keeps the ratio; Lean witness clear_forgets_ratio_without_channels")
        else:
            ctx.violation("soxr_clear forgets io_ratio of a resampler whose channel count is not set yet", {"harness": "chan/history.c", "stdin": lines})
    elif "F18" in active:
        ctx.violation("finding F18 is listed as known but its witness no longer reproduces (model and code have parted)",
                      {"harness": "chan/history.c", "stdin": lines, "out": out}, no_input=True)


def run(ctx):
    if getattr(ctx, "replay", None):
        import json
        r = json.load(open(ctx.replay))["replay"]
        if "stdin" in r:
            rc, out, err = run_history(cl.exe_history(), r["stdin"], r.get("SOXR_USE_SIMD"), r.get("MALLOC_PERTURB_"))
            print("\n".join(out[-30:]))
            if "reference_stdin" in r:
                rc2, out2, _ = run_history(cl.exe_history(), r["reference_stdin"], r.get("SOXR_USE_SIMD"))
                print("reference: %s" % hline(out2))
                if hline(out) != hline(out2):
                    ctx.violation("replay reproduces: histories differ", r)
            elif any(l.startswith("SC") and not l.endswith("equal") for l in out) or rc != 0:
                ctx.violation("replay reproduces", r)
        return
    broken = common.proof_stage(ctx, ["SoxrModel.Properties.C10"], "C10", exes=("soxr_chan",), gens=("Chan",))
    mismatch = None
    if os.path.exists(cl.CHAN_EXE):
        mismatch = fields_correspondence(ctx, 250 if ctx.quick else 5000)
    else:
        broken.append("driver soxr_chan was not built")
    nviol = falsifier(ctx, 240 if ctx.quick else 6000)
    pinned_mixed_pairs(ctx)
    first_instance_matrix(ctx)
    torn_down_histories(ctx)
    replay_F6(ctx)
    replay_F18(ctx)
    if mismatch:
        ctx.violation("struct soxr on the real code and in the model disagree at `%s`:\n real  %s\n model %s"
                      % (mismatch.get("at"), mismatch["real"], mismatch["model"]),
                      {"harness": "chan/history.c", "stdin": mismatch["real_stdin"], "model_stdin": mismatch["model_stdin"]},
                      no_input=False)
    ctx.count("evaluations", ctx.cov.get("histories", 0) + ctx.cov.get("fields_lines", 0))
    ctx.cov["distinct_nontrivial"] = len(ctx.cov.get("history_kind", {})) * max(1, len(ctx.cov.get("case_engine", {})))
    ctx.cov["rule"] = ("falsifier: random probe job (engine/recipe/rates/datatypes/layout/scale, push|pull|one-shot schedule) run in 5 process "
                       "histories (fresh; other instances before, also large-DFT and VR ones; clear after partial stream / flush / input-function "
                       "failure + struct memcmp against a new twin; clear twice with other instances between; other instances between the job's "
                       "calls) + the first-instance matrix (probe kinds x kinds of first instance x usage x SIMD/portable): H lines (per-channel output hashes, counts, delay bits, clips, error, call log) must be identical.  tie: "
                       "generated member lists of struct soxr / soxr_clear / soxr_set_input_fn / soxr_create / initialise vs the model's (decide); "
                       "`fields` of the real struct vs the compiled model after create / set_input_fn / traffic / clear on random histories incl. "
                       "0-channel and unconfigured objects and LSR recipes")
    ctx.assume("fft4g / pffft tables built for a larger length agree with those for length n on the entries a length-n transform reads "
               "(FftTables.prefix_ok): assumed, exercised by the falsifier (histories with larger transforms before / between)",
               "engine creation is a deterministic function of (control block, io_ratio, q_spec, runtime_spec, scale) and the process-wide "
               "tables; allocation does not fail (C20)",
               "the dither seed cannot be 'as new' after clear (a new object seeds from time and address, clear leaves 0): the falsifier pins it",
               "every API call other than create / set_input_fn / set_io_ratio / set_num_channels / clear / delete stays inside the footprint Dyn "
               "(engines' contents, channel_ptrs' contents, error, clips, seed, flushing)")
    for b in broken:
        ctx.violation("proof obligation no longer checks: " + b,
                      {"broken": b, "searched": "%d histories, %d struct comparisons, %d fields lines" % (
                          ctx.cov.get("histories", 0), ctx.cov.get("structcmp", 0), ctx.cov.get("fields_lines", 0))},
                      no_input=(nviol == 0 and not mismatch))
